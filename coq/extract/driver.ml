(* driver.ml — runs the extracted model on cases in the line format shared with
   the Rust harness (see tools/vplib.py for the format) and prints one canonical
   observation line per case.  Trusted glue: conversions int <-> N, parsing, printing. *)
open Model

let rec pos_of_int n = if n = 1 then XH else if n land 1 = 0 then XO (pos_of_int (n lsr 1)) else XI (pos_of_int (n lsr 1))
let n_of_int n = if n = 0 then N0 else Npos (pos_of_int n)
let rec int_of_pos = function XH -> 1 | XO p -> 2 * int_of_pos p | XI p -> 2 * int_of_pos p + 1
let int_of_n = function N0 -> 0 | Npos p -> int_of_pos p
let rec nat_of_int n = if n <= 0 then O else S (nat_of_int (n - 1))
let rec int_of_nat = function O -> 0 | S k -> 1 + int_of_nat k

(* hex token: 'x' followed by two hex digits per byte *)
let unhex (t : string) : str =
  if String.length t = 0 || t.[0] <> 'x' then failwith ("bad hex token: " ^ t);
  let n = (String.length t - 1) / 2 in
  List.init n (fun i -> n_of_int (int_of_string ("0x" ^ String.sub t (1 + 2 * i) 2)))
let hex (s : str) : string =
  let b = Buffer.create 16 in
  Buffer.add_char b 'x';
  List.iter (fun c -> Buffer.add_string b (Printf.sprintf "%02x" (int_of_n c))) s;
  Buffer.contents b
let ocaml_string (s : str) : string =
  let b = Buffer.create 16 in List.iter (fun c -> Buffer.add_char b (Char.chr (int_of_n c))) s; Buffer.contents b
let str_of_ocaml (s : string) : str = List.init (String.length s) (fun i -> n_of_int (Char.code s.[i]))

let ty_char = function DEmpty -> "E" | DInclude -> "I" | DAfter -> "A" | DRun -> "R" | DTag -> "G" | DTemp -> "T" | DWrite -> "W"
let ty_of_char = function "E" -> DEmpty | "I" -> DInclude | "A" -> DAfter | "R" -> DRun | "G" -> DTag | "T" -> DTemp | "W" -> DWrite | s -> failwith ("bad type " ^ s)

let show_directive d =
  Printf.sprintf "%s %s %s %s" (hex d.d_ws) (hex d.d_prefix) (ty_char d.d_ty) (String.concat "," (List.map hex d.d_args))

let toks line = List.filter (fun x -> x <> "") (String.split_on_char ' ' line)

(* path strings: "/a/b" -> components *)
let path_of_hex t : path = lex_components (unhex t)
let path_str (p : path) : string = hex (List.concat (List.map (fun n -> n_of_int 47 :: n) p))

let show_stored (st : (str * str) list) =
  let l = List.sort compare (List.map (fun (k, v) -> hex k ^ "=" ^ hex v) st) in
  "{" ^ String.concat "," l ^ "}"

(* ---- single-function cases ---- *)
let do_detect t =
  match detect_from (unhex t) with
  | None -> "D -"
  | Some d -> "D " ^ show_directive d

let do_addline ws prefix ty args line =
  let d = { d_ws = unhex ws; d_prefix = unhex prefix; d_ty = ty_of_char ty;
            d_args = List.map unhex (String.split_on_char ',' args) } in
  match add_line d (unhex line) with
  | AddOk d' -> "A ok " ^ show_directive d'
  | AddStop -> "A stop"
  | AddPanic -> "A panic"

(* T <le> op... ; ops: c<hex> create, s<hex> try_store, i<hex> inject *)
let do_tags le ops =
  let le = unhex le in
  let st = ref tags_new in
  let out = Buffer.create 64 in
  Buffer.add_string out "T";
  (try List.iter (fun op ->
    let arg = unhex (String.sub op 1 (String.length op - 1)) in
    match op.[0] with
    | 'c' -> (match create !st arg with
              | Some t -> st := t; Buffer.add_string out " ok"
              | None -> Buffer.add_string out " err")
    | 's' -> (match try_store !st arg with
              | Some t -> st := t; Buffer.add_string out " ok"
              | None -> Buffer.add_string out " err")
    | 'i' -> (match inject !st arg le with
              | Some (o, t) -> st := t; Buffer.add_string out (" " ^ hex o)
              | None -> Buffer.add_string out " panic"; raise Exit)
    | _ -> failwith "bad tag op") ops with Exit -> ());
  Buffer.add_string out (Printf.sprintf " H=%b" (has_tags !st));
  Buffer.contents out

(* N <kind> <hexname...> : path-name functions *)
let do_name t =
  let p = lex_components (unhex t) in
  let show_lp lp = hex (List.concat (List.mapi (fun i n -> if i = 0 then n else n_of_int 47 :: n) lp)) in
  Printf.sprintf "N %b %s" (is_txtpp_file p)
    (match remove_txtpp p with Some q -> show_lp q | None -> "-")

let do_lines t = "L " ^ String.concat "," (List.map hex (lines (unhex t))) ^ " " ^ hex (detect_le (unhex t)) ^ (if utf8_valid (unhex t) then " v" else " i")

(* ---- whole projects ---- *)
type proj = {
  mutable id : string; mutable mode : mode; mutable trailing : bool; mutable recursive : bool;
  mutable threads : int; mutable base : string; mutable inputs : str list;
  mutable files : (path * node) list; mutable cmds : (string * (bool * str)) list;
  mutable sched : int list; mutable pp_src : string; mutable pp_first : bool; mutable permissive : bool }

let new_proj id = { id; mode = Build; trailing = true; recursive = false; threads = 4; base = "x2f";
  inputs = []; files = []; cmds = []; sched = []; pp_src = ""; pp_first = false; permissive = false }

let mode_of = function 0 -> Build | 1 -> InMemoryBuild | 2 -> Clean | 3 -> Verify | _ -> failwith "mode"

(* the command oracle: a table lookup plus two built-ins whose output depends on the invocation *)
let oracle_of (p : proj) : oracle = fun cmd cwd file ->
  let c = ocaml_string cmd in
  if c = "pwd -P" then Some (abs_string cwd @ [n_of_int 10])
  else if c = "printf %s \"$TXTPP_FILE\"" then Some file
  else match List.assoc_opt c p.cmds with
    | Some (true, out) -> Some out
    | Some (false, _) -> None
    | None -> if p.permissive then Some [] else None

let show_task = function
  | TScan d -> "s:" ^ path_str d
  | TPp (f, first) -> (if first then "p1:" else "p2:") ^ path_str f

let show_world (w : world) =
  let files = List.sort compare (List.map (fun (p, n) ->
      match n with File c -> path_str p ^ "=" ^ hex c | Dir -> path_str p ^ "=/") w.w_fs) in
  let touched = List.sort_uniq compare (List.concat (List.map (function
      | EWrite p -> [path_str p] | ERemove p -> [path_str p] | ERun _ -> []) w.w_log)) in
  let runs = List.sort compare (List.concat (List.map (function
      | ERun (c, cwd, f) -> [hex c ^ "@" ^ path_str cwd ^ "@" ^ hex f] | _ -> []) w.w_log)) in
  Printf.sprintf "F %s U %s C %s" (String.concat ";" files) (String.concat ";" touched) (String.concat ";" runs)

let show_verdict = function VOk -> "ok" | VErr -> "err" | VPanic -> "panic" | VFuel -> "fuel"

let run_proj (p : proj) =
  let w = { w_fs = List.rev p.files; w_log = [] } in
  let cfg = { cfg_base = lex_components (unhex p.base); cfg_inputs = List.rev p.inputs;
              cfg_recursive = p.recursive; cfg_threads = n_of_int p.threads; cfg_mode = p.mode;
              cfg_trailing = p.trailing } in
  if p.pp_src <> "" then begin
    (* a single pass of one file *)
    let base = lex_components (unhex p.base) in
    let r = pp_run (oracle_of p) p.mode base (path_of_hex p.pp_src) p.pp_first p.trailing w in
    match r with
    | PpOk w' -> Printf.sprintf "R %s ok %s" p.id (show_world w')
    | PpHasDeps (deps, w') -> Printf.sprintf "R %s deps[%s] %s" p.id (String.concat "," (List.map path_str deps)) (show_world w')
    | PpErr (_, w') -> Printf.sprintf "R %s err %s" p.id (show_world w')
    | PpPanic -> Printf.sprintf "R %s panic" p.id
  end else begin
    let nfiles = List.length p.files in
    let fuel = nat_of_int (4 * nfiles + 16) in
    let (((v, w'), trace), _) = txtpp_run (oracle_of p) cfg fuel (List.map nat_of_int p.sched) w in
    Printf.sprintf "R %s %s T %s %s" p.id (show_verdict v) (String.concat "," (List.map (fun (t, _) -> show_task t) trace)) (show_world w')
  end

let () =
  let cur = ref None in
  (try while true do
    let line = input_line stdin in
    match !cur, toks line with
    | _, [] -> ()
    | None, ["D"; t] -> print_endline (do_detect t)
    | None, ["A"; ws; pre; ty; args; l] -> print_endline (do_addline ws pre ty args l)
    | None, "T" :: le :: ops -> print_endline (do_tags le ops)
    | None, ["N"; t] -> print_endline (do_name t)
    | None, ["L"; t] -> print_endline (do_lines t)
    | None, ["R"; id] -> cur := Some (new_proj id)
    | Some p, ["m"; m; tr; re; th] ->
        p.mode <- mode_of (int_of_string m); p.trailing <- tr = "1"; p.recursive <- re = "1"; p.threads <- int_of_string th
    | Some p, ["b"; b] -> p.base <- b
    | Some p, ["i"; i] -> p.inputs <- unhex i :: p.inputs
    | Some p, ["f"; path; c] -> p.files <- (path_of_hex path, File (unhex c)) :: p.files
    | Some p, ["d"; path] -> p.files <- (path_of_hex path, Dir) :: p.files
    | Some p, ["c"; cmd; st; out] -> p.cmds <- (ocaml_string (unhex cmd), (st = "0", unhex out)) :: p.cmds
    | Some p, "s" :: ns -> p.sched <- List.map int_of_string ns
    | Some p, ["p"; src; first] -> p.pp_src <- src; p.pp_first <- first = "1"
    | Some p, ["o"; v] -> p.permissive <- v = "1"
    | Some _, ["y"; _] -> ()       (* idle polls of the coordinator: stuttering steps, invisible in the model *)
    | Some _, ["w"; _] -> ()       (* process cwd: the model's base directory is already absolute *)
    | Some _, ["l"; _; _] -> ()    (* symlinks are outside the model (D10) *)
    | Some p, ["E"] -> print_endline (run_proj p); cur := None
    | _, _ -> failwith ("driver: cannot parse line: " ^ line)
  done with End_of_file -> ())
