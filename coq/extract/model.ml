
(** val negb : bool -> bool **)

let negb = function
| true -> false
| false -> true

type nat =
| O
| S of nat

(** val option_map : ('a1 -> 'a2) -> 'a1 option -> 'a2 option **)

let option_map f = function
| Some a -> Some (f a)
| None -> None

type ('a, 'b) sum =
| Inl of 'a
| Inr of 'b

(** val fst : ('a1 * 'a2) -> 'a1 **)

let fst = function
| (x, _) -> x

(** val snd : ('a1 * 'a2) -> 'a2 **)

let snd = function
| (_, y) -> y

(** val length : 'a1 list -> nat **)

let rec length = function
| [] -> O
| _ :: l' -> S (length l')

(** val app : 'a1 list -> 'a1 list -> 'a1 list **)

let rec app l m =
  match l with
  | [] -> m
  | a :: l1 -> a :: (app l1 m)

type comparison =
| Eq
| Lt
| Gt

(** val add : nat -> nat -> nat **)

let rec add n0 m =
  match n0 with
  | O -> m
  | S p -> S (add p m)

(** val sub : nat -> nat -> nat **)

let rec sub n0 m =
  match n0 with
  | O -> n0
  | S k -> (match m with
            | O -> n0
            | S l -> sub k l)

module Nat =
 struct
  (** val sub : nat -> nat -> nat **)

  let rec sub n0 m =
    match n0 with
    | O -> n0
    | S k -> (match m with
              | O -> n0
              | S l -> sub k l)

  (** val eqb : nat -> nat -> bool **)

  let rec eqb n0 m =
    match n0 with
    | O -> (match m with
            | O -> true
            | S _ -> false)
    | S n' -> (match m with
               | O -> false
               | S m' -> eqb n' m')

  (** val leb : nat -> nat -> bool **)

  let rec leb n0 m =
    match n0 with
    | O -> true
    | S n' -> (match m with
               | O -> false
               | S m' -> leb n' m')

  (** val ltb : nat -> nat -> bool **)

  let ltb n0 m =
    leb (S n0) m

  (** val divmod : nat -> nat -> nat -> nat -> nat * nat **)

  let rec divmod x y q u =
    match x with
    | O -> (q, u)
    | S x' ->
      (match u with
       | O -> divmod x' y (S q) y
       | S u' -> divmod x' y q u')

  (** val modulo : nat -> nat -> nat **)

  let modulo x = function
  | O -> x
  | S y' -> sub y' (snd (divmod x y' O y'))
 end

(** val hd : 'a1 -> 'a1 list -> 'a1 **)

let hd default = function
| [] -> default
| x :: _ -> x

(** val tl : 'a1 list -> 'a1 list **)

let tl = function
| [] -> []
| _ :: m -> m

(** val nth : nat -> 'a1 list -> 'a1 -> 'a1 **)

let rec nth n0 l default =
  match n0 with
  | O -> (match l with
          | [] -> default
          | x :: _ -> x)
  | S m -> (match l with
            | [] -> default
            | _ :: t -> nth m t default)

(** val nth_error : 'a1 list -> nat -> 'a1 option **)

let rec nth_error l = function
| O -> (match l with
        | [] -> None
        | x :: _ -> Some x)
| S n1 -> (match l with
           | [] -> None
           | _ :: l0 -> nth_error l0 n1)

(** val removelast : 'a1 list -> 'a1 list **)

let rec removelast = function
| [] -> []
| a :: l0 -> (match l0 with
              | [] -> []
              | _ :: _ -> a :: (removelast l0))

(** val rev : 'a1 list -> 'a1 list **)

let rec rev = function
| [] -> []
| x :: l' -> app (rev l') (x :: [])

(** val concat : 'a1 list list -> 'a1 list **)

let rec concat = function
| [] -> []
| x :: l0 -> app x (concat l0)

(** val map : ('a1 -> 'a2) -> 'a1 list -> 'a2 list **)

let rec map f = function
| [] -> []
| a :: t -> (f a) :: (map f t)

(** val flat_map : ('a1 -> 'a2 list) -> 'a1 list -> 'a2 list **)

let rec flat_map f = function
| [] -> []
| x :: t -> app (f x) (flat_map f t)

(** val fold_left : ('a1 -> 'a2 -> 'a1) -> 'a2 list -> 'a1 -> 'a1 **)

let rec fold_left f l a0 =
  match l with
  | [] -> a0
  | b :: t -> fold_left f t (f a0 b)

(** val fold_right : ('a2 -> 'a1 -> 'a1) -> 'a1 -> 'a2 list -> 'a1 **)

let rec fold_right f a0 = function
| [] -> a0
| b :: t -> f b (fold_right f a0 t)

(** val existsb : ('a1 -> bool) -> 'a1 list -> bool **)

let rec existsb f = function
| [] -> false
| a :: l0 -> (||) (f a) (existsb f l0)

(** val filter : ('a1 -> bool) -> 'a1 list -> 'a1 list **)

let rec filter f = function
| [] -> []
| x :: l0 -> if f x then x :: (filter f l0) else filter f l0

(** val find : ('a1 -> bool) -> 'a1 list -> 'a1 option **)

let rec find f = function
| [] -> None
| x :: tl0 -> if f x then Some x else find f tl0

(** val firstn : nat -> 'a1 list -> 'a1 list **)

let rec firstn n0 l =
  match n0 with
  | O -> []
  | S n1 -> (match l with
             | [] -> []
             | a :: l0 -> a :: (firstn n1 l0))

(** val skipn : nat -> 'a1 list -> 'a1 list **)

let rec skipn n0 l =
  match n0 with
  | O -> l
  | S n1 -> (match l with
             | [] -> []
             | _ :: l0 -> skipn n1 l0)

(** val repeat : 'a1 -> nat -> 'a1 list **)

let rec repeat x = function
| O -> []
| S k -> x :: (repeat x k)

type positive =
| XI of positive
| XO of positive
| XH

type n =
| N0
| Npos of positive

module Pos =
 struct
  (** val compare_cont : comparison -> positive -> positive -> comparison **)

  let rec compare_cont r x y =
    match x with
    | XI p ->
      (match y with
       | XI q -> compare_cont r p q
       | XO q -> compare_cont Gt p q
       | XH -> Gt)
    | XO p ->
      (match y with
       | XI q -> compare_cont Lt p q
       | XO q -> compare_cont r p q
       | XH -> Gt)
    | XH -> (match y with
             | XH -> r
             | _ -> Lt)

  (** val compare : positive -> positive -> comparison **)

  let compare =
    compare_cont Eq

  (** val eqb : positive -> positive -> bool **)

  let rec eqb p q =
    match p with
    | XI p0 -> (match q with
                | XI q0 -> eqb p0 q0
                | _ -> false)
    | XO p0 -> (match q with
                | XO q0 -> eqb p0 q0
                | _ -> false)
    | XH -> (match q with
             | XH -> true
             | _ -> false)
 end

module N =
 struct
  (** val compare : n -> n -> comparison **)

  let compare n0 m =
    match n0 with
    | N0 -> (match m with
             | N0 -> Eq
             | Npos _ -> Lt)
    | Npos n' -> (match m with
                  | N0 -> Gt
                  | Npos m' -> Pos.compare n' m')

  (** val eqb : n -> n -> bool **)

  let eqb n0 m =
    match n0 with
    | N0 -> (match m with
             | N0 -> true
             | Npos _ -> false)
    | Npos p -> (match m with
                 | N0 -> false
                 | Npos q -> Pos.eqb p q)

  (** val leb : n -> n -> bool **)

  let leb x y =
    match compare x y with
    | Gt -> false
    | _ -> true

  (** val ltb : n -> n -> bool **)

  let ltb x y =
    match compare x y with
    | Lt -> true
    | _ -> false
 end

type byte = n

type str = byte list

(** val lFb : byte **)

let lFb =
  Npos (XO (XI (XO XH)))

(** val cRb : byte **)

let cRb =
  Npos (XI (XO (XI XH)))

(** val sPb : byte **)

let sPb =
  Npos (XO (XO (XO (XO (XO XH)))))

(** val str_eqb : str -> str -> bool **)

let rec str_eqb a b =
  match a with
  | [] -> (match b with
           | [] -> true
           | _ :: _ -> false)
  | x :: a' ->
    (match b with
     | [] -> false
     | y :: b' -> (&&) (N.eqb x y) (str_eqb a' b'))

(** val starts_with : str -> str -> bool **)

let rec starts_with p s =
  match p with
  | [] -> true
  | x :: p' ->
    (match s with
     | [] -> false
     | y :: s' -> (&&) (N.eqb x y) (starts_with p' s'))

(** val find_sub : str -> str -> nat option **)

let rec find_sub p s =
  if starts_with p s
  then Some O
  else (match s with
        | [] -> None
        | _ :: s' -> option_map (fun x -> S x) (find_sub p s'))

(** val ends_with_lf : str -> bool **)

let ends_with_lf s =
  match rev s with
  | [] -> false
  | c :: _ -> N.eqb c lFb

(** val ascii_ws : byte -> bool **)

let ascii_ws b =
  (||)
    ((&&) (N.leb (Npos (XI (XO (XO XH)))) b)
      (N.leb b (Npos (XI (XO (XI XH))))))
    (N.eqb b (Npos (XO (XO (XO (XO (XO XH)))))))

(** val e2_80_ws : byte -> bool **)

let e2_80_ws c =
  (||)
    ((||)
      ((||)
        ((&&) (N.leb (Npos (XO (XO (XO (XO (XO (XO (XO XH)))))))) c)
          (N.leb c (Npos (XO (XI (XO (XI (XO (XO (XO XH))))))))))
        (N.eqb c (Npos (XO (XO (XO (XI (XO (XI (XO XH))))))))))
      (N.eqb c (Npos (XI (XO (XO (XI (XO (XI (XO XH))))))))))
    (N.eqb c (Npos (XI (XI (XI (XI (XO (XI (XO XH)))))))))

(** val ws_len : str -> nat **)

let ws_len = function
| [] -> O
| b :: r ->
  if ascii_ws b
  then S O
  else if N.eqb b (Npos (XO (XI (XO (XO (XO (XO (XI XH))))))))
       then (match r with
             | [] -> O
             | c :: _ ->
               if (||) (N.eqb c (Npos (XI (XO (XI (XO (XO (XO (XO XH)))))))))
                    (N.eqb c (Npos (XO (XO (XO (XO (XO (XI (XO XH)))))))))
               then S (S O)
               else O)
       else if N.eqb b (Npos (XI (XO (XO (XO (XO (XI (XI XH))))))))
            then (match r with
                  | [] -> O
                  | c1 :: l ->
                    (match l with
                     | [] -> O
                     | c2 :: _ ->
                       if (&&)
                            (N.eqb c1 (Npos (XO (XI (XO (XI (XI (XO (XO
                              XH)))))))))
                            (N.eqb c2 (Npos (XO (XO (XO (XO (XO (XO (XO
                              XH)))))))))
                       then S (S (S O))
                       else O))
            else if N.eqb b (Npos (XO (XI (XO (XO (XO (XI (XI XH))))))))
                 then (match r with
                       | [] -> O
                       | c1 :: l ->
                         (match l with
                          | [] -> O
                          | c2 :: _ ->
                            if (&&)
                                 (N.eqb c1 (Npos (XO (XO (XO (XO (XO (XO (XO
                                   XH))))))))) (e2_80_ws c2)
                            then S (S (S O))
                            else if (&&)
                                      (N.eqb c1 (Npos (XI (XO (XO (XO (XO (XO
                                        (XO XH)))))))))
                                      (N.eqb c2 (Npos (XI (XI (XI (XI (XI (XO
                                        (XO XH)))))))))
                                 then S (S (S O))
                                 else O))
                 else if N.eqb b (Npos (XI (XI (XO (XO (XO (XI (XI XH))))))))
                      then (match r with
                            | [] -> O
                            | c1 :: l ->
                              (match l with
                               | [] -> O
                               | c2 :: _ ->
                                 if (&&)
                                      (N.eqb c1 (Npos (XO (XO (XO (XO (XO (XO
                                        (XO XH)))))))))
                                      (N.eqb c2 (Npos (XO (XO (XO (XO (XO (XO
                                        (XO XH)))))))))
                                 then S (S (S O))
                                 else O))
                      else O

(** val ws_prefix_len : nat -> str -> nat **)

let rec ws_prefix_len fuel s =
  match fuel with
  | O -> O
  | S f ->
    (match ws_len s with
     | O -> O
     | S n0 -> let n1 = S n0 in add n1 (ws_prefix_len f (skipn n1 s)))

(** val split_ws : str -> str * str **)

let split_ws s =
  let n0 = ws_prefix_len (length s) s in ((firstn n0 s), (skipn n0 s))

(** val trim_start : str -> str **)

let trim_start s =
  snd (split_ws s)

(** val ws_len_rev : str -> nat **)

let ws_len_rev = function
| [] -> O
| b :: t ->
  if ascii_ws b
  then S O
  else (match t with
        | [] -> O
        | c :: t' ->
          if (&&) (N.eqb c (Npos (XO (XI (XO (XO (XO (XO (XI XH)))))))))
               ((||) (N.eqb b (Npos (XI (XO (XI (XO (XO (XO (XO XH)))))))))
                 (N.eqb b (Npos (XO (XO (XO (XO (XO (XI (XO XH))))))))))
          then S (S O)
          else (match t' with
                | [] -> O
                | d :: _ ->
                  if (&&)
                       ((&&)
                         (N.eqb d (Npos (XI (XO (XO (XO (XO (XI (XI
                           XH)))))))))
                         (N.eqb c (Npos (XO (XI (XO (XI (XI (XO (XO
                           XH))))))))))
                       (N.eqb b (Npos (XO (XO (XO (XO (XO (XO (XO XH)))))))))
                  then S (S (S O))
                  else if (&&)
                            ((&&)
                              (N.eqb d (Npos (XO (XI (XO (XO (XO (XI (XI
                                XH)))))))))
                              (N.eqb c (Npos (XO (XO (XO (XO (XO (XO (XO
                                XH)))))))))) (e2_80_ws b)
                       then S (S (S O))
                       else if (&&)
                                 ((&&)
                                   (N.eqb d (Npos (XO (XI (XO (XO (XO (XI (XI
                                     XH)))))))))
                                   (N.eqb c (Npos (XI (XO (XO (XO (XO (XO (XO
                                     XH))))))))))
                                 (N.eqb b (Npos (XI (XI (XI (XI (XI (XO (XO
                                   XH)))))))))
                            then S (S (S O))
                            else if (&&)
                                      ((&&)
                                        (N.eqb d (Npos (XI (XI (XO (XO (XO
                                          (XI (XI XH)))))))))
                                        (N.eqb c (Npos (XO (XO (XO (XO (XO
                                          (XO (XO XH))))))))))
                                      (N.eqb b (Npos (XO (XO (XO (XO (XO (XO
                                        (XO XH)))))))))
                                 then S (S (S O))
                                 else O))

(** val drop_ws_rev : nat -> str -> str **)

let rec drop_ws_rev fuel r =
  match fuel with
  | O -> r
  | S f ->
    (match ws_len_rev r with
     | O -> r
     | S n0 -> drop_ws_rev f (skipn (S n0) r))

(** val trim_end : str -> str **)

let trim_end s =
  rev (drop_ws_rev (length s) (rev s))

(** val trim : str -> str **)

let trim s =
  trim_end (trim_start s)

(** val split_once_sp : str -> (str * str) option **)

let rec split_once_sp = function
| [] -> None
| c :: s' ->
  if N.eqb c sPb
  then Some ([], s')
  else (match split_once_sp s' with
        | Some p -> let (a, b) = p in Some ((c :: a), b)
        | None -> None)

(** val join : str -> str list -> str **)

let rec join sep = function
| [] -> []
| x :: r -> (match r with
             | [] -> x
             | _ :: _ -> app x (app sep (join sep r)))

(** val split_on : byte -> str -> str list **)

let rec split_on c = function
| [] -> [] :: []
| x :: r ->
  let ps = split_on c r in
  if N.eqb x c
  then [] :: ps
  else (match ps with
        | [] -> (x :: []) :: []
        | p :: ps' -> (x :: p) :: ps')

(** val strip_cr : str -> str **)

let strip_cr s =
  match rev s with
  | [] -> s
  | c :: r -> if N.eqb c cRb then rev r else s

(** val lines_of_pieces : str list -> str list **)

let rec lines_of_pieces = function
| [] -> []
| p :: r ->
  (match r with
   | [] -> (match p with
            | [] -> []
            | _ :: _ -> p :: [])
   | _ :: _ -> (strip_cr p) :: (lines_of_pieces r))

(** val lines : str -> str list **)

let lines s =
  lines_of_pieces (split_on lFb s)

(** val repeat_sp : nat -> str **)

let repeat_sp n0 =
  repeat sPb n0

(** val is_cont : byte -> bool **)

let is_cont b =
  (&&) (N.leb (Npos (XO (XO (XO (XO (XO (XO (XO XH)))))))) b)
    (N.leb b (Npos (XI (XI (XI (XI (XI (XI (XO XH)))))))))

(** val utf8_valid : str -> bool **)

let rec utf8_valid = function
| [] -> true
| b :: r ->
  if N.ltb b (Npos (XO (XO (XO (XO (XO (XO (XO XH))))))))
  then utf8_valid r
  else if (&&) (N.leb (Npos (XO (XI (XO (XO (XO (XO (XI XH)))))))) b)
            (N.leb b (Npos (XI (XI (XI (XI (XI (XO (XI XH)))))))))
       then (match r with
             | [] -> false
             | c1 :: r1 -> (&&) (is_cont c1) (utf8_valid r1))
       else if (&&) (N.leb (Npos (XO (XO (XO (XO (XO (XI (XI XH)))))))) b)
                 (N.leb b (Npos (XI (XI (XI (XI (XO (XI (XI XH)))))))))
            then (match r with
                  | [] -> false
                  | c1 :: l ->
                    (match l with
                     | [] -> false
                     | c2 :: r2 ->
                       (&&)
                         ((&&)
                           ((&&) ((&&) (is_cont c1) (is_cont c2))
                             (if N.eqb b (Npos (XO (XO (XO (XO (XO (XI (XI
                                   XH))))))))
                              then N.leb (Npos (XO (XO (XO (XO (XO (XI (XO
                                     XH)))))))) c1
                              else true))
                           (if N.eqb b (Npos (XI (XO (XI (XI (XO (XI (XI
                                 XH))))))))
                            then N.leb c1 (Npos (XI (XI (XI (XI (XI (XO (XO
                                   XH))))))))
                            else true)) (utf8_valid r2)))
            else if (&&)
                      (N.leb (Npos (XO (XO (XO (XO (XI (XI (XI XH)))))))) b)
                      (N.leb b (Npos (XO (XO (XI (XO (XI (XI (XI XH)))))))))
                 then (match r with
                       | [] -> false
                       | c1 :: l ->
                         (match l with
                          | [] -> false
                          | c2 :: l0 ->
                            (match l0 with
                             | [] -> false
                             | c3 :: r3 ->
                               (&&)
                                 ((&&)
                                   ((&&)
                                     ((&&) ((&&) (is_cont c1) (is_cont c2))
                                       (is_cont c3))
                                     (if N.eqb b (Npos (XO (XO (XO (XO (XI
                                           (XI (XI XH))))))))
                                      then N.leb (Npos (XO (XO (XO (XO (XI
                                             (XO (XO XH)))))))) c1
                                      else true))
                                   (if N.eqb b (Npos (XO (XO (XI (XO (XI (XI
                                         (XI XH))))))))
                                    then N.leb c1 (Npos (XI (XI (XI (XI (XO
                                           (XO (XO XH))))))))
                                    else true)) (utf8_valid r3))))
                 else false

(** val is_char_boundary : str -> nat -> bool **)

let is_char_boundary s n0 =
  if Nat.eqb n0 (length s)
  then true
  else (match nth_error s n0 with
        | Some b -> negb (is_cont b)
        | None -> false)

(** val slice_from : nat -> str -> str option **)

let slice_from n0 s =
  if is_char_boundary s n0 then Some (skipn n0 s) else None

(** val c_txtpp_hash : n list **)

let c_txtpp_hash =
  (Npos (XO (XO (XI (XO (XI (XO XH))))))) :: ((Npos (XO (XO (XO (XI (XI (XO
    XH))))))) :: ((Npos (XO (XO (XI (XO (XI (XO XH))))))) :: ((Npos (XO (XO
    (XO (XO (XI (XO XH))))))) :: ((Npos (XO (XO (XO (XO (XI (XO
    XH))))))) :: ((Npos (XI (XI (XO (XO (XO XH)))))) :: [])))))

(** val c_txtpp_ext : n list **)

let c_txtpp_ext =
  (Npos (XO (XO (XI (XO (XI (XI XH))))))) :: ((Npos (XO (XO (XO (XI (XI (XI
    XH))))))) :: ((Npos (XO (XO (XI (XO (XI (XI XH))))))) :: ((Npos (XO (XO
    (XO (XO (XI (XI XH))))))) :: ((Npos (XO (XO (XO (XO (XI (XI
    XH))))))) :: []))))

(** val c_crlf : n list **)

let c_crlf =
  (Npos (XI (XO (XI XH)))) :: ((Npos (XO (XI (XO XH)))) :: [])

(** val c_lf : n list **)

let c_lf =
  (Npos (XO (XI (XO XH)))) :: []

(** val c_os_line_ending : n list **)

let c_os_line_ending =
  (Npos (XO (XI (XO XH)))) :: []

(** val c_name_table : (n list * n) list **)

let c_name_table =
  ([], N0) :: ((((Npos (XI (XO (XO (XI (XO (XI XH))))))) :: ((Npos (XO (XI
    (XI (XI (XO (XI XH))))))) :: ((Npos (XI (XI (XO (XO (XO (XI
    XH))))))) :: ((Npos (XO (XO (XI (XI (XO (XI XH))))))) :: ((Npos (XI (XO
    (XI (XO (XI (XI XH))))))) :: ((Npos (XO (XO (XI (XO (XO (XI
    XH))))))) :: ((Npos (XI (XO (XI (XO (XO (XI XH))))))) :: []))))))), (Npos
    XH)) :: ((((Npos (XO (XI (XO (XO (XI (XI XH))))))) :: ((Npos (XI (XO (XI
    (XO (XI (XI XH))))))) :: ((Npos (XO (XI (XI (XI (XO (XI
    XH))))))) :: []))), (Npos (XI XH))) :: ((((Npos (XO (XO (XI (XO (XI (XI
    XH))))))) :: ((Npos (XI (XO (XO (XO (XO (XI XH))))))) :: ((Npos (XI (XI
    (XI (XO (XO (XI XH))))))) :: []))), (Npos (XO (XO XH)))) :: ((((Npos (XO
    (XO (XI (XO (XI (XI XH))))))) :: ((Npos (XI (XO (XI (XO (XO (XI
    XH))))))) :: ((Npos (XI (XO (XI (XI (XO (XI XH))))))) :: ((Npos (XO (XO
    (XO (XO (XI (XI XH))))))) :: [])))), (Npos (XI (XO XH)))) :: ((((Npos (XI
    (XI (XI (XO (XI (XI XH))))))) :: ((Npos (XO (XI (XO (XO (XI (XI
    XH))))))) :: ((Npos (XI (XO (XO (XI (XO (XI XH))))))) :: ((Npos (XO (XO
    (XI (XO (XI (XI XH))))))) :: ((Npos (XI (XO (XI (XO (XO (XI
    XH))))))) :: []))))), (Npos (XO (XI XH)))) :: ((((Npos (XI (XO (XO (XO
    (XO (XI XH))))))) :: ((Npos (XO (XI (XI (XO (XO (XI XH))))))) :: ((Npos
    (XO (XO (XI (XO (XI (XI XH))))))) :: ((Npos (XI (XO (XI (XO (XO (XI
    XH))))))) :: ((Npos (XO (XI (XO (XO (XI (XI XH))))))) :: []))))), (Npos
    (XO XH))) :: []))))))

(** val c_single_line_types : n list **)

let c_single_line_types =
  (Npos XH) :: ((Npos (XO XH)) :: ((Npos (XO (XO XH))) :: []))

type dtype =
| DEmpty
| DInclude
| DAfter
| DRun
| DTag
| DTemp
| DWrite

(** val dtype_of_index : n -> dtype option **)

let dtype_of_index = function
| N0 -> Some DEmpty
| Npos p ->
  (match p with
   | XI p0 ->
     (match p0 with
      | XI _ -> None
      | XO p1 -> (match p1 with
                  | XH -> Some DTemp
                  | _ -> None)
      | XH -> Some DRun)
   | XO p0 ->
     (match p0 with
      | XI p1 -> (match p1 with
                  | XH -> Some DWrite
                  | _ -> None)
      | XO p1 -> (match p1 with
                  | XH -> Some DTag
                  | _ -> None)
      | XH -> Some DAfter)
   | XH -> Some DInclude)

(** val dtype_index : dtype -> n **)

let dtype_index = function
| DEmpty -> N0
| DInclude -> Npos XH
| DAfter -> Npos (XO XH)
| DRun -> Npos (XI XH)
| DTag -> Npos (XO (XO XH))
| DTemp -> Npos (XI (XO XH))
| DWrite -> Npos (XO (XI XH))

type directive = { d_ws : str; d_prefix : str; d_ty : dtype; d_args : str list }

(** val tXTPP_HASH : str **)

let tXTPP_HASH =
  c_txtpp_hash

(** val lookup_name : (str * n) list -> str -> dtype option **)

let rec lookup_name tbl n0 =
  match tbl with
  | [] -> None
  | p :: r ->
    let (k, i) = p in
    if str_eqb n0 k then dtype_of_index i else lookup_name r n0

(** val dtype_of_name : str -> dtype option **)

let dtype_of_name n0 =
  lookup_name c_name_table n0

(** val multi : dtype -> bool **)

let multi t =
  negb (existsb (N.eqb (dtype_index t)) c_single_line_types)

(** val detect_from : str -> directive option **)

let detect_from line =
  let (ws, rest) = split_ws line in
  (match find_sub tXTPP_HASH rest with
   | Some i ->
     let prefix = firstn i rest in
     let after = skipn (add i (length tXTPP_HASH)) rest in
     (match split_once_sp after with
      | Some p ->
        let (n0, a) = p in
        let arg = trim a in
        (match dtype_of_name n0 with
         | Some t ->
           Some { d_ws = ws; d_prefix = prefix; d_ty = t; d_args =
             (arg :: []) }
         | None -> None)
      | None ->
        let arg = [] in
        (match dtype_of_name after with
         | Some t ->
           Some { d_ws = ws; d_prefix = prefix; d_ty = t; d_args =
             (arg :: []) }
         | None -> None))
   | None -> None)

type add_result =
| AddOk of directive
| AddStop
| AddPanic

(** val push_arg : directive -> str -> directive **)

let push_arg d a =
  { d_ws = d.d_ws; d_prefix = d.d_prefix; d_ty = d.d_ty; d_args =
    (app d.d_args (a :: [])) }

(** val add_line : directive -> str -> add_result **)

let add_line d line =
  if negb (multi d.d_ty)
  then AddStop
  else if starts_with d.d_ws line
       then (match slice_from (length d.d_ws) line with
             | Some l ->
               if str_eqb l (trim_end d.d_prefix)
               then AddOk (push_arg d [])
               else if (||) (starts_with d.d_prefix l)
                         (starts_with (repeat_sp (length d.d_prefix)) l)
                    then (match slice_from (length d.d_prefix) l with
                          | Some a -> AddOk (push_arg d (trim_end a))
                          | None -> AddPanic)
                    else AddStop
             | None -> AddPanic)
       else AddStop

type tags = { listening : str option; stored : (str * str) list }

(** val tags_new : tags **)

let tags_new =
  { listening = None; stored = [] }

(** val prefix_related : str -> str -> bool **)

let prefix_related a b =
  (||) (starts_with a b) (starts_with b a)

(** val create : tags -> str -> tags option **)

let create t tag =
  match t.listening with
  | Some _ -> None
  | None ->
    if existsb (fun kv -> prefix_related (fst kv) tag) t.stored
    then None
    else Some { listening = (Some tag); stored = t.stored }

(** val store_remove : str -> (str * str) list -> (str * str) list **)

let rec store_remove k = function
| [] -> []
| p :: r ->
  let (k', v) = p in
  if str_eqb k k' then store_remove k r else (k', v) :: (store_remove k r)

(** val store_put : str -> str -> (str * str) list -> (str * str) list **)

let store_put k v l =
  (k, v) :: (store_remove k l)

(** val try_store : tags -> str -> tags option **)

let try_store t content =
  match t.listening with
  | Some tag ->
    Some { listening = None; stored = (store_put tag content t.stored) }
  | None -> None

(** val has_tags : tags -> bool **)

let has_tags t =
  match t.listening with
  | Some _ -> true
  | None -> negb (match t.stored with
                  | [] -> true
                  | _ :: _ -> false)

(** val replace_line_ending : str -> str -> bool -> str **)

let replace_line_ending s le force_trailing =
  app (join le (lines s))
    (if (||) force_trailing (ends_with_lf s) then le else [])

type occ = nat * (str * str)

(** val occurrences : (str * str) list -> str -> occ list **)

let rec occurrences st line =
  match st with
  | [] -> []
  | p :: r ->
    let (k, v) = p in
    (match find_sub k line with
     | Some i -> (i, (k, v)) :: (occurrences r line)
     | None -> occurrences r line)

(** val insert_occ : occ -> occ list -> occ list **)

let rec insert_occ x = function
| [] -> x :: []
| y :: r ->
  if Nat.leb (fst x) (fst y) then x :: (y :: r) else y :: (insert_occ x r)

(** val sort_occ : occ list -> occ list **)

let rec sort_occ = function
| [] -> []
| x :: r -> insert_occ x (sort_occ r)

(** val stable_sort_occ : occ list -> occ list **)

let stable_sort_occ =
  sort_occ

(** val inject_loop :
    str -> str -> occ list -> nat -> str -> str list -> ((str * nat) * str
    list) option **)

let rec inject_loop le line l last_end out removed =
  match l with
  | [] -> Some ((out, last_end), removed)
  | o :: r ->
    let (i, p) = o in
    let (k, v) = p in
    if Nat.ltb i last_end
    then inject_loop le line r last_end out removed
    else if Nat.leb i (length line)
         then inject_loop le line r (add i (length k))
                (app out
                  (app (firstn (sub i last_end) (skipn last_end line))
                    (replace_line_ending v le false))) (app removed (k :: []))
         else None

(** val inject : tags -> str -> str -> (str * tags) option **)

let inject t line le =
  if ends_with_lf line
  then None
  else let l = stable_sort_occ (occurrences t.stored line) in
       (match inject_loop le line l O [] [] with
        | Some p ->
          let (p0, removed) = p in
          let (out, last_end) = p0 in
          if Nat.leb last_end (length line)
          then Some ((app out (skipn last_end line)), { listening =
                 t.listening; stored =
                 (fold_left (fun s k -> store_remove k s) removed t.stored) })
          else None
        | None -> None)

type name = str

type path = name list

type lexpath = name list

(** val dOT : byte **)

let dOT =
  Npos (XO (XI (XI (XI (XO XH)))))

(** val sLASH : byte **)

let sLASH =
  Npos (XI (XI (XI (XI (XO XH)))))

(** val dotdot : name **)

let dotdot =
  dOT :: (dOT :: [])

(** val tXTPP_EXT : str **)

let tXTPP_EXT =
  c_txtpp_ext

(** val path_eqb : path -> path -> bool **)

let rec path_eqb a b =
  match a with
  | [] -> (match b with
           | [] -> true
           | _ :: _ -> false)
  | x :: a' ->
    (match b with
     | [] -> false
     | y :: b' -> (&&) (str_eqb x y) (path_eqb a' b'))

(** val last_dot : str -> nat -> nat option -> nat option **)

let rec last_dot s i acc =
  match s with
  | [] -> acc
  | c :: r -> last_dot r (S i) (if N.eqb c dOT then Some i else acc)

(** val split_ext : name -> str * str option **)

let split_ext n0 =
  if str_eqb n0 dotdot
  then (n0, None)
  else (match last_dot n0 O None with
        | Some i ->
          (match i with
           | O -> (n0, None)
           | S _ -> ((firstn i n0), (Some (skipn (S i) n0))))
        | None -> (n0, None))

(** val is_normal : name -> bool **)

let is_normal n0 =
  negb (str_eqb n0 dotdot)

(** val lex_extension : lexpath -> str option **)

let lex_extension p =
  match rev p with
  | [] -> None
  | n0 :: _ -> if is_normal n0 then snd (split_ext n0) else None

(** val lex_set_extension : lexpath -> str -> lexpath **)

let lex_set_extension p ext =
  match rev p with
  | [] -> p
  | n0 :: r ->
    if is_normal n0
    then let stem = fst (split_ext n0) in
         app (rev r)
           ((match ext with
             | [] -> stem
             | _ :: _ -> app stem (app (dOT :: []) ext)) :: [])
    else p

(** val is_txtpp_file : lexpath -> bool **)

let is_txtpp_file p =
  match lex_extension p with
  | Some ext ->
    if str_eqb ext tXTPP_EXT
    then true
    else (match lex_extension (lex_set_extension p []) with
          | Some e2 -> str_eqb e2 tXTPP_EXT
          | None -> false)
  | None -> false

(** val remove_txtpp : lexpath -> lexpath option **)

let remove_txtpp p =
  if negb (is_txtpp_file p)
  then None
  else let p1 = lex_set_extension p [] in
       (match lex_extension p1 with
        | Some e ->
          if str_eqb e tXTPP_EXT
          then let p2 = lex_set_extension p1 [] in
               (match lex_extension p with
                | Some self_ext -> Some (lex_set_extension p2 self_ext)
                | None -> None)
          else Some p1
        | None -> Some p1)

(** val txtpp_candidates : lexpath -> lexpath list **)

let txtpp_candidates p =
  if is_txtpp_file p
  then []
  else (match lex_extension p with
        | Some ext ->
          (lex_set_extension p (app ext (app (dOT :: []) tXTPP_EXT))) :: (
            (lex_set_extension (lex_set_extension p [])
              (app tXTPP_EXT (app (dOT :: []) ext))) :: [])
        | None -> (lex_set_extension p tXTPP_EXT) :: [])

(** val is_dot : name -> bool **)

let is_dot = function
| [] -> false
| c :: l -> (match l with
             | [] -> N.eqb c dOT
             | _ :: _ -> false)

(** val lex_components : str -> lexpath **)

let lex_components s =
  filter (fun n0 ->
    (&&) (negb (match n0 with
                | [] -> true
                | _ :: _ -> false)) (negb (is_dot n0))) (split_on sLASH s)

(** val is_absolute : str -> bool **)

let is_absolute = function
| [] -> false
| c :: _ -> N.eqb c sLASH

(** val lex_join : path -> str -> lexpath **)

let lex_join cwd arg =
  if is_absolute arg then lex_components arg else app cwd (lex_components arg)

(** val parent : path -> path **)

let parent =
  removelast

(** val strip_prefix : path -> path -> path option **)

let rec strip_prefix b p =
  match b with
  | [] -> Some p
  | x :: b' ->
    (match p with
     | [] -> None
     | y :: p' -> if str_eqb x y then strip_prefix b' p' else None)

(** val rOOT_MARK : str **)

let rOOT_MARK =
  (Npos (XO (XO (XO (XO (XO (XO XH))))))) :: ((Npos (XO (XI (XO (XO (XI (XO
    XH))))))) :: ((Npos (XO (XO (XO (XO (XO (XO XH))))))) :: []))

(** val abs_string : path -> str **)

let abs_string p =
  app rOOT_MARK (concat (map (fun n0 -> sLASH :: n0) p))

(** val rel_string : path -> str **)

let rel_string p =
  join (sLASH :: []) p

(** val display_from_base : path -> path -> str **)

let display_from_base base p =
  if path_eqb base p
  then abs_string p
  else (match strip_prefix base p with
        | Some r -> rel_string r
        | None -> abs_string p)

type node =
| File of str
| Dir

type fs = (path * node) list

(** val fs_get : fs -> path -> node option **)

let rec fs_get f p = match p with
| [] -> Some Dir
| _ :: _ ->
  (match f with
   | [] -> None
   | p0 :: r ->
     let (q, n0) = p0 in if path_eqb q p then Some n0 else fs_get r p)

(** val fs_del : fs -> path -> fs **)

let rec fs_del f p =
  match f with
  | [] -> []
  | p0 :: r ->
    let (q, n0) = p0 in
    if path_eqb q p then fs_del r p else (q, n0) :: (fs_del r p)

(** val fs_put : fs -> path -> node -> fs **)

let fs_put f p n0 =
  (p, n0) :: (fs_del f p)

(** val is_dir : fs -> path -> bool **)

let is_dir f p =
  match fs_get f p with
  | Some n0 -> (match n0 with
                | File _ -> false
                | Dir -> true)
  | None -> false

(** val is_file : fs -> path -> bool **)

let is_file f p =
  match fs_get f p with
  | Some n0 -> (match n0 with
                | File _ -> true
                | Dir -> false)
  | None -> false

(** val exists_ : fs -> path -> bool **)

let exists_ f p =
  match fs_get f p with
  | Some _ -> true
  | None -> false

(** val os_walk : fs -> path -> lexpath -> path option **)

let rec os_walk f cur0 = function
| [] -> if exists_ f cur0 then Some cur0 else None
| c :: r ->
  if negb (is_dir f cur0)
  then None
  else if str_eqb c dotdot
       then os_walk f (removelast cur0) r
       else os_walk f (app cur0 (c :: [])) r

(** val os_resolve : fs -> lexpath -> path option **)

let os_resolve f p =
  os_walk f [] p

(** val lex_is_file : fs -> lexpath -> bool **)

let lex_is_file f p =
  match os_resolve f p with
  | Some q -> is_file f q
  | None -> false

(** val lex_is_dir : fs -> lexpath -> bool **)

let lex_is_dir f p =
  match os_resolve f p with
  | Some q -> is_dir f q
  | None -> false

(** val get_txtpp_file : fs -> lexpath -> lexpath option **)

let get_txtpp_file f p =
  find (lex_is_file f) (txtpp_candidates p)

(** val children : fs -> path -> (name * node) list **)

let children f d =
  flat_map (fun e ->
    match rev (fst e) with
    | [] -> []
    | n0 :: rp -> if path_eqb (rev rp) d then (n0, (snd e)) :: [] else []) f

type event =
| EWrite of path
| ERemove of path
| ERun of str * path * str

type world = { w_fs : fs; w_log : event list }

(** val w_emit : world -> event -> world **)

let w_emit w e =
  { w_fs = w.w_fs; w_log = (app w.w_log (e :: [])) }

(** val write_target : fs -> lexpath -> path option **)

let write_target f p =
  match rev p with
  | [] -> None
  | n0 :: rp ->
    if is_normal n0
    then (match os_resolve f (rev rp) with
          | Some d ->
            if is_dir f d
            then let q = app d (n0 :: []) in
                 if is_dir f q then None else Some q
            else None
          | None -> None)
    else None

(** val w_write : world -> lexpath -> str -> world option **)

let w_write w p c =
  match write_target w.w_fs p with
  | Some q ->
    Some { w_fs = (fs_put w.w_fs q (File c)); w_log =
      (app w.w_log ((EWrite q) :: [])) }
  | None -> None

(** val w_append : world -> path -> str -> world option **)

let w_append w q c =
  match fs_get w.w_fs q with
  | Some n0 ->
    (match n0 with
     | File old ->
       Some { w_fs = (fs_put w.w_fs q (File (app old c))); w_log =
         (app w.w_log ((EWrite q) :: [])) }
     | Dir -> None)
  | None -> None

(** val w_remove_file : world -> path -> world option **)

let w_remove_file w q =
  match fs_get w.w_fs q with
  | Some n0 ->
    (match n0 with
     | File _ ->
       Some { w_fs = (fs_del w.w_fs q); w_log =
         (app w.w_log ((ERemove q) :: [])) }
     | Dir -> None)
  | None -> None

(** val read_file : fs -> path -> str option **)

let read_file f q =
  match fs_get f q with
  | Some n0 -> (match n0 with
                | File c -> Some c
                | Dir -> None)
  | None -> None

type mode =
| Build
| InMemoryBuild
| Clean
| Verify

(** val mode_eqb : mode -> mode -> bool **)

let mode_eqb a b =
  match a with
  | Build -> (match b with
              | Build -> true
              | _ -> false)
  | InMemoryBuild -> (match b with
                      | InMemoryBuild -> true
                      | _ -> false)
  | Clean -> (match b with
              | Clean -> true
              | _ -> false)
  | Verify -> (match b with
               | Verify -> true
               | _ -> false)

type errkind =
| KOpen
| KRead
| KWrite
| KDelete
| KVerify
| KDirective

type sink =
| SBuild of path
| SMem of path * str
| SClean
| SVerify of path * str

(** val sink_new : mode -> world -> path -> (sink * world, errkind) sum **)

let sink_new m w out =
  match m with
  | Build ->
    (match w_write w out [] with
     | Some w' -> Inl ((SBuild out), w')
     | None -> Inr KOpen)
  | InMemoryBuild -> Inl ((SMem (out, [])), w)
  | Clean ->
    if exists_ w.w_fs out
    then (match w_remove_file w out with
          | Some w' -> Inl (SClean, w')
          | None -> Inr KDelete)
    else Inl (SClean, w)
  | Verify ->
    (match fs_get w.w_fs out with
     | Some n0 ->
       (match n0 with
        | File c -> Inl ((SVerify (out, c)), w)
        | Dir -> Inr KRead)
     | None -> Inr KVerify)

(** val sink_write : sink -> world -> str -> (sink * world, errkind) sum **)

let sink_write s w chunk =
  match s with
  | SBuild p ->
    (match w_append w p chunk with
     | Some w' -> Inl (s, w')
     | None -> Inr KWrite)
  | SMem (p, buf) -> Inl ((SMem (p, (app buf chunk))), w)
  | SClean -> Inl (s, w)
  | SVerify (p, rest) ->
    if Nat.ltb (length rest) (length chunk)
    then Inr KVerify
    else if str_eqb (firstn (length chunk) rest) chunk
         then Inl ((SVerify (p, (skipn (length chunk) rest))), w)
         else Inr KVerify

(** val sink_done : sink -> world -> (world, errkind) sum **)

let sink_done s w =
  match s with
  | SMem (p, buf) ->
    (match fs_get w.w_fs p with
     | Some n0 ->
       (match n0 with
        | File c ->
          if str_eqb c buf
          then Inl w
          else (match w_write w p buf with
                | Some w' -> Inl w'
                | None -> Inr KWrite)
        | Dir -> Inr KRead)
     | None ->
       (match w_write w p buf with
        | Some w' -> Inl w'
        | None -> Inr KWrite))
  | SVerify (_, rest) -> (match rest with
                          | [] -> Inl w
                          | _ :: _ -> Inr KVerify)
  | _ -> Inl w

(** val write_temp : world -> lexpath -> str -> (world, errkind) sum **)

let write_temp w lp contents =
  match os_resolve w.w_fs lp with
  | Some q ->
    (match fs_get w.w_fs q with
     | Some n0 ->
       (match n0 with
        | File c ->
          if str_eqb c contents
          then Inl w
          else (match w_write w q contents with
                | Some w' -> Inl w'
                | None -> Inr KWrite)
        | Dir -> Inr KWrite)
     | None -> Inr KWrite)
  | None ->
    (match w_write w lp [] with
     | Some w1 ->
       (match contents with
        | [] -> Inl w1
        | _ :: _ ->
          (match w_write w1 lp contents with
           | Some w2 -> Inl w2
           | None -> Inr KWrite))
     | None -> Inr KWrite)

(** val remove_temp : world -> lexpath -> (world, errkind) sum **)

let remove_temp w lp =
  match os_resolve w.w_fs lp with
  | Some q ->
    (match w_remove_file w q with
     | Some w' -> Inl w'
     | None -> Inr KDelete)
  | None -> Inl w

type oracle = str -> path -> str -> str option

type ppmode =
| PExec
| PFirst
| PCollect of path list

(** val is_execute : ppmode -> bool **)

let is_execute = function
| PCollect _ -> false
| _ -> true

type pst = { cur : directive option; flag : bool; pmode : ppmode; tg : 
             tags; snk : sink; wld : world }

(** val set_cur : pst -> directive option -> pst **)

let set_cur s c =
  { cur = c; flag = s.flag; pmode = s.pmode; tg = s.tg; snk = s.snk; wld =
    s.wld }

(** val set_flag : pst -> bool -> pst **)

let set_flag s b =
  { cur = s.cur; flag = b; pmode = s.pmode; tg = s.tg; snk = s.snk; wld =
    s.wld }

(** val set_pmode : pst -> ppmode -> pst **)

let set_pmode s m =
  { cur = s.cur; flag = s.flag; pmode = m; tg = s.tg; snk = s.snk; wld =
    s.wld }

(** val set_tg : pst -> tags -> pst **)

let set_tg s t =
  { cur = s.cur; flag = s.flag; pmode = s.pmode; tg = t; snk = s.snk; wld =
    s.wld }

(** val set_io : pst -> sink -> world -> pst **)

let set_io s k w =
  { cur = s.cur; flag = s.flag; pmode = s.pmode; tg = s.tg; snk = k; wld = w }

(** val set_wld : pst -> world -> pst **)

let set_wld s w =
  { cur = s.cur; flag = s.flag; pmode = s.pmode; tg = s.tg; snk = s.snk;
    wld = w }

type pp_outcome =
| PpOk of world
| PpHasDeps of path list * world
| PpErr of errkind * world
| PpPanic

type step_res =
| StOk of pst
| StErr of errkind * world
| StPanic

(** val format_output : str -> str -> str list -> bool -> str **)

let format_output le ws ls trailing =
  app (join le (map (fun l -> app ws l) ls)) (if trailing then le else [])

(** val work_dir : path -> path **)

let work_dir =
  parent

(** val input_display : path -> path -> str **)

let input_display src base =
  display_from_base base src

(** val emit : str -> pst -> str option -> bool -> step_res **)

let emit le s to_write has_tail =
  if is_execute s.pmode
  then (match to_write with
        | Some x ->
          let r1 =
            if s.flag then sink_write s.snk s.wld le else Inl (s.snk, s.wld)
          in
          (match r1 with
           | Inl p ->
             let (k1, w1) = p in
             (match sink_write k1 w1 x with
              | Inl p0 ->
                let (k2, w2) = p0 in
                StOk (set_flag (set_io s k2 w2) (negb has_tail))
              | Inr k -> StErr (k, w1))
           | Inr k -> StErr (k, s.wld))
        | None -> StOk s)
  else StOk s

(** val exec_temp :
    path -> str -> str list -> bool -> world -> (world, errkind) sum **)

let exec_temp src le args is_clean w =
  match args with
  | [] -> Inr KDirective
  | export :: rest ->
    if is_txtpp_file (lex_components export)
    then Inr KDirective
    else if is_clean
         then remove_temp w (lex_join (work_dir src) export)
         else write_temp w (lex_join (work_dir src) export)
                (format_output le [] rest false)

type xres =
| XOut of str option * pst
| XErr of errkind * world

(** val collect_deps :
    path -> directive -> pst -> ((pst, pst) sum, errkind) sum **)

let collect_deps src d s =
  match s.pmode with
  | PExec -> Inl (Inr s)
  | PFirst ->
    let skip_or_exec =
      match s.pmode with
      | PExec -> Inl (Inr s)
      | PFirst -> Inl (Inr s)
      | PCollect _ -> Inl (Inl s)
    in
    (match d.d_ty with
     | DInclude ->
       let arg = hd [] d.d_args in
       (match get_txtpp_file s.wld.w_fs (lex_join (work_dir src) arg) with
        | Some x ->
          (match os_resolve s.wld.w_fs x with
           | Some q ->
             (match s.pmode with
              | PCollect deps ->
                Inl (Inl (set_pmode s (PCollect (app deps (q :: [])))))
              | _ -> Inl (Inl (set_pmode s (PCollect (q :: [])))))
           | None -> Inr KDirective)
        | None -> skip_or_exec)
     | DAfter ->
       let arg = hd [] d.d_args in
       (match get_txtpp_file s.wld.w_fs (lex_join (work_dir src) arg) with
        | Some x ->
          (match os_resolve s.wld.w_fs x with
           | Some q ->
             (match s.pmode with
              | PCollect deps ->
                Inl (Inl (set_pmode s (PCollect (app deps (q :: [])))))
              | _ -> Inl (Inl (set_pmode s (PCollect (q :: [])))))
           | None -> Inr KDirective)
        | None -> skip_or_exec)
     | _ -> skip_or_exec)
  | PCollect _ ->
    let skip_or_exec =
      match s.pmode with
      | PExec -> Inl (Inr s)
      | PFirst -> Inl (Inr s)
      | PCollect _ -> Inl (Inl s)
    in
    (match d.d_ty with
     | DInclude ->
       let arg = hd [] d.d_args in
       (match get_txtpp_file s.wld.w_fs (lex_join (work_dir src) arg) with
        | Some x ->
          (match os_resolve s.wld.w_fs x with
           | Some q ->
             (match s.pmode with
              | PCollect deps ->
                Inl (Inl (set_pmode s (PCollect (app deps (q :: [])))))
              | _ -> Inl (Inl (set_pmode s (PCollect (q :: [])))))
           | None -> Inr KDirective)
        | None -> skip_or_exec)
     | DAfter ->
       let arg = hd [] d.d_args in
       (match get_txtpp_file s.wld.w_fs (lex_join (work_dir src) arg) with
        | Some x ->
          (match os_resolve s.wld.w_fs x with
           | Some q ->
             (match s.pmode with
              | PCollect deps ->
                Inl (Inl (set_pmode s (PCollect (app deps (q :: [])))))
              | _ -> Inl (Inl (set_pmode s (PCollect (q :: [])))))
           | None -> Inr KDirective)
        | None -> skip_or_exec)
     | _ -> skip_or_exec)

(** val exec_directive :
    oracle -> mode -> path -> path -> str -> directive -> pst -> xres **)

let exec_directive orc md src base le d s =
  match md with
  | Clean ->
    (match d.d_ty with
     | DTemp ->
       (match exec_temp src le d.d_args true s.wld with
        | Inl w' -> XOut (None, (set_wld s w'))
        | Inr _ -> XOut (None, s))
     | _ -> XOut (None, s))
  | _ ->
    (match collect_deps src d s with
     | Inl s0 ->
       (match s0 with
        | Inl s' -> XOut (None, s')
        | Inr s' ->
          (match d.d_ty with
           | DInclude ->
             let arg = hd [] d.d_args in
             (match os_resolve s'.wld.w_fs (lex_join (work_dir src) arg) with
              | Some q ->
                (match read_file s'.wld.w_fs q with
                 | Some c ->
                   if utf8_valid c
                   then XOut ((Some c), s')
                   else XErr (KDirective, s'.wld)
                 | None -> XErr (KDirective, s'.wld))
              | None -> XErr (KDirective, s'.wld))
           | DRun ->
             let command = join (sPb :: []) d.d_args in
             let w1 =
               w_emit s'.wld (ERun (command, (work_dir src),
                 (input_display src base)))
             in
             (match orc command (work_dir src) (input_display src base) with
              | Some out -> XOut ((Some out), (set_wld s' w1))
              | None -> XErr (KDirective, w1))
           | DTag ->
             (match create s'.tg (hd [] d.d_args) with
              | Some t' -> XOut (None, (set_tg s' t'))
              | None -> XErr (KDirective, s'.wld))
           | DTemp ->
             (match exec_temp src le d.d_args false s'.wld with
              | Inl w' -> XOut (None, (set_wld s' w'))
              | Inr k -> XErr (k, s'.wld))
           | DWrite -> XOut ((Some (join (lFb :: []) d.d_args)), s')
           | _ -> XOut (None, s')))
     | Inr k -> XErr (k, s.wld))

(** val run_directive :
    oracle -> mode -> path -> path -> str -> directive -> bool -> pst ->
    step_res **)

let run_directive orc md src base le d has_tail s =
  match exec_directive orc md src base le d s with
  | XOut (o, s') ->
    (match o with
     | Some raw ->
       (match try_store s'.tg raw with
        | Some t' -> emit le (set_tg s' t') None has_tail
        | None ->
          emit le s' (Some
            (format_output le d.d_ws (lines raw) (ends_with_lf raw))) has_tail)
     | None -> emit le s' None has_tail)
  | XErr (k, w) -> StErr (k, w)

(** val step_fresh : mode -> str -> str -> pst -> step_res **)

let step_fresh md le line s =
  let as_text = fun l ->
    if is_execute s.pmode
    then (match inject s.tg l le with
          | Some p ->
            let (l', t') = p in emit le (set_tg s t') (Some l') false
          | None -> StPanic)
    else emit le s (Some l) false
  in
  (match detect_from line with
   | Some d ->
     if (&&) (multi d.d_ty)
          (match d.d_prefix with
           | [] -> true
           | _ :: _ -> false)
     then (match md with
           | Clean -> as_text []
           | _ -> StErr (KDirective, s.wld))
     else StOk (set_cur s (Some d))
   | None -> as_text line)

(** val step_line :
    oracle -> mode -> path -> path -> str -> str -> pst -> step_res **)

let step_line orc md src base le line s =
  match s.cur with
  | Some d ->
    (match add_line d line with
     | AddOk d' -> StOk (set_cur s (Some d'))
     | AddStop ->
       (match run_directive orc md src base le d true (set_cur s None) with
        | StOk s' -> step_fresh md le line s'
        | x -> x)
     | AddPanic -> StPanic)
  | None -> step_fresh md le line s

(** val run_lines :
    oracle -> mode -> path -> path -> str -> str list -> pst -> step_res **)

let rec run_lines orc md src base le ls s =
  match ls with
  | [] -> StOk s
  | l :: r ->
    (match step_line orc md src base le l s with
     | StOk s' -> run_lines orc md src base le r s'
     | x -> x)

(** val finish :
    oracle -> mode -> path -> path -> str -> bool -> pst -> pp_outcome **)

let finish orc md src base le trailing_newline s =
  let after_eof =
    match s.cur with
    | Some d -> run_directive orc md src base le d false (set_cur s None)
    | None -> StOk s
  in
  (match after_eof with
   | StOk s1 ->
     (match s1.pmode with
      | PCollect deps -> PpHasDeps (deps, s1.wld)
      | _ ->
        if (&&) (has_tags s1.tg) (negb (mode_eqb md Clean))
        then PpErr (KDirective, s1.wld)
        else let r =
               if (&&) s1.flag trailing_newline
               then sink_write s1.snk s1.wld le
               else Inl (s1.snk, s1.wld)
             in
             (match r with
              | Inl p ->
                let (k1, w1) = p in
                (match sink_done k1 w1 with
                 | Inl w2 -> PpOk w2
                 | Inr k -> PpErr (k, w1))
              | Inr k -> PpErr (k, s1.wld)))
   | StErr (k, w) -> PpErr (k, w)
   | StPanic -> PpPanic)

(** val detect_le : str -> str **)

let detect_le raw =
  match split_on lFb raw with
  | [] -> c_os_line_ending
  | first :: l ->
    (match l with
     | [] -> c_os_line_ending
     | _ :: _ ->
       (match rev first with
        | [] -> c_lf
        | c :: _ -> if N.eqb c cRb then c_crlf else c_lf))

(** val take_valid : str list -> str list * bool **)

let rec take_valid = function
| [] -> ([], false)
| l :: r ->
  if utf8_valid l
  then let (g, b) = take_valid r in ((l :: g), b)
  else ([], true)

(** val pp_run :
    oracle -> mode -> path -> path -> bool -> bool -> world -> pp_outcome **)

let pp_run orc md base src first_pass trailing_newline w =
  match read_file w.w_fs src with
  | Some raw ->
    let le = detect_le raw in
    (match remove_txtpp src with
     | Some out ->
       if is_txtpp_file out
       then PpErr (KOpen, w)
       else (match sink_new md w out with
             | Inl p ->
               let (k0, w0) = p in
               let (ls, bad) = take_valid (lines raw) in
               let s0 = { cur = None; flag = false; pmode =
                 (if first_pass then PFirst else PExec); tg = tags_new; snk =
                 k0; wld = w0 }
               in
               (match run_lines orc md src base le ls s0 with
                | StOk s1 ->
                  if bad
                  then PpErr (KRead, s1.wld)
                  else finish orc md src base le trailing_newline s1
                | StErr (k, w') -> PpErr (k, w')
                | StPanic -> PpPanic)
             | Inr k -> PpErr (k, w))
     | None -> PpErr (KOpen, w))
  | None -> PpErr (KOpen, w)

type file = path

type 'a amap = (file * 'a) list

(** val aget : 'a1 amap -> file -> 'a1 option **)

let rec aget m k =
  match m with
  | [] -> None
  | p :: r -> let (q, v) = p in if path_eqb q k then Some v else aget r k

(** val adel : 'a1 amap -> file -> 'a1 amap **)

let rec adel m k =
  match m with
  | [] -> []
  | p :: r ->
    let (q, v) = p in if path_eqb q k then adel r k else (q, v) :: (adel r k)

(** val aput : 'a1 amap -> file -> 'a1 -> 'a1 amap **)

let aput m k v =
  (k, v) :: (adel m k)

(** val pmem : file -> file list -> bool **)

let pmem x l =
  existsb (path_eqb x) l

type depmgr = { cnt : nat amap; inn : file list amap; fin : file list }

(** val dm_new : depmgr **)

let dm_new =
  { cnt = []; inn = []; fin = [] }

(** val add_deps :
    file list amap -> file list -> file -> nat -> bool -> file list -> (file
    list amap * nat) * bool **)

let rec add_deps inn0 fin0 a c added = function
| [] -> ((inn0, c), added)
| d :: ds ->
  if pmem d fin0
  then add_deps inn0 fin0 a c added ds
  else let cur0 = match aget inn0 d with
                  | Some l -> l
                  | None -> [] in
       if pmem a cur0
       then add_deps (aput inn0 d cur0) fin0 a c true ds
       else add_deps (aput inn0 d (a :: cur0)) fin0 a (S c) true ds

(** val add_dependency : depmgr -> file -> file list -> depmgr * bool **)

let add_dependency m a deps = match deps with
| [] -> (m, false)
| _ :: _ ->
  let c0 = match aget m.cnt a with
           | Some c -> c
           | None -> O in
  let (p, added) = add_deps m.inn m.fin a c0 false deps in
  let (inn', c) = p in
  ({ cnt = (aput m.cnt a c); inn = inn'; fin = m.fin }, added)

(** val release :
    nat amap -> file list -> file list -> (nat amap * file list) option **)

let rec release c ds out =
  match ds with
  | [] -> Some (c, out)
  | a :: r ->
    (match aget c a with
     | Some k ->
       if Nat.leb k (S O)
       then release (adel c a) r (app out (a :: []))
       else release (aput c a (sub k (S O))) r out
     | None -> None)

(** val notify_finish : depmgr -> file -> (depmgr * file list) option **)

let notify_finish m b =
  let fin' = if pmem b m.fin then m.fin else b :: m.fin in
  (match aget m.inn b with
   | Some l ->
     (match release m.cnt l [] with
      | Some p ->
        let (c', out) = p in
        Some ({ cnt = c'; inn = (adel m.inn b); fin = fin' }, out)
      | None -> None)
   | None -> Some ({ cnt = m.cnt; inn = m.inn; fin = fin' }, []))

(** val has_remaining : depmgr -> bool **)

let has_remaining m =
  existsb (fun e -> match snd e with
                    | [] -> false
                    | _ :: _ -> true) m.inn

type task =
| TScan of path
| TPp of file * bool

type ppres =
| POk
| PDeps of file list

type result =
| RScan of (file list * path list) option
| RPp of file * ppres option

type cstate = { seen : file list; seen_dirs : path list; dm : depmgr;
                total : nat; done0 : nat; inflight : task list }

(** val c_init : cstate **)

let c_init =
  { seen = []; seen_dirs = []; dm = dm_new; total = O; done0 = O; inflight =
    [] }

(** val exec_file : cstate -> file -> bool -> cstate **)

let exec_file s f first =
  if (&&) first (pmem f s.seen)
  then s
  else { seen = (if first then f :: s.seen else s.seen); seen_dirs =
         s.seen_dirs; dm = s.dm; total = (S s.total); done0 = s.done0;
         inflight = (app s.inflight ((TPp (f, first)) :: [])) }

(** val exec_dir : cstate -> path -> cstate **)

let exec_dir s d =
  if pmem d s.seen_dirs
  then s
  else { seen = s.seen; seen_dirs = (d :: s.seen_dirs); dm = s.dm; total = (S
         s.total); done0 = s.done0; inflight =
         (app s.inflight ((TScan d) :: [])) }

(** val set_dm : cstate -> depmgr -> cstate **)

let set_dm s m =
  { seen = s.seen; seen_dirs = s.seen_dirs; dm = m; total = s.total; done0 =
    s.done0; inflight = s.inflight }

(** val add_done : cstate -> cstate **)

let add_done s =
  { seen = s.seen; seen_dirs = s.seen_dirs; dm = s.dm; total = s.total;
    done0 = (S s.done0); inflight = s.inflight }

type outcome =
| Continue of cstate
| Fail
| Panic

(** val handle : cstate -> result -> outcome **)

let handle s r =
  let s0 = add_done s in
  (match r with
   | RScan r0 ->
     (match r0 with
      | Some p ->
        let (fs0, ds) = p in
        let s1 = fold_left (fun s1 f -> exec_file s1 f true) fs0 s0 in
        Continue (fold_left exec_dir ds s1)
      | None -> Fail)
   | RPp (f, r0) ->
     (match r0 with
      | Some p ->
        (match p with
         | POk ->
           (match notify_finish s0.dm f with
            | Some p0 ->
              let (m, rel) = p0 in
              Continue
              (fold_left (fun s1 g -> exec_file s1 g false) rel (set_dm s0 m))
            | None -> Panic)
         | PDeps deps ->
           let (m, added) = add_dependency s0.dm f deps in
           let s1 = set_dm s0 m in
           if added
           then Continue (fold_left (fun s2 d -> exec_file s2 d true) deps s1)
           else Continue (exec_file s1 f false))
      | None -> Fail))

(** val str_cmp : str -> str -> comparison **)

let rec str_cmp a b =
  match a with
  | [] -> (match b with
           | [] -> Eq
           | _ :: _ -> Lt)
  | x :: a' ->
    (match b with
     | [] -> Gt
     | y :: b' -> (match N.compare x y with
                   | Eq -> str_cmp a' b'
                   | x0 -> x0))

(** val path_cmp : path -> path -> comparison **)

let rec path_cmp a b =
  match a with
  | [] -> (match b with
           | [] -> Eq
           | _ :: _ -> Lt)
  | x :: a' ->
    (match b with
     | [] -> Gt
     | y :: b' -> (match str_cmp x y with
                   | Eq -> path_cmp a' b'
                   | x0 -> x0))

(** val task_cmp : task -> task -> comparison **)

let task_cmp a b =
  match a with
  | TScan p -> (match b with
                | TScan q -> path_cmp p q
                | TPp (_, _) -> Lt)
  | TPp (p, fa) ->
    (match b with
     | TScan _ -> Gt
     | TPp (q, fb) ->
       (match path_cmp p q with
        | Eq -> if fa then if fb then Eq else Lt else if fb then Gt else Eq
        | x -> x))

(** val insert_task : task -> task list -> task list **)

let rec insert_task t = function
| [] -> t :: []
| u :: r ->
  (match task_cmp t u with
   | Gt -> u :: (insert_task t r)
   | _ -> t :: (u :: r))

(** val sort_tasks : task list -> task list **)

let sort_tasks l =
  fold_right insert_task [] l

(** val remove_nth : nat -> 'a1 list -> 'a1 list **)

let rec remove_nth n0 l =
  match n0 with
  | O -> (match l with
          | [] -> []
          | _ :: r -> r)
  | S k -> (match l with
            | [] -> []
            | x :: r -> x :: (remove_nth k r))

type config = { cfg_base : lexpath; cfg_inputs : str list;
                cfg_recursive : bool; cfg_threads : n; cfg_mode : mode;
                cfg_trailing : bool }

type verdict =
| VOk
| VErr
| VPanic
| VFuel

(** val resolve_inputs :
    fs -> path -> str list -> path list -> path list -> (path list * path
    list) option **)

let rec resolve_inputs f base inputs files dirs =
  match inputs with
  | [] -> Some (files, dirs)
  | i :: r ->
    let ip = lex_join base i in
    if lex_is_dir f ip
    then (match os_resolve f ip with
          | Some d -> resolve_inputs f base r files (app dirs (d :: []))
          | None -> None)
    else if negb (is_txtpp_file ip)
         then (match get_txtpp_file f ip with
               | Some x ->
                 (match os_resolve f x with
                  | Some q ->
                    resolve_inputs f base r (app files (q :: [])) dirs
                  | None -> None)
               | None -> None)
         else (match os_resolve f ip with
               | Some q -> resolve_inputs f base r (app files (q :: [])) dirs
               | None -> None)

(** val scan_dir : fs -> path -> bool -> (path list * path list) option **)

let scan_dir f d recursive =
  if is_dir f d
  then let cs = children f d in
       Some
       ((flat_map (fun e ->
          match snd e with
          | File _ ->
            if is_txtpp_file ((fst e) :: [])
            then (app d ((fst e) :: [])) :: []
            else []
          | Dir -> []) cs),
       (flat_map (fun e ->
         match snd e with
         | File _ -> []
         | Dir -> if recursive then (app d ((fst e) :: [])) :: [] else []) cs))
  else None

(** val exec_task :
    oracle -> config -> path -> task -> world -> (result * world) option **)

let exec_task orc cfg base t w =
  match t with
  | TScan d -> Some ((RScan (scan_dir w.w_fs d cfg.cfg_recursive)), w)
  | TPp (f, first) ->
    (match pp_run orc cfg.cfg_mode base f first cfg.cfg_trailing w with
     | PpOk w' -> Some ((RPp (f, (Some POk))), w')
     | PpHasDeps (deps, w') -> Some ((RPp (f, (Some (PDeps deps)))), w')
     | PpErr (_, w') -> Some ((RPp (f, None)), w')
     | PpPanic -> None)

(** val pick : nat list -> task list -> nat **)

let pick sched l =
  Nat.modulo (hd O sched) (length l)

(** val drain :
    oracle -> config -> path -> nat -> nat list -> task list -> world -> task
    list -> (world * task list) option **)

let rec drain orc cfg base fuel sched l w trace =
  match fuel with
  | O -> Some (w, trace)
  | S fuel' ->
    (match sort_tasks l with
     | [] -> Some (w, trace)
     | t0 :: _ ->
       let sl = sort_tasks l in
       let k = pick sched sl in
       let t = nth k sl t0 in
       (match exec_task orc cfg base t w with
        | Some p ->
          let (_, w') = p in
          drain orc cfg base fuel' (tl sched) (remove_nth k sl) w'
            (app trace (t :: []))
        | None -> None))

(** val run_loop :
    oracle -> config -> path -> nat -> nat list -> cstate -> world -> task
    list -> (verdict * world) * task list **)

let rec run_loop orc cfg base fuel sched s w trace =
  match sort_tasks s.inflight with
  | [] -> (((if has_remaining s.dm then VErr else VOk), w), trace)
  | t0 :: _ ->
    (match fuel with
     | O -> ((VFuel, w), trace)
     | S fuel' ->
       let sl = sort_tasks s.inflight in
       let k = pick sched sl in
       let t = nth k sl t0 in
       let s1 = { seen = s.seen; seen_dirs = s.seen_dirs; dm = s.dm; total =
         s.total; done0 = s.done0; inflight = (remove_nth k sl) }
       in
       (match exec_task orc cfg base t w with
        | Some p ->
          let (r, w') = p in
          (match handle s1 r with
           | Continue s2 ->
             run_loop orc cfg base fuel' (tl sched) s2 w'
               (app trace (t :: []))
           | Fail ->
             (match drain orc cfg base (length s1.inflight) (tl sched)
                      s1.inflight w' (app trace (t :: [])) with
              | Some p0 -> let (w'', tr) = p0 in ((VErr, w''), tr)
              | None -> ((VPanic, w'), (app trace (t :: []))))
           | Panic -> ((VPanic, w'), (app trace (t :: []))))
        | None -> ((VPanic, w), (app trace (t :: [])))))

(** val txtpp_run :
    oracle -> config -> nat -> nat list -> world -> (verdict * world) * task
    list **)

let txtpp_run orc cfg fuel sched w =
  if N.eqb cfg.cfg_threads N0
  then ((VErr, w), [])
  else (match os_resolve w.w_fs cfg.cfg_base with
        | Some base ->
          (match resolve_inputs w.w_fs base cfg.cfg_inputs [] [] with
           | Some p ->
             let (files, dirs) = p in
             let s = fold_left (fun s f -> exec_file s f true) files c_init in
             let s0 = fold_left exec_dir dirs s in
             run_loop orc cfg base fuel sched s0 w []
           | None -> ((VErr, w), []))
        | None -> ((VErr, w), []))
