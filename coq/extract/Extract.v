(* Extraction of the executable model for the high-volume correspondence runs.
   ExtrOcamlBasic only; no Extract Constant / Extract Inductive of our own:
   nat, positive and N remain the extracted inductive types. *)
Require Import Txtpp.Str Txtpp.Grammar Txtpp.Tags Txtpp.Path Txtpp.Fs Txtpp.Sink Txtpp.Pp Txtpp.Dep Txtpp.Coord Txtpp.Run.
Require Extraction.
Require Import ExtrOcamlBasic.
Extraction Language OCaml.
Extraction "model.ml"
  detect_from add_line multi
  tags_new create try_store inject has_tags replace_line_ending
  is_txtpp_file remove_txtpp txtpp_candidates lex_components display_from_base split_ext
  lines detect_le utf8_valid trim trim_end split_ws
  add_dependency notify_finish has_remaining dm_new
  pp_run txtpp_run sink_new sink_write sink_done.
