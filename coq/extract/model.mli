
val negb : bool -> bool

type nat =
| O
| S of nat

val option_map : ('a1 -> 'a2) -> 'a1 option -> 'a2 option

type ('a, 'b) sum =
| Inl of 'a
| Inr of 'b

val fst : ('a1 * 'a2) -> 'a1

val snd : ('a1 * 'a2) -> 'a2

val length : 'a1 list -> nat

val app : 'a1 list -> 'a1 list -> 'a1 list

type comparison =
| Eq
| Lt
| Gt

val add : nat -> nat -> nat

val sub : nat -> nat -> nat

module Nat :
 sig
  val sub : nat -> nat -> nat

  val eqb : nat -> nat -> bool

  val leb : nat -> nat -> bool

  val ltb : nat -> nat -> bool

  val divmod : nat -> nat -> nat -> nat -> nat * nat

  val modulo : nat -> nat -> nat
 end

val hd : 'a1 -> 'a1 list -> 'a1

val tl : 'a1 list -> 'a1 list

val nth : nat -> 'a1 list -> 'a1 -> 'a1

val nth_error : 'a1 list -> nat -> 'a1 option

val removelast : 'a1 list -> 'a1 list

val rev : 'a1 list -> 'a1 list

val concat : 'a1 list list -> 'a1 list

val map : ('a1 -> 'a2) -> 'a1 list -> 'a2 list

val flat_map : ('a1 -> 'a2 list) -> 'a1 list -> 'a2 list

val fold_left : ('a1 -> 'a2 -> 'a1) -> 'a2 list -> 'a1 -> 'a1

val fold_right : ('a2 -> 'a1 -> 'a1) -> 'a1 -> 'a2 list -> 'a1

val existsb : ('a1 -> bool) -> 'a1 list -> bool

val filter : ('a1 -> bool) -> 'a1 list -> 'a1 list

val find : ('a1 -> bool) -> 'a1 list -> 'a1 option

val firstn : nat -> 'a1 list -> 'a1 list

val skipn : nat -> 'a1 list -> 'a1 list

val repeat : 'a1 -> nat -> 'a1 list

type positive =
| XI of positive
| XO of positive
| XH

type n =
| N0
| Npos of positive

module Pos :
 sig
  val compare_cont : comparison -> positive -> positive -> comparison

  val compare : positive -> positive -> comparison

  val eqb : positive -> positive -> bool
 end

module N :
 sig
  val compare : n -> n -> comparison

  val eqb : n -> n -> bool

  val leb : n -> n -> bool

  val ltb : n -> n -> bool
 end

type byte = n

type str = byte list

val lFb : byte

val cRb : byte

val sPb : byte

val str_eqb : str -> str -> bool

val starts_with : str -> str -> bool

val find_sub : str -> str -> nat option

val ends_with_lf : str -> bool

val ascii_ws : byte -> bool

val e2_80_ws : byte -> bool

val ws_len : str -> nat

val ws_prefix_len : nat -> str -> nat

val split_ws : str -> str * str

val trim_start : str -> str

val ws_len_rev : str -> nat

val drop_ws_rev : nat -> str -> str

val trim_end : str -> str

val trim : str -> str

val split_once_sp : str -> (str * str) option

val join : str -> str list -> str

val split_on : byte -> str -> str list

val strip_cr : str -> str

val lines_of_pieces : str list -> str list

val lines : str -> str list

val repeat_sp : nat -> str

val is_cont : byte -> bool

val utf8_valid : str -> bool

val is_char_boundary : str -> nat -> bool

val slice_from : nat -> str -> str option

val c_txtpp_hash : n list

val c_txtpp_ext : n list

val c_crlf : n list

val c_lf : n list

val c_os_line_ending : n list

val c_name_table : (n list * n) list

val c_single_line_types : n list

type dtype =
| DEmpty
| DInclude
| DAfter
| DRun
| DTag
| DTemp
| DWrite

val dtype_of_index : n -> dtype option

val dtype_index : dtype -> n

type directive = { d_ws : str; d_prefix : str; d_ty : dtype; d_args : str list }

val tXTPP_HASH : str

val lookup_name : (str * n) list -> str -> dtype option

val dtype_of_name : str -> dtype option

val multi : dtype -> bool

val detect_from : str -> directive option

type add_result =
| AddOk of directive
| AddStop
| AddPanic

val push_arg : directive -> str -> directive

val add_line : directive -> str -> add_result

type tags = { listening : str option; stored : (str * str) list }

val tags_new : tags

val prefix_related : str -> str -> bool

val create : tags -> str -> tags option

val store_remove : str -> (str * str) list -> (str * str) list

val store_put : str -> str -> (str * str) list -> (str * str) list

val try_store : tags -> str -> tags option

val has_tags : tags -> bool

val replace_line_ending : str -> str -> bool -> str

type occ = nat * (str * str)

val occurrences : (str * str) list -> str -> occ list

val insert_occ : occ -> occ list -> occ list

val sort_occ : occ list -> occ list

val stable_sort_occ : occ list -> occ list

val inject_loop :
  str -> str -> occ list -> nat -> str -> str list -> ((str * nat) * str
  list) option

val inject : tags -> str -> str -> (str * tags) option

type name = str

type path = name list

type lexpath = name list

val dOT : byte

val sLASH : byte

val dotdot : name

val tXTPP_EXT : str

val path_eqb : path -> path -> bool

val last_dot : str -> nat -> nat option -> nat option

val split_ext : name -> str * str option

val is_normal : name -> bool

val lex_extension : lexpath -> str option

val lex_set_extension : lexpath -> str -> lexpath

val is_txtpp_file : lexpath -> bool

val remove_txtpp : lexpath -> lexpath option

val txtpp_candidates : lexpath -> lexpath list

val is_dot : name -> bool

val lex_components : str -> lexpath

val is_absolute : str -> bool

val lex_join : path -> str -> lexpath

val parent : path -> path

val strip_prefix : path -> path -> path option

val rOOT_MARK : str

val abs_string : path -> str

val rel_string : path -> str

val display_from_base : path -> path -> str

type node =
| File of str
| Dir

type fs = (path * node) list

val fs_get : fs -> path -> node option

val fs_del : fs -> path -> fs

val fs_put : fs -> path -> node -> fs

val is_dir : fs -> path -> bool

val is_file : fs -> path -> bool

val exists_ : fs -> path -> bool

val os_walk : fs -> path -> lexpath -> path option

val os_resolve : fs -> lexpath -> path option

val lex_is_file : fs -> lexpath -> bool

val lex_is_dir : fs -> lexpath -> bool

val get_txtpp_file : fs -> lexpath -> lexpath option

val children : fs -> path -> (name * node) list

type event =
| EWrite of path
| ERemove of path
| ERun of str * path * str

type world = { w_fs : fs; w_log : event list }

val w_emit : world -> event -> world

val write_target : fs -> lexpath -> path option

val w_write : world -> lexpath -> str -> world option

val w_append : world -> path -> str -> world option

val w_remove_file : world -> path -> world option

val read_file : fs -> path -> str option

type mode =
| Build
| InMemoryBuild
| Clean
| Verify

val mode_eqb : mode -> mode -> bool

type errkind =
| KOpen
| KRead
| KWrite
| KDelete
| KVerify
| KDirective

type sink =
| SBuild of path
| SMem of path * str
| SClean
| SVerify of path * str

val sink_new : mode -> world -> path -> (sink * world, errkind) sum

val sink_write : sink -> world -> str -> (sink * world, errkind) sum

val sink_done : sink -> world -> (world, errkind) sum

val write_temp : world -> lexpath -> str -> (world, errkind) sum

val remove_temp : world -> lexpath -> (world, errkind) sum

type oracle = str -> path -> str -> str option

type ppmode =
| PExec
| PFirst
| PCollect of path list

val is_execute : ppmode -> bool

type pst = { cur : directive option; flag : bool; pmode : ppmode; tg : 
             tags; snk : sink; wld : world }

val set_cur : pst -> directive option -> pst

val set_flag : pst -> bool -> pst

val set_pmode : pst -> ppmode -> pst

val set_tg : pst -> tags -> pst

val set_io : pst -> sink -> world -> pst

val set_wld : pst -> world -> pst

type pp_outcome =
| PpOk of world
| PpHasDeps of path list * world
| PpErr of errkind * world
| PpPanic

type step_res =
| StOk of pst
| StErr of errkind * world
| StPanic

val format_output : str -> str -> str list -> bool -> str

val work_dir : path -> path

val input_display : path -> path -> str

val emit : str -> pst -> str option -> bool -> step_res

val exec_temp :
  path -> str -> str list -> bool -> world -> (world, errkind) sum

type xres =
| XOut of str option * pst
| XErr of errkind * world

val collect_deps : path -> directive -> pst -> ((pst, pst) sum, errkind) sum

val exec_directive :
  oracle -> mode -> path -> path -> str -> directive -> pst -> xres

val run_directive :
  oracle -> mode -> path -> path -> str -> directive -> bool -> pst ->
  step_res

val step_fresh : mode -> str -> str -> pst -> step_res

val step_line :
  oracle -> mode -> path -> path -> str -> str -> pst -> step_res

val run_lines :
  oracle -> mode -> path -> path -> str -> str list -> pst -> step_res

val finish :
  oracle -> mode -> path -> path -> str -> bool -> pst -> pp_outcome

val detect_le : str -> str

val take_valid : str list -> str list * bool

val pp_run :
  oracle -> mode -> path -> path -> bool -> bool -> world -> pp_outcome

type file = path

type 'a amap = (file * 'a) list

val aget : 'a1 amap -> file -> 'a1 option

val adel : 'a1 amap -> file -> 'a1 amap

val aput : 'a1 amap -> file -> 'a1 -> 'a1 amap

val pmem : file -> file list -> bool

type depmgr = { cnt : nat amap; inn : file list amap; fin : file list }

val dm_new : depmgr

val add_deps :
  file list amap -> file list -> file -> nat -> bool -> file list -> (file
  list amap * nat) * bool

val add_dependency : depmgr -> file -> file list -> depmgr * bool

val release :
  nat amap -> file list -> file list -> (nat amap * file list) option

val notify_finish : depmgr -> file -> (depmgr * file list) option

val has_remaining : depmgr -> bool

type task =
| TScan of path
| TPp of file * bool

type ppres =
| POk
| PDeps of file list

type result =
| RScan of (file list * path list) option
| RPp of file * ppres option

type cstate = { seen : file list; seen_dirs : path list; dm : depmgr;
                total : nat; done0 : nat; inflight : task list }

val c_init : cstate

val exec_file : cstate -> file -> bool -> cstate

val exec_dir : cstate -> path -> cstate

val set_dm : cstate -> depmgr -> cstate

val add_done : cstate -> cstate

type outcome =
| Continue of cstate
| Fail
| Panic

val handle : cstate -> result -> outcome

val str_cmp : str -> str -> comparison

val path_cmp : path -> path -> comparison

val task_cmp : task -> task -> comparison

val insert_task : task -> task list -> task list

val sort_tasks : task list -> task list

val remove_nth : nat -> 'a1 list -> 'a1 list

type config = { cfg_base : lexpath; cfg_inputs : str list;
                cfg_recursive : bool; cfg_threads : n; cfg_mode : mode;
                cfg_trailing : bool }

type verdict =
| VOk
| VErr
| VPanic
| VFuel

val resolve_inputs :
  fs -> path -> str list -> path list -> path list -> (path list * path list)
  option

val scan_dir : fs -> path -> bool -> (path list * path list) option

val exec_task :
  oracle -> config -> path -> task -> world -> (result * world) option

val pick : nat list -> task list -> nat

val drain :
  oracle -> config -> path -> nat -> nat list -> task list -> world -> task
  list -> (world * task list) option

val run_loop :
  oracle -> config -> path -> nat -> nat list -> cstate -> world -> task list
  -> (verdict * world) * task list

val txtpp_run :
  oracle -> config -> nat -> nat list -> world -> (verdict * world) * task
  list
