(* Dep.v — DepManager (core/util/dependency.rs).  HashMaps are association
   lists keyed by canonical path; iteration order is arbitrary in Rust and
   nothing below depends on it except the order of the released list, which
   the coordinator treats as a set.  Model only. *)
Require Import Txtpp.Str Txtpp.Path.

Definition file := path.

Section AMAP.
Context {A : Type}.
Definition amap := list (file * A).
Fixpoint aget (m : amap) (k : file) : option A :=
  match m with
  | [] => None
  | (q, v) :: r => if path_eqb q k then Some v else aget r k
  end.
Fixpoint adel (m : amap) (k : file) : amap :=
  match m with
  | [] => []
  | (q, v) :: r => if path_eqb q k then adel r k else (q, v) :: adel r k
  end.
Definition aput (m : amap) (k : file) (v : A) : amap := (k, v) :: adel m k.
End AMAP.
Arguments amap A : clear implicits.

Definition pmem (x : file) (l : list file) : bool := existsb (path_eqb x) l.

Record depmgr := mkDM {
  cnt : amap nat;            (* out_edge_counts *)
  inn : amap (list file);    (* in_edges: dependency -> set of dependers *)
  fin : list file }.         (* finished *)

Definition dm_new : depmgr := mkDM [] [] [].

(* the loop of add_dependency (dependency.rs:36-45): c is *dependency_count *)
Fixpoint add_deps (inn0 : amap (list file)) (fin0 : list file) (a : file) (c : nat) (added : bool)
  (deps : list file) : amap (list file) * nat * bool :=
  match deps with
  | [] => (inn0, c, added)
  | d :: ds =>
    if pmem d fin0 then add_deps inn0 fin0 a c added ds
    else
      let cur := match aget inn0 d with Some l => l | None => [] end in
      if pmem a cur then add_deps (aput inn0 d cur) fin0 a c true ds
      else add_deps (aput inn0 d (a :: cur)) fin0 a (S c) true ds
  end.

(* dependency.rs:30-51 *)
Definition add_dependency (m : depmgr) (a : file) (deps : list file) : depmgr * bool :=
  match deps with
  | [] => (m, false)
  | _ =>
    let c0 := match aget (cnt m) a with Some c => c | None => 0%nat end in
    let '(inn', c, added) := add_deps (inn m) (fin m) a c0 false deps in
    (mkDM (aput (cnt m) a c) inn' (fin m), added)
  end.

(* the loop of notify_finish (dependency.rs:65-73). None = the unwrap panics *)
Fixpoint release (c : amap nat) (ds : list file) (out : list file) : option (amap nat * list file) :=
  match ds with
  | [] => Some (c, out)
  | a :: r =>
    match aget c a with
    | None => None
    | Some k => if Nat.leb k 1 then release (adel c a) r (out ++ [a])
                else release (aput c a (k - 1)%nat) r out
    end
  end.

(* dependency.rs:57-76 *)
Definition notify_finish (m : depmgr) (b : file) : option (depmgr * list file) :=
  let fin' := if pmem b (fin m) then fin m else b :: fin m in
  match aget (inn m) b with
  | None => Some (mkDM (cnt m) (inn m) fin', [])
  | Some l =>
    match release (cnt m) l [] with
    | None => None
    | Some (c', out) => Some (mkDM c' (adel (inn m) b) fin', out)
    end
  end.

(* take_remaining is non-empty (dependency.rs:78-90) *)
Definition has_remaining (m : depmgr) : bool :=
  existsb (fun e => match snd e with [] => false | _ => true end) (inn m).
