(* Crosscheck.v — definitions used by the checks to re-evaluate, inside Coq with vm_compute, a sample of the cases
   the extracted OCaml evaluator ran, and to compare with what it printed (cross-checks extraction and driver.ml
   against the kernel's evaluator).  Definitions only. *)
Require Import Txtpp.Str Txtpp.Path Txtpp.Fs Txtpp.Sink Txtpp.Pp Txtpp.Dep Txtpp.Coord Txtpp.Run.

(* a command oracle given as a table: (command, Some stdout | None for failure) *)
Fixpoint table_oracle (tbl : list (str * option str)) : oracle :=
  fun cmd cwd file =>
    match tbl with
    | [] => None
    | (c, r) :: rest => if str_eqb c cmd then r else table_oracle rest cmd cwd file
    end.

Definition verdict_code (v : verdict) : N :=
  match v with VOk => 0 | VErr => 1 | VPanic => 2 | VFuel => 3 end.

Definition node_eqb (a b : node) : bool :=
  match a, b with
  | Dir, Dir => true
  | File x, File y => str_eqb x y
  | _, _ => false
  end.

Definition task_code (t : task) : N * path :=
  match t with TScan d => (0, d) | TPp f true => (1, f) | TPp f false => (2, f) end.
Fixpoint trace_eqb (a : list (task * result)) (b : list (N * path)) : bool :=
  match a, b with
  | [], [] => true
  | (t, _) :: a', (k, p) :: b' => N.eqb (fst (task_code t)) k && path_eqb (snd (task_code t)) p && trace_eqb a' b'
  | _, _ => false
  end.

(* does a run's result equal the expected verdict, task trace and tree (as a set of path -> node bindings)? *)
Definition matches (x : verdict * world * list (task * result) * cstate) (v : N) (trace : list (N * path))
  (tree : list (path * node)) : bool :=
  let '(vd, w, tr, _) := x in
  N.eqb (verdict_code vd) v && trace_eqb tr trace &&
  forallb (fun e => match fs_get (w_fs w) (fst e) with Some n => node_eqb n (snd e) | None => false end) tree &&
  forallb (fun e => existsb (fun e' => path_eqb (fst e) (fst e')) tree) (w_fs w).
