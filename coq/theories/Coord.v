(* Coord.v — the coordinator (core/execute/mod.rs run_internal, execute_file,
   execute_directory) as a transition function on results.  Model only. *)
Require Import Txtpp.Str Txtpp.Path Txtpp.Dep.

Inductive task := TScan (d : path) | TPp (f : file) (first : bool).

(* what a worker sends back *)
Inductive ppres := POk | PDeps (deps : list file).
Inductive result :=
| RScan (r : option (list file * list path))      (* None = Err *)
| RPp (f : file) (r : option ppres).               (* None = Err *)

Record cstate := mkC {
  seen : list file;          (* Txtpp::files *)
  seen_dirs : list path;     (* Txtpp::dirs *)
  dm : depmgr;
  total : nat;               (* Progress::total_count *)
  done : nat;                (* Progress::done_count *)
  inflight : list task }.    (* spawned, result not yet received *)

Definition c_init : cstate := mkC [] [] dm_new 0 0 [].

(* execute_file, mod.rs:254-287 *)
Definition exec_file (s : cstate) (f : file) (first : bool) : cstate :=
  if first && pmem f (seen s) then s
  else mkC (if first then f :: seen s else seen s) (seen_dirs s) (dm s) (S (total s)) (done s)
           (inflight s ++ [TPp f first]).

(* execute_directory, mod.rs:241-252 (scans de-duplicated by canonical path) *)
Definition exec_dir (s : cstate) (d : path) : cstate :=
  if pmem d (seen_dirs s) then s
  else mkC (seen s) (d :: seen_dirs s) (dm s) (S (total s)) (done s) (inflight s ++ [TScan d]).

Definition set_dm (s : cstate) (m : depmgr) : cstate :=
  mkC (seen s) (seen_dirs s) m (total s) (done s) (inflight s).
Definition add_done (s : cstate) : cstate :=
  mkC (seen s) (seen_dirs s) (dm s) (total s) (S (done s)) (inflight s).

Inductive outcome := Continue (s : cstate) | Fail | Panic.

(* the body of the loop for one received result, mod.rs:155-211 *)
Definition handle (s : cstate) (r : result) : outcome :=
  let s := add_done s in
  match r with
  | RScan None => Fail
  | RScan (Some (fs, ds)) =>
    let s := fold_left (fun s f => exec_file s f true) fs s in
    Continue (fold_left exec_dir ds s)
  | RPp _ None => Fail
  | RPp f (Some (PDeps deps)) =>
    let '(m, added) := add_dependency (dm s) f deps in
    let s := set_dm s m in
    if added then Continue (fold_left (fun s d => exec_file s d true) deps s)
    else Continue (exec_file s f false)
  | RPp f (Some POk) =>
    match notify_finish (dm s) f with
    | None => Panic
    | Some (m, rel) => Continue (fold_left (fun s g => exec_file s g false) rel (set_dm s m))
    end
  end.

(* ---- canonical order of the in-flight set (what the controller sorts by) ---- *)
Fixpoint str_cmp (a b : str) : comparison :=
  match a, b with
  | [], [] => Eq
  | [], _ :: _ => Lt
  | _ :: _, [] => Gt
  | x :: a', y :: b' => match N.compare x y with Eq => str_cmp a' b' | c => c end
  end.
Fixpoint path_cmp (a b : path) : comparison :=
  match a, b with
  | [], [] => Eq
  | [], _ :: _ => Lt
  | _ :: _, [] => Gt
  | x :: a', y :: b' => match str_cmp x y with Eq => path_cmp a' b' | c => c end
  end.
Definition task_cmp (a b : task) : comparison :=
  match a, b with
  | TScan _, TPp _ _ => Lt
  | TPp _ _, TScan _ => Gt
  | TScan p, TScan q => path_cmp p q
  | TPp p fa, TPp q fb =>
    match path_cmp p q with
    | Eq => match fa, fb with true, false => Lt | false, true => Gt | _, _ => Eq end
    | c => c
    end
  end.
Fixpoint insert_task (t : task) (l : list task) : list task :=
  match l with
  | [] => [t]
  | u :: r => match task_cmp t u with Gt => u :: insert_task t r | _ => t :: u :: r end
  end.
Definition sort_tasks (l : list task) : list task := fold_right insert_task [] l.

Fixpoint remove_nth {A} (n : nat) (l : list A) : list A :=
  match n, l with
  | O, _ :: r => r
  | S k, x :: r => x :: remove_nth k r
  | _, [] => []
  end.
