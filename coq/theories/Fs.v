(* Fs.v — an in-memory file system with OS-style path resolution, and the
   world (file system + event log + command oracle log) the run acts on.
   No symlinks (DESIGN.md D10).  Model only. *)
Require Import Txtpp.Str Txtpp.Path.

Inductive node := File (content : str) | Dir.
Definition fs := list (path * node).

Fixpoint fs_get (f : fs) (p : path) : option node :=
  match p with
  | [] => Some Dir                      (* the root always exists *)
  | _ =>
    match f with
    | [] => None
    | (q, n) :: r => if path_eqb q p then Some n else fs_get r p
    end
  end.

Fixpoint fs_del (f : fs) (p : path) : fs :=
  match f with
  | [] => []
  | (q, n) :: r => if path_eqb q p then fs_del r p else (q, n) :: fs_del r p
  end.

Definition fs_put (f : fs) (p : path) (n : node) : fs := (p, n) :: fs_del f p.

Definition is_dir (f : fs) (p : path) : bool :=
  match fs_get f p with Some Dir => true | _ => false end.
Definition is_file (f : fs) (p : path) : bool :=
  match fs_get f p with Some (File _) => true | _ => false end.
Definition exists_ (f : fs) (p : path) : bool :=
  match fs_get f p with Some _ => true | None => false end.

(* resolve components the way the OS does: every intermediate must be an
   existing directory, `..` pops, the result exists. *)
Fixpoint os_walk (f : fs) (cur : path) (comps : lexpath) : option path :=
  match comps with
  | [] => if exists_ f cur then Some cur else None
  | c :: r =>
    if negb (is_dir f cur) then None
    else if str_eqb c dotdot then os_walk f (removelast cur) r
    else os_walk f (cur ++ [c]) r
  end.

(* Path::exists / canonicalize of a lexical absolute path *)
Definition os_resolve (f : fs) (p : lexpath) : option path := os_walk f [] p.

Definition lex_is_file (f : fs) (p : lexpath) : bool :=
  match os_resolve f p with Some q => is_file f q | None => false end.
Definition lex_is_dir (f : fs) (p : lexpath) : bool :=
  match os_resolve f p with Some q => is_dir f q | None => false end.

(* TxtppPath::get_txtpp_file (fs/path/mod.rs:64-103): first candidate that is a file *)
Definition get_txtpp_file (f : fs) (p : lexpath) : option lexpath :=
  find (lex_is_file f) (txtpp_candidates p).

(* direct children of a directory, as (name, node), in storage order *)
Definition children (f : fs) (d : path) : list (name * node) :=
  flat_map (fun e => match rev (fst e) with
                     | n :: rp => if path_eqb (rev rp) d then [(n, snd e)] else []
                     | [] => []
                     end) f.

(* ---- the world ---- *)
Inductive event :=
| EWrite (p : path)     (* create, truncate, write or append *)
| ERemove (p : path)
| ERun (cmd : str) (cwd : path) (file : str).

Record world := mkW { w_fs : fs; w_log : list event }.

Definition w_emit (w : world) (e : event) : world := mkW (w_fs w) (w_log w ++ [e]).

(* where a create/write of the lexical path lands: the parent must resolve to a
   directory and the last component must be an ordinary name *)
Definition write_target (f : fs) (p : lexpath) : option path :=
  match rev p with
  | n :: rp =>
    if is_normal n then
      match os_resolve f (rev rp) with
      | Some d => if is_dir f d then
                    let q := d ++ [n] in
                    if is_dir f q then None else Some q
                  else None
      | None => None
      end
    else None
  | [] => None
  end.

(* fs::write / File::create + write_all: None = the OS reports an error *)
Definition w_write (w : world) (p : lexpath) (c : str) : option world :=
  match write_target (w_fs w) p with
  | Some q => Some (mkW (fs_put (w_fs w) q (File c)) (w_log w ++ [EWrite q]))
  | None => None
  end.

Definition w_append (w : world) (q : path) (c : str) : option world :=
  match fs_get (w_fs w) q with
  | Some (File old) => Some (mkW (fs_put (w_fs w) q (File (old ++ c))) (w_log w ++ [EWrite q]))
  | _ => None
  end.

(* fs::remove_file *)
Definition w_remove_file (w : world) (q : path) : option world :=
  match fs_get (w_fs w) q with
  | Some (File _) => Some (mkW (fs_del (w_fs w) q) (w_log w ++ [ERemove q]))
  | _ => None
  end.

Definition read_file (f : fs) (q : path) : option str :=
  match fs_get f q with Some (File c) => Some c | _ => None end.
