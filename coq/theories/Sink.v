(* Sink.v — the four output sinks of IOCtx (fs/io_context.rs:96-128,173-205,277-366)
   and write_temp_file (io_context.rs:131-170).  Model only.
   Build-mode writes are modelled unbuffered: a task is atomic at its completion
   (CoordInv.no_conflict) and BufWriter flushes on drop, so only the final file
   content of a task is observable. *)
Require Import Txtpp.Str Txtpp.Path Txtpp.Fs.

Inductive mode := Build | InMemoryBuild | Clean | Verify.
Definition mode_eqb (a b : mode) : bool :=
  match a, b with
  | Build, Build | InMemoryBuild, InMemoryBuild | Clean, Clean | Verify, Verify => true
  | _, _ => false
  end.

(* PpErrorKind *)
Inductive errkind := KOpen | KRead | KWrite | KDelete | KVerify | KDirective.

Inductive sink :=
| SBuild (p : path)
| SMem (p : path) (buf : str)
| SClean
| SVerify (p : path) (rest : str).   (* bytes of the existing output not yet matched *)

(* CtxOut::new.  `out` is the canonical output path (parent of the source ++ output name). *)
Definition sink_new (m : mode) (w : world) (out : path) : (sink * world) + errkind :=
  match m with
  | Build =>
    match w_write w out [] with          (* File::create: create or truncate *)
    | Some w' => inl (SBuild out, w')
    | None => inr KOpen
    end
  | InMemoryBuild => inl (SMem out [], w)
  | Clean =>
    if exists_ (w_fs w) out then
      match w_remove_file w out with
      | Some w' => inl (SClean, w')
      | None => inr KDelete
      end
    else inl (SClean, w)
  | Verify =>
    match fs_get (w_fs w) out with
    | None => inr KVerify
    | Some (File c) => inl (SVerify out c, w)
    | Some Dir => inr KRead
    end
  end.

(* IOCtx::write_output *)
Definition sink_write (s : sink) (w : world) (chunk : str) : (sink * world) + errkind :=
  match s with
  | SBuild p =>
    match w_append w p chunk with
    | Some w' => inl (s, w')
    | None => inr KWrite
    end
  | SMem p buf => inl (SMem p (buf ++ chunk), w)
  | SClean => inl (s, w)
  | SVerify p rest =>
    if Nat.ltb (length rest) (length chunk) then inr KVerify
    else if str_eqb (firstn (length chunk) rest) chunk
         then inl (SVerify p (skipn (length chunk) rest), w)
         else inr KVerify
  end.

(* IOCtx::done *)
Definition sink_done (s : sink) (w : world) : world + errkind :=
  match s with
  | SBuild _ => inl w
  | SMem p buf =>
    match fs_get (w_fs w) p with
    | Some (File c) =>
      if str_eqb c buf then inl w
      else match w_write w p buf with Some w' => inl w' | None => inr KWrite end
    | Some Dir => inr KRead
    | None => match w_write w p buf with Some w' => inl w' | None => inr KWrite end
    end
  | SClean => inl w
  | SVerify _ rest => match rest with [] => inl w | _ => inr KVerify end
  end.

(* IOCtx::write_temp_file in the non-clean modes; `lp` = work_dir.join(temp_path) *)
Definition write_temp (w : world) (lp : lexpath) (contents : str) : world + errkind :=
  match os_resolve (w_fs w) lp with
  | Some q =>
    match fs_get (w_fs w) q with
    | Some (File c) =>
      if str_eqb c contents then inl w
      else match w_write w q contents with Some w' => inl w' | None => inr KWrite end
    | _ => inr KWrite                          (* a directory *)
    end
  | None =>
    match w_write w lp [] with                 (* create_file *)
    | None => inr KWrite
    | Some w1 =>
      match contents with
      | [] => inl w1                           (* "" == "" : skip *)
      | _ => match w_write w1 lp contents with Some w2 => inl w2 | None => inr KWrite end
      end
    end
  end.

(* IOCtx::write_temp_file in clean mode: remove if it resolves; Err only if the removal fails *)
Definition remove_temp (w : world) (lp : lexpath) : world + errkind :=
  match os_resolve (w_fs w) lp with
  | Some q => match w_remove_file w q with Some w' => inl w' | None => inr KDelete end
  | None => inl w
  end.
