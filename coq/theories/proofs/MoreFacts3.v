(* MoreFacts3.v — GOAL 3 of MoreFacts.v (C03): which commands a pass runs, and how often a run runs them. *)
Require Import Txtpp.Str Txtpp.Consts Txtpp.Grammar Txtpp.Tags Txtpp.Path Txtpp.Fs Txtpp.Sink Txtpp.Pp Txtpp.Spec.
Require Import Txtpp.Dep Txtpp.Coord Txtpp.Run.
Require Import Txtpp.proofs.StrFacts Txtpp.proofs.GrammarFacts Txtpp.proofs.TagsFacts Txtpp.proofs.SinkFacts Txtpp.proofs.PathFacts.
Require Import Txtpp.proofs.PpFacts Txtpp.proofs.EventFacts Txtpp.proofs.FrameFacts Txtpp.proofs.ConfluenceFacts.
Require Import Txtpp.proofs.DepFacts Txtpp.proofs.CoordFacts Txtpp.proofs.RunFacts Txtpp.proofs.ScheduleFacts.
Require Import Txtpp.proofs.RunEventsFacts Txtpp.proofs.CleanVerifyFacts.
From Coq Require Import Lia Permutation.

(* ===================================================================================================================
   PART 1 — the command events of a log, and "no command was logged" as a relation between worlds
   =================================================================================================================== *)
Definition is_run (e : event) : bool := match e with ERun _ _ _ => true | _ => false end.
Definition runs_of (l : list event) : list event := filter is_run l.

Lemma runs_of_app a b : runs_of (a ++ b) = runs_of a ++ runs_of b.
Proof. apply filter_app. Qed.

(* the log of w' is the log of w followed by events among which the commands are exactly `rs` *)
Definition runs_rel (rs : list event) (w w' : world) : Prop :=
  exists evs, w_log w' = w_log w ++ evs /\ runs_of evs = rs.
Definition nr (w w' : world) : Prop := runs_rel [] w w'.

Lemma runs_rel_trans a b w1 w2 w3 : runs_rel a w1 w2 -> runs_rel b w2 w3 -> runs_rel (a ++ b) w1 w3.
Proof.
  intros (e1 & L1 & R1) (e2 & L2 & R2). exists (e1 ++ e2). split; [rewrite L2, L1, app_assoc; reflexivity|].
  rewrite runs_of_app, R1, R2. reflexivity.
Qed.
Lemma nr_refl w : nr w w.
Proof. exists []. split; [rewrite app_nil_r; reflexivity|reflexivity]. Qed.
Lemma nr_trans a b c : nr a b -> nr b c -> nr a c.
Proof. intros H1 H2. exact (runs_rel_trans [] [] a b c H1 H2). Qed.
Lemma runs_rel_nr_l rs a b c : nr a b -> runs_rel rs b c -> runs_rel rs a c.
Proof. intros H1 H2. exact (runs_rel_trans [] rs a b c H1 H2). Qed.
Lemma runs_rel_nr_r rs a b c : runs_rel rs a b -> nr b c -> runs_rel rs a c.
Proof. intros H1 H2. pose proof (runs_rel_trans rs [] a b c H1 H2) as H. rewrite app_nil_r in H. exact H. Qed.
Lemma nr_write w p c w' : w_write w p c = Some w' -> nr w w'.
Proof.
  unfold w_write. destruct (write_target (w_fs w) p); [|discriminate]. intros H; inversion H; subst.
  exists [EWrite p0]. split; reflexivity.
Qed.
Lemma nr_append w q c w' : w_append w q c = Some w' -> nr w w'.
Proof.
  unfold w_append. destruct (fs_get (w_fs w) q) as [[old|]|]; try discriminate. intros H; inversion H; subst.
  exists [EWrite q]. split; reflexivity.
Qed.
Lemma nr_remove w q w' : w_remove_file w q = Some w' -> nr w w'.
Proof.
  unfold w_remove_file. destruct (fs_get (w_fs w) q) as [[old|]|]; try discriminate. intros H; inversion H; subst.
  exists [ERemove q]. split; reflexivity.
Qed.
Lemma runs_rel_emit w e : is_run e = true -> runs_rel [e] w (w_emit w e).
Proof. intros H. exists [e]. split; [reflexivity|]. cbn. rewrite H. reflexivity. Qed.

Definition nr_emit_step := emit_R nr nr_refl nr_trans nr_append.
Definition nr_exec_temp := exec_temp_R nr nr_refl nr_trans nr_write nr_remove.
Definition nr_sink_new := sink_new_R nr nr_refl nr_write nr_remove.
Definition nr_sink_write := sink_write_R nr nr_refl nr_append.
Definition nr_sink_done := sink_done_R nr nr_refl nr_write.

(* ===================================================================================================================
   PART 2 — the commands of one item
   =================================================================================================================== *)
Section Items.
Variable orc : oracle.
Variable md : mode.
Variable src base : path.
Variable le : str.
Hypothesis Hmd : md <> Clean.

(* the event logged when the run directive d of the source is executed *)
Definition run_event (d : directive) : event :=
  ERun (join [SPb] (d_args d)) (parent src) (display_from_base base src).

(* what an item logs when the pass is in mode m: a run directive is executed in the modes PExec and PFirst, and
   skipped once the pass is collecting dependencies *)
Definition item_runs (m : ppmode) (it : item) : list event :=
  match it with
  | IDir d _ => match d_ty d with
                | DRun => if is_execute m then [run_event d] else []
                | _ => []
                end
  | _ => []
  end.

Lemma exec_directive_runs d fol s o s' :
  exec_directive orc md src base le d s = XOut o s' ->
  runs_rel (item_runs (pmode s) (IDir d fol)) (wld s) (wld s').
Proof.
  assert (Hb : exec_directive orc md src base le d s = exec_directive orc Build src base le d s).
  { destruct md; try reflexivity. congruence. }
  rewrite Hb. clear Hb. unfold exec_directive, collect_deps. cbn [item_runs].
  assert (Rn : forall w, runs_rel [] w w) by exact nr_refl.
  assert (Tmp : forall s1, match exec_temp src le (d_args d) false (wld s1) with
                           | inl w' => XOut None (set_wld s1 w') | inr k => XErr k (wld s1) end = XOut o s' ->
                           runs_rel [] (wld s1) (wld s')).
  { intros s1 H. destruct (exec_temp src le (d_args d) false (wld s1)) as [w1|k] eqn:E; [|discriminate].
    inversion H; subst. cbn [wld set_wld]. eapply nr_exec_temp; eauto. }
  assert (Run : forall s1, match orc (join [SPb] (d_args d)) (work_dir src) (input_display src base) with
                           | Some out => XOut (Some out) (set_wld s1 (w_emit (wld s1) (ERun (join [SPb] (d_args d)) (work_dir src) (input_display src base))))
                           | None => XErr KDirective (w_emit (wld s1) (ERun (join [SPb] (d_args d)) (work_dir src) (input_display src base))) end = XOut o s' ->
                           runs_rel [run_event d] (wld s1) (wld s')).
  { intros s1 H. destruct (orc (join [SPb] (d_args d)) (work_dir src) (input_display src base)); [|discriminate].
    inversion H; subst. cbn [wld set_wld]. apply runs_rel_emit. reflexivity. }
  assert (Inc : forall s1, match os_resolve (w_fs (wld s1)) (lex_join (work_dir src) (hd [] (d_args d))) with
                           | Some q => match read_file (w_fs (wld s1)) q with
                                       | Some c => if utf8_valid c then XOut (Some c) s1 else XErr KDirective (wld s1)
                                       | None => XErr KDirective (wld s1) end
                           | None => XErr KDirective (wld s1) end = XOut o s' -> runs_rel [] (wld s1) (wld s')).
  { intros s1 H. destruct (os_resolve (w_fs (wld s1)) (lex_join (work_dir src) (hd [] (d_args d)))) as [q|]; [|discriminate].
    destruct (read_file (w_fs (wld s1)) q) as [c|]; [|discriminate]. destruct (utf8_valid c); [|discriminate].
    inversion H; subst. apply Rn. }
  assert (Tag : forall s1, match create (tg s1) (hd [] (d_args d)) with
                           | Some t' => XOut None (set_tg s1 t') | None => XErr KDirective (wld s1) end = XOut o s' ->
                           runs_rel [] (wld s1) (wld s')).
  { intros s1 H. destruct (create (tg s1) (hd [] (d_args d))); [|discriminate]. inversion H; subst. apply Rn. }
  destruct (pmode s) eqn:Em; cbn [is_execute].
  - destruct (d_ty d); intros H; try (inversion H; subst; apply Rn); auto.
  - destruct (d_ty d); try (intros H; try (inversion H; subst; apply Rn); auto; fail);
      (destruct (get_txtpp_file (w_fs (wld s)) (lex_join (work_dir src) (hd [] (d_args d)))) as [x|];
       [destruct (os_resolve (w_fs (wld s)) x); intros H; inversion H; subst; apply Rn|]);
      intros H; try (inversion H; subst; apply Rn); auto.
  - destruct (d_ty d); try (intros H; inversion H; subst; apply Rn);
      (destruct (get_txtpp_file (w_fs (wld s)) (lex_join (work_dir src) (hd [] (d_args d)))) as [x|];
       [destruct (os_resolve (w_fs (wld s)) x); intros H; inversion H; subst; apply Rn|]);
      intros H; inversion H; subst; apply Rn.
Qed.

Lemma emit_nr s o t s' : emit le s o t = StOk s' -> nr (wld s) (wld s').
Proof. intros H. pose proof (nr_emit_step le s o t) as X. rewrite H in X. exact X. Qed.

Lemma do_item_runs it s s' :
  do_item orc md src base le it s = StOk s' -> runs_rel (item_runs (pmode s) it) (wld s) (wld s').
Proof.
  unfold do_item. destruct (item_output orc md src base le it s) as [o s1|k w|] eqn:Ei; try discriminate.
  intros He. apply emit_nr in He. eapply runs_rel_nr_r; [|exact He]. clear He.
  destruct it as [l|d fol| |]; cbn [item_output] in Ei; try discriminate.
  - cbn [item_runs]. destruct (is_execute (pmode s)); [|inversion Ei; apply nr_refl].
    destruct (inject (tg s) l le) as [[l' t']|]; [|discriminate]. inversion Ei; apply nr_refl.
  - destruct (exec_directive orc md src base le d s) as [[raw|] s2|k w] eqn:Ex; try discriminate.
    + apply (exec_directive_runs d fol) in Ex. destruct (try_store (tg s2) raw); inversion Ei; subst; exact Ex.
    + apply (exec_directive_runs d fol) in Ex. inversion Ei; subst; exact Ex.
Qed.

(* all the run directives of the items, in order *)
Definition all_runs (its : list item) : list event := flat_map (item_runs PExec) its.

Lemma item_runs_execute m it : is_execute m = true -> item_runs m it = item_runs PExec it.
Proof. intros H. destruct it as [l|d fol| |]; try reflexivity. cbn [item_runs]. rewrite H. reflexivity. Qed.

Lemma next_mode_execute_inv f m it : is_execute (next_mode f src m it) = true -> is_execute m = true.
Proof.
  destruct it as [l|d fol| |]; cbn [next_mode]; try (intros H; exact H).
  unfold next_mode_d. destruct m; try reflexivity. destruct (dep_target f src d); intros H; exact H.
Qed.

(* (b) dynamic form: items that end in an executing mode (a final pass; a first pass that met no dependency) have
   logged one command event per run directive, in order *)
Lemma ritems_runs_execute its : forall s s',
  ritems orc md src base le its s = StOk s' -> is_execute (pmode s') = true ->
  runs_rel (all_runs its) (wld s) (wld s') /\ is_execute (pmode s) = true.
Proof.
  induction its as [|it r IH]; intros s s' E Hx.
  - rewrite ritems_nil in E. inversion E; subst. split; [apply nr_refl|exact Hx].
  - rewrite ritems_cons in E. destruct (do_item orc md src base le it s) as [s2|k w|] eqn:E2; try discriminate.
    destruct (IH s2 s' E Hx) as [R2 X2].
    rewrite (do_item_mode _ _ _ _ _ _ _ _ Hmd E2) in X2. apply next_mode_execute_inv in X2.
    split; [|exact X2]. unfold all_runs. cbn [flat_map]. eapply runs_rel_trans; [|exact R2].
    rewrite <- (item_runs_execute (pmode s) it X2). apply do_item_runs. exact E2.
Qed.

(* the commands a pass in mode m is expected to log on the items, the pass mode being computed in the file system f *)
Fixpoint exp_runs (f : fs) (m : ppmode) (its : list item) : list event :=
  match its with
  | [] => []
  | it :: r => item_runs m it ++ exp_runs f (next_mode f src m it) r
  end.

Lemma exp_runs_collect f its : forall ds, exp_runs f (PCollect ds) its = [].
Proof.
  induction its as [|it r IH]; intros ds; [reflexivity|]. cbn [exp_runs].
  assert (E : item_runs (PCollect ds) it = []) by (destruct it as [l|d fol| |]; try reflexivity; cbn; destruct (d_ty d); reflexivity).
  rewrite E. cbn [app]. destruct it as [l|d fol| |]; cbn [next_mode]; try apply IH.
  unfold next_mode_d. destruct (dep_target f src d); apply IH.
Qed.
Lemma exp_runs_exec f its : exp_runs f PExec its = all_runs its.
Proof.
  induction its as [|it r IH]; [reflexivity|]. cbn [exp_runs].
  assert (E : next_mode f src PExec it = PExec) by (destruct it as [l|d fol| |]; reflexivity).
  rewrite E, IH. reflexivity.
Qed.
(* (a) the shape of the expectation for a first pass: everything when there is no dependency target; otherwise the
   run directives of the items BEFORE the first item that has a dependency target *)
Lemma exp_runs_first f its :
  (dep_targets f src its = [] /\ exp_runs f PFirst its = all_runs its) \/
  (exists pre d fol post q,
     its = pre ++ IDir d fol :: post /\ dep_targets f src pre = [] /\ dep_target f src d = Some q /\
     exp_runs f PFirst its = all_runs pre).
Proof.
  induction its as [|it r IH]; [left; split; reflexivity|].
  assert (Same : next_mode f src PFirst it = PFirst -> dep_targets f src (it :: r) = dep_targets f src r ->
    (dep_targets f src (it :: r) = [] /\ exp_runs f PFirst (it :: r) = all_runs (it :: r)) \/
    (exists pre d fol post q,
       it :: r = pre ++ IDir d fol :: post /\ dep_targets f src pre = [] /\ dep_target f src d = Some q /\
       exp_runs f PFirst (it :: r) = all_runs pre)).
  { intros En Ed. cbn [exp_runs]. rewrite En, Ed. unfold all_runs. cbn [flat_map].
    rewrite (item_runs_execute PFirst it eq_refl).
    destruct IH as [[I1 I2]|(pre & d & fol & post & q & I1 & I2 & I3 & I4)].
    - left. split; [exact I1|]. rewrite I2. reflexivity.
    - right. exists (it :: pre), d, fol, post, q. split; [rewrite I1; reflexivity|].
      split; [|split; [exact I3|]].
      + assert (X : dep_targets f src (it :: pre) = dep_targets f src pre).
        { destruct it as [l|d0 fol0| |]; try reflexivity. cbn [dep_targets].
          cbn [dep_targets] in Ed. destruct (dep_target f src d0); [|reflexivity].
          exfalso. apply (f_equal (@length path)) in Ed. cbn in Ed. lia. }
        rewrite X. exact I2.
      + cbn [flat_map]. rewrite I4. reflexivity. }
  destruct it as [l|d fol| |]; try (apply Same; reflexivity).
  destruct (dep_target f src d) as [q|] eqn:Et.
  - right. exists [], d, fol, r, q. split; [reflexivity|]. split; [reflexivity|]. split; [exact Et|].
    cbn [exp_runs next_mode]. unfold next_mode_d. rewrite Et, exp_runs_collect, app_nil_r.
    cbn [item_runs]. unfold dep_target in Et. destruct (d_ty d); try discriminate; reflexivity.
  - apply Same; [cbn [next_mode]; unfold next_mode_d; rewrite Et; reflexivity|cbn [dep_targets]; rewrite Et; reflexivity].
Qed.

(* the static form, for any pass: with the candidates of the include/after arguments outside the paths the pass may
   write (ScheduleFacts.Ch / its_ok), the commands logged are `exp_runs` computed in the world w00 in which the pass
   started *)
Section Static.
Variable W : list path.
Variable w00 : world.
Variable k0 : sink.
Hypothesis Hk0 : forall e, skw_ev k0 e -> ev_allowed W e.

Lemma ritems_runs_static its : forall s s',
  Ch W w00 k0 s -> its_ok md src W its ->
  ritems orc md src base le its s = StOk s' ->
  runs_rel (exp_runs (w_fs w00) (pmode s) its) (wld s) (wld s').
Proof.
  induction its as [|it r IH]; intros s s' C Hok E.
  - rewrite ritems_nil in E. inversion E; subst. apply nr_refl.
  - rewrite ritems_cons in E. destruct (do_item orc md src base le it s) as [s2|k w|] eqn:E2; try discriminate.
    assert (C2 : Ch W w00 k0 s2).
    { apply (Ch_step orc md src base le W w00 k0 Hk0 it s s2 C); [|exact E2].
      intros d fol e -> He. apply (proj1 Hok d fol e); [left; reflexivity|exact He]. }
    cbn [exp_runs]. eapply runs_rel_trans; [apply do_item_runs; exact E2|].
    rewrite <- (Ch_next_mode src W w00 k0 it s C).
    2:{ intros d fol c -> Hc. apply (proj2 Hok d fol c); [left; reflexivity|exact Hc]. }
    rewrite <- (do_item_mode _ _ _ _ _ _ _ _ Hmd E2).
    apply (IH s2 s' C2 (its_ok_tail _ _ _ _ _ Hok) E).
Qed.
End Static.
End Items.

(* ===================================================================================================================
   PART 3 — one pass
   =================================================================================================================== *)
Lemma epilogue_ok_nr md le tn s w' :
  epilogue md le tn s = PpOk w' -> nr (wld s) w' /\ is_execute (pmode s) = true.
Proof.
  unfold epilogue.
  assert (T : (if has_tags (tg s) && negb (mode_eqb md Clean) then PpErr KDirective (wld s)
               else let r := if flag s && tn then sink_write (snk s) (wld s) le else inl (snk s, wld s) in
                    match r with
                    | inl (k1, w1) => match sink_done k1 w1 with inl w2 => PpOk w2 | inr k => PpErr k w1 end
                    | inr k => PpErr k (wld s)
                    end) = PpOk w' -> nr (wld s) w').
  { destruct (has_tags (tg s) && negb (mode_eqb md Clean)); [discriminate|]. cbv zeta.
    assert (D1 : match (if flag s && tn then sink_write (snk s) (wld s) le else inl (snk s, wld s)) with
                 | inl (k1, w1) => nr (wld s) w1 | inr _ => True end).
    { destruct (flag s && tn); [|apply nr_refl].
      destruct (sink_write (snk s) (wld s) le) as [[k1 w1]|k] eqn:E; [|exact I]. eapply nr_sink_write; eauto. }
    destruct (if flag s && tn then sink_write (snk s) (wld s) le else inl (snk s, wld s)) as [[k1 w1]|k]; [|discriminate].
    destruct (sink_done k1 w1) as [w2|k] eqn:E2; [|discriminate].
    intros H. inversion H; subst. eapply nr_trans; [exact D1|]. eapply nr_sink_done; eauto. }
  destruct (pmode s); [intros H; split; [exact (T H)|reflexivity]|intros H; split; [exact (T H)|reflexivity]|discriminate].
Qed.

(* the rest of a pass that does not end with an error, seen through the items *)
Lemma pp_rest_not_err orc md base src first tn raw k0 w0 :
  (forall k w, pp_rest orc md base src first tn raw k0 w0 <> PpErr k w) ->
  pp_rest orc md base src first tn raw k0 w0 =
  spec_out orc md src base (detect_le raw) tn (items_of' md raw)
    (mkP None false (if first then PFirst else PExec) tags_new k0 w0).
Proof.
  intros Hne. unfold pp_rest, items_of' in *. destruct (take_valid (lines raw)) as [ls bad]. cbn [fst].
  set (s0 := mkP None false (if first then PFirst else PExec) tags_new k0 w0) in *.
  pose proof (fusion orc md src base (detect_le raw) tn ls s0) as F.
  change (cur s0) with (@None directive) in F. change (set_cur s0 None) with s0 in F.
  rewrite <- F. unfold outcome_of.
  destruct (run_lines orc md src base (detect_le raw) ls s0) as [s1|k w|]; try reflexivity.
  destruct bad; [|reflexivity]. exfalso. apply (Hne KRead (wld s1)). reflexivity.
Qed.

Section Pass.
Variable orc : oracle.
Variable md : mode.
Variable base src : path.
Variable tn : bool.
Hypothesis Hmd : md <> Clean.

(* (b) a pass that succeeds — a final pass, or the first pass of a file without dependencies — logs one command event
   per run directive of the source, in the order of the source, and no other command event *)
Theorem pass_ok_runs first w w' :
  pp_run orc md base src first tn w = PpOk w' ->
  runs_rel (all_runs src base (items_of md w src)) w w'.
Proof.
  rewrite pp_run_unfold. unfold items_of. destruct (read_file (w_fs w) src) as [raw|]; [|discriminate].
  destruct (remove_txtpp src) as [out|]; [|discriminate]. destruct (is_txtpp_file out); [discriminate|].
  destruct (sink_new md w out) as [[k0 w0]|k] eqn:En; [|discriminate]. apply nr_sink_new in En.
  intros H. apply pp_rest_ok_iff in H. destruct H as [_ H]. unfold spec_out in H.
  change (fst (run_items orc md src base (detect_le raw) (items_of' md raw)
                 (mkP None false (if first then PFirst else PExec) tags_new k0 w0)))
    with (ritems orc md src base (detect_le raw) (items_of' md raw)
                 (mkP None false (if first then PFirst else PExec) tags_new k0 w0)) in H.
  destruct (ritems orc md src base (detect_le raw) (items_of' md raw)
              (mkP None false (if first then PFirst else PExec) tags_new k0 w0)) as [s1|k w1|] eqn:E; try discriminate.
  apply epilogue_ok_nr in H. destruct H as [N X].
  destruct (ritems_runs_execute orc md src base (detect_le raw) Hmd _ _ _ E X) as [R _].
  eapply runs_rel_nr_l; [exact En|]. eapply runs_rel_nr_r; [exact R|exact N].
Qed.

(* (a) a first pass that reports dependencies (the candidates of its include/after arguments being apart from what it
   may write: ScheduleFacts.cands_apart) logs the commands `exp_runs` computed in the initial world ... *)
Theorem first_pass_deps_runs_exp w deps w' :
  cands_apart md w src ->
  pp_run orc md base src true tn w = PpHasDeps deps w' ->
  runs_rel (exp_runs src base (w_fs w) PFirst (items_of md w src)) w w'.
Proof.
  intros Hca. rewrite pp_run_unfold.
  destruct (read_file (w_fs w) src) as [raw|] eqn:Er; [|discriminate].
  destruct (remove_txtpp src) as [out|] eqn:Ho; [|discriminate]. destruct (is_txtpp_file out); [discriminate|].
  destruct (sink_new md w out) as [[k0 w0]|k] eqn:En; [|discriminate].
  intros H. rewrite pp_rest_not_err in H by (intros k w1 E; rewrite E in H; discriminate).
  unfold spec_out in H.
  change (fst (run_items orc md src base (detect_le raw) (items_of' md raw) (mkP None false PFirst tags_new k0 w0)))
    with (ritems orc md src base (detect_le raw) (items_of' md raw) (mkP None false PFirst tags_new k0 w0)) in H.
  destruct (ritems orc md src base (detect_le raw) (items_of' md raw) (mkP None false PFirst tags_new k0 w0))
    as [s1|k w1|] eqn:E; try discriminate.
  apply epilogue_deps in H. destruct H as [_ <-].
  rewrite (start_items md src w raw Er).
  eapply runs_rel_nr_l; [exact (nr_sink_new _ _ _ _ _ En)|].
  apply (ritems_runs_static orc md src base (detect_le raw) Hmd (writes_of md w src) w k0
           (start_k0 md src w w0 out raw k0 Ho Er En) (items_of' md raw) _ s1
           (start_Ch md src w w0 out raw k0 Ho Er En) (start_its_ok md src w out raw Ho Er Hca) E).
Qed.

Lemma dep_targets_app f a b : dep_targets f src (a ++ b) = dep_targets f src a ++ dep_targets f src b.
Proof.
  induction a as [|it a IH]; [reflexivity|]. cbn [app dep_targets]. destruct it as [l|d fol| |]; try exact IH.
  destruct (dep_target f src d); [cbn [app]; f_equal; exact IH|exact IH].
Qed.

(* ... that is: exactly the commands of the run directives that PRECEDE the first dependency directive (the first
   include/after whose argument has a `.txtpp` source), in order; nothing after it is executed *)
Theorem first_pass_deps_runs w deps w' :
  cands_apart md w src ->
  pp_run orc md base src true tn w = PpHasDeps deps w' ->
  exists pre d fol post q,
    items_of md w src = pre ++ IDir d fol :: post /\
    dep_targets (w_fs w) src pre = [] /\ dep_target (w_fs w) src d = Some q /\
    deps = q :: dep_targets (w_fs w) src post /\
    runs_rel (all_runs src base pre) w w'.
Proof.
  intros Hca H. pose proof (first_pass_deps_runs_exp w deps w' Hca H) as R.
  destruct (first_pass_reports_exactly orc md base src tn w deps w' Hmd Hca H) as (_ & Hd & Hne).
  destruct (exp_runs_first src base (w_fs w) (items_of md w src))
    as [[I1 _]|(pre & d & fol & post & q & I1 & I2 & I3 & I4)]; [congruence|].
  exists pre, d, fol, post, q. split; [exact I1|]. split; [exact I2|]. split; [exact I3|]. split.
  - rewrite Hd, I1, dep_targets_app, I2. cbn [app dep_targets]. rewrite I3. reflexivity.
  - rewrite <- I4. exact R.
Qed.
End Pass.

(* ===================================================================================================================
   PART 4 — the whole run
   =================================================================================================================== *)
Section Run.
Variable orc : oracle.
Variable cfg : config.
Let md := cfg_mode cfg.
Let tn := cfg_trailing cfg.
Hypothesis Hmd : md <> Clean.

(* the commands a completed task is expected to have logged, given the world wt in which it was executed:
   nothing for a scan; every run directive of the source for a pass that succeeded; the run directives before the
   first dependency directive for a first pass that reported dependencies.  (Failed tasks: see below.) *)
Definition task_runs (base : path) (t : task) (r : result) (wt : world) : list event :=
  match t, r with
  | TPp f _, RPp _ (Some POk) => all_runs f base (items_of md wt f)
  | TPp f _, RPp _ (Some (PDeps _)) => exp_runs f base (w_fs wt) PFirst (items_of md wt f)
  | _, _ => []
  end.

Lemma exec_task_runs base t wt r w1 :
  exec_task orc cfg base t wt = Some (r, w1) -> ~ is_err r ->
  (forall f, t = TPp f true -> cands_apart md wt f) ->
  runs_rel (task_runs base t r wt) wt w1.
Proof.
  intros E Hne Hca. destruct t as [d|f b].
  - cbn in E. inversion E; subst. apply nr_refl.
  - cbn [exec_task] in E. fold md tn in E.
    destruct (pp_run orc md base f b tn wt) as [w2|deps w2|k w2|] eqn:Ep; inversion E; subst; cbn [task_runs].
    + apply (pass_ok_runs orc md base f tn Hmd b wt w1 Ep).
    + destruct b; [|exfalso; exact (pp_run_final_no_deps orc base md f tn wt deps w1 Ep)].
      apply (first_pass_deps_runs_exp orc md base f tn Hmd wt deps w1 (Hca f eq_refl) Ep).
    + exfalso. apply Hne. exact I.
Qed.

(* the expectation along a chain of tasks, each evaluated in the world in which it is executed *)
Fixpoint chain_runs (base : path) (w : world) (l : list (task * result)) : list event :=
  match l with
  | [] => []
  | (t, r) :: rest =>
    task_runs base t r w ++
    match exec_task orc cfg base t w with Some (_, w1) => chain_runs base w1 rest | None => [] end
  end.

Lemma exec_chain_runs base w l w' :
  exec_chain orc cfg base w l w' ->
  (forall t r, In (t, r) l -> ~ is_err r) ->
  (forall f r wt, ran_in orc cfg base w l (TPp f true) r wt -> cands_apart md wt f) ->
  runs_rel (chain_runs base w l) w w'.
Proof.
  intros H. induction H as [w|w t r w1 rest w' E H IH]; intros Hne Hca; [apply nr_refl|].
  cbn [chain_runs]. rewrite E. eapply runs_rel_trans.
  - apply (exec_task_runs base t w r w1 E); [apply (Hne t r); left; reflexivity|].
    intros f ->. apply (Hca f r w). exists [], rest. split; [reflexivity|constructor].
  - apply IH.
    + intros t0 r0 Hin. apply (Hne t0 r0). right. exact Hin.
    + intros f r0 wt Hr. apply (Hca f r0 wt). eapply ran_in_cons; eauto.
Qed.

(* the facts of RunFacts about a successful loop, for the whole run *)
Lemma txtpp_run_ok_facts fuel sched w :
  let x := txtpp_run orc cfg fuel sched w in
  verdict_of x = VOk ->
  NoDup (map fst (trace_of x)) /\ forall t r, In (t, r) (trace_of x) -> ~ is_err r.
Proof.
  cbv zeta. unfold txtpp_run.
  destruct (cfg_threads cfg =? 0); [discriminate|].
  destruct (os_resolve (w_fs w) (cfg_base cfg)) as [base|]; [|discriminate].
  destruct (resolve_inputs (w_fs w) base (cfg_inputs cfg) [] []) as [[files dirs]|]; [|discriminate].
  change (fold_left exec_dir dirs (fold_left (fun s f => exec_file s f true) files c_init))
    with (gs (ginit files dirs)).
  intros Hv. split.
  - apply (trace_nodup orc cfg base files dirs fuel sched w Hv).
  - intros t r Hin.
    destruct (ok_means_no_error orc cfg base files dirs (ginit files dirs) fuel sched w [] t r
                (greach_init files dirs) Hv Hin) as [[]|H]. exact H.
Qed.

(* (c) C03 for a successful run, every task evaluated in the world in which it ran.
   The commands logged by the whole run are, in trace order, those of its tasks: all the run directives of f for
   each pass of f that succeeded, the run directives before the first dependency directive for each first pass that
   reported dependencies, nothing for scans; and every (file, pass) occurs at most once in the trace.
   Hence a run directive that follows a dependency directive, or that sits in a file without dependencies, is
   executed exactly once per pass of its file that succeeded, i.e. at most once per kind of pass. *)
Theorem run_commands fuel sched w :
  let x := txtpp_run orc cfg fuel sched w in
  let base := run_base cfg w in
  verdict_of x = VOk ->
  (forall f r wt, ran_in orc cfg base w (trace_of x) (TPp f true) r wt -> cands_apart md wt f) ->
  runs_rel (chain_runs base w (trace_of x)) w (world_of x) /\
  NoDup (map fst (trace_of x)) /\
  (forall t r, In (t, r) (trace_of x) -> ~ is_err r).
Proof.
  cbv zeta. intros Hv Hca. destruct (txtpp_run_ok_facts fuel sched w Hv) as [ND Hne].
  split; [|split; [exact ND|exact Hne]].
  apply exec_chain_runs; [apply txtpp_run_chain|exact Hne|exact Hca].
Qed.
End Run.

(* ===================================================================================================================
   PART 5 — the whole run on a legal tree: everything evaluated in the INITIAL tree
   =================================================================================================================== *)
Lemma src_files_txtpp F f : In f (src_files F) -> is_txtpp_file f = true.
Proof.
  unfold src_files. intros H. apply in_map_iff in H. destruct H as ([p n] & <- & H).
  apply filter_In in H. destruct H as [_ H]. cbn [fst snd] in *. destruct n; [exact H|discriminate].
Qed.

Lemma exp_runs_agree src base f1 f2 its :
  (forall d fol, In (IDir d fol) its -> dep_target f1 src d = dep_target f2 src d) ->
  forall m, exp_runs src base f1 m its = exp_runs src base f2 m its.
Proof.
  induction its as [|it r IH]; intros Hd m; [reflexivity|]. cbn [exp_runs].
  assert (E : next_mode f1 src m it = next_mode f2 src m it).
  { destruct it as [l|d fol| |]; try reflexivity. cbn [next_mode]. unfold next_mode_d.
    rewrite (Hd d fol (or_introl eq_refl)). reflexivity. }
  rewrite E. f_equal. apply IH. intros d fol Hin. apply (Hd d fol). right. exact Hin.
Qed.

Section RunLegal.
Variable orc : oracle.
Variable cfg : config.
Let md := cfg_mode cfg.
Hypothesis Hmd : md <> Clean.

(* the static hypothesis on a source f of the initial tree w: the `.txtpp` candidates of its include/after arguments
   are `.txtpp` paths (no `..` after the name) and none of them is a path the pass may write *)
Definition cands_ok (w : world) (f : path) : Prop :=
  cands_apart md w f /\ forall c, In c (cand_probes f (items_of md w f)) -> is_txtpp_file c = true.

Lemma chain_runs_static base w0 l : forall w w',
  exec_chain orc cfg base w l w' ->
  (forall t r wt, ran_in orc cfg base w l t r wt -> task_runs cfg base t r wt = task_runs cfg base t r w0) ->
  chain_runs orc cfg base w l = flat_map (fun x => task_runs cfg base (fst x) (snd x) w0) l.
Proof.
  induction l as [|[t r] rest IH]; intros w w' H Hs; [reflexivity|].
  inversion H as [|w2 t2 r2 w1 rest2 w3 E H']; subst. cbn [chain_runs flat_map fst snd]. rewrite E. f_equal.
  - apply (Hs t r w). exists [], rest. split; [reflexivity|constructor].
  - apply (IH w1 w' H'). intros t0 r0 wt Hr. apply (Hs t0 r0 wt). eapply ran_in_cons; eauto.
Qed.

Theorem run_commands_legal fuel sched w :
  let x := txtpp_run orc cfg fuel sched w in
  let base := run_base cfg w in
  NoDup (map fst (w_fs w)) -> legal_names (w_fs w) ->
  (forall f, In f (src_files (w_fs w)) -> cands_ok w f) ->
  verdict_of x = VOk ->
  runs_rel (flat_map (fun tr => task_runs cfg base (fst tr) (snd tr) w) (trace_of x)) w (world_of x) /\
  NoDup (map fst (trace_of x)) /\
  (forall t r, In (t, r) (trace_of x) -> ~ is_err r).
Proof.
  cbv zeta. intros ND WF Hok Hv.
  (* every pass of the trace ran in a world with the sources and directories of the initial tree *)
  assert (Hsame : forall f b r wt,
            ran_in orc cfg (run_base cfg w) w (trace_of (txtpp_run orc cfg fuel sched w)) (TPp f b) r wt ->
            In f (src_files (w_fs w)) /\ fs_get (w_fs wt) f = fs_get (w_fs w) f /\
            agree (fun p => negb (is_txtpp_file p)) (w_fs w) (w_fs wt)).
  { intros f b r wt Hr.
    assert (Hg : In f (src_files (w_fs w))).
    { apply (txtpp_run_trace_good orc cfg fuel sched w ND WF (TPp f b) r). eapply ran_in_In; exact Hr. }
    destruct (ran_in_txtpp_same_legal orc cfg fuel sched w (TPp f b) r wt ND WF Hr) as [HS HD].
    split; [exact Hg|]. split; [apply HS; apply (src_files_txtpp _ _ Hg)|]. split.
    - intros p Hp. symmetry. apply HS. destruct (is_txtpp_file p); [reflexivity|discriminate].
    - intros p. symmetry. apply HD. }
  destruct (run_commands orc cfg Hmd fuel sched w Hv) as (R & ND' & Hne).
  { intros f r wt Hr. destruct (Hsame f true r wt Hr) as (Hg & Ef & _). destruct (Hok f Hg) as [Hca _].
    unfold cands_apart. fold md. rewrite (items_of_same md w wt f Ef), (writes_of_same md w wt f Ef). exact Hca. }
  split; [|split; [exact ND'|exact Hne]].
  rewrite <- (chain_runs_static (run_base cfg w) w _ w _ (txtpp_run_chain orc cfg fuel sched w)); [exact R|].
  intros t r wt Hr. destruct t as [d|f b]; [reflexivity|].
  destruct (Hsame f b r wt Hr) as (Hg & Ef & Ha). destruct (Hok f Hg) as [_ Hct].
  destruct r as [x|g [[|ds]|]]; cbn [task_runs]; fold md; try reflexivity.
  - rewrite (items_of_same md w wt f Ef). reflexivity.
  - rewrite (items_of_same md w wt f Ef). apply exp_runs_agree. intros d0 fol Hin. symmetry.
    apply (dep_target_agree (fun p => negb (is_txtpp_file p)) _ _ f d0 Ha).
    intros c Hc. rewrite (Hct c); [reflexivity|]. eapply cand_probes_in; eauto.
Qed.
End RunLegal.

(* ===================================================================================================================
   PART 6 — non-vacuity.  The tree
       d/ ,
       d/a.txtpp = "-- TXTPP#run X\nTXTPP#include b\n-- TXTPP#run Y\n"   (a command, a dependency on b.txtpp, a command)
       d/b.txtpp = "-- TXTPP#run Z\nz\n"                             (a command, a text line: no dependency)
   with an oracle that answers "o\n" to every command.
   =================================================================================================================== *)
Definition c3_a : path := [[100]; [97; 46; 116; 120; 116; 112; 112]].     (* d/a.txtpp *)
Definition c3_b : path := [[100]; [98; 46; 116; 120; 116; 112; 112]].     (* d/b.txtpp *)
Definition c3_run (c : N) : str := [45; 45; 32] ++ c_txtpp_hash ++ [114; 117; 110; 32; c; 10].   (* "-- TXTPP#run <c>\n" *)
Definition c3_araw : str :=
  c3_run 88 ++ c_txtpp_hash ++ [105; 110; 99; 108; 117; 100; 101; 32; 98; 10] ++ c3_run 89.
Definition c3_braw : str := c3_run 90 ++ [122; 10].
Definition c3_fs : fs := [([[100]], Dir); (c3_a, File c3_araw); (c3_b, File c3_braw)].
Definition c3_w : world := mkW c3_fs [].
Definition c3_orc : oracle := fun _ _ _ => Some [111; 10].
Definition c3_cfg : config := mkCfg [] [[100]] true 1 Build false.
Definition c3_ev (f : path) (c : N) : event := ERun [c] [[100]] (display_from_base [] f).

Lemma c3_cands_ok f : In f (src_files (w_fs c3_w)) -> cands_ok c3_cfg c3_w f.
Proof.
  intros Hf. vm_compute in Hf. destruct Hf as [<-|[<-|[]]]; split.
  - intros c Hc Hw. vm_compute in Hc, Hw. destruct Hc as [<-|[]]. intuition discriminate.
  - intros c Hc. vm_compute in Hc. destruct Hc as [<-|[]]. reflexivity.
  - intros c Hc Hw. vm_compute in Hc. destruct Hc.
  - intros c Hc. vm_compute in Hc. destruct Hc.
Qed.

(* (a) the first pass of a.txtpp runs X only: Y comes after the dependency directive;
   (b) the final pass of a.txtpp (once d/b exists) runs X and Y, in this order *)
Example pass_runs_example :
  (exists w', pp_run c3_orc Build [] c3_a true false c3_w = PpHasDeps [c3_b] w' /\
              runs_of (w_log w') = [c3_ev c3_a 88] /\
              all_runs c3_a [] (firstn 1 (items_of Build c3_w c3_a)) = [c3_ev c3_a 88]) /\
  (exists w1 w', pp_run c3_orc Build [] c3_b true false c3_w = PpOk w1 /\
                 pp_run c3_orc Build [] c3_a false false (mkW (w_fs w1) []) = PpOk w' /\
                 runs_of (w_log w') = [c3_ev c3_a 88; c3_ev c3_a 89] /\
                 all_runs c3_a [] (items_of Build c3_w c3_a) = [c3_ev c3_a 88; c3_ev c3_a 89]).
Proof.
  split.
  - destruct (pp_run c3_orc Build [] c3_a true false c3_w) as [w'|deps w'|k w'|] eqn:E; try (vm_compute in E; discriminate).
    assert (Hd : deps = [c3_b]) by (vm_compute in E; inversion E; reflexivity). subst deps.
    exists w'. split; [reflexivity|].
    (* through the theorem *)
    destruct (first_pass_deps_runs c3_orc Build [] c3_a false ltac:(discriminate) c3_w [c3_b] w'
                (proj1 (c3_cands_ok c3_a ltac:(vm_compute; tauto))) E)
      as (pre & d & fol & post & q & I1 & I2 & I3 & _ & (evs & L & R)).
    assert (Hpre : pre = firstn 1 (items_of Build c3_w c3_a)).
    { vm_compute in I1. destruct pre as [|x [|y pre']].
      - exfalso. inversion I1; subst d. vm_compute in I3. discriminate.
      - inversion I1. vm_compute. reflexivity.
      - exfalso. inversion I1 as [[Hx Hy Hz]]. subst x y. vm_compute in I2. discriminate. }
    subst pre. cbn [w_log c3_w app] in L. rewrite L, R. split; vm_compute; reflexivity.
  - destruct (pp_run c3_orc Build [] c3_b true false c3_w) as [w1|deps w1|k w1|] eqn:E1; try (vm_compute in E1; discriminate).
    exists w1.
    destruct (pp_run c3_orc Build [] c3_a false false (mkW (w_fs w1) [])) as [w'|deps w'|k w'|] eqn:E2;
      try (vm_compute in E1; inversion E1; subst w1; vm_compute in E2; discriminate).
    exists w'. split; [reflexivity|]. split; [reflexivity|].
    destruct (pass_ok_runs c3_orc Build [] c3_a false ltac:(discriminate) false _ w' E2) as (evs & L & R).
    cbn [w_log app] in L. rewrite L, R.
    assert (Ei : items_of Build (mkW (w_fs w1) []) c3_a = items_of Build c3_w c3_a).
    { vm_compute in E1. inversion E1; subst w1. vm_compute. reflexivity. }
    rewrite Ei. split; vm_compute; reflexivity.
Qed.

(* (c) the whole run: scan d, first pass of a (X), first pass of b (Z), final pass of a (X, Y).
   Y, which follows the dependency directive, and Z, in a file without dependencies, are executed exactly once;
   X, which precedes the dependency directive of a.txtpp, is executed by the first AND by the final pass. *)
Example run_commands_example :
  let x := txtpp_run c3_orc c3_cfg 9 [] c3_w in
  verdict_of x = VOk /\
  map fst (trace_of x) = [TScan [[100]]; TPp c3_a true; TPp c3_b true; TPp c3_a false] /\
  runs_of (w_log (world_of x)) = [c3_ev c3_a 88; c3_ev c3_b 90; c3_ev c3_a 88; c3_ev c3_a 89] /\
  flat_map (fun tr => task_runs c3_cfg [] (fst tr) (snd tr) c3_w) (trace_of x) =
    [c3_ev c3_a 88; c3_ev c3_b 90; c3_ev c3_a 88; c3_ev c3_a 89].
Proof.
  cbv zeta.
  assert (Hv : verdict_of (txtpp_run c3_orc c3_cfg 9 [] c3_w) = VOk) by (vm_compute; reflexivity).
  split; [exact Hv|]. split; [vm_compute; reflexivity|].
  assert (ND : NoDup (map fst (w_fs c3_w))) by (cbn; repeat constructor; cbn; intuition discriminate).
  assert (WF : legal_names (w_fs c3_w)).
  { intros p nd [H|[H|[H|[]]]]; inversion H; subst; repeat constructor; discriminate. }
  destruct (run_commands_legal c3_orc c3_cfg ltac:(discriminate) 9 [] c3_w ND WF c3_cands_ok Hv) as ((evs & L & R) & _ & _).
  cbn [w_log c3_w app] in L. rewrite L, R.
  assert (Eb : run_base c3_cfg c3_w = []) by (vm_compute; reflexivity). rewrite Eb.
  split; [|reflexivity]. vm_compute. reflexivity.
Qed.
