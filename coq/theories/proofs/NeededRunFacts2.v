(* NeededRunFacts2.v — C09 for WHOLE runs, part 2 (part 1, T1 `needed_run_equals_build_run`, is NeededRunFacts1.v).
   T2 `needed_after_build_writes_nothing`: after a successful Build run, a `--needed` run (ANY schedule, ANY fuel) leaves
   the file system EQUAL (as a list: not a single put or delete is performed) and logs only ERun events — no EWrite, no
   ERemove —; it has the verdict and the trace of a Build run with that schedule from the original world, in
   particular it succeeds when the schedule and the fuel are those of the first run.
   Everything is proved (nothing assumed). *)
Require Import Txtpp.Str Txtpp.Consts Txtpp.Grammar Txtpp.Tags Txtpp.Path Txtpp.Fs Txtpp.Sink Txtpp.Pp Txtpp.Spec.
Require Import Txtpp.Dep Txtpp.Coord Txtpp.Run.
Require Import Txtpp.proofs.StrFacts Txtpp.proofs.SinkFacts Txtpp.proofs.PathFacts Txtpp.proofs.PpFacts Txtpp.proofs.EventFacts.
Require Import Txtpp.proofs.FrameFacts Txtpp.proofs.ConfluenceFacts Txtpp.proofs.DepFacts Txtpp.proofs.CoordFacts Txtpp.proofs.RunFacts.
Require Import Txtpp.proofs.ScheduleFacts Txtpp.proofs.RunEventsFacts Txtpp.proofs.ScheduleTempFacts.
Require Import Txtpp.proofs.NeededRunFacts1.
From Coq Require Import Lia Permutation.

Local Open Scope bool_scope.

(* ================================================================================================
   PART A — the per-file machine with the in-memory sink: the only thing that touches the tree before the end of the
   pass is `write_temp`; everything else is an ERun event.
   ================================================================================================ *)
Definition run_ev (e : event) : Prop := match e with ERun _ _ _ => True | _ => False end.
(* w' is w with some ERun events logged: the tree is the same LIST *)
Definition quiet (w w' : world) : Prop :=
  w_fs w' = w_fs w /\ exists evs, w_log w' = w_log w ++ evs /\ Forall run_ev evs.

Lemma quiet_refl w : quiet w w.
Proof. split; [reflexivity|]. exists []. split; [symmetry; apply app_nil_r|constructor]. Qed.
Lemma quiet_trans a b c : quiet a b -> quiet b c -> quiet a c.
Proof.
  intros [F1 (e1 & L1 & A1)] [F2 (e2 & L2 & A2)]. split; [congruence|].
  exists (e1 ++ e2). split; [rewrite L2, L1, app_assoc; reflexivity|]. apply Forall_app. split; assumption.
Qed.
Lemma quiet_emit w c cw fl : quiet w (w_emit w (ERun c cw fl)).
Proof. split; [reflexivity|]. exists [ERun c cw fl]. split; [reflexivity|]. constructor; [exact I|constructor]. Qed.

(* `write_temp` is a no-op when the target already holds the content *)
Definition temp_sat (F : fs) (lp : lexpath) (c : str) : Prop :=
  exists q, os_resolve F lp = Some q /\ fs_get F q = Some (File c).

Lemma temp_sat_noop w lp c : temp_sat (w_fs w) lp c -> write_temp w lp c = inl w.
Proof. intros (q & H1 & H2). eapply temp_no_event_when_same; eauto. Qed.

(* a successful `write_temp` either is that no-op, or changes the content of the target (and nothing else) *)
Lemma write_temp_cases w lp c w' : write_temp w lp c = inl w' ->
  (temp_sat (w_fs w) lp c /\ w' = w) \/
  (fs_get (w_fs w') (lex_normalize lp) = Some (File c) /\ fs_get (w_fs w) (lex_normalize lp) <> Some (File c) /\
   forall p, p <> lex_normalize lp -> fs_get (w_fs w') p = fs_get (w_fs w) p).
Proof.
  unfold write_temp. destruct (os_resolve (w_fs w) lp) as [q|] eqn:Er.
  - pose proof (os_resolve_normalize _ _ _ Er) as Eq. subst q.
    destruct (fs_get (w_fs w) (lex_normalize lp)) as [[c0|]|] eqn:G; try discriminate.
    destruct (str_eqb c0 c) eqn:Ec.
    + apply str_eqb_eq in Ec. subst c0. intros H. inversion H; subst. left. split; [|reflexivity].
      exists (lex_normalize lp). split; assumption.
    + unfold w_write. destruct (write_target (w_fs w) (lex_normalize lp)) as [q|] eqn:Ew; [|discriminate].
      intros H. inversion H; subst w'. clear H. right. cbn [w_fs].
      pose proof (write_target_normalize _ _ _ Ew) as Eq. rewrite lex_normalize_idem in Eq. subst q.
      pose proof (write_target_nonempty _ _ _ Ew) as Hne.
      split; [apply fs_get_put_same; exact Hne|]. split.
      * intros E. inversion E; subst. rewrite (proj2 (str_eqb_eq c c) eq_refl) in Ec. discriminate.
      * intros p Hp. apply fs_get_put_other. congruence.
  - unfold w_write at 1. destruct (write_target (w_fs w) lp) as [q|] eqn:Ew; [|discriminate].
    pose proof (write_target_normalize _ _ _ Ew) as Eq. subst q.
    pose proof (write_target_nonempty _ _ _ Ew) as Hne.
    pose proof (temp_ok_resolve _ _ Ew) as Hr. rewrite Er in Hr.
    assert (G : fs_get (w_fs w) (lex_normalize lp) = None).
    { unfold exists_ in Hr. destruct (fs_get (w_fs w) (lex_normalize lp)); [discriminate|reflexivity]. }
    cbn [w_fs w_log]. destruct c as [|x c].
    + intros H. inversion H; subst w'. clear H. right. cbn [w_fs].
      split; [apply fs_get_put_same; exact Hne|]. split; [rewrite G; discriminate|].
      intros p Hp. apply fs_get_put_other. congruence.
    + unfold w_write. cbn [w_fs w_log].
      assert (Hd : forall p, is_dir (fs_put (w_fs w) (lex_normalize lp) (File [])) p = is_dir (w_fs w) p).
      { intros p. rewrite is_dir_put_file by exact Hne. destruct (path_eqb (lex_normalize lp) p) eqn:E; [|reflexivity].
        apply SinkFacts.path_eqb_eq in E. subst p. symmetry. eapply write_target_not_dir; eauto. }
      rewrite (write_target_dirs _ (w_fs w) lp Hd), Ew.
      intros H. inversion H; subst w'. clear H. right. cbn [w_fs].
      split; [apply fs_get_put_same; exact Hne|]. split; [rewrite G; discriminate|].
      intros p Hp. rewrite !fs_get_put_other by congruence. reflexivity.
Qed.

Section MemSink.
Variable orc : oracle.
Variables src base : path.
Variable le : str.
Local Notation doit := (do_item orc Build src base le).
Local Notation rit := (ritems orc Build src base le).

(* the directive is `temp a rest...` with an acceptable name *)
Definition is_temp (d : directive) (a : str) (rest : list str) : Prop :=
  d_ty d = DTemp /\ d_args d = a :: rest /\ is_txtpp_file (lex_components a) = false.
Definition tlp (a : str) : lexpath := lex_join (parent src) a.
Definition tcontent (rest : list str) : str := format_output le [] rest false.

(* what one item does to the world when the sink is the in-memory sink *)
Definition wstep (it : item) (w w' : world) : Prop :=
  quiet w w' \/
  exists d fol a rest, it = IDir d fol /\ is_temp d a rest /\ write_temp w (tlp a) (tcontent rest) = inl w'.

Lemma emit_mem_wld s o t p buf : snk s = SMem p buf ->
  exists s', emit le s o t = StOk s' /\ wld s' = wld s /\ exists buf', snk s' = SMem p buf'.
Proof.
  intros Hk. unfold emit. destruct (is_execute (pmode s)); [|exists s; eauto].
  destruct o as [x|]; [|exists s; eauto].
  rewrite Hk. destruct (flag s); cbn [sink_write]; eexists; (split; [reflexivity|]); cbn; eauto.
Qed.

Ltac xdg :=
  repeat (match goal with |- context [match ?x with _ => _ end] =>
            (lazymatch x with context [match _ with _ => _ end] => fail | _ => idtac end);
            destruct x eqn:? end).

Lemma exec_directive_mem d s :
  match exec_directive orc Build src base le d s with
  | XOut o s1 => snk s1 = snk s /\ flag s1 = flag s /\
                 (quiet (wld s) (wld s1) \/
                  exists a rest, is_temp d a rest /\ write_temp (wld s) (tlp a) (tcontent rest) = inl (wld s1))
  | XErr k w => quiet (wld s) w
  end.
Proof.
  unfold exec_directive, collect_deps, exec_temp, work_dir, is_temp, tlp, tcontent.
  xdg; cbn; try (repeat split; try reflexivity; left; apply quiet_refl); try apply quiet_refl; try apply quiet_emit;
    try (repeat split; try reflexivity; left; apply quiet_emit).
  all: repeat split; try reflexivity; right; eexists; eexists; repeat split; try eassumption; try reflexivity.
Qed.

Lemma mem_item it s p buf : snk s = SMem p buf ->
  match doit it s with
  | StOk s' => (exists buf', snk s' = SMem p buf') /\ wstep it (wld s) (wld s')
  | StErr k w => quiet (wld s) w
  | StPanic => True
  end.
Proof.
  intros Hk. unfold do_item, item_output. destruct it as [l|d fol| |].
  - destruct (is_execute (pmode s)).
    + destruct (inject (tg s) l le) as [[l' t']|]; [|exact I].
      destruct (emit_mem_wld (set_tg s t') (Some l') (item_tail (IText l)) p buf Hk) as (s' & E & Hw & Hb).
      rewrite E. split; [exact Hb|]. left. rewrite Hw. apply quiet_refl.
    + destruct (emit_mem_wld s (Some l) (item_tail (IText l)) p buf Hk) as (s' & E & Hw & Hb).
      rewrite E. split; [exact Hb|]. left. rewrite Hw. apply quiet_refl.
  - pose proof (exec_directive_mem d s) as H.
    destruct (exec_directive orc Build src base le d s) as [o s1|k w]; [|exact H].
    destruct H as (Hs & _ & Hw). rewrite Hk in Hs.
    assert (G : forall o' s2, snk s2 = SMem p buf -> wld s2 = wld s1 ->
              match emit le s2 o' fol with
              | StOk s' => (exists buf', snk s' = SMem p buf') /\ wstep (IDir d fol) (wld s) (wld s')
              | StErr k w => quiet (wld s) w
              | StPanic => True
              end).
    { intros o' s2 Hk2 Hw2. destruct (emit_mem_wld s2 o' fol p buf Hk2) as (s' & E & Hw' & Hb).
      rewrite E. split; [exact Hb|]. rewrite Hw', Hw2. destruct Hw as [Hq|(a & rest & Ht & Hwt)]; [left; exact Hq|].
      right. exists d, fol, a, rest. auto. }
    cbn [item_tail]. destruct o as [raw|]; [|apply G; [exact Hs|reflexivity]].
    destruct (try_store (tg s1) raw) as [t'|]; apply G; try exact Hs; reflexivity.
  - apply quiet_refl.
  - exact I.
Qed.
End MemSink.

(* ================================================================================================
   PART B — a whole pass with the in-memory sink.
   (B1) if every temp directive of the source already finds its content in place, the pass only logs ERun events, up to
        the final replacement of the output;
   (B2) a pass that ends with a tree that is `w_eq` to the tree it started from has written NOTHING — provided the temp
        targets of the source are pairwise different and different from the output — and every temp directive of
        the source found its content in place.
   ================================================================================================ *)
Section MemPass.
Variable orc : oracle.
Variables src base : path.
Variable le : str.
Local Notation doit := (do_item orc Build src base le).
Local Notation rit := (ritems orc Build src base le).
Local Notation tlp := (tlp src).
Local Notation tcontent := (tcontent le).

(* every temp directive of the items finds its content in the tree F *)
Definition temps_sat (F : fs) (its : list item) : Prop :=
  forall d fol a rest, In (IDir d fol) its -> is_temp d a rest -> temp_sat F (tlp a) (tcontent rest).

Lemma ritems_sat_quiet its : forall s p buf, snk s = SMem p buf -> temps_sat (w_fs (wld s)) its ->
  match rit its s with
  | StOk s' => (exists buf', snk s' = SMem p buf') /\ quiet (wld s) (wld s')
  | StErr k w => quiet (wld s) w
  | StPanic => True
  end.
Proof.
  induction its as [|it r IH]; intros s p buf Hk Hsat.
  - rewrite ritems_nil. split; [eauto|apply quiet_refl].
  - rewrite ritems_cons. pose proof (mem_item orc src base le it s p buf Hk) as H.
    destruct (doit it s) as [s2|k w|]; [|exact H|exact I].
    destruct H as [[buf2 Hk2] Hw].
    assert (Hq : quiet (wld s) (wld s2)).
    { destruct Hw as [Hq|(d & fol & a & rest & -> & Ht & Hwt)]; [exact Hq|].
      rewrite (temp_sat_noop _ _ _ (Hsat d fol a rest (or_introl eq_refl) Ht)) in Hwt. inversion Hwt. apply quiet_refl. }
    assert (Hsat2 : temps_sat (w_fs (wld s2)) r).
    { rewrite (proj1 Hq). intros d fol a rest Hin. apply (Hsat d fol a rest). right. exact Hin. }
    specialize (IH s2 p buf2 Hk2 Hsat2).
    destruct (rit r s2) as [s'|k w|]; [|eapply quiet_trans; eauto|exact I].
    destruct IH as [Hb Hq2]. split; [exact Hb|eapply quiet_trans; eauto].
Qed.

Lemma temp_args_cons_temp d fol a rest r : is_temp d a rest -> temp_args (IDir d fol :: r) = a :: temp_args r.
Proof. intros (Ety & Ea & _). cbn [temp_args]. rewrite Ety, Ea. reflexivity. Qed.
Lemma temp_args_incl it r a : In a (temp_args r) -> In a (temp_args (it :: r)).
Proof.
  intros H. destruct it as [l|d fol| |]; cbn [temp_args]; try exact H.
  destruct (d_ty d); try exact H. destruct (d_args d); [exact H|right; exact H].
Qed.
Lemma NoDup_temps_tail it r :
  NoDup (map (tpath src) (temp_args (it :: r))) -> NoDup (map (tpath src) (temp_args r)).
Proof.
  destruct it as [l|d fol| |]; cbn [temp_args]; try (intros H; exact H).
  destruct (d_ty d); try (intros H; exact H). destruct (d_args d); [intros H; exact H|].
  cbn [map]. intros H. inversion H; assumption.
Qed.

Lemma ritems_quiet_or_changed its : forall s s' p buf, snk s = SMem p buf ->
  NoDup (map (tpath src) (temp_args its)) -> rit its s = StOk s' ->
  (exists buf', snk s' = SMem p buf') /\
  (forall q, ~ In q (map (tpath src) (temp_args its)) -> fs_get (w_fs (wld s')) q = fs_get (w_fs (wld s)) q) /\
  ((quiet (wld s) (wld s') /\ (is_execute (pmode s') = true -> temps_sat (w_fs (wld s)) its)) \/
   exists a, In a (temp_args its) /\ fs_get (w_fs (wld s')) (tpath src a) <> fs_get (w_fs (wld s)) (tpath src a)).
Proof.
  induction its as [|it r IH]; intros s s' p buf Hk ND E.
  - rewrite ritems_nil in E. inversion E; subst s'. split; [eauto|]. split; [reflexivity|].
    left. split; [apply quiet_refl|]. intros _ d fol a rest [].
  - pose proof E as E0. rewrite ritems_cons in E.
    pose proof (mem_item orc src base le it s p buf Hk) as H.
    destruct (doit it s) as [s2|k w|] eqn:E2; try discriminate.
    destruct H as [[buf2 Hk2] Hw].
    destruct (IH s2 s' p buf2 Hk2 (NoDup_temps_tail it r ND) E) as (Hb & Hfr & Hcase).
    (* what the first item did *)
    assert (Hstep : (quiet (wld s) (wld s2)) \/
                    (exists d fol a rest, it = IDir d fol /\ is_temp d a rest /\
                       fs_get (w_fs (wld s2)) (tpath src a) <> fs_get (w_fs (wld s)) (tpath src a) /\
                       forall q, q <> tpath src a -> fs_get (w_fs (wld s2)) q = fs_get (w_fs (wld s)) q)).
    { destruct Hw as [Hq|(d & fol & a & rest & -> & Ht & Hwt)]; [left; exact Hq|].
      destruct (write_temp_cases _ _ _ _ Hwt) as [[_ ->]|(G1 & G2 & G3)]; [left; apply quiet_refl|].
      right. exists d, fol, a, rest. split; [reflexivity|]. split; [exact Ht|]. split; [|exact G3].
      unfold tpath, tlp in *. rewrite G1. intros E'. apply G2. symmetry. exact E'. }
    split; [exact Hb|]. split.
    + intros q Hq. rewrite Hfr.
      * destruct Hstep as [Hq1|(d & fol & a & rest & -> & Ht & _ & G3)]; [rewrite (proj1 Hq1); reflexivity|].
        apply G3. intros ->. apply Hq. rewrite (temp_args_cons_temp d fol a rest r Ht). left. reflexivity.
      * intros Hin. apply Hq. apply in_map_iff in Hin. destruct Hin as (a & <- & Ha).
        apply in_map. apply temp_args_incl. exact Ha.
    + destruct Hstep as [Hq1|(d & fol & a & rest & -> & Ht & G2 & G3)].
      * destruct Hcase as [[Hq2 Hsat]|(a' & Ha' & Hc)].
        -- left. split; [eapply quiet_trans; eauto|]. intros Hx d fol a rest [->|Hin] Ht.
           ++ assert (Hxs : is_execute (pmode s) = true) by (eapply ritems_execute; eauto).
              destruct Ht as (Ety & Ea & Etx).
              rewrite (do_item_temp_eq orc src base le d fol a rest s Ety Ea Etx), Hxs in E2.
              destruct (write_temp (wld s) (lex_join (parent src) a) (format_output le [] rest false)) as [w'|k] eqn:Hwt;
                [|discriminate].
              inversion E2; subst s2. cbn [wld set_wld] in *.
              destruct (write_temp_cases _ _ _ _ Hwt) as [[Hs _]|(G1 & G2 & _)]; [exact Hs|].
              exfalso. apply G2. rewrite <- G1. rewrite (proj1 Hq1). reflexivity.
           ++ rewrite <- (proj1 Hq1). apply (Hsat Hx d fol a rest Hin Ht).
        -- right. exists a'. split; [apply temp_args_incl; exact Ha'|]. rewrite <- (proj1 Hq1). exact Hc.
      * rewrite (temp_args_cons_temp d fol a rest r Ht) in ND |- *. cbn [map] in ND. inversion ND as [|x l Hnin ND']; subst.
        destruct Hcase as [[Hq2 _]|(a' & Ha' & Hc)].
        -- right. exists a. split; [left; reflexivity|]. rewrite (proj1 Hq2). exact G2.
        -- right. exists a'. split; [right; exact Ha'|]. rewrite <- (G3 (tpath src a')); [exact Hc|].
           intros E'. apply Hnin. rewrite <- E'. apply in_map. exact Ha'.
Qed.

(* ---- the rest of a pass after the creation of the in-memory sink ---- *)
(* the output has been replaced by a different content *)
Definition out_changed (out : path) (w w' : world) : Prop :=
  fs_get (w_fs w') out <> fs_get (w_fs w) out /\ forall q, q <> out -> fs_get (w_fs w') q = fs_get (w_fs w) q.

Lemma mem_sink_done out b w : lex_normalize out = out ->
  match sink_done (SMem out b) w with
  | inl w2 => quiet w w2 \/ out_changed out w w2
  | inr _ => True
  end.
Proof.
  intros Hno. cbn [sink_done].
  assert (W : match w_write w out b with
              | Some w' => fs_get (w_fs w) out <> Some (File b) -> out_changed out w w'
              | None => True end).
  { unfold w_write. destruct (write_target (w_fs w) out) as [q|] eqn:Ew; [|exact I].
    pose proof (write_target_normalize _ _ _ Ew) as Eq. rewrite Hno in Eq. subst q.
    pose proof (write_target_nonempty _ _ _ Ew) as Hne. intros Hd. split; cbn [w_fs].
    - rewrite (fs_get_put_same (w_fs w) out (File b) Hne). intros E'. apply Hd. symmetry. exact E'.
    - intros q Hq. apply fs_get_put_other. congruence. }
  destruct (fs_get (w_fs w) out) as [[c|]|] eqn:G.
  - destruct (str_eqb c b) eqn:Ec; [left; apply quiet_refl|].
    destruct (w_write w out b); [|exact I]. right. apply W. intros E'. inversion E'; subst.
    rewrite (proj2 (str_eqb_eq b b) eq_refl) in Ec. discriminate.
  - exact I.
  - destruct (w_write w out b); [|exact I]. right. apply W. discriminate.
Qed.

Lemma mem_epilogue tn s out buf : snk s = SMem out buf -> lex_normalize out = out ->
  match epilogue Build le tn s with
  | PpOk w' => is_execute (pmode s) = true /\ (quiet (wld s) w' \/ out_changed out (wld s) w')
  | PpHasDeps _ w' => w' = wld s
  | PpErr _ w' => w' = wld s
  | PpPanic => True
  end.
Proof.
  intros Hk Hno. unfold epilogue.
  assert (G : is_execute (pmode s) = true ->
    match (if has_tags (tg s) && negb (mode_eqb Build Clean)
           then PpErr KDirective (wld s)
           else match (if flag s && tn then sink_write (snk s) (wld s) le else inl (snk s, wld s)) with
                | inl (k1, w1) => match sink_done k1 w1 with inl w2 => PpOk w2 | inr k => PpErr k w1 end
                | inr k => PpErr k (wld s)
                end) with
    | PpOk w' => is_execute (pmode s) = true /\ (quiet (wld s) w' \/ out_changed out (wld s) w')
    | PpHasDeps _ w' => w' = wld s
    | PpErr _ w' => w' = wld s
    | PpPanic => True
    end).
  { intros Hx. destruct (has_tags (tg s) && negb (mode_eqb Build Clean)); [reflexivity|].
    rewrite Hk. destruct (flag s && tn); cbn [sink_write].
    - pose proof (mem_sink_done out (buf ++ le) (wld s) Hno) as H.
      destruct (sink_done (SMem out (buf ++ le)) (wld s)); [split; assumption|reflexivity].
    - pose proof (mem_sink_done out buf (wld s) Hno) as H.
      destruct (sink_done (SMem out buf) (wld s)); [split; assumption|reflexivity]. }
  destruct (pmode s); [apply G; reflexivity|apply G; reflexivity|reflexivity].
Qed.
End MemPass.

(* ================================================================================================
   PART C — a whole `--needed` pass.
   ================================================================================================ *)
Lemma needed_run_unfold orc base f b tn v :
  pp_run orc InMemoryBuild base f b tn v =
  match read_file (w_fs v) f with
  | None => PpErr KOpen v
  | Some raw =>
    match remove_txtpp f with
    | None => PpErr KOpen v
    | Some out => if is_txtpp_file out then PpErr KOpen v
                  else pp_rest orc Build base f b tn raw (SMem out []) v
    end
  end.
Proof.
  rewrite pp_run_unfold. destruct (read_file (w_fs v) f) as [raw|]; [|reflexivity].
  destruct (remove_txtpp f) as [out|]; [|reflexivity]. destruct (is_txtpp_file out); [reflexivity|].
  cbn [sink_new]. apply pp_rest_needed.
Qed.

(* every temp directive of the source f (as it is in the world w) finds its content in the tree F *)
Definition src_temps_sat (F : fs) (w : world) (f : path) : Prop :=
  match read_file (w_fs w) f with
  | Some raw => temps_sat f (detect_le raw) F (items_of' Build raw)
  | None => True
  end.

(* (B1) for a pass: when the temp files are in place, a `--needed` pass (first or final, whatever its outcome) only logs
   ERun events, except that a successful pass may replace its output by a different content *)
Lemma needed_pass_sat orc base f b tn v out :
  remove_txtpp f = Some out -> lex_normalize out = out -> src_temps_sat (w_fs v) v f ->
  match pp_run orc InMemoryBuild base f b tn v with
  | PpOk v' => quiet v v' \/ out_changed out v v'
  | PpHasDeps _ v' => quiet v v'
  | PpErr _ v' => quiet v v'
  | PpPanic => True
  end.
Proof.
  intros Ho Hno Hsat. rewrite needed_run_unfold. unfold src_temps_sat in Hsat.
  destruct (read_file (w_fs v) f) as [raw|]; [|apply quiet_refl].
  rewrite Ho. destruct (is_txtpp_file out); [apply quiet_refl|].
  rewrite pp_rest_items. cbv zeta.
  unfold items_of' in Hsat. rewrite lsplit_parse in Hsat.
  set (sp := lsplit (mode_eqb Build Clean) None (fst (take_valid (lines raw)))) in *.
  set (s0 := mkP None false (if b then PFirst else PExec) tags_new (SMem out []) v).
  set (le := detect_le raw) in *.
  assert (Hsat1 : temps_sat f le (w_fs (wld s0)) (fst sp)).
  { intros d fol a rest Hin. apply (Hsat d fol a rest). apply in_or_app. left. exact Hin. }
  pose proof (ritems_sat_quiet orc f base le (fst sp) s0 out [] eq_refl Hsat1) as H1.
  destruct (ritems orc Build f base le (fst sp) s0) as [a|k w|]; [|exact H1|exact I].
  destruct H1 as [[buf1 Hk1] Hq1]. change (wld s0) with v in Hq1.
  destruct (snd (take_valid (lines raw))); [exact Hq1|].
  assert (Hsat2 : temps_sat f le (w_fs (wld a)) (pend (snd sp))).
  { rewrite (proj1 Hq1). intros d fol a0 rest Hin. apply (Hsat d fol a0 rest). apply in_or_app. right. exact Hin. }
  pose proof (ritems_sat_quiet orc f base le (pend (snd sp)) a out buf1 Hk1 Hsat2) as H2.
  destruct (ritems orc Build f base le (pend (snd sp)) a) as [b'|k w|]; [|eapply quiet_trans; eauto|exact I].
  destruct H2 as [[buf2 Hk2] Hq2].
  pose proof (mem_epilogue le tn b' out buf2 Hk2 Hno) as H3.
  assert (Hq : quiet v (wld b')) by (eapply quiet_trans; eauto).
  destruct (epilogue Build le tn b') as [w'|ds w'|k w'|]; try (subst w'; exact Hq); [|exact I].
  destruct H3 as [_ [H3|[H3 H4]]]; [left; eapply quiet_trans; eauto|right].
  split; [rewrite <- (proj1 Hq); exact H3|]. intros q Hne. rewrite <- (proj1 Hq). apply H4. exact Hne.
Qed.

(* (B2) for a pass: a successful `--needed` pass that leaves a tree that cannot be told apart from the one it started
   from has not written anything, and every temp directive of the source found its content in place *)
Lemma needed_pass_fix orc base f b tn v v' out :
  remove_txtpp f = Some out -> lex_normalize out = out ->
  NoDup (map (tpath f) (temp_args (items_of Build v f))) ->
  ~ In out (map (tpath f) (temp_args (items_of Build v f))) ->
  pp_run orc InMemoryBuild base f b tn v = PpOk v' -> w_eq v' v ->
  quiet v v' /\ src_temps_sat (w_fs v) v f.
Proof.
  intros Ho Hno HND Hout E Heq. rewrite needed_run_unfold in E. unfold src_temps_sat, items_of in *.
  destruct (read_file (w_fs v) f) as [raw|]; [|discriminate].
  rewrite Ho in E. destruct (is_txtpp_file out); [discriminate|].
  rewrite pp_rest_items in E. cbv zeta in E.
  fold (items_of' Build raw) in HND, Hout. unfold items_of' in *. rewrite lsplit_parse in *.
  set (sp := lsplit (mode_eqb Build Clean) None (fst (take_valid (lines raw)))) in *.
  set (s0 := mkP None false (if b then PFirst else PExec) tags_new (SMem out []) v) in *.
  set (le := detect_le raw) in *.
  destruct (ritems orc Build f base le (fst sp) s0) as [a|k w|] eqn:E1; try discriminate.
  destruct (snd (take_valid (lines raw))); [discriminate|].
  destruct (ritems orc Build f base le (pend (snd sp)) a) as [b'|k w|] eqn:E2; try discriminate.
  assert (Eall : ritems orc Build f base le (fst sp ++ pend (snd sp)) s0 = StOk b') by (rewrite ritems_app, E1; exact E2).
  destruct (ritems_quiet_or_changed orc f base le _ s0 b' out [] eq_refl HND Eall) as ([buf Hk] & Hfr & Hcase).
  change (wld s0) with v in Hfr, Hcase.
  pose proof (mem_epilogue le tn b' out buf Hk Hno) as H3. rewrite E in H3. destruct H3 as [Hx H3].
  destruct Hcase as [[Hq Hsat]|(a0 & Ha0 & Hc)].
  - destruct H3 as [H3|[H3 _]].
    + split; [eapply quiet_trans; eauto|apply Hsat; exact Hx].
    + exfalso. apply H3. rewrite (proj1 Hq). apply Heq.
  - exfalso. apply Hc. destruct H3 as [H3|[_ H4]].
    + rewrite <- (proj1 H3). apply Heq.
    + rewrite <- (H4 (tpath f a0)); [apply Heq|]. intros E'. apply Hout. rewrite <- E'. apply in_map. exact Ha0.
Qed.

(* ================================================================================================
   PART D — runs.  w0 is the original tree (static hypotheses), w1 the tree after a successful Build run.
   ================================================================================================ *)
(* one more static hypothesis: a source does not name the same temp file in two `temp` directives (otherwise the file
   is rewritten twice by EVERY run: `needed_cex_temp_twice` below) *)
Definition temps_distinct (w : world) : Prop := forall f out, is_source w f out -> NoDup (own_temps w f).

Section AfterBuild.
Variable orc : oracle.
Variable cfg : config.
Variable base : path.
Variable w0 : world.
Hypothesis HS : sched_ok_temps w0.
Hypothesis HN : needed_ok w0.
Hypothesis HD : temps_distinct w0.
Variables files dirs : list path.
Local Notation cfgB := (with_mode cfg Build).
Local Notation cfgN := (with_mode cfg InMemoryBuild).
Local Notation tn := (cfg_trailing cfg).
Local Notation is_src := (is_source w0).
Local Notation lastf := (lastflag w0).

(* ---- the fixpoint property of Build passes (ScheduleTempFacts.FPT) gives: the last `--needed` pass of f, from any world
   that cannot be told apart from w1, writes nothing, and the temp files of f are in place ---- *)
Lemma fpt_needed_fix f out w1 v :
  is_src f out -> agree nt (w_fs w0) (w_fs w1) -> FPT orc cfgB base w0 f out w1 -> w_eq v w1 ->
  exists v', pp_run orc InMemoryBuild base f (lastf f) tn v = PpOk v' /\ quiet v v' /\ src_temps_sat (w_fs v) v f.
Proof.
  intros Hsrc A (w'' & E & Eq) Hv. cbn [with_mode cfg_trailing] in E. pose proof Hsrc as [Ho _].
  destruct (src_sameT w0 HS w1 f out A Hsrc) as (E0 & Ei & Ew & _).
  destruct (HS f out Hsrc) as (Hn & Hno & _).
  destruct (HN f out Hsrc) as (_ & _ & Htmp).
  assert (H1 : w_eq w'' w1).
  { intros p. destruct (in_paths_dec (fp w0 f) p) as [Hin|Hnin]; [apply Eq; exact Hin|].
    pose proof (pass_footprint orc Build base f (lastf f) tn w1 p) as Hf. rewrite E, Ew in Hf. apply Hf. exact Hnin. }
  destruct (safe_intro w0 HS HN [] w1 f (lastf f) A (fun p (H : In p []) => match H with end)) as [_ Hsafe].
  assert (Er1 : exists raw, read_file (w_fs w1) f = Some raw).
  { destruct Hsrc as [_ [raw Er]]. exists raw. unfold read_file in *. rewrite E0. exact Er. }
  destruct Er1 as [raw Er1]. destruct (Hsafe out raw Ho Er1) as (_ & Hwt & Hpr & _).
  pose proof (needed_pass_vs_build_pass_gen orc base f (lastf f) tn w1 out Ho Hn Hpr Hwt) as H2. rewrite E in H2.
  destruct (pp_run orc InMemoryBuild base f (lastf f) tn w1) as [wn| | |] eqn:En; simpl in H2; try contradiction.
  pose proof (pp_run_ext orc InMemoryBuild base f (lastf f) tn v w1 Hv) as H3. rewrite En in H3.
  destruct (pp_run orc InMemoryBuild base f (lastf f) tn v) as [v'| | |] eqn:Ev; simpl in H3; try contradiction.
  exists v'. split; [reflexivity|].
  assert (Esrc : fs_get (w_fs v) f = fs_get (w_fs w0) f) by (rewrite (Hv f); exact E0).
  apply (needed_pass_fix orc base f (lastf f) tn v v' out Ho Hno).
  - rewrite (items_of_same Build w0 v f Esrc). apply (HD f out Hsrc).
  - rewrite (items_of_same Build w0 v f Esrc). exact Htmp.
  - exact Ev.
  - intros p. rewrite (H3 p), (H2 p), (H1 p). symmetry. apply Hv.
Qed.

(* a successful Build pass is the last pass of its source *)
Lemma ok_pass_is_last w f b a :
  agree nt (w_fs w0) (w_fs w) -> pp_run orc Build base f b tn w = PpOk a ->
  (b = false -> lastf f = false) -> b = lastf f.
Proof.
  intros A E Hb. destruct b; [|symmetry; apply Hb; reflexivity].
  destruct (read_file (w_fs w) f) as [raw|] eqn:Er.
  2:{ rewrite (pp_run_unreadable _ _ _ _ _ _ w Er) in E. discriminate. }
  destruct (remove_txtpp f) as [out|] eqn:Ho.
  2:{ rewrite (pp_run_no_out _ _ _ _ _ _ w Ho) in E. discriminate. }
  pose proof (source_in_world w0 w f out raw A Ho Er) as Hsrc.
  destruct (src_sameT w0 HS w f out A Hsrc) as (_ & _ & _ & Hca & Esd & _).
  symmetry. apply lastflag_true. rewrite <- Esd.
  apply (first_pass_ok_no_targets orc Build base f tn w a ltac:(discriminate) Hca E).
Qed.

(* ---- what every task of a Build run from w0 satisfies, whatever the schedule, the fuel and the verdict: its file is
   in the closed set S1, and a pass that reports success is the last pass of its file ---- *)
Variables S1 Dd1 : list path.
Hypothesis Hcl : closed cfgB w0 files dirs S1 Dd1.

Definition Pq (t : task) (r : result) : Prop :=
  match t with
  | TPp f b => In f S1 /\ (forall g, r = RPp g (Some POk) -> b = lastf f)
  | TScan _ => True
  end.

Definition Jq (_ : unit) (g : gstate) (w : world) : Prop := JLT w0 S1 Dd1 g w.
Definition Jqd (_ : unit) (l : list task) (w : world) : Prop :=
  agree nt (w_fs w0) (w_fs w) /\
  forall f b, In (TPp f b) l -> In f S1 /\ (b = false -> lastf f = false).

Lemma pq_intro w f b r w' : agree nt (w_fs w0) (w_fs w) -> In f S1 -> (b = false -> lastf f = false) ->
  exec_task orc cfgB base (TPp f b) w = Some (r, w') -> Pq (TPp f b) r.
Proof.
  intros A Hin Hb Hex. split; [exact Hin|]. intros g ->.
  rewrite exec_task_pp in Hex. cbn [with_mode cfg_mode cfg_trailing] in Hex. cbv zeta in Hex.
  destruct (pp_run orc Build base f b tn w) as [a|ds a|k a|] eqn:E; cbn in Hex; try discriminate.
  apply (ok_pass_is_last w f b a A E Hb).
Qed.

Lemma Jq_final g w f : greach files dirs g -> JLT w0 S1 Dd1 g w -> In (TPp f false) (inflight (gs g)) -> lastf f = false.
Proof.
  intros R (((_ & _ & _ & G1 & _) & _) & _) Hin.
  destruct (final_inflight_reported files dirs g f R Hin) as [ds Hd].
  destruct (G1 f ds Hd) as [-> Hne]. unfold lastflag. destruct (sdeps w0 f) eqn:Es; [exfalso; apply Hne; reflexivity|reflexivity].
Qed.

Theorem build_trace_prop fuel sched : raw_ok w0 ->
  Forall (fun x => Pq (fst x) (snd x)) (trace_of (run_loop orc cfgB base fuel sched (gs (ginit files dirs)) w0 [])).
Proof.
  intros N.
  destruct (loop_sim2 orc cfgB cfgB base files dirs unit (fun _ a b => a = b) (fun i _ _ => i) Jq Jqd Pq)
    with (fuel := fuel) (i := tt) (sched := sched) (g := ginit files dirs) (w1 := w0) (w2 := w0) (tr := @nil (task * result))
    as (_ & _ & _ & added & Ea & _ & HP & _).
  - intros i g w t r w' R HJ Hin Hex. destruct t as [d|f b]; [exact I|].
    pose proof HJ as (((A & _) & _) & _ & Hs & _).
    apply (pq_intro w f b r w' A); [|intros ->; eapply Jq_final; eauto|exact Hex].
    apply Hs. apply (inflight_seen files dirs g (TPp f b) R Hin).
  - intros i l w t r w' [A Hl] Hin Hex. destruct t as [d|f b]; [exact I|].
    destruct (Hl f b Hin) as [H1 H2]. apply (pq_intro w f b r w' A H1 H2 Hex).
  - intros i g w1 w2 t r w1' _ _ <- _ Hex. exists w1'. split; [exact Hex|reflexivity].
  - intros i g w t rest r w' s2 R HJ HP Hex Hh.
    apply (JLT_step orc cfgB base eq_refl w0 HS files dirs S1 Dd1 Hcl g w t rest r w' s2 R HJ HP Hex Hh).
  - intros i g w t rest r w' R HJ HP Hex. pose proof HJ as (((A & _) & _) & _ & Hs & _).
    split; [apply (agree_step orc cfg base w0 HS w t r w' A Hex)|].
    intros f b Hin.
    assert (Hin' : In (TPp f b) (inflight (gs g))).
    { eapply Permutation_in; [apply Permutation_sym; exact HP|]. right. exact Hin. }
    split; [apply Hs; apply (inflight_seen files dirs g (TPp f b) R Hin')|].
    intros ->. eapply Jq_final; eauto.
  - intros i l w1 w2 t r w1' _ <- _ Hex. exists w1'. split; [exact Hex|reflexivity].
  - intros i l w t r w' l' [A Hl] _ Hex Hsub.
    split; [apply (agree_step orc cfg base w0 HS w t r w' A Hex)|]. intros f b Hin. apply Hl. apply Hsub. exact Hin.
  - apply greach_init.
  - split; [apply JQT_init|]. split; [split; [exact N|reflexivity]|]. destruct Hcl as (Hf & Hd & _).
    unfold ginit. cbn [gs]. split.
    + intros f Hin. rewrite seen_fold_dir_eq in Hin. apply seen_fold_file_inv in Hin.
      destruct Hin as [[]|[_ Hin]]. apply Hf. exact Hin.
    + intros d Hin. apply seen_dirs_fold_dir_inv in Hin. rewrite seen_dirs_fold_file in Hin.
      destruct Hin as [[]|Hin]. apply Hd. exact Hin.
  - reflexivity.
  - cbn [app] in Ea. rewrite Ea. exact HP.
Qed.

(* ---- a `--needed` run that executes such tasks from a world whose tree is the tree of wS writes nothing ---- *)
Variable wS : world.
Hypothesis HAS : agree nt (w_fs w0) (w_fs wS).
Hypothesis Hfix : forall f out v, In f S1 -> is_src f out -> w_fs v = w_fs wS ->
  exists v', pp_run orc InMemoryBuild base f (lastf f) tn v = PpOk v' /\ quiet v v' /\ src_temps_sat (w_fs v) v f.

Lemma needed_task_quiet t r v v1 : w_fs v = w_fs wS -> Pq t r ->
  exec_task orc cfgN base t v = Some (r, v1) -> quiet v v1.
Proof.
  intros Hv HP Hex. destruct t as [d|f b].
  - cbn [exec_task] in Hex. inversion Hex; subst. apply quiet_refl.
  - destruct HP as [HinS Hlast].
    rewrite exec_task_pp in Hex. cbn [with_mode cfg_mode cfg_trailing] in Hex. cbv zeta in Hex.
    destruct (read_file (w_fs v) f) as [raw|] eqn:Er.
    2:{ rewrite (pp_run_unreadable _ _ _ _ _ _ v Er) in Hex. cbn in Hex. inversion Hex; subst. apply quiet_refl. }
    destruct (remove_txtpp f) as [out|] eqn:Ho.
    2:{ rewrite (pp_run_no_out _ _ _ _ _ _ v Ho) in Hex. cbn in Hex. inversion Hex; subst. apply quiet_refl. }
    assert (Av : agree nt (w_fs w0) (w_fs v)) by (rewrite Hv; exact HAS).
    pose proof (source_in_world w0 v f out raw Av Ho Er) as Hsrc.
    destruct (HS f out Hsrc) as (_ & Hno & _).
    destruct (Hfix f out v HinS Hsrc Hv) as (v' & Ev & Hq & Hsat).
    pose proof (needed_pass_sat orc base f b tn v out Ho Hno Hsat) as H.
    destruct (pp_run orc InMemoryBuild base f b tn v) as [a|ds a|k a|] eqn:E; cbn in Hex; try discriminate;
      inversion Hex; subst r v1; cbn [out_world]; try exact H.
    rewrite (Hlast f eq_refl) in E. rewrite Ev in E. inversion E; subst a. exact Hq.
Qed.

Lemma needed_chain_quiet l : forall v v', exec_chain orc cfgN base v l v' -> w_fs v = w_fs wS ->
  Forall (fun x => Pq (fst x) (snd x)) l -> quiet v v'.
Proof.
  induction l as [|[t r] l IH]; intros v v' HC Hv HP; inversion HC; subst; [apply quiet_refl|].
  inversion HP as [|x l' Hp HP']; subst. cbn [fst snd] in Hp.
  match goal with H : exec_task _ _ _ t v = Some (r, ?v1) |- _ =>
    pose proof (needed_task_quiet t r v v1 Hv Hp H) as Hq; apply (quiet_trans v v1 v'); [exact Hq|];
    apply IH; [assumption|rewrite (proj1 Hq); exact Hv|exact HP'] end.
Qed.
End AfterBuild.

(* ---- what a successful Build run establishes (from ScheduleTempFacts: FPT, run_closedT, JCT) ---- *)
Lemma build_run_facts orc cfg base w0 files dirs fuel sched :
  cfg_mode cfg = Build -> sched_ok_temps w0 -> raw_ok w0 ->
  let x1 := run_loop orc cfg base fuel sched (gs (ginit files dirs)) w0 [] in
  verdict_of x1 = VOk ->
  closed cfg w0 files dirs (seen (state_of x1)) (seen_dirs (state_of x1)) /\
  (forall f out, In f (seen (state_of x1)) -> is_source w0 f out -> FPT orc cfg base w0 f out (world_of x1)) /\
  agree nt (w_fs w0) (w_fs (world_of x1)) /\ stale_rel (foots w0) w0 (world_of x1).
Proof.
  intros Hmd HS N x1 Hv.
  split; [apply (run_closedT orc cfg base Hmd w0 HS files dirs fuel sched N Hv)|].
  destruct (run_loop_inv_g orc cfg base files dirs (JQT w0 (FPT orc cfg base w0))
              (JQT_step orc cfg base Hmd w0 HS files dirs (FPT orc cfg base w0)
                 (FPT_stable orc cfg base w0 HS files dirs) (FPT_intro orc cfg base w0 HS files dirs))
              fuel sched (ginit files dirs) w0 [] (greach_init files dirs) (JQT_init w0 files dirs _) Hv)
    as (gA & RA & EsA & _ & HfinA & [HBA HQA]).
  destruct (run_loop_inv_g orc cfg base files dirs (JCT cfg w0) (JCT_step orc cfg base Hmd w0 HS files dirs)
              fuel sched (ginit files dirs) w0 [] (greach_init files dirs) (JCT_init cfg w0 files dirs N) Hv)
    as (gC & _ & _ & _ & _ & (_ & [NC SC] & _)).
  fold x1 in EsA, HBA, HQA, NC, SC. pose proof HBA as (A & B2 & _).
  split; [|split; [exact A|]].
  - intros f out Hin Hsrc. apply HQA; [|exact Hsrc]. apply HfinA. unfold is_seen. apply pmem_In. rewrite EsA. exact Hin.
  - split; [|exact N|exact NC|symmetry; exact SC].
    split; [|apply (proj2 A)]. intros p Hp. apply in_paths_false in Hp. symmetry. apply (B2 p Hp).
Qed.

(* ================================================================================================
   T2.  w is the original tree.  A Build run from w (fuel1, sched1) succeeds and ends in the world w1.  A `--needed` run
   (ANY fuel2, sched2) is started from a world wS whose tree is that of w1 (wS = w1, or any world that cannot be told
   apart from w1 and lists the same `.txtpp` files in the same order — e.g. what a `--needed` run from w leaves, see
   `needed_after_needed_writes_nothing`).  Then:
     - the file system at the end is EQUAL (the same association list) to that of wS: not a single put or delete;
     - the log has grown by ERun events only: no EWrite, no ERemove;
     - the verdict and the trace are those of a Build run from the ORIGINAL tree w with the schedule and fuel of the
       second run (so: VOk when these are the schedule and fuel of the first run, `needed_after_build_same_schedule`).
   Static hypotheses on w: raw_ok, sched_ok_temps, static_ok_temps on all footprints (ScheduleTempFacts), needed_ok
   (NeededRunFacts1), temps_distinct; the base directory and the inputs do not name footprint paths (as in
   ScheduleTempFacts.stale_outputs_and_temps_irrelevant).
   ================================================================================================ *)
Theorem needed_after_build_writes_nothing orc cfg fuel1 sched1 fuel2 sched2 w wS :
  raw_ok w -> sched_ok_temps w -> static_ok_temps (foots w) w -> needed_ok w -> temps_distinct w ->
  ~ In (lex_normalize (cfg_base cfg)) (foots w) ->
  Forall (input_safe (foots w) (lex_normalize (cfg_base cfg))) (cfg_inputs cfg) ->
  let x1 := txtpp_run orc (with_mode cfg Build) fuel1 sched1 w in
  verdict_of x1 = VOk ->
  w_eq wS (world_of x1) -> raw_ok wS -> scanpart (w_fs wS) = scanpart (w_fs (world_of x1)) ->
  let x2 := txtpp_run orc (with_mode cfg InMemoryBuild) fuel2 sched2 wS in
  let xb := txtpp_run orc (with_mode cfg Build) fuel2 sched2 w in
  verdict_of x2 = verdict_of xb /\ trace_of x2 = trace_of xb /\
  w_fs (world_of x2) = w_fs wS /\
  exists evs, w_log (world_of x2) = w_log wS ++ evs /\ Forall run_ev evs.
Proof.
  intros N HS HT HN HD Hb Hin x1 Hv1 HwS NS ScS x2 xb.
  (* the two Build runs from w have the same prelude *)
  assert (Hpre : exists base files dirs,
            os_resolve (w_fs w) (cfg_base cfg) = Some base /\
            x1 = run_loop orc (with_mode cfg Build) base fuel1 sched1 (gs (ginit files dirs)) w [] /\
            xb = run_loop orc (with_mode cfg Build) base fuel2 sched2 (gs (ginit files dirs)) w []).
  { subst x1 xb. unfold txtpp_run in *. cbn [with_mode cfg_threads cfg_base cfg_inputs] in *.
    destruct (cfg_threads cfg =? 0); [cbn in Hv1; discriminate|].
    destruct (os_resolve (w_fs w) (cfg_base cfg)) as [base|]; [|cbn in Hv1; discriminate].
    destruct (resolve_inputs (w_fs w) base (cfg_inputs cfg) [] []) as [[files dirs]|]; [|cbn in Hv1; discriminate].
    exists base, files, dirs. auto. }
  destruct Hpre as (base & files & dirs & Eb & E1 & Exb).
  assert (Hv1' : verdict_of (run_loop orc (with_mode cfg Build) base fuel1 sched1 (gs (ginit files dirs)) w []) = VOk)
    by (rewrite <- E1; exact Hv1).
  destruct (build_run_facts orc (with_mode cfg Build) base w files dirs fuel1 sched1 eq_refl HS N Hv1')
    as (Hcl & HFP & A1 & SR1).
  rewrite <- E1 in Hcl, HFP, A1, SR1.
  set (w1 := world_of x1) in *. set (S1 := seen (state_of x1)) in *.
  (* wS against w *)
  assert (SRS : stale_rel (foots w) w wS).
  { apply (stale_rel_trans _ _ w1); [exact SR1|]. split; [|exact (sr_raw2 _ _ _ SR1)|exact NS|symmetry; exact ScS].
    split; [intros p _; symmetry; apply HwS|]. intros p. unfold is_dir. rewrite (HwS p). reflexivity. }
  assert (AS : agree nt (w_fs w) (w_fs wS)).
  { apply (agree_trans nt _ (w_fs w1)); [exact A1|]. split; [intros p _; symmetry; apply HwS|].
    intros p. unfold is_dir. rewrite (HwS p). reflexivity. }
  (* the traces *)
  destruct (stale_outputs_and_temps_irrelevant orc (with_mode cfg Build) fuel2 sched2 (foots w) w wS eq_refl SRS Hb Hin HT)
    as (Hvz & Htz & _).
  destruct (needed_run_equals_build_run_from orc cfg fuel2 sched2 w wS HS HN AS NS) as (Hvn & Htn & _).
  fold x2 in Hvn, Htn. fold xb in Hvz, Htz.
  assert (Ev : verdict_of x2 = verdict_of xb) by (rewrite Hvn, <- Hvz; reflexivity).
  assert (Et : trace_of x2 = trace_of xb) by (rewrite Htn, <- Htz; reflexivity).
  split; [exact Ev|]. split; [exact Et|].
  (* every task of the trace is quiet *)
  assert (HP : Forall (fun x => Pq w S1 (fst x) (snd x)) (trace_of x2)).
  { rewrite Et, Exb. apply (build_trace_prop orc cfg base w HS files dirs S1 _ Hcl fuel2 sched2 N). }
  pose proof (txtpp_run_chain orc (with_mode cfg InMemoryBuild) fuel2 sched2 wS) as HC. cbv zeta in HC. fold x2 in HC.
  assert (Ebase : run_base (with_mode cfg InMemoryBuild) wS = base).
  { unfold run_base. cbn [with_mode cfg_base].
    rewrite <- (os_resolve_agree _ (w_fs w) (w_fs wS) (cfg_base cfg) (sr_agree _ _ _ SRS) (proj2 (in_paths_false _ _) Hb)).
    rewrite Eb. reflexivity. }
  rewrite Ebase in HC.
  assert (Hfix : forall f out v, In f S1 -> is_source w f out -> w_fs v = w_fs wS ->
            exists v', pp_run orc InMemoryBuild base f (lastflag w f) (cfg_trailing cfg) v = PpOk v' /\
                       quiet v v' /\ src_temps_sat (w_fs v) v f).
  { intros f out v Hf Hsrc Hvs. apply (fpt_needed_fix orc cfg base w HS HN HD f out w1 v Hsrc A1 (HFP f out Hf Hsrc)).
    intros p. unfold w_eq, fs_eq in HwS. rewrite <- (HwS p), Hvs. reflexivity. }
  apply (needed_chain_quiet orc cfg base w HS S1 wS AS Hfix _ wS _ HC eq_refl HP).
Qed.

(* in particular, with the schedule and the fuel of the first run, the second run succeeds *)
Corollary needed_after_build_same_schedule orc cfg fuel sched w :
  raw_ok w -> sched_ok_temps w -> static_ok_temps (foots w) w -> needed_ok w -> temps_distinct w ->
  ~ In (lex_normalize (cfg_base cfg)) (foots w) ->
  Forall (input_safe (foots w) (lex_normalize (cfg_base cfg))) (cfg_inputs cfg) ->
  let x1 := txtpp_run orc (with_mode cfg Build) fuel sched w in
  verdict_of x1 = VOk ->
  let x2 := txtpp_run orc (with_mode cfg InMemoryBuild) fuel sched (world_of x1) in
  verdict_of x2 = VOk /\ trace_of x2 = trace_of x1 /\
  w_fs (world_of x2) = w_fs (world_of x1) /\
  exists evs, w_log (world_of x2) = w_log (world_of x1) ++ evs /\ Forall run_ev evs.
Proof.
  intros N HS HT HN HD Hb Hin x1 Hv1 x2.
  assert (N1 : raw_ok (world_of x1) /\ scanpart (w_fs (world_of x1)) = scanpart (w_fs (world_of x1))).
  { split; [|reflexivity].
    destruct (stale_outputs_and_temps_irrelevant orc (with_mode cfg Build) fuel sched (foots w) w w eq_refl
                (stale_rel_refl _ w N) Hb Hin HT) as (_ & _ & _ & HR). exact (sr_raw1 _ _ _ HR). }
  destruct (needed_after_build_writes_nothing orc cfg fuel sched fuel sched w (world_of x1) N HS HT HN HD Hb Hin Hv1
              (fun p => eq_refl) (proj1 N1) (proj2 N1)) as (Ev & Et & Hfs & Hlog).
  fold x1 in Ev, Et. fold x2 in Ev, Et, Hfs, Hlog. rewrite Hv1 in Ev. auto.
Qed.

(* ... and the same after a successful `--needed` run (T1 reduces it to the Build run with the same schedule) *)
Corollary needed_after_needed_writes_nothing orc cfg fuel1 sched1 fuel2 sched2 w :
  raw_ok w -> sched_ok_temps w -> static_ok_temps (foots w) w -> needed_ok w -> temps_distinct w ->
  ~ In (lex_normalize (cfg_base cfg)) (foots w) ->
  Forall (input_safe (foots w) (lex_normalize (cfg_base cfg))) (cfg_inputs cfg) ->
  let x1 := txtpp_run orc (with_mode cfg InMemoryBuild) fuel1 sched1 w in
  verdict_of x1 = VOk ->
  let x2 := txtpp_run orc (with_mode cfg InMemoryBuild) fuel2 sched2 (world_of x1) in
  let xb := txtpp_run orc (with_mode cfg Build) fuel2 sched2 w in
  verdict_of x2 = verdict_of xb /\ trace_of x2 = trace_of xb /\
  w_fs (world_of x2) = w_fs (world_of x1) /\
  exists evs, w_log (world_of x2) = w_log (world_of x1) ++ evs /\ Forall run_ev evs.
Proof.
  intros N HS HT HN HD Hb Hin x1 Hv1 x2 xb.
  destruct (needed_run_equals_build_run orc cfg fuel1 sched1 w N HS HN) as (Hv & _ & _ & HR & Hok).
  fold x1 in Hv, HR, Hok. rewrite Hv1 in Hv. symmetry in Hv.
  apply (needed_after_build_writes_nothing orc cfg fuel1 sched1 fuel2 sched2 w (world_of x1) N HS HT HN HD Hb Hin Hv).
  - exact (Hok Hv).
  - exact (sr_raw2 _ _ _ HR).
  - symmetry. exact (sr_scan _ _ _ HR).
Qed.

(* ---- non-vacuity of T2: the tree of ScheduleTempFacts PART 6 (a source with `temp t` / `include t`, a second source that
   includes the output of the first: two passes) ---- *)
Lemma t_foots : foots t_w = [t_aout; t_aout; t_t; t_bout; t_bout].
Proof. vm_compute. reflexivity. Qed.

Lemma t_static_foots : static_ok_temps (foots t_w) t_w.
Proof.
  rewrite t_foots. split.
  - intros p Hp. repeat (destruct Hp as [<-|Hp]; [vm_compute; reflexivity|]). destruct Hp.
  - intros f out raw Ho Er. destruct (t_sources f raw Er) as [-> | ->]; vm_compute in Ho; inversion Ho; subst out.
    + split; [repeat constructor|]. split; [|split; [|split]].
      * intros q Hq. vm_compute in Hq. destruct Hq as [<-|[<-|[<-|[]]]]; vm_compute; reflexivity.
      * intros c Hc. vm_compute in Hc. destruct Hc as [<-|[]]. vm_compute. reflexivity.
      * solve_ro.
      * solve_ro.
    + split; [repeat constructor|]. split; [|split; [|split]].
      * intros q Hq. vm_compute in Hq. destruct Hq as [<-|[<-|[]]]; vm_compute; reflexivity.
      * intros c Hc. vm_compute in Hc. destruct Hc as [<-|[]]. vm_compute. reflexivity.
      * solve_ro.
      * solve_ro.
Qed.

Lemma t_distinct : temps_distinct t_w.
Proof.
  intros f out Hs. destruct (t_src f out Hs) as [[-> ->]|[-> ->]]; vm_compute; repeat constructor; intros [].
Qed.

Lemma t_base_safe : ~ In (lex_normalize (cfg_base t_cfg)) (foots t_w).
Proof. rewrite t_foots. vm_compute. intuition discriminate. Qed.
Lemma t_inputs_safe : Forall (input_safe (foots t_w) (lex_normalize (cfg_base t_cfg))) (cfg_inputs t_cfg).
Proof.
  rewrite t_foots. constructor; [|constructor]. split; [vm_compute; intuition discriminate|].
  intros c Hc. vm_compute in Hc. destruct Hc as [<-|[]]. vm_compute. intuition discriminate.
Qed.

Example needed_after_build_writes_nothing_nonvacuous :
  let x1 := txtpp_run cx_orc (with_mode t_cfg Build) 9 [] t_w in
  verdict_of x1 = VOk /\
  (* whatever the schedule and the fuel of the second run: nothing is written *)
  (forall fuel2 sched2,
     let x2 := txtpp_run cx_orc (with_mode t_cfg InMemoryBuild) fuel2 sched2 (world_of x1) in
     w_fs (world_of x2) = w_fs (world_of x1) /\
     exists evs, w_log (world_of x2) = w_log (world_of x1) ++ evs /\ Forall run_ev evs) /\
  (* the other schedule of ScheduleTempFacts (b.txtpp is looked at first): success, four tasks *)
  (let x2 := txtpp_run cx_orc (with_mode t_cfg InMemoryBuild) 9 [0; 1; 0; 0]%nat (world_of x1) in
   verdict_of x2 = VOk /\ length (trace_of x2) = 4%nat /\ w_log (world_of x2) = w_log (world_of x1)) /\
  (* whereas a second Build run rewrites every output and the temp file *)
  (let x2 := txtpp_run cx_orc (with_mode t_cfg Build) 9 [] (world_of x1) in
   verdict_of x2 = VOk /\ w_log (world_of x2) <> w_log (world_of x1)).
Proof.
  cbv zeta. assert (Hv : verdict_of (txtpp_run cx_orc (with_mode t_cfg Build) 9 [] t_w) = VOk) by (vm_compute; reflexivity).
  split; [exact Hv|]. split; [|split].
  - intros fuel2 sched2.
    assert (N1 : raw_ok (world_of (txtpp_run cx_orc (with_mode t_cfg Build) 9 [] t_w))).
    { unfold raw_ok. vm_compute. repeat constructor; cbn; intuition discriminate. }
    destruct (needed_after_build_writes_nothing cx_orc t_cfg 9 [] fuel2 sched2 t_w _ t_raw_ok t_sched_ok t_static_foots
                t_needed_ok t_distinct t_base_safe t_inputs_safe Hv (fun p => eq_refl) N1 eq_refl) as (_ & _ & H1 & H2).
    split; [exact H1|exact H2].
  - vm_compute. auto.
  - split; [vm_compute; reflexivity|]. vm_compute. discriminate.
Qed.

(* ---- `temps_distinct` cannot be dropped.   d/a.txtpp = "// TXTPP#temp t\n// one\nx\n// TXTPP#temp t\n// two\ny\n" names the temp
   file d/t twice, with two contents.  Every run — Build or `--needed`, also right after a successful run — rewrites
   d/t twice ("one", then "two"): the second run logs two EWrite events on d/t although the tree it leaves is the tree it
   found (but not the same list: the entry of d/t has moved). ---- *)
Definition c3_araw : str :=
  [47; 47; 32; 84; 88; 84; 80; 80; 35; 116; 101; 109; 112; 32; 116; 10; 47; 47; 32; 111; 110; 101; 10; 120; 10;
   47; 47; 32; 84; 88; 84; 80; 80; 35; 116; 101; 109; 112; 32; 116; 10; 47; 47; 32; 116; 119; 111; 10; 121; 10].
Definition c3_fs : fs := [([[100]], Dir); (t_a, File c3_araw)].
Definition c3_w : world := mkW c3_fs [].

Example needed_cex_temp_twice :
  own_temps c3_w t_a = [t_t; t_t] /\
  let x1 := txtpp_run cx_orc (with_mode t_cfg Build) 9 [] c3_w in
  let x2 := txtpp_run cx_orc (with_mode t_cfg InMemoryBuild) 9 [] (world_of x1) in
  verdict_of x1 = VOk /\ verdict_of x2 = VOk /\
  w_log (world_of x2) = w_log (world_of x1) ++ [EWrite t_t; EWrite t_t] /\
  w_fs (world_of x2) <> w_fs (world_of x1) /\
  fs_get (w_fs (world_of x2)) t_t = fs_get (w_fs (world_of x1)) t_t.
Proof.
  split; [vm_compute; reflexivity|]. vm_compute. repeat split; try reflexivity. discriminate.
Qed.
