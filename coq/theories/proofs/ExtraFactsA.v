(* ExtraFactsA.v — GOAL A (C16): the write round trip.
   Escaping ANY sequence of lines with a `write` directive reproduces the lines exactly. *)
Require Import Txtpp.Str Txtpp.Consts Txtpp.Grammar Txtpp.Tags Txtpp.Path Txtpp.Fs Txtpp.Sink Txtpp.Pp Txtpp.Spec.
Require Import Txtpp.proofs.StrFacts Txtpp.proofs.GrammarFacts Txtpp.proofs.TagsFacts Txtpp.proofs.PpFacts.
From Coq Require Import Lia Permutation.

Local Arguments N.add : simpl never.
Local Arguments N.sub : simpl never.
Local Arguments N.eqb : simpl never.
Local Arguments N.ltb : simpl never.
Local Arguments N.leb : simpl never.

(* ---------------------------------------------------------------- definitions *)
Definition WRITE : str := [119; 114; 105; 116; 101].     (* "write" *)

(* the escaped form of the lines ls behind the prefix p:
      p TXTPP#write l1
      p l2
      ...
      p ln                                                                    *)
Definition escape (p : str) (ls : list str) : list str :=
  match ls with
  | [] => []
  | l1 :: rest => (p ++ TXTPP_HASH ++ WRITE ++ [SPb] ++ l1) :: map (fun l => p ++ l) rest
  end.

(* a usable prefix (decidable): non-empty, starts with an ASCII byte that is not white space, is valid UTF-8,
   and the first TXTPP# of `p TXTPP#` is the one after p (p does not itself contain / complete a TXTPP#).
   It MAY end with white space ("// " is fine). *)
Definition good_prefix (p : str) : bool :=
  match p with [] => false | c :: _ => (c <? 128) && negb (ascii_ws c) end
  && utf8_valid p
  && match find_sub TXTPP_HASH (p ++ TXTPP_HASH) with Some i => Nat.eqb i (length p) | None => false end.

(* a line that write can carry unchanged: no CR, no LF, valid UTF-8, no white-space character at its end *)
Definition plain_line (l : str) : Prop :=
  ~ In LFb l /\ ~ In CRb l /\ utf8_valid l = true /\ ws_len_rev (rev l) = 0%nat.

(* what can be escaped: at least one line, all lines plain, the first does not start with white space
   (the first argument of a directive is trimmed on both sides, the following ones on the right only).
   An empty LAST line is allowed: `lines` drops it but the final LF it leaves behind makes
   format_output add the line ending back (lemma chunk_of_lines below). *)
Definition escapable (ls : list str) : Prop :=
  ls <> [] /\ Forall plain_line ls /\ ws_len (hd [] ls) = 0%nat.

(* ---------------------------------------------------------------- examples *)
(* lines: "TXTPP#run x", "", "-", " a" (leading blank, not first), "" (empty last line) *)
Definition ex_ls : list str := [[84;88;84;80;80;35;114;117;110;32;120]; []; [45]; [32;97]; []].
Definition ex_dash : str := [45].            (* "-"   *)
Definition ex_slashes : str := [47;47;32].   (* "// " *)

Example ex_good_prefix : good_prefix ex_dash = true /\ good_prefix ex_slashes = true.
Proof. split; vm_compute; reflexivity. Qed.

Example ex_escapable : escapable ex_ls.
Proof.
  split; [discriminate|]. split; [|reflexivity].
  repeat constructor; try (vm_compute; reflexivity);
    intros H; cbn in H; repeat (destruct H as [H|H]; [discriminate|]); exact H.
Qed.

Example ex_parse :
  parse false None (escape ex_dash ex_ls) = [IDir (mkD [] ex_dash DWrite ex_ls) false] /\
  parse false None (escape ex_slashes ex_ls) = [IDir (mkD [] ex_slashes DWrite ex_ls) false].
Proof. split; vm_compute; reflexivity. Qed.

Example ex_run :
  run_items (fun _ _ _ => None) InMemoryBuild [] [] c_crlf (parse false None (escape ex_dash ex_ls))
    (mkP None false PExec (mkTags None [([97], [98])]) (SMem [] []) (mkW [] []))
  = (StOk (mkP None true PExec (mkTags None [([97], [98])]) (SMem [] (join c_crlf ex_ls)) (mkW [] [])),
     [(join c_crlf ex_ls, true)]).
Proof. vm_compute. reflexivity. Qed.

(* ---------------------------------------------------------------- trimming *)
Lemma trim_end_id s : ws_len_rev (rev s) = 0%nat -> trim_end s = s.
Proof.
  intros H. apply (trim_end_unique s s []); [now rewrite app_nil_r | constructor | exact H].
Qed.

Lemma trim_id s : ws_len s = 0%nat -> ws_len_rev (rev s) = 0%nat -> trim s = s.
Proof.
  intros H1 H2. unfold trim, trim_start.
  pose proof (split_ws_app [] s AllWs_nil H1) as E. cbn [app] in E.
  rewrite E. cbn [snd]. now apply trim_end_id.
Qed.

Lemma trim_end_length s : (length (trim_end s) <= length s)%nat.
Proof.
  destruct (trim_end_spec s) as (b & Hb & _ & _).
  rewrite Hb at 2. rewrite app_length. lia.
Qed.

(* ---------------------------------------------------------------- occurrences *)
Lemma occurs_at_app_inv k s r j :
  occurs_at k (s ++ r) j -> (j + length k <= length s)%nat -> occurs_at k s j.
Proof.
  intros (a & r' & H & Ha) Hl. subst j.
  assert (E : firstn (length (a ++ k)) (s ++ r) = a ++ k).
  { rewrite H, app_assoc. apply firstn_app_exact. }
  rewrite firstn_app in E.
  assert (Z : (length (a ++ k) - length s = 0)%nat) by (rewrite app_length; lia).
  rewrite Z in E. cbn [firstn] in E. rewrite app_nil_r in E.
  exists a, (skipn (length (a ++ k)) s). split; [|reflexivity].
  rewrite app_assoc, <- E at 1. now rewrite firstn_skipn.
Qed.

(* ---------------------------------------------------------------- the prefix *)
Lemma good_prefix_inv p : good_prefix p = true ->
  (exists c p', p = c :: p' /\ c < 128 /\ ascii_ws c = false) /\
  utf8_valid p = true /\
  (forall r j, (j < length p)%nat -> ~ occurs_at TXTPP_HASH (p ++ TXTPP_HASH ++ r) j).
Proof.
  unfold good_prefix. intros H.
  apply andb_true_iff in H as [H H3]. apply andb_true_iff in H as [H1 H2].
  split; [|split; [exact H2|]].
  - destruct p as [|c p']; [discriminate|]. apply andb_true_iff in H1 as [Ha Hb].
    exists c, p'. split; [reflexivity|]. split; [now apply N.ltb_lt|].
    now apply negb_true_iff in Hb.
  - destruct (find_sub TXTPP_HASH (p ++ TXTPP_HASH)) as [i|] eqn:F; [|discriminate].
    apply Nat.eqb_eq in H3. subst i. apply find_sub_spec in F as [_ Hmin].
    intros r j Hj Hocc. apply (Hmin j Hj).
    rewrite app_assoc in Hocc. apply occurs_at_app_inv in Hocc; [exact Hocc|].
    rewrite app_length. lia.
Qed.

Lemma ws_len_ascii_nonws c r : c < 128 -> ascii_ws c = false -> ws_len (c :: r) = 0%nat.
Proof.
  intros Hc Ha. cbn [ws_len]. rewrite Ha.
  assert (E : forall n, 128 <= n -> (c =? n) = false) by (intros n Hn; apply N.eqb_neq; lia).
  rewrite !E by lia. reflexivity.
Qed.

(* ---------------------------------------------------------------- the first line *)
Lemma detect_first p l1 :
  good_prefix p = true -> ws_len l1 = 0%nat -> ws_len_rev (rev l1) = 0%nat ->
  detect_from (p ++ TXTPP_HASH ++ WRITE ++ [SPb] ++ l1) = Some (mkD [] p DWrite [l1]).
Proof.
  intros Hp H1 H2. apply good_prefix_inv in Hp as ((c & p' & Ep & Hc & Ha) & Hu & Hmin).
  apply detect_from_iff. exists [], p, WRITE, ([SPb] ++ l1).
  split; [reflexivity|]. split; [constructor|]. split.
  { rewrite Ep. cbn [app]. now apply ws_len_ascii_nonws. }
  split; [intros j Hj; now apply Hmin|].
  split.
  { intros H. cbn in H. repeat (destruct H as [H|H]; [discriminate|]). exact H. }
  split; [right; eexists; reflexivity|].
  exists DWrite. split; [reflexivity|].
  cbn [app tl]. now rewrite trim_id.
Qed.

(* ---------------------------------------------------------------- a continuation line *)
Lemma add_continuation p args l :
  good_prefix p = true -> utf8_valid l = true -> ws_len_rev (rev l) = 0%nat ->
  add_line (mkD [] p DWrite args) (p ++ l) = AddOk (mkD [] p DWrite (args ++ [l])).
Proof.
  intros Hp Hu Hl. apply good_prefix_inv in Hp as (_ & Hup & _).
  apply add_line_iff; cbn [d_ws d_prefix d_ty].
  - now apply utf8_valid_app.
  - reflexivity.
  - exact Hup.
  - split; [reflexivity|]. exists (p ++ l). split; [reflexivity|].
    destruct (str_eqb (p ++ l) (trim_end p)) eqn:E.
    + apply str_eqb_eq in E. left. split; [exact E|].
      assert (L : l = []).
      { pose proof (trim_end_length p) as Hlen. rewrite <- E, app_length in Hlen.
        destruct l; [reflexivity | simpl in Hlen; lia]. }
      subst l. reflexivity.
    + right. split.
      { intros Hc. apply str_eqb_eq in Hc. congruence. }
      exists l. split; [now left|]. unfold push_arg. cbn [d_ws d_prefix d_ty d_args].
      now rewrite trim_end_id.
Qed.

Lemma parse_continuations p : good_prefix p = true -> forall rest args,
  Forall plain_line rest ->
  parse false (Some (mkD [] p DWrite args)) (map (fun l => p ++ l) rest)
  = [IDir (mkD [] p DWrite (args ++ rest)) false].
Proof.
  intros Hp. induction rest as [|l r IH]; intros args HF.
  - cbn [map parse]. now rewrite app_nil_r.
  - inversion HF as [|? ? (_ & _ & Hu & Hl) HF']; subst.
    cbn [map parse]. rewrite (add_continuation p args l Hp Hu Hl).
    rewrite (IH _ HF'), <- app_assoc. reflexivity.
Qed.

(* ---- Theorem A1: the escaped lines parse to exactly one write directive, at end of file, whose arguments are the lines *)
Theorem write_roundtrip_parse p ls :
  good_prefix p = true -> escapable ls ->
  parse false None (escape p ls) = [IDir (mkD [] p DWrite ls) false].
Proof.
  intros Hp (Hne & HF & H1). destruct ls as [|l1 rest]; [congruence|].
  inversion HF as [|? ? (_ & _ & Hu & Hl) HF']; subst. cbn [hd] in H1.
  cbn [escape parse]. rewrite (detect_first p l1 Hp H1 Hl).
  assert (N : needs_prefix_err (mkD [] p DWrite [l1]) = false).
  { unfold needs_prefix_err. cbn [d_ty d_prefix].
    apply good_prefix_inv in Hp as ((c & p' & -> & _) & _). apply andb_false_r. }
  rewrite N. now rewrite (parse_continuations p Hp rest [l1] HF').
Qed.

(* ---------------------------------------------------------------- lines / join *)
Lemma split_on_none c x : ~ In c x -> split_on c x = [x].
Proof.
  induction x as [|y x IH]; intros H; [reflexivity|].
  cbn [split_on]. destruct (y =? c) eqn:E.
  - apply N.eqb_eq in E. exfalso. apply H. now left.
  - rewrite IH; [reflexivity|]. intros Hx. apply H. now right.
Qed.
Lemma split_on_app_sep c x s : ~ In c x -> split_on c (x ++ c :: s) = x :: split_on c s.
Proof.
  induction x as [|y x IH]; intros H.
  - cbn [app split_on]. now rewrite N.eqb_refl.
  - cbn [app split_on]. destruct (y =? c) eqn:E.
    + apply N.eqb_eq in E. exfalso. apply H. now left.
    + rewrite IH; [reflexivity|]. intros Hx. apply H. now right.
Qed.
Lemma split_on_join c ls :
  ls <> [] -> (forall l, In l ls -> ~ In c l) -> split_on c (join [c] ls) = ls.
Proof.
  induction ls as [|x r IH]; intros Hne H; [congruence|].
  destruct r as [|y r].
  - cbn [join]. apply split_on_none. apply H. now left.
  - change (join [c] (x :: y :: r)) with (x ++ c :: join [c] (y :: r)).
    rewrite split_on_app_sep by (apply H; now left).
    rewrite IH; [reflexivity | discriminate | intros l Hl; apply H; now right].
Qed.

Lemma strip_cr_id x : ~ In CRb x -> strip_cr x = x.
Proof.
  intros H. unfold strip_cr. destruct (rev x) as [|c r] eqn:E; [reflexivity|].
  destruct (c =? CRb) eqn:Ec; [|reflexivity].
  apply N.eqb_eq in Ec. subst c. exfalso. apply H. apply in_rev. rewrite E. now left.
Qed.

Lemma ends_with_lf_app a b : b <> [] -> ends_with_lf (a ++ b) = ends_with_lf b.
Proof.
  intros Hb. unfold ends_with_lf. rewrite rev_app_distr.
  destruct (rev b) as [|c r] eqn:E; [|reflexivity].
  exfalso. apply Hb. rewrite <- (rev_involutive b), E. reflexivity.
Qed.
Lemma ends_with_lf_no_lf x : ~ In LFb x -> ends_with_lf x = false.
Proof.
  intros H. unfold ends_with_lf. destruct (rev x) as [|c r] eqn:E; [reflexivity|].
  apply N.eqb_neq. intros ->. apply H. apply in_rev. rewrite E. now left.
Qed.

(* the text `write` produces from its arguments: lines (join LF ls) re-joined with the line ending, plus one
   line ending if the joined text ends with LF.  It is join le ls even when the last line is empty. *)
Lemma chunk_of_pieces le ls :
  ls <> [] -> (forall l, In l ls -> ~ In LFb l /\ ~ In CRb l) ->
  join le (lines_of_pieces ls) ++ (if ends_with_lf (join [LFb] ls) then le else []) = join le ls.
Proof.
  induction ls as [|x r IH]; intros Hne H; [congruence|].
  destruct (H x (or_introl eq_refl)) as [Hlf Hcr].
  destruct r as [|y r].
  - cbn [lines_of_pieces join]. rewrite (ends_with_lf_no_lf x Hlf).
    destruct x; cbn [join]; now rewrite app_nil_r.
  - assert (IH' := IH (ltac:(discriminate)) (fun l Hl => H l (or_intror Hl))).
    change (lines_of_pieces (x :: y :: r)) with (strip_cr x :: lines_of_pieces (y :: r)).
    change (join [LFb] (x :: y :: r)) with (x ++ [LFb] ++ join [LFb] (y :: r)).
    rewrite (strip_cr_id x Hcr).
    change (join le (x :: y :: r)) with (x ++ le ++ join le (y :: r)).
    destruct (join [LFb] (y :: r)) as [|b jr] eqn:J.
    + (* y = [] and r = [] *)
      destruct r as [|z r].
      * cbn [join] in J. subst y. cbn [lines_of_pieces join].
        rewrite app_nil_r, (ends_with_lf_app x [LFb]) by discriminate.
        cbn. now rewrite app_nil_r.
      * exfalso. change (join [LFb] (y :: z :: r)) with (y ++ [LFb] ++ join [LFb] (z :: r)) in J.
        destruct y; discriminate.
    + rewrite app_assoc, (ends_with_lf_app (x ++ [LFb]) (b :: jr)) by discriminate.
      rewrite <- IH'.
      destruct (lines_of_pieces (y :: r)) as [|q qs] eqn:L.
      * (* then y = [] and r = []: contradiction with J *)
        exfalso. destruct r as [|z r]; [|discriminate].
        cbn [lines_of_pieces] in L. destruct y; [|discriminate]. discriminate.
      * change (join le (x :: q :: qs)) with (x ++ le ++ join le (q :: qs)).
        now rewrite <- !app_assoc.
Qed.

Lemma write_chunk le ls :
  ls <> [] -> Forall plain_line ls ->
  format_output le [] (lines (join [LFb] ls)) (ends_with_lf (join [LFb] ls)) = join le ls.
Proof.
  intros Hne HF. rewrite Forall_forall in HF.
  unfold format_output, lines. rewrite split_on_join; [|exact Hne|intros l Hl; apply (HF l Hl)].
  cbn [app]. rewrite map_id. apply chunk_of_pieces; [exact Hne|].
  intros l Hl. destruct (HF l Hl) as (A & B & _). now split.
Qed.

(* ---------------------------------------------------------------- execution *)
Section Exec.
Variable orc : oracle.
Variable md : mode.
Variable src base : path.
Variable le : str.

(* ---- Theorem A2: the chunk of the directive is `join le ls`, for an ARBITRARY tag store (nothing listening):
   the content is never re-read as a directive and never subject to tag substitution, the state is unchanged. *)
Theorem write_roundtrip_chunk p ls fol s :
  ls <> [] -> Forall plain_line ls ->
  md <> Clean -> pmode s = PExec -> listening (tg s) = None ->
  item_output orc md src base le (IDir (mkD [] p DWrite ls) fol) s = IOut (Some (join le ls)) s.
Proof.
  intros Hne HF Hm Hp Hl.
  rewrite (write_inert orc md src base le (mkD [] p DWrite ls) fol s eq_refl Hm Hp Hl).
  cbn [d_ws d_args]. now rewrite write_chunk.
Qed.

(* ---- Theorem A3: running the escaped lines from a fresh state with the in-memory sink, whatever the tag store
   holds (nothing listening): one chunk `join le ls`, line-terminated; the buffer is exactly `join le ls`;
   nothing else changes (tags, world). *)
Theorem write_roundtrip_run p ls t out w :
  good_prefix p = true -> escapable ls -> md <> Clean -> listening t = None ->
  run_items orc md src base le (parse false None (escape p ls)) (mkP None false PExec t (SMem out []) w)
  = (StOk (mkP None true PExec t (SMem out (join le ls)) w), [(join le ls, true)]).
Proof.
  intros Hp He Hm Hl. rewrite (write_roundtrip_parse p ls Hp He).
  destruct He as (Hne & HF & _).
  cbn [run_items].
  rewrite (write_roundtrip_chunk p ls false (mkP None false PExec t (SMem out []) w) Hne HF Hm eq_refl Hl).
  reflexivity.
Qed.

(* the text: the lines joined by the line ending, plus the final line ending iff the trailing-newline option is on *)
Lemma splice_single tn x : splice le tn [(x, true)] = x ++ (if tn then le else []).
Proof. reflexivity. Qed.

(* ---- Theorem A4: the whole file through the machine of Pp.v (line loop + end of input + epilogue), from the fresh
   state of a second pass / single pass with the in-memory sink: the text handed to `done` is
   `join le ls ++ (if trailing_newline then le else [])`. *)
Theorem write_roundtrip_file p ls tn out w :
  good_prefix p = true -> escapable ls -> md <> Clean ->
  outcome_of orc md src base le tn
    (run_lines orc md src base le (escape p ls) (mkP None false PExec tags_new (SMem out []) w))
  = match sink_done (SMem out (join le ls ++ (if tn then le else []))) w with
    | inl w' => PpOk w'
    | inr k => PpErr k w
    end.
Proof.
  intros Hp He Hm.
  rewrite machine_refines_spec by reflexivity.
  unfold spec_file.
  assert (C : mode_eqb md Clean = false) by (destruct md; try reflexivity; congruence).
  rewrite C, (write_roundtrip_run p ls tags_new out w Hp He Hm eq_refl).
  cbn [fst]. unfold epilogue. cbn [pmode tg has_tags tags_new listening stored flag snk wld andb negb].
  destruct tn; cbn [andb sink_write].
  - reflexivity.
  - now rewrite app_nil_r.
Qed.

End Exec.
