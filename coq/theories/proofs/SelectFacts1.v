(* SelectFacts1.v — task H, part 1 (properties C11 / C10): README-shaped characterisations of
     H1  input resolution  (`resolve_inputs`: Run.v, resolve_inputs.rs)
     H2  directory scans   (`scan_dir`: Run.v, scan_dir.rs)
   Everything below is proved (nothing assumed); `Print Assumptions` of the theorems is closed.

   H1  `resolve_one F base a` is the README reading of ONE command-line argument `a` (relative to `base`):
         (i)   an existing directory               -> a directory to scan            (`resolve_input_directory`)
         (ii)  an existing file with a txtpp name  -> that source file               (`resolve_input_source`)
         (iii) any other name (an OUTPUT name)     -> the first existing source candidate, `x.ext.txtpp` before
               `x.txtpp.ext`, whether or not the output exists                       (`resolve_input_output`,
               `get_txtpp_file_first`, `resolve_output_ext_first/_second`, `resolve_output_noext`)
         (iv)  otherwise the resolution fails                                        (`resolve_input_fails_iff`),
               and the whole run is VErr with an empty trace and an untouched world  (`unresolved_input_fails_run`)
       `resolve_inputs_cons`, `resolve_inputs_spec`, `resolve_inputs_none_iff`: the list version.
       `resolve_one_file_is_source`, `resolve_one_dir_is_dir`: what is selected exists and is of the right kind.
       Duplicates: `same_normal_form_same_entry`, `lex_join_dot_slash`, `lex_normalize_updir`,
       `resolve_by_output_same_as_by_source` (the spellings `x.txtpp`, `x`, `./x`, `sub/../x` give the SAME canonical
       path) and `initial_tasks_spec` (the coordinator starts ONE task per distinct canonical path).
   H2  `scan_dir_eq` (the exact lists, in storage order, no hypothesis), `scan_dir_spec` (membership, under NoDup keys),
       `scan_dir_perm`, `scan_dir_dir_named_like_source`. *)
Require Import Txtpp.Str Txtpp.Consts Txtpp.Grammar Txtpp.Tags Txtpp.Path Txtpp.Fs Txtpp.Sink Txtpp.Pp Txtpp.Spec.
Require Import Txtpp.Dep Txtpp.Coord Txtpp.Run.
Require Import Txtpp.proofs.StrFacts Txtpp.proofs.SinkFacts Txtpp.proofs.PathFacts Txtpp.proofs.PpFacts Txtpp.proofs.EventFacts.
Require Import Txtpp.proofs.FrameFacts Txtpp.proofs.ConfluenceFacts Txtpp.proofs.DepFacts Txtpp.proofs.CoordFacts Txtpp.proofs.RunFacts.
Require Import Txtpp.proofs.ScheduleFacts Txtpp.proofs.RunEventsFacts Txtpp.proofs.ScheduleTempFacts Txtpp.proofs.CleanVerifyFacts.
Require Import Txtpp.proofs.CleanRunFacts.
From Coq Require Import Lia Permutation.

Local Open Scope bool_scope.

(* ===================================================================================================================
   H1 — input resolution
   =================================================================================================================== *)

(* ---- basic facts on lexical resolution ---- *)
Lemma lex_is_dir_resolve F p : lex_is_dir F p = true -> os_resolve F p = Some (lex_normalize p).
Proof.
  unfold lex_is_dir. destruct (os_resolve F p) as [q|] eqn:R; [|discriminate]. intros _.
  rewrite (os_resolve_normalize _ _ _ R). reflexivity.
Qed.
Lemma lex_is_file_resolve F p : lex_is_file F p = true -> os_resolve F p = Some (lex_normalize p).
Proof.
  unfold lex_is_file. destruct (os_resolve F p) as [q|] eqn:R; [|discriminate]. intros _.
  rewrite (os_resolve_normalize _ _ _ R). reflexivity.
Qed.
Lemma lex_is_dir_is_dir F p : lex_is_dir F p = true -> is_dir F (lex_normalize p) = true.
Proof.
  intros H. pose proof (lex_is_dir_resolve F p H) as R. unfold lex_is_dir in H. rewrite R in H. exact H.
Qed.
Lemma lex_is_file_is_file F p : lex_is_file F p = true -> is_file F (lex_normalize p) = true.
Proof.
  intros H. pose proof (lex_is_file_resolve F p H) as R. unfold lex_is_file in H. rewrite R in H. exact H.
Qed.
(* a name resolves to a regular file or to a directory, never both *)
Lemma lex_is_file_not_dir F p : lex_is_file F p = true -> lex_is_dir F p = false.
Proof.
  unfold lex_is_file, lex_is_dir. destruct (os_resolve F p) as [q|]; [|discriminate].
  unfold is_file, is_dir. destruct (fs_get F q) as [[c|]|]; try discriminate. reflexivity.
Qed.
(* a path that resolves (= exists) and is not a directory is a regular file *)
Lemma resolves_not_dir_is_file F p q : os_resolve F p = Some q -> lex_is_dir F p = false -> lex_is_file F p = true.
Proof.
  intros R Ld. unfold lex_is_dir in Ld. unfold lex_is_file. rewrite R in *.
  pose proof (RunFacts.os_walk_exists _ _ _ _ R) as He. unfold exists_ in He. unfold is_dir in Ld. unfold is_file.
  destruct (fs_get F q) as [[c|]|]; [reflexivity|discriminate|discriminate].
Qed.
Lemma lex_is_file_false_not_dir F p : lex_is_dir F p = false -> lex_is_file F p = false -> os_resolve F p = None.
Proof.
  intros Ld Lf. destruct (os_resolve F p) as [q|] eqn:R; [|reflexivity].
  rewrite (resolves_not_dir_is_file F p q R Ld) in Lf. discriminate.
Qed.

(* ---- the README reading of ONE argument: inl = a source file, inr = a directory to scan, None = error ---- *)
Definition resolve_one (F : fs) (base : path) (a : str) : option (path + path) :=
  let ip := lex_join base a in
  if lex_is_dir F ip then Some (inr (lex_normalize ip))
  else if is_txtpp_file ip then
         (if lex_is_file F ip then Some (inl (lex_normalize ip)) else None)
  else match get_txtpp_file F ip with
       | Some x => Some (inl (lex_normalize x))
       | None => None
       end.

Lemma get_txtpp_file_is_file F p x : get_txtpp_file F p = Some x -> In x (txtpp_candidates p) /\ lex_is_file F x = true.
Proof. unfold get_txtpp_file. intros H. apply find_some in H. exact H. Qed.

(* one step of `resolve_inputs` is `resolve_one` *)
Theorem resolve_inputs_cons F base a r files dirs :
  resolve_inputs F base (a :: r) files dirs =
  match resolve_one F base a with
  | Some (inl q) => resolve_inputs F base r (files ++ [q]) dirs
  | Some (inr d) => resolve_inputs F base r files (dirs ++ [d])
  | None => None
  end.
Proof.
  cbn [resolve_inputs]. cbv zeta. unfold resolve_one. cbv zeta. set (ip := lex_join base a).
  destruct (lex_is_dir F ip) eqn:Ld.
  - rewrite (lex_is_dir_resolve F ip Ld). reflexivity.
  - destruct (is_txtpp_file ip) eqn:Tx; cbn [negb].
    + destruct (lex_is_file F ip) eqn:Lf.
      * rewrite (lex_is_file_resolve F ip Lf). reflexivity.
      * rewrite (lex_is_file_false_not_dir F ip Ld Lf). reflexivity.
    + destruct (get_txtpp_file F ip) as [x|] eqn:G; [|reflexivity].
      destruct (get_txtpp_file_is_file F ip x G) as [_ Lf].
      rewrite (lex_is_file_resolve F x Lf). reflexivity.
Qed.

(* ---- the four clauses, as equations on `resolve_inputs F base [a] files dirs` (any accumulators) ---- *)
(* (i) an existing directory is put in `dirs` (to be scanned), under its canonical path *)
Theorem resolve_input_directory F base a files dirs :
  lex_is_dir F (lex_join base a) = true ->
  resolve_inputs F base [a] files dirs = Some (files, dirs ++ [lex_normalize (lex_join base a)]).
Proof. intros H. rewrite resolve_inputs_cons. unfold resolve_one. cbv zeta. rewrite H. reflexivity. Qed.

(* (ii) an existing regular file with a txtpp name is put in `files`, under its canonical path *)
Theorem resolve_input_source F base a files dirs :
  is_txtpp_file (lex_join base a) = true -> lex_is_file F (lex_join base a) = true ->
  resolve_inputs F base [a] files dirs = Some (files ++ [lex_normalize (lex_join base a)], dirs).
Proof.
  intros Tx Lf. rewrite resolve_inputs_cons. unfold resolve_one. cbv zeta.
  rewrite (lex_is_file_not_dir _ _ Lf), Tx, Lf. reflexivity.
Qed.

(* (iii) a name that is not a txtpp name (an OUTPUT name) and not a directory selects the source that
   `get_txtpp_file` finds; nothing is asked about the existence of the output itself *)
Theorem resolve_input_output F base a x files dirs :
  lex_is_dir F (lex_join base a) = false -> is_txtpp_file (lex_join base a) = false ->
  get_txtpp_file F (lex_join base a) = Some x ->
  resolve_inputs F base [a] files dirs = Some (files ++ [lex_normalize x], dirs).
Proof.
  intros Ld Tx G. rewrite resolve_inputs_cons. unfold resolve_one. cbv zeta. rewrite Ld, Tx, G. reflexivity.
Qed.

(* ... and `get_txtpp_file` returns the FIRST candidate, in the order of `txtpp_candidates`, that is a regular file *)
Lemma find_first {A} (k : A -> bool) l x :
  find k l = Some x <-> exists l1 l2, l = l1 ++ x :: l2 /\ k x = true /\ Forall (fun y => k y = false) l1.
Proof.
  induction l as [|y l IH]; cbn [find].
  - split; [discriminate|]. intros (l1 & l2 & E & _). destruct l1; discriminate.
  - destruct (k y) eqn:Ky.
    + split.
      * intros H. inversion H; subst y. exists [], l. split; [reflexivity|]. split; [exact Ky|constructor].
      * intros (l1 & l2 & E & Kx & Hall). destruct l1 as [|z l1].
        -- cbn in E. inversion E; subst. reflexivity.
        -- cbn in E. inversion E; subst z. inversion Hall; subst. congruence.
    + rewrite IH. split.
      * intros (l1 & l2 & -> & Kx & Hall). exists (y :: l1), l2. split; [reflexivity|]. split; [exact Kx|].
        constructor; assumption.
      * intros (l1 & l2 & E & Kx & Hall). destruct l1 as [|z l1].
        -- cbn in E. inversion E; subst. congruence.
        -- cbn in E. inversion E; subst z. inversion Hall; subst. exists l1, l2. split; [reflexivity|]. split; assumption.
Qed.
Lemma find_none_iff {A} (k : A -> bool) l : find k l = None <-> Forall (fun y => k y = false) l.
Proof.
  induction l as [|y l IH]; cbn [find]; [split; [constructor|reflexivity]|].
  destruct (k y) eqn:Ky.
  - split; [discriminate|]. intros H. inversion H; subst. congruence.
  - rewrite IH. split; [intros H; constructor; assumption|intros H; inversion H; assumption].
Qed.

Theorem get_txtpp_file_first F p x :
  get_txtpp_file F p = Some x <->
  exists l1 l2, txtpp_candidates p = l1 ++ x :: l2 /\ lex_is_file F x = true /\
                Forall (fun y => lex_is_file F y = false) l1.
Proof. unfold get_txtpp_file. apply find_first. Qed.
Theorem get_txtpp_file_none F p :
  get_txtpp_file F p = None <-> Forall (fun y => lex_is_file F y = false) (txtpp_candidates p).
Proof. unfold get_txtpp_file. apply find_none_iff. Qed.

(* the README shapes.  For an output name `foo.ext` the candidates are `foo.ext.txtpp` then `foo.txtpp.ext`;
   for a name without extension `foo` the only candidate is `foo.txtpp` (PathFacts.candidates_shapes / _noext). *)
Lemma plain_name_not_txtpp dir foo ext :
  foo <> [] -> ~ In DOT foo -> ext <> [] -> ~ In DOT ext -> ext <> TXTPP_EXT ->
  is_txtpp_file (dir ++ [foo ++ DOT :: ext]) = false.
Proof.
  intros Hf Hfd He Hed Hne.
  assert (Hn : foo ++ DOT :: ext <> dotdot).
  { apply len_ne_dotdot. rewrite app_length. destruct foo; [contradiction|]. destruct ext; [contradiction|]. simpl. lia. }
  destruct (is_txtpp_file (dir ++ [foo ++ DOT :: ext])) eqn:T; [|reflexivity]. exfalso.
  apply (is_txtpp_spec dir _ (proj2 (is_normal_true _) Hn)) in T.
  destruct T as [(stem & Hs & E)|(stem & e & Hs & He' & E)].
  - destruct (last_split_unique foo ext stem TXTPP_EXT E Hed nodot_txtpp) as [_ E2]. contradiction.
  - rewrite app_dot_assoc in E.
    destruct (last_split_unique foo ext (stem ++ DOT :: TXTPP_EXT) e E Hed He') as [E1 _].
    apply Hfd. rewrite E1. apply in_or_app. right. left. reflexivity.
Qed.
Lemma noext_name_not_txtpp dir foo : ~ In DOT foo -> is_txtpp_file (dir ++ [foo]) = false.
Proof.
  intros Hfd. rewrite is_txtpp_file_snoc. unfold is_txtpp_name. rewrite split_ext_nodot by exact Hfd. reflexivity.
Qed.

(* `foo.ext` <- `foo.ext.txtpp` when that file exists ... *)
Theorem resolve_output_ext_first F base a dir foo ext files dirs :
  lex_join base a = dir ++ [foo ++ DOT :: ext] ->
  foo <> [] -> ~ In DOT foo -> ext <> [] -> ~ In DOT ext -> ext <> TXTPP_EXT ->
  lex_is_dir F (dir ++ [foo ++ DOT :: ext]) = false ->
  lex_is_file F (dir ++ [foo ++ DOT :: ext ++ DOT :: TXTPP_EXT]) = true ->
  resolve_inputs F base [a] files dirs =
    Some (files ++ [lex_normalize (dir ++ [foo ++ DOT :: ext ++ DOT :: TXTPP_EXT])], dirs).
Proof.
  intros Ej Hf Hfd He Hed Hne Ld L1.
  pose proof (plain_name_not_txtpp dir foo ext Hf Hfd He Hed Hne) as Tx.
  apply resolve_input_output; rewrite Ej; [exact Ld|exact Tx|].
  unfold get_txtpp_file. rewrite (candidates_shapes dir foo ext Hf Hfd He Hed Hne (or_intror I) Tx).
  cbn [find]. rewrite L1. reflexivity.
Qed.
(* ... otherwise <- `foo.txtpp.ext` when that one exists *)
Theorem resolve_output_ext_second F base a dir foo ext files dirs :
  lex_join base a = dir ++ [foo ++ DOT :: ext] ->
  foo <> [] -> ~ In DOT foo -> ext <> [] -> ~ In DOT ext -> ext <> TXTPP_EXT ->
  lex_is_dir F (dir ++ [foo ++ DOT :: ext]) = false ->
  lex_is_file F (dir ++ [foo ++ DOT :: ext ++ DOT :: TXTPP_EXT]) = false ->
  lex_is_file F (dir ++ [foo ++ DOT :: TXTPP_EXT ++ DOT :: ext]) = true ->
  resolve_inputs F base [a] files dirs =
    Some (files ++ [lex_normalize (dir ++ [foo ++ DOT :: TXTPP_EXT ++ DOT :: ext])], dirs).
Proof.
  intros Ej Hf Hfd He Hed Hne Ld L1 L2.
  pose proof (plain_name_not_txtpp dir foo ext Hf Hfd He Hed Hne) as Tx.
  apply resolve_input_output; rewrite Ej; [exact Ld|exact Tx|].
  unfold get_txtpp_file. rewrite (candidates_shapes dir foo ext Hf Hfd He Hed Hne (or_intror I) Tx).
  cbn [find]. rewrite L1, L2. reflexivity.
Qed.
(* `foo` (no extension) <- `foo.txtpp` *)
Theorem resolve_output_noext F base a dir foo files dirs :
  lex_join base a = dir ++ [foo] -> foo <> [] -> ~ In DOT foo ->
  lex_is_dir F (dir ++ [foo]) = false ->
  lex_is_file F (dir ++ [foo ++ DOT :: TXTPP_EXT]) = true ->
  resolve_inputs F base [a] files dirs = Some (files ++ [lex_normalize (dir ++ [foo ++ DOT :: TXTPP_EXT])], dirs).
Proof.
  intros Ej Hf Hfd Ld L1.
  apply resolve_input_output; rewrite Ej; [exact Ld|apply noext_name_not_txtpp; exact Hfd|].
  unfold get_txtpp_file.
  etransitivity; [exact (f_equal (find (lex_is_file F)) (candidates_shape_noext dir foo Hf Hfd))|].
  cbn [find]. match goal with |- (if ?c then _ else _) = _ => replace c with true by (symmetry; exact L1) end.
  reflexivity.
Qed.

(* (iv) otherwise — and only otherwise — the resolution fails *)
Theorem resolve_one_none_iff F base a :
  resolve_one F base a = None <->
  lex_is_dir F (lex_join base a) = false /\
  (if is_txtpp_file (lex_join base a) then lex_is_file F (lex_join base a) = false
   else Forall (fun c => lex_is_file F c = false) (txtpp_candidates (lex_join base a))).
Proof.
  unfold resolve_one. cbv zeta. set (ip := lex_join base a).
  destruct (lex_is_dir F ip); [split; [discriminate|intros [H _]; discriminate]|].
  destruct (is_txtpp_file ip).
  - destruct (lex_is_file F ip); split; try discriminate; auto. intros [_ H]. discriminate.
  - rewrite <- get_txtpp_file_none. destruct (get_txtpp_file F ip); split; try discriminate; auto.
    intros [_ H]. discriminate.
Qed.
Theorem resolve_input_fails_iff F base a files dirs :
  resolve_inputs F base [a] files dirs = None <->
  lex_is_dir F (lex_join base a) = false /\
  (if is_txtpp_file (lex_join base a) then lex_is_file F (lex_join base a) = false
   else Forall (fun c => lex_is_file F c = false) (txtpp_candidates (lex_join base a))).
Proof.
  rewrite <- resolve_one_none_iff, resolve_inputs_cons.
  destruct (resolve_one F base a) as [[q|d]|]; cbn [resolve_inputs]; split; try discriminate; auto.
Qed.

(* ---- the list version ---- *)
Definition lefts {A B} (l : list (A + B)) : list A := flat_map (fun x => match x with inl a => [a] | inr _ => [] end) l.
Definition rights {A B} (l : list (A + B)) : list B := flat_map (fun x => match x with inl _ => [] | inr b => [b] end) l.

Theorem resolve_inputs_spec F base inputs : forall files dirs files' dirs',
  resolve_inputs F base inputs files dirs = Some (files', dirs') <->
  exists rs, Forall2 (fun a r => resolve_one F base a = Some r) inputs rs /\
             files' = files ++ lefts rs /\ dirs' = dirs ++ rights rs.
Proof.
  induction inputs as [|a r IH]; intros files dirs files' dirs'.
  - cbn [resolve_inputs]. split.
    + intros H. inversion H; subst. exists []. split; [constructor|]. cbn. rewrite !app_nil_r. split; reflexivity.
    + intros (rs & H2 & -> & ->). inversion H2; subst. cbn. rewrite !app_nil_r. reflexivity.
  - rewrite resolve_inputs_cons. destruct (resolve_one F base a) as [[q|d]|] eqn:E.
    + rewrite IH. split.
      * intros (rs & H2 & -> & ->). exists (inl q :: rs). split; [constructor; assumption|].
        cbn. rewrite <- !app_assoc. split; reflexivity.
      * intros (rs & H2 & -> & ->). inversion H2 as [|a0 y l l' Hy Hl]; subst. rewrite E in Hy. inversion Hy; subst y.
        exists l'. split; [exact Hl|]. cbn. rewrite <- !app_assoc. split; reflexivity.
    + rewrite IH. split.
      * intros (rs & H2 & -> & ->). exists (inr d :: rs). split; [constructor; assumption|].
        cbn. rewrite <- !app_assoc. split; reflexivity.
      * intros (rs & H2 & -> & ->). inversion H2 as [|a0 y l l' Hy Hl]; subst. rewrite E in Hy. inversion Hy; subst y.
        exists l'. split; [exact Hl|]. cbn. rewrite <- !app_assoc. split; reflexivity.
    + split; [discriminate|]. intros (rs & H2 & _). inversion H2; subst. congruence.
Qed.

(* the resolution of a list fails iff the resolution of one of its elements does *)
Theorem resolve_inputs_none_iff F base inputs : forall files dirs,
  resolve_inputs F base inputs files dirs = None <-> exists a, In a inputs /\ resolve_one F base a = None.
Proof.
  induction inputs as [|a r IH]; intros files dirs.
  - cbn [resolve_inputs]. split; [discriminate|]. intros (a & [] & _).
  - rewrite resolve_inputs_cons. destruct (resolve_one F base a) as [[q|d]|] eqn:E.
    + rewrite IH. split; [intros (b & Hb & Eb); exists b; split; [right; exact Hb|exact Eb]|].
      intros (b & [<-|Hb] & Eb); [congruence|]. exists b. split; assumption.
    + rewrite IH. split; [intros (b & Hb & Eb); exists b; split; [right; exact Hb|exact Eb]|].
      intros (b & [<-|Hb] & Eb); [congruence|]. exists b. split; assumption.
    + split; [|reflexivity]. intros _. exists a. split; [left; reflexivity|exact E].
Qed.

(* what is selected, in set form: the files are the `inl` answers, the directories the `inr` answers *)
Corollary resolve_inputs_members F base inputs files dirs :
  resolve_inputs F base inputs [] [] = Some (files, dirs) ->
  (forall q, In q files <-> exists a, In a inputs /\ resolve_one F base a = Some (inl q)) /\
  (forall d, In d dirs <-> exists a, In a inputs /\ resolve_one F base a = Some (inr d)).
Proof.
  intros H. apply resolve_inputs_spec in H. destruct H as (rs & H2 & -> & ->). cbn [app].
  induction H2 as [|a r l l' Hr _ IH]; [split; intros x; (split; [intros []|intros (a & [] & _)])|].
  destruct IH as [IH1 IH2]. split; intros x.
  - unfold lefts. cbn [flat_map]. rewrite in_app_iff. fold (lefts l'). rewrite IH1. split.
    + intros [H|(b & Hb & Eb)].
      * destruct r as [q|d]; [|destruct H]. destruct H as [<-|[]]. exists a. split; [left; reflexivity|exact Hr].
      * exists b. split; [right; exact Hb|exact Eb].
    + intros (b & [<-|Hb] & Eb).
      * left. rewrite Hr in Eb. inversion Eb; subst r. left. reflexivity.
      * right. exists b. split; assumption.
  - unfold rights. cbn [flat_map]. rewrite in_app_iff. fold (rights l'). rewrite IH2. split.
    + intros [H|(b & Hb & Eb)].
      * destruct r as [q|d]; [destruct H|]. destruct H as [<-|[]]. exists a. split; [left; reflexivity|exact Hr].
      * exists b. split; [right; exact Hb|exact Eb].
    + intros (b & [<-|Hb] & Eb).
      * left. rewrite Hr in Eb. inversion Eb; subst r. left. reflexivity.
      * right. exists b. split; assumption.
Qed.

(* ---- what is selected exists and is of the right kind ---- *)
Theorem resolve_one_dir_is_dir F base a d : resolve_one F base a = Some (inr d) -> is_dir F d = true.
Proof.
  unfold resolve_one. cbv zeta. destruct (lex_is_dir F (lex_join base a)) eqn:Ld.
  - intros H. inversion H; subst d. apply lex_is_dir_is_dir. exact Ld.
  - destruct (is_txtpp_file (lex_join base a)).
    + destruct (lex_is_file F (lex_join base a)); discriminate.
    + destruct (get_txtpp_file F (lex_join base a)); discriminate.
Qed.
(* (the names of `base` are not empty: true of every path that exists in a tree with legal names) *)
Theorem resolve_one_file_is_source F base a q :
  Forall (fun c => c <> []) base ->
  resolve_one F base a = Some (inl q) -> is_file F q = true /\ is_txtpp_file q = true.
Proof.
  intros Hb. unfold resolve_one. cbv zeta. set (ip := lex_join base a).
  assert (Hne : forall dir n, ip = dir ++ [n] -> n <> []) by (apply lex_join_last_nonempty; exact Hb).
  assert (G : forall x, lex_is_file F x = true -> is_txtpp_file x = true ->
                        is_file F (lex_normalize x) = true /\ is_txtpp_file (lex_normalize x) = true).
  { intros x Lf Tx. pose proof (lex_is_file_is_file F x Lf) as Hf. split; [exact Hf|].
    destruct (resolved_file_shape F x _ (lex_is_file_resolve F x Lf) Hf) as (a0 & d0 & c & Ex & Eq & _).
    rewrite Eq. rewrite (is_txtpp_last d0 a0 c), <- Ex. exact Tx. }
  destruct (lex_is_dir F ip); [discriminate|].
  destruct (is_txtpp_file ip) eqn:Tx.
  - destruct (lex_is_file F ip) eqn:Lf; [|discriminate]. intros H. inversion H; subst q. apply G; assumption.
  - destruct (get_txtpp_file F ip) as [x|] eqn:Gx; [|discriminate]. intros H. inversion H; subst q.
    destruct (get_txtpp_file_is_file F ip x Gx) as [Hin Lf]. apply G; [exact Lf|].
    apply (candidate_is_file F ip x Hne Hin Lf).
Qed.

(* (iv), whole run: an argument that does not resolve fails the run before anything is started: VErr, the world is
   untouched (tree AND log), the trace is empty *)
Theorem unresolved_input_fails_run orc cfg fuel sched w base a :
  os_resolve (w_fs w) (cfg_base cfg) = Some base ->
  In a (cfg_inputs cfg) -> resolve_one (w_fs w) base a = None ->
  txtpp_run orc cfg fuel sched w = (VErr, w, [], c_init).
Proof.
  intros Eb Hin E. unfold txtpp_run. destruct (cfg_threads cfg =? 0); [reflexivity|]. rewrite Eb.
  rewrite (proj2 (resolve_inputs_none_iff (w_fs w) base (cfg_inputs cfg) [] [])); [reflexivity|].
  exists a. split; assumption.
Qed.

(* ---- duplicates ---- *)
(* The entry that an argument contributes is the NORMAL FORM of a lexical path: two spellings of the same file
   (same normal form of the chosen lexical path) contribute the same entry. *)
Theorem resolve_one_entry_normal F base a r :
  resolve_one F base a = Some r ->
  exists x, (r = inl (lex_normalize x) \/ r = inr (lex_normalize x)) /\
            (x = lex_join base a \/ In x (txtpp_candidates (lex_join base a))).
Proof.
  unfold resolve_one. cbv zeta. set (ip := lex_join base a).
  destruct (lex_is_dir F ip).
  - intros H. inversion H; subst r. exists ip. split; [right; reflexivity|left; reflexivity].
  - destruct (is_txtpp_file ip).
    + destruct (lex_is_file F ip); [|discriminate]. intros H. inversion H; subst r.
      exists ip. split; [left; reflexivity|left; reflexivity].
    + destruct (get_txtpp_file F ip) as [x|] eqn:G; [|discriminate]. intros H. inversion H; subst r.
      exists x. split; [left; reflexivity|right; apply (get_txtpp_file_is_file F ip x G)].
Qed.

(* `resolve_one` only looks at the joined lexical path *)
Lemma resolve_one_same_join F base a a' : lex_join base a = lex_join base a' -> resolve_one F base a = resolve_one F base a'.
Proof. intros E. unfold resolve_one. rewrite E. reflexivity. Qed.

(* `./x` and `x` are the same lexical path *)
Lemma lex_components_dot_slash s : lex_components (DOT :: SLASH :: s) = lex_components s.
Proof.
  unfold lex_components. cbn [split_on].
  replace (DOT =? SLASH) with false by reflexivity. replace (SLASH =? SLASH) with true by reflexivity.
  cbn [filter is_dot negb andb]. replace (DOT =? DOT) with true by reflexivity. reflexivity.
Qed.
Theorem lex_join_dot_slash base s : lex_join base (DOT :: SLASH :: s) = base ++ lex_components s.
Proof. unfold lex_join. cbn [is_absolute]. replace (DOT =? SLASH) with false by reflexivity. apply f_equal, lex_components_dot_slash. Qed.
Corollary resolve_one_dot_slash F base s :
  is_absolute s = false -> resolve_one F base (DOT :: SLASH :: s) = resolve_one F base s.
Proof.
  intros Ha. apply resolve_one_same_join. rewrite lex_join_dot_slash. unfold lex_join. rewrite Ha. reflexivity.
Qed.

(* `sub/../x` and `x` have the same normal form (the OS additionally requires `sub` to be a directory) *)
Theorem lex_normalize_updir p sub r : is_normal sub = true -> lex_normalize (p ++ sub :: dotdot :: r) = lex_normalize (p ++ r).
Proof.
  intros Hn. unfold lex_normalize. rewrite !lex_normalize_from_app.
  cbn [lex_normalize_from]. unfold is_normal in Hn. destruct (str_eqb sub dotdot); [discriminate|].
  replace (str_eqb dotdot dotdot) with true by reflexivity. rewrite removelast_last. reflexivity.
Qed.

(* by source name or by output name: when `n.txtpp` exists beside the (non-directory, non-txtpp) name `n`, the arguments
   `dir/n` and `dir/n.txtpp` select the same file *)
Theorem resolve_by_output_same_as_by_source F base a a' dir n :
  lex_join base a = dir ++ [n] -> lex_join base a' = dir ++ [n ++ DOT :: TXTPP_EXT] ->
  n <> [] -> is_normal n = true -> is_txtpp_file (dir ++ [n]) = false ->
  lex_is_dir F (dir ++ [n]) = false ->
  lex_is_file F (dir ++ [n ++ DOT :: TXTPP_EXT]) = true ->
  resolve_one F base a = Some (inl (lex_normalize (dir ++ [n ++ DOT :: TXTPP_EXT]))) /\
  resolve_one F base a' = Some (inl (lex_normalize (dir ++ [n ++ DOT :: TXTPP_EXT]))).
Proof.
  intros Ea Ea' Hne Hn Tx Ld Lf. unfold resolve_one. cbv zeta. rewrite Ea, Ea'. split.
  - rewrite Ld, Tx.
    assert (C : exists rest, txtpp_candidates (dir ++ [n]) = (dir ++ [n ++ DOT :: TXTPP_EXT]) :: rest).
    { rewrite is_txtpp_file_snoc in Tx. apply is_normal_true in Hn.
      destruct (split_ext n) as [s [e|]] eqn:E.
      - rewrite (txtpp_candidates_ext dir n s e E Tx). eexists. reflexivity.
      - rewrite (txtpp_candidates_noext dir n Hn); [eexists; reflexivity|rewrite E; reflexivity|exact Tx]. }
    destruct C as [rest C]. unfold get_txtpp_file. rewrite C. cbn [find]. rewrite Lf. reflexivity.
  - rewrite (lex_is_file_not_dir _ _ Lf), Lf.
    rewrite is_txtpp_file_snoc, (is_txtpp_name_last n Hne). reflexivity.
Qed.

(* Whatever the resolved lists contain, the coordinator starts exactly ONE task per distinct canonical path: the
   initial in-flight set has no duplicates, and consists of a first pass for every resolved file and a scan for
   every resolved directory.  (`exec_file` / `exec_dir` skip a path that was already seen: mod.rs:241-287.) *)
Lemma exec_file_first_spec s f :
  let s' := exec_file s f true in
  (forall t, In t (inflight s') <-> In t (inflight s) \/ (t = TPp f true /\ ~ In f (seen s))) /\
  (forall g, In g (seen s') <-> In g (seen s) \/ g = f) /\ seen_dirs s' = seen_dirs s /\ done s' = done s /\
  (total s' + length (inflight s) = total s + length (inflight s'))%nat.
Proof.
  cbv zeta. unfold exec_file. cbn [andb]. destruct (pmem f (seen s)) eqn:Pm.
  - apply pmem_In in Pm. split; [|split; [|split; [reflexivity|split; [reflexivity|lia]]]].
    + intros t. split; [auto|]. intros [H|[_ H]]; [exact H|contradiction].
    + intros g. split; [auto|]. intros [H| ->]; assumption.
  - apply pmem_nIn in Pm. cbn [inflight seen seen_dirs total done].
    split; [|split; [|split; [reflexivity|split; [reflexivity|rewrite app_length; cbn; lia]]]].
    + intros t. rewrite in_app_iff. cbn [In]. split.
      * intros [H|[H|[]]]; [left; exact H|right; split; [symmetry; exact H|exact Pm]].
      * intros [H|[-> _]]; [left; exact H|right; left; reflexivity].
    + intros g. cbn [In]. split; [intros [H|H]; [right; symmetry; exact H|left; exact H]|].
      intros [H| ->]; [right; exact H|left; reflexivity].
Qed.
Lemma exec_dir_spec s d :
  let s' := exec_dir s d in
  (forall t, In t (inflight s') <-> In t (inflight s) \/ (t = TScan d /\ ~ In d (seen_dirs s))) /\
  (forall g, In g (seen_dirs s') <-> In g (seen_dirs s) \/ g = d) /\ seen s' = seen s /\ done s' = done s /\
  (total s' + length (inflight s) = total s + length (inflight s'))%nat.
Proof.
  cbv zeta. unfold exec_dir. destruct (pmem d (seen_dirs s)) eqn:Pm.
  - apply pmem_In in Pm. split; [|split; [|split; [reflexivity|split; [reflexivity|lia]]]].
    + intros t. split; [auto|]. intros [H|[_ H]]; [exact H|contradiction].
    + intros g. split; [auto|]. intros [H| ->]; assumption.
  - apply pmem_nIn in Pm. cbn [inflight seen seen_dirs total done].
    split; [|split; [|split; [reflexivity|split; [reflexivity|rewrite app_length; cbn; lia]]]].
    + intros t. rewrite in_app_iff. cbn [In]. split.
      * intros [H|[H|[]]]; [left; exact H|right; split; [symmetry; exact H|exact Pm]].
      * intros [H|[-> _]]; [left; exact H|right; left; reflexivity].
    + intros g. cbn [In]. split; [intros [H|H]; [right; symmetry; exact H|left; exact H]|].
      intros [H| ->]; [right; exact H|left; reflexivity].
Qed.
Lemma fold_exec_file_spec fs : forall s,
  let s' := fold_left (fun s f => exec_file s f true) fs s in
  (forall t, In t (inflight s') <-> In t (inflight s) \/ exists f, t = TPp f true /\ In f fs /\ ~ In f (seen s)) /\
  (forall g, In g (seen s') <-> In g (seen s) \/ In g fs) /\ seen_dirs s' = seen_dirs s /\ done s' = done s /\
  (total s' + length (inflight s) = total s + length (inflight s'))%nat.
Proof.
  induction fs as [|f fs IH]; intros s; cbv zeta; cbn [fold_left].
  - split; [|split; [|split; [reflexivity|split; [reflexivity|lia]]]].
    + intros t. split; [auto|]. intros [H|(f & _ & Hf & _)]; [exact H|destruct Hf].
    + intros g. split; [auto|]. intros [H|[]]. exact H.
  - specialize (IH (exec_file s f true)). cbv zeta in IH. destruct IH as (I1 & I2 & I3 & I4 & I5).
    destruct (exec_file_first_spec s f) as (E1 & E2 & E3 & E4 & E5). cbv zeta in E1, E2, E3, E4, E5.
    split; [|split; [|split; [congruence|split; [congruence|lia]]]].
    + intros t. rewrite I1, E1. split.
      * intros [[H|[-> Hn]]|(g & -> & Hg & Hn)].
        -- left. exact H.
        -- right. exists f. split; [reflexivity|]. split; [left; reflexivity|exact Hn].
        -- right. exists g. split; [reflexivity|]. split; [right; exact Hg|]. intros H. apply Hn. apply E2. left. exact H.
      * intros [H|(g & -> & Hg & Hn)]; [left; left; exact H|].
        destruct (DepFacts.path_eq_dec g f) as [->|Hd]; [left; right; split; [reflexivity|exact Hn]|].
        destruct Hg as [Hg|Hg]; [congruence|]. right. exists g. split; [reflexivity|]. split; [exact Hg|].
        intros H. apply E2 in H. destruct H as [H|H]; [exact (Hn H)|exact (Hd H)].
    + intros g. rewrite I2, E2. cbn [In]. split.
      * intros [[H|H]|H]; [left; exact H|right; left; symmetry; exact H|right; right; exact H].
      * intros [H|[H|H]]; [left; left; exact H|left; right; symmetry; exact H|right; exact H].
Qed.
Lemma fold_exec_dir_spec ds : forall s,
  let s' := fold_left exec_dir ds s in
  (forall t, In t (inflight s') <-> In t (inflight s) \/ exists d, t = TScan d /\ In d ds /\ ~ In d (seen_dirs s)) /\
  (forall g, In g (seen_dirs s') <-> In g (seen_dirs s) \/ In g ds) /\ seen s' = seen s /\ done s' = done s /\
  (total s' + length (inflight s) = total s + length (inflight s'))%nat.
Proof.
  induction ds as [|d ds IH]; intros s; cbv zeta; cbn [fold_left].
  - split; [|split; [|split; [reflexivity|split; [reflexivity|lia]]]].
    + intros t. split; [auto|]. intros [H|(f & _ & Hf & _)]; [exact H|destruct Hf].
    + intros g. split; [auto|]. intros [H|[]]. exact H.
  - specialize (IH (exec_dir s d)). cbv zeta in IH. destruct IH as (I1 & I2 & I3 & I4 & I5).
    destruct (exec_dir_spec s d) as (E1 & E2 & E3 & E4 & E5). cbv zeta in E1, E2, E3, E4, E5.
    split; [|split; [|split; [congruence|split; [congruence|lia]]]].
    + intros t. rewrite I1, E1. split.
      * intros [[H|[-> Hn]]|(g & -> & Hg & Hn)].
        -- left. exact H.
        -- right. exists d. split; [reflexivity|]. split; [left; reflexivity|exact Hn].
        -- right. exists g. split; [reflexivity|]. split; [right; exact Hg|]. intros H. apply Hn. apply E2. left. exact H.
      * intros [H|(g & -> & Hg & Hn)]; [left; left; exact H|].
        destruct (DepFacts.path_eq_dec g d) as [->|Hd]; [left; right; split; [reflexivity|exact Hn]|].
        destruct Hg as [Hg|Hg]; [congruence|]. right. exists g. split; [reflexivity|]. split; [exact Hg|].
        intros H. apply E2 in H. destruct H as [H|H]; [exact (Hn H)|exact (Hd H)].
    + intros g. rewrite I2, E2. cbn [In]. split.
      * intros [[H|H]|H]; [left; exact H|right; left; symmetry; exact H|right; right; exact H].
      * intros [H|[H|H]]; [left; left; exact H|left; right; symmetry; exact H|right; exact H].
Qed.

Theorem initial_tasks_spec files dirs :
  let s := gs (ginit files dirs) in
  NoDup (inflight s) /\ NoDup (seen s) /\ NoDup (seen_dirs s) /\
  (forall t, In t (inflight s) <-> (exists f, t = TPp f true /\ In f files) \/ (exists d, t = TScan d /\ In d dirs)) /\
  (forall f, In f (seen s) <-> In f files) /\ (forall d, In d (seen_dirs s) <-> In d dirs) /\
  total s = length (inflight s) /\ done s = 0%nat.
Proof.
  cbv zeta. destruct (inv_reach files dirs _ (greach_init files dirs)) as [HP _].
  split; [apply (i_fl_nodup HP)|]. split; [apply (i_seen_nodup HP)|]. split; [apply (i_dirs_nodup HP)|].
  unfold ginit. cbn [gs].
  destruct (fold_exec_file_spec files c_init) as (A1 & A2 & A3 & A4 & A5). cbv zeta in A1, A2, A3, A4, A5.
  set (s1 := fold_left (fun s f => exec_file s f true) files c_init) in *.
  destruct (fold_exec_dir_spec dirs s1) as (B1 & B2 & B3 & B4 & B5). cbv zeta in B1, B2, B3, B4, B5.
  cbn [c_init inflight seen seen_dirs total done length] in *.
  split; [|split; [|split; [|split]]].
  - intros t. rewrite B1, A1. split.
    + intros [[[]|(f & -> & Hf & _)]|(d & -> & Hd & _)]; [left; exists f; auto|right; exists d; auto].
    + intros [(f & -> & Hf)|(d & -> & Hd)].
      * left. right. exists f. split; [reflexivity|]. split; [exact Hf|intros []].
      * right. exists d. split; [reflexivity|]. split; [exact Hd|]. rewrite A3. intros [].
  - intros f. rewrite B3, A2. split; [intros [[]|H]; exact H|auto].
  - intros d. rewrite B2, A3. split; [intros [[]|H]; exact H|auto].
  - lia.
  - rewrite B4, A4. reflexivity.
Qed.

(* ===================================================================================================================
   H2 — directory scans
   =================================================================================================================== *)
(* p is an entry directly in d: p = d/n *)
Definition direct_child (d p : path) : bool :=
  match rev p with _ :: rp => path_eqb (rev rp) d | [] => false end.
Definition is_file_node (nd : node) : bool := match nd with File _ => true | Dir => false end.
(* the regular files directly in d whose name is a txtpp name, and the directories directly in d, in storage order *)
Definition scan_files (F : fs) (d : path) : list path :=
  map fst (filter (fun e => direct_child d (fst e) && is_file_node (snd e) && is_txtpp_file (fst e)) F).
Definition scan_subdirs (F : fs) (d : path) : list path :=
  map fst (filter (fun e => direct_child d (fst e) && negb (is_file_node (snd e))) F).

Lemma direct_child_spec d p : direct_child d p = true <-> exists n, p = d ++ [n].
Proof.
  unfold direct_child. split.
  - destruct (rev p) as [|n rp] eqn:Er; [discriminate|]. intros H. apply SinkFacts.path_eqb_eq in H. subst d.
    exists n. apply rev_cons_eq. exact Er.
  - intros [n ->]. rewrite rev_unit, rev_involutive. apply SinkFacts.path_eqb_refl.
Qed.

(* the exact equation: no hypothesis on the tree *)
Theorem scan_dir_eq F d rec :
  scan_dir F d rec = if is_dir F d then Some (scan_files F d, if rec then scan_subdirs F d else []) else None.
Proof.
  unfold scan_dir. destruct (is_dir F d); [|reflexivity]. f_equal. f_equal.
  - unfold children, scan_files. rewrite flat_map_flat_map.
    induction F as [|[p nd] F IH]; [reflexivity|]. cbn [flat_map filter fst snd]. rewrite IH. clear IH.
    unfold direct_child. destruct (rev p) as [|n rp] eqn:Er; [reflexivity|].
    destruct (path_eqb (rev rp) d) eqn:Ed; [|reflexivity]. cbn [flat_map fst snd andb app].
    apply SinkFacts.path_eqb_eq in Ed. apply rev_cons_eq in Er. subst p d.
    rewrite (is_txtpp_last (rev rp) [] n). cbn [app].
    destruct nd as [c|]; cbn [is_file_node andb]; [|reflexivity].
    destruct (is_txtpp_file [n]); reflexivity.
  - unfold children, scan_subdirs. rewrite flat_map_flat_map. destruct rec.
    + induction F as [|[p nd] F IH]; [reflexivity|]. cbn [flat_map filter fst snd]. rewrite IH. clear IH.
      unfold direct_child. destruct (rev p) as [|n rp] eqn:Er; [reflexivity|].
      destruct (path_eqb (rev rp) d) eqn:Ed; [|reflexivity]. cbn [flat_map fst snd andb app].
      apply SinkFacts.path_eqb_eq in Ed. apply rev_cons_eq in Er. subst p d.
      destruct nd as [c|]; reflexivity.
    + induction F as [|[p nd] F IH]; [reflexivity|]. cbn [flat_map fst snd]. rewrite IH. clear IH.
      destruct (rev p) as [|n rp]; [reflexivity|]. destruct (path_eqb (rev rp) d); [|reflexivity].
      cbn [flat_map snd]. destruct nd; reflexivity.
Qed.

Corollary scan_dir_some_iff F d rec fs ds :
  scan_dir F d rec = Some (fs, ds) <->
  is_dir F d = true /\ fs = scan_files F d /\ ds = (if rec then scan_subdirs F d else []).
Proof.
  rewrite scan_dir_eq. destruct (is_dir F d); split.
  - intros H. inversion H; subst. auto.
  - intros (_ & -> & ->). reflexivity.
  - discriminate.
  - intros (H & _). discriminate.
Qed.
Corollary scan_dir_none_iff F d rec : scan_dir F d rec = None <-> is_dir F d = false.
Proof. rewrite scan_dir_eq. destruct (is_dir F d); split; try discriminate; reflexivity. Qed.

(* membership, in a tree without duplicate keys *)
Lemma in_map_fst_filter (k : path * node -> bool) F f :
  In f (map fst (filter k F)) <-> exists nd, In (f, nd) F /\ k (f, nd) = true.
Proof.
  rewrite in_map_iff. split.
  - intros ([p nd] & E & H). cbn [fst] in E. subst p. apply filter_In in H. exists nd. exact H.
  - intros (nd & H1 & H2). exists (f, nd). split; [reflexivity|]. apply filter_In. split; assumption.
Qed.
Lemma nodup_map_fst_filter (k : path * node -> bool) F : NoDup (map fst F) -> NoDup (map fst (filter k F)).
Proof.
  induction F as [|e F IH]; intros H; [constructor|]. cbn [map] in H. inversion H as [|? ? Hn H']; subst.
  cbn [filter]. destruct (k e); [|apply IH; exact H']. cbn [map]. constructor; [|apply IH; exact H'].
  intros Hin. apply Hn. apply in_map_iff in Hin. destruct Hin as (e' & E & He'). apply filter_In in He'.
  apply in_map_iff. exists e'. split; [exact E|apply He'].
Qed.

Lemma scan_files_spec F d f : NoDup (map fst F) ->
  (In f (scan_files F d) <-> exists n, f = d ++ [n] /\ is_file F f = true /\ is_txtpp_file f = true).
Proof.
  intros ND. unfold scan_files. rewrite in_map_fst_filter. cbn [fst snd]. split.
  - intros (nd & Hin & Hk). apply andb_prop in Hk. destruct Hk as [Hk Ht]. apply andb_prop in Hk. destruct Hk as [Hc Hf].
    apply direct_child_spec in Hc. destruct Hc as [n ->]. exists n. split; [reflexivity|]. split; [|exact Ht].
    unfold is_file. rewrite (in_nodup_fs_get F _ nd ND) by (try exact Hin; destruct d; discriminate).
    destruct nd; [reflexivity|discriminate].
  - intros (n & -> & Hf & Ht). destruct (is_file_get _ _ Hf) as [c G].
    exists (File c). split; [apply fs_get_in; [destruct d; discriminate|exact G]|].
    rewrite (proj2 (direct_child_spec d (d ++ [n]))) by (exists n; reflexivity). rewrite Ht. reflexivity.
Qed.
Lemma scan_subdirs_spec F d x : NoDup (map fst F) ->
  (In x (scan_subdirs F d) <-> exists n, x = d ++ [n] /\ is_dir F x = true).
Proof.
  intros ND. unfold scan_subdirs. rewrite in_map_fst_filter. cbn [fst snd]. split.
  - intros (nd & Hin & Hk). apply andb_prop in Hk. destruct Hk as [Hc Hf].
    apply direct_child_spec in Hc. destruct Hc as [n ->]. exists n. split; [reflexivity|].
    unfold is_dir. rewrite (in_nodup_fs_get F _ nd ND) by (try exact Hin; destruct d; discriminate).
    destruct nd; [discriminate|reflexivity].
  - intros (n & -> & Hd). exists Dir. split; [apply fs_get_in; [destruct d; discriminate|apply is_dir_get; exact Hd]|].
    rewrite (proj2 (direct_child_spec d (d ++ [n]))) by (exists n; reflexivity). reflexivity.
Qed.

(* H2, the README reading.  In a tree without duplicate keys: a scan fails iff d is not a directory; otherwise it
   returns exactly the regular files directly in d whose name is a txtpp name, and — iff the scan is recursive —
   exactly the directories directly in d; neither list has duplicates. *)
Theorem scan_dir_spec F d rec : NoDup (map fst F) ->
  (scan_dir F d rec = None <-> is_dir F d = false) /\
  (is_dir F d = true -> exists fs ds, scan_dir F d rec = Some (fs, ds)) /\
  forall fs ds, scan_dir F d rec = Some (fs, ds) ->
    is_dir F d = true /\
    (forall f, In f fs <-> exists n, f = d ++ [n] /\ is_file F f = true /\ is_txtpp_file f = true) /\
    (forall x, In x ds <-> rec = true /\ exists n, x = d ++ [n] /\ is_dir F x = true) /\
    NoDup fs /\ NoDup ds.
Proof.
  intros ND. split; [apply scan_dir_none_iff|]. split.
  - intros Hd. rewrite scan_dir_eq, Hd. eexists. eexists. reflexivity.
  - intros fs ds H. apply scan_dir_some_iff in H. destruct H as (Hd & -> & ->).
    split; [exact Hd|]. split; [intros f; apply scan_files_spec; exact ND|]. split; [|split].
    + intros x. destruct rec.
      * rewrite (scan_subdirs_spec F d x ND). split; [intros H; split; [reflexivity|exact H]|intros [_ H]; exact H].
      * split; [intros []|intros [H _]; discriminate].
    + apply nodup_map_fst_filter. exact ND.
    + destruct rec; [apply nodup_map_fst_filter; exact ND|constructor].
Qed.

(* the order is irrelevant: any duplicate-free enumeration of the same sets is a permutation of the answer *)
Corollary scan_dir_perm F d rec fs ds L M : NoDup (map fst F) ->
  scan_dir F d rec = Some (fs, ds) ->
  NoDup L -> (forall f, In f L <-> exists n, f = d ++ [n] /\ is_file F f = true /\ is_txtpp_file f = true) ->
  NoDup M -> (forall x, In x M <-> rec = true /\ exists n, x = d ++ [n] /\ is_dir F x = true) ->
  Permutation fs L /\ Permutation ds M.
Proof.
  intros ND H NL HL NM HM. destruct (scan_dir_spec F d rec ND) as (_ & _ & S).
  destruct (S fs ds H) as (_ & S1 & S2 & N1 & N2). split.
  - apply NoDup_Permutation; [exact N1|exact NL|]. intros f. rewrite S1, HL. reflexivity.
  - apply NoDup_Permutation; [exact N2|exact NM|]. intros x. rewrite S2, HM. reflexivity.
Qed.

(* a directory named like a source is a directory, never a source *)
Corollary scan_dir_dir_named_like_source F d rec fs ds n : NoDup (map fst F) ->
  scan_dir F d rec = Some (fs, ds) -> is_dir F (d ++ [n]) = true ->
  ~ In (d ++ [n]) fs /\ (rec = true -> In (d ++ [n]) ds).
Proof.
  intros ND H Hd. destruct (scan_dir_spec F d rec ND) as (_ & _ & S).
  destruct (S fs ds H) as (_ & S1 & S2 & _). split.
  - intros Hin. apply S1 in Hin. destruct Hin as (m & _ & Hf & _).
    unfold is_dir in Hd. unfold is_file in Hf. destruct (fs_get F (d ++ [n])) as [[c|]|]; discriminate.
  - intros Hr. apply S2. split; [exact Hr|]. exists n. split; [reflexivity|exact Hd].
Qed.

(* a non-recursive scan returns no directory *)
Corollary scan_dir_nonrec F d fs ds : scan_dir F d false = Some (fs, ds) -> ds = [].
Proof. intros H. apply scan_dir_some_iff in H. apply H. Qed.

(* ===================================================================================================================
   Non-vacuity (H1, H2) on the tree of ScheduleTempFacts PART 6:  d/ , d/a.txtpp (a temp directive, includes its temp
   file), d/b.txtpp (includes the output of a.txtpp)
   =================================================================================================================== *)
Definition h_d : str := [100].                                                           (* "d" *)
Definition h_a_src : str := [100; 47; 97; 46; 116; 120; 116; 112; 112].                   (* "d/a.txtpp" *)
Definition h_a_out : str := [100; 47; 97].                                                (* "d/a" *)
Definition h_a_dot : str := [46; 47; 100; 47; 97].                                        (* "./d/a" *)
Definition h_a_up : str := [100; 47; 46; 46; 47; 100; 47; 97; 46; 116; 120; 116; 112; 112].  (* "d/../d/a.txtpp" *)
Definition h_b_src : str := [100; 47; 98; 46; 116; 120; 116; 112; 112].                   (* "d/b.txtpp" *)
Definition h_b_out : str := [100; 47; 98].                                                (* "d/b" *)
Definition h_nope : str := [100; 47; 110; 111; 112; 101].                                 (* "d/nope" *)
Definition h_t : str := [100; 47; 116].                                                   (* "d/t" (the temp file of a) *)
(* the tree after a build: d/a, d/b, d/t exist *)
Definition h_built : world := world_of (txtpp_run cx_orc t_cfg 9 [0; 1; 0; 0]%nat t_w).

(* H1: the four clauses and the duplicates, on the clean tree and on the built tree (the outputs exist) *)
Example resolve_one_examples :
  resolve_one t_fs [] h_d = Some (inr [[100]]) /\                      (* (i)   a directory *)
  resolve_one t_fs [] h_a_src = Some (inl t_a) /\                      (* (ii)  a source, by its own name *)
  resolve_one t_fs [] h_a_out = Some (inl t_a) /\                      (* (iii) by the name of its output, which does NOT exist *)
  fs_get t_fs t_aout = None /\
  resolve_one (w_fs h_built) [] h_a_out = Some (inl t_a) /\            (* (iii) ... and when the output exists *)
  (exists c, fs_get (w_fs h_built) t_aout = Some (File c)) /\
  resolve_one t_fs [] h_a_dot = Some (inl t_a) /\                      (* `./d/a` *)
  resolve_one t_fs [] h_a_up = Some (inl t_a) /\                       (* `d/../d/a.txtpp` *)
  resolve_one t_fs [] h_nope = None /\                                 (* (iv) nothing of that name, no candidate *)
  resolve_one (w_fs h_built) [] h_t = None /\                          (* (iv) an existing plain file without source *)
  (exists c, fs_get (w_fs h_built) t_t = Some (File c)).
Proof.
  repeat (split; [vm_compute; reflexivity|]).
  split; [vm_compute; eexists; reflexivity|].
  repeat (split; [vm_compute; reflexivity|]).
  vm_compute. eexists. reflexivity.
Qed.

(* (iii), the order of the candidates: `x.md` <- `x.md.txtpp` first, then `x.txtpp.md` *)
Definition h_x_md : str := [120; 46; 109; 100].
Definition h_x_md_txtpp : name := [120; 46; 109; 100; 46; 116; 120; 116; 112; 112].
Definition h_x_txtpp_md : name := [120; 46; 116; 120; 116; 112; 112; 46; 109; 100].
Example candidates_order :
  resolve_inputs [([h_x_md_txtpp], File []); ([h_x_txtpp_md], File [])] [] [h_x_md] [] [] = Some ([[h_x_md_txtpp]], []) /\
  resolve_inputs [([h_x_txtpp_md], File [])] [] [h_x_md] [] [] = Some ([[h_x_txtpp_md]], []) /\
  resolve_inputs [([h_x_md], File [])] [] [h_x_md] [] [] = None.
Proof.
  split; [|split].
  - apply (resolve_output_ext_first _ [] h_x_md [] [120] [109; 100]); try reflexivity; try discriminate;
      cbn; intuition discriminate.
  - apply (resolve_output_ext_second _ [] h_x_md [] [120] [109; 100]); try reflexivity; try discriminate;
      cbn; intuition discriminate.
  - apply resolve_input_fails_iff. split; [reflexivity|]. vm_compute. repeat constructor.
Qed.

(* duplicates: four spellings of d/a.txtpp and the directory d, twice: ONE first pass and ONE scan are started *)
Example duplicates_one_task :
  resolve_inputs t_fs [] [h_a_src; h_a_out; h_d; h_a_dot; h_a_up; h_d] [] [] = Some ([t_a; t_a; t_a; t_a], [[[100]]; [[100]]]) /\
  inflight (gs (ginit [t_a; t_a; t_a; t_a] [[[100]]; [[100]]])) = [TPp t_a true; TScan [[100]]] /\
  (* a whole run (two sources, b depends on a, a has a temp directive) where every source is named several times and
     is also found by the scan: each source gets its passes once *)
  let cfg := mkCfg [] [h_b_src; h_b_out; h_a_dot; h_d; h_a_up] true 1 Build false in
  let x := txtpp_run cx_orc cfg 20 [] t_w in
  verdict_of x = VOk /\
  map fst (trace_of x) = [TScan [[100]]; TPp t_a true; TPp t_b true; TPp t_b false].
Proof.
  split; [vm_compute; reflexivity|]. split; [vm_compute; reflexivity|]. cbv zeta.
  split; vm_compute; reflexivity.
Qed.

(* (iv), whole run: `txtpp d d/nope` fails before anything is started *)
Example unresolved_input_fails_run_example :
  forall orc fuel sched,
  txtpp_run orc (mkCfg [] [h_d; h_nope] true 1 Build false) fuel sched t_w = (VErr, t_w, [], c_init).
Proof.
  intros orc fuel sched. apply (unresolved_input_fails_run orc _ fuel sched t_w [] h_nope).
  - reflexivity.
  - right. left. reflexivity.
  - vm_compute. reflexivity.
Qed.

(* H2: a scan of d finds the two sources; a DIRECTORY d/sub.txtpp named like a source is returned as a directory (only
   by a recursive scan), never as a source; what is inside it is not returned by the scan of d *)
Definition h_sub : name := [115; 117; 98; 46; 116; 120; 116; 112; 112].           (* sub.txtpp *)
Definition h_c : name := [99; 46; 116; 120; 116; 112; 112].                        (* c.txtpp *)
Definition h_fs2 : fs := t_fs ++ [([[100]; h_sub], Dir); ([[100]; h_sub; h_c], File [122; 10]); ([[100]; [110]], File [122; 10])].
Example scan_dir_examples :
  NoDup (map fst h_fs2) /\
  is_txtpp_file [[100]; h_sub] = true /\
  scan_dir h_fs2 [[100]] true = Some ([t_a; t_b], [[[100]; h_sub]]) /\
  scan_dir h_fs2 [[100]] false = Some ([t_a; t_b], []) /\
  scan_dir h_fs2 [[100]; h_sub] true = Some ([[[100]; h_sub; h_c]], []) /\
  scan_dir h_fs2 t_a true = None /\                                       (* a regular file is not scanned *)
  ~ In [[100]; h_sub] (fst (match scan_dir h_fs2 [[100]] true with Some x => x | None => ([], []) end)).
Proof.
  assert (ND : NoDup (map fst h_fs2)) by (vm_compute; repeat constructor; cbn; intuition discriminate).
  split; [exact ND|]. repeat (split; [vm_compute; reflexivity|]).
  destruct (scan_dir h_fs2 [[100]] true) as [[fs ds]|] eqn:E; [|intros []].
  apply (scan_dir_dir_named_like_source h_fs2 [[100]] true fs ds h_sub ND E). reflexivity.
Qed.

Print Assumptions resolve_inputs_cons.
Print Assumptions resolve_input_directory.
Print Assumptions resolve_input_source.
Print Assumptions resolve_input_output.
Print Assumptions get_txtpp_file_first.
Print Assumptions resolve_output_ext_first.
Print Assumptions resolve_output_ext_second.
Print Assumptions resolve_output_noext.
Print Assumptions resolve_input_fails_iff.
Print Assumptions resolve_inputs_spec.
Print Assumptions resolve_inputs_none_iff.
Print Assumptions resolve_inputs_members.
Print Assumptions resolve_one_dir_is_dir.
Print Assumptions resolve_one_file_is_source.
Print Assumptions unresolved_input_fails_run.
Print Assumptions resolve_one_entry_normal.
Print Assumptions resolve_one_dot_slash.
Print Assumptions lex_normalize_updir.
Print Assumptions resolve_by_output_same_as_by_source.
Print Assumptions initial_tasks_spec.
Print Assumptions scan_dir_eq.
Print Assumptions scan_dir_spec.
Print Assumptions scan_dir_perm.
Print Assumptions scan_dir_dir_named_like_source.
Print Assumptions resolve_one_examples.
Print Assumptions candidates_order.
Print Assumptions duplicates_one_task.
Print Assumptions unresolved_input_fails_run_example.
Print Assumptions scan_dir_examples.
