(* SelectFacts.v — task H, part 2 (properties C11 and C10 for WHOLE runs): exactly the requested sources are processed;
   a Clean run touches only their files.  (Part 1, SelectFacts1.v: input resolution and directory scans.)
   Everything below is proved (nothing assumed); `Print Assumptions` of the theorems and examples is closed.

   PART A  `selected F rec files dirs deps`: the README description of what a run processes, as an inductive set: the
           resolved input files, the txtpp files found by scanning the resolved input directories (`scanned_dir`:
           recursively iff the flag is set: `scanned_dir_nonrec`, `scanned_dir_rec_spec`), closed under the static
           dependencies; `selected_run cfg w` instantiates it with the resolved inputs of the configuration and `sdeps w`.
           `cleaned_selected` (what Clean processes is selected), `selected_without_deps` (no dependencies: the two sets
           coincide), `selected_run_reached` (selected => IdemFacts.reached, no hypothesis).
   PART B  H3 `processed_set_spec`: in a VOk run in any mode but Clean, processed = selected_run (= reached).
   PART C  H3 `clean_processed_set_spec`: in ANY Clean run processed ⊆ cleaned; in a VOk Clean run processed = cleaned.
   PART D  H4 `clean_touches_only_selected` (+ `clean_spares_unselected`): every event of a Clean run is the removal of
           an output / temp target of a `cleaned` file; every other path keeps its node.
   PART E  non-vacuity on the tree of ScheduleTempFacts PART 6. *)
Require Import Txtpp.Str Txtpp.Consts Txtpp.Grammar Txtpp.Tags Txtpp.Path Txtpp.Fs Txtpp.Sink Txtpp.Pp Txtpp.Spec.
Require Import Txtpp.Dep Txtpp.Coord Txtpp.Run.
Require Import Txtpp.proofs.StrFacts Txtpp.proofs.SinkFacts Txtpp.proofs.PathFacts Txtpp.proofs.PpFacts Txtpp.proofs.EventFacts.
Require Import Txtpp.proofs.FrameFacts Txtpp.proofs.ConfluenceFacts Txtpp.proofs.DepFacts Txtpp.proofs.CoordFacts Txtpp.proofs.RunFacts.
Require Import Txtpp.proofs.ScheduleFacts Txtpp.proofs.RunEventsFacts Txtpp.proofs.ScheduleTempFacts Txtpp.proofs.CleanVerifyFacts.
Require Import Txtpp.proofs.CleanRunFacts Txtpp.proofs.IdemFacts Txtpp.proofs.OnceFacts Txtpp.proofs.CycleFacts Txtpp.proofs.FailFacts.
Require Import Txtpp.proofs.SelectFacts1.
From Coq Require Import Lia Permutation.

Local Open Scope bool_scope.

(* ===================================================================================================================
   PART A — the selected sources, as an inductive set
   =================================================================================================================== *)
Section Selected.
Variable F : fs.
Variable rec : bool.
Variables files dirs : list path.
Variable deps : path -> list path.

(* f is selected: it is a resolved input file, or a txtpp file directly in a scanned directory (CleanRunFacts.scanned_dir:
   a resolved input directory or, when the scans are recursive, a sub-directory of a scanned directory), or a
   dependency of a selected file *)
Inductive selected : path -> Prop :=
| sel_input f : In f files -> selected f
| sel_scan d fs ds f : scanned_dir F rec dirs d -> scan_dir F d rec = Some (fs, ds) -> In f fs -> selected f
| sel_dep f q : selected f -> In q (deps f) -> selected q.

(* without the third clause this is `cleaned_file` *)
Lemma cleaned_file_selected f : cleaned_file F rec files dirs f -> selected f.
Proof.
  intros [H|(d & fs & ds & Hd & Hs & Hin)]; [apply sel_input; exact H|apply (sel_scan d fs ds f); assumption].
Qed.

(* it is the LEAST set with these closure properties *)
Lemma selected_least (S Dd : list path) :
  incl files S -> incl dirs Dd -> scan_closed F rec S Dd -> (forall f, In f S -> incl (deps f) S) ->
  forall f, selected f -> In f S.
Proof.
  intros Hf Hd Hc Hdep f H. induction H as [f Hin|d fs ds f Hsd Hs Hin|f q _ IH Hq].
  - apply Hf. exact Hin.
  - apply (proj1 (Hc d fs ds (scanned_least F rec dirs S Dd Hd Hc d Hsd) Hs)). exact Hin.
  - apply (Hdep f IH). exact Hq.
Qed.

(* the scanned directories, in README terms *)
Lemma scanned_dir_nonrec d : rec = false -> (scanned_dir F rec dirs d <-> In d dirs).
Proof.
  intros Hr. split; [|apply sd_input].
  intros H. induction H as [d Hin|d fs ds d' _ _ Hs Hin]; [exact Hin|].
  subst rec. rewrite (scan_dir_nonrec F d fs ds Hs) in Hin. destruct Hin.
Qed.

Lemma scanned_dir_rec_spec d : rec = true -> NoDup (map fst F) -> (forall d0, In d0 dirs -> is_dir F d0 = true) ->
  (scanned_dir F rec dirs d <->
   exists d0 rest, In d0 dirs /\ d = d0 ++ rest /\ forall k, (k <= length rest)%nat -> is_dir F (d0 ++ firstn k rest) = true).
Proof.
  intros Hr ND Hdirs. subst rec. split.
  - intros H. induction H as [d Hin|d fs ds d' _ IH Hs Hin].
    + exists d, []. split; [exact Hin|]. split; [rewrite app_nil_r; reflexivity|].
      intros k _. rewrite firstn_nil, app_nil_r. apply Hdirs. exact Hin.
    + destruct IH as (d0 & rest & Hd0 & -> & Hpre).
      destruct (scan_dir_spec F (d0 ++ rest) true ND) as (_ & _ & S). destruct (S fs ds Hs) as (_ & _ & S2 & _).
      apply S2 in Hin. destruct Hin as (_ & n & -> & Hdn).
      exists d0, (rest ++ [n]). split; [exact Hd0|]. split; [rewrite app_assoc; reflexivity|].
      intros k Hk. rewrite app_length in Hk. cbn in Hk.
      destruct (Nat.le_gt_cases k (length rest)) as [Hle|Hgt].
      * rewrite firstn_app. replace (k - length rest)%nat with 0%nat by lia. rewrite firstn_O, app_nil_r.
        apply Hpre. exact Hle.
      * replace k with (length (rest ++ [n])) by (rewrite app_length; cbn; lia). rewrite firstn_all.
        rewrite app_assoc. exact Hdn.
  - intros (d0 & rest & Hd0 & -> & Hpre). revert Hpre. induction rest as [|n rest IH] using rev_ind; intros Hpre.
    + rewrite app_nil_r. apply sd_input. exact Hd0.
    + assert (Hd : scanned_dir F true dirs (d0 ++ rest)).
      { apply IH. intros k Hk. specialize (Hpre k). rewrite app_length in Hpre. cbn in Hpre.
        rewrite firstn_app in Hpre. replace (k - length rest)%nat with 0%nat in Hpre by lia.
        rewrite firstn_O, app_nil_r in Hpre. apply Hpre. lia. }
      assert (Hdd : is_dir F (d0 ++ rest) = true).
      { specialize (Hpre (length rest)). rewrite firstn_app, firstn_all, Nat.sub_diag, firstn_O, app_nil_r in Hpre.
        apply Hpre. rewrite app_length. lia. }
      assert (Hdn : is_dir F ((d0 ++ rest) ++ [n]) = true).
      { specialize (Hpre (length (rest ++ [n])) (Nat.le_refl _)). rewrite firstn_all in Hpre.
        rewrite <- app_assoc. exact Hpre. }
      destruct (scan_dir_spec F (d0 ++ rest) true ND) as (_ & Hex & S). destruct (Hex Hdd) as (fs & ds & Hs).
      destruct (S fs ds Hs) as (_ & _ & S2 & _).
      rewrite app_assoc. apply (sd_sub F true dirs (d0 ++ rest) fs ds); [exact Hd|exact Hs|].
      apply S2. split; [reflexivity|]. exists n. split; [reflexivity|exact Hdn].
Qed.
End Selected.

(* when no file has a dependency the selected files are the cleaned files *)
Lemma selected_without_deps F rec files dirs f :
  selected F rec files dirs (fun _ => []) f <-> cleaned_file F rec files dirs f.
Proof.
  split; [|apply cleaned_file_selected].
  intros H. induction H as [f Hin|d fs ds f Hsd Hs Hin|f q _ _ []].
  - left. exact Hin.
  - right. exists d, fs, ds. auto.
Qed.

(* `selected_run cfg w f`: f is selected by the configuration cfg in the tree of w (a STATIC property of the project:
   the inputs are resolved in w, the scans and the static dependencies `sdeps` are read off w) *)
Definition selected_run (cfg : config) (w : world) (f : path) : Prop :=
  exists files dirs, run_inputs cfg w = Some (files, dirs) /\
                     selected (w_fs w) (cfg_recursive cfg) files dirs (sdeps w) f.

(* what a Clean run processes is selected; the converse fails for dependencies (`clean_does_not_follow_dependencies`) *)
Lemma cleaned_selected cfg w f : cleaned cfg w f -> selected_run cfg w f.
Proof.
  intros (files & dirs & E & H). exists files, dirs. split; [exact E|apply cleaned_file_selected; exact H].
Qed.

Lemma run_inputs_resolved cfg w base files dirs :
  os_resolve (w_fs w) (cfg_base cfg) = Some base ->
  resolve_inputs (w_fs w) base (cfg_inputs cfg) [] [] = Some (files, dirs) ->
  run_inputs cfg w = Some (files, dirs).
Proof. intros Eb Ei. unfold run_inputs. rewrite Eb. exact Ei. Qed.

(* selected => reached (IdemFacts.reached: in every closed pair of lists); no hypothesis *)
Theorem selected_run_reached cfg w f : selected_run cfg w f -> reached cfg w f.
Proof.
  intros (files & dirs & E & H) base files' dirs' Eb Ei S Dd (C1 & C2 & C3 & C4).
  rewrite (run_inputs_resolved cfg w base files' dirs' Eb Ei) in E. inversion E; subst files' dirs'.
  apply (selected_least (w_fs w) (cfg_recursive cfg) files dirs (sdeps w) S Dd C1 C2); [|exact C4|exact H].
  intros d fs ds Hd Hs. apply (C3 d fs ds Hd Hs).
Qed.

(* ===================================================================================================================
   PART B — H3, modes other than Clean
   =================================================================================================================== *)
Section SelLoop.
Variable orc : oracle.
Variable cfg : config.
Variable base : path.
Hypothesis Hmd : cfg_mode cfg <> Clean.
Variable w0 : world.
Hypothesis HS : cycle_static w0.
Variables files dirs : list path.

Local Notation sel := (selected (w_fs w0) (cfg_recursive cfg) files dirs (sdeps w0)).
Local Notation scd := (scanned_dir (w_fs w0) (cfg_recursive cfg) dirs).

(* everything the coordinator has seen is selected *)
Definition Sel (g : gstate) : Prop :=
  (forall f, In f (seen (gs g)) -> sel f) /\ (forall d, In d (seen_dirs (gs g)) -> scd d).
Definition JS (g : gstate) (w : world) (tr : list (task * result)) : Prop :=
  JX cfg w0 files dirs g w tr /\ Sel g.

Lemma JS_init : raw_ok w0 -> JS (ginit files dirs) w0 [].
Proof.
  intros N. split; [apply JX_init; exact N|].
  destruct (initial_tasks_spec files dirs) as (_ & _ & _ & _ & I1 & I2 & _). cbv zeta in I1, I2. split.
  - intros f Hf. apply sel_input. apply I1. exact Hf.
  - intros d Hd. apply sd_input. apply I2. exact Hd.
Qed.

Lemma JS_step g w tr t rest r w' s2 :
  greach files dirs g -> JS g w tr -> Permutation (inflight (gs g)) (t :: rest) ->
  exec_task orc cfg base t w = Some (r, w') -> handle (with_inflight (gs g) rest) r = Continue s2 ->
  JS (mkG s2 (report t r (reported g)) (history g ++ [t])) w' (tr ++ [(t, r)]).
Proof.
  intros R [HJ [S1 S2]] HP Hex Hh.
  pose proof (JX_step orc cfg base Hmd w0 HS files dirs g w tr t rest r w' s2 R HJ HP Hex Hh) as HJ2.
  split; [exact HJ2|].
  assert (Ht : In t (inflight (gs g))).
  { eapply Permutation_in; [apply Permutation_sym; exact HP|]. left. reflexivity. }
  destruct (inv_reach _ _ _ R) as [HPi _]. pose proof (i_fl_seen HPi t Ht) as Hts.
  pose proof (exec_task_answers _ _ _ _ _ _ _ Hex) as Hans.
  destruct (handle_seen _ _ _ Hh) as [Hs1 Hs2]. cbn [with_inflight seen seen_dirs] in Hs1, Hs2.
  destruct HJ as (A & HSc & _). destruct HJ2 as (_ & _ & G1 & _).
  unfold Sel. cbn [gs]. split.
  - intros x Hx. destruct (Hs1 x Hx) as [H|H]; [apply S1; exact H|].
    destruct t as [d|f b].
    + cbn [exec_task] in Hex. inversion Hex; subst r w'. rewrite (Scan_scan cfg w0 w d A HSc) in H.
      cbn [res_files] in H. destruct (scan_dir (w_fs w0) d (cfg_recursive cfg)) as [[fs ds]|] eqn:Es; [|destruct H].
      apply (sel_scan _ _ _ _ _ d fs ds x); [apply S2; exact Hts|exact Es|exact H].
    + destruct r as [rr|f' rr]; [destruct Hans|]. destruct Hans as [-> Hfin].
      destruct rr as [[|ds]|]; cbn [res_files] in H; try destruct H.
      destruct b; [|exfalso; exact (Hfin eq_refl ds eq_refl)].
      cbn [report reported] in G1. destruct (G1 f ds (or_introl eq_refl)) as [E _]. subst ds.
      apply (sel_dep _ _ _ _ _ f x); [apply S1; exact Hts|exact H].
  - intros x Hx. destruct (Hs2 x Hx) as [H|H]; [apply S2; exact H|].
    destruct t as [d|f b].
    + cbn [exec_task] in Hex. inversion Hex; subst r w'. rewrite (Scan_scan cfg w0 w d A HSc) in H.
      cbn [res_dirs] in H. destruct (scan_dir (w_fs w0) d (cfg_recursive cfg)) as [[fs ds]|] eqn:Es; [|destruct H].
      apply (sd_sub _ _ _ d fs ds x); [apply S2; exact Hts|exact Es|exact H].
    + destruct r as [rr|f' rr]; [destruct Hans|]. cbn [res_dirs] in H. destruct H.
Qed.

Lemma ok_loop_seen_selected fuel sched : raw_ok w0 ->
  let x := run_loop orc cfg base fuel sched (gs (ginit files dirs)) w0 [] in
  verdict_of x = VOk -> forall f, In f (seen (state_of x)) -> sel f.
Proof.
  intros N x Hv f Hf.
  destruct (run_loop_inv_tr orc cfg base files dirs JS JS_step fuel sched (ginit files dirs) w0 []
              (greach_init files dirs) (JS_init N) Hv) as (g & _ & Es & _ & _ & (_ & S1 & _)).
  apply S1. rewrite Es. exact Hf.
Qed.
End SelLoop.

(* H3.  A run in any mode but Clean (Build, Verify, --needed), from a duplicate-free tree that satisfies `cycle_static`
   (CycleFacts: every readable source writes no `.txtpp` name and probes only `.txtpp` names as candidates; implied by
   `sched_ok` and by `sched_ok_temps`); ANY schedule, fuel, oracle.  If the verdict is VOk, the set of sources that were
   given a pass is EXACTLY the set selected by the configuration: the resolved input files, the txtpp files of the
   resolved input directories (recursively iff -r), closed under static dependencies; it is also `IdemFacts.reached`. *)
Theorem processed_set_spec orc cfg fuel sched w :
  cfg_mode cfg <> Clean -> raw_ok w -> cycle_static w ->
  let x := txtpp_run orc cfg fuel sched w in
  verdict_of x = VOk ->
  forall f, (processed x f <-> selected_run cfg w f) /\ (reached cfg w f <-> selected_run cfg w f).
Proof.
  intros Hmd N HS x Hv f. subst x.
  assert (G : processed (txtpp_run orc cfg fuel sched w) f <-> selected_run cfg w f).
  { split.
    - intros Hp. destruct (txtpp_run_ok_unfold orc cfg fuel sched w Hv) as (base & files & dirs & Eb & Ei & Ex).
      apply (ok_run_pass_seen orc cfg fuel sched w Hv f) in Hp. rewrite Ex in Hp, Hv.
      exists files, dirs. split; [apply (run_inputs_resolved cfg w base files dirs Eb Ei)|].
      apply (ok_loop_seen_selected orc cfg base Hmd w HS files dirs fuel sched N Hv f Hp).
    - intros Hs. apply (ok_run_reached_processed orc cfg fuel sched w Hmd N HS Hv f).
      apply selected_run_reached. exact Hs. }
  split; [exact G|]. rewrite (ok_run_reached_processed orc cfg fuel sched w Hmd N HS Hv f). exact G.
Qed.

(* ===================================================================================================================
   PART C — H3, Clean runs
   =================================================================================================================== *)
(* a property of tasks that an invariant of the loop guarantees for every in-flight task holds of every task of the
   trace, whatever the verdict (the tasks drained after a failure were in flight) *)
Section TraceP.
Variable orc : oracle.
Variable cfg : config.
Variable base : path.
Variables files dirs : list path.
Variable J : gstate -> world -> Prop.
Hypothesis J_step : forall g w t rest r w' s2,
  greach files dirs g -> J g w -> Permutation (inflight (gs g)) (t :: rest) ->
  exec_task orc cfg base t w = Some (r, w') -> handle (with_inflight (gs g) rest) r = Continue s2 ->
  J (mkG s2 (report t r (reported g)) (history g ++ [t])) w'.
Variable P : task -> Prop.
Hypothesis J_P : forall g w t, greach files dirs g -> J g w -> In t (inflight (gs g)) -> P t.

Lemma run_loop_trace_P fuel : forall sched g w tr,
  greach files dirs g -> J g w ->
  forall t r, In (t, r) (trace_of (run_loop orc cfg base fuel sched (gs g) w tr)) -> In (t, r) tr \/ P t.
Proof.
  induction fuel as [|fuel IH]; intros sched g w tr R HJ t r.
  - destruct (sort_tasks (inflight (gs g))) as [|t0 sl'] eqn:E.
    + rewrite (run_loop_exit _ _ _ _ _ _ _ _ E). cbn. auto.
    + rewrite (run_loop_nofuel _ _ _ _ _ _ _ _ _ E). cbn. auto.
  - destruct (sort_tasks (inflight (gs g))) as [|t0 sl'] eqn:E.
    + rewrite (run_loop_exit _ _ _ _ _ _ _ _ E). cbn. auto.
    + rewrite (run_loop_step _ _ _ _ _ _ _ _ _ _ E). cbv zeta.
      set (sl := t0 :: sl'). set (k := pick sched sl). set (t1 := nth k sl t0). set (rest := remove_nth k sl).
      assert (HP : Permutation (inflight (gs g)) (t1 :: rest)).
      { eapply perm_trans; [apply sort_tasks_perm|]. rewrite E. apply pick_split. apply pick_lt. }
      assert (Ht1 : P t1).
      { apply (J_P g w t1 R HJ). apply (Permutation_in t1 (Permutation_sym HP)). left. reflexivity. }
      assert (Hrest : forall x, In x rest -> P x).
      { intros x Hx. apply (J_P g w x R HJ). apply (Permutation_in x (Permutation_sym HP)). right. exact Hx. }
      destruct (exec_task orc cfg base t1 w) as [[r1 w1]|] eqn:Hex; [|cbn; auto].
      pose proof (exec_task_answers _ _ _ _ _ _ _ Hex) as Hans.
      assert (Hsnoc : In (t, r) (tr ++ [(t1, r1)]) -> In (t, r) tr \/ P t).
      { intros H. apply in_app_or in H. destruct H as [H|[H|[]]]; [left; exact H|]. inversion H; subst. right. exact Ht1. }
      destruct (handle (with_inflight (gs g) rest) r1) as [s2| |] eqn:Hh.
      * set (g2 := mkG s2 (report t1 r1 (reported g)) (history g ++ [t1])).
        assert (R2 : greach files dirs g2).
        { eapply greach_step; [exact R|]. apply (gstep_continue g t1 rest r1 s2); assumption. }
        assert (HJ2 : J g2 w1) by (apply (J_step g w t1 rest r1 w1 s2); assumption).
        intros Hin. destruct (IH (tl sched) g2 w1 (tr ++ [(t1, r1)]) R2 HJ2 t r Hin) as [H|H]; [apply Hsnoc; exact H|right; exact H].
      * cbn [with_inflight inflight].
        destruct (drain orc cfg base (length rest) (tl sched) rest w1 (tr ++ [(t1, r1)])) as [[w2 tr2]|] eqn:Hd2.
        -- cbn [trace_of fst snd]. intros Hin. destruct (drain_tasks _ _ _ _ _ _ _ _ _ _ Hd2 t r Hin) as [H|H].
           ++ apply Hsnoc. exact H.
           ++ right. apply Hrest. exact H.
        -- cbn [trace_of fst snd]. exact Hsnoc.
      * cbn [trace_of fst snd]. exact Hsnoc.
Qed.
End TraceP.

(* H3 for Clean.  ANY Clean run (any verdict, schedule, fuel, oracle) from a duplicate-free tree with legal names: every
   source that is given a pass — the tasks drained after a failure included — is `cleaned cfg w` (a resolved input file
   or a txtpp file found by the scans: NO dependency closure); when the verdict is VOk, conversely every `cleaned` file was
   given a pass. *)
Theorem clean_processed_set_spec orc cfg fuel sched w :
  cfg_mode cfg = Clean -> NoDup (map fst (w_fs w)) -> legal_names (w_fs w) ->
  let x := txtpp_run orc cfg fuel sched w in
  (forall f, processed x f -> cleaned cfg w f) /\
  (verdict_of x = VOk -> forall f, cleaned cfg w f <-> processed x f).
Proof.
  intros Hmd ND WF x. subst x.
  destruct (txtpp_run_cases orc cfg fuel sched w) as [[_ E]|(base & files & dirs & _ & Eb & Ei & E)].
  - rewrite E. split; [intros f (b & r & [])|cbn; discriminate].
  - assert (Hb : Forall (fun c => c <> []) base).
    { apply names_nonempty. apply (exists_names (w_fs w) WF). apply (RunFacts.os_walk_exists _ _ _ _ Eb). }
    destruct (resolve_inputs_good (w_fs w) ND base (cfg_inputs cfg) [] [] files dirs Hb (Forall_nil _) (Forall_nil _) Ei)
      as [Gf Gd].
    pose proof (run_inputs_resolved cfg w base files dirs Eb Ei) as Eri.
    pose proof (J1_init cfg w ND WF files dirs Gf Gd) as HJ0.
    split.
    + intros f (b & r & Hin). rewrite E in Hin.
      destruct (run_loop_trace_P orc cfg base files dirs (J1 cfg w files dirs)
                  (J1_step orc cfg base Hmd w ND WF files dirs)
                  (fun t => match t with TPp f _ => cleaned_file (w_fs w) (cfg_recursive cfg) files dirs f | TScan _ => True end))
        with (fuel := fuel) (sched := sched) (g := ginit files dirs) (w := w) (tr := @nil (task * result))
             (t := TPp f b) (r := r) as [[]|H].
      * intros g wc t R (_ & _ & _ & (L1 & _) & _) Ht. destruct t as [d|f0 b0]; [exact I|].
        destruct (inv_reach _ _ _ R) as [HPi _]. apply L1. apply (i_fl_seen HPi _ Ht).
      * apply greach_init.
      * exact HJ0.
      * exact Hin.
      * exists files, dirs. split; [exact Eri|exact H].
    + intros Hv f. unfold processed. rewrite <- (ok_run_pass_seen orc cfg fuel sched w Hv f).
      rewrite E in Hv |- *.
      destruct (run_loop_inv_tr orc cfg base files dirs (fun g wc _ => J1 cfg w files dirs g wc)
                  (fun g wc _ t rest r wc' s2 R HJ HP Hex Hh => J1_step orc cfg base Hmd w ND WF files dirs g wc t rest r wc' s2 R HJ HP Hex Hh)
                  fuel sched (ginit files dirs) w [] (greach_init files dirs) HJ0 Hv)
        as (g & R & Es & Hnil & _ & (_ & _ & HCl & (L1 & _) & _)).
      rewrite <- Es. split.
      * intros (files' & dirs' & E' & H). rewrite Eri in E'. inversion E'; subst files' dirs'.
        destruct (Cl_exit _ _ files dirs g R HCl Hnil) as (C1 & C2 & C3).
        apply (cleaned_least _ _ files dirs _ _ C1 C2 C3 f H).
      * intros Hs. exists files, dirs. split; [exact Eri|apply L1; exact Hs].
Qed.

(* ===================================================================================================================
   PART D — H4: a Clean run touches only the files of the selected (cleaned) sources
   =================================================================================================================== *)
(* Every event of ANY Clean run is `ERemove p` where p is not a txtpp name and lies in the footprint — the output
   (normalised or not) or a temp target, read off the INITIAL tree (`writes_of Clean w f`) — of a file f that satisfies
   `cleaned cfg w f`; and a path outside the footprints of the cleaned files keeps its node. *)
Theorem clean_touches_only_selected orc cfg fuel sched w :
  cfg_mode cfg = Clean -> NoDup (map fst (w_fs w)) -> legal_names (w_fs w) ->
  let x := txtpp_run orc cfg fuel sched w in
  exists evs, w_log (world_of x) = w_log w ++ evs /\
    Forall (fun e => exists p f, e = ERemove p /\ is_txtpp_file p = false /\
                                 cleaned cfg w f /\ In p (writes_of Clean w f)) evs /\
    (forall p, (forall f, cleaned cfg w f -> ~ In p (writes_of Clean w f)) ->
       fs_get (w_fs (world_of x)) p = fs_get (w_fs w) p /\ ~ In (ERemove p) evs).
Proof.
  intros Hmd ND WF. cbv zeta.
  destruct (clean_processed_set_spec orc cfg fuel sched w Hmd ND WF) as [Hpc _]. cbv zeta in Hpc.
  destruct (clean_run_events_legal orc cfg fuel sched w ND WF Hmd) as (evs & HL & HA).
  exists evs. split; [exact HL|]. rewrite Forall_forall in HA. split.
  - rewrite Forall_forall. intros e He. destruct (HA e He) as (p & -> & Hpl & f & b & r & Hin & Hw).
    exists p, f. split; [reflexivity|]. split; [exact Hpl|]. split; [|exact Hw].
    apply Hpc. exists b, r. exact Hin.
  - intros p Hp. split.
    + apply (run_frame_legal orc cfg fuel sched w p ND WF). intros f b r Hin. rewrite Hmd.
      apply Hp. apply Hpc. exists b, r. exact Hin.
    + intros He. destruct (HA _ He) as (p' & E & _ & f & b & r & Hin & Hw). inversion E; subst p'.
      apply (Hp f); [apply Hpc; exists b, r; exact Hin|exact Hw].
Qed.

(* in particular: the outputs and the temp files of a source g that was not itself selected (for instance a DEPENDENCY
   of a selected source) are never removed, unless a selected source has the same path in its own footprint *)
Corollary clean_spares_unselected orc cfg fuel sched w g :
  cfg_mode cfg = Clean -> NoDup (map fst (w_fs w)) -> legal_names (w_fs w) ->
  (forall f, cleaned cfg w f -> forall p, In p (writes_of Clean w g) -> ~ In p (writes_of Clean w f)) ->
  let x := txtpp_run orc cfg fuel sched w in
  forall p, In p (writes_of Clean w g) ->
    fs_get (w_fs (world_of x)) p = fs_get (w_fs w) p /\
    ~ In (ERemove p) (skipn (length (w_log w)) (w_log (world_of x))).
Proof.
  intros Hmd ND WF Hdis x p Hp. subst x.
  destruct (clean_touches_only_selected orc cfg fuel sched w Hmd ND WF) as (evs & HL & _ & HF).
  rewrite HL, skipn_app_exact. apply HF. intros f Hf. apply (Hdis f Hf p Hp).
Qed.

(* ===================================================================================================================
   PART E — non-vacuity, on the tree of ScheduleTempFacts PART 6:
       d/a.txtpp = "// TXTPP#temp t\n// hello\nTXTPP#include t\nx\n"   (writes the temp file d/t, then includes it)
       d/b.txtpp = "TXTPP#include a\nz\n"                                (includes the output of a.txtpp: a dependency)
   =================================================================================================================== *)
Lemma t_cycle_static : cycle_static t_w.
Proof. apply sched_ok_temps_cycle_static. exact t_sched_ok. Qed.

Lemma processed_by_trace (x : verdict * world * list (task * result) * cstate) l :
  map fst (trace_of x) = l -> forall f, processed x f <-> exists b, In (TPp f b) l.
Proof.
  intros E f. subst l. split.
  - intros (b & r & Hin). exists b. apply (in_map fst _ (TPp f b, r)). exact Hin.
  - intros (b & Hin). apply in_map_iff in Hin. destruct Hin as ([t r] & Et & Hin). cbn [fst] in Et. subst t.
    exists b, r. exact Hin.
Qed.

(* H3, `txtpp d/b.txtpp` (one input file, no scan): the run processes d/b.txtpp, the input, AND d/a.txtpp, which is selected
   only as a dependency of d/b.txtpp (it is not `cleaned`: a Clean run would not process it) *)
Example processed_set_spec_nonvacuous :
  let x := txtpp_run cx_orc u_cfg_b 9 [] t_w in
  cfg_mode u_cfg_b <> Clean /\ raw_ok t_w /\ cycle_static t_w /\ verdict_of x = VOk /\
  map fst (trace_of x) = [TPp t_b true; TPp t_a true; TPp t_b false] /\
  (forall f, processed x f <-> selected_run u_cfg_b t_w f) /\
  (forall f, selected_run u_cfg_b t_w f <-> f = t_a \/ f = t_b) /\
  (forall f, cleaned u_cfg_b t_w f <-> f = t_b) /\
  run_inputs u_cfg_b t_w = Some ([t_b], []) /\ sdeps t_w t_b = [t_a].
Proof.
  cbv zeta.
  assert (Hmd : cfg_mode u_cfg_b <> Clean) by discriminate.
  assert (Hv : verdict_of (txtpp_run cx_orc u_cfg_b 9 [] t_w) = VOk) by (vm_compute; reflexivity).
  assert (Htr : map fst (trace_of (txtpp_run cx_orc u_cfg_b 9 [] t_w)) = [TPp t_b true; TPp t_a true; TPp t_b false])
    by (vm_compute; reflexivity).
  pose proof (processed_set_spec cx_orc u_cfg_b 9 [] t_w Hmd t_raw_ok t_cycle_static Hv) as HT. cbv zeta in HT.
  split; [exact Hmd|]. split; [exact t_raw_ok|]. split; [exact t_cycle_static|]. split; [exact Hv|].
  split; [exact Htr|]. split; [intros f; apply (proj1 (HT f))|]. split; [|split; [exact u_cleaned_b|]].
  - intros f. rewrite <- (proj1 (HT f)), (processed_by_trace _ _ Htr f). split.
    + intros (b & [H|[H|[H|[]]]]); inversion H; auto.
    + intros [-> | ->]; exists true; cbn; auto.
  - split; vm_compute; reflexivity.
Qed.

(* H3, `txtpp -r d` in mode --needed (InMemoryBuild): both sources are found by the scan of d *)
Example processed_set_spec_scan_nonvacuous :
  let cfg := mkCfg [] [[100]] true 1 InMemoryBuild false in
  let x := txtpp_run cx_orc cfg 9 [] t_w in
  verdict_of x = VOk /\
  (forall f, processed x f <-> selected_run cfg t_w f) /\
  (forall f, selected_run cfg t_w f <-> f = t_a \/ f = t_b) /\
  run_inputs cfg t_w = Some ([], [[[100]]]) /\ scan_dir (w_fs t_w) [[100]] true = Some ([t_a; t_b], []).
Proof.
  cbv zeta. set (cfg := mkCfg [] [[100]] true 1 InMemoryBuild false).
  assert (Hmd : cfg_mode cfg <> Clean) by discriminate.
  assert (Hv : verdict_of (txtpp_run cx_orc cfg 9 [] t_w) = VOk) by (vm_compute; reflexivity).
  assert (Htr : map fst (trace_of (txtpp_run cx_orc cfg 9 [] t_w)) = [TScan [[100]]; TPp t_a true; TPp t_b true; TPp t_b false])
    by (vm_compute; reflexivity).
  pose proof (processed_set_spec cx_orc cfg 9 [] t_w Hmd t_raw_ok t_cycle_static Hv) as HT. cbv zeta in HT.
  split; [exact Hv|]. split; [intros f; apply (proj1 (HT f))|]. split.
  - intros f. rewrite <- (proj1 (HT f)), (processed_by_trace _ _ Htr f). split.
    + intros (b & [H|[H|[H|[H|[]]]]]); inversion H; auto.
    + intros [-> | ->]; exists true; cbn; auto.
  - split; vm_compute; reflexivity.
Qed.

(* the tree after `txtpp d/b.txtpp`: d/a, d/b, d/t exist *)
Definition h_wb : world := world_of (txtpp_run cx_orc u_cfg_b 9 [] t_w).
Lemma h_wb_nodup : NoDup (map fst (w_fs h_wb)).
Proof. vm_compute. repeat constructor; cbn; intuition discriminate. Qed.
Lemma h_wb_legal : legal_names (w_fs h_wb).
Proof.
  intros p nd H. vm_compute in H.
  repeat (destruct H as [H|H]; [inversion H; subst; repeat constructor; discriminate|]). destruct H.
Qed.
Lemma h_cleaned_b f : cleaned u_clean_cfg_b h_wb f <-> f = t_b.
Proof.
  unfold cleaned. replace (run_inputs u_clean_cfg_b h_wb) with (Some ([t_b], @nil path)) by (vm_compute; reflexivity). split.
  - intros (files & dirs & E & H). inversion E; subst files dirs. clear E.
    destruct H as [[<-|[]]|(d & fs & ds & Hd & _)]; [reflexivity|].
    exfalso. induction Hd as [d []|d fs' ds' d' _ IH _ _]; exact IH.
  - intros ->. exists [t_b], []. split; [reflexivity|]. left. left. reflexivity.
Qed.

(* H3 for Clean, `txtpp clean d/b.txtpp` after the build above: exactly d/b.txtpp is processed; its dependency d/a.txtpp is
   selected for a build (`selected_run`) but is not cleaned and is given no pass *)
Example clean_processed_set_spec_nonvacuous :
  let x := txtpp_run cx_orc u_clean_cfg_b 9 [] h_wb in
  verdict_of x = VOk /\ map fst (trace_of x) = [TPp t_b true] /\
  (forall f, cleaned u_clean_cfg_b h_wb f <-> processed x f) /\
  (forall f, processed x f <-> f = t_b) /\
  sdeps h_wb t_b = [t_a] /\ selected_run u_clean_cfg_b h_wb t_a /\ ~ cleaned u_clean_cfg_b h_wb t_a /\ ~ processed x t_a.
Proof.
  cbv zeta.
  assert (Hv : verdict_of (txtpp_run cx_orc u_clean_cfg_b 9 [] h_wb) = VOk) by (vm_compute; reflexivity).
  assert (Htr : map fst (trace_of (txtpp_run cx_orc u_clean_cfg_b 9 [] h_wb)) = [TPp t_b true]) by (vm_compute; reflexivity).
  destruct (clean_processed_set_spec cx_orc u_clean_cfg_b 9 [] h_wb eq_refl h_wb_nodup h_wb_legal) as [_ HT].
  cbv zeta in HT. specialize (HT Hv).
  assert (Hd : sdeps h_wb t_b = [t_a]) by (vm_compute; reflexivity).
  split; [exact Hv|]. split; [exact Htr|]. split; [exact HT|].
  split; [intros f; rewrite <- (HT f); apply h_cleaned_b|]. split; [exact Hd|]. split; [|split].
  - exists [t_b], []. split; [vm_compute; reflexivity|].
    apply (sel_dep _ _ _ _ _ t_b t_a); [apply sel_input; left; reflexivity|rewrite Hd; left; reflexivity].
  - intros H. apply h_cleaned_b in H. discriminate H.
  - intros H. apply HT in H. apply h_cleaned_b in H. discriminate H.
Qed.

(* H3 for Clean, a FAILING run (CleanRunFacts: d1/x.txtpp.txtpp cannot be processed; the scan of d2 is drained): the verdict
   is VErr and still every processed source is `cleaned` *)
Example clean_processed_set_spec_failing_run :
  let x := txtpp_run cx_orc v_cfg 9 [0; 1]%nat v_w in
  verdict_of x = VErr /\ map fst (trace_of x) = [TScan [v_d1]; TPp [v_d1; v_x] true; TScan [v_d2]] /\
  (forall f, processed x f -> cleaned v_cfg v_w f) /\ cleaned v_cfg v_w [v_d1; v_x].
Proof.
  cbv zeta.
  assert (ND : NoDup (map fst (w_fs v_w))) by (vm_compute; repeat constructor; cbn; intuition discriminate).
  assert (WF : legal_names (w_fs v_w)).
  { intros p nd H. vm_compute in H.
    repeat (destruct H as [H|H]; [inversion H; subst; repeat constructor; discriminate|]). destruct H. }
  destruct (clean_processed_set_spec cx_orc v_cfg 9 [0; 1]%nat v_w eq_refl ND WF) as [HT _]. cbv zeta in HT.
  assert (Htr : map fst (trace_of (txtpp_run cx_orc v_cfg 9 [0; 1]%nat v_w)) = [TScan [v_d1]; TPp [v_d1; v_x] true; TScan [v_d2]])
    by (vm_compute; reflexivity).
  split; [vm_compute; reflexivity|]. split; [exact Htr|]. split; [exact HT|].
  apply HT. apply (processed_by_trace _ _ Htr). exists true. cbn. auto.
Qed.

(* H4, `txtpp clean d/b.txtpp` on the built tree: the run removes d/b and NOTHING of the dependency a.txtpp: its output d/a
   and its temp file d/t are still there *)
Example clean_touches_only_selected_nonvacuous :
  let x := txtpp_run cx_orc u_clean_cfg_b 9 [] h_wb in
  verdict_of x = VOk /\
  w_log (world_of x) = w_log h_wb ++ [ERemove t_bout] /\
  (exists evs, w_log (world_of x) = w_log h_wb ++ evs /\
     Forall (fun e => exists p f, e = ERemove p /\ is_txtpp_file p = false /\
                                  cleaned u_clean_cfg_b h_wb f /\ In p (writes_of Clean h_wb f)) evs) /\
  writes_of Clean h_wb t_b = [t_bout; t_bout] /\ writes_of Clean h_wb t_a = [t_aout; t_aout; t_t] /\
  (exists c, fs_get (w_fs h_wb) t_bout = Some (File c)) /\ fs_get (w_fs (world_of x)) t_bout = None /\
  (forall p, In p (writes_of Clean h_wb t_a) ->
     fs_get (w_fs (world_of x)) p = fs_get (w_fs h_wb) p /\ (exists c, fs_get (w_fs h_wb) p = Some (File c)) /\
     ~ In (ERemove p) (skipn (length (w_log h_wb)) (w_log (world_of x)))).
Proof.
  cbv zeta.
  destruct (clean_touches_only_selected cx_orc u_clean_cfg_b 9 [] h_wb eq_refl h_wb_nodup h_wb_legal) as (evs & HL & HA & _).
  split; [vm_compute; reflexivity|]. split; [vm_compute; reflexivity|].
  split; [exists evs; split; assumption|].
  assert (Wa : writes_of Clean h_wb t_a = [t_aout; t_aout; t_t]) by (vm_compute; reflexivity).
  split; [vm_compute; reflexivity|]. split; [exact Wa|].
  split; [vm_compute; eexists; reflexivity|]. split; [vm_compute; reflexivity|].
  intros p Hp.
  destruct (clean_spares_unselected cx_orc u_clean_cfg_b 9 [] h_wb t_a eq_refl h_wb_nodup h_wb_legal) with (p := p) as [H1 H2].
  - intros f Hf q Hq Hq'. apply h_cleaned_b in Hf. subst f. rewrite Wa in Hq. vm_compute in Hq'.
    destruct Hq' as [<-|[<-|[]]]; destruct Hq as [H|[H|[H|[]]]]; discriminate H.
  - exact Hp.
  - split; [exact H1|]. split; [|exact H2]. rewrite Wa in Hp.
    destruct Hp as [<-|[<-|[<-|[]]]]; vm_compute; eexists; reflexivity.
Qed.

Print Assumptions scanned_dir_nonrec.
Print Assumptions scanned_dir_rec_spec.
Print Assumptions selected_without_deps.
Print Assumptions cleaned_selected.
Print Assumptions selected_run_reached.
Print Assumptions processed_set_spec.
Print Assumptions clean_processed_set_spec.
Print Assumptions clean_touches_only_selected.
Print Assumptions clean_spares_unselected.
Print Assumptions processed_set_spec_nonvacuous.
Print Assumptions processed_set_spec_scan_nonvacuous.
Print Assumptions clean_processed_set_spec_nonvacuous.
Print Assumptions clean_processed_set_spec_failing_run.
Print Assumptions clean_touches_only_selected_nonvacuous.
