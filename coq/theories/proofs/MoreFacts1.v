(* MoreFacts1.v — GOAL 1 of MoreFacts.v (C13): in Build mode the trailing-newline option changes at most one final
   line ending of the output file, and nothing else; a source that ends with a text line. *)
Require Import Txtpp.Str Txtpp.Consts Txtpp.Grammar Txtpp.Tags Txtpp.Path Txtpp.Fs Txtpp.Sink Txtpp.Pp Txtpp.Spec.
Require Import Txtpp.proofs.StrFacts Txtpp.proofs.GrammarFacts Txtpp.proofs.TagsFacts Txtpp.proofs.SinkFacts Txtpp.proofs.PathFacts.
Require Import Txtpp.proofs.PpFacts Txtpp.proofs.EventFacts Txtpp.proofs.FrameFacts Txtpp.proofs.CleanVerifyFacts.
From Coq Require Import Lia.

(* ---- the rest of a pass, seen through the items, for every outcome (CleanVerifyFacts.pp_rest_ok_iff is the PpOk case) ---- *)
Lemma pp_rest_spec orc md base src first tn raw k0 w0 :
  snd (take_valid (lines raw)) = false ->
  pp_rest orc md base src first tn raw k0 w0 =
  spec_out orc md src base (detect_le raw) tn (items_of' md raw)
    (mkP None false (if first then PFirst else PExec) tags_new k0 w0).
Proof.
  unfold pp_rest, items_of'. destruct (take_valid (lines raw)) as [ls bad]. cbn [fst snd]. intros ->.
  set (s0 := mkP None false (if first then PFirst else PExec) tags_new k0 w0).
  pose proof (fusion orc md src base (detect_le raw) tn ls s0) as F.
  change (cur s0) with (@None directive) in F. change (set_cur s0 None) with s0 in F.
  rewrite <- F. unfold outcome_of.
  destruct (run_lines orc md src base (detect_le raw) ls s0); reflexivity.
Qed.
(* when the source is not valid UTF-8 the pass fails before the option is consulted *)
Lemma pp_rest_bad orc md base src first tn tn' raw k0 w0 :
  snd (take_valid (lines raw)) = true ->
  pp_rest orc md base src first tn raw k0 w0 = pp_rest orc md base src first tn' raw k0 w0.
Proof.
  unfold pp_rest. destruct (take_valid (lines raw)) as [ls bad]. cbn [snd]. intros ->. reflexivity.
Qed.

(* ---- in Build mode no file ever disappears ---- *)
Definition files_mono (w w' : world) : Prop :=
  forall p, is_file (w_fs w) p = true -> is_file (w_fs w') p = true.
Lemma files_mono_refl w : files_mono w w.
Proof. intros p H. exact H. Qed.
Lemma files_mono_trans a b c : files_mono a b -> files_mono b c -> files_mono a c.
Proof. intros H1 H2 p H. apply H2, H1, H. Qed.

Lemma is_file_root f : is_file f [] = false.
Proof. unfold is_file. destruct f; reflexivity. Qed.
Lemma is_file_put f q c p : is_file f p = true -> is_file (fs_put f q (File c)) p = true.
Proof.
  intros H. destruct (path_dec q p) as [->|N].
  - destruct p as [|x p']; [rewrite is_file_root in H; discriminate|].
    unfold is_file. rewrite fs_get_put_same by discriminate. reflexivity.
  - unfold is_file. rewrite fs_get_put_other by exact N. exact H.
Qed.
Lemma w_write_files_mono w lp c w' : w_write w lp c = Some w' -> files_mono w w'.
Proof.
  unfold w_write. destruct (write_target (w_fs w) lp) as [q|]; [|discriminate].
  intros H. inversion H; subst. intros p Hp. cbn [w_fs]. apply is_file_put. exact Hp.
Qed.
Lemma w_append_files_mono w q c w' : w_append w q c = Some w' -> files_mono w w'.
Proof.
  unfold w_append. destruct (fs_get (w_fs w) q) as [[old|]|]; try discriminate.
  intros H. inversion H; subst. intros p Hp. cbn [w_fs]. apply is_file_put. exact Hp.
Qed.
(* after a successful append the target is a file that ends with what was appended *)
Lemma w_append_spec w q c w' : w_append w q c = Some w' ->
  exists old, read_file (w_fs w) q = Some old /\ read_file (w_fs w') q = Some (old ++ c) /\
              w' = mkW (fs_put (w_fs w) q (File (old ++ c))) (w_log w ++ [EWrite q]).
Proof.
  unfold w_append, read_file. destruct (fs_get (w_fs w) q) as [[old|]|] eqn:G; try discriminate.
  intros H. inversion H; subst. exists old. split; [reflexivity|]. split; [|reflexivity]. cbn [w_fs].
  assert (q <> []) by (intros ->; rewrite fs_get_nil in G; discriminate).
  rewrite fs_get_put_same by assumption. reflexivity.
Qed.
Lemma write_temp_files_mono w lp c w' : write_temp w lp c = inl w' -> files_mono w w'.
Proof.
  unfold write_temp. destruct (os_resolve (w_fs w) lp) as [q|].
  - destruct (fs_get (w_fs w) q) as [[c0|]|]; try discriminate.
    destruct (str_eqb c0 c); [intros H; inversion H; subst; apply files_mono_refl|].
    destruct (w_write w q c) as [w1|] eqn:E; [|discriminate]. intros H; inversion H; subst.
    eapply w_write_files_mono; eauto.
  - destruct (w_write w lp []) as [w1|] eqn:E1; [|discriminate].
    destruct c as [|b c'].
    + intros H; inversion H; subst. eapply w_write_files_mono; eauto.
    + destruct (w_write w1 lp (b :: c')) as [w2|] eqn:E2; [|discriminate]. intros H; inversion H; subst.
      eapply files_mono_trans; eapply w_write_files_mono; eauto.
Qed.
Lemma sink_write_files_mono k w c k' w' : sink_write k w c = inl (k', w') -> files_mono w w'.
Proof.
  destruct k as [p|p buf| |p rest]; cbn [sink_write].
  - destruct (w_append w p c) as [w1|] eqn:E; [|discriminate]. intros H; inversion H; subst.
    eapply w_append_files_mono; eauto.
  - intros H; inversion H; subst; apply files_mono_refl.
  - intros H; inversion H; subst; apply files_mono_refl.
  - destruct (Nat.ltb (length rest) (length c)); [discriminate|].
    destruct (str_eqb (firstn (length c) rest) c); [|discriminate].
    intros H; inversion H; subst; apply files_mono_refl.
Qed.

Section BuildSink.
Variable orc : oracle.
Variable src base : path.
Variable le : str.

(* case analysis of exec_directive (the tactic of PpFacts, which is local to its section) *)
Ltac xd H :=
  unfold exec_directive, collect_deps in H;
  repeat (match type of H with context [match ?x with _ => _ end] =>
            (lazymatch x with context [match _ with _ => _ end] => fail | _ => idtac end);
            destruct x eqn:? end);
  try discriminate; inversion H; subst; clear H.

Lemma exec_temp_files_mono args w w' : exec_temp src le args false w = inl w' -> files_mono w w'.
Proof.
  unfold exec_temp. destruct args as [|a rest]; [discriminate|].
  destruct (is_txtpp_file (lex_components a)); [discriminate|]. apply write_temp_files_mono.
Qed.

Lemma exec_directive_files_mono d s o s' :
  exec_directive orc Build src base le d s = XOut o s' -> files_mono (wld s) (wld s').
Proof.
  intros H. xd H; cbn [wld set_wld set_pmode set_tg]; try apply files_mono_refl;
    try (eapply exec_temp_files_mono; eassumption); intros p Hp; exact Hp.
Qed.

Lemma item_output_files_mono it s o s' :
  item_output orc Build src base le it s = IOut o s' -> files_mono (wld s) (wld s').
Proof.
  destruct it as [l|d fol| |]; cbn [item_output]; intros H; try discriminate.
  - destruct (is_execute (pmode s)); [|inversion H; apply files_mono_refl].
    destruct (inject (tg s) l le) as [[l' t']|]; [|discriminate]. inversion H; apply files_mono_refl.
  - destruct (exec_directive orc Build src base le d s) as [[raw|] s1|k w] eqn:E; try discriminate.
    + apply exec_directive_files_mono in E. destruct (try_store (tg s1) raw); inversion H; subst; exact E.
    + apply exec_directive_files_mono in E. inversion H; subst; exact E.
Qed.

Variable out : path.

(* the invariant of the line loop on the Build sink: the sink is the output path, and when a line ending is pending
   something has been appended to the output, which is therefore a file *)
Definition BInv (s : pst) : Prop :=
  snk s = SBuild out /\ (flag s = true -> is_file (w_fs (wld s)) out = true).

Lemma is_file_read f p : is_file f p = true <-> exists c, read_file f p = Some c.
Proof.
  unfold is_file, read_file. destruct (fs_get f p) as [[c|]|]; split; try discriminate.
  - intros _. exists c. reflexivity.
  - reflexivity.
  - intros [c H]. discriminate.
  - intros [c H]. discriminate.
Qed.

(* what emit does on the Build sink *)
Lemma emit_build s o t s' :
  snk s = SBuild out -> emit le s o t = StOk s' ->
  snk s' = SBuild out /\ files_mono (wld s) (wld s') /\
  match o with
  | Some x =>
    if is_execute (pmode s)
    then flag s' = negb t /\
         exists old, read_file (w_fs (wld s)) out = Some old /\
                     read_file (w_fs (wld s')) out = Some (old ++ (if flag s then le else []) ++ x)
    else s' = s
  | None => s' = s
  end.
Proof.
  intros Hk. unfold emit. destruct (is_execute (pmode s)).
  2:{ intros H. inversion H; subst. split; [exact Hk|]. split; [apply files_mono_refl|]. destruct o; reflexivity. }
  destruct o as [x|].
  2:{ intros H. inversion H; subst. split; [exact Hk|]. split; [apply files_mono_refl|]. reflexivity. }
  rewrite Hk. destruct (flag s) eqn:Hf; cbn [sink_write].
  - destruct (w_append (wld s) out le) as [w1|] eqn:E1; [|discriminate].
    cbn [sink_write]. destruct (w_append w1 out x) as [w2|] eqn:E2; [|discriminate].
    intros H. inversion H; subst. cbn [snk flag wld set_flag set_io].
    split; [reflexivity|]. split; [eapply files_mono_trans; eapply w_append_files_mono; eauto|].
    split; [reflexivity|].
    destruct (w_append_spec _ _ _ _ E1) as (old & R0 & R1 & _).
    destruct (w_append_spec _ _ _ _ E2) as (old1 & R1' & R2 & _).
    rewrite R1 in R1'. inversion R1'; subst old1. exists old. split; [exact R0|].
    rewrite R2, <- app_assoc. reflexivity.
  - destruct (w_append (wld s) out x) as [w2|] eqn:E2; [|discriminate].
    intros H. inversion H; subst. cbn [snk flag wld set_flag set_io].
    split; [reflexivity|]. split; [eapply w_append_files_mono; eauto|]. split; [reflexivity|].
    destruct (w_append_spec _ _ _ _ E2) as (old & R0 & R2 & _). exists old. split; [exact R0|exact R2].
Qed.

Lemma do_item_BInv it s s2 :
  BInv s -> do_item orc Build src base le it s = StOk s2 -> BInv s2 /\ files_mono (wld s) (wld s2).
Proof.
  intros [Hk Hf]. unfold do_item.
  destruct (item_output orc Build src base le it s) as [o s1|k w|] eqn:Ei; try discriminate.
  pose proof (item_output_files_mono _ _ _ _ Ei) as M1.
  destruct (item_output_frame _ _ _ _ _ _ _ _ _ Ei) as [F1 K1]. rewrite Hk in K1.
  intros He. destruct (emit_build _ _ _ _ K1 He) as (K2 & M2 & X).
  split; [|eapply files_mono_trans; eauto]. split; [exact K2|].
  assert (Same : s2 = s1 -> flag s2 = true -> is_file (w_fs (wld s2)) out = true).
  { intros -> Hf2. apply M1, Hf. rewrite <- F1. exact Hf2. }
  destruct o as [x|]; [|exact (Same X)].
  destruct (is_execute (pmode s1)); [|exact (Same X)].
  destruct X as (_ & old & _ & R). intros _. apply is_file_read. eexists; exact R.
Qed.

Lemma run_items_BInv its : forall s s' cs,
  BInv s -> run_items orc Build src base le its s = (StOk s', cs) -> BInv s' /\ files_mono (wld s) (wld s').
Proof.
  induction its as [|it r IH]; intros s s' cs HI H.
  - cbn [run_items] in H. inversion H; subst. split; [exact HI|apply files_mono_refl].
  - pose proof (fst_run_items_cons orc Build src base le it r s) as F. rewrite H in F. cbn [fst] in F.
    destruct (do_item orc Build src base le it s) as [s2|k w|] eqn:E; try discriminate.
    destruct (do_item_BInv _ _ _ HI E) as [HI2 M2].
    destruct (run_items orc Build src base le r s2) as [res cs2] eqn:R. cbn [fst] in F. subst res.
    destruct (IH _ _ _ HI2 R) as [HI' M']. split; [exact HI'|eapply files_mono_trans; eauto].
Qed.

(* the world the option adds to: the output with one more line ending, one more write event *)
Definition with_le (w : world) (txt : str) : world :=
  mkW (fs_put (w_fs w) out (File (txt ++ le))) (w_log w ++ [EWrite out]).

(* the epilogue on the Build sink, with and without the option *)
Lemma epilogue_build_tn s1 : BInv s1 ->
  match epilogue Build le false s1 with
  | PpOk w_off =>
    w_off = wld s1 /\
    ((flag s1 = false /\ epilogue Build le true s1 = PpOk w_off) \/
     (flag s1 = true /\ exists txt, read_file (w_fs w_off) out = Some txt /\
                                    epilogue Build le true s1 = PpOk (with_le w_off txt)))
  | o => epilogue Build le true s1 = o
  end.
Proof.
  intros [Hk Hf]. unfold epilogue. destruct (pmode s1); try reflexivity.
  - destruct (has_tags (tg s1) && negb (mode_eqb Build Clean)); [reflexivity|].
    rewrite andb_false_r, andb_true_r, Hk. cbn [sink_done]. split; [reflexivity|].
    destruct (flag s1) eqn:F; [right|left; split; reflexivity]. split; [reflexivity|].
    destruct (proj1 (is_file_read _ _) (Hf eq_refl)) as [txt R]. exists txt. split; [exact R|].
    cbn [sink_write]. unfold w_append. unfold read_file in R.
    destruct (fs_get (w_fs (wld s1)) out) as [[c|]|]; inversion R; subst. reflexivity.
  - destruct (has_tags (tg s1) && negb (mode_eqb Build Clean)); [reflexivity|].
    rewrite andb_false_r, andb_true_r, Hk. cbn [sink_done]. split; [reflexivity|].
    destruct (flag s1) eqn:F; [right|left; split; reflexivity]. split; [reflexivity|].
    destruct (proj1 (is_file_read _ _) (Hf eq_refl)) as [txt R]. exists txt. split; [exact R|].
    cbn [sink_write]. unfold w_append. unfold read_file in R.
    destruct (fs_get (w_fs (wld s1)) out) as [[c|]|]; inversion R; subst. reflexivity.
Qed.

Lemma spec_out_build_tn its s0 : BInv s0 ->
  match spec_out orc Build src base le false its s0 with
  | PpOk w_off =>
    spec_out orc Build src base le true its s0 = PpOk w_off \/
    exists txt, read_file (w_fs w_off) out = Some txt /\
                spec_out orc Build src base le true its s0 = PpOk (with_le w_off txt)
  | o => spec_out orc Build src base le true its s0 = o
  end.
Proof.
  intros HI. unfold spec_out.
  destruct (run_items orc Build src base le its s0) as [res cs] eqn:R. cbn [fst].
  destruct res as [s1|k w|]; try reflexivity.
  destruct (run_items_BInv _ _ _ _ HI R) as [HI1 _].
  pose proof (epilogue_build_tn s1 HI1) as E.
  destruct (epilogue Build le false s1) as [w_off| | |]; try exact E.
  destruct E as [_ [[_ E]|[_ E]]]; [left; exact E|right; exact E].
Qed.

End BuildSink.

(* ===================================================================================================================
   C13 in Build mode: one pass, fixed environment, the option on and off
   =================================================================================================================== *)
Lemma pp_run_ok_inv orc md base src first tn w w' :
  pp_run orc md base src first tn w = PpOk w' ->
  exists raw out, read_file (w_fs w) src = Some raw /\ remove_txtpp src = Some out.
Proof.
  rewrite pp_run_unfold. destruct (read_file (w_fs w) src) as [raw|]; [|discriminate].
  destruct (remove_txtpp src) as [out|]; [|discriminate]. intros _. exists raw, out. split; reflexivity.
Qed.

(* the state in which the line loop of a Build pass starts *)
Definition build_s0 (first : bool) (out : path) (w0 : world) : pst :=
  mkP None false (if first then PFirst else PExec) tags_new (SBuild out) w0.

Lemma pp_run_build_unfold orc base src first tn w raw out :
  read_file (w_fs w) src = Some raw -> remove_txtpp src = Some out ->
  pp_run orc Build base src first tn w =
  if is_txtpp_file out then PpErr KOpen w else
  match w_write w out [] with
  | None => PpErr KOpen w
  | Some w0 => pp_rest orc Build base src first tn raw (SBuild out) w0
  end.
Proof.
  intros Hr Ho. rewrite pp_run_unfold, Hr, Ho. destruct (is_txtpp_file out); [reflexivity|].
  unfold sink_new. destruct (w_write w out []); reflexivity.
Qed.

(* THE STATEMENT.  A Build pass (first or final) of one source in one world, with the option off and on:
   - if the pass without the option fails, or reports dependencies, the pass with the option has the very same outcome
     (same error kind, same world, same dependencies);
   - if it succeeds with the world w_off, the pass with the option succeeds too, and its world is either w_off itself
     or w_off where the output, a file holding txt, has been appended the line ending of the source (one more
     EWrite event on the output in the log).  Nothing else differs: no other path, no temp file, no command. *)
Theorem trailing_newline_build orc base src first w raw out :
  read_file (w_fs w) src = Some raw -> remove_txtpp src = Some out ->
  match pp_run orc Build base src first false w with
  | PpOk w_off =>
    pp_run orc Build base src first true w = PpOk w_off \/
    exists txt, read_file (w_fs w_off) out = Some txt /\
                pp_run orc Build base src first true w = PpOk (with_le (detect_le raw) out w_off txt)
  | o => pp_run orc Build base src first true w = o
  end.
Proof.
  intros Hr Ho. rewrite !(pp_run_build_unfold orc base src first _ w raw out Hr Ho).
  destruct (is_txtpp_file out); [reflexivity|].
  destruct (w_write w out []) as [w0|]; [|reflexivity].
  destruct (snd (take_valid (lines raw))) eqn:Hb.
  - rewrite (pp_rest_bad orc Build base src first true false raw _ _ Hb).
    destruct (pp_rest orc Build base src first false raw (SBuild out) w0); try reflexivity. left. reflexivity.
  - rewrite !pp_rest_spec by exact Hb. apply spec_out_build_tn. split; [reflexivity|discriminate].
Qed.

(* the verdicts coincide *)
Corollary trailing_newline_build_same_verdict orc base src first w :
  ((exists w1, pp_run orc Build base src first true w = PpOk w1) <->
   (exists w2, pp_run orc Build base src first false w = PpOk w2)) /\
  (forall k w', pp_run orc Build base src first true w = PpErr k w' <->
                pp_run orc Build base src first false w = PpErr k w') /\
  (forall ds w', pp_run orc Build base src first true w = PpHasDeps ds w' <->
                 pp_run orc Build base src first false w = PpHasDeps ds w').
Proof.
  destruct (read_file (w_fs w) src) as [raw|] eqn:Hr.
  2:{ rewrite !pp_run_unfold, Hr. repeat split; try (intros [w1 H]; discriminate); intros H; exact H. }
  destruct (remove_txtpp src) as [out|] eqn:Ho.
  2:{ rewrite !pp_run_unfold, Hr, Ho. repeat split; try (intros [w1 H]; discriminate); intros H; exact H. }
  pose proof (trailing_newline_build orc base src first w raw out Hr Ho) as T.
  destruct (pp_run orc Build base src first false w) as [w_off|ds0 w0|k0 w0|].
  - assert (E : exists w1, pp_run orc Build base src first true w = PpOk w1).
    { destruct T as [T|(txt & _ & T)]; eexists; exact T. }
    destruct E as [w1 E]. rewrite E. split; [split; intros _; eexists; reflexivity|].
    split; intros; split; discriminate.
  - rewrite T. split; [reflexivity|]. split; reflexivity.
  - rewrite T. split; [reflexivity|]. split; reflexivity.
  - rewrite T. split; [reflexivity|]. split; reflexivity.
Qed.

(* the form of the task: both passes succeed; the trees agree everywhere except on the output, which holds the same
   text or the same text followed by one line ending; the logs agree up to one final EWrite on the output *)
Corollary trailing_newline_build_files orc base src first w raw out w_on w_off :
  read_file (w_fs w) src = Some raw -> remove_txtpp src = Some out ->
  pp_run orc Build base src first true w = PpOk w_on ->
  pp_run orc Build base src first false w = PpOk w_off ->
  (forall p, p <> out -> fs_get (w_fs w_on) p = fs_get (w_fs w_off) p) /\
  (w_on = w_off \/
   exists txt, read_file (w_fs w_off) out = Some txt /\ read_file (w_fs w_on) out = Some (txt ++ detect_le raw) /\
               w_log w_on = w_log w_off ++ [EWrite out]).
Proof.
  intros Hr Ho Eon Eoff. pose proof (trailing_newline_build orc base src first w raw out Hr Ho) as T.
  rewrite Eoff, Eon in T. destruct T as [T|(txt & R & T)]; inversion T; subst w_on.
  - split; [reflexivity|left; reflexivity].
  - assert (out <> []).
    { intros ->. unfold read_file in R. rewrite fs_get_nil in R. discriminate. }
    split.
    + intros p Hp. cbn [with_le w_fs]. apply fs_get_put_other. congruence.
    + right. exists txt. split; [exact R|]. split; [|reflexivity].
      unfold read_file. cbn [with_le w_fs]. rewrite fs_get_put_same by assumption. reflexivity.
Qed.

(* when the directory of the source is canonical the output is a file after a successful pass: the statement in the
   exact form of the task *)
Lemma build_creates_output orc base src first tn w raw out w' :
  read_file (w_fs w) src = Some raw -> remove_txtpp src = Some out -> all_normal (parent src) ->
  pp_run orc Build base src first tn w = PpOk w' -> exists txt, read_file (w_fs w') out = Some txt.
Proof.
  intros Hr Ho Hn. rewrite (pp_run_build_unfold orc base src first tn w raw out Hr Ho).
  destruct (is_txtpp_file out); [discriminate|].
  destruct (w_write w out []) as [w0|] eqn:Ew; [|discriminate]. intros H.
  apply pp_rest_ok_iff in H. destruct H as [_ H].
  (* where the creation landed *)
  assert (F0 : is_file (w_fs w0) out = true).
  { unfold w_write in Ew. destruct (write_target (w_fs w) out) as [q|] eqn:Et; [|discriminate].
    inversion Ew; subst w0. cbn [w_fs].
    destruct (remove_txtpp_shape src out Ho) as (dir & n & m & Es & Eo).
    assert (Hdir : all_normal dir) by (unfold parent in Hn; rewrite Es, removelast_last in Hn; exact Hn).
    destruct (write_target_shape _ _ _ Et) as (rp & n' & Ep & _ & Eq).
    rewrite Eo in Ep. apply app_inj_tail in Ep. destruct Ep as [<- <-].
    rewrite (lex_normalize_normal dir Hdir) in Eq. subst q. rewrite <- Eo.
    unfold is_file. rewrite fs_get_put_same; [reflexivity|]. rewrite Eo. destruct dir; discriminate. }
  unfold spec_out in H.
  destruct (run_items orc Build src base (detect_le raw) (items_of' Build raw)
              (mkP None false (if first then PFirst else PExec) tags_new (SBuild out) w0)) as [res cs] eqn:R.
  cbn [fst] in H. destruct res as [s1|k w1|]; try discriminate.
  assert (HI0 : BInv out (mkP None false (if first then PFirst else PExec) tags_new (SBuild out) w0))
    by (split; [reflexivity|discriminate]).
  destruct (run_items_BInv orc src base (detect_le raw) out _ _ _ _ HI0 R) as [[Hk Hf] M].
  specialize (M out F0). cbn [wld] in M.
  (* the epilogue only appends *)
  unfold epilogue in H. rewrite Hk in H.
  assert (T : (if has_tags (tg s1) && negb (mode_eqb Build Clean) then PpErr KDirective (wld s1)
               else match (if flag s1 && tn then sink_write (SBuild out) (wld s1) (detect_le raw) else inl (SBuild out, wld s1)) with
                    | inl (k1, w1) => match sink_done k1 w1 with inl w2 => PpOk w2 | inr k => PpErr k w1 end
                    | inr k => PpErr k (wld s1)
                    end) = PpOk w' -> exists txt, read_file (w_fs w') out = Some txt).
  { destruct (has_tags (tg s1) && negb (mode_eqb Build Clean)); [discriminate|].
    destruct (flag s1 && tn).
    - destruct (sink_write (SBuild out) (wld s1) (detect_le raw)) as [[k1 w1]|] eqn:Es; [|discriminate].
      pose proof (sink_write_files_mono _ _ _ _ _ Es out M) as M1.
      cbn [sink_write] in Es. destruct (w_append (wld s1) out (detect_le raw)); [|discriminate].
      inversion Es; subst. cbn [sink_done]. intros E; inversion E; subst. apply is_file_read. exact M1.
    - cbn [sink_done]. intros E; inversion E; subst. apply is_file_read. exact M. }
  destruct (pmode s1); [exact (T H)|exact (T H)|discriminate].
Qed.

Theorem trailing_newline_build_canonical orc base src first w raw out w_on w_off :
  read_file (w_fs w) src = Some raw -> remove_txtpp src = Some out -> all_normal (parent src) ->
  pp_run orc Build base src first true w = PpOk w_on ->
  pp_run orc Build base src first false w = PpOk w_off ->
  exists txt, read_file (w_fs w_off) out = Some txt /\
              (read_file (w_fs w_on) out = Some txt \/ read_file (w_fs w_on) out = Some (txt ++ detect_le raw)) /\
              forall p, p <> out -> fs_get (w_fs w_on) p = fs_get (w_fs w_off) p.
Proof.
  intros Hr Ho Hn Eon Eoff.
  destruct (build_creates_output orc base src first false w raw out w_off Hr Ho Hn Eoff) as [txt R].
  destruct (trailing_newline_build_files orc base src first w raw out w_on w_off Hr Ho Eon Eoff) as [Hfr [->|(txt' & R' & Ron & _)]].
  - exists txt. split; [exact R|]. split; [left; exact R|exact Hfr].
  - rewrite R in R'. inversion R'; subst txt'. exists txt. split; [exact R|]. split; [right; exact Ron|exact Hfr].
Qed.

(* ===================================================================================================================
   a source whose last item is an ordinary text line
   =================================================================================================================== *)
Lemma run_items_snoc_inv orc md src base le it pre : forall s0 s2,
  fst (run_items orc md src base le (pre ++ [it]) s0) = StOk s2 ->
  exists s, fst (run_items orc md src base le pre s0) = StOk s /\ do_item orc md src base le it s = StOk s2.
Proof.
  induction pre as [|x pre IH]; intros s0 s2 H.
  - cbn [app] in H. rewrite fst_run_items_cons in H. exists s0. split; [reflexivity|].
    destruct (do_item orc md src base le it s0) as [s1|k w|]; try discriminate. cbn [run_items fst] in H. exact H.
  - cbn [app] in H. rewrite fst_run_items_cons in H. rewrite fst_run_items_cons.
    destruct (do_item orc md src base le x s0) as [s1|k w|]; try discriminate. apply IH. exact H.
Qed.

(* `ends_with_text_line`.  The parsed source ends with the text line l and the final Build pass without the option
   succeeds.  Let s be the state after the items before l, and l' the line l after tag substitution in that state
   (l' = l when no tag is stored).  Then the output without the option is `before ++ l'` — it ends with l' and no line
   ending —, the pass with the option succeeds too, and its output is `before ++ l' ++ le`; nothing else differs. *)
Theorem build_ends_with_text_line orc base src w raw out pre l w_off :
  read_file (w_fs w) src = Some raw -> remove_txtpp src = Some out ->
  items_of Build w src = pre ++ [IText l] ->
  pp_run orc Build base src false false w = PpOk w_off ->
  exists w0 s l' t' before w_on,
    w_write w out [] = Some w0 /\
    fst (run_items orc Build src base (detect_le raw) pre (build_s0 false out w0)) = StOk s /\
    inject (tg s) l (detect_le raw) = Some (l', t') /\
    (stored (tg s) = [] -> l' = l) /\
    read_file (w_fs w_off) out = Some (before ++ l') /\
    pp_run orc Build base src false true w = PpOk w_on /\
    read_file (w_fs w_on) out = Some (before ++ l' ++ detect_le raw) /\
    (forall p, p <> out -> fs_get (w_fs w_on) p = fs_get (w_fs w_off) p).
Proof.
  intros Hr Ho Hits Eoff. set (le := detect_le raw).
  pose proof (trailing_newline_build orc base src false w raw out Hr Ho) as T. rewrite Eoff in T.
  rewrite (pp_run_build_unfold orc base src false false w raw out Hr Ho) in Eoff.
  destruct (is_txtpp_file out); [discriminate|].
  destruct (w_write w out []) as [w0|] eqn:Ew; [|discriminate].
  apply pp_rest_ok_iff in Eoff. destruct Eoff as [Hb Eoff].
  assert (Ei : items_of' Build raw = pre ++ [IText l]).
  { unfold items_of in Hits. rewrite Hr in Hits. exact Hits. }
  rewrite Ei in Eoff. fold le in Eoff. unfold spec_out in Eoff. change (mkP None false PExec tags_new (SBuild out) w0) with (build_s0 false out w0) in Eoff.
  destruct (fst (run_items orc Build src base le (pre ++ [IText l]) (build_s0 false out w0))) as [s2|k w1|] eqn:R;
    try discriminate.
  destruct (run_items_snoc_inv _ _ _ _ _ _ _ _ _ R) as (s & Rpre & Ed).
  (* the state before the last line: final-pass mode, Build sink *)
  destruct (run_items orc Build src base le pre (build_s0 false out w0)) as [res cs] eqn:Rp. cbn [fst] in Rpre. subst res.
  assert (HI0 : BInv out (build_s0 false out w0)) by (split; [reflexivity|discriminate]).
  destruct (run_items_BInv orc src base le out _ _ _ _ HI0 Rp) as [[Hk Hf] _].
  assert (Hp : pmode s = PExec) by (apply (exec_mode_stays orc Build src base le pre (build_s0 false out w0) s cs); [reflexivity|exact Rp]).
  (* the last line *)
  rewrite <- as_text_do_item in Ed. unfold as_text in Ed. rewrite Hp in Ed. cbn [is_execute] in Ed.
  destruct (inject (tg s) l le) as [[l' t']|] eqn:Einj; [|discriminate].
  destruct (emit_build le out (set_tg s t') _ _ _ Hk Ed) as (Hk2 & _ & X). cbn [pmode set_tg] in X. rewrite Hp in X.
  cbn [is_execute negb wld set_tg flag] in X. destruct X as (Hf2 & old & _ & R2).
  (* the epilogue *)
  assert (HI2 : BInv out s2).
  { split; [exact Hk2|]. intros _. apply is_file_read. eexists; exact R2. }
  pose proof (epilogue_build_tn le out s2 HI2) as E. rewrite Eoff in E.
  destruct E as [Ew0 [[Hff _]|[_ (txt & Rt & _)]]]; [congruence|]. subst w_off.
  rewrite R2 in Rt. inversion Rt; subst txt. clear Rt.
  destruct T as [T|(txt & Rt & T)].
  - (* impossible: the pass with the option appends *)
    exfalso.
    rewrite (pp_run_build_unfold orc base src false true w raw out Hr Ho) in T.
    destruct (is_txtpp_file out); [discriminate|]. rewrite Ew in T.
    rewrite pp_rest_spec in T by exact Hb. rewrite Ei in T. fold le in T. unfold spec_out in T.
    change (mkP None false PExec tags_new (SBuild out) w0) with (build_s0 false out w0) in T. rewrite R in T.
    pose proof (epilogue_build_tn le out s2 HI2) as E. rewrite Eoff in E.
    destruct E as [_ [[Hff _]|[_ (txt & Rt & E)]]]; [congruence|]. rewrite E in T. inversion T as [T1].
    apply (f_equal w_log) in T1. cbn in T1. apply (f_equal (@length event)) in T1. rewrite app_length in T1. cbn in T1. lia.
  - rewrite R2 in Rt. inversion Rt; subst txt. clear Rt.
    assert (out <> []).
    { intros ->. unfold read_file in R2. rewrite fs_get_nil in R2. discriminate. }
    exists w0, s, l', t', (old ++ (if flag s then le else [])), (with_le le out (wld s2) ((old ++ (if flag s then le else []) ++ l'))).
    split; [reflexivity|]. split; [fold le; rewrite Rp; reflexivity|]. split; [exact Einj|]. split.
    { intros Hst. assert (El : ends_with_lf l = false).
      { pose proof Einj as Ej. unfold inject in Ej. destruct (ends_with_lf l); [discriminate|reflexivity]. }
      rewrite (inject_no_tags le (tg s) l Hst El) in Einj. inversion Einj; reflexivity. }
    split; [rewrite R2, <- app_assoc; reflexivity|]. split; [exact T|]. split.
    + unfold read_file. cbn [with_le w_fs]. rewrite fs_get_put_same by assumption. rewrite <- !app_assoc. reflexivity.
    + intros p Hp'. cbn [with_le w_fs]. apply fs_get_put_other. congruence.
Qed.

(* ---- non-vacuity: the source a.txtpp = "-- TXTPP#temp t\n-- hello\nh\n" of CleanVerifyFacts (a temp directive, then the
   text line "h"), alone in the root directory ---- *)
Example trailing_newline_build_example :
  let on := pp_run ex_orc Build [] ex_src false true ex_w0 in
  let off := pp_run ex_orc Build [] ex_src false false ex_w0 in
  exists w_on w_off,
    on = PpOk w_on /\ off = PpOk w_off /\
    read_file (w_fs w_off) ex_out = Some [104] /\             (* "h" *)
    read_file (w_fs w_on) ex_out = Some [104; 10] /\          (* "h\n" *)
    w_on = with_le (detect_le ex_raw) ex_out w_off [104] /\
    all_normal (parent ex_src) /\
    items_of Build ex_w0 ex_src =
      [IDir (mkD [] [45; 45; 32] DTemp [[116]; [104; 101; 108; 108; 111]]) true] ++ [IText [104]].
Proof. cbv zeta. eexists. eexists. repeat split; try (vm_compute; reflexivity). constructor. Qed.

(* and the theorems apply to it *)
Example build_ends_with_text_line_example :
  exists w_on w_off before,
    pp_run ex_orc Build [] ex_src false false ex_w0 = PpOk w_off /\
    pp_run ex_orc Build [] ex_src false true ex_w0 = PpOk w_on /\
    read_file (w_fs w_off) ex_out = Some (before ++ [104]) /\
    read_file (w_fs w_on) ex_out = Some (before ++ [104] ++ [10]).
Proof.
  destruct trailing_newline_build_example as (w_on & w_off & Eon & Eoff & _ & _ & _ & _ & Hits).
  destruct (build_ends_with_text_line ex_orc [] ex_src ex_w0 ex_raw ex_out _ [104] w_off eq_refl eq_refl Hits Eoff)
    as (w0 & s & l' & t' & before & w_on' & Ew & Rs & Einj & Hst & Roff & Eon' & Ron & _).
  assert (l' = [104]).
  { apply Hst. vm_compute in Ew. inversion Ew; subst w0. vm_compute in Rs. inversion Rs; subst s. reflexivity. }
  subst l'. exists w_on', w_off, before. repeat split; assumption.
Qed.
