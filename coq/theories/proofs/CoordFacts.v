(* CoordFacts.v — invariants of the coordinator (C02, C03, C04, C05, C18) for EVERY schedule and
   EVERY sequence of worker results that respects the protocol, for projects of any size, cyclic or not.
   Statements fixed before the proofs were written; nothing is admitted. *)
Require Import Txtpp.Str Txtpp.Path Txtpp.Dep Txtpp.Coord.
From Coq Require Import Lia Permutation.
Require Import Txtpp.proofs.DepFacts.

(* ---- protocol: which results a task may send back ---- *)
Definition answers (t : task) (r : result) : Prop :=
  match t, r with
  | TScan _, RScan _ => True
  | TPp f first, RPp g res =>
      g = f /\ (first = false -> forall ds, res <> Some (PDeps ds))   (* a final pass never reports dependencies *)
  | _, _ => False
  end.

(* ghost state: the dependencies each first pass reported, and the tasks completed so far *)
Record gstate := mkG { gs : cstate; reported : list (file * list file); history : list task }.

Definition with_inflight (s : cstate) (l : list task) : cstate :=
  mkC (seen s) (seen_dirs s) (dm s) (total s) (done s) l.

Definition report (t : task) (r : result) (rep : list (file * list file)) : list (file * list file) :=
  match t, r with
  | TPp f true, RPp _ (Some (PDeps ds)) => (f, ds) :: rep
  | _, _ => rep
  end.

(* any in-flight task may complete next, with any result that answers it; the remaining in-flight
   tasks may be kept in any order (Run.v keeps them sorted) *)
Inductive gstep : gstate -> gstate -> Prop :=
| gstep_continue g t rest r s2 :
    Permutation (inflight (gs g)) (t :: rest) -> answers t r ->
    handle (with_inflight (gs g) rest) r = Continue s2 ->
    gstep g (mkG s2 (report t r (reported g)) (history g ++ [t])).

Definition ginit (files dirs : list path) : gstate :=
  mkG (fold_left exec_dir dirs (fold_left (fun s f => exec_file s f true) files c_init)) [] [].

Inductive greach (files dirs : list path) : gstate -> Prop :=
| greach_init : greach files dirs (ginit files dirs)
| greach_step g g' : greach files dirs g -> gstep g g' -> greach files dirs g'.

(* ---- notions used by the statements ---- *)
Definition finished (g : gstate) (f : file) : Prop := pmem f (fin (dm (gs g))) = true.
Definition is_seen (g : gstate) (f : file) : Prop := pmem f (seen (gs g)) = true.
(* a waits for d *)
Definition waits_for (g : gstate) (a d : file) : Prop :=
  exists l, aget (inn (dm (gs g))) d = Some l /\ In a l.
Definition waiting (g : gstate) (a : file) : Prop := exists d, waits_for g a d.
(* d was reported as a dependency of a by a's first pass *)
Definition dep_of (g : gstate) (a d : file) : Prop := exists ds, In (a, ds) (reported g) /\ In d ds.

(* the invariant: DESIGN IT.  A starting point (DESIGN.md 3.8, I1-I9):
   I1 the in-flight tasks are pairwise distinct and at most one preprocessing task per file is in flight;
   I2 a file is seen iff it is in flight, waiting, or finished, and these are mutually exclusive; every in-flight
      TPp f _ has f seen, every TScan d has d in seen_dirs;
   I3 a in inn d  =>  dep_of a d, d seen, d not finished, inn d has no duplicates; keys of inn/cnt are unique;
   I4 a waiting a has cnt a = Some (number of d with a in inn d)  (>= 1);
   I5 every reported dependency of a waiting a is finished or a waits for it;
   I6 every reported dependency of a file that is in its final pass, or finished, is finished;
   I7 a finished file has no entry in inn;
   I8 total = done + length inflight;
   I9 reported dependencies are seen; at most one report per file; a report exists only after the first pass completed;
   H  history has no duplicates, is disjoint from inflight, TPp f true in history iff f seen and not in first pass, ... *)
(* ======================================================================== *)
(* The invariant.  `invP P s rep hist` describes a coordinator state in which the files of P
   have been released for their final pass but the task is not spawned yet (P = [] between two
   iterations of the loop).  Every field is phrased with In / NoDup, so it is insensitive to the
   order of `inflight`. *)

Definition tseen (s : cstate) (t : task) : Prop :=
  match t with TScan d => In d (seen_dirs s) | TPp f _ => In f (seen s) end.

Definition Dep (rep : list (file * list file)) (a d : file) : Prop :=
  exists ds, In (a, ds) rep /\ In d ds.

Record invP (P : list file) (s : cstate) (rep : list (file * list file)) (hist : list task) : Prop :=
 mkInvP {
  (* I1 *)
  i_fl_nodup : NoDup (inflight s);
  i_seen_nodup : NoDup (seen s);
  i_dirs_nodup : NoDup (seen_dirs s);
  (* I3/I4: unique keys, duplicate-free depender lists, exact counters *)
  i_dm : dm_ok (dm s);
  (* I8 *)
  i_count : total s = (done s + length (inflight s))%nat;
  (* I2 *)
  i_fl_seen : forall t, In t (inflight s) -> tseen s t;
  i_hist_seen : forall t, In t hist -> tseen s t;
  i_status : forall f, In f (seen s) ->
     (exists b, In (TPp f b) (inflight s)) \/ (exists d, Wm (inn (dm s)) f d) \/
     In f (fin (dm s)) \/ In f P;
  i_fin_seen : forall f, In f (fin (dm s)) -> In f (seen s);
  i_w_seen : forall a d, Wm (inn (dm s)) a d -> In a (seen s);
  i_one : forall f b1 b2, In (TPp f b1) (inflight s) -> In (TPp f b2) (inflight s) -> b1 = b2;
  i_fin_nfl : forall f b, In f (fin (dm s)) -> ~ In (TPp f b) (inflight s);
  i_w_nfl : forall a d b, Wm (inn (dm s)) a d -> ~ In (TPp a b) (inflight s);
  i_w_nfin : forall a d, Wm (inn (dm s)) a d -> ~ In a (fin (dm s));
  (* I3 *)
  i_w_dep : forall a d, Wm (inn (dm s)) a d -> Dep rep a d;
  i_w_dnfin : forall a d, Wm (inn (dm s)) a d -> ~ In d (fin (dm s));
  (* I5/I6 *)
  i_dep_status : forall a d, Dep rep a d -> In d (fin (dm s)) \/ Wm (inn (dm s)) a d;
  (* I9/H *)
  i_rep_hist : forall a ds, In (a, ds) rep -> In (TPp a true) hist;
  i_hist_nodup : NoDup hist;
  i_hist_nfl : forall t, In t hist -> ~ In t (inflight s);
  i_hist_final : forall f, In (TPp f false) hist -> In f (fin (dm s));
  i_fin_hist : forall f, In f (fin (dm s)) ->
     In (TPp f false) hist \/ (In (TPp f true) hist /\ forall ds, ~ In (f, ds) rep);
  (* released, final pass not spawned yet *)
  p_nodup : NoDup P;
  p_seen : forall f, In f P -> In f (seen s);
  p_nfl : forall f b, In f P -> ~ In (TPp f b) (inflight s);
  p_nw : forall f d, In f P -> ~ Wm (inn (dm s)) f d;
  p_nfin : forall f, In f P -> ~ In f (fin (dm s)) }.

Arguments i_fl_nodup {P s rep hist}.
Arguments i_seen_nodup {P s rep hist}.
Arguments i_dirs_nodup {P s rep hist}.
Arguments i_dm {P s rep hist}.
Arguments i_count {P s rep hist}.
Arguments i_fl_seen {P s rep hist}.
Arguments i_hist_seen {P s rep hist}.
Arguments i_status {P s rep hist}.
Arguments i_fin_seen {P s rep hist}.
Arguments i_w_seen {P s rep hist}.
Arguments i_one {P s rep hist}.
Arguments i_fin_nfl {P s rep hist}.
Arguments i_w_nfl {P s rep hist}.
Arguments i_w_nfin {P s rep hist}.
Arguments i_w_dep {P s rep hist}.
Arguments i_w_dnfin {P s rep hist}.
Arguments i_dep_status {P s rep hist}.
Arguments i_rep_hist {P s rep hist}.
Arguments i_hist_nodup {P s rep hist}.
Arguments i_hist_nfl {P s rep hist}.
Arguments i_hist_final {P s rep hist}.
Arguments i_fin_hist {P s rep hist}.
Arguments p_nodup {P s rep hist}.
Arguments p_seen {P s rep hist}.
Arguments p_nfl {P s rep hist}.
Arguments p_nw {P s rep hist}.
Arguments p_nfin {P s rep hist}.

Definition inv (g : gstate) : Prop :=
  invP [] (gs g) (reported g) (history g) /\
  (forall a d, Dep (reported g) a d -> In d (seen (gs g))).

(* ---- generic list facts ---- *)
Lemma in_snoc {A} (x y : A) l : In x (l ++ [y]) <-> In x l \/ x = y.
Proof.
  rewrite in_app_iff. simpl. split.
  - intros [H|[H|[]]]; [left; exact H|right; symmetry; exact H].
  - intros [H|H]; [left; exact H|right; left; symmetry; exact H].
Qed.

Lemma NoDup_snoc {A} (x : A) l : NoDup l -> ~ In x l -> NoDup (l ++ [x]).
Proof.
  intros H Hn. apply (Permutation_NoDup (l := x :: l)); [apply Permutation_cons_append|].
  constructor; assumption.
Qed.

Lemma NoDup_app_intro {A} (l1 l2 : list A) :
  NoDup l1 -> NoDup l2 -> (forall x, In x l1 -> ~ In x l2) -> NoDup (l1 ++ l2).
Proof.
  induction l1 as [|x r IH]; intros H1 H2 Hd; simpl; [exact H2|].
  inversion H1 as [|? ? Hn Hr]; subst. constructor.
  - intros Hi. apply in_app_or in Hi. destruct Hi as [Hi|Hi]; [contradiction|].
    apply (Hd x); [left; reflexivity|exact Hi].
  - apply IH; [exact Hr|exact H2|]. intros y Hy. apply Hd. right. exact Hy.
Qed.

Lemma perm_facts {A} (l : list A) t rest : NoDup l -> Permutation l (t :: rest) ->
  NoDup rest /\ ~ In t rest /\ (forall x, In x rest -> In x l) /\
  (forall x, In x l -> x = t \/ In x rest) /\ length l = S (length rest) /\ In t l.
Proof.
  intros ND HP.
  pose proof (Permutation_NoDup HP ND) as ND'. inversion ND' as [|? ? Hn Hr]; subst.
  split; [exact Hr|]. split; [exact Hn|]. split; [|split; [|split]].
  - intros x Hx. apply (Permutation_in x (Permutation_sym HP)). right. exact Hx.
  - intros x Hx. apply (Permutation_in x HP) in Hx. destruct Hx as [Hx|Hx]; [left; symmetry; exact Hx|right; exact Hx].
  - apply (Permutation_length HP).
  - apply (Permutation_in t (Permutation_sym HP)). left. reflexivity.
Qed.

(* ---- spawning tasks ---- *)
Lemma invP_spawn_first P s rep hist f :
  invP P s rep hist -> invP P (exec_file s f true) rep hist.
Proof.
  intros H. unfold exec_file. cbn [andb].
  destruct (pmem f (seen s)) eqn:E; [exact H|]. apply pmem_nIn in E.
  assert (Hfl : forall b, ~ In (TPp f b) (inflight s)).
  { intros b Hi. apply E. exact (i_fl_seen H _ Hi). }
  constructor; cbn [seen seen_dirs dm total done inflight].
  - apply NoDup_snoc; [apply (i_fl_nodup H)|apply Hfl].
  - constructor; [exact E|apply (i_seen_nodup H)].
  - apply (i_dirs_nodup H).
  - apply (i_dm H).
  - rewrite app_length. simpl. rewrite (i_count H). lia.
  - intros t Ht. apply in_snoc in Ht. destruct Ht as [Ht| ->].
    + pose proof (i_fl_seen H t Ht) as Hs. destruct t; simpl in *; [exact Hs|right; exact Hs].
    + simpl. left. reflexivity.
  - intros t Ht. pose proof (i_hist_seen H t Ht) as Hs.
    destruct t; simpl in *; [exact Hs|right; exact Hs].
  - intros x [<-|Hx].
    + left. exists true. apply in_snoc. right. reflexivity.
    + destruct (i_status H x Hx) as [[b Hb]|[Hw|[Hf|Hp]]].
      * left. exists b. apply in_snoc. left. exact Hb.
      * right. left. exact Hw.
      * right. right. left. exact Hf.
      * right. right. right. exact Hp.
  - intros x Hx. right. apply (i_fin_seen H x Hx).
  - intros a d Hw. right. apply (i_w_seen H a d Hw).
  - intros x b1 b2 H1 H2. apply in_snoc in H1. apply in_snoc in H2.
    destruct H1 as [H1|H1]; destruct H2 as [H2|H2].
    + apply (i_one H x b1 b2 H1 H2).
    + inversion H2; subst. exfalso. apply (Hfl _ H1).
    + inversion H1; subst. exfalso. apply (Hfl _ H2).
    + congruence.
  - intros x b Hx Hi. apply in_snoc in Hi. destruct Hi as [Hi|Hi].
    + apply (i_fin_nfl H x b Hx Hi).
    + inversion Hi; subst. apply E. apply (i_fin_seen H _ Hx).
  - intros a d b Hw Hi. apply in_snoc in Hi. destruct Hi as [Hi|Hi].
    + apply (i_w_nfl H a d b Hw Hi).
    + inversion Hi; subst. apply E. apply (i_w_seen H _ _ Hw).
  - exact (i_w_nfin H).
  - exact (i_w_dep H).
  - exact (i_w_dnfin H).
  - exact (i_dep_status H).
  - exact (i_rep_hist H).
  - exact (i_hist_nodup H).
  - intros t Ht Hi. apply in_snoc in Hi. destruct Hi as [Hi| ->].
    + apply (i_hist_nfl H t Ht Hi).
    + apply E. exact (i_hist_seen H _ Ht).
  - exact (i_hist_final H).
  - exact (i_fin_hist H).
  - exact (p_nodup H).
  - intros x Hx. right. apply (p_seen H x Hx).
  - intros x b Hx Hi. apply in_snoc in Hi. destruct Hi as [Hi|Hi].
    + apply (p_nfl H x b Hx Hi).
    + inversion Hi; subst. apply E. apply (p_seen H _ Hx).
  - exact (p_nw H).
  - exact (p_nfin H).
Qed.

Lemma invP_spawn_dir P s rep hist d :
  invP P s rep hist -> invP P (exec_dir s d) rep hist.
Proof.
  intros H. unfold exec_dir.
  destruct (pmem d (seen_dirs s)) eqn:E; [exact H|]. apply pmem_nIn in E.
  assert (Hpp : forall f b, In (TPp f b) (inflight s ++ [TScan d]) -> In (TPp f b) (inflight s)).
  { intros f b Hi. apply in_snoc in Hi. destruct Hi as [Hi|Hi]; [exact Hi|discriminate]. }
  constructor; cbn [seen seen_dirs dm total done inflight].
  - apply NoDup_snoc; [apply (i_fl_nodup H)|]. intros Hi. apply E. exact (i_fl_seen H _ Hi).
  - apply (i_seen_nodup H).
  - constructor; [exact E|apply (i_dirs_nodup H)].
  - apply (i_dm H).
  - rewrite app_length. simpl. rewrite (i_count H). lia.
  - intros t Ht. apply in_snoc in Ht. destruct Ht as [Ht| ->].
    + pose proof (i_fl_seen H t Ht) as Hs. destruct t; simpl in *; [right; exact Hs|exact Hs].
    + simpl. left. reflexivity.
  - intros t Ht. pose proof (i_hist_seen H t Ht) as Hs.
    destruct t; simpl in *; [right; exact Hs|exact Hs].
  - intros x Hx. destruct (i_status H x Hx) as [[b Hb]|[Hw|[Hf|Hp]]].
    + left. exists b. apply in_snoc. left. exact Hb.
    + right. left. exact Hw.
    + right. right. left. exact Hf.
    + right. right. right. exact Hp.
  - exact (i_fin_seen H).
  - exact (i_w_seen H).
  - intros x b1 b2 H1 H2. apply (i_one H x b1 b2); apply Hpp; assumption.
  - intros x b Hx Hi. apply (i_fin_nfl H x b Hx). apply Hpp. exact Hi.
  - intros a d0 b Hw Hi. apply (i_w_nfl H a d0 b Hw). apply Hpp. exact Hi.
  - exact (i_w_nfin H).
  - exact (i_w_dep H).
  - exact (i_w_dnfin H).
  - exact (i_dep_status H).
  - exact (i_rep_hist H).
  - exact (i_hist_nodup H).
  - intros t Ht Hi. apply in_snoc in Hi. destruct Hi as [Hi| ->].
    + apply (i_hist_nfl H t Ht Hi).
    + apply E. exact (i_hist_seen H _ Ht).
  - exact (i_hist_final H).
  - exact (i_fin_hist H).
  - exact (p_nodup H).
  - exact (p_seen H).
  - intros x b Hx Hi. apply (p_nfl H x b Hx). apply Hpp. exact Hi.
  - exact (p_nw H).
  - exact (p_nfin H).
Qed.

Lemma invP_spawn_final P s rep hist a :
  invP (a :: P) s rep hist -> invP P (exec_file s a false) rep hist.
Proof.
  intros H. unfold exec_file. cbn [andb].
  assert (Ha : In a (a :: P)) by (left; reflexivity).
  pose proof (p_nodup H) as NDP. inversion NDP as [|? ? HaP NDP']; subst.
  constructor; cbn [seen seen_dirs dm total done inflight].
  - apply NoDup_snoc; [apply (i_fl_nodup H)|]. apply (p_nfl H a false Ha).
  - apply (i_seen_nodup H).
  - apply (i_dirs_nodup H).
  - apply (i_dm H).
  - rewrite app_length. simpl. rewrite (i_count H). lia.
  - intros t Ht. apply in_snoc in Ht. destruct Ht as [Ht| ->].
    + exact (i_fl_seen H t Ht).
    + simpl. apply (p_seen H a Ha).
  - exact (i_hist_seen H).
  - intros x Hx. destruct (i_status H x Hx) as [[b Hb]|[Hw|[Hf|[Hp|Hp]]]].
    + left. exists b. apply in_snoc. left. exact Hb.
    + right. left. exact Hw.
    + right. right. left. exact Hf.
    + subst x. left. exists false. apply in_snoc. right. reflexivity.
    + right. right. right. exact Hp.
  - exact (i_fin_seen H).
  - exact (i_w_seen H).
  - intros x b1 b2 H1 H2. apply in_snoc in H1. apply in_snoc in H2.
    destruct H1 as [H1|H1]; destruct H2 as [H2|H2].
    + apply (i_one H x b1 b2 H1 H2).
    + inversion H2; subst. exfalso. apply (p_nfl H a b1 Ha H1).
    + inversion H1; subst. exfalso. apply (p_nfl H a b2 Ha H2).
    + congruence.
  - intros x b Hx Hi. apply in_snoc in Hi. destruct Hi as [Hi|Hi].
    + apply (i_fin_nfl H x b Hx Hi).
    + inversion Hi; subst. apply (p_nfin H a Ha Hx).
  - intros x d b Hw Hi. apply in_snoc in Hi. destruct Hi as [Hi|Hi].
    + apply (i_w_nfl H x d b Hw Hi).
    + inversion Hi; subst. apply (p_nw H a d Ha Hw).
  - exact (i_w_nfin H).
  - exact (i_w_dep H).
  - exact (i_w_dnfin H).
  - exact (i_dep_status H).
  - exact (i_rep_hist H).
  - exact (i_hist_nodup H).
  - intros t Ht Hi. apply in_snoc in Hi. destruct Hi as [Hi| ->].
    + apply (i_hist_nfl H t Ht Hi).
    + apply (p_nfin H a Ha). apply (i_hist_final H a Ht).
  - exact (i_hist_final H).
  - exact (i_fin_hist H).
  - exact NDP'.
  - intros x Hx. apply (p_seen H x). right. exact Hx.
  - intros x b Hx Hi. apply in_snoc in Hi. destruct Hi as [Hi|Hi].
    + apply (p_nfl H x b); [right; exact Hx|exact Hi].
    + inversion Hi; subst. contradiction.
  - intros x d Hx. apply (p_nw H x d). right. exact Hx.
  - intros x Hx. apply (p_nfin H x). right. exact Hx.
Qed.

Lemma invP_fold_first P rep hist fs : forall s,
  invP P s rep hist -> invP P (fold_left (fun s f => exec_file s f true) fs s) rep hist.
Proof.
  induction fs as [|f r IH]; intros s H; simpl; [exact H|].
  apply IH. apply invP_spawn_first. exact H.
Qed.

Lemma invP_fold_dir P rep hist ds : forall s,
  invP P s rep hist -> invP P (fold_left exec_dir ds s) rep hist.
Proof.
  induction ds as [|d r IH]; intros s H; simpl; [exact H|].
  apply IH. apply invP_spawn_dir. exact H.
Qed.

Lemma invP_fold_final rep hist rel : forall s,
  invP rel s rep hist -> invP [] (fold_left (fun s g => exec_file s g false) rel s) rep hist.
Proof.
  induction rel as [|a r IH]; intros s H; simpl; [exact H|].
  apply IH. apply invP_spawn_final. exact H.
Qed.

(* ---- monotonicity of seen / dm under spawning ---- *)
Lemma seen_exec_file s f b x : In x (seen s) -> In x (seen (exec_file s f b)).
Proof.
  intros H. unfold exec_file. destruct (b && pmem f (seen s)); [exact H|].
  cbn [seen]. destruct b; [right; exact H|exact H].
Qed.
Lemma seen_exec_dir s d x : In x (seen s) -> In x (seen (exec_dir s d)).
Proof. intros H. unfold exec_dir. destruct (pmem d (seen_dirs s)); exact H. Qed.
Lemma seen_fold_file b fs x : forall s, In x (seen s) ->
  In x (seen (fold_left (fun s f => exec_file s f b) fs s)).
Proof.
  induction fs as [|f r IH]; intros s H; simpl; [exact H|]. apply IH. apply seen_exec_file. exact H.
Qed.
Lemma seen_fold_dir ds x : forall s, In x (seen s) -> In x (seen (fold_left exec_dir ds s)).
Proof.
  induction ds as [|d r IH]; intros s H; simpl; [exact H|]. apply IH. apply seen_exec_dir. exact H.
Qed.
Lemma seen_after_first s f : In f (seen (exec_file s f true)).
Proof.
  unfold exec_file. cbn [andb]. destruct (pmem f (seen s)) eqn:E.
  - apply pmem_In. exact E.
  - cbn [seen]. left. reflexivity.
Qed.
Lemma fold_first_all_seen fs f : forall s, In f fs ->
  In f (seen (fold_left (fun s f => exec_file s f true) fs s)).
Proof.
  induction fs as [|h r IH]; intros s H; [destruct H|]. simpl. destruct H as [->|H].
  - apply seen_fold_file. apply seen_after_first.
  - apply IH. exact H.
Qed.

Lemma dm_exec_file s f b : dm (exec_file s f b) = dm s.
Proof. unfold exec_file. destruct (b && pmem f (seen s)); reflexivity. Qed.
Lemma dm_exec_dir s d : dm (exec_dir s d) = dm s.
Proof. unfold exec_dir. destruct (pmem d (seen_dirs s)); reflexivity. Qed.
Lemma dm_fold_file b fs : forall s, dm (fold_left (fun s f => exec_file s f b) fs s) = dm s.
Proof.
  induction fs as [|f r IH]; intros s; simpl; [reflexivity|]. rewrite IH. apply dm_exec_file.
Qed.
Lemma dm_fold_dir ds : forall s, dm (fold_left exec_dir ds s) = dm s.
Proof.
  induction ds as [|d r IH]; intros s; simpl; [reflexivity|]. rewrite IH. apply dm_exec_dir.
Qed.

(* ---- the shapes of a successful `handle` ---- *)
Lemma handle_cases s r s2 : handle s r = Continue s2 ->
  (exists fs ds, r = RScan (Some (fs, ds)) /\
     s2 = fold_left exec_dir ds (fold_left (fun s f => exec_file s f true) fs (add_done s))) \/
  (exists f m rel, r = RPp f (Some POk) /\ notify_finish (dm s) f = Some (m, rel) /\
     s2 = fold_left (fun s g => exec_file s g false) rel (set_dm (add_done s) m)) \/
  (exists f ds m, r = RPp f (Some (PDeps ds)) /\ add_dependency (dm s) f ds = (m, true) /\
     s2 = fold_left (fun s d => exec_file s d true) ds (set_dm (add_done s) m)) \/
  (exists f ds m, r = RPp f (Some (PDeps ds)) /\ add_dependency (dm s) f ds = (m, false) /\
     s2 = exec_file (set_dm (add_done s) m) f false).
Proof.
  unfold handle. intros H. destruct r as [[[fs ds]|]|f [[|ds]|]]; try discriminate.
  - left. exists fs, ds. split; [reflexivity|]. inversion H. reflexivity.
  - right. left. change (dm (add_done s)) with (dm s) in H.
    destruct (notify_finish (dm s) f) as [[m rel]|] eqn:E; [|discriminate].
    exists f, m, rel. split; [reflexivity|]. split; [first [reflexivity|exact E]|]. inversion H. reflexivity.
  - right. right. change (dm (add_done s)) with (dm s) in H.
    destruct (add_dependency (dm s) f ds) as [m added] eqn:E. destruct added.
    + left. exists f, ds, m. split; [reflexivity|]. split; [first [reflexivity|exact E]|]. inversion H. reflexivity.
    + right. exists f, ds, m. split; [reflexivity|]. split; [first [reflexivity|exact E]|]. inversion H. reflexivity.
Qed.

(* ---- completing a task ---- *)
Lemma invP_scan_done s rep hist d rest :
  invP [] s rep hist -> Permutation (inflight s) (TScan d :: rest) ->
  invP [] (add_done (with_inflight s rest)) rep (hist ++ [TScan d]).
Proof.
  intros H HP.
  destruct (perm_facts _ _ _ (i_fl_nodup H) HP) as [R1 [R2 [R3 [R4 [R5 R6]]]]].
  unfold add_done, with_inflight.
  constructor; cbn [seen seen_dirs dm total done inflight].
  - exact R1.
  - apply (i_seen_nodup H).
  - apply (i_dirs_nodup H).
  - apply (i_dm H).
  - rewrite (i_count H), R5. lia.
  - intros t Ht. exact (i_fl_seen H t (R3 t Ht)).
  - intros t Ht. apply in_snoc in Ht. destruct Ht as [Ht| ->].
    + exact (i_hist_seen H t Ht).
    + exact (i_fl_seen H _ R6).
  - intros x Hx. destruct (i_status H x Hx) as [[b Hb]|[Hw|[Hf|Hp]]].
    + left. exists b. destruct (R4 _ Hb) as [Hb'|Hb']; [discriminate|exact Hb'].
    + right. left. exact Hw.
    + right. right. left. exact Hf.
    + right. right. right. exact Hp.
  - exact (i_fin_seen H).
  - exact (i_w_seen H).
  - intros x b1 b2 H1 H2. apply (i_one H x b1 b2); apply R3; assumption.
  - intros x b Hx Hi. apply (i_fin_nfl H x b Hx). apply R3. exact Hi.
  - intros a d0 b Hw Hi. apply (i_w_nfl H a d0 b Hw). apply R3. exact Hi.
  - exact (i_w_nfin H).
  - exact (i_w_dep H).
  - exact (i_w_dnfin H).
  - exact (i_dep_status H).
  - intros a ds Hi. apply in_snoc. left. apply (i_rep_hist H a ds Hi).
  - apply NoDup_snoc; [apply (i_hist_nodup H)|]. intros Hi. apply (i_hist_nfl H _ Hi R6).
  - intros t Ht Hi. apply in_snoc in Ht. destruct Ht as [Ht| ->].
    + apply (i_hist_nfl H t Ht). apply R3. exact Hi.
    + apply R2. exact Hi.
  - intros x Hx. apply in_snoc in Hx. destruct Hx as [Hx|Hx]; [|discriminate].
    apply (i_hist_final H x Hx).
  - intros x Hx. destruct (i_fin_hist H x Hx) as [Hh|[Hh Hr]].
    + left. apply in_snoc. left. exact Hh.
    + right. split; [apply in_snoc; left; exact Hh|exact Hr].
  - constructor.
  - intros x [].
  - intros x b [].
  - intros x d0 [].
  - intros x [].
Qed.

Lemma invP_finish s rep hist f b rest m rel :
  invP [] s rep hist -> Permutation (inflight s) (TPp f b :: rest) ->
  notify_finish (dm s) f = Some (m, rel) ->
  invP rel (set_dm (add_done (with_inflight s rest)) m) rep (hist ++ [TPp f b]).
Proof.
  intros H HP Hnf.
  destruct (perm_facts _ _ _ (i_fl_nodup H) HP) as [R1 [R2 [R3 [R4 [R5 R6]]]]].
  assert (R7 : forall b', ~ In (TPp f b') rest).
  { intros b' Hi. assert (b' = b) by (apply (i_one H f b' b); [apply R3; exact Hi|exact R6]).
    subst b'. contradiction. }
  destruct (notify_finish_spec (dm s) f (i_dm H)) as [m' [out [Hnf' [Hok [Hfin [Hw [NDo Hout]]]]]]].
  rewrite Hnf in Hnf'. inversion Hnf'; subst m' out. clear Hnf'.
  assert (HWold : forall x d, Wm (inn m) x d -> Wm (inn (dm s)) x d).
  { intros x d Hx. apply Hw in Hx. apply Hx. }
  unfold set_dm, add_done, with_inflight.
  constructor; cbn [seen seen_dirs dm total done inflight].
  - exact R1.
  - apply (i_seen_nodup H).
  - apply (i_dirs_nodup H).
  - exact Hok.
  - rewrite (i_count H), R5. lia.
  - intros t Ht. exact (i_fl_seen H t (R3 t Ht)).
  - intros t Ht. apply in_snoc in Ht. destruct Ht as [Ht| ->].
    + exact (i_hist_seen H t Ht).
    + exact (i_fl_seen H _ R6).
  - intros x Hx. destruct (i_status H x Hx) as [[b' Hb]|[[d Hd]|[Hf|[]]]].
    + destruct (R4 _ Hb) as [Hb'|Hb'].
      * inversion Hb'; subst. right. right. left. apply Hfin. left. reflexivity.
      * left. exists b'. exact Hb'.
    + destruct (Nat.eq_dec (ecount (inn m) x) 0) as [Hz|Hz].
      * destruct (path_eq_dec d f) as [->|Hne].
        -- right. right. right. apply Hout. split; assumption.
        -- right. left. exists d. apply Hw. split; assumption.
      * right. left. apply ecount_pos; [apply (dm_keys _ Hok)|lia].
    + right. right. left. apply Hfin. right. exact Hf.
  - intros x Hx. apply Hfin in Hx. destruct Hx as [->|Hx].
    + exact (i_fl_seen H _ R6).
    + apply (i_fin_seen H x Hx).
  - intros a d Hx. apply (i_w_seen H a d). apply HWold. exact Hx.
  - intros x b1 b2 H1 H2. apply (i_one H x b1 b2); apply R3; assumption.
  - intros x b' Hx Hi. apply Hfin in Hx. destruct Hx as [->|Hx].
    + apply (R7 b' Hi).
    + apply (i_fin_nfl H x b' Hx). apply R3. exact Hi.
  - intros a d b' Hx Hi. apply (i_w_nfl H a d b' (HWold _ _ Hx)). apply R3. exact Hi.
  - intros a d Hx Hf. apply Hfin in Hf. destruct Hf as [->|Hf].
    + apply (i_w_nfl H f d b (HWold _ _ Hx) R6).
    + apply (i_w_nfin H a d (HWold _ _ Hx) Hf).
  - intros a d Hx. apply (i_w_dep H a d (HWold _ _ Hx)).
  - intros a d Hx Hf. apply Hw in Hx. destruct Hx as [Hx Hne]. apply Hfin in Hf.
    destruct Hf as [->|Hf]; [apply Hne; reflexivity|]. apply (i_w_dnfin H a d Hx Hf).
  - intros a d Hd. destruct (i_dep_status H a d Hd) as [Hf|Hx].
    + left. apply Hfin. right. exact Hf.
    + destruct (path_eq_dec d f) as [->|Hne].
      * left. apply Hfin. left. reflexivity.
      * right. apply Hw. split; assumption.
  - intros a ds Hi. apply in_snoc. left. apply (i_rep_hist H a ds Hi).
  - apply NoDup_snoc; [apply (i_hist_nodup H)|]. intros Hi. apply (i_hist_nfl H _ Hi R6).
  - intros t Ht Hi. apply in_snoc in Ht. destruct Ht as [Ht| ->].
    + apply (i_hist_nfl H t Ht). apply R3. exact Hi.
    + apply R2. exact Hi.
  - intros x Hx. apply in_snoc in Hx. apply Hfin. destruct Hx as [Hx|Hx].
    + right. apply (i_hist_final H x Hx).
    + left. inversion Hx. reflexivity.
  - intros x Hx. destruct (In_path_dec x (fin (dm s))) as [Hf|Hnf0].
    + destruct (i_fin_hist H x Hf) as [Hh|[Hh Hr]].
      * left. apply in_snoc. left. exact Hh.
      * right. split; [apply in_snoc; left; exact Hh|exact Hr].
    + apply Hfin in Hx. destruct Hx as [->|Hx]; [|contradiction].
      destruct b.
      * right. split; [apply in_snoc; right; reflexivity|].
        intros ds Hi. apply (i_hist_nfl H _ (i_rep_hist H f ds Hi) R6).
      * left. apply in_snoc. right. reflexivity.
  - exact NDo.
  - intros x Hx. apply Hout in Hx. destruct Hx as [Hx _]. apply (i_w_seen H x f Hx).
  - intros x b' Hx Hi. apply Hout in Hx. destruct Hx as [Hx _].
    apply (i_w_nfl H x f b' Hx). apply R3. exact Hi.
  - intros x d Hx Hd. apply Hout in Hx. destruct Hx as [_ Hz].
    assert (0 < ecount (inn m) x)%nat; [|lia].
    apply ecount_pos; [apply (dm_keys _ Hok)|]. exists d. exact Hd.
  - intros x Hx Hf. apply Hout in Hx. destruct Hx as [Hx _]. apply Hfin in Hf.
    destruct Hf as [->|Hf].
    + apply (i_w_nfl H f f b Hx R6).
    + apply (i_w_nfin H x f Hx Hf).
Qed.

Lemma invP_deps s rep hist f rest ds m added :
  invP [] s rep hist -> Permutation (inflight s) (TPp f true :: rest) ->
  add_dependency (dm s) f ds = (m, added) ->
  invP (if added then [] else [f]) (set_dm (add_done (with_inflight s rest)) m)
       ((f, ds) :: rep) (hist ++ [TPp f true]).
Proof.
  intros H HP Had.
  destruct (perm_facts _ _ _ (i_fl_nodup H) HP) as [R1 [R2 [R3 [R4 [R5 R6]]]]].
  assert (R7 : forall b', ~ In (TPp f b') rest).
  { intros b' Hi. assert (b' = true) by (apply (i_one H f b' true); [apply R3; exact Hi|exact R6]).
    subst b'. contradiction. }
  destruct (add_dependency_spec _ _ _ _ _ (i_dm H) Had) as [Hok [Hfin [Hw Hadd]]].
  assert (Hnff : ~ In f (fin (dm s))).
  { intros Hf. apply (i_fin_nfl H f true Hf R6). }
  assert (Hnwf : forall d, ~ Wm (inn (dm s)) f d).
  { intros d Hd. apply (i_w_nfl H f d true Hd R6). }
  assert (Hdep : forall a d, Dep rep a d -> Dep ((f, ds) :: rep) a d).
  { intros a d [ds0 [Hi Hd]]. exists ds0. split; [right; exact Hi|exact Hd]. }
  unfold set_dm, add_done, with_inflight.
  constructor; cbn [seen seen_dirs dm total done inflight]; try rewrite Hfin.
  - exact R1.
  - apply (i_seen_nodup H).
  - apply (i_dirs_nodup H).
  - exact Hok.
  - rewrite (i_count H), R5. lia.
  - intros t Ht. exact (i_fl_seen H t (R3 t Ht)).
  - intros t Ht. apply in_snoc in Ht. destruct Ht as [Ht| ->].
    + exact (i_hist_seen H t Ht).
    + exact (i_fl_seen H _ R6).
  - intros x Hx. destruct (i_status H x Hx) as [[b' Hb]|[[d Hd]|[Hf|[]]]].
    + destruct (R4 _ Hb) as [Hb'|Hb'].
      * inversion Hb'; subst. destruct added.
        -- right. left. destruct (proj1 Hadd eq_refl) as [d [Hd Hnf]].
           exists d. apply Hw. right. split; [reflexivity|split; assumption].
        -- right. right. right. left. reflexivity.
      * left. exists b'. exact Hb'.
    + right. left. exists d. apply Hw. left. exact Hd.
    + right. right. left. exact Hf.
  - exact (i_fin_seen H).
  - intros a d Hx. apply Hw in Hx. destruct Hx as [Hx|[-> _]].
    + apply (i_w_seen H a d Hx).
    + exact (i_fl_seen H _ R6).
  - intros x b1 b2 H1 H2. apply (i_one H x b1 b2); apply R3; assumption.
  - intros x b' Hx Hi. apply (i_fin_nfl H x b' Hx). apply R3. exact Hi.
  - intros a d b' Hx Hi. apply Hw in Hx. destruct Hx as [Hx|[-> _]].
    + apply (i_w_nfl H a d b' Hx). apply R3. exact Hi.
    + apply (R7 b' Hi).
  - intros a d Hx Hf. apply Hw in Hx. destruct Hx as [Hx|[-> _]].
    + apply (i_w_nfin H a d Hx Hf).
    + apply Hnff. exact Hf.
  - intros a d Hx. apply Hw in Hx. destruct Hx as [Hx|[-> [Hd _]]].
    + apply Hdep. apply (i_w_dep H a d Hx).
    + exists ds. split; [left; reflexivity|exact Hd].
  - intros a d Hx. apply Hw in Hx. destruct Hx as [Hx|[_ [_ Hnf]]].
    + apply (i_w_dnfin H a d Hx).
    + exact Hnf.
  - intros a d [ds0 [[Hi|Hi] Hd]].
    + inversion Hi; subst. destruct (In_path_dec d (fin (dm s))) as [Hf|Hnf].
      * left. exact Hf.
      * right. apply Hw. right. split; [reflexivity|split; assumption].
    + destruct (i_dep_status H a d) as [Hf|Hx]; [exists ds0; split; assumption| |].
      * left. exact Hf.
      * right. apply Hw. left. exact Hx.
  - intros a ds0 [Hi|Hi]; apply in_snoc.
    + inversion Hi; subst. right. reflexivity.
    + left. apply (i_rep_hist H a ds0 Hi).
  - apply NoDup_snoc; [apply (i_hist_nodup H)|]. intros Hi. apply (i_hist_nfl H _ Hi R6).
  - intros t Ht Hi. apply in_snoc in Ht. destruct Ht as [Ht| ->].
    + apply (i_hist_nfl H t Ht). apply R3. exact Hi.
    + apply R2. exact Hi.
  - intros x Hx. apply in_snoc in Hx. destruct Hx as [Hx|Hx]; [|discriminate].
    apply (i_hist_final H x Hx).
  - intros x Hx. destruct (i_fin_hist H x Hx) as [Hh|[Hh Hr]].
    + left. apply in_snoc. left. exact Hh.
    + right. split; [apply in_snoc; left; exact Hh|].
      intros ds0 [Hi|Hi].
      * inversion Hi; subst. contradiction.
      * apply (Hr ds0 Hi).
  - destruct added; constructor; [intros []|constructor].
  - intros x Hx. destruct added; [destruct Hx|]. destruct Hx as [<-|[]].
    exact (i_fl_seen H _ R6).
  - intros x b' Hx Hi. destruct added; [destruct Hx|]. destruct Hx as [<-|[]].
    apply (R7 b' Hi).
  - intros x d Hx Hd. destruct added; [destruct Hx|]. destruct Hx as [<-|[]].
    apply Hw in Hd. destruct Hd as [Hd|[_ [Hd Hnf]]].
    + apply (Hnwf d Hd).
    + assert (false = true); [|discriminate]. apply Hadd. exists d. split; assumption.
  - intros x Hx Hf. destruct added; [destruct Hx|]. destruct Hx as [<-|[]].
    apply Hnff. exact Hf.
Qed.

(* ---- initial state ---- *)
Lemma invP_init : invP [] c_init [] [].
Proof.
  assert (HW : forall a d, ~ Wm (inn (dm c_init)) a d).
  { intros a d [l [E _]]. discriminate. }
  constructor; simpl.
  - constructor.
  - constructor.
  - constructor.
  - exact dm_ok_new.
  - reflexivity.
  - intros t [].
  - intros t [].
  - intros f [].
  - intros f [].
  - intros a d Hw. exfalso. apply (HW a d Hw).
  - intros f b1 b2 [].
  - intros f b [].
  - intros a d b Hw. exfalso. apply (HW a d Hw).
  - intros a d Hw. exfalso. apply (HW a d Hw).
  - intros a d Hw. exfalso. apply (HW a d Hw).
  - intros a d Hw. exfalso. apply (HW a d Hw).
  - intros a d [ds [[] _]].
  - intros a ds [].
  - constructor.
  - intros t [].
  - intros f [].
  - intros f [].
  - constructor.
  - intros f [].
  - intros f b [].
  - intros f d [].
  - intros f [].
Qed.

Lemma inv_init files dirs : inv (ginit files dirs).
Proof.
  split; simpl.
  - apply invP_fold_dir. apply invP_fold_first. apply invP_init.
  - intros a d [ds [[] _]].
Qed.

Lemma inv_step g g' : inv g -> gstep g g' -> inv g'.
Proof.
  intros [HP HD] Hs. inversion Hs as [g0 t rest r s2 Hperm Hans Hh]; subst. clear Hs.
  assert (Hseen0 : seen (add_done (with_inflight (gs g) rest)) = seen (gs g)) by reflexivity.
  destruct (handle_cases _ _ _ Hh) as
    [[fs [ds [-> ->]]]|[[f [m [rel [-> [Hnf ->]]]]]|[[f [ds [m [-> [Had ->]]]]]|[f [ds [m [-> [Had ->]]]]]]]].
  - (* scan *)
    destruct t as [d|f b]; [|destruct Hans].
    split; cbn [gs reported history report].
    + apply invP_fold_dir. apply invP_fold_first. apply invP_scan_done; assumption.
    + intros a d0 Hd. apply seen_fold_dir. apply seen_fold_file. apply (HD a d0 Hd).
  - (* a pass of f finishes *)
    destruct t as [d|f0 b]; [destruct Hans|]. destruct Hans as [-> _].
    change (dm (with_inflight (gs g) rest)) with (dm (gs g)) in Hnf.
    assert (Hrep : report (TPp f0 b) (RPp f0 (Some POk)) (reported g) = reported g).
    { destruct b; reflexivity. }
    split; cbn [gs reported history]; rewrite Hrep.
    + apply invP_fold_final. apply invP_finish; assumption.
    + intros a d0 Hd. apply seen_fold_file. apply (HD a d0 Hd).
  - (* the first pass of f reports dependencies, some unfinished *)
    destruct t as [d|f0 b]; [destruct Hans|]. destruct Hans as [-> Hb].
    destruct b; [|exfalso; apply (Hb eq_refl ds); reflexivity].
    change (dm (with_inflight (gs g) rest)) with (dm (gs g)) in Had.
    split; cbn [gs reported history report].
    + apply invP_fold_first. apply (invP_deps _ _ _ _ _ _ _ true); assumption.
    + intros a d0 [ds0 [[Hi|Hi] Hd]].
      * inversion Hi; subst. apply fold_first_all_seen. exact Hd.
      * apply seen_fold_file. apply (HD a d0). exists ds0. split; assumption.
  - (* the first pass of f reports dependencies, all finished *)
    destruct t as [d|f0 b]; [destruct Hans|]. destruct Hans as [-> Hb].
    destruct b; [|exfalso; apply (Hb eq_refl ds); reflexivity].
    change (dm (with_inflight (gs g) rest)) with (dm (gs g)) in Had.
    split; cbn [gs reported history report].
    + apply invP_spawn_final. apply (invP_deps _ _ _ _ _ _ _ false); assumption.
    + intros a d0 [ds0 [[Hi|Hi] Hd]].
      * inversion Hi; subst. apply seen_exec_file. change (In d0 (seen (gs g))).
        destruct (add_dependency_spec _ _ _ _ _ (i_dm HP) Had) as [_ [_ [_ Hadd]]].
        destruct (In_path_dec d0 (fin (dm (gs g)))) as [Hf|Hnf].
        -- apply (i_fin_seen HP d0 Hf).
        -- assert (false = true); [|discriminate]. apply Hadd. exists d0. split; assumption.
      * apply seen_exec_file. apply (HD a d0). exists ds0. split; assumption.
Qed.

Lemma inv_reach files dirs g : greach files dirs g -> inv g.
Proof.
  induction 1 as [|g g' _ IH Hs]; [apply inv_init|]. apply (inv_step g g' IH Hs).
Qed.

(* monotonicity along a step *)
Lemma gstep_seen g g' x : gstep g g' -> In x (seen (gs g)) -> In x (seen (gs g')).
Proof.
  intros Hs Hx. inversion Hs as [g0 t rest r s2 Hperm Hans Hh]; subst. cbn [gs].
  assert (Hx0 : In x (seen (add_done (with_inflight (gs g) rest)))) by exact Hx.
  destruct (handle_cases _ _ _ Hh) as
    [[fs [ds [-> ->]]]|[[f [m [rel [-> [Hnf ->]]]]]|[[f [ds [m [-> [Had ->]]]]]|[f [ds [m [-> [Had ->]]]]]]]].
  - apply seen_fold_dir. apply seen_fold_file. exact Hx0.
  - apply seen_fold_file. exact Hx0.
  - apply seen_fold_file. exact Hx0.
  - apply seen_exec_file. exact Hx0.
Qed.

Lemma greach_inputs_seen files dirs g : greach files dirs g ->
  forall f, In f files -> In f (seen (gs g)).
Proof.
  induction 1 as [|g g' _ IH Hs]; intros f Hf.
  - unfold ginit. cbn [gs]. apply seen_fold_dir. apply fold_first_all_seen. exact Hf.
  - apply (gstep_seen g g' f Hs). apply IH. exact Hf.
Qed.

Lemma gstep_fin g g' x : inv g -> gstep g g' -> In x (fin (dm (gs g))) -> In x (fin (dm (gs g'))).
Proof.
  intros [HP _] Hs Hx. inversion Hs as [g0 t rest r s2 Hperm Hans Hh]; subst. cbn [gs].
  destruct (handle_cases _ _ _ Hh) as
    [[fs [ds [-> ->]]]|[[f [m [rel [-> [Hnf ->]]]]]|[[f [ds [m [-> [Had ->]]]]]|[f [ds [m [-> [Had ->]]]]]]]].
  - rewrite dm_fold_dir, dm_fold_file. exact Hx.
  - rewrite dm_fold_file. cbn [set_dm dm].
    change (dm (with_inflight (gs g) rest)) with (dm (gs g)) in Hnf.
    destruct (notify_finish_spec (dm (gs g)) f (i_dm HP)) as [m' [out [Hnf' [_ [Hfin _]]]]].
    rewrite Hnf in Hnf'. inversion Hnf'; subst m' out. apply Hfin. right. exact Hx.
  - rewrite dm_fold_file. cbn [set_dm dm].
    change (dm (with_inflight (gs g) rest)) with (dm (gs g)) in Had.
    destruct (add_dependency_spec _ _ _ _ _ (i_dm HP) Had) as [_ [Hfin _]]. rewrite Hfin. exact Hx.
  - rewrite dm_exec_file. cbn [set_dm dm].
    change (dm (with_inflight (gs g) rest)) with (dm (gs g)) in Had.
    destruct (add_dependency_spec _ _ _ _ _ (i_dm HP) Had) as [_ [Hfin _]]. rewrite Hfin. exact Hx.
Qed.

(* ================= EXPORTED THEOREMS ================= *)
Section Exported.
Variables (files dirs : list path) (g : gstate).
Hypothesis R : greach files dirs g.

(* C18: the unwrap in notify_finish (dependency.rs:66) can never fail *)
Theorem handle_no_panic t rest r :
  Permutation (inflight (gs g)) (t :: rest) -> answers t r ->
  handle (with_inflight (gs g) rest) r <> Panic.
Proof.
  intros Hperm Hans Hh. destruct (inv_reach _ _ _ R) as [HP _].
  unfold handle in Hh. destruct r as [[[fs ds]|]|f [[|ds]|]]; try discriminate.
  - change (dm (add_done (with_inflight (gs g) rest))) with (dm (gs g)) in Hh.
    destruct (notify_finish_spec (dm (gs g)) f (i_dm HP)) as [m' [out [Hnf _]]].
    rewrite Hnf in Hh. discriminate.
  - destruct (add_dependency (dm (add_done (with_inflight (gs g) rest))) f ds) as [m [|]]; discriminate.
Qed.

(* C02: whenever a final pass of f is in flight, every dependency f reported is finished *)
Theorem final_pass_deps_finished f d :
  In (TPp f false) (inflight (gs g)) -> dep_of g f d -> finished g d.
Proof.
  intros Hi Hd. destruct (inv_reach _ _ _ R) as [HP _]. unfold finished.
  destruct (i_dep_status HP f d Hd) as [Hf|Hw].
  - apply pmem_In. exact Hf.
  - exfalso. apply (i_w_nfl HP f d false Hw Hi).
Qed.

(* C02/C03: at most one task per file in flight, all in-flight tasks distinct *)
Theorem inflight_distinct :
  NoDup (inflight (gs g)) /\
  forall f b1 b2, In (TPp f b1) (inflight (gs g)) -> In (TPp f b2) (inflight (gs g)) -> b1 = b2.
Proof.
  destruct (inv_reach _ _ _ R) as [HP _]. split; [apply (i_fl_nodup HP)|apply (i_one HP)].
Qed.

(* C02: once finished, a file is never processed again (no task for it is in flight; `finished` is monotone) *)
Theorem finished_not_inflight f b : finished g f -> ~ In (TPp f b) (inflight (gs g)).
Proof.
  intros Hf. destruct (inv_reach _ _ _ R) as [HP _]. unfold finished in Hf. apply pmem_In in Hf.
  apply (i_fin_nfl HP f b Hf).
Qed.
Theorem finished_monotone g' f : gstep g g' -> finished g f -> finished g' f.
Proof.
  intros Hs Hf. unfold finished in *. apply pmem_In.
  apply (gstep_fin g g' f (inv_reach _ _ _ R) Hs). apply pmem_In. exact Hf.
Qed.

(* C03: no pass of a file, and no directory scan, completes twice *)
Theorem history_nodup : NoDup (history g).
Proof. destruct (inv_reach _ _ _ R) as [HP _]. apply (i_hist_nodup HP). Qed.
Theorem history_not_inflight t : In t (history g) -> ~ In t (inflight (gs g)).
Proof. destruct (inv_reach _ _ _ R) as [HP _]. apply (i_hist_nfl HP). Qed.
(* a finished file completed its final pass exactly once: it is in the history *)
Theorem finished_in_history f : finished g f ->
  In (TPp f false) (history g) \/ (In (TPp f true) (history g) /\ forall ds, ~ In (f, ds) (reported g)).
Proof.
  intros Hf. destruct (inv_reach _ _ _ R) as [HP _]. unfold finished in Hf. apply pmem_In in Hf.
  exact (i_fin_hist HP f Hf).
Qed.

(* C03: done/total bookkeeping is exact, so `done == total` iff nothing is in flight *)
Theorem counters_exact : total (gs g) = (done (gs g) + length (inflight (gs g)))%nat.
Proof. destruct (inv_reach _ _ _ R) as [HP _]. apply (i_count HP). Qed.

(* C03: every completed task belongs to a seen file or a seen directory: the run is bounded *)
Theorem history_bound :
  (length (history g) + length (inflight (gs g)) <= 2 * length (seen (gs g)) + length (seen_dirs (gs g)))%nat.
Proof.
  destruct (inv_reach _ _ _ R) as [HP _].
  set (s := gs g) in *.
  set (all := map (fun f => TPp f true) (seen s) ++ map (fun f => TPp f false) (seen s)
              ++ map TScan (seen_dirs s)).
  assert (Hlen : (length all = 2 * length (seen s) + length (seen_dirs s))%nat).
  { unfold all. rewrite !app_length, !map_length. lia. }
  assert (ND : NoDup (history g ++ inflight s)).
  { apply NoDup_app_intro; [apply (i_hist_nodup HP)|apply (i_fl_nodup HP)|apply (i_hist_nfl HP)]. }
  assert (Hincl : incl (history g ++ inflight s) all).
  { intros t Ht. assert (Hs : tseen s t).
    { apply in_app_or in Ht. destruct Ht as [Ht|Ht]; [apply (i_hist_seen HP t Ht)|apply (i_fl_seen HP t Ht)]. }
    unfold all. rewrite !in_app_iff. destruct t as [d|f [|]]; simpl in Hs.
    - right. right. apply in_map. exact Hs.
    - left. apply (in_map (fun f => TPp f true)). exact Hs.
    - right. left. apply (in_map (fun f => TPp f false)). exact Hs. }
  pose proof (NoDup_incl_length ND Hincl) as Hle. rewrite app_length in Hle. lia.
Qed.
Theorem seen_nodup : NoDup (seen (gs g)) /\ NoDup (seen_dirs (gs g)).
Proof.
  destruct (inv_reach _ _ _ R) as [HP _]. split; [apply (i_seen_nodup HP)|apply (i_dirs_nodup HP)].
Qed.

(* C03/C11: inputs are seen; reported dependencies are seen *)
Theorem inputs_seen f : In f files -> is_seen g f.
Proof. intros Hf. unfold is_seen. apply pmem_In. apply (greach_inputs_seen _ _ _ R f Hf). Qed.
Theorem deps_seen a d : dep_of g a d -> is_seen g d.
Proof.
  intros Hd. destruct (inv_reach _ _ _ R) as [_ HD]. unfold is_seen. apply pmem_In. apply (HD a d Hd).
Qed.

(* C05: when the loop exits (nothing in flight), every seen file is finished or waiting,
   a waiting file waits for an unfinished seen dependency that is itself waiting *)
Theorem exit_classification f :
  inflight (gs g) = [] -> is_seen g f -> finished g f \/ waiting g f.
Proof.
  intros Hnil Hs. destruct (inv_reach _ _ _ R) as [HP _]. unfold is_seen in Hs. apply pmem_In in Hs.
  destruct (i_status HP f Hs) as [[b Hb]|[Hw|[Hf|[]]]].
  - rewrite Hnil in Hb. destruct Hb.
  - right. exact Hw.
  - left. unfold finished. apply pmem_In. exact Hf.
Qed.
Theorem waiting_not_finished a : waiting g a -> ~ finished g a.
Proof.
  intros [d Hw] Hf. destruct (inv_reach _ _ _ R) as [HP _]. unfold finished in Hf. apply pmem_In in Hf.
  apply (i_w_nfin HP a d Hw Hf).
Qed.
Theorem waits_for_is_dep a d : waits_for g a d -> dep_of g a d /\ is_seen g d /\ ~ finished g d.
Proof.
  intros Hw. destruct (inv_reach _ _ _ R) as [HP HD].
  split; [apply (i_w_dep HP a d Hw)|]. split.
  - unfold is_seen. apply pmem_In. apply (HD a d). apply (i_w_dep HP a d Hw).
  - intros Hf. unfold finished in Hf. apply pmem_In in Hf. apply (i_w_dnfin HP a d Hw Hf).
Qed.

(* C05: a file from which no infinite dependency chain starts (Acc of the reported-dependency relation)
   is finished at exit: the acyclic part is built *)
Theorem acyclic_part_built f :
  inflight (gs g) = [] -> is_seen g f ->
  Acc (fun d a => dep_of g a d) f -> finished g f.
Proof.
  intros Hnil Hs Hacc. revert Hs. induction Hacc as [f _ IH]. intros Hs.
  destruct (exit_classification f Hnil Hs) as [Hf|[d Hw]]; [exact Hf|].
  exfalso. destruct (waits_for_is_dep f d Hw) as [Hd [Hsd Hnf]].
  apply Hnf. apply (IH d Hd Hsd).
Qed.

(* C05: the circular-dependency verdict is exact at exit *)
Theorem cycle_verdict_iff :
  inflight (gs g) = [] ->
  (has_remaining (dm (gs g)) = true <-> exists f, is_seen g f /\ ~ finished g f).
Proof.
  intros Hnil. destruct (inv_reach _ _ _ R) as [HP _].
  unfold has_remaining. rewrite existsb_exists. split.
  - intros [[d l] [Hi Hne]]. simpl in Hne. destruct l as [|a l']; [discriminate|].
    assert (Hw : Wm (inn (dm (gs g))) a d).
    { exists (a :: l'). split; [|left; reflexivity].
      apply In_aget; [apply (dm_keys _ (i_dm HP))|exact Hi]. }
    exists a. split.
    + unfold is_seen. apply pmem_In. apply (i_w_seen HP a d Hw).
    + intros Hf. unfold finished in Hf. apply pmem_In in Hf. apply (i_w_nfin HP a d Hw Hf).
  - intros [f [Hs Hnf]].
    destruct (exit_classification f Hnil Hs) as [Hf|[d [l [Hg Hi]]]]; [contradiction|].
    exists (d, l). split; [apply aget_Some_In; exact Hg|]. simpl.
    destruct l; [destruct Hi|reflexivity].
Qed.
(* ... and an unfinished file at exit can reach a cycle: it has an unfinished dependency, which has one, ... *)
Theorem unfinished_has_unfinished_dep f :
  inflight (gs g) = [] -> is_seen g f -> ~ finished g f ->
  exists d, dep_of g f d /\ is_seen g d /\ ~ finished g d.
Proof.
  intros Hnil Hs Hnf. destruct (exit_classification f Hnil Hs) as [Hf|[d Hw]]; [contradiction|].
  exists d. apply waits_for_is_dep. exact Hw.
Qed.
End Exported.

(* non-vacuity: a concrete reachable non-initial state of a diamond a -> {b, c} -> d (files as one-component paths) *)
Example reach_example :
  exists g, greach [[[97]]] [] g /\ history g <> [] /\ inflight (gs g) <> [].
Proof.
  eexists. split.
  - eapply greach_step; [apply greach_init|].
    apply (gstep_continue (ginit [[[97]]] []) (TPp [[97]] true) []
             (RPp [[97]] (Some (PDeps [[[98]]])))
             (mkC [[[98]]; [[97]]] [] (mkDM [([[97]], 1%nat)] [([[98]], [[[97]]])] []) 2%nat 1%nat
                  [TPp [[98]] true])).
    + apply Permutation_refl.
    + split; [reflexivity|]. intros Hb. discriminate Hb.
    + vm_compute. reflexivity.
  - split; discriminate.
Qed.
