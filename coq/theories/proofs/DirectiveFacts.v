(* DirectiveFacts.v — Task G (property C01): the output conforms to the DOCUMENTED directive semantics.

   `Pp.exec_directive` is shared by the machine (Pp.v) and by the specification (Spec.v), so
   `PpFacts.machine_refines_spec` does not by itself say that a directive MEANS what the README says.  This file
   proves README-shaped characterisations, one per directive, as equations on `item_output` (the chunk an item
   contributes and the state it leaves: tag store, world = tree + event log, pass mode).

     PART 0   readable byte-string literals for the examples
     PART 1   README "Execution": how a directive's raw output is formatted (`formatted`, `formatted_spec`)
     PART 2   where FILE arguments point: relative to the directory of the SOURCE (`sibling_*`)
     PART 3   G1  include            (`include_spec`, `include_spec_sibling`, `include_captured`, error cases)
     PART 4   G2  run                (`run_spec`, `run_fails`, `run_captured`, `run_not_executed_*`)
     PART 5   G3  temp               (`temp_spec`, `temp_spec_ok`, `temp_clean_spec`)
     PART 6   G4  tag / after / empty (`tag_spec`, `capture_spec`, `after_spec*`, `empty_spec`)
     PART 7   G5  ordinary lines     (`text_line_spec`, `text_line_verbatim`, `text_line_one_tag`, `text_line_written`)
     PART 8   the shape of a directive line (`directive_line`): WHITESPACES / PREFIX / name / argument
     PART 9   examples by vm_compute on concrete lines, concrete files (`pp_run`) and a whole run (`txtpp_run`)
     PART 10  README sentences that are FALSE of the model, each with its `Example`

   Nothing is left open. *)
From Coq Require Import String Ascii.
Require Import Txtpp.Str Txtpp.Consts Txtpp.Grammar Txtpp.Tags Txtpp.Path Txtpp.Fs Txtpp.Sink Txtpp.Pp Txtpp.Spec.
Require Import Txtpp.Dep Txtpp.Coord Txtpp.Run.
Require Import Txtpp.proofs.StrFacts Txtpp.proofs.GrammarFacts Txtpp.proofs.TagsFacts Txtpp.proofs.PathFacts.
Require Import Txtpp.proofs.SinkFacts Txtpp.proofs.PpFacts Txtpp.proofs.EventFacts Txtpp.proofs.RunFacts.
Require Import Txtpp.proofs.ScheduleTempFacts Txtpp.proofs.NeededRunFacts2.
(* imported last: `executes`, `is_dep`, `dir_arg`, `temp_unwritable` below are those of ExtraFactsB *)
Require Import Txtpp.proofs.ExtraFactsA Txtpp.proofs.ExtraFactsB.
From Coq Require Import Lia.

Local Arguments N.add : simpl never.
Local Arguments N.sub : simpl never.
Local Arguments N.eqb : simpl never.
Local Arguments N.ltb : simpl never.
Local Arguments N.leb : simpl never.

(* ================================================================================================
   PART 0 — literals.  `B "abc"` is the byte string of an ASCII literal; `unl` builds a text from its lines
   (every line LF-terminated).
   ================================================================================================ *)
Fixpoint B (s : string) : str :=
  match s with
  | EmptyString => []
  | String c r => N_of_ascii c :: B r
  end.
Arguments B s%string.
Definition unl (ls : list str) : str := concat (map (fun l => l ++ [LFb]) ls).

(* ================================================================================================
   PART 1 — README "Execution":
     "If the directive has output (like include and run), it will be formatted as:
        - Every line in the output will be prepended with {WHITESPACES} ...
        - The line endings will be normalized to be the same as the output file.  Whether the last line has a
          trailing newline is persisted from the output of the command/included file."
   `formatted le ws raw` is what Pp::format_directive_output computes; `formatted_spec` says what it IS, for a
   text given as its LF-terminated lines `ps` followed by an unterminated rest `tail` (every text has exactly one
   such decomposition: `text_decomposition`): every terminated line becomes  ws ++ line-without-its-CR ++ le,  a
   non-empty unterminated rest becomes  ws ++ rest  (no line ending is added), an empty rest contributes nothing.
   ================================================================================================ *)
Definition formatted (le ws raw : str) : str := format_output le ws (lines raw) (ends_with_lf raw).

Definition no_lf (p : str) : Prop := ~ In LFb p.

Lemma split_on_terminated ps tail :
  Forall no_lf ps -> no_lf tail ->
  split_on LFb (concat (map (fun p => p ++ [LFb]) ps) ++ tail) = ps ++ [tail].
Proof.
  intros HF Ht. induction HF as [|p ps Hp HF IH]; cbn [map concat app].
  - apply split_on_none. exact Ht.
  - rewrite <- !app_assoc. cbn [app]. rewrite split_on_app_sep by exact Hp. now rewrite IH.
Qed.

Lemma lines_of_pieces_snoc ps tail :
  lines_of_pieces (ps ++ [tail]) = map strip_cr ps ++ (match tail with [] => [] | _ => [tail] end).
Proof.
  induction ps as [|p ps IH]; [destruct tail; reflexivity|].
  cbn [app map]. rewrite <- IH. destruct (ps ++ [tail]) as [|x r] eqn:E; [destruct ps; discriminate|reflexivity].
Qed.

Lemma lines_terminated ps tail :
  Forall no_lf ps -> no_lf tail ->
  lines (concat (map (fun p => p ++ [LFb]) ps) ++ tail)
  = map strip_cr ps ++ (match tail with [] => [] | _ => [tail] end).
Proof. intros HF Ht. unfold lines. rewrite split_on_terminated by assumption. apply lines_of_pieces_snoc. Qed.

Lemma ends_with_lf_snoc a : ends_with_lf (a ++ [LFb]) = true.
Proof. unfold ends_with_lf. rewrite rev_app_distr. reflexivity. Qed.

Lemma ends_with_lf_terminated ps tail :
  no_lf tail ->
  ends_with_lf (concat (map (fun p => p ++ [LFb]) ps) ++ tail)
  = match tail, ps with [], _ :: _ => true | _, _ => false end.
Proof.
  intros Ht. destruct tail as [|b t].
  - rewrite app_nil_r. destruct ps as [|p ps]; [reflexivity|].
    destruct (rev (p :: ps)) as [|q qs] eqn:E.
    { apply (f_equal (@rev _)) in E. rewrite rev_involutive in E. discriminate. }
    apply (f_equal (@rev _)) in E. rewrite rev_involutive in E. cbn [rev] in E. rewrite E.
    rewrite map_app, concat_app. cbn [map concat]. rewrite app_nil_r, app_assoc. apply ends_with_lf_snoc.
  - rewrite ends_with_lf_app by discriminate. apply ends_with_lf_no_lf. exact Ht.
Qed.

Lemma join_snoc (le : str) xs y : join le (xs ++ [y]) = concat (map (fun x => x ++ le) xs) ++ y.
Proof.
  induction xs as [|x xs IH]; [reflexivity|].
  cbn [app map concat]. rewrite <- app_assoc, <- IH.
  destruct (xs ++ [y]) as [|z r] eqn:E; [destruct xs; discriminate|].
  change (join le (x :: z :: r)) with (x ++ le ++ join le (z :: r)). now rewrite app_assoc.
Qed.

Lemma join_terminated (le : str) xs : xs <> [] -> join le xs ++ le = concat (map (fun x => x ++ le) xs).
Proof.
  intros Hne. destruct (rev xs) as [|y r] eqn:E.
  { apply (f_equal (@rev _)) in E. rewrite rev_involutive in E. contradiction. }
  apply (f_equal (@rev _)) in E. rewrite rev_involutive in E. cbn [rev] in E. subst xs.
  rewrite join_snoc, map_app, concat_app. cbn [map concat]. now rewrite app_nil_r, <- app_assoc.
Qed.

Theorem formatted_spec le ws ps tail :
  Forall no_lf ps -> no_lf tail ->
  formatted le ws (concat (map (fun p => p ++ [LFb]) ps) ++ tail)
  = concat (map (fun p => ws ++ strip_cr p ++ le) ps) ++ (match tail with [] => [] | _ => ws ++ tail end).
Proof.
  intros HF Ht. unfold formatted, format_output.
  rewrite lines_terminated, ends_with_lf_terminated by assumption.
  assert (M : forall xs, concat (map (fun x => x ++ le) (map (fun l => ws ++ l) (map strip_cr xs)))
                         = concat (map (fun p => ws ++ strip_cr p ++ le) xs)).
  { intros xs. rewrite !map_map. f_equal. apply map_ext. intros a. now rewrite <- app_assoc. }
  destruct tail as [|b t].
  - rewrite !app_nil_r. destruct ps as [|p ps]; [reflexivity|].
    rewrite join_terminated by discriminate. apply M.
  - rewrite map_app. cbn [map]. rewrite join_snoc, M.
    destruct ps; now rewrite app_nil_r.
Qed.

(* every text is, in exactly one way, a sequence of LF-terminated lines followed by an unterminated rest *)
Theorem text_decomposition raw :
  exists ps tail, raw = concat (map (fun p => p ++ [LFb]) ps) ++ tail /\ Forall no_lf ps /\ no_lf tail.
Proof.
  induction raw as [|b r (ps & tail & E & HF & Ht)].
  - exists [], []. split; [reflexivity|]. split; [constructor|intros []].
  - destruct (N.eq_dec b LFb) as [->|Hb].
    + exists ([] :: ps), tail. split; [cbn; now rewrite <- E|]. split; [constructor; [intros []|exact HF]|exact Ht].
    + destruct ps as [|p ps].
      * exists [], (b :: tail). cbn in E. subst r. split; [reflexivity|]. split; [constructor|].
        intros [H|H]; [congruence|now apply Ht].
      * exists ((b :: p) :: ps), tail. split; [cbn; cbn in E; now rewrite E|]. split; [|exact Ht].
        inversion HF; subst. constructor; [|assumption]. intros [H|H]; [congruence|contradiction].
Qed.

(* the common case: LF line endings only.  Every line is indented and re-terminated; nothing else changes *)
Corollary formatted_lf_text le ws ps tail :
  Forall (fun p => no_lf p /\ ~ In CRb p) ps -> no_lf tail ->
  formatted le ws (concat (map (fun p => p ++ [LFb]) ps) ++ tail)
  = concat (map (fun p => ws ++ p ++ le) ps) ++ (match tail with [] => [] | _ => ws ++ tail end).
Proof.
  intros HF Ht. rewrite formatted_spec; [|eapply Forall_impl; [|exact HF]; now intros a [H _]|exact Ht].
  f_equal. f_equal. apply map_ext_in. intros p Hp. rewrite Forall_forall in HF.
  now rewrite (strip_cr_id p (proj2 (HF p Hp))).
Qed.

(* a CRLF text in an LF file (and conversely): the CR of every CRLF goes away, the line ending of the file comes *)
Corollary formatted_crlf_text le ws ps tail :
  Forall no_lf ps -> no_lf tail ->
  formatted le ws (concat (map (fun p => (p ++ [CRb]) ++ [LFb]) ps) ++ tail)
  = concat (map (fun p => ws ++ p ++ le) ps) ++ (match tail with [] => [] | _ => ws ++ tail end).
Proof.
  intros HF Ht.
  replace (map (fun p => (p ++ [CRb]) ++ [LFb]) ps) with (map (fun p => p ++ [LFb]) (map (fun p => p ++ [CRb]) ps))
    by (rewrite map_map; reflexivity).
  rewrite formatted_spec; [|apply Forall_forall; intros x Hx|exact Ht].
  - rewrite map_map. f_equal. f_equal. apply map_ext. intros p. now rewrite strip_cr_snoc.
  - apply in_map_iff in Hx as (p & <- & Hp). rewrite Forall_forall in HF. intros Hin.
    apply in_app_or in Hin as [Hin|[Hin|[]]]; [now apply (HF p Hp)|discriminate].
Qed.

Example formatted_ex :
  formatted (B "<le>") (B "   ") (unl [B "1"; B "2"]) = B "   1<le>   2<le>" /\            (* README: echo 1; echo 2 *)
  formatted [LFb] (B "   ") (B "hello") = B "   hello" /\                                     (* README: echo -n hello *)
  formatted c_crlf (B "  ") (unl [B "a"; B ""] ++ B "b") = B "  a" ++ c_crlf ++ B "  " ++ c_crlf ++ B "  b" /\
  formatted [LFb] [] (B "a" ++ c_crlf ++ B "b" ++ c_crlf) = unl [B "a"; B "b"] /\
  formatted [LFb] (B "  ") [] = [].
Proof. repeat split; vm_compute; reflexivity. Qed.

(* ================================================================================================
   PART 2 — README: "If FILE_PATH is an absolute path, it will be used as is.  Otherwise, it should be relative to
   the (directory of) the current file."  The model joins the argument to `parent src` (`lex_join`); for a plain
   file name `a` next to a source whose directory `dir` is a canonical existing directory this is `dir ++ [a]`:
   it resolves iff that node exists, it is its own normal form, and it can be created/overwritten iff it is not
   a directory.
   ================================================================================================ *)
Definition plain_name (a : str) : Prop := a <> [] /\ ~ In SLASH a /\ a <> [DOT] /\ a <> dotdot.
Definition dir_ok (f : fs) (dir : path) : Prop := os_resolve f dir = Some dir /\ is_dir f dir = true.

Lemma plain_name_normal a : plain_name a -> is_normal a = true.
Proof. intros (_ & _ & _ & H). now apply is_normal_true. Qed.

Lemma lex_components_plain a : plain_name a -> lex_components a = [a].
Proof.
  intros (Hne & Hs & Hd & _). unfold lex_components. rewrite (split_on_none SLASH a Hs). cbn [filter].
  destruct a as [|c r]; [congruence|]. cbn [negb andb].
  assert (E : is_dot (c :: r) = false).
  { unfold is_dot. destruct r; [|reflexivity]. apply N.eqb_neq. intros ->. now apply Hd. }
  now rewrite E.
Qed.

Lemma lex_join_relative dir a : is_absolute a = false -> lex_join dir a = dir ++ lex_components a.
Proof. intros H. unfold lex_join. now rewrite H. Qed.
Lemma lex_join_absolute dir a : is_absolute a = true -> lex_join dir a = lex_components a.
Proof. intros H. unfold lex_join. now rewrite H. Qed.

Lemma lex_join_plain dir a : plain_name a -> lex_join dir a = dir ++ [a].
Proof.
  intros H. rewrite lex_join_relative, (lex_components_plain a H); [reflexivity|].
  destruct H as (Hne & Hs & _). destruct a as [|c r]; [congruence|]. cbn [is_absolute].
  apply N.eqb_neq. intros ->. apply Hs. now left.
Qed.

Lemma os_walk_snoc_gen f a : forall cur d n,
  os_walk f cur a = Some d -> is_dir f d = true -> is_normal n = true ->
  os_walk f cur (a ++ [n]) = if exists_ f (d ++ [n]) then Some (d ++ [n]) else None.
Proof.
  induction a as [|c r IH]; intros cur d n H Hd Hn.
  - cbn [os_walk] in H. destruct (exists_ f cur); [|discriminate]. inversion H; subst d.
    cbn [app os_walk]. rewrite Hd. cbn [negb]. unfold is_normal in Hn.
    destruct (str_eqb n dotdot); [discriminate|]. reflexivity.
  - cbn [app os_walk] in *. destruct (negb (is_dir f cur)); [discriminate|].
    destruct (str_eqb c dotdot); apply IH; assumption.
Qed.

Theorem sibling_resolve f dir a :
  dir_ok f dir -> plain_name a ->
  os_resolve f (lex_join dir a) = if exists_ f (dir ++ [a]) then Some (dir ++ [a]) else None.
Proof.
  intros [R D] Ha. rewrite (lex_join_plain dir a Ha). unfold os_resolve in *.
  apply os_walk_snoc_gen; [exact R|exact D|now apply plain_name_normal].
Qed.

Theorem sibling_normal f dir a :
  dir_ok f dir -> plain_name a -> lex_normalize (lex_join dir a) = dir ++ [a].
Proof.
  intros [R _] Ha. rewrite (lex_join_plain dir a Ha). apply os_resolve_normalize in R.
  unfold lex_normalize in *. rewrite lex_normalize_from_last by now apply plain_name_normal. now rewrite <- R.
Qed.

Theorem sibling_write_target f dir a :
  dir_ok f dir -> plain_name a ->
  write_target f (lex_join dir a) = if is_dir f (dir ++ [a]) then None else Some (dir ++ [a]).
Proof.
  intros [R D] Ha. rewrite (lex_join_plain dir a Ha). unfold write_target.
  rewrite rev_app_distr. cbn [rev app]. rewrite (plain_name_normal a Ha), rev_involutive, R, D. reflexivity.
Qed.

(* ================================================================================================
   The directives.  Everything below is about `item_output orc md src base le (IDir d fol) s`: the chunk the
   directive `d` contributes when it is met in state `s` (tag store `tg s`, world `wld s`, pass mode `pmode s`),
   and the state it leaves.  `ExtraFactsB.executes src d s` says whether the directive is executed at all:
   always in the second/only pass (PExec); in a first pass (PFirst) unless it is an include/after of a path backed
   by a `.txtpp` source (a dependency: it is recorded and the rest of the pass only collects); never while
   collecting (PCollect).
   ================================================================================================ *)
Section Directives.
Variable orc : oracle.
Variable md : mode.
Variable src base : path.
Variable le : str.

Notation wd := (parent src).
Notation io := (item_output orc md src base le).

Lemma executes_pexec d s : pmode s = PExec -> executes src d s = true.
Proof. intros H. unfold executes. now rewrite H. Qed.

Lemma executes_first_no_source d s :
  pmode s = PFirst -> get_txtpp_file (w_fs (wld s)) (lex_join wd (dir_arg d)) = None -> executes src d s = true.
Proof. intros H G. unfold executes, is_dep. rewrite H. unfold work_dir. rewrite G. now destruct (d_ty d). Qed.

(* run, temp, tag, write and the empty directive are never dependencies: executed iff the pass is not collecting *)
Lemma executes_no_path_directive d s :
  d_ty d <> DInclude -> d_ty d <> DAfter -> executes src d s = is_execute (pmode s).
Proof.
  intros H1 H2. unfold executes, is_dep. destruct (pmode s); try reflexivity.
  destruct (d_ty d); try reflexivity; congruence.
Qed.

(* the general shape: outside clean mode an executed directive yields its raw output `raw` (or none); raw output is
   captured by a listening tag, else formatted (PART 1) with the directive's WHITESPACES *)
Lemma io_of_exec d fol s :
  io (IDir d fol) s =
  match exec_directive orc md src base le d s with
  | XErr k w => IErr k w
  | XOut None s' => IOut None s'
  | XOut (Some raw) s' =>
    match listening (tg s') with
    | Some n => IOut None (set_tg s' (mkTags None (store_put n raw (stored (tg s')))))
    | None => IOut (Some (formatted le (d_ws d) raw)) s'
    end
  end.
Proof.
  cbn [item_output]. destruct (exec_directive orc md src base le d s) as [[raw|] s'|k w]; try reflexivity.
  unfold try_store. destruct (listening (tg s')); reflexivity.
Qed.

(* ================================================================================================
   PART 3 — G1: `TXTPP#include FILE`.
   README: "Include the content of another file"; FILE relative to the directory of the current file.
   The chunk is the content of FILE formatted as in PART 1 (every line prefixed by the directive's WHITESPACES,
   lines re-joined with the line ending of the SOURCE, a final line ending iff FILE ends with a newline); the tag
   store and the world (tree AND log) are unchanged: the state is returned as it was.  If a tag is listening, the
   RAW content (no indentation, line endings untouched) goes to the tag and nothing is emitted.
   ================================================================================================ *)
Theorem include_spec d fol s q c :
  d_ty d = DInclude -> md <> Clean -> executes src d s = true ->
  os_resolve (w_fs (wld s)) (lex_join wd (dir_arg d)) = Some q ->
  read_file (w_fs (wld s)) q = Some c -> utf8_valid c = true ->
  io (IDir d fol) s =
  match listening (tg s) with
  | None => IOut (Some (formatted le (d_ws d) c)) s
  | Some n => IOut None (set_tg s (mkTags None (store_put n c (stored (tg s)))))
  end.
Proof.
  intros Ty Hm He R Rd U. rewrite io_of_exec, (exec_directive_executed orc md src base le d s Hm He), Ty.
  unfold work_dir. now rewrite R, Rd, U.
Qed.

(* README shape: FILE is a plain name next to the source *)
Corollary include_spec_sibling d fol s a c :
  d_ty d = DInclude -> md <> Clean -> executes src d s = true ->
  d_args d = [a] -> plain_name a -> dir_ok (w_fs (wld s)) wd ->
  read_file (w_fs (wld s)) (wd ++ [a]) = Some c -> utf8_valid c = true -> listening (tg s) = None ->
  io (IDir d fol) s = IOut (Some (formatted le (d_ws d) c)) s.
Proof.
  intros Ty Hm He Ea Ha Hd Rd U L.
  assert (R : os_resolve (w_fs (wld s)) (lex_join wd (dir_arg d)) = Some (wd ++ [a])).
  { unfold dir_arg. rewrite Ea. cbn [hd]. rewrite (sibling_resolve _ _ _ Hd Ha).
    unfold exists_. unfold read_file in Rd. destruct (fs_get (w_fs (wld s)) (wd ++ [a])); [reflexivity|discriminate]. }
  rewrite (include_spec d fol s _ c Ty Hm He R Rd U), L. reflexivity.
Qed.

(* ... with PART 1 spelled out: FILE = the LF-terminated lines `ps` followed by the unterminated rest `tail` *)
Corollary include_spec_lines d fol s q ps tail :
  d_ty d = DInclude -> md <> Clean -> executes src d s = true ->
  os_resolve (w_fs (wld s)) (lex_join wd (dir_arg d)) = Some q ->
  read_file (w_fs (wld s)) q = Some (concat (map (fun p => p ++ [LFb]) ps) ++ tail) ->
  Forall no_lf ps -> no_lf tail -> utf8_valid (concat (map (fun p => p ++ [LFb]) ps) ++ tail) = true ->
  listening (tg s) = None ->
  io (IDir d fol) s
  = IOut (Some (concat (map (fun p => d_ws d ++ strip_cr p ++ le) ps) ++ (match tail with [] => [] | _ => d_ws d ++ tail end))) s.
Proof.
  intros Ty Hm He R Rd HF Ht U L. rewrite (include_spec d fol s q _ Ty Hm He R Rd U), L.
  now rewrite formatted_spec.
Qed.

(* include fails (kind Directive, nothing changed) exactly when FILE does not resolve, is not a readable regular
   file, or is not UTF-8 *)
Theorem include_fails_iff d fol s k w :
  d_ty d = DInclude -> md <> Clean -> executes src d s = true ->
  (io (IDir d fol) s = IErr k w <->
   k = KDirective /\ w = wld s /\
   match os_resolve (w_fs (wld s)) (lex_join wd (dir_arg d)) with
   | None => True
   | Some q => match read_file (w_fs (wld s)) q with None => True | Some c => utf8_valid c = false end
   end).
Proof.
  intros Ty Hm He. rewrite io_of_exec, (exec_directive_executed orc md src base le d s Hm He), Ty.
  unfold work_dir.
  destruct (os_resolve (w_fs (wld s)) (lex_join wd (dir_arg d))) as [q|].
  - destruct (read_file (w_fs (wld s)) q) as [c|].
    + destruct (utf8_valid c).
      * split; [destruct (listening (tg s)); discriminate|intros (_ & _ & H); discriminate].
      * split; [intros H; inversion H; auto|intros (-> & -> & _); reflexivity].
    + split; [intros H; inversion H; auto|intros (-> & -> & _); reflexivity].
  - split; [intros H; inversion H; auto|intros (-> & -> & _); reflexivity].
Qed.

(* include / after of a path backed by a `.txtpp` source, met in a first pass: the dependency is recorded, nothing is
   executed or emitted, tags and world unchanged (README: "FILE_PATH.txtpp will be preprocessed first") *)
Theorem dependency_spec d fol s x q :
  (d_ty d = DInclude \/ d_ty d = DAfter) -> md <> Clean -> pmode s <> PExec ->
  get_txtpp_file (w_fs (wld s)) (lex_join wd (dir_arg d)) = Some x -> os_resolve (w_fs (wld s)) x = Some q ->
  io (IDir d fol) s =
  IOut None (set_pmode s (PCollect (match pmode s with PCollect deps => deps ++ [q] | _ => [q] end))).
Proof.
  intros Ty Hm Hp G R. rewrite io_of_exec. unfold exec_directive, collect_deps, work_dir, dir_arg in *.
  destruct md; try congruence;
    (destruct (pmode s) eqn:P; [congruence| |]; destruct Ty as [Ty|Ty]; rewrite Ty, G, R; reflexivity).
Qed.

(* while collecting, a directive that is not a dependency is skipped: no output, nothing changes *)
Theorem collecting_skips d fol s deps :
  md <> Clean -> pmode s = PCollect deps -> is_dep src d s = false -> io (IDir d fol) s = IOut None s.
Proof.
  intros Hm P Hd. rewrite io_of_exec. unfold exec_directive, collect_deps. unfold is_dep, dir_arg in Hd.
  destruct md; try congruence; rewrite P;
    (destruct (d_ty d); try reflexivity;
     (destruct (get_txtpp_file (w_fs (wld s)) (lex_join (work_dir src) (hd [] (d_args d)))); [discriminate|reflexivity])).
Qed.

(* ================================================================================================
   PART 4 — G2: `PREFIX TXTPP#run CMD ...`.
   README: "The arguments are joined with a single space in between to form the COMMAND"; "The working directory of
   the sub-process will be the directory of the current file"; TXTPP_FILE = "the path to the current file".
   The oracle is asked for (COMMAND, directory of the source, display path of the source); its stdout is formatted
   as in PART 1; exactly one ERun event is appended to the log, the tree is untouched; a failing command is an
   error (the event is logged all the same).  A run directive is executed in every pass that is not collecting
   (in particular in a first pass before the first dependency) and never in clean mode.
   ================================================================================================ *)
Definition command_of (d : directive) : str := join [SPb] (d_args d).
Definition txtpp_file_var : str := display_from_base base src.     (* the value of TXTPP_FILE *)
Definition run_event (d : directive) : event := ERun (command_of d) wd txtpp_file_var.

Lemma w_emit_spec w e : w_fs (w_emit w e) = w_fs w /\ w_log (w_emit w e) = w_log w ++ [e].
Proof. split; reflexivity. Qed.

Theorem run_spec d fol s out :
  d_ty d = DRun -> md <> Clean -> is_execute (pmode s) = true ->
  orc (command_of d) wd txtpp_file_var = Some out ->
  io (IDir d fol) s =
  let s' := set_wld s (w_emit (wld s) (run_event d)) in
  match listening (tg s) with
  | None => IOut (Some (formatted le (d_ws d) out)) s'
  | Some n => IOut None (set_tg s' (mkTags None (store_put n out (stored (tg s)))))
  end.
Proof.
  intros Ty Hm He O.
  assert (Hx : executes src d s = true) by (rewrite executes_no_path_directive; [exact He| |]; rewrite Ty; discriminate).
  rewrite io_of_exec, (exec_directive_executed orc md src base le d s Hm Hx), Ty. cbv zeta.
  unfold command_of, txtpp_file_var in O. unfold work_dir, input_display. rewrite O. reflexivity.
Qed.

Theorem run_fails d fol s :
  d_ty d = DRun -> md <> Clean -> is_execute (pmode s) = true ->
  orc (command_of d) wd txtpp_file_var = None ->
  io (IDir d fol) s = IErr KDirective (w_emit (wld s) (run_event d)).
Proof.
  intros Ty Hm He O.
  assert (Hx : executes src d s = true) by (rewrite executes_no_path_directive; [exact He| |]; rewrite Ty; discriminate).
  rewrite io_of_exec, (exec_directive_executed orc md src base le d s Hm Hx), Ty. cbv zeta.
  unfold command_of, txtpp_file_var in O. unfold work_dir, input_display. rewrite O. reflexivity.
Qed.

(* not executed: while collecting dependencies, and in clean mode — no event, nothing changes *)
Theorem run_not_executed d fol s :
  d_ty d = DRun -> (md = Clean \/ is_execute (pmode s) = false) -> io (IDir d fol) s = IOut None s.
Proof.
  intros Ty H. rewrite io_of_exec. unfold exec_directive, collect_deps. rewrite Ty.
  destruct H as [->|H]; [reflexivity|].
  destruct (pmode s); try discriminate. destruct md; reflexivity.
Qed.

(* ================================================================================================
   PART 5 — G3: `PREFIX TXTPP#temp FILE` + content lines.
   No chunk; FILE (relative to the directory of the source; `q` below is its canonical path) afterwards holds the
   content lines joined by the line ending of the source WITHOUT a final line ending; no other path changes; the
   log grows by write events on `q` only (none when the file already holds that content); tag store untouched (a
   listening tag keeps listening).  The only other outcome is the error `KWrite` when FILE cannot be written
   (`ExtraFactsB.temp_unwritable`: an existing directory, or no parent directory / no ordinary file name).
   In clean mode the file is removed instead (errors ignored).
   ================================================================================================ *)
Lemma format_output_temp (rest : list str) : format_output le [] rest false = join le rest.
Proof.
  unfold format_output. rewrite app_nil_r. f_equal. apply (map_id rest).
Qed.

Lemma write_temp_effect w lp c w' :
  write_temp w lp c = inl w' ->
  read_file (w_fs w') (lex_normalize lp) = Some c /\
  (forall p, p <> lex_normalize lp -> fs_get (w_fs w') p = fs_get (w_fs w) p) /\
  exists evs, w_log w' = w_log w ++ evs /\ Forall (fun e => e = EWrite (lex_normalize lp)) evs.
Proof.
  intros H. pose proof (write_temp_tr _ _ _ _ H) as (evs & L & F & _).
  destruct (write_temp_cases _ _ _ _ H) as [((q & R & G) & ->)|(G & _ & Fr)].
  - apply os_resolve_normalize in R. subst q. unfold read_file. rewrite G.
    split; [reflexivity|]. split; [reflexivity|]. now exists evs.
  - unfold read_file. rewrite G. split; [reflexivity|]. split; [exact Fr|]. now exists evs.
Qed.

(* the exact equation *)
Theorem temp_exec d fol s file content :
  d_ty d = DTemp -> d_args d = file :: content -> is_txtpp_file (lex_components file) = false ->
  md <> Clean -> is_execute (pmode s) = true ->
  io (IDir d fol) s =
  match write_temp (wld s) (lex_join wd file) (join le content) with
  | inl w' => IOut None (set_wld s w')
  | inr k => IErr k (wld s)
  end.
Proof.
  intros Ty Ea Tx Hm He.
  assert (Hx : executes src d s = true) by (rewrite executes_no_path_directive; [exact He| |]; rewrite Ty; discriminate).
  rewrite io_of_exec, (exec_directive_executed orc md src base le d s Hm Hx), Ty, Ea.
  unfold exec_temp. rewrite Tx, format_output_temp. unfold work_dir.
  destruct (write_temp (wld s) (lex_join wd file) (join le content)); reflexivity.
Qed.

Theorem temp_spec d fol s file content :
  d_ty d = DTemp -> d_args d = file :: content -> is_txtpp_file (lex_components file) = false ->
  md <> Clean -> is_execute (pmode s) = true ->
  let lp := lex_join wd file in
  let q := lex_normalize lp in
  (exists w', io (IDir d fol) s = IOut None (set_wld s w') /\
     read_file (w_fs w') q = Some (join le content) /\
     (forall p, p <> q -> fs_get (w_fs w') p = fs_get (w_fs (wld s)) p) /\
     exists evs, w_log w' = w_log (wld s) ++ evs /\ Forall (fun e => e = EWrite q) evs)
  \/ (io (IDir d fol) s = IErr KWrite (wld s) /\ temp_unwritable (w_fs (wld s)) lp).
Proof.
  intros Ty Ea Tx Hm He lp q. rewrite (temp_exec d fol s file content Ty Ea Tx Hm He). fold lp.
  destruct (write_temp (wld s) lp (join le content)) as [w'|k] eqn:W.
  - left. exists w'. split; [reflexivity|]. apply (write_temp_effect _ _ _ _ W).
  - right. apply write_temp_err_iff in W as [-> U]. now split.
Qed.

(* ... and it does succeed when the target is writable (ScheduleTempFacts.temp_ok: the parent of FILE resolves to a
   directory, FILE is an ordinary name and not a directory) *)
Theorem temp_spec_ok d fol s file content :
  d_ty d = DTemp -> d_args d = file :: content -> is_txtpp_file (lex_components file) = false ->
  md <> Clean -> is_execute (pmode s) = true ->
  ScheduleTempFacts.temp_ok (w_fs (wld s)) (lex_join wd file) ->
  let q := lex_normalize (lex_join wd file) in
  exists w', io (IDir d fol) s = IOut None (set_wld s w') /\
     read_file (w_fs w') q = Some (join le content) /\
     (forall p, p <> q -> fs_get (w_fs w') p = fs_get (w_fs (wld s)) p) /\
     exists evs, w_log w' = w_log (wld s) ++ evs /\ Forall (fun e => e = EWrite q) evs.
Proof.
  intros Ty Ea Tx Hm He Ok q. rewrite (temp_exec d fol s file content Ty Ea Tx Hm He).
  destruct (write_temp_spec (wld s) _ (join le content) Ok) as (w' & W & _).
  rewrite W. exists w'. split; [reflexivity|]. apply (write_temp_effect _ _ _ _ W).
Qed.

(* README shape: FILE is a plain name; the file lands NEXT TO THE SOURCE *)
Corollary temp_spec_sibling d fol s file content :
  d_ty d = DTemp -> d_args d = file :: content -> is_txtpp_file [file] = false ->
  md <> Clean -> is_execute (pmode s) = true ->
  plain_name file -> dir_ok (w_fs (wld s)) wd -> is_dir (w_fs (wld s)) (wd ++ [file]) = false ->
  exists w', io (IDir d fol) s = IOut None (set_wld s w') /\
     read_file (w_fs w') (wd ++ [file]) = Some (join le content) /\
     (forall p, p <> wd ++ [file] -> fs_get (w_fs w') p = fs_get (w_fs (wld s)) p) /\
     exists evs, w_log w' = w_log (wld s) ++ evs /\ Forall (fun e => e = EWrite (wd ++ [file])) evs.
Proof.
  intros Ty Ea Tx Hm He Hp Hd Nd.
  pose proof (sibling_normal _ _ _ Hd Hp) as En.
  assert (Ok : ScheduleTempFacts.temp_ok (w_fs (wld s)) (lex_join wd file)).
  { split; rewrite En.
    - now rewrite (sibling_write_target _ _ _ Hd Hp), Nd.
    - pose proof (sibling_write_target _ _ _ Hd Hp) as T. rewrite (lex_join_plain wd file Hp), Nd in T. exact T. }
  rewrite <- (lex_components_plain file Hp) in Tx.
  pose proof (temp_spec_ok d fol s file content Ty Ea Tx Hm He Ok) as H. cbv zeta in H. now rewrite En in H.
Qed.

(* README: "FILE_PATH cannot end in .txtpp.  It will cause an error." *)
Theorem temp_rejects_txtpp d fol s file content :
  d_ty d = DTemp -> d_args d = file :: content -> is_txtpp_file (lex_components file) = true ->
  md <> Clean -> is_execute (pmode s) = true ->
  io (IDir d fol) s = IErr KDirective (wld s).
Proof.
  intros Ty Ea Tx Hm He.
  assert (Hx : executes src d s = true) by (rewrite executes_no_path_directive; [exact He| |]; rewrite Ty; discriminate).
  rewrite io_of_exec, (exec_directive_executed orc md src base le d s Hm Hx), Ty, Ea.
  unfold exec_temp. now rewrite Tx.
Qed.

(* clean mode, whatever the pass mode: the file FILE resolves to is removed if it is a regular file (one ERemove event);
   otherwise nothing happens (a missing file, a directory: the error is ignored) *)
Theorem temp_clean_spec d fol s file content :
  md = Clean -> d_ty d = DTemp -> d_args d = file :: content -> is_txtpp_file (lex_components file) = false ->
  let q := lex_normalize (lex_join wd file) in
  io (IDir d fol) s =
  IOut None (match os_resolve (w_fs (wld s)) (lex_join wd file) with
             | Some _ => if is_file (w_fs (wld s)) q
                         then set_wld s (mkW (fs_del (w_fs (wld s)) q) (w_log (wld s) ++ [ERemove q]))
                         else s
             | None => s
             end).
Proof.
  intros Hm Ty Ea Tx q. rewrite io_of_exec. unfold exec_directive. rewrite Hm, Ty, Ea.
  unfold exec_temp, remove_temp, work_dir. rewrite Tx.
  destruct (os_resolve (w_fs (wld s)) (lex_join wd file)) as [q'|] eqn:R; [|clear R; now destruct s].
  apply os_resolve_normalize in R. subst q'. fold q. unfold w_remove_file, is_file.
  destruct (fs_get (w_fs (wld s)) q) as [[c|]|]; reflexivity.
Qed.

(* after the removal the path is gone and every other path is as before *)
Lemma fs_del_spec f q p : q <> [] -> fs_get (fs_del f q) p = if path_eqb q p then None else fs_get f p.
Proof.
  intros Hq. destruct (path_eqb q p) eqn:E.
  - apply path_eqb_eq in E. subst p. now apply fs_get_del_same.
  - apply fs_get_del_other. intros ->. now rewrite path_eqb_refl in E.
Qed.

(* in clean mode every other directive is ignored *)
Theorem clean_ignores_directive d fol s : md = Clean -> d_ty d <> DTemp -> io (IDir d fol) s = IOut None s.
Proof.
  intros Hm Ty. rewrite io_of_exec. unfold exec_directive. rewrite Hm. destruct (d_ty d); try reflexivity. congruence.
Qed.

(* ================================================================================================
   PART 6 — G4: `tag NAME`, `after FILE`, the empty directive, and capture.
   ================================================================================================ *)
(* `tag NAME`: no output; NAME listens; stored tags, world untouched.  Requires: nothing is listening and no stored tag
   is equal to / a prefix of / prefixed by NAME (README: "There can only be one tag at a time to store the output of
   the next directive"; "None of the tags can be prefix of another tag") *)
Theorem tag_spec d fol s :
  d_ty d = DTag -> md <> Clean -> is_execute (pmode s) = true ->
  listening (tg s) = None ->
  (forall k v, In (k, v) (stored (tg s)) -> prefix_related k (dir_arg d) = false) ->
  io (IDir d fol) s = IOut None (set_tg s (mkTags (Some (dir_arg d)) (stored (tg s)))).
Proof.
  intros Ty Hm He L Hp.
  assert (Hx : executes src d s = true) by (rewrite executes_no_path_directive; [exact He| |]; rewrite Ty; discriminate).
  rewrite io_of_exec, (exec_directive_executed orc md src base le d s Hm Hx), Ty.
  unfold create. rewrite L.
  assert (E : existsb (fun kv => prefix_related (fst kv) (dir_arg d)) (stored (tg s)) = false).
  { destruct (existsb _ (stored (tg s))) eqn:E; [|reflexivity].
    apply existsb_exists in E as ([k v] & Hin & Hr). cbn [fst] in Hr. now rewrite (Hp k v Hin) in Hr. }
  now rewrite E.
Qed.

Theorem tag_fails_iff d fol s k w :
  d_ty d = DTag -> md <> Clean -> is_execute (pmode s) = true ->
  (io (IDir d fol) s = IErr k w <->
   k = KDirective /\ w = wld s /\
   (listening (tg s) <> None \/
    exists k0 v0, In (k0, v0) (stored (tg s)) /\ ((exists r, dir_arg d = k0 ++ r) \/ (exists r, k0 = dir_arg d ++ r)))).
Proof.
  intros Ty Hm He.
  assert (Hx : executes src d s = true) by (rewrite executes_no_path_directive; [exact He| |]; rewrite Ty; discriminate).
  rewrite io_of_exec, (exec_directive_executed orc md src base le d s Hm Hx), Ty.
  destruct (create (tg s) (dir_arg d)) as [t'|] eqn:C.
  - split; [discriminate|]. intros (_ & _ & H). apply create_errors_iff in H. congruence.
  - split.
    + intros H. inversion H; subst. split; [reflexivity|]. split; [reflexivity|]. now apply create_errors_iff.
    + intros (-> & -> & _). reflexivity.
Qed.

(* capture — README: "When there is a directive that has output, the output will be stored in the tag", "the output
   will be sent to the tag instead of the output file, without the indentation, and the directive will produce no output":
   whatever directive produces raw output `raw` while NAME listens: nothing is emitted, (NAME, raw) is stored (replacing
   an older value of NAME), nothing listens any more *)
Theorem capture_spec d fol s raw s' n :
  exec_directive orc md src base le d s = XOut (Some raw) s' -> listening (tg s') = Some n ->
  io (IDir d fol) s = IOut None (set_tg s' (mkTags None (store_put n raw (stored (tg s'))))).
Proof. intros E L. now rewrite io_of_exec, E, L. Qed.

(* README: "If the next directive has no output (e.g. temp), the tag will continue to listen" *)
Theorem no_output_keeps_listening d fol s s' :
  exec_directive orc md src base le d s = XOut None s' -> io (IDir d fol) s = IOut None s'.
Proof. intros E. now rewrite io_of_exec, E. Qed.

(* `write` while a tag listens (the third directive with output) *)
Theorem write_captured d fol s n :
  d_ty d = DWrite -> md <> Clean -> is_execute (pmode s) = true -> listening (tg s) = Some n ->
  io (IDir d fol) s = IOut None (set_tg s (mkTags None (store_put n (join [LFb] (d_args d)) (stored (tg s))))).
Proof.
  intros Ty Hm He L.
  assert (Hx : executes src d s = true) by (rewrite executes_no_path_directive; [exact He| |]; rewrite Ty; discriminate).
  apply capture_spec; [|exact L]. now rewrite (exec_directive_executed orc md src base le d s Hm Hx), Ty.
Qed.

(* `after FILE`, when executed (second pass; first pass if FILE has no `.txtpp` source): nothing at all — FILE is not
   even looked at.  In a first pass with a source behind FILE: `dependency_spec`. *)
Theorem after_spec d fol s :
  d_ty d = DAfter -> md <> Clean -> executes src d s = true -> io (IDir d fol) s = IOut None s.
Proof.
  intros Ty Hm Hx. now rewrite io_of_exec, (exec_directive_executed orc md src base le d s Hm Hx), Ty.
Qed.

(* README: "This directive behaves exactly like include, except it only changes the dependency structure": the
   dependency collection of `after FILE` and of `include FILE` is the same function *)
Theorem after_collects_like_include d1 d2 s :
  d_ty d1 = DAfter -> d_ty d2 = DInclude -> d_args d1 = d_args d2 -> collect_deps src d1 s = collect_deps src d2 s.
Proof. intros T1 T2 Ea. unfold collect_deps. now rewrite T1, T2, Ea. Qed.

(* the empty directive: nothing, in every mode, in every pass, whatever its arguments *)
Theorem empty_spec d fol s : d_ty d = DEmpty -> io (IDir d fol) s = IOut None s.
Proof.
  intros Ty. rewrite io_of_exec. unfold exec_directive, collect_deps. rewrite Ty.
  destruct md; try reflexivity; destruct (pmode s); reflexivity.
Qed.

(* ================================================================================================
   PART 7 — G5: an ordinary line.
   ================================================================================================ *)
(* the chunk is the line after tag injection (Tags.inject: TagsFacts.inject_single / inject_two / inject_overlap /
   inject_is_scan say what that is), the used tags leave the store, the world is untouched *)
Theorem text_line_spec l s l' t' :
  is_execute (pmode s) = true -> inject (tg s) l le = Some (l', t') ->
  io (IText l) s = IOut (Some l') (set_tg s t').
Proof. intros He H. cbn [item_output]. now rewrite He, H. Qed.

(* with an empty tag store: verbatim, state unchanged *)
Theorem text_line_verbatim l s :
  stored (tg s) = [] -> ends_with_lf l = false -> io (IText l) s = IOut (Some l) s.
Proof. apply text_item_identity. Qed.

(* more generally when no stored tag occurs in the line *)
Theorem text_line_no_tag l s :
  is_execute (pmode s) = true -> ends_with_lf l = false ->
  (forall k v, In (k, v) (stored (tg s)) -> find_sub k l = None) ->
  io (IText l) s = IOut (Some l) s.
Proof.
  intros He Hl Hn. rewrite (text_line_spec l s l (tg s) He (inject_no_occurrence _ _ _ Hl Hn)). now destruct s.
Qed.

(* exactly one stored tag occurs — README: "When there is a non-directive line that has the tag, the tag will be
   replaced with the stored output", "Only the first occurrence of a tag will be replaced", "After the tag is
   replaced, it will be deleted", "The newlines in the output will be replaced by the line endings of the current file.
   Whether the output has a trailing newline or not will not be changed" *)
Theorem text_line_one_tag l s k v a r :
  is_execute (pmode s) = true -> prefix_free (stored (tg s)) -> ends_with_lf l = false ->
  In (k, v) (stored (tg s)) -> l = a ++ k ++ r -> (forall j, (j < length a)%nat -> ~ occurs_at k l j) ->
  (forall k' v', In (k', v') (stored (tg s)) -> k' <> k -> find_sub k' l = None) ->
  exists t', io (IText l) s = IOut (Some (a ++ replace_line_ending v le false ++ r)) (set_tg s t') /\
             listening t' = listening (tg s) /\
             (forall k' v', In (k', v') (stored t') <-> (In (k', v') (stored (tg s)) /\ k' <> k)).
Proof.
  intros He Pf Hl Hin El Hfirst Hoth.
  destruct (inject_single (tg s) l le k v a r Pf Hl Hin El Hfirst Hoth) as (t' & Hi & HL & HS).
  exists t'. split; [now apply text_line_spec|]. now split.
Qed.

(* the stored text with its line endings replaced, README-shaped (same decomposition as PART 1, no indentation) *)
Theorem replace_line_ending_spec ps tail :
  Forall no_lf ps -> no_lf tail ->
  replace_line_ending (concat (map (fun p => p ++ [LFb]) ps) ++ tail) le false
  = concat (map (fun p => strip_cr p ++ le) ps) ++ tail.
Proof.
  intros HF Ht. pose proof (formatted_spec le [] ps tail HF Ht) as H.
  unfold formatted, format_output in H. unfold replace_line_ending. cbn [orb].
  replace (map (fun l => [] ++ l) (lines (concat (map (fun p => p ++ [LFb]) ps) ++ tail)))
    with (lines (concat (map (fun p => p ++ [LFb]) ps) ++ tail)) in H by (symmetry; apply map_id).
  rewrite H. cbn [app]. now destruct tail.
Qed.

(* while collecting dependencies an ordinary line is not touched (and nothing is written: `emit` is a no-op) *)
Theorem text_line_collecting l s : is_execute (pmode s) = false -> io (IText l) s = IOut (Some l) s.
Proof. intros He. cbn [item_output]. now rewrite He. Qed.

(* "... and the line ending": the chunk of a text line is LINE-TERMINATED.  Through the in-memory sink: the pending
   line ending (if any) and then the line are appended to the buffer, and a line ending is now pending — it is written
   before the next chunk, or at the end of the file when the trailing-newline option is on (`splice_text_line`). *)
Theorem text_line_written l s l' t' p buf :
  is_execute (pmode s) = true -> inject (tg s) l le = Some (l', t') -> snk s = SMem p buf ->
  run_items orc md src base le [IText l] s
  = (StOk (set_flag (set_io (set_tg s t') (SMem p ((buf ++ (if flag s then le else [])) ++ l')) (wld s)) true),
     [(l', true)]).
Proof.
  intros He Hi Hk. cbn [run_items]. rewrite (text_line_spec l s l' t' He Hi).
  unfold emit. cbn [pmode set_tg snk wld flag item_tail negb]. rewrite He, Hk.
  destruct (flag s); cbn [sink_write]; rewrite ?app_nil_r; reflexivity.
Qed.

Lemma splice_text_line tn x : splice le tn [(x, true)] = x ++ (if tn then le else []).
Proof. reflexivity. Qed.
Lemma splice_text_then tn x c t r : splice le tn ((x, true) :: (c, t) :: r) = x ++ le ++ splice le tn ((c, t) :: r).
Proof. reflexivity. Qed.

End Directives.

(* ================================================================================================
   PART 8 — the shape of a directive line (README "Syntax"):
        {WHITESPACES}{PREFIX1}TXTPP#{DIRECTIVE} {ARG1}
   `d_ws` of the detected directive IS the leading white space of the line — the WHITESPACES every output line is
   prefixed with — `d_prefix` is PREFIX1, the argument is ARG1 trimmed on both sides.
   ================================================================================================ *)
Definition directive_names : list str :=
  [[]; B "include"; B "after"; B "run"; B "temp"; B "tag"; B "write"].

Lemma documented_name_cases n t : documented_name n = Some t -> In n directive_names.
Proof.
  unfold documented_name.
  repeat match goal with
  | |- context [str_eqb n ?k] =>
    let E := fresh "E" in
    destruct (str_eqb n k) eqn:E; [apply str_eqb_eq in E; subst n; intros _; vm_compute; tauto|]
  end.
  discriminate.
Qed.

Lemma directive_name_no_space n : In n directive_names -> ~ In SPb n.
Proof.
  intros Hin. vm_compute in Hin.
  repeat (destruct Hin as [<-|Hin];
          [intros H; cbn in H; repeat (destruct H as [H|H]; [discriminate|]); exact H|]).
  destruct Hin.
Qed.

(* PREFIX1 may be empty (single-line directives only), else it must be usable in the sense of ExtraFactsA.good_prefix:
   starts with an ASCII byte that is not white space, valid UTF-8, does not itself contain / complete a `TXTPP#` *)
Definition usable_prefix (p : str) : Prop := p = [] \/ good_prefix p = true.

Theorem directive_line ws p name t rest :
  AllWs ws -> usable_prefix p -> documented_name name = Some t -> (rest = [] \/ exists a, rest = SPb :: a) ->
  detect_from (ws ++ p ++ TXTPP_HASH ++ name ++ rest) = Some (mkD ws p t [trim (tl rest)]).
Proof.
  intros Hws Hp Hn Hr. apply detect_from_iff. exists ws, p, name, rest.
  split; [reflexivity|]. split; [exact Hws|].
  assert (H0 : ws_len (p ++ TXTPP_HASH ++ name ++ rest) = 0%nat /\
               forall j, (j < length p)%nat -> ~ occurs_at TXTPP_HASH (p ++ TXTPP_HASH ++ name ++ rest) j).
  { destruct Hp as [->|Hp].
    - split; [|intros j Hj; cbn in Hj; lia]. cbn [app].
      change (TXTPP_HASH ++ name ++ rest) with (84 :: ([88; 84; 80; 80; 35] ++ name ++ rest)).
      apply ws_len_ascii_nonws; reflexivity.
    - apply good_prefix_inv in Hp as ((c & p' & -> & Hc & Ha) & _ & Hmin).
      split; [cbn [app]; now apply ws_len_ascii_nonws|]. intros j Hj. now apply Hmin. }
  destruct H0 as [H0 Hmin]. split; [exact H0|]. split; [exact Hmin|].
  split; [apply directive_name_no_space; eapply documented_name_cases; exact Hn|].
  split; [exact Hr|]. exists t. now split.
Qed.

Corollary directive_line_arg ws p name t arg :
  AllWs ws -> usable_prefix p -> documented_name name = Some t ->
  detect_from (ws ++ p ++ TXTPP_HASH ++ name ++ SPb :: arg) = Some (mkD ws p t [trim arg]).
Proof. intros Hws Hp Hn. apply (directive_line ws p name t (SPb :: arg) Hws Hp Hn). right. now exists arg. Qed.

(* conversely: the WHITESPACES of a detected directive are the leading white space of its line *)
Theorem detected_ws l d : detect_from l = Some d -> d_ws d = fst (split_ws l).
Proof.
  unfold detect_from. destruct (split_ws l) as [ws rest]. cbn [fst].
  destruct (find_sub TXTPP_HASH rest) as [i|]; [|discriminate].
  destruct (match split_once_sp (skipn (i + length TXTPP_HASH) rest) with
            | Some (n, a) => (n, trim a) | None => (skipn (i + length TXTPP_HASH) rest, []) end) as [n a].
  destruct (dtype_of_name n); [|discriminate]. intros H. inversion H. reflexivity.
Qed.

(* include, after and tag take ONE line: the next line is never a continuation *)
Theorem parse_single_line cl l d r :
  detect_from l = Some d -> multi (d_ty d) = false ->
  parse cl None (l :: r) = IDir d (match r with [] => false | _ => true end) :: parse cl None r.
Proof.
  intros Hd Hm. cbn [parse]. rewrite Hd. unfold needs_prefix_err. rewrite Hm. cbn [andb].
  destruct r as [|l2 r2]; [reflexivity|]. cbn [parse]. now rewrite (add_line_single_stop d l2 Hm).
Qed.

(* ================================================================================================
   PART 9 — examples (vm_compute).  The directory d/ with
        d/foo.txt.txtpp = "hello\nTXTPP#include bar.txt\nworld\n"       (README "Include a file")
        d/bar.txt       = "bar\n"
   and further sources below; `file_after r p` = the content of p after a successful pass.
   ================================================================================================ *)
Definition x_d : name := B "d".
Definition x_fs (files : list (str * str)) : fs :=
  ([x_d], Dir) :: map (fun nf => ([x_d; fst nf], File (snd nf))) files.
Definition file_after (r : pp_outcome) (n : str) : option str :=
  match r with PpOk w => read_file (w_fs w) [x_d; n] | _ => None end.
Definition log_after (r : pp_outcome) : list event :=
  match r with PpOk w | PpHasDeps _ w | PpErr _ w => w_log w | PpPanic => [] end.
(* the commands of the README examples, and one that prints its environment *)
Definition x_orc : oracle := fun cmd cwd file =>
  if str_eqb cmd (B "echo 1; echo 2") then Some (unl [B "1"; B "2"])
  else if str_eqb cmd (B "echo -n hello") then Some (B "hello")
  else if str_eqb cmd (B "cat foo.txt.txtpp") then Some (unl [B "hello"; B "TXTPP#include bar.txt"; B "world"])
  else if str_eqb cmd (B "echo $TXTPP_FILE") then Some (file ++ [LFb])
  else if str_eqb cmd (B "python gen_pre.py") then Some (unl [B "generated"])
  else None.
(* one pass over the source d/<n> with text `raw`, the other files `others` lying beside it; base directory d/ *)
Definition x_pass (md : mode) (first : bool) (n : str) (raw : str) (others : list (str * str)) : pp_outcome :=
  pp_run x_orc md [x_d] [x_d; n] first true (mkW (x_fs ((n, raw) :: others)) []).

(* ---- G1 include ---- *)
(* README "Include a file" *)
Example include_readme_example :
  file_after (x_pass Build true (B "foo.txt.txtpp") (unl [B "hello"; B "TXTPP#include bar.txt"; B "world"])
                [(B "bar.txt", unl [B "bar"])]) (B "foo.txt")
  = Some (unl [B "hello"; B "bar"; B "world"]).
Proof. vm_compute. reflexivity. Qed.

(* indentation, a CRLF source including an LF file without final newline: every line indented, line endings those of the
   SOURCE, no line ending after the last line — so the next source line continues it *)
Example include_formatting_example :
  file_after (x_pass Build false (B "a.txtpp") (B "  // TXTPP#include inc" ++ c_crlf ++ B "|next" ++ c_crlf)
                [(B "inc", unl [B "one"; B ""] ++ B "three")]) (B "a")
  = Some (B "  one" ++ c_crlf ++ B "  " ++ c_crlf ++ B "  three|next" ++ c_crlf).
Proof. vm_compute. reflexivity. Qed.

(* on the line itself: the directive detected, the chunk, the state unchanged *)
Example include_line_example :
  let s := mkP None false PExec tags_new (SMem [x_d; B "a"] []) (mkW (x_fs [(B "bar.txt", unl [B "bar"; B "baz"])]) []) in
  detect_from (B "   // TXTPP#include bar.txt  ") = Some (mkD (B "   ") (B "// ") DInclude [B "bar.txt"]) /\
  item_output x_orc Build [x_d; B "a.txtpp"] [x_d] [LFb] (IDir (mkD (B "   ") (B "// ") DInclude [B "bar.txt"]) true) s
  = IOut (Some (B "   bar" ++ [LFb] ++ B "   baz" ++ [LFb])) s.
Proof. split; vm_compute; reflexivity. Qed.

(* ---- G2 run ---- *)
(* README "Execution": `echo 1; echo 2` and `echo -n hello` *)
Example run_readme_examples :
  file_after (x_pass Build true (B "a.txtpp") (unl [B "   // TXTPP#run echo 1; echo 2"]) []) (B "a")
  = Some (unl [B "   1"; B "   2"; B ""]) /\      (* the blank last line is in the README too: the directive is the last item *)
  file_after (x_pass Build true (B "a.txtpp") (unl [B "   // TXTPP#run echo -n hello"; B "world"]) []) (B "a")
  = Some (unl [B "   helloworld"]).
Proof. split; vm_compute; reflexivity. Qed.

(* README "Execute a command" (fiz.txt.txtpp) *)
Example run_readme_fiz_example :
  file_after (x_pass Build true (B "fiz.txt.txtpp") (unl [B "hello"; B "-TXTPP#run cat foo.txt.txtpp"; B "world"]) [])
             (B "fiz.txt")
  = Some (unl [B "hello"; B "hello"; B "TXTPP#include bar.txt"; B "world"; B "world"]).
Proof. vm_compute. reflexivity. Qed.

(* arguments over several lines are joined by single spaces; cwd = directory of the source; exactly one ERun event
   (the EWrite event is the in-memory sink writing the output d/a at the end of the pass) *)
Example run_event_example :
  log_after (x_pass InMemoryBuild true (B "a.txtpp") (unl [B "// TXTPP#run echo 1;"; B "// echo 2"]) [])
  = [ERun (B "echo 1; echo 2") [x_d] (B "a.txtpp"); EWrite [x_d; B "a"]] /\
  file_after (x_pass InMemoryBuild true (B "a.txtpp") (unl [B "// TXTPP#run echo 1;"; B "// echo 2"]) []) (B "a")
  = Some (unl [B "1"; B "2"; B ""]).
Proof. split; vm_compute; reflexivity. Qed.

(* a failing command fails the file; the event is logged *)
Example run_fails_example :
  x_pass InMemoryBuild true (B "a.txtpp") (unl [B "-TXTPP#run false"]) []
  = PpErr KDirective (mkW (x_fs [(B "a.txtpp", unl [B "-TXTPP#run false"])]) [ERun (B "false") [x_d] (B "a.txtpp")]).
Proof. vm_compute. reflexivity. Qed.

(* ---- G3 temp ---- *)
(* the content lines joined by the line ending, NO final line ending; an empty last content line gives one *)
Example temp_example :
  let r := x_pass Build true (B "a.txtpp") (unl [B "  // TXTPP#temp t.py"; B "  // import csv"; B "  //"; B "  //   x"; B "end"]) [] in
  file_after r (B "t.py") = Some (B "import csv" ++ [LFb] ++ [LFb] ++ B "  x") /\
  file_after r (B "a") = Some (unl [B "end"]) /\
  file_after (x_pass Build true (B "a.txtpp") (unl [B "-TXTPP#temp t"; B "-x"; B "-"]) []) (B "t") = Some (unl [B "x"]).
Proof. repeat split; vm_compute; reflexivity. Qed.

(* clean mode removes the temp file (and the output), and runs nothing *)
Example temp_clean_example :
  let r := x_pass Clean true (B "a.txtpp") (unl [B "-TXTPP#temp t"; B "-x"; B "-TXTPP#run echo 1; echo 2"])
             [(B "t", B "x"); (B "a", unl [B "1"; B "2"])] in
  file_after r (B "t") = None /\ file_after r (B "a") = None /\
  file_after r (B "a.txtpp") <> None /\ log_after r = [ERemove [x_d; B "a"]; ERemove [x_d; B "t"]].
Proof. repeat split; vm_compute; try reflexivity; discriminate. Qed.

(* ---- G4 tag / after / empty ---- *)
(* the output of the directive after `tag` is stored, not emitted, and injected — without indentation — where the tag occurs *)
Example tag_example :
  file_after (x_pass Build true (B "a.txtpp")
                (unl [B "  // TXTPP#tag X"; B "  // TXTPP#include bar.txt"; B "<pre>X</pre> X"]) [(B "bar.txt", unl [B "bar"] ++ B "baz")])
             (B "a")
  = Some (unl [B "<pre>bar"; B "baz</pre> X"]).
Proof. vm_compute. reflexivity. Qed.

(* temp has no output: the tag keeps listening and captures the run after it *)
Example tag_skips_temp_example :
  file_after (x_pass Build true (B "a.txtpp")
                (unl [B "-TXTPP#tag X"; B "-TXTPP#temp t"; B "+TXTPP#run echo -n hello"; B "[X]"]) [])
             (B "a")
  = Some (unl [B "[hello]"]).
Proof. vm_compute. reflexivity. Qed.

(* `after` of a file that does not exist, and the empty directive with arguments: nothing *)
Example after_empty_example :
  file_after (x_pass Build true (B "a.txtpp") (unl [B "TXTPP#after no-such-file"; B "-TXTPP# ignored"; B "-ignored too"; B "end"]) [])
             (B "a")
  = Some (unl [B "end"]).
Proof. vm_compute. reflexivity. Qed.

(* `after x` / `include x` with a source x.txtpp beside: in the FIRST pass the dependency is reported and nothing is written
   after it; the run will schedule x.txtpp first (whole-run example below) *)
Example dependency_example :
  x_pass InMemoryBuild true (B "a.txtpp") (unl [B "TXTPP#after x"; B "-TXTPP#run false"]) [(B "x.txtpp", B "y")]
  = PpHasDeps [[x_d; B "x.txtpp"]]
      (mkW (x_fs [(B "a.txtpp", unl [B "TXTPP#after x"; B "-TXTPP#run false"]); (B "x.txtpp", B "y")]) []).
Proof. vm_compute. reflexivity. Qed.

(* ---- G5 ordinary lines ---- *)
Example text_line_example :
  let s t := mkP None false PExec t (SMem [x_d; B "a"] (B "prev")) (mkW [] []) in
  (* empty store: verbatim *)
  item_output x_orc Build [x_d; B "a.txtpp"] [x_d] [LFb] (IText (B "some TXTPP text")) (s tags_new)
  = IOut (Some (B "some TXTPP text")) (s tags_new) /\
  (* a stored tag: first occurrence replaced (line endings of the file), the tag deleted *)
  item_output x_orc Build [x_d; B "a.txtpp"] [x_d] c_crlf (IText (B "<T> and <T>")) (s (mkTags None [(B "<T>", unl [B "1"] ++ B "2")]))
  = IOut (Some (B "1" ++ c_crlf ++ B "2 and <T>")) (s tags_new) /\
  (* written: pending line ending first, then the line; the chunk is line-terminated *)
  run_items x_orc Build [x_d; B "a.txtpp"] [x_d] [LFb] [IText (B "line")] (set_flag (s tags_new) true)
  = (StOk (mkP None true PExec tags_new (SMem [x_d; B "a"] (B "prev" ++ [LFb] ++ B "line")) (mkW [] [])), [(B "line", true)]).
Proof. repeat split; vm_compute; reflexivity. Qed.

(* ---- further README examples that DO hold ---- *)
(* README "Write Directive" example *)
Example write_readme_example :
  file_after (x_pass Build true (B "a.txtpp")
                (unl [B "-TXTPP#write the line below will be written to the output file as is";
                      B "-TXTPP#run echo ""hello world"""; B "stuff"]) []) (B "a")
  = Some (unl [B "the line below will be written to the output file as is"; B "TXTPP#run echo ""hello world""stuff"]).
Proof. vm_compute. reflexivity. Qed.

(* README "Temp Directive" example: the block is one temp directive (8 arguments, the `//` line an empty one), ended by the
   `/* ... */` line; then a run directive ended the same way *)
Example temp_readme_example_parse :
  parse false None
    [B "        // TXTPP#temp gen_cities.g.py";
     B "        // import csv";
     B "        //";
     B "        // with open('city.csv', 'r') as f:";
     B "        //     reader = csv.reader(f)";
     B "        /* --- generated code --- */";
     B "        // TXTPP#run python gen_cities.g.py";
     B "        /* --- generated code --- */"]
  = [IDir (mkD (B "        ") (B "// ") DTemp
             [B "gen_cities.g.py"; B "import csv"; []; B "with open('city.csv', 'r') as f:"; B "    reader = csv.reader(f)"]) true;
     IText (B "        /* --- generated code --- */");
     IDir (mkD (B "        ") (B "// ") DRun [B "python gen_cities.g.py"]) true;
     IText (B "        /* --- generated code --- */")].
Proof. vm_compute. reflexivity. Qed.

(* README "Empty directive", second example: the block comment is one run directive and one empty directive *)
Example empty_readme_example_parse :
  parse false None
    [B "  /* TXTPP#run ./codegen"; B "     -arg"; B "     --really-really-long-option"; B "    -TXTPP#"; B "    -*/"; B "}"]
  = [IDir (mkD (B "  ") (B "/* ") DRun [B "./codegen"; B "-arg"; B "--really-really-long-option"]) true;
     IDir (mkD (B "    ") (B "-") DEmpty [[]; B "*/"]) true;
     IText (B "}")].
Proof. vm_compute. reflexivity. Qed.

(* ---- a whole run (Run.txtpp_run) on the tree of ScheduleTempFacts PART 6:
        d/a.txtpp = "// TXTPP#temp t\n// hello\nTXTPP#include t\nx\n"     (temp, then include of the temp file)
        d/b.txtpp = "TXTPP#include a\nz\n"                                  (includes the OUTPUT of a.txtpp: two passes)
   for two schedules: d/t = "hello" (no final newline), hence d/a = "hellox\n" (the included text is continued by the
   next line), hence d/b = "hellox\nz\n" ---- *)
Definition x_cfg : config := mkCfg [] [[100]] true 1 Build true.
Example whole_run_example :
  forall sched, sched = [] \/ sched = [0; 1; 0; 0]%nat ->
  let x := txtpp_run cx_orc x_cfg 9 sched t_w in
  verdict_of x = VOk /\
  read_file (w_fs (world_of x)) t_t = Some (B "hello") /\
  read_file (w_fs (world_of x)) t_aout = Some (unl [B "hellox"]) /\
  read_file (w_fs (world_of x)) t_bout = Some (unl [B "hellox"; B "z"]) /\
  In (TPp t_b true, RPp t_b (Some (PDeps [t_a]))) (trace_of x) /\ In (TPp t_b false, RPp t_b (Some POk)) (trace_of x).
Proof. intros sched [-> | ->]; vm_compute; repeat split; auto 10. Qed.

(* ================================================================================================
   PART 10 — README sentences that are FALSE of the model (hence, the model being tied to the code by differential
   testing, of txtpp itself).
   ================================================================================================ *)
(* (1) README "Temp Directive / ARGUMENTS": "The rest of the arguments are joined by line endings to form the CONTENT, WITH A
   TRAILING LINE ENDING."  False: no trailing line ending is written (`temp_spec`: the content is `join le content`).  The
   README contradicts itself: "Output Specification" says "Whether a temporary file has a trailing newline depends on if
   the directive has an empty line in the end", which is what happens. *)
Example readme_false_temp_trailing_line_ending :
  file_after (x_pass Build true (B "a.txtpp") (unl [B "-TXTPP#temp t"; B "-hello"]) []) (B "t") = Some (B "hello") /\
  B "hello" <> B "hello" ++ [LFb].
Proof. split; [vm_compute; reflexivity|discriminate]. Qed.

(* (2) README "Run Directive": "TXTPP_FILE: the path to the current file being processed.  Currently this is the ABSOLUTE
   path."  False: it is the display path `display_from_base base src` — RELATIVE to the base directory whenever the source lies
   under it (PathFacts.display_under_base), absolute (marked @R@ in the model) only otherwise. *)
Theorem txtpp_file_is_relative_under_base base rel :
  rel <> [] -> txtpp_file_var (base ++ rel) base = rel_string rel.
Proof. intros H. unfold txtpp_file_var. now apply display_under_base. Qed.

Example readme_false_txtpp_file_absolute :
  file_after (x_pass Build true (B "a.txtpp") (unl [B "-TXTPP#run echo $TXTPP_FILE"]) []) (B "a") = Some (unl [B "a.txtpp"; B ""]) /\
  txtpp_file_var [x_d; B "sub"; B "a.txtpp"] [x_d] = B "sub/a.txtpp" /\
  abs_string [x_d; B "sub"; B "a.txtpp"] = B "@R@/d/sub/a.txtpp".
Proof. repeat split; vm_compute; reflexivity. Qed.

(* (3) README "Directive Overview / Syntax", the block-comment example
           /* TXTPP#run echo "
              hello world
              "
             -TXTPP# */
   "This will execute the command `echo "hello world"`."  False: the three arguments are joined by single spaces, the command
   is `echo " hello world "` (run_spec: command_of). *)
Example readme_false_block_comment_command :
  let ls := [B "        /* TXTPP#run echo """; B "           hello world"; B "           """; B "          -TXTPP# */"] in
  exists d e, parse false None ls = [IDir d true; IDir e false] /\ d_ty d = DRun /\ d_ty e = DEmpty /\
    command_of d = B "echo "" hello world """ /\ command_of d <> B "echo ""hello world""".
Proof. cbv zeta. eexists. eexists. split; [vm_compute; reflexivity|]. repeat split; try reflexivity. discriminate. Qed.

(* (4) README "Tag Directive / EXAMPLE" — the example presented as VALID fails: the blank line ends the `run` directive (it
   does not start with the directive's white space), it is emitted as an empty text line, and the next line
   `       TXTPP# -->` is an empty directive WITHOUT PREFIX — a multi-line directive must have one ("multi-line directive must
   have a prefix", pp/mod.rs:172-176): error.  (The tests of the repository write `-TXTPP# -->`.) *)
Definition readme_tag_example : list str :=
  [B "<div>"; B "  <!-- TXTPP#tag PRE_CONTENT -->"; B "  <!-- TXTPP#run python gen_pre.py"; B "";
   B "       TXTPP# -->"; B "  <pre>PRE_CONTENT --></pre>"; B "</div>"].
Example readme_false_tag_example_fails :
  (exists t r, parse false None readme_tag_example = [IText (B "<div>"); IDir t true; IDir r true; IText []; IBad]) /\
  (exists w, x_pass Build true (B "a.html.txtpp") (unl readme_tag_example) [] = PpErr KDirective w) /\
  (* with the prefix `-` (and no blank line inside the directive) the example does what the README says *)
  file_after (x_pass Build true (B "a.html.txtpp")
                (unl [B "<div>"; B "  <!-- TXTPP#tag PRE_CONTENT -->"; B "  <!-- TXTPP#run python gen_pre.py";
                      B "      -TXTPP# -->"; B "  <pre>PRE_CONTENT --></pre>"; B "</div>"]) []) (B "a.html")
  = Some (unl [B "<div>"; B "  <pre>generated"; B "</pre>"; B "</div>"]).
Proof.
  split; [eexists; eexists; vm_compute; reflexivity|]. split; [eexists; vm_compute; reflexivity|vm_compute; reflexivity].
Qed.

(* (5) README "After Directive": "This directive behaves EXACTLY like include, except it only changes the dependency structure and
   doesn't affect the output."  Imprecise: `after` never looks at FILE when it is executed (`after_spec`), so `after` of a
   missing file succeeds where `include` of the same file is an error. *)
Example readme_imprecise_after_like_include :
  file_after (x_pass Build false (B "a.txtpp") (unl [B "TXTPP#after missing"; B "x"]) []) (B "a") = Some (unl [B "x"]) /\
  exists w, x_pass Build false (B "a.txtpp") (unl [B "TXTPP#include missing"; B "x"]) [] = PpErr KDirective w.
Proof. split; [vm_compute; reflexivity|eexists; vm_compute; reflexivity]. Qed.
