(* ShellFacts2.v — more of the `run` contract (C17): when a command is NOT handed to the shell, what a failing command
   does to the file, and that the command's effect on the file depends on the shell's answer to this one invocation only. *)
Require Import Txtpp.Str Txtpp.Consts Txtpp.Grammar Txtpp.Tags Txtpp.Path Txtpp.Fs Txtpp.Sink Txtpp.Pp Txtpp.Spec.
Require Import Txtpp.proofs.StrFacts Txtpp.proofs.SinkFacts Txtpp.proofs.PathFacts Txtpp.proofs.EventFacts Txtpp.proofs.ShellFacts.

(* clean mode never hands a run directive to the shell: the state (world, events included) is unchanged *)
Lemma run_not_invoked_in_clean orc src base le d s :
  d_ty d = DRun -> exec_directive orc Clean src base le d s = XOut None s.
Proof. intros Hty. unfold exec_directive. rewrite Hty. reflexivity. Qed.

(* once a dependency is outstanding (the first pass turned into a collecting pass) commands are skipped, not run:
   the command runs only in the pass whose output is kept *)
Lemma run_skipped_while_collecting orc md src base le d s deps :
  md <> Clean -> pmode s = PCollect deps -> d_ty d = DRun ->
  exec_directive orc md src base le d s = XOut None s.
Proof.
  intros Hmd Hpm Hty. unfold exec_directive, collect_deps. rewrite Hpm, Hty.
  destruct md; try contradiction; reflexivity.
Qed.

(* the first pass, as long as no dependency was met, invokes the command exactly as the executing pass does *)
Lemma run_invocation_first_pass orc md src base le d s :
  md <> Clean -> pmode s = PFirst -> d_ty d = DRun ->
  let cmd := join [SPb] (d_args d) in
  let cwd := parent src in
  let file := display_from_base base src in
  exec_directive orc md src base le d s =
  match orc cmd cwd file with
  | Some out => XOut (Some out) (set_wld s (w_emit (wld s) (ERun cmd cwd file)))
  | None => XErr KDirective (w_emit (wld s) (ERun cmd cwd file))
  end.
Proof.
  intros Hmd Hpm Hty. cbv zeta. unfold exec_directive, collect_deps. rewrite Hpm, Hty.
  destruct md; try contradiction; reflexivity.
Qed.

(* a command that fails (spawn error or non-zero status: the oracle answers None) fails the file with a directive error,
   whatever the mode (other than clean), the pass (other than collecting) and the tail of the line *)
Lemma run_failure_fails_the_file orc md src base le d s has_tail :
  md <> Clean -> is_execute (pmode s) = true -> d_ty d = DRun ->
  orc (join [SPb] (d_args d)) (parent src) (display_from_base base src) = None ->
  exists w, run_directive orc md src base le d has_tail s = StErr KDirective w.
Proof.
  intros Hmd Hex Hty Horc. unfold run_directive.
  destruct (pmode s) as [| |deps] eqn:Hpm; try discriminate Hex.
  - rewrite (run_invocation orc md src base le d s Hmd Hpm Hty). cbv zeta. rewrite Horc. eexists; reflexivity.
  - rewrite (run_invocation_first_pass orc md src base le d s Hmd Hpm Hty). cbv zeta. rewrite Horc. eexists; reflexivity.
Qed.

(* the directive sees the shell only through this one invocation: two shells that answer it alike are indistinguishable *)
Lemma run_depends_on_this_invocation_only orc1 orc2 md src base le d s :
  d_ty d = DRun ->
  orc1 (join [SPb] (d_args d)) (parent src) (display_from_base base src) =
  orc2 (join [SPb] (d_args d)) (parent src) (display_from_base base src) ->
  exec_directive orc1 md src base le d s = exec_directive orc2 md src base le d s.
Proof.
  intros Hty Heq. unfold exec_directive, collect_deps. rewrite Hty.
  unfold work_dir, input_display.
  destruct md; try reflexivity; destruct (pmode s); try reflexivity; cbv zeta; rewrite Heq; reflexivity.
Qed.

(* non-vacuity: a concrete run directive in a concrete state meets the hypotheses *)
Example run_hypotheses_satisfiable :
  let d := mkD [] [] DRun [[101; 99; 104; 111]; [104; 105]]%N in
  d_ty d = DRun /\ join [SPb] (d_args d) = [101; 99; 104; 111; 32; 104; 105]%N.
Proof. split; reflexivity. Qed.
