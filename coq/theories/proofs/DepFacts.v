(* DepFacts.v — association-list maps and the dependency manager of Dep.v:
   functional characterisations of add_dependency and notify_finish, and the
   invariant `dm_ok` (unique keys, duplicate-free depender lists, exact counters)
   they preserve.  Used by CoordFacts.v. *)
Require Import Txtpp.Str Txtpp.Path Txtpp.Dep.
From Coq Require Import Lia Permutation.
Local Open Scope nat_scope.

(* ---- decidable equality of paths ---- *)
Lemma str_eqb_eq_l (a : str) : forall b, str_eqb a b = true <-> a = b.
Proof.
  induction a as [|x a IH]; intros [|y b]; cbn [str_eqb]; split; intros H;
    try reflexivity; try discriminate.
  - apply andb_true_iff in H. destruct H as [H1 H2].
    apply N.eqb_eq in H1. apply IH in H2. subst. reflexivity.
  - inversion H; subst. apply andb_true_iff. split; [apply N.eqb_refl|]. apply IH. reflexivity.
Qed.

Lemma path_eqb_eq (a : path) : forall b, path_eqb a b = true <-> a = b.
Proof.
  induction a as [|x a IH]; intros [|y b]; cbn [path_eqb]; split; intros H;
    try reflexivity; try discriminate.
  - apply andb_true_iff in H. destruct H as [H1 H2].
    apply str_eqb_eq_l in H1. apply IH in H2. subst. reflexivity.
  - inversion H; subst. apply andb_true_iff. split; [apply str_eqb_eq_l; reflexivity|].
    apply IH. reflexivity.
Qed.

Lemma path_eqb_refl a : path_eqb a a = true.
Proof. apply path_eqb_eq. reflexivity. Qed.

Lemma path_eqb_neq a b : path_eqb a b = false <-> a <> b.
Proof.
  split.
  - intros H E. apply path_eqb_eq in E. rewrite E in H. discriminate.
  - intros H. destruct (path_eqb a b) eqn:E; [|reflexivity]. apply path_eqb_eq in E. contradiction.
Qed.

Lemma path_eq_dec (a b : path) : {a = b} + {a <> b}.
Proof.
  destruct (path_eqb a b) eqn:E.
  - left. apply path_eqb_eq. exact E.
  - right. apply path_eqb_neq. exact E.
Qed.

Lemma pmem_In x l : pmem x l = true <-> In x l.
Proof.
  unfold pmem. rewrite existsb_exists. split.
  - intros [y [Hy E]]. apply path_eqb_eq in E. subst. exact Hy.
  - intros H. exists x. split; [exact H|apply path_eqb_refl].
Qed.

Lemma pmem_nIn x l : pmem x l = false <-> ~ In x l.
Proof.
  split.
  - intros H Hi. apply pmem_In in Hi. rewrite Hi in H. discriminate.
  - intros H. destruct (pmem x l) eqn:E; [|reflexivity]. apply pmem_In in E. contradiction.
Qed.

Lemma In_path_dec (x : path) l : {In x l} + {~ In x l}.
Proof. apply in_dec. apply path_eq_dec. Qed.

(* ---- association-list maps ---- *)
Section AMapFacts.
Context {A : Type}.
Implicit Types (m : amap A) (k q : file).

Lemma aget_adel_same m k : aget (adel m k) k = None.
Proof.
  induction m as [|[q v] r IH]; simpl; [reflexivity|].
  destruct (path_eqb q k) eqn:E; [exact IH|]. simpl. rewrite E. exact IH.
Qed.

Lemma aget_adel_other m k k' : k <> k' -> aget (adel m k) k' = aget m k'.
Proof.
  intros N. induction m as [|[q v] r IH]; simpl; [reflexivity|].
  destruct (path_eqb q k) eqn:E.
  - apply path_eqb_eq in E. subst q.
    destruct (path_eqb k k') eqn:E2; [apply path_eqb_eq in E2; contradiction|exact IH].
  - simpl. destruct (path_eqb q k'); [reflexivity|exact IH].
Qed.

Lemma aget_aput_same m k v : aget (aput m k v) k = Some v.
Proof. unfold aput. simpl. rewrite path_eqb_refl. reflexivity. Qed.

Lemma aget_aput_other m k v k' : k <> k' -> aget (aput m k v) k' = aget m k'.
Proof.
  intros N. unfold aput. simpl.
  destruct (path_eqb k k') eqn:E; [apply path_eqb_eq in E; contradiction|].
  apply aget_adel_other. exact N.
Qed.

Definition keys_nodup m := NoDup (map fst m).

Lemma In_keys_adel m k q : In q (map fst (adel m k)) -> In q (map fst m) /\ q <> k.
Proof.
  induction m as [|[q' v] r IH]; simpl; [intros []|].
  destruct (path_eqb q' k) eqn:E.
  - intros H. destruct (IH H) as [H1 H2]. split; [right; exact H1|exact H2].
  - simpl. intros [H|H].
    + subst q'. split; [left; reflexivity|]. apply path_eqb_neq. exact E.
    + destruct (IH H) as [H1 H2]. split; [right; exact H1|exact H2].
Qed.

Lemma keys_nodup_adel m k : keys_nodup m -> keys_nodup (adel m k).
Proof.
  unfold keys_nodup. induction m as [|[q v] r IH]; simpl; intros H; [exact H|].
  inversion H as [|? ? Hn Hr]; subst.
  destruct (path_eqb q k); [apply IH; exact Hr|].
  simpl. constructor; [|apply IH; exact Hr].
  intros Hi. apply In_keys_adel in Hi. apply Hn. apply Hi.
Qed.

Lemma keys_nodup_aput m k v : keys_nodup m -> keys_nodup (aput m k v).
Proof.
  intros H. unfold keys_nodup, aput. simpl. constructor.
  - intros Hi. apply In_keys_adel in Hi. destruct Hi as [_ Hi]. apply Hi. reflexivity.
  - apply keys_nodup_adel. exact H.
Qed.

Lemma aget_notin m k : ~ In k (map fst m) -> aget m k = None.
Proof.
  induction m as [|[q v] r IH]; simpl; intros H; [reflexivity|].
  destruct (path_eqb q k) eqn:E.
  - apply path_eqb_eq in E. exfalso. apply H. left. exact E.
  - apply IH. intros Hi. apply H. right. exact Hi.
Qed.

Lemma aget_Some_In m k v : aget m k = Some v -> In (k, v) m.
Proof.
  induction m as [|[q w] r IH]; simpl; intros H; [discriminate|].
  destruct (path_eqb q k) eqn:E.
  - apply path_eqb_eq in E. inversion H; subst. left. reflexivity.
  - right. apply IH. exact H.
Qed.

Lemma In_aget m k v : keys_nodup m -> In (k, v) m -> aget m k = Some v.
Proof.
  unfold keys_nodup. induction m as [|[q w] r IH]; simpl; intros Hk H; [destruct H|].
  inversion Hk as [|? ? Hn Hr]; subst.
  destruct H as [H|H].
  - inversion H; subst. rewrite path_eqb_refl. reflexivity.
  - destruct (path_eqb q k) eqn:E.
    + apply path_eqb_eq in E. subst q. exfalso. apply Hn.
      apply (in_map fst) in H. exact H.
    + apply IH; assumption.
Qed.
End AMapFacts.

(* ---- dependers, edge counts ---- *)
(* a is registered as a depender of d *)
Definition Wm (m : amap (list file)) (a d : file) : Prop :=
  exists l, aget m d = Some l /\ In a l.

Definition lists_nodup (m : amap (list file)) : Prop :=
  forall d l, aget m d = Some l -> NoDup l.

(* number of d such that a is a depender of d (meaningful when the keys are unique) *)
Definition ecount (m : amap (list file)) (a : file) : nat :=
  length (filter (fun e => pmem a (snd e)) m).

Definition ebit (a : file) (o : option (list file)) : nat :=
  match o with Some l => if pmem a l then 1 else 0 | None => 0 end.

Definition cget (c : amap nat) (a : file) : nat :=
  match aget c a with Some k => k | None => 0 end.

Lemma ecount_cons q v r a : ecount ((q, v) :: r) a = ebit a (Some v) + ecount r a.
Proof. unfold ecount, ebit. simpl. destruct (pmem a v); reflexivity. Qed.

Lemma ecount_adel m d a : keys_nodup m -> ecount m a = ecount (adel m d) a + ebit a (aget m d).
Proof.
  unfold keys_nodup. induction m as [|[q v] r IH]; intros Hk; [reflexivity|].
  simpl in Hk. inversion Hk as [|? ? Hn Hr]; subst.
  rewrite ecount_cons. cbn [adel aget].
  destruct (path_eqb q d) eqn:E.
  - apply path_eqb_eq in E. subst q.
    rewrite (IH Hr). rewrite (aget_notin r d Hn). simpl. lia.
  - rewrite ecount_cons. rewrite (IH Hr). lia.
Qed.

Lemma ecount_aput m d l a : ecount (aput m d l) a = ebit a (Some l) + ecount (adel m d) a.
Proof. unfold aput. apply ecount_cons. Qed.

Lemma ecount_aput_cur m d l a : keys_nodup m ->
  ecount (aput m d l) a + ebit a (aget m d) = ecount m a + ebit a (Some l).
Proof. intros Hk. rewrite ecount_aput. rewrite (ecount_adel m d a Hk). lia. Qed.

Lemma ecount_pos m a : keys_nodup m -> (0 < ecount m a <-> exists d, Wm m a d).
Proof.
  intros Hk. split.
  - unfold ecount. intros H.
    destruct (filter (fun e => pmem a (snd e)) m) as [|[d l] r] eqn:E; [simpl in H; lia|].
    assert (Hi : In (d, l) (filter (fun e => pmem a (snd e)) m)) by (rewrite E; left; reflexivity).
    apply filter_In in Hi. destruct Hi as [Hi Hp]. simpl in Hp.
    exists d, l. split; [apply In_aget; assumption|apply pmem_In; exact Hp].
  - intros [d [l [Hg Hi]]].
    rewrite (ecount_adel m d a Hk). rewrite Hg. simpl.
    apply pmem_In in Hi. rewrite Hi. lia.
Qed.

Lemma ecount_zero m a : keys_nodup m -> (ecount m a = 0 <-> forall d, ~ Wm m a d).
Proof.
  intros Hk. split.
  - intros H d Hw. assert (0 < ecount m a) by (apply ecount_pos; [exact Hk|exists d; exact Hw]). lia.
  - intros H. destruct (ecount m a) eqn:E; [reflexivity|].
    assert (Hp : 0 < ecount m a) by lia. apply ecount_pos in Hp; [|exact Hk].
    destruct Hp as [d Hd]. exfalso. apply (H d). exact Hd.
Qed.

Lemma Wm_adel m b x d : Wm (adel m b) x d <-> Wm m x d /\ d <> b.
Proof.
  unfold Wm. split.
  - intros [l [Hg Hi]]. destruct (path_eq_dec b d) as [->|Hne].
    + rewrite aget_adel_same in Hg. discriminate.
    + rewrite aget_adel_other in Hg by exact Hne. split; [exists l; split; assumption|].
      intros E. apply Hne. symmetry. exact E.
  - intros [[l [Hg Hi]] Hne]. exists l. split; [|exact Hi].
    rewrite aget_adel_other; [exact Hg|]. intros E. apply Hne. symmetry. exact E.
Qed.

Lemma Wm_aput m d l x d' : Wm (aput m d l) x d' <-> (d' = d /\ In x l) \/ (d' <> d /\ Wm m x d').
Proof.
  unfold Wm. destruct (path_eq_dec d d') as [<-|Hne].
  - rewrite aget_aput_same. split.
    + intros [l' [Hg Hi]]. inversion Hg; subst. left. split; [reflexivity|exact Hi].
    + intros [[_ Hi]|[Hn _]]; [|exfalso; apply Hn; reflexivity]. exists l. split; [reflexivity|exact Hi].
  - rewrite aget_aput_other by exact Hne. split.
    + intros H. right. split; [|exact H]. intros E. apply Hne. symmetry. exact E.
    + intros [[E _]|[_ H]]; [exfalso; apply Hne; symmetry; exact E|exact H].
Qed.

Lemma lists_nodup_adel m b : lists_nodup m -> lists_nodup (adel m b).
Proof.
  intros H d l Hg. destruct (path_eq_dec b d) as [->|Hne].
  - rewrite aget_adel_same in Hg. discriminate.
  - rewrite aget_adel_other in Hg by exact Hne. apply (H d l Hg).
Qed.

Lemma lists_nodup_aput m d l : lists_nodup m -> NoDup l -> lists_nodup (aput m d l).
Proof.
  intros H Hl d' l' Hg. destruct (path_eq_dec d d') as [<-|Hne].
  - rewrite aget_aput_same in Hg. inversion Hg; subst. exact Hl.
  - rewrite aget_aput_other in Hg by exact Hne. apply (H d' l' Hg).
Qed.

(* ---- the invariant of the dependency manager ---- *)
Record dm_ok (m : depmgr) : Prop := mkDmOk {
  dm_keys : keys_nodup (inn m);
  dm_lists : lists_nodup (inn m);
  dm_cnt : forall a, cget (cnt m) a = ecount (inn m) a }.

Lemma dm_ok_new : dm_ok dm_new.
Proof.
  constructor; simpl.
  - constructor.
  - intros d l H. discriminate.
  - intros a. reflexivity.
Qed.

(* ---- add_dependency ---- *)
Lemma add_deps_spec fin0 a : forall deps inn0 c added inn' c' added',
  keys_nodup inn0 -> lists_nodup inn0 ->
  add_deps inn0 fin0 a c added deps = (inn', c', added') ->
  keys_nodup inn' /\ lists_nodup inn' /\
  (forall x d, Wm inn' x d <-> Wm inn0 x d \/ (x = a /\ In d deps /\ ~ In d fin0)) /\
  c' + ecount inn0 a = c + ecount inn' a /\
  (forall x, x <> a -> ecount inn' x = ecount inn0 x) /\
  (added' = true <-> added = true \/ exists d, In d deps /\ ~ In d fin0).
Proof.
  induction deps as [|d ds IH]; intros inn0 c added inn' c' added' Hk Hl H.
  - simpl in H. inversion H; subst. split; [exact Hk|]. split; [exact Hl|].
    split; [|split; [reflexivity|split; [reflexivity|]]].
    + intros x d. split; [intros Hw; left; exact Hw|].
      intros [Hw|[_ [[] _]]]. exact Hw.
    + split; [intros Ha; left; exact Ha|]. intros [Ha|[d [[] _]]]. exact Ha.
  - cbn [add_deps] in H. destruct (pmem d fin0) eqn:Ef.
    + apply pmem_In in Ef.
      destruct (IH _ _ _ _ _ _ Hk Hl H) as [I1 [I2 [I3 [I4 [I5 I6]]]]].
      split; [exact I1|]. split; [exact I2|]. split; [|split; [exact I4|split; [exact I5|]]].
      * intros x d'. rewrite I3. split.
        -- intros [Hw|[Hx [Hd Hf]]]; [left; exact Hw|right].
           split; [exact Hx|split; [right; exact Hd|exact Hf]].
        -- intros [Hw|[Hx [[Hd|Hd] Hf]]]; [left; exact Hw| |].
           ++ subst d'. contradiction.
           ++ right. split; [exact Hx|split; assumption].
      * rewrite I6. split.
        -- intros [Ha|[d' [Hd Hf]]]; [left; exact Ha|right]. exists d'. split; [right; exact Hd|exact Hf].
        -- intros [Ha|[d' [[Hd|Hd] Hf]]]; [left; exact Ha| |].
           ++ subst d'. contradiction.
           ++ right. exists d'. split; assumption.
    + apply pmem_nIn in Ef.
      set (cur := match aget inn0 d with Some l => l | None => [] end) in *.
      assert (Hcur : NoDup cur).
      { unfold cur. destruct (aget inn0 d) as [l|] eqn:Eg; [apply (Hl d l Eg)|constructor]. }
      assert (Hcw : forall x, In x cur <-> Wm inn0 x d).
      { intros x. unfold cur, Wm. destruct (aget inn0 d) as [l|] eqn:Eg.
        - split; [intros Hi; exists l; split; [reflexivity|exact Hi]|].
          intros [l' [E Hi]]. inversion E; subst. exact Hi.
        - split; [intros []|]. intros [l' [E _]]. discriminate. }
      assert (Hcb : forall x, ebit x (aget inn0 d) = ebit x (Some cur)).
      { intros x. unfold cur. destruct (aget inn0 d) as [l|]; reflexivity. }
      destruct (pmem a cur) eqn:Ea.
      * apply pmem_In in Ea.
        assert (Hk1 : keys_nodup (aput inn0 d cur)) by (apply keys_nodup_aput; exact Hk).
        assert (Hl1 : lists_nodup (aput inn0 d cur)) by (apply lists_nodup_aput; assumption).
        destruct (IH _ _ _ _ _ _ Hk1 Hl1 H) as [I1 [I2 [I3 [I4 [I5 I6]]]]].
        assert (He : forall x, ecount (aput inn0 d cur) x = ecount inn0 x).
        { intros x. pose proof (ecount_aput_cur inn0 d cur x Hk) as Hx. rewrite Hcb in Hx. lia. }
        assert (Hw1 : forall x d', Wm (aput inn0 d cur) x d' <-> Wm inn0 x d').
        { intros x d'. rewrite Wm_aput. split.
          - intros [[-> Hi]|[_ Hw]]; [apply Hcw; exact Hi|exact Hw].
          - intros Hw. destruct (path_eq_dec d' d) as [->|Hne].
            + left. split; [reflexivity|apply Hcw; exact Hw].
            + right. split; assumption. }
        split; [exact I1|]. split; [exact I2|].
        split; [|split; [rewrite He in I4; exact I4|split; [intros x Hx; rewrite (I5 x Hx); apply He|]]].
        -- intros x d'. rewrite I3, Hw1. split.
           ++ intros [Hw|[Hx [Hd Hf]]]; [left; exact Hw|right].
              split; [exact Hx|split; [right; exact Hd|exact Hf]].
           ++ intros [Hw|[Hx [[Hd|Hd] Hf]]]; [left; exact Hw| |].
              ** subst d' x. left. apply Hcw. exact Ea.
              ** right. split; [exact Hx|split; assumption].
        -- rewrite I6. split.
           ++ intros _. right. exists d. split; [left; reflexivity|exact Ef].
           ++ intros _. left. reflexivity.
      * apply pmem_nIn in Ea.
        assert (Hk1 : keys_nodup (aput inn0 d (a :: cur))) by (apply keys_nodup_aput; exact Hk).
        assert (Hl1 : lists_nodup (aput inn0 d (a :: cur))).
        { apply lists_nodup_aput; [exact Hl|]. constructor; assumption. }
        destruct (IH _ _ _ _ _ _ Hk1 Hl1 H) as [I1 [I2 [I3 [I4 [I5 I6]]]]].
        assert (Hea : ecount (aput inn0 d (a :: cur)) a = S (ecount inn0 a)).
        { pose proof (ecount_aput_cur inn0 d (a :: cur) a Hk) as Hx. rewrite Hcb in Hx.
          unfold ebit in Hx. apply pmem_nIn in Ea. rewrite Ea in Hx.
          assert (Hp : pmem a (a :: cur) = true) by (apply pmem_In; left; reflexivity).
          rewrite Hp in Hx. lia. }
        assert (Heo : forall x, x <> a -> ecount (aput inn0 d (a :: cur)) x = ecount inn0 x).
        { intros x Hx. pose proof (ecount_aput_cur inn0 d (a :: cur) x Hk) as Hy. rewrite Hcb in Hy.
          assert (Hp : pmem x (a :: cur) = pmem x cur).
          { unfold pmem. cbn [existsb]. destruct (path_eqb x a) eqn:E; [|reflexivity].
            apply path_eqb_eq in E. contradiction. }
          unfold ebit in Hy. rewrite Hp in Hy. lia. }
        assert (Hw1 : forall x d', Wm (aput inn0 d (a :: cur)) x d' <-> Wm inn0 x d' \/ (x = a /\ d' = d)).
        { intros x d'. rewrite Wm_aput. split.
          - intros [[-> [Hi|Hi]]|[_ Hw]].
            + right. split; [symmetry; exact Hi|reflexivity].
            + left. apply Hcw. exact Hi.
            + left. exact Hw.
          - intros [Hw|[-> ->]].
            + destruct (path_eq_dec d' d) as [->|Hne].
              * left. split; [reflexivity|right; apply Hcw; exact Hw].
              * right. split; assumption.
            + left. split; [reflexivity|left; reflexivity]. }
        split; [exact I1|]. split; [exact I2|].
        split; [|split; [rewrite Hea in I4; lia|split; [intros x Hx; rewrite (I5 x Hx); apply Heo; exact Hx|]]].
        -- intros x d'. rewrite I3, Hw1. split.
           ++ intros [[Hw|[Hx Hd]]|[Hx [Hd Hf]]].
              ** left. exact Hw.
              ** subst. right. split; [reflexivity|split; [left; reflexivity|exact Ef]].
              ** right. split; [exact Hx|split; [right; exact Hd|exact Hf]].
           ++ intros [Hw|[Hx [[Hd|Hd] Hf]]].
              ** left. left. exact Hw.
              ** left. right. split; [exact Hx|symmetry; exact Hd].
              ** right. split; [exact Hx|split; assumption].
        -- rewrite I6. split.
           ++ intros _. right. exists d. split; [left; reflexivity|exact Ef].
           ++ intros _. left. reflexivity.
Qed.

Lemma add_dependency_spec m f ds m' added :
  dm_ok m -> add_dependency m f ds = (m', added) ->
  dm_ok m' /\ fin m' = fin m /\
  (forall a d, Wm (inn m') a d <-> Wm (inn m) a d \/ (a = f /\ In d ds /\ ~ In d (fin m))) /\
  (added = true <-> exists d, In d ds /\ ~ In d (fin m)).
Proof.
  intros [Hk Hl Hc] H. unfold add_dependency in H.
  destruct ds as [|d0 ds0].
  - inversion H; subst. split; [constructor; assumption|]. split; [reflexivity|]. split.
    + intros a d. split; [intros Hw; left; exact Hw|]. intros [Hw|[_ [[] _]]]. exact Hw.
    + split; [discriminate|]. intros [d [[] _]].
  - set (deps := d0 :: ds0) in *.
    destruct (add_deps (inn m) (fin m) f
               (match aget (cnt m) f with Some c => c | None => 0 end) false deps)
      as [[inn' c] added'] eqn:E.
    inversion H; subst m' added'. clear H.
    destruct (add_deps_spec _ _ _ _ _ _ _ _ _ Hk Hl E) as [I1 [I2 [I3 [I4 [I5 I6]]]]].
    fold (cget (cnt m) f) in I4. rewrite (Hc f) in I4.
    split; [|split; [reflexivity|split; [exact I3|]]].
    + constructor; cbn [inn cnt fin]; [exact I1|exact I2|].
      intros a. unfold cget. destruct (path_eq_dec f a) as [<-|Hne].
      * rewrite aget_aput_same. lia.
      * rewrite aget_aput_other by exact Hne. fold (cget (cnt m) a). rewrite (Hc a).
        symmetry. apply I5. intros Ea. apply Hne. symmetry. exact Ea.
    + rewrite I6. split; [intros [Hd|Hd]; [discriminate|exact Hd]|]. intros Hd. right. exact Hd.
Qed.

(* ---- notify_finish ---- *)
Definition dec (o : option nat) : option nat :=
  match o with Some k => if Nat.leb k 1 then None else Some (k - 1) | None => None end.
Definition last_edge (c : amap nat) (a : file) : bool :=
  match aget c a with Some k => Nat.leb k 1 | None => false end.

Lemma release_fun : forall ds c out,
  NoDup ds -> (forall a, In a ds -> aget c a <> None) ->
  exists c', release c ds out = Some (c', out ++ filter (last_edge c) ds) /\
    (forall a, ~ In a ds -> aget c' a = aget c a) /\
    (forall a, In a ds -> aget c' a = dec (aget c a)).
Proof.
  induction ds as [|h r IH]; intros c out ND Hc; cbn [release filter].
  - exists c. rewrite app_nil_r. split; [reflexivity|]. split; [reflexivity|]. intros a [].
  - inversion ND as [|? ? Hnot ND']; subst.
    destruct (aget c h) as [k|] eqn:Hk; [|exfalso; apply (Hc h); [left; reflexivity|exact Hk]].
    assert (Hne : forall a, In a r -> h <> a).
    { intros a Ha E. subst a. contradiction. }
    assert (Hfil : forall c1, (forall a, In a r -> aget c1 a = aget c a) ->
                     filter (last_edge c1) r = filter (last_edge c) r).
    { intros c1 Hc1. apply filter_ext_in. intros a Ha. unfold last_edge. rewrite (Hc1 a Ha). reflexivity. }
    unfold last_edge at 1. rewrite Hk.
    destruct (Nat.leb k 1) eqn:Hle.
    + assert (H1 : forall a, In a r -> aget (adel c h) a = aget c a).
      { intros a Ha. apply aget_adel_other. apply Hne. exact Ha. }
      destruct (IH (adel c h) (out ++ [h]) ND') as [c' [Hr [Hs Hd]]].
      { intros a Ha. rewrite (H1 a Ha). apply Hc. right. exact Ha. }
      exists c'. rewrite Hr, (Hfil _ H1). rewrite <- app_assoc. split; [reflexivity|]. split.
      * intros a Ha. rewrite Hs by (intros Hi; apply Ha; right; exact Hi).
        apply aget_adel_other. intros E. apply Ha. left. exact E.
      * intros a [<-|Ha].
        -- rewrite Hs by exact Hnot. rewrite aget_adel_same, Hk. simpl. rewrite Hle. reflexivity.
        -- rewrite (Hd a Ha). rewrite (H1 a Ha). reflexivity.
    + assert (H1 : forall a, In a r -> aget (aput c h (k - 1)) a = aget c a).
      { intros a Ha. apply aget_aput_other. apply Hne. exact Ha. }
      destruct (IH (aput c h (k - 1)) out ND') as [c' [Hr [Hs Hd]]].
      { intros a Ha. rewrite (H1 a Ha). apply Hc. right. exact Ha. }
      exists c'. rewrite Hr, (Hfil _ H1). split; [reflexivity|]. split.
      * intros a Ha. rewrite Hs by (intros Hi; apply Ha; right; exact Hi).
        apply aget_aput_other. intros E. apply Ha. left. exact E.
      * intros a [<-|Ha].
        -- rewrite Hs by exact Hnot. rewrite aget_aput_same, Hk. simpl. rewrite Hle. reflexivity.
        -- rewrite (Hd a Ha). rewrite (H1 a Ha). reflexivity.
Qed.

Lemma notify_finish_spec m b : dm_ok m ->
  exists m' out, notify_finish m b = Some (m', out) /\ dm_ok m' /\
    (forall x, In x (fin m') <-> x = b \/ In x (fin m)) /\
    (forall x d, Wm (inn m') x d <-> Wm (inn m) x d /\ d <> b) /\
    NoDup out /\
    (forall x, In x out <-> Wm (inn m) x b /\ ecount (inn m') x = 0).
Proof.
  intros [Hk Hl Hc]. unfold notify_finish.
  set (fin' := if pmem b (fin m) then fin m else b :: fin m).
  assert (Hfin : forall x, In x fin' <-> x = b \/ In x (fin m)).
  { intros x. unfold fin'. destruct (pmem b (fin m)) eqn:E.
    - apply pmem_In in E. split; [intros H; right; exact H|]. intros [->|H]; assumption.
    - simpl. split; (intros [H|H]; [left; symmetry; exact H|right; exact H]). }
  destruct (aget (inn m) b) as [l|] eqn:Eg.
  - assert (NDl : NoDup l) by (apply (Hl b l Eg)).
    assert (Hsplit : forall a, ecount (inn m) a = ecount (adel (inn m) b) a + ebit a (Some l)).
    { intros a. rewrite <- Eg. apply ecount_adel. exact Hk. }
    assert (Hin : forall a, In a l -> aget (cnt m) a = Some (S (ecount (adel (inn m) b) a))).
    { intros a Ha. pose proof (Hc a) as H1. rewrite (Hsplit a) in H1. unfold ebit in H1.
      apply pmem_In in Ha. rewrite Ha in H1. unfold cget in H1.
      destruct (aget (cnt m) a) as [k|]; [f_equal; lia|lia]. }
    destruct (release_fun l (cnt m) [] NDl) as [c' [Hr [Hs Hd]]].
    { intros a Ha. rewrite (Hin a Ha). discriminate. }
    rewrite Hr. cbn [app].
    eexists _, _. split; [reflexivity|]. cbn [inn cnt fin].
    split; [|split; [exact Hfin|split; [intros x d; apply Wm_adel|split]]].
    + constructor; cbn [inn cnt fin].
      * apply keys_nodup_adel. exact Hk.
      * apply lists_nodup_adel. exact Hl.
      * intros a. unfold cget. destruct (In_path_dec a l) as [Ha|Ha].
        -- rewrite (Hd a Ha), (Hin a Ha). cbn [dec].
           destruct (ecount (adel (inn m) b) a) as [|e]; simpl; try reflexivity; lia.
        -- rewrite (Hs a Ha). fold (cget (cnt m) a). rewrite (Hc a), (Hsplit a).
           unfold ebit. apply pmem_nIn in Ha. rewrite Ha. lia.
    + apply NoDup_filter. exact NDl.
    + intros x. rewrite filter_In. unfold last_edge, Wm. rewrite Eg. split.
      * intros [Ha Hle]. split; [exists l; split; [reflexivity|exact Ha]|].
        rewrite (Hin x Ha) in Hle. apply Nat.leb_le in Hle. lia.
      * intros [[l' [E Ha]] Hz]. inversion E; subst l'. split; [exact Ha|].
        rewrite (Hin x Ha), Hz. reflexivity.
  - eexists _, _. split; [reflexivity|]. cbn [inn cnt fin].
    split; [constructor; assumption|]. split; [exact Hfin|]. split; [|split; [constructor|]].
    + intros x d. split.
      * intros Hw. split; [exact Hw|]. intros ->. destruct Hw as [l [E _]]. rewrite Eg in E. discriminate.
      * intros [Hw _]. exact Hw.
    + intros x. split; [intros []|]. intros [[l [E _]] _]. rewrite Eg in E. discriminate.
Qed.
