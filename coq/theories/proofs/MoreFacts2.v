(* MoreFacts2.v — GOAL 2 of MoreFacts.v (C09): a final --needed (InMemoryBuild) pass against the fresh text. *)
Require Import Txtpp.Str Txtpp.Consts Txtpp.Grammar Txtpp.Tags Txtpp.Path Txtpp.Fs Txtpp.Sink Txtpp.Pp Txtpp.Spec.
Require Import Txtpp.proofs.StrFacts Txtpp.proofs.GrammarFacts Txtpp.proofs.TagsFacts Txtpp.proofs.SinkFacts Txtpp.proofs.PathFacts.
Require Import Txtpp.proofs.PpFacts Txtpp.proofs.EventFacts Txtpp.proofs.FrameFacts Txtpp.proofs.CleanVerifyFacts.
From Coq Require Import Lia.

(* ---- "succeed together, with the same tree" ---- *)
Definition ok_rel (o1 o2 : pp_outcome) : Prop :=
  (forall a, o1 = PpOk a -> exists b, o2 = PpOk b /\ w_eq a b) /\
  (forall b, o2 = PpOk b -> exists a, o1 = PpOk a /\ w_eq a b).
Lemma w_eq_sym a b : w_eq a b -> w_eq b a.
Proof. intros H p. symmetry. apply H. Qed.
Lemma w_eq_trans a b c : w_eq a b -> w_eq b c -> w_eq a c.
Proof. intros H1 H2 p. rewrite (H1 p). apply H2. Qed.
Lemma ok_rel_sym o1 o2 : ok_rel o1 o2 -> ok_rel o2 o1.
Proof.
  intros [A B]. split.
  - intros a Ha. destruct (B a Ha) as (b & Hb & E). exists b. split; [exact Hb|apply w_eq_sym; exact E].
  - intros b Hb. destruct (A b Hb) as (a & Ha & E). exists a. split; [exact Ha|apply w_eq_sym; exact E].
Qed.
Lemma ok_rel_trans o1 o2 o3 : ok_rel o1 o2 -> ok_rel o2 o3 -> ok_rel o1 o3.
Proof.
  intros [A1 B1] [A2 B2]. split.
  - intros a Ha. destruct (A1 a Ha) as (b & Hb & E1). destruct (A2 b Hb) as (c & Hc & E2).
    exists c. split; [exact Hc|eapply w_eq_trans; eauto].
  - intros c Hc. destruct (B2 c Hc) as (b & Hb & E2). destruct (B1 b Hb) as (a & Ha & E1).
    exists a. split; [exact Ha|eapply w_eq_trans; eauto].
Qed.
Lemma outcome_eq_ok_rel o1 o2 : outcome_eq o1 o2 -> ok_rel o1 o2.
Proof.
  destruct o1, o2; cbn; intros H; try contradiction; split; intros x Hx; inversion Hx; subst;
    eexists; split; try reflexivity; exact H.
Qed.
Lemma outcome_eq_but_ok_rel out o1 o2 : outcome_eq_but out o1 o2 -> ok_rel o1 o2.
Proof.
  destruct o1, o2; cbn; intros H; try contradiction; split; intros x Hx; inversion Hx; subst;
    eexists; split; try reflexivity; exact H.
Qed.

Section Needed.
Variable orc : oracle.
Variable base src : path.
Variable tn : bool.
Variable w : world.
Variable out : path.

Local Notation tnorm := (fun a => lex_normalize (lex_join (parent src) a)).

(* the side conditions of FrameFacts.needed_pass_vs_build_pass / CleanVerifyFacts.verify_pass_iff *)
Hypothesis Hrm : remove_txtpp src = Some out.
Hypothesis Hnorm : all_normal (parent src).                 (* the directory of the source is canonical *)
Hypothesis Hinc : ~ In out (map tnorm (include_args (items_of Build w src))).   (* no include reads the output *)
Hypothesis Htmp : ~ In out (map tnorm (temp_args (items_of Build w src))).      (* no temp directive writes it *)
Hypothesis Hwt : write_target (w_fs w) out <> None.          (* the output can be created (its parent exists) *)

(* the world in which fresh_text runs the pass: the output is absent *)
Definition w_absent : world := mkW (fs_del (w_fs w) out) (w_log w).

Lemma needed_shape :
  out <> [] /\ out <> src /\ write_target (w_fs w) out = Some out /\ ~ In dotdot out /\
  is_dir (w_fs w) out = false /\ lex_normalize out = out.
Proof.
  destruct (remove_txtpp_shape src out Hrm) as (dir & n & m & Es & Eo).
  assert (Hpar : parent src = dir) by (unfold parent; rewrite Es; apply removelast_last).
  assert (Hdir : all_normal dir) by (rewrite <- Hpar; exact Hnorm).
  assert (out_ne : out <> []) by (rewrite Eo; intros E; destruct dir; discriminate).
  split; [exact out_ne|]. split; [apply output_ne_source; exact Hrm|].
  destruct (write_target (w_fs w) out) as [q|] eqn:Ew; [|congruence].
  destruct (EventFacts.write_target_shape _ _ _ Ew) as (rp & n' & Ep & Hn' & Eq).
  rewrite Eo in Ep. apply app_inj_tail in Ep. destruct Ep as [<- <-].
  assert (Hq : q = out) by (rewrite Eq, Eo, (lex_normalize_normal dir Hdir); reflexivity). clear Eq. subst q.
  split; [reflexivity|]. split.
  - rewrite Eo. intros Hin. apply in_app_or in Hin. destruct Hin as [Hin|[Hin|[]]].
    + unfold all_normal in Hdir. rewrite Forall_forall in Hdir. specialize (Hdir _ Hin).
      unfold is_normal in Hdir. rewrite str_eqb_refl in Hdir. discriminate.
    + subst m. unfold is_normal in Hn'. rewrite str_eqb_refl in Hn'. discriminate.
  - split; [eapply write_target_not_dir; eauto|].
    apply lex_normalize_normal. rewrite Eo. apply Forall_app. split; [exact Hdir|]. constructor; [exact Hn'|constructor].
Qed.

(* the --needed pass in the given world and in the world without the output succeed together and leave the same tree *)
Lemma needed_pass_vs_absent :
  ok_rel (pp_run orc InMemoryBuild base src false tn w) (pp_run orc InMemoryBuild base src false tn w_absent).
Proof.
  destruct needed_shape as (out_ne & Hne & Hq & _ & Hnd & _).
  destruct (fs_get (w_fs w) out) as [[c|]|] eqn:G.
  - (* a file lies there: through the Build pass, which truncates it first *)
    set (w1 := mkW (fs_put (w_fs w) out (File c)) (w_log w)).
    assert (HD : forall p, is_dir (w_fs w) p = is_dir (w_fs w_absent) p).
    { intros p. cbn [w_absent w_fs]. rewrite is_dir_del by exact out_ne. destruct (path_eqb out p) eqn:E; [|reflexivity].
      apply path_eqb_eq in E. subst p. exact Hnd. }
    assert (Er : read_file (w_fs w_absent) src = read_file (w_fs w) src).
    { unfold read_file. cbn [w_absent w_fs]. rewrite fs_get_del_other by exact Hne. reflexivity. }
    assert (Ei : items_of Build w_absent src = items_of Build w src) by (unfold items_of; rewrite Er; reflexivity).
    eapply ok_rel_trans.
    { eapply outcome_eq_but_ok_rel. apply (needed_pass_vs_build_pass orc base src tn w out Hrm Hnorm Hinc Htmp Hwt). }
    eapply ok_rel_trans.
    { apply outcome_eq_ok_rel. apply (pp_run_ext orc Build base src false tn w w1).
      intros p. cbn [w1 w_fs]. destruct (path_dec out p) as [<-|N].
      - rewrite fs_get_put_same by exact out_ne. exact G.
      - rewrite fs_get_put_other by exact N. reflexivity. }
    apply (ok_rel_trans _ (pp_run orc Build base src false tn w_absent)).
    { destruct (build_pass_ignores_old_output_weaker orc base src false tn (w_fs w) (w_log w) (w_log w) out
                  (Some (File c)) None Hrm) as [H|[H1 H2]]; try discriminate; try exact Hnorm.
      - apply outcome_eq_ok_rel. exact H.
      - cbv zeta in H1, H2. fold w1 in H1. fold w_absent in H2. rewrite H1, H2.
        split; intros x Hx; discriminate. }
    apply ok_rel_sym. eapply outcome_eq_but_ok_rel.
    apply (needed_pass_vs_build_pass orc base src tn w_absent out Hrm Hnorm).
    + rewrite Ei. exact Hinc.
    + rewrite Ei. exact Htmp.
    + rewrite <- (write_target_dirs _ _ out HD). exact Hwt.
  - unfold is_dir in Hnd. rewrite G in Hnd. discriminate.
  - (* nothing lies there: the two worlds are the same tree *)
    apply outcome_eq_ok_rel. apply pp_run_ext. intros p. cbn [w_absent w_fs].
    destruct (path_dec out p) as [<-|N].
    + rewrite fs_get_del_same by exact out_ne. exact G.
    + rewrite fs_get_del_other by exact N. reflexivity.
Qed.

(* C09, "conversely": whatever lies at the output path (the fresh text, a stale text, nothing), a final --needed pass
   succeeds iff the fresh text exists, and afterwards the output holds exactly the fresh text *)
Theorem needed_pass_makes_fresh :
  (forall w', pp_run orc InMemoryBuild base src false tn w = PpOk w' ->
     exists txt, fresh_text orc base src tn w out = Some txt /\ read_file (w_fs w') out = Some txt) /\
  (forall txt, fresh_text orc base src tn w out = Some txt ->
     exists w', pp_run orc InMemoryBuild base src false tn w = PpOk w' /\ read_file (w_fs w') out = Some txt).
Proof.
  destruct needed_pass_vs_absent as [A B]. unfold fresh_text. fold w_absent. split.
  - intros w' H. destruct (A w' H) as (wm & Hm & E). rewrite Hm.
    assert (R : read_file (w_fs w') out = read_file (w_fs wm) out) by (unfold read_file; rewrite (E out); reflexivity).
    (* the in-memory pass always leaves a file at a canonical output *)
    destruct needed_shape as (_ & _ & _ & Hdd & _ & _).
    assert (X : exists txt, read_file (w_fs w') out = Some txt).
    { rewrite pp_run_unfold in H. destruct (read_file (w_fs w) src) as [raw|]; [|discriminate].
      rewrite Hrm in H. destruct (is_txtpp_file out); [discriminate|]. cbn [sink_new] in H.
      apply pp_rest_ok_iff in H. destruct H as [_ H]. rewrite spec_out_nonclean in H by discriminate.
      destruct (mem_prefix out Hdd orc src base (detect_le raw) tn _
                  (mkP None false PExec tags_new (SMem out []) w) [] w' eq_refl H) as [t Ht].
      exists t. exact Ht. }
    destruct X as [txt X]. exists txt. split; [rewrite <- R; exact X|exact X].
  - intros txt H. destruct (pp_run orc InMemoryBuild base src false tn w_absent) as [wm| | |] eqn:Em; try discriminate.
    destruct (B wm eq_refl) as (w' & Hw' & E). exists w'. split; [exact Hw'|].
    unfold read_file. rewrite (E out). exact H.
Qed.

(* ---- the events of the pass ---- *)
(* what the directives of a non-clean pass over the items `its` may log: commands, and writes of temp targets *)
Definition temp_ev (its : list item) (e : event) : Prop :=
  match e with
  | ERun _ _ _ => True
  | EWrite p => In p (map tnorm (temp_args its))
  | ERemove _ => False
  end.

(* a successful final --needed pass is: the directives (which log commands and temp writes only), then `done` on the
   buffered text *)
Lemma needed_pass_split w' :
  pp_run orc InMemoryBuild base src false tn w = PpOk w' ->
  exists w1 buf, tr (temp_ev (items_of Build w src)) w w1 /\ sink_done (SMem out buf) w1 = inl w'.
Proof.
  rewrite pp_run_unfold. unfold items_of. destruct (read_file (w_fs w) src) as [raw|]; [|discriminate].
  rewrite Hrm. destruct (is_txtpp_file out); [discriminate|]. cbn [sink_new]. intros H.
  apply pp_rest_ok_iff in H. destruct H as [_ H].
  set (its := items_of' InMemoryBuild raw) in *.
  change (parse (mode_eqb Build Clean) None (fst (take_valid (lines raw)))) with its.
  set (s0 := mkP None false PExec tags_new (SMem out []) w) in *.
  set (le := detect_le raw) in *.
  unfold spec_out in H.
  pose proof (run_items_chain orc InMemoryBuild src base le (temp_ev its) w (SMem out []) its s0) as C.
  destruct (run_items orc InMemoryBuild src base le its s0) as [res cs] eqn:R. cbn [fst] in H, C.
  destruct res as [s1|k wk|]; try discriminate.
  destruct C as (T & _ & _).
  { intros e []. }
  { intros d fol e Hin He. destruct e as [p|p|c cw f]; cbn [dir_ev temp_ev] in *.
    - destruct He as [_ He]. eapply temp_path_in_temp_args; eauto.
    - destruct He as [He _]. discriminate.
    - exact I. }
  { apply tr_refl. }
  { apply sink_le_refl. }
  destruct (run_items_mem_splice orc InMemoryBuild src base le its s0 s1 cs out [] eq_refl R) as [K1 _].
  exists (wld s1). unfold epilogue in H. rewrite K1 in H.
  destruct (pmode s1); try discriminate;
    (destruct (has_tags (tg s1) && negb (mode_eqb InMemoryBuild Clean)); [discriminate|];
     cbv zeta in H; destruct (flag s1 && tn); cbn [sink_write] in H;
     match type of H with context [sink_done (SMem out ?b) ?x] =>
       destruct (sink_done (SMem out b) x) as [w2|k2] eqn:Hd end; [|discriminate| |discriminate];
     inversion H; subst w2; eexists; (split; [exact T|exact Hd])).
Qed.

Lemma temp_ev_not_out e : temp_ev (items_of Build w src) e -> ev_path e <> Some out.
Proof.
  destruct e as [p|p|c cw f]; cbn [temp_ev ev_path]; intros H E; try discriminate; try contradiction.
  inversion E; subst p. exact (Htmp H).
Qed.

(* C09 `needed_pass_no_event_when_fresh`: the output already holds exactly the fresh text.  A final --needed pass
   that succeeds logs commands and temp writes only: NO event on the output path, and the output keeps its node. *)
Theorem needed_pass_no_event_when_fresh txt w' :
  fresh_text orc base src tn w out = Some txt -> read_file (w_fs w) out = Some txt ->
  pp_run orc InMemoryBuild base src false tn w = PpOk w' ->
  exists evs, w_log w' = w_log w ++ evs /\
              Forall (temp_ev (items_of Build w src)) evs /\
              (forall e, In e evs -> ev_path e <> Some out) /\
              fs_get (w_fs w') out = fs_get (w_fs w) out.
Proof.
  intros Hf Hr H.
  destruct (proj1 needed_pass_makes_fresh w' H) as (txt' & Hf' & Rw'). rewrite Hf in Hf'. inversion Hf'; subst txt'.
  destruct (needed_pass_split w' H) as (w1 & buf & (evs & L & F & G) & Hd).
  assert (Hno : forall e, In e evs -> ev_path e <> Some out).
  { intros e He. apply temp_ev_not_out. rewrite Forall_forall in F. apply F. exact He. }
  assert (G1 : fs_get (w_fs w1) out = fs_get (w_fs w) out) by (apply G; exact Hno).
  destruct needed_shape as (_ & _ & _ & Hdd & _ & _).
  pose proof (needed_updates_stale_weaker out buf w1 w' Hdd Hd) as Rb. rewrite Rw' in Rb. inversion Rb; subst buf.
  (* `done` finds the text it was going to write *)
  cbn [sink_done] in Hd. unfold read_file in Hr. rewrite G1 in Hd.
  destruct (fs_get (w_fs w) out) as [[c|]|]; try discriminate. inversion Hr; subst c.
  rewrite str_eqb_refl in Hd. inversion Hd; subst w'.
  exists evs. split; [exact L|]. split; [exact F|]. split; [exact Hno|exact G1].
Qed.

(* ... and when the output is stale or missing, the pass logs exactly one event on the output path, its last event,
   the write of the fresh text *)
Theorem needed_pass_event_when_stale txt w' :
  fresh_text orc base src tn w out = Some txt -> read_file (w_fs w) out <> Some txt ->
  pp_run orc InMemoryBuild base src false tn w = PpOk w' ->
  exists evs, w_log w' = w_log w ++ evs ++ [EWrite out] /\
              Forall (temp_ev (items_of Build w src)) evs /\
              (forall e, In e evs -> ev_path e <> Some out) /\
              read_file (w_fs w') out = Some txt.
Proof.
  intros Hf Hr H.
  destruct (proj1 needed_pass_makes_fresh w' H) as (txt' & Hf' & Rw'). rewrite Hf in Hf'. inversion Hf'; subst txt'.
  destruct (needed_pass_split w' H) as (w1 & buf & (evs & L & F & G) & Hd).
  assert (Hno : forall e, In e evs -> ev_path e <> Some out).
  { intros e He. apply temp_ev_not_out. rewrite Forall_forall in F. apply F. exact He. }
  assert (G1 : fs_get (w_fs w1) out = fs_get (w_fs w) out) by (apply G; exact Hno).
  destruct needed_shape as (_ & _ & _ & Hdd & _ & Hnn).
  pose proof (needed_updates_stale_weaker out buf w1 w' Hdd Hd) as Rb. rewrite Rw' in Rb. inversion Rb; subst buf.
  exists evs. split; [|split; [exact F|split; [exact Hno|exact Rw']]].
  assert (W : forall w2, w_write w1 out txt = Some w2 -> w_log w2 = w_log w ++ evs ++ [EWrite out]).
  { intros w2 E. unfold w_write in E. destruct (write_target (w_fs w1) out) as [q|] eqn:Eq; [|discriminate].
    apply write_target_normalize in Eq. rewrite Hnn in Eq. subst q. inversion E; subst w2. cbn [w_log].
    rewrite L, <- app_assoc. reflexivity. }
  cbn [sink_done] in Hd. unfold read_file in Hr. rewrite G1 in Hd.
  destruct (fs_get (w_fs w) out) as [[c|]|]; try discriminate.
  - destruct (str_eqb c txt) eqn:Ec; [apply str_eqb_eq in Ec; subst c; exfalso; apply Hr; reflexivity|].
    destruct (w_write w1 out txt) as [w2|] eqn:E; [|discriminate]. inversion Hd; subst w2. apply W. reflexivity.
  - destruct (w_write w1 out txt) as [w2|] eqn:E; [|discriminate]. inversion Hd; subst w2. apply W. reflexivity.
Qed.
End Needed.

(* ---- non-vacuity (the source a.txtpp = "-- TXTPP#temp t\n-- hello\nh\n" of CleanVerifyFacts; the fresh text is "h\n").
   Fresh output: the pass only (creates and) writes the temp file t, the output is not touched.
   Stale output ("h"): the same, then one write of the output. ---- *)
Example needed_pass_no_event_when_fresh_example :
  exists w',
    pp_run ex_orc InMemoryBuild [] ex_src false true ex_w_fresh = PpOk w' /\
    fresh_text ex_orc [] ex_src true ex_w_fresh ex_out = Some [104; 10] /\
    read_file (w_fs ex_w_fresh) ex_out = Some [104; 10] /\
    w_log w' = [EWrite [[116]]; EWrite [[116]]] /\
    (forall e, In e (w_log w') -> ev_path e <> Some ex_out) /\
    fs_get (w_fs w') ex_out = fs_get (w_fs ex_w_fresh) ex_out.
Proof.
  destruct ex_conditions_fresh as (H1 & H2 & H3 & H4 & H5).
  assert (Hf : fresh_text ex_orc [] ex_src true ex_w_fresh ex_out = Some [104; 10]) by (vm_compute; reflexivity).
  destruct (proj2 (needed_pass_makes_fresh ex_orc [] ex_src true ex_w_fresh ex_out H1 H2 H3 H4 H5) _ Hf) as (w' & Hw' & _).
  exists w'. split; [exact Hw'|]. split; [exact Hf|]. split; [reflexivity|].
  destruct (needed_pass_no_event_when_fresh ex_orc [] ex_src true ex_w_fresh ex_out H1 H2 H3 H4 H5 [104; 10] w' Hf eq_refl Hw')
    as (evs & L & _ & Hno & G).
  split; [|split; [|exact G]].
  - vm_compute in Hw'. inversion Hw'. reflexivity.
  - intros e He. apply Hno. rewrite L in He. exact He.
Qed.

Example needed_pass_event_when_stale_example :
  exists w',
    pp_run ex_orc InMemoryBuild [] ex_src false true ex_w_stale = PpOk w' /\
    read_file (w_fs ex_w_stale) ex_out = Some [104] /\
    w_log w' = [EWrite [[116]]; EWrite [[116]]; EWrite ex_out] /\
    read_file (w_fs w') ex_out = Some [104; 10].
Proof.
  destruct ex_conditions_stale as (H1 & H2 & H3 & H4 & H5).
  assert (Hf : fresh_text ex_orc [] ex_src true ex_w_stale ex_out = Some [104; 10]) by (vm_compute; reflexivity).
  destruct (proj2 (needed_pass_makes_fresh ex_orc [] ex_src true ex_w_stale ex_out H1 H2 H3 H4 H5) _ Hf) as (w' & Hw' & R).
  exists w'. split; [exact Hw'|]. split; [reflexivity|]. split; [|exact R].
  vm_compute in Hw'. inversion Hw'. reflexivity.
Qed.
