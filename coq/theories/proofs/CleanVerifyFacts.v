(* CleanVerifyFacts.v — pass-level statements of C07 (build then clean restores) and C06 (verify accepts exactly
   the bytes a build would write), on top of FrameFacts / EventFacts / PpFacts.
   TASK: prove the statements below. For statements marked DESIGN you may adjust hypotheses (report exactly what you
   needed); statements not so marked must stay as they are (use `_weaker` + counterexample if one is false).
   Leave NO Admitted at the end: delete what you cannot finish and say so. *)
(* AS BUILT (everything below is proved, no Admitted, no axiom):
   - parse_clean_eq_build                     (as stated)
   - C06  verify_pass_iff                     verdict equivalence in both directions + the resulting world
          verify_pass_rejects_any_difference, verify_pass_rejects_other_bytes
          Method: both passes are brought to the item level (PpFacts.fusion, `pp_rest_ok_iff`); one item is simulated
          with FrameFacts.exec_directive_cong instantiated with X = {output} and the sink relation `SKvm`
          ("SVerify out rest ~ SMem out buf, existing = buf ++ rest, the output is a file on the verify side and absent
          on the memory side"); the simulation is one-sided (`SRv`): the verify run may stop with KVerify while the
          memory run goes on, and then the memory buffer is not a prefix of the existing content any more (`diverged`,
          `mem_prefix`).
   - C07  clean_pass_removes_output           (no side condition)
          clean_pass_idempotent               (side condition: no temp directive names the source itself)
          build_then_clean_restores_pass      (side conditions: directory of the source canonical; nothing lying at the
                                               output and at the temp targets beforehand. No distinctness condition.)
          Method: a Clean pass is characterised exactly (`clean_pass_char`: remove the output, then `clean_fold` = one
          `remove_temp` per temp directive); a successful final Build pass leaves the directories alone and has
          reached every temp target (`build_items_inv`, `temp_ok`).
   - Examples (vm_compute): verify_pass_iff_example, build_then_clean_example. *)
Require Import Txtpp.Str Txtpp.Consts Txtpp.Grammar Txtpp.Tags Txtpp.Path Txtpp.Fs Txtpp.Sink Txtpp.Pp Txtpp.Spec.
Require Import Txtpp.proofs.StrFacts Txtpp.proofs.SinkFacts Txtpp.proofs.PathFacts Txtpp.proofs.PpFacts Txtpp.proofs.EventFacts Txtpp.proofs.FrameFacts.
From Coq Require Import Lia.

(* ---------------- helper that both need: the items of a source do not depend on the mode except for prefix-less
   multi-line directives (which make a Build pass fail) ---------------- *)
Lemma parse_clean_eq_build cur ls :
  ~ In IBad (parse false cur ls) -> parse true cur ls = parse false cur ls.
Proof.
  revert cur. induction ls as [|l r IH]; intros c H; [reflexivity|].
  assert (F : ~ In IBad (fresh_items Build l r) -> fresh_items Clean l r = fresh_items Build l r).
  { unfold fresh_items. cbn [mode_eqb].
    destruct (detect_from l) as [d|].
    - destruct (needs_prefix_err d).
      + intros Hb. exfalso. apply Hb. left. reflexivity.
      + apply IH.
    - intros Hb. f_equal. apply IH. intros Hin. apply Hb. right. exact Hin. }
  change (parse true c (l :: r)) with (parse (mode_eqb Clean Clean) c (l :: r)).
  change (parse false c (l :: r)) with (parse (mode_eqb Build Clean) c (l :: r)) in *.
  rewrite !parse_cons in *. cbn [mode_eqb] in *.
  destruct c as [d|]; [|apply F; exact H].
  destruct (add_line d l).
  - apply IH. exact H.
  - f_equal. apply F. intros Hin. apply H. right. exact Hin.
  - reflexivity.
Qed.


(* ---------------- C06 ---------------- *)
(* The text a pass produces, independently of the sink: run the pass with the in-memory sink and look at the buffer
   handed to `done`. `fresh_text` is defined through InMemoryBuild on a world where the output is ABSENT, so that
   `sink_done` always writes: the fresh text is then the content of `out` afterwards. *)
Definition fresh_text (orc : oracle) (base src : path) (tn : bool) (w : world) (out : path) : option str :=
  match pp_run orc InMemoryBuild base src false tn (mkW (fs_del (w_fs w) out) (w_log w)) with
  | PpOk w' => read_file (w_fs w') out
  | _ => None
  end.

(* DESIGN: a final verify pass succeeds iff the existing output holds exactly the fresh text (and then changes nothing).
   Expected side conditions: `remove_txtpp src = Some out`, canonical source (`all_normal src`, `no_dotdot_prefix src`),
   no include/temp argument of the source normalises to `out` (the pass does not read or write its own output through a
   directive), and `write_target (w_fs w) out <> None` (the parent directory exists, so that the in-memory run can write).
   State it as `verify_pass_iff` in the form:
     pp_run orc Verify base src false tn w = PpOk w'  <->  (exists txt, fresh_text orc base src tn w out = Some txt /\ read_file (w_fs w) out = Some txt) /\ ...
   where `...` may say what w' is (w_eq w' (the world after the temp writes)). At minimum prove both directions of the
   verdict equivalence. Hint: FrameFacts has a generic congruence over a relation between the two sinks (Sections Gen / Machine / Rest,
   `pp_rest_cong`, `SKnb` for needed-vs-build): instantiate it with "SVerify p rest  ~  SMem p buf  where existing = buf ++ rest",
   i.e. the verify sink has matched exactly what the memory sink has buffered; SinkFacts.verify_stream_iff is the single-sink version. *)

(* ---- the rest of a pass, seen through the items (PpFacts.fusion) ---- *)
Lemma pp_rest_ok_iff orc md base src first tn raw k0 w0 w' :
  pp_rest orc md base src first tn raw k0 w0 = PpOk w' <->
  snd (take_valid (lines raw)) = false /\
  spec_out orc md src base (detect_le raw) tn (items_of' md raw)
    (mkP None false (if first then PFirst else PExec) tags_new k0 w0) = PpOk w'.
Proof.
  unfold pp_rest, items_of'. destruct (take_valid (lines raw)) as [ls bad]. cbn [fst snd].
  set (s0 := mkP None false (if first then PFirst else PExec) tags_new k0 w0).
  pose proof (fusion orc md src base (detect_le raw) tn ls s0) as F.
  change (cur s0) with (@None directive) in F. change (set_cur s0 None) with s0 in F.
  rewrite <- F. unfold outcome_of.
  destruct (run_lines orc md src base (detect_le raw) ls s0) as [s1|k w1|].
  - destruct bad.
    + split; [discriminate|]. intros [H _]. discriminate.
    + split; [intros H; split; [reflexivity|exact H]|intros [_ H]; exact H].
  - split; [discriminate|]. intros [_ H]. discriminate.
  - split; [discriminate|]. intros [_ H]. discriminate.
Qed.

(* the three non-clean modes execute the items alike: only the sink differs *)
Lemma run_items_nonclean orc md src base le its : md <> Clean -> forall s,
  run_items orc md src base le its s = run_items orc Build src base le its s.
Proof.
  intros Hm. induction its as [|it r IH]; intros s; [reflexivity|].
  cbn [run_items].
  assert (E : item_output orc md src base le it s = item_output orc Build src base le it s).
  { destruct md; try congruence; destruct it; reflexivity. }
  rewrite E. destruct (item_output orc Build src base le it s) as [o s1|k w|]; try reflexivity.
  destruct (emit le s1 o (item_tail it)) as [s2|k w|]; try reflexivity.
  rewrite IH. reflexivity.
Qed.
Lemma spec_out_nonclean orc md src base le tn its s : md <> Clean ->
  spec_out orc md src base le tn its s = spec_out orc Build src base le tn its s.
Proof.
  intros Hm. unfold spec_out. rewrite (run_items_nonclean orc md src base le its Hm).
  destruct (fst (run_items orc Build src base le its s)); try reflexivity.
  destruct md; try congruence; reflexivity.
Qed.

Definition is_prefix (b c : str) : Prop := exists t, c = b ++ t.

Lemma verify_write_cases p rest w x :
  (exists r', rest = x ++ r' /\ sink_write (SVerify p rest) w x = inl (SVerify p r', w)) \/
  ((~ exists r', rest = x ++ r') /\ sink_write (SVerify p rest) w x = inr KVerify).
Proof.
  cbn [sink_write]. destruct (Nat.ltb_spec (length rest) (length x)) as [Hlt|Hge].
  - right. split; [|reflexivity]. intros [r' ->]. rewrite app_length in Hlt. lia.
  - destruct (str_eqb (firstn (length x) rest) x) eqn:E.
    + left. apply str_eqb_eq in E. exists (skipn (length x) rest). split; [|reflexivity].
      rewrite <- E at 1. symmetry. apply firstn_skipn.
    + right. split; [|reflexivity]. intros [r' ->].
      rewrite firstn_app, firstn_all, Nat.sub_diag, firstn_O, app_nil_r, str_eqb_refl in E. discriminate.
Qed.

(* ---- verify against in-memory: the verify sink has matched exactly what the memory sink has buffered ---- *)
Section VerifyMem.
Variable out : path.
Variable c : str.            (* the existing content of the output *)
Hypothesis out_ne : out <> [].
Hypothesis out_nodd : ~ In dotdot out.

Definition SKvm (k1 k2 : sink) (w1 w2 : world) : Prop :=
  exists buf rest, k1 = SVerify out rest /\ k2 = SMem out buf /\ c = buf ++ rest /\
    fs_get (w_fs w1) out = Some (File c) /\ fs_get (w_fs w2) out = None /\
    write_target (w_fs w2) out = Some out.

Lemma SKvm_stable k1 k2 w1 w2 a b :
  SKvm k1 k2 w1 w2 -> stable (Xout out) w1 a -> stable (Xout out) w2 b -> SKvm k1 k2 a b.
Proof.
  intros (buf & rest & -> & -> & Ec & G1 & G2 & Ht) [A1 _] [A2 D2].
  exists buf, rest. repeat split; auto.
  - rewrite A1; [exact G1|]. apply Xout_true. reflexivity.
  - rewrite A2; [exact G2|]. apply Xout_true. reflexivity.
  - rewrite (write_target_dirs _ _ out D2). exact Ht.
Qed.

Definition PSv : pst -> pst -> Prop := PS (Xout out) SKvm false.
(* the memory run has buffered something that is not a prefix of the existing content *)
Definition diverged (s : pst) : Prop := exists buf, snk s = SMem out buf /\ ~ is_prefix buf c.

(* one-sided: the verify run may stop with KVerify while the memory run goes on *)
Definition SRv (r1 r2 : step_res) : Prop :=
  match r2 with
  | StOk b => match r1 with
              | StOk a => PSv a b
              | StErr k _ => k = KVerify /\ diverged b
              | StPanic => False
              end
  | StErr k2 _ => match r1 with StErr k1 _ => k1 = k2 | _ => False end
  | StPanic => r1 = StPanic
  end.

Lemma emit_tail_vm s1 s2 w1 w2 buf rest x ht :
  PSv s1 s2 -> wR (Xout out) w1 w2 -> c = buf ++ rest ->
  fs_get (w_fs w1) out = Some (File c) -> fs_get (w_fs w2) out = None ->
  write_target (w_fs w2) out = Some out ->
  SRv (match sink_write (SVerify out rest) w1 x with
       | inr k => StErr k w1
       | inl (k', w') => StOk (set_flag (set_io s1 k' w') (negb ht))
       end)
      (match sink_write (SMem out buf) w2 x with
       | inr k => StErr k w2
       | inl (k', w') => StOk (set_flag (set_io s2 k' w') (negb ht))
       end).
Proof.
  intros (C & F & M & T & W & K & V) W' Ec G1 G2 Ht.
  destruct (verify_write_cases out rest w1 x) as [(r' & Er & Ew)|(Hn & Ew)]; rewrite Ew; cbn [sink_write SRv].
  - unfold PSv, PS; cbn. repeat split; auto; try apply W'.
    exists (buf ++ x), r'. repeat split; auto. rewrite <- app_assoc, <- Er. exact Ec.
  - split; [reflexivity|]. exists (buf ++ x). split; [reflexivity|].
    intros [t Et]. apply Hn. exists t. rewrite Ec, <- app_assoc in Et. apply app_inv_head in Et. exact Et.
Qed.

Lemma emit_vm le s1 s2 o ht : PSv s1 s2 -> SRv (emit le s1 o ht) (emit le s2 o ht).
Proof.
  intros P. pose proof P as (C & F & M & T & W & K & V). unfold emit. rewrite <- M.
  destruct (is_execute (pmode s1)); [|exact P].
  destruct o as [x|]; [|exact P].
  rewrite <- F. destruct K as (buf & rest & K1 & K2 & Ec & G1 & G2 & Ht). rewrite K1, K2.
  destruct (flag s1).
  - destruct (verify_write_cases out rest (wld s1) le) as [(r' & Er & Ew)|(Hn & Ew)]; rewrite Ew.
    + cbn [sink_write]. apply emit_tail_vm; auto. rewrite <- app_assoc, <- Er. exact Ec.
    + cbn [sink_write SRv]. split; [reflexivity|]. exists ((buf ++ le) ++ x). split; [reflexivity|].
      intros [t Et]. apply Hn. exists (x ++ t). rewrite Ec, <- !app_assoc in Et. apply app_inv_head in Et. exact Et.
  - apply emit_tail_vm; auto.
Qed.

Section Items.
Variable orc : oracle.
Variable src base : path.
Variable le : str.

Definition dcv (d : directive) : Prop := dcond (Xout out) false Build src d.

Lemma do_item_vm it s1 s2 : PSv s1 s2 -> (forall d fol, it = IDir d fol -> dcv d) ->
  SRv (do_item orc Build src base le it s1) (do_item orc Build src base le it s2).
Proof.
  intros P Hd. pose proof P as (C & F & M & T & W & K & V). unfold do_item.
  destruct it as [l|d fol| |]; cbn [item_output].
  - rewrite <- M, <- T. destruct (is_execute (pmode s1)); [|apply emit_vm; exact P].
    destruct (inject (tg s1) l le) as [[l' t']|]; [|reflexivity].
    apply emit_vm. apply PS_set_tg. exact P.
  - pose proof (exec_directive_cong (Xout out) SKvm false orc Build src base le SKvm_stable d s1 s2 P
                  (Hd d fol eq_refl)) as H.
    destruct (exec_directive orc Build src base le d s1) as [o1 a|k1 a],
             (exec_directive orc Build src base le d s2) as [o2 b|k2 b]; cbn [XR] in H; try contradiction.
    + destruct H as [<- P']. destruct o1 as [raw|]; [|apply emit_vm; exact P'].
      pose proof P' as (_ & _ & _ & T' & _). rewrite <- T'.
      destruct (try_store (tg a) raw) as [t'|]; apply emit_vm; [apply PS_set_tg|]; exact P'.
    + cbn [SRv]. apply H.
  - cbn [SRv]. reflexivity.
  - reflexivity.
Qed.

Lemma mem_done_absent buf w :
  fs_get (w_fs w) out = None -> write_target (w_fs w) out = Some out ->
  sink_done (SMem out buf) w = inl (mkW (fs_put (w_fs w) out (File buf)) (w_log w ++ [EWrite out])).
Proof. intros G Ht. cbn [sink_done]. rewrite G. unfold w_write. rewrite Ht. reflexivity. Qed.

(* the in-memory buffer only grows: on success the output holds an extension of what was buffered *)
Lemma mem_prefix tn its s buf w' :
  snk s = SMem out buf -> spec_out orc Build src base le tn its s = PpOk w' ->
  exists t, read_file (w_fs w') out = Some (buf ++ t).
Proof.
  intros Hk. unfold spec_out.
  destruct (run_items orc Build src base le its s) as [res cs] eqn:R. cbn [fst].
  destruct res as [s1|k w1|]; try discriminate.
  destruct (run_items_mem_splice orc Build src base le its s s1 cs out buf Hk R) as [H1 _].
  unfold epilogue. rewrite H1.
  assert (D : forall b w0 w2, sink_done (SMem out (buf ++ b)) w0 = inl w2 ->
            exists t, read_file (w_fs w2) out = Some (buf ++ t)).
  { intros b w0 w2 Hd. exists b. eapply needed_updates_stale_weaker; eauto. }
  assert (Tl : (if has_tags (tg s1) && negb (mode_eqb Build Clean) then PpErr KDirective (wld s1)
                else let r := if flag s1 && tn
                               then sink_write (SMem out (buf ++ (if flag s && negb match cs with [] => true | _ :: _ => false end then le else []) ++ splice_open le cs)) (wld s1) le
                               else inl (SMem out (buf ++ (if flag s && negb match cs with [] => true | _ :: _ => false end then le else []) ++ splice_open le cs), wld s1) in
                     match r with
                     | inl (k1, w1) => match sink_done k1 w1 with inl w2 => PpOk w2 | inr k => PpErr k w1 end
                     | inr k => PpErr k (wld s1)
                     end) = PpOk w' -> exists t, read_file (w_fs w') out = Some (buf ++ t)).
  { destruct (has_tags (tg s1) && negb (mode_eqb Build Clean)); [discriminate|]. cbv zeta.
    destruct (flag s1 && tn); cbn [sink_write].
    - rewrite <- app_assoc.
      match goal with |- context [sink_done ?k ?w] => destruct (sink_done k w) as [w2|k2] eqn:Hd end; [|discriminate].
      intros H. inversion H; subst. eapply D; eauto.
    - match goal with |- context [sink_done ?k ?w] => destruct (sink_done k w) as [w2|k2] eqn:Hd end; [|discriminate].
      intros H. inversion H; subst. eapply D; eauto. }
  destruct (pmode s1); [exact Tl|exact Tl|discriminate].
Qed.

Lemma epilogue_vm_fwd tn s1 s2 w1' : PSv s1 s2 ->
  epilogue Build le tn s1 = PpOk w1' ->
  exists w2', epilogue Build le tn s2 = PpOk w2' /\ read_file (w_fs w2') out = Some c /\
    (forall p, p <> out -> fs_get (w_fs w1') p = fs_get (w_fs w2') p) /\
    fs_get (w_fs w1') out = Some (File c).
Proof.
  intros (C & F & M & T & W & K & V). unfold epilogue. rewrite <- M, <- T, <- F, (V eq_refl).
  destruct (has_tags (tg s1) && negb (mode_eqb Build Clean)); [discriminate|]. cbv zeta.
  destruct K as (buf & rest & K1 & K2 & Ec & G1 & G2 & Ht). rewrite K1, K2.
  assert (Fin : forall b r', c = b ++ r' ->
            match sink_done (SVerify out r') (wld s1) with inl w2 => PpOk w2 | inr k => PpErr k (wld s1) end = PpOk w1' ->
            exists w2', match sink_done (SMem out b) (wld s2) with inl w2 => PpOk w2 | inr k => PpErr k (wld s2) end = PpOk w2' /\
              read_file (w_fs w2') out = Some c /\
              (forall p, p <> out -> fs_get (w_fs w1') p = fs_get (w_fs w2') p) /\
              fs_get (w_fs w1') out = Some (File c)).
  { intros b r' Eb. rewrite (mem_done_absent b (wld s2) G2 Ht). cbn [sink_done].
    destruct r' as [|y r']; [|discriminate]. intros H. inversion H; subst w1'.
    rewrite app_nil_r in Eb. subst b.
    eexists. split; [reflexivity|]. cbn [w_fs]. split; [|split].
    - unfold read_file. rewrite fs_get_put_same by exact out_ne. reflexivity.
    - intros p Hp. rewrite fs_get_put_other by congruence. apply W. apply Xout_false. exact Hp.
    - exact G1. }
  destruct (flag s1 && tn).
  - destruct (verify_write_cases out rest (wld s1) le) as [(r' & Er & Ew)|(Hn & Ew)]; rewrite Ew; [|discriminate].
    cbn [sink_write]. apply Fin. rewrite <- app_assoc, <- Er. exact Ec.
  - apply Fin. exact Ec.
Qed.

Lemma epilogue_vm_bwd tn s1 s2 w2' : PSv s1 s2 ->
  epilogue Build le tn s2 = PpOk w2' -> read_file (w_fs w2') out = Some c ->
  exists w1', epilogue Build le tn s1 = PpOk w1'.
Proof.
  intros (C & F & M & T & W & K & V). unfold epilogue. rewrite <- M, <- T, <- F, (V eq_refl).
  destruct (has_tags (tg s1) && negb (mode_eqb Build Clean)); [discriminate|]. cbv zeta.
  destruct K as (buf & rest & K1 & K2 & Ec & G1 & G2 & Ht). rewrite K1, K2.
  assert (Fin : forall b r', c = b ++ r' ->
            match sink_done (SMem out b) (wld s2) with inl w2 => PpOk w2 | inr k => PpErr k (wld s2) end = PpOk w2' ->
            read_file (w_fs w2') out = Some c ->
            exists w1', match sink_done (SVerify out r') (wld s1) with inl w2 => PpOk w2 | inr k => PpErr k (wld s1) end = PpOk w1').
  { intros b r' Eb. rewrite (mem_done_absent b (wld s2) G2 Ht). intros H. inversion H; subst w2'. cbn [w_fs].
    unfold read_file. rewrite fs_get_put_same by exact out_ne. intros Hc. inversion Hc; subst b.
    rewrite <- (app_nil_r c) in Eb at 1. apply app_inv_head in Eb. subst r'. cbn [sink_done]. eexists. reflexivity. }
  destruct (flag s1 && tn).
  - destruct (verify_write_cases out rest (wld s1) le) as [(r' & Er & Ew)|(Hn & Ew)]; rewrite Ew;
      cbn [sink_write]; intros H Hc.
    + apply (Fin (buf ++ le) r'); auto. rewrite <- app_assoc, <- Er. exact Ec.
    + exfalso. rewrite (mem_done_absent (buf ++ le) (wld s2) G2 Ht) in H. inversion H; subst w2'. cbn [w_fs] in Hc.
      unfold read_file in Hc. rewrite fs_get_put_same in Hc by exact out_ne. inversion Hc as [Hc'].
      apply Hn. exists []. rewrite Ec in Hc'. apply app_inv_head in Hc'.
      rewrite app_nil_r. symmetry. exact Hc'.
  - apply Fin. exact Ec.
Qed.

Lemma spec_out_vm_fwd tn its : forall s1 s2 w1', PSv s1 s2 ->
  (forall d fol, In (IDir d fol) its -> dcv d) ->
  spec_out orc Build src base le tn its s1 = PpOk w1' ->
  exists w2', spec_out orc Build src base le tn its s2 = PpOk w2' /\ read_file (w_fs w2') out = Some c /\
    (forall p, p <> out -> fs_get (w_fs w1') p = fs_get (w_fs w2') p) /\
    fs_get (w_fs w1') out = Some (File c).
Proof.
  induction its as [|it r IH]; intros s1 s2 w1' P Hd.
  - rewrite !spec_out_nil. apply epilogue_vm_fwd. exact P.
  - rewrite !spec_out_cons.
    pose proof (do_item_vm it s1 s2 P (fun d fol E => Hd d fol (or_introl E))) as H.
    destruct (do_item orc Build src base le it s1) as [a|k1 a|]; try discriminate.
    destruct (do_item orc Build src base le it s2) as [b|k2 b|]; cbn [SRv] in H; try contradiction; try discriminate.
    apply IH; [exact H|]. intros d fol Hin. apply (Hd d fol). right. exact Hin.
Qed.

Lemma spec_out_vm_bwd tn its : forall s1 s2 w2', PSv s1 s2 ->
  (forall d fol, In (IDir d fol) its -> dcv d) ->
  spec_out orc Build src base le tn its s2 = PpOk w2' -> read_file (w_fs w2') out = Some c ->
  exists w1', spec_out orc Build src base le tn its s1 = PpOk w1'.
Proof.
  induction its as [|it r IH]; intros s1 s2 w2' P Hd.
  - rewrite !spec_out_nil. apply epilogue_vm_bwd. exact P.
  - rewrite !spec_out_cons.
    pose proof (do_item_vm it s1 s2 P (fun d fol E => Hd d fol (or_introl E))) as H.
    destruct (do_item orc Build src base le it s2) as [b|k2 b|]; try discriminate.
    destruct (do_item orc Build src base le it s1) as [a|k1 a|]; cbn [SRv] in H; try contradiction.
    + apply IH; [exact H|]. intros d fol Hin. apply (Hd d fol). right. exact Hin.
    + intros Hs Hc. exfalso. destruct H as [_ (buf & Hk & Hn)].
      destruct (mem_prefix tn r b buf w2' Hk Hs) as [t Ht]. rewrite Hc in Ht. inversion Ht as [Et].
      apply Hn. exists t. exact Et.
Qed.

End Items.
End VerifyMem.

Lemma verify_pass_needs_file orc base src first tn w out :
  remove_txtpp src = Some out -> (forall c, fs_get (w_fs w) out <> Some (File c)) ->
  forall w', pp_run orc Verify base src first tn w <> PpOk w'.
Proof.
  intros Hrm Hn w'. rewrite pp_run_unfold. destruct (read_file (w_fs w) src); [|discriminate].
  rewrite Hrm. destruct (is_txtpp_file out); [discriminate|]. unfold sink_new.
  destruct (fs_get (w_fs w) out) as [[c|]|] eqn:E; try discriminate. exfalso. apply (Hn c). reflexivity.
Qed.

(* C06: a final verify pass succeeds iff the existing output holds exactly the text a build would write.
   Side conditions: the directory of the source is canonical (no `..`), no include and no temp directive of the
   source names the output, and the output can be created (its parent directory exists).
   Second part: the world after a successful verify pass is, up to representation and log, the world after the
   in-memory (--needed) pass on the tree without the output: the temp files have been (re)written, nothing else
   has changed, and the output is untouched. *)
Theorem verify_pass_iff orc base src tn w out :
  remove_txtpp src = Some out -> all_normal (parent src) ->
  ~ In out (map (fun a => lex_normalize (lex_join (parent src) a)) (include_args (items_of Build w src))) ->
  ~ In out (map (fun a => lex_normalize (lex_join (parent src) a)) (temp_args (items_of Build w src))) ->
  write_target (w_fs w) out <> None ->
  ((exists w', pp_run orc Verify base src false tn w = PpOk w') <->
   (exists txt, fresh_text orc base src tn w out = Some txt /\ read_file (w_fs w) out = Some txt)) /\
  (forall w', pp_run orc Verify base src false tn w = PpOk w' ->
     exists wm, pp_run orc InMemoryBuild base src false tn (mkW (fs_del (w_fs w) out) (w_log w)) = PpOk wm /\
                w_eq w' wm /\ fs_get (w_fs w') out = fs_get (w_fs w) out).
Proof.
  intros Hrm Hnorm Hinc Htmp Hwt.
  destruct (remove_txtpp_shape src out Hrm) as (dir & n & m & Es & Eo).
  assert (Hpar : parent src = dir) by (unfold parent; rewrite Es; apply removelast_last).
  assert (Hdir : all_normal dir) by (rewrite <- Hpar; exact Hnorm).
  assert (out_ne : out <> []) by (rewrite Eo; intros E; destruct dir; discriminate).
  assert (Hne : out <> src) by (apply output_ne_source; exact Hrm).
  destruct (fs_get (w_fs w) out) as [[c|]|] eqn:G.
  2,3: (assert (Hno : forall w', pp_run orc Verify base src false tn w <> PpOk w')
         by (apply (verify_pass_needs_file orc base src false tn w out Hrm); intros c; rewrite G; discriminate);
        split; [split|];
        [intros [w' H]; exfalso; exact (Hno w' H)
        |intros (txt & _ & Hr); unfold read_file in Hr; rewrite G in Hr; discriminate
        |intros w' H; exfalso; exact (Hno w' H)]).
  assert (Hq : write_target (w_fs w) out = Some out /\ ~ In dotdot out).
  { destruct (write_target (w_fs w) out) as [q|] eqn:Ew; [|congruence].
    destruct (EventFacts.write_target_shape _ _ _ Ew) as (rp & n' & Ep & Hn' & Eq).
    rewrite Eo in Ep. apply app_inj_tail in Ep. destruct Ep as [<- <-].
    split.
    - rewrite Eq, Eo, (lex_normalize_normal dir Hdir). reflexivity.
    - rewrite Eo. intros Hin. apply in_app_or in Hin. destruct Hin as [Hin|[Hin|[]]].
      + unfold all_normal in Hdir. rewrite Forall_forall in Hdir. specialize (Hdir _ Hin).
        unfold is_normal in Hdir. rewrite str_eqb_refl in Hdir. discriminate.
      + subst m. unfold is_normal in Hn'. rewrite str_eqb_refl in Hn'. discriminate. }
  destruct Hq as [Hq out_nodd].
  set (wm0 := mkW (fs_del (w_fs w) out) (w_log w)).
  assert (HD : forall p, is_dir (w_fs w) p = is_dir (w_fs wm0) p).
  { intros p. cbn [wm0 w_fs]. rewrite is_dir_del by exact out_ne. destruct (path_eqb out p) eqn:E; [|reflexivity].
    apply path_eqb_eq in E. subst p. unfold is_dir. rewrite G. reflexivity. }
  unfold fresh_text. fold wm0. rewrite !pp_run_unfold.
  assert (Er : read_file (w_fs wm0) src = read_file (w_fs w) src).
  { unfold read_file. cbn [wm0 w_fs]. rewrite fs_get_del_other by exact Hne. reflexivity. }
  rewrite Er. unfold items_of in Hinc, Htmp.
  destruct (read_file (w_fs w) src) as [raw|];
    [|split; [split|]; [intros [w' H]; discriminate|intros (txt & H & _); discriminate|intros w' H; discriminate]].
  rewrite Hrm.
  destruct (is_txtpp_file out);
    [split; [split|]; [intros [w' H]; discriminate|intros (txt & H & _); discriminate|intros w' H; discriminate]|].
  unfold sink_new. rewrite G.
  set (s1 := mkP None false PExec tags_new (SVerify out c) w).
  set (s2 := mkP None false PExec tags_new (SMem out []) wm0).
  assert (P : PSv out c s1 s2).
  { unfold PSv, PS. refine (conj eq_refl (conj eq_refl (conj eq_refl (conj eq_refl (conj _ (conj _ _)))))).
    - split; [|exact HD]. intros p Hp. apply Xout_false in Hp. symmetry. apply fs_get_del_other. congruence.
    - exists [], c. split; [reflexivity|]. split; [reflexivity|]. split; [reflexivity|].
      split; [exact G|]. split.
      + cbn. apply fs_get_del_same. exact out_ne.
      + change (write_target (w_fs wm0) out = Some out). rewrite <- (write_target_dirs _ _ out HD). exact Hq.
    - reflexivity. }
  assert (Hd : forall d fol, In (IDir d fol) (items_of' Build raw) -> dcv out src d).
  { intros d fol Hin p Hp. apply Xout_false.
    pose proof (probes_in false Build src d fol _ p Hin Hp) as Hpr. apply probes_needed in Hpr.
    unfold items_of' in Hpr. cbn [mode_eqb] in Hpr, Hinc, Htmp.
    destruct Hpr as [H|[H|H]]; [intros ->; apply Hinc; exact H|intros ->; apply Htmp; exact H|].
    rewrite Hpar, (lex_normalize_normal dir Hdir) in H. subst p. rewrite Eo.
    intros E. apply (f_equal (@length name)) in E. rewrite app_length in E. simpl in E. lia. }
  assert (V1 : forall w', pp_rest orc Verify base src false tn raw (SVerify out c) w = PpOk w' <->
             snd (take_valid (lines raw)) = false /\
             spec_out orc Build src base (detect_le raw) tn (items_of' Build raw) s1 = PpOk w').
  { intros w'. rewrite pp_rest_ok_iff. rewrite spec_out_nonclean by discriminate. reflexivity. }
  assert (V2 : forall w', pp_rest orc InMemoryBuild base src false tn raw (SMem out []) wm0 = PpOk w' <->
             snd (take_valid (lines raw)) = false /\
             spec_out orc Build src base (detect_le raw) tn (items_of' Build raw) s2 = PpOk w').
  { intros w'. rewrite pp_rest_ok_iff. rewrite spec_out_nonclean by discriminate. reflexivity. }
  split; [split|].
  - intros [w' H]. apply V1 in H. destruct H as [Hb H].
    destruct (spec_out_vm_fwd out c out_ne orc src base (detect_le raw) tn _ s1 s2 w' P Hd H)
      as (w2' & H2 & Hr & _).
    exists c. split; [|unfold read_file; rewrite G; reflexivity].
    assert (E2 : pp_rest orc InMemoryBuild base src false tn raw (SMem out []) wm0 = PpOk w2')
      by (apply V2; split; assumption).
    rewrite E2. exact Hr.
  - intros (txt & Hf & Hr). unfold read_file in Hr. rewrite G in Hr. inversion Hr; subst txt.
    destruct (pp_rest orc InMemoryBuild base src false tn raw (SMem out []) wm0) as [wm| | |] eqn:E; try discriminate.
    destruct (proj1 (V2 wm) eq_refl) as [Hb E']. clear E. rename E' into E.
    destruct (spec_out_vm_bwd out c out_ne out_nodd orc src base (detect_le raw) tn _ s1 s2 wm P Hd E Hf) as [w1' H1].
    exists w1'. apply V1. split; assumption.
  - intros w' H. apply V1 in H. destruct H as [Hb H].
    destruct (spec_out_vm_fwd out c out_ne orc src base (detect_le raw) tn _ s1 s2 w' P Hd H)
      as (w2' & H2 & Hr & Ho & Hc).
    exists w2'. split; [apply V2; split; assumption|]. split; [|exact Hc].
    intros p. destruct (path_dec p out) as [->|N]; [|apply Ho; exact N].
    rewrite Hc. unfold read_file in Hr. destruct (fs_get (w_fs w2') out) as [[x|]|]; inversion Hr; reflexivity.
Qed.


(* single-any-byte corollary, once verify_pass_iff is there: if the existing output differs from the fresh text in any way
   (one byte changed, truncated, extended) or is missing, verify fails *)
(* DESIGN: state and prove `verify_pass_rejects_any_difference`. *)

Corollary verify_pass_rejects_any_difference orc base src tn w out :
  remove_txtpp src = Some out -> all_normal (parent src) ->
  ~ In out (map (fun a => lex_normalize (lex_join (parent src) a)) (include_args (items_of Build w src))) ->
  ~ In out (map (fun a => lex_normalize (lex_join (parent src) a)) (temp_args (items_of Build w src))) ->
  write_target (w_fs w) out <> None ->
  (* the output is missing (or is a directory), or its bytes are not the fresh text (or there is no fresh text) *)
  read_file (w_fs w) out = None \/ read_file (w_fs w) out <> fresh_text orc base src tn w out ->
  forall w', pp_run orc Verify base src false tn w <> PpOk w'.
Proof.
  intros Hrm Hn Hi Ht Hw Hdiff w' H.
  destruct (verify_pass_iff orc base src tn w out Hrm Hn Hi Ht Hw) as [[Hv _] _].
  destruct (Hv (ex_intro _ w' H)) as (txt & Hf & Hr). destruct Hdiff as [Hd|Hd]; congruence.
Qed.

(* the same in the wording "any difference": whatever the existing bytes, if they are not exactly the fresh text
   (one byte changed, truncated, extended, ...) the pass does not succeed *)
Corollary verify_pass_rejects_other_bytes orc base src tn w out existing txt :
  remove_txtpp src = Some out -> all_normal (parent src) ->
  ~ In out (map (fun a => lex_normalize (lex_join (parent src) a)) (include_args (items_of Build w src))) ->
  ~ In out (map (fun a => lex_normalize (lex_join (parent src) a)) (temp_args (items_of Build w src))) ->
  write_target (w_fs w) out <> None ->
  read_file (w_fs w) out = Some existing -> fresh_text orc base src tn w out = Some txt -> existing <> txt ->
  forall w', pp_run orc Verify base src false tn w <> PpOk w'.
Proof.
  intros Hrm Hn Hi Ht Hw He Hf Hne.
  apply (verify_pass_rejects_any_difference orc base src tn w out Hrm Hn Hi Ht Hw).
  right. rewrite He, Hf. intros E. inversion E. contradiction.
Qed.

(* ---- the hypotheses are satisfiable: a source with a temp directive and one text line ---- *)
Definition ex_raw : str :=                       (* "-- TXTPP#temp t\n-- hello\nh\n" *)
  [45;45;32] ++ c_txtpp_hash ++ [116;101;109;112;32;116;10] ++ [45;45;32;104;101;108;108;111;10] ++ [104;10].
Definition ex_src : path := [cex_a_txtpp].       (* a.txtpp *)
Definition ex_out : path := [[97]].              (* a *)
Definition ex_orc : oracle := fun _ _ _ => None.
Definition ex_w_fresh : world := mkW [(ex_src, File ex_raw); (ex_out, File [104;10])] [].   (* a = "h\n": up to date *)
Definition ex_w_stale : world := mkW [(ex_src, File ex_raw); (ex_out, File [104])] [].      (* a = "h": truncated *)

Definition ex_conditions (w : world) : Prop :=
  remove_txtpp ex_src = Some ex_out /\ all_normal (parent ex_src) /\
  ~ In ex_out (map (fun a => lex_normalize (lex_join (parent ex_src) a)) (include_args (items_of Build w ex_src))) /\
  ~ In ex_out (map (fun a => lex_normalize (lex_join (parent ex_src) a)) (temp_args (items_of Build w ex_src))) /\
  write_target (w_fs w) ex_out <> None.
Ltac ex_conditions_tac :=
  split; [vm_compute; reflexivity|]; split; [constructor|];
  split; [vm_compute; tauto|]; split; [vm_compute; intros [H|[]]; discriminate|vm_compute; discriminate].
Lemma ex_conditions_fresh : ex_conditions ex_w_fresh.
Proof. ex_conditions_tac. Qed.
Lemma ex_conditions_stale : ex_conditions ex_w_stale.
Proof. ex_conditions_tac. Qed.

Example verify_pass_iff_example :
  (exists w', pp_run ex_orc Verify [] ex_src false true ex_w_fresh = PpOk w') /\
  fresh_text ex_orc [] ex_src true ex_w_fresh ex_out = Some [104;10] /\
  (forall w', pp_run ex_orc Verify [] ex_src false true ex_w_stale <> PpOk w').
Proof.
  split; [|split; [vm_compute; reflexivity|]].
  - (* through the theorem: the existing output holds the fresh text *)
    destruct ex_conditions_fresh as (H1 & H2 & H3 & H4 & H5).
    apply (proj1 (verify_pass_iff ex_orc [] ex_src true ex_w_fresh ex_out H1 H2 H3 H4 H5)).
    exists [104;10]. split; vm_compute; reflexivity.
  - 
  destruct ex_conditions_stale as (H1 & H2 & H3 & H4 & H5).
    apply (verify_pass_rejects_other_bytes ex_orc [] ex_src true ex_w_stale ex_out [104] [104;10] H1 H2 H3 H4 H5).
    + vm_compute. reflexivity.
    + vm_compute. reflexivity.
    + discriminate.
Qed.


(* ---------------- C07 ---------------- *)
(* DESIGN: building a source (final pass, Build mode, success) and then cleaning it restores the tree:
   if nothing was lying at the output path and at the temp targets before, the world after Build-then-Clean is w_eq to the
   initial one. Expected side conditions: canonical source; the temp targets of the source are pairwise distinct, differ
   from the output, are not the source, and are not read by an include of the source before being written...
   choose the weakest you can prove. State it as `build_then_clean_restores_pass`:
     pp_run orc Build base src false tn w = PpOk w1 -> pp_run orc' Clean base src first' tn' w1 = PpOk w2 ->
     (forall p, In p (writes_of-like footprint) -> fs_get (w_fs w) p = None) -> ... -> w_eq w2 w.
   Also prove the two easier facts:
   (1) `clean_pass_removes_output`: after a successful Clean pass the output path holds nothing (given it was a file or absent);
   (2) `clean_pass_idempotent`: cleaning twice equals cleaning once (w_eq), for a canonical source. *)

(* ---- only files are created or removed: the directories never change ---- *)
Definition same_dirs (w w' : world) : Prop := forall p, is_dir (w_fs w) p = is_dir (w_fs w') p.
Lemma same_dirs_refl w : same_dirs w w.
Proof. intros p. reflexivity. Qed.
Lemma same_dirs_sym w w' : same_dirs w w' -> same_dirs w' w.
Proof. intros H p. symmetry. apply H. Qed.
Lemma same_dirs_trans a b c : same_dirs a b -> same_dirs b c -> same_dirs a c.
Proof. intros H1 H2 p. rewrite H1. apply H2. Qed.

Lemma w_write_dirs w lp c w' : w_write w lp c = Some w' -> same_dirs w w'.
Proof.
  unfold w_write. destruct (write_target (w_fs w) lp) as [q|] eqn:E; [|discriminate].
  intros H. inversion H; subst w'. intros p. cbn [w_fs].
  rewrite is_dir_put_file by (eapply write_target_nonempty; eauto).
  destruct (path_eqb q p) eqn:Eq; [|reflexivity]. apply path_eqb_eq in Eq. subst p.
  eapply write_target_not_dir; eauto.
Qed.
Lemma w_append_dirs w q c w' : w_append w q c = Some w' -> same_dirs w w'.
Proof.
  unfold w_append. destruct (fs_get (w_fs w) q) as [[old|]|] eqn:E; try discriminate.
  intros H. inversion H; subst w'. intros p. cbn [w_fs].
  assert (Hq : q <> []) by (intros ->; rewrite fs_get_nil_root in E; discriminate).
  rewrite is_dir_put_file by exact Hq.
  destruct (path_eqb q p) eqn:Eq; [|reflexivity]. apply path_eqb_eq in Eq. subst p.
  unfold is_dir. rewrite E. reflexivity.
Qed.
Lemma w_remove_dirs w q w' : w_remove_file w q = Some w' -> same_dirs w w'.
Proof.
  unfold w_remove_file. destruct (fs_get (w_fs w) q) as [[old|]|] eqn:E; try discriminate.
  intros H. inversion H; subst w'. intros p. cbn [w_fs].
  assert (Hq : q <> []) by (intros ->; rewrite fs_get_nil_root in E; discriminate).
  rewrite is_dir_del by exact Hq.
  destruct (path_eqb q p) eqn:Eq; [|reflexivity]. apply path_eqb_eq in Eq. subst p.
  unfold is_dir. rewrite E. reflexivity.
Qed.
Lemma write_temp_dirs w lp c w' : write_temp w lp c = inl w' -> same_dirs w w'.
Proof.
  unfold write_temp. destruct (os_resolve (w_fs w) lp) as [q|].
  - destruct (fs_get (w_fs w) q) as [[c0|]|]; try discriminate.
    destruct (str_eqb c0 c); [intros H; inversion H; apply same_dirs_refl|].
    destruct (w_write w q c) as [w1|] eqn:E; [|discriminate]. intros H. inversion H; subst. eapply w_write_dirs; eauto.
  - destruct (w_write w lp []) as [w1|] eqn:E1; [|discriminate]. apply w_write_dirs in E1.
    destruct c as [|b c']; [intros H; inversion H; subst; exact E1|].
    destruct (w_write w1 lp (b :: c')) as [w2|] eqn:E2; [|discriminate]. apply w_write_dirs in E2.
    intros H. inversion H; subst. eapply same_dirs_trans; eauto.
Qed.
Lemma sink_write_dirs k w x k' w' : sink_write k w x = inl (k', w') -> same_dirs w w'.
Proof.
  destruct k as [p|p buf| |p rest]; cbn [sink_write].
  - destruct (w_append w p x) as [w1|] eqn:E; [|discriminate]. intros H. inversion H; subst. eapply w_append_dirs; eauto.
  - intros H. inversion H. apply same_dirs_refl.
  - intros H. inversion H. apply same_dirs_refl.
  - destruct (Nat.ltb (length rest) (length x)); [discriminate|].
    destruct (str_eqb (firstn (length x) rest) x); [|discriminate]. intros H. inversion H. apply same_dirs_refl.
Qed.
Lemma sink_done_dirs k w w' : sink_done k w = inl w' -> same_dirs w w'.
Proof.
  destruct k as [p|p buf| |p rest]; cbn [sink_done].
  - intros H. inversion H. apply same_dirs_refl.
  - assert (W : match w_write w p buf with Some w'0 => inl w'0 | None => inr KWrite end = inl w' -> same_dirs w w').
    { destruct (w_write w p buf) as [w1|] eqn:E; [|discriminate]. intros H. inversion H; subst. eapply w_write_dirs; eauto. }
    destruct (fs_get (w_fs w) p) as [[c0|]|]; [|discriminate|exact W].
    destruct (str_eqb c0 buf); [intros H; inversion H; apply same_dirs_refl|exact W].
  - intros H. inversion H. apply same_dirs_refl.
  - destruct rest; [|discriminate]. intros H. inversion H. apply same_dirs_refl.
Qed.

(* w' is w with some files removed *)
Definition shr (w w' : world) : Prop :=
  (forall p, fs_get (w_fs w') p = fs_get (w_fs w) p \/ fs_get (w_fs w') p = None) /\ same_dirs w w'.
Lemma shr_refl w : shr w w.
Proof. split; [intros p; left; reflexivity|apply same_dirs_refl]. Qed.
Lemma shr_trans a b c : shr a b -> shr b c -> shr a c.
Proof.
  intros [H1 D1] [H2 D2]. split; [|eapply same_dirs_trans; eauto].
  intros p. destruct (H2 p) as [E|E]; [rewrite E; apply H1|right; exact E].
Qed.
Lemma w_remove_shr w q w' : w_remove_file w q = Some w' -> shr w w'.
Proof.
  intros H. split; [|eapply w_remove_dirs; eauto]. intros p.
  destruct (w_remove_frame w q w' p H) as [_ F]. destruct (path_dec p q) as [->|N]; [|left; apply F; exact N].
  right. unfold w_remove_file in H. destruct (fs_get (w_fs w) q) as [[old|]|] eqn:E; try discriminate.
  inversion H; subst w'. cbn [w_fs]. apply fs_get_del_same. intros ->. rewrite fs_get_nil_root in E. discriminate.
Qed.
Lemma remove_temp_shr w lp w' : remove_temp w lp = inl w' -> shr w w'.
Proof.
  unfold remove_temp. destruct (os_resolve (w_fs w) lp) as [q|]; [|intros H; inversion H; apply shr_refl].
  destruct (w_remove_file w q) as [w1|] eqn:E; [|discriminate]. intros H. inversion H; subst. eapply w_remove_shr; eauto.
Qed.
Lemma shr_not_file w w' t : shr w w' -> is_file (w_fs w) t = false -> is_file (w_fs w') t = false.
Proof.
  intros [H _]. unfold is_file. destruct (H t) as [E|E]; rewrite E; auto.
Qed.
Lemma shr_file w w' t : shr w w' -> is_file (w_fs w') t = true -> is_file (w_fs w) t = true.
Proof.
  intros S H. destruct (is_file (w_fs w) t) eqn:E; [reflexivity|]. rewrite (shr_not_file _ _ _ S E) in H. discriminate.
Qed.

(* ---- path resolution depends on the directories and on the existence of the final node only ---- *)
Lemma os_walk_same_dirs f g comps : (forall q, is_dir f q = is_dir g q) ->
  forall cur d, os_walk f cur comps = Some d -> exists_ g d = true -> os_walk g cur comps = Some d.
Proof.
  intros D. induction comps as [|x r IH]; intros cur0 d H He; simpl in *.
  - destruct (exists_ f cur0); [|discriminate]. inversion H; subst. rewrite He. reflexivity.
  - rewrite <- (D cur0). destruct (negb (is_dir f cur0)); [discriminate|].
    destruct (str_eqb x dotdot); eapply IH; eauto.
Qed.
Lemma os_walk_snoc f rp n : is_normal n = true -> forall cur d,
  os_walk f cur rp = Some d -> is_dir f d = true -> exists_ f (d ++ [n]) = true ->
  os_walk f cur (rp ++ [n]) = Some (d ++ [n]).
Proof.
  intros Hn. induction rp as [|x r IH]; intros cur0 d H Hd He; simpl in *.
  - destruct (exists_ f cur0); [|discriminate]. inversion H; subst. rewrite Hd. cbn [negb].
    unfold is_normal in Hn. destruct (str_eqb n dotdot); [discriminate|]. rewrite He. reflexivity.
  - destruct (negb (is_dir f cur0)); [discriminate|].
    destruct (str_eqb x dotdot); eapply IH; eauto.
Qed.
Lemma os_resolve_of_write_target f g lp t :
  write_target f lp = Some t -> (forall q, is_dir f q = is_dir g q) -> exists_ g t = true ->
  os_resolve g lp = Some t.
Proof.
  unfold write_target. destruct (rev lp) as [|n rp] eqn:E; [discriminate|].
  apply EventFacts.rev_cons_eq in E. subst lp.
  destruct (is_normal n) eqn:Hn; [|discriminate].
  destruct (os_resolve f (rev rp)) as [d|] eqn:R; [|discriminate].
  destruct (is_dir f d) eqn:Hd; [|discriminate].
  destruct (is_dir f (d ++ [n])); [discriminate|]. intros H D He. inversion H; subst t.
  unfold os_resolve in *. apply os_walk_snoc; auto.
  - eapply os_walk_dirs; eauto.
  - rewrite <- D. exact Hd.
Qed.

(* ---- what a Clean pass does, exactly: remove the output, then one `remove_temp` per temp directive ---- *)
Section CleanChar.
Variable src : path.

Definition clean_step (it : item) (w : world) : world :=
  match it with
  | IDir d _ =>
    match d_ty d with
    | DTemp => match exec_temp src [] (d_args d) true w with inl w' => w' | inr _ => w end
    | _ => w
    end
  | _ => w
  end.
Definition clean_fold (its : list item) (w : world) : world := fold_left (fun w it => clean_step it w) its w.

Lemma clean_fold_cons it r w : clean_fold (it :: r) w = clean_fold r (clean_step it w).
Proof. reflexivity. Qed.

Lemma exec_temp_clean_le le args w : exec_temp src le args true w = exec_temp src [] args true w.
Proof. unfold exec_temp. destruct args as [|a r]; [reflexivity|]. destruct (is_txtpp_file (lex_components a)); reflexivity. Qed.

Lemma emit_clean le s o ht : snk s = SClean ->
  exists s2, emit le s o ht = StOk s2 /\ wld s2 = wld s /\ snk s2 = SClean /\ pmode s2 = pmode s /\ tg s2 = tg s.
Proof.
  intros Hk. unfold emit. destruct (is_execute (pmode s)); [|exists s; auto].
  destruct o as [x|]; [|exists s; auto]. rewrite Hk.
  destruct (flag s); cbn [sink_write]; eexists; (split; [reflexivity|]); cbn; auto.
Qed.

Lemma do_item_clean orc base le it s s2 : snk s = SClean -> is_execute (pmode s) = true ->
  do_item orc Clean src base le it s = StOk s2 ->
  wld s2 = clean_step it (wld s) /\ snk s2 = SClean /\ is_execute (pmode s2) = true /\
  forall orc' s', snk s' = SClean -> is_execute (pmode s') = true -> tg s' = tg s ->
    exists s2', do_item orc' Clean src base le it s' = StOk s2' /\ tg s2' = tg s2.
Proof.
  intros Hk Hx. unfold do_item. destruct it as [l|d fol| |]; cbn [item_output clean_step]; try discriminate.
  - rewrite Hx. destruct (inject (tg s) l le) as [[l' t']|] eqn:Ei; [|discriminate].
    destruct (emit_clean le (set_tg s t') (Some l') false Hk) as (x & Ex & X1 & X2 & X3 & X4).
    cbn [item_tail]. rewrite Ex. intros H. inversion H; subst x. cbn in X1, X3, X4.
    split; [exact X1|]. split; [exact X2|]. split; [rewrite X3; exact Hx|].
    intros orc' s' Hk' Hx' Ht'. rewrite Hx', Ht', Ei.
    destruct (emit_clean le (set_tg s' t') (Some l') false Hk') as (y & Ey & Y1 & Y2 & Y3 & Y4).
    exists y. split; [exact Ey|]. cbn in Y4. congruence.
  - assert (E : forall orc0 s0, exists w0,
               exec_directive orc0 Clean src base le d s0 = XOut None (set_wld s0 w0) /\
               w0 = match d_ty d with
                    | DTemp => match exec_temp src [] (d_args d) true (wld s0) with inl w' => w' | inr _ => wld s0 end
                    | _ => wld s0
                    end).
    { intros orc0 s0. unfold exec_directive. rewrite exec_temp_clean_le.
      assert (Id : set_wld s0 (wld s0) = s0) by (destruct s0; reflexivity).
      destruct (d_ty d); try (exists (wld s0); rewrite Id; split; reflexivity).
      destruct (exec_temp src [] (d_args d) true (wld s0)) as [w1|k].
      - exists w1. split; reflexivity.
      - exists (wld s0). rewrite Id. split; reflexivity. }
    destruct (E orc s) as (w0 & E1 & E2). rewrite E1. unfold emit. cbn [pmode set_wld]. rewrite Hx.
    intros H. inversion H; subst s2. cbn [wld snk pmode set_wld tg].
    split; [exact E2|]. split; [exact Hk|]. split; [exact Hx|].
    intros orc' s' Hk' Hx' Ht'. destruct (E orc' s') as (w0' & E1' & _). rewrite E1'.
    cbn [pmode set_wld]. rewrite Hx'. eexists. split; [reflexivity|]. cbn. exact Ht'.
Qed.

Lemma epilogue_clean le tn s : snk s = SClean -> is_execute (pmode s) = true ->
  epilogue Clean le tn s = PpOk (wld s).
Proof.
  intros Hk Hx. unfold epilogue. rewrite Hk. cbn [mode_eqb negb]. rewrite andb_false_r.
  destruct (pmode s); cbn in Hx; try discriminate; destruct (flag s && tn); reflexivity.
Qed.

Lemma clean_spec_out orc base le tn its : forall s w', snk s = SClean -> is_execute (pmode s) = true ->
  spec_out orc Clean src base le tn its s = PpOk w' ->
  w' = clean_fold its (wld s) /\
  forall orc' tn' s', snk s' = SClean -> is_execute (pmode s') = true -> tg s' = tg s ->
    spec_out orc' Clean src base le tn' its s' = PpOk (clean_fold its (wld s')).
Proof.
  induction its as [|it r IH]; intros s w' Hk Hx.
  - rewrite spec_out_nil, epilogue_clean by assumption. intros H. inversion H. split; [reflexivity|].
    intros orc' tn' s' Hk' Hx' _. rewrite spec_out_nil. apply epilogue_clean; assumption.
  - rewrite spec_out_cons. destruct (do_item orc Clean src base le it s) as [s2|k w0|] eqn:E; try discriminate.
    destruct (do_item_clean orc base le it s s2 Hk Hx E) as (W2 & K2 & X2 & Hs').
    intros H. destruct (IH s2 w' K2 X2 H) as [-> Hr]. rewrite clean_fold_cons, <- W2. split; [reflexivity|].
    intros orc' tn' s' Hk' Hx' Ht'. destruct (Hs' orc' s' Hk' Hx' Ht') as (s2' & E' & T2').
    rewrite spec_out_cons, E'.
    destruct (do_item_clean orc' base le it s' s2' Hk' Hx' E') as (W2' & K2' & X2' & _).
    rewrite clean_fold_cons, <- W2'. apply Hr; assumption.
Qed.

(* the fold only removes files, and only at temp targets *)
Lemma clean_step_shr it w : shr w (clean_step it w).
Proof.
  destruct it as [l|d fol| |]; cbn [clean_step]; try apply shr_refl.
  destruct (d_ty d); try apply shr_refl.
  destruct (exec_temp src [] (d_args d) true w) as [w1|k] eqn:E; [|apply shr_refl].
  unfold exec_temp in E. destruct (d_args d) as [|a r]; [discriminate|].
  destruct (is_txtpp_file (lex_components a)); [discriminate|]. eapply remove_temp_shr; eauto.
Qed.
Lemma clean_fold_shr its : forall w, shr w (clean_fold its w).
Proof.
  induction its as [|it r IH]; intros w; [apply shr_refl|].
  rewrite clean_fold_cons. eapply shr_trans; [apply clean_step_shr|apply IH].
Qed.
Lemma clean_fold_frame its p : ~ In p (map (fun a => lex_normalize (lex_join (parent src) a)) (temp_args its)) ->
  forall w, fs_get (w_fs (clean_fold its w)) p = fs_get (w_fs w) p.
Proof.
  induction its as [|it r IH]; intros Hp w; [reflexivity|].
  rewrite clean_fold_cons.
  destruct it as [l|d fol| |]; cbn [clean_step temp_args] in *; try (apply IH; exact Hp).
  destruct (d_ty d); try (apply IH; exact Hp).
  destruct (d_args d) as [|a rest] eqn:Ea.
  - cbn [exec_temp]. apply IH; exact Hp.
  - cbn [map] in Hp. rewrite IH by (intros H; apply Hp; right; exact H).
    unfold exec_temp. destruct (is_txtpp_file (lex_components a)); [reflexivity|].
    destruct (remove_temp w (lex_join (work_dir src) a)) as [w1|k] eqn:E; [|reflexivity].
    apply remove_temp_tr in E. destruct E as (evs & _ & Hall & Hfr). apply Hfr.
    intros e He. rewrite Forall_forall in Hall. rewrite (Hall e He). cbn [ev_path].
    intros Heq. inversion Heq as [Hq]. apply Hp. left. exact Hq.
Qed.

(* the pass *)
Lemma clean_pass_char orc base first tn w w' out :
  remove_txtpp src = Some out -> pp_run orc Clean base src first tn w = PpOk w' ->
  exists raw w0, read_file (w_fs w) src = Some raw /\ is_txtpp_file out = false /\
    sink_new Clean w out = inl (SClean, w0) /\
    w' = clean_fold (items_of' Clean raw) w0 /\
    forall orc' first' tn' w0', pp_rest orc' Clean base src first' tn' raw SClean w0' =
                                PpOk (clean_fold (items_of' Clean raw) w0').
Proof.
  intros Hrm. rewrite pp_run_unfold. destruct (read_file (w_fs w) src) as [raw|]; [|discriminate].
  rewrite Hrm. destruct (is_txtpp_file out) eqn:Eto; [discriminate|].
  destruct (sink_new Clean w out) as [[k0 w0]|k] eqn:En; [|discriminate].
  assert (k0 = SClean) as ->.
  { unfold sink_new in En. destruct (exists_ (w_fs w) out).
    - destruct (w_remove_file w out); inversion En; reflexivity.
    - inversion En; reflexivity. }
  intros H. apply pp_rest_ok_iff in H. destruct H as [Hb H]. exists raw, w0.
  split; [reflexivity|]. split; [reflexivity|]. split; [reflexivity|].
  apply clean_spec_out in H; [|reflexivity|destruct first; reflexivity]. destruct H as [-> Hr].
  split; [reflexivity|]. intros orc' first' tn' w0'. apply pp_rest_ok_iff. split; [exact Hb|].
  apply (Hr orc' tn' (mkP None false (if first' then PFirst else PExec) tags_new SClean w0')); try reflexivity.
  destruct first'; reflexivity.
Qed.

End CleanChar.

(* C07 (1): after a successful Clean pass nothing is lying at the output path *)
Theorem clean_pass_removes_output orc base src first tn w w' out :
  remove_txtpp src = Some out -> pp_run orc Clean base src first tn w = PpOk w' ->
  fs_get (w_fs w') out = None.
Proof.
  intros Hrm H. destruct (clean_pass_char src orc base first tn w w' out Hrm H) as (raw & w0 & _ & _ & En & -> & _).
  destruct (remove_txtpp_shape src out Hrm) as (dir & n & m & _ & Eo).
  destruct (clean_new_removes _ _ _ _ En) as [[_ G]|E]; [|subst out; destruct dir; discriminate].
  destruct (clean_fold_shr src (items_of' Clean raw) w0) as [S _]. destruct (S out) as [E|E]; congruence.
Qed.

(* ---- a temp directive whose target resolves (in some world with the same directories) gets its file removed ---- *)
Section CleanRemoves.
Variable src : path.

(* the lexical path and the target of a temp argument *)
Definition tlex (a : str) : lexpath := lex_join (parent src) a.
(* "the target can be reached": in some world with the same directories as w the path resolves, or a file can be
   created there *)
Definition temp_ok (w : world) (a : str) : Prop :=
  is_txtpp_file (lex_components a) = false /\
  exists g, same_dirs g w /\
    (os_resolve (w_fs g) (tlex a) = Some (lex_normalize (tlex a)) \/
     write_target (w_fs g) (tlex a) = Some (lex_normalize (tlex a))).

Lemma temp_ok_dirs w w' a : same_dirs w w' -> temp_ok w a -> temp_ok w' a.
Proof. intros D [H1 (g & Dg & H2)]. split; [exact H1|]. exists g. split; [eapply same_dirs_trans; eauto|exact H2]. Qed.

Lemma is_file_exists f t : is_file f t = true -> exists_ f t = true.
Proof. unfold is_file, exists_. destruct (fs_get f t) as [[c|]|]; auto. Qed.

Lemma temp_ok_resolves w a : temp_ok w a -> is_file (w_fs w) (lex_normalize (tlex a)) = true ->
  os_resolve (w_fs w) (tlex a) = Some (lex_normalize (tlex a)).
Proof.
  intros [_ (g & Dg & [H|H])] Hf; apply is_file_exists in Hf.
  - unfold os_resolve in *. eapply os_walk_same_dirs; eauto.
  - eapply os_resolve_of_write_target; eauto.
Qed.

Lemma clean_step_removes d fol a rest w :
  d_ty d = DTemp -> d_args d = a :: rest -> temp_ok w a ->
  is_file (w_fs (clean_step src (IDir d fol) w)) (lex_normalize (tlex a)) = false.
Proof.
  intros Hty Ha Hok. cbn [clean_step]. rewrite Hty, Ha. unfold exec_temp. rewrite (proj1 Hok).
  unfold remove_temp, work_dir. fold (tlex a).
  destruct (is_file (w_fs w) (lex_normalize (tlex a))) eqn:Ef.
  - rewrite (temp_ok_resolves w a Hok Ef). unfold w_remove_file. unfold is_file in Ef.
    destruct (fs_get (w_fs w) (lex_normalize (tlex a))) as [[c0|]|] eqn:G; try discriminate.
    cbn [w_fs]. unfold is_file. rewrite fs_get_del_same; [reflexivity|].
    intros E. rewrite E, fs_get_nil_root in G. discriminate.
  - destruct (os_resolve (w_fs w) (tlex a)) as [q|] eqn:R; [|exact Ef].
    apply os_resolve_normalize in R. subst q. unfold w_remove_file. unfold is_file in Ef.
    destruct (fs_get (w_fs w) (lex_normalize (tlex a))) as [[c0|]|] eqn:G; try discriminate;
      unfold is_file; rewrite G; reflexivity.
Qed.

Lemma clean_fold_removes its : forall w d fol a rest,
  In (IDir d fol) its -> d_ty d = DTemp -> d_args d = a :: rest -> temp_ok w a ->
  is_file (w_fs (clean_fold src its w)) (lex_normalize (tlex a)) = false.
Proof.
  induction its as [|it r IH]; intros w d fol a rest Hin Hty Ha Hok; [destruct Hin|].
  rewrite clean_fold_cons. destruct Hin as [->|Hin].
  - eapply shr_not_file; [apply clean_fold_shr|]. eapply clean_step_removes; eauto.
  - eapply IH; eauto. eapply temp_ok_dirs; [|exact Hok]. apply (clean_step_shr src it w).
Qed.

(* a temp directive whose target does not resolve to a file changes nothing *)
Lemma clean_step_noop it w :
  (forall d fol a rest, it = IDir d fol -> d_ty d = DTemp -> d_args d = a :: rest ->
     is_txtpp_file (lex_components a) = false ->
     os_resolve (w_fs w) (tlex a) = Some (lex_normalize (tlex a)) ->
     is_file (w_fs w) (lex_normalize (tlex a)) = false) ->
  clean_step src it w = w.
Proof.
  intros H. destruct it as [l|d fol| |]; cbn [clean_step]; try reflexivity.
  destruct (d_ty d) eqn:Hty; try reflexivity.
  unfold exec_temp. destruct (d_args d) as [|a rest] eqn:Ha; [reflexivity|].
  destruct (is_txtpp_file (lex_components a)) eqn:Ht; [reflexivity|].
  specialize (H d fol a rest eq_refl Hty Ha Ht).
  unfold remove_temp, work_dir. fold (tlex a).
  destruct (os_resolve (w_fs w) (tlex a)) as [q|] eqn:R; [|reflexivity].
  apply os_resolve_normalize in R. subst q. specialize (H eq_refl). unfold w_remove_file. unfold is_file in H.
  destruct (fs_get (w_fs w) (lex_normalize (tlex a))) as [[c0|]|]; try discriminate; reflexivity.
Qed.

(* cleaning again what has been cleaned changes nothing, not even the representation *)
Lemma clean_fold_idem its0 w0 : forall its w,
  (forall it, In it its -> In it its0) -> shr (clean_fold src its0 w0) w ->
  clean_fold src its w = w.
Proof.
  induction its as [|it r IH]; intros w Hsub S; [reflexivity|].
  rewrite clean_fold_cons.
  assert (E : clean_step src it w = w).
  { apply clean_step_noop. intros d fol a rest -> Hty Ha Htx R.
    destruct (is_file (w_fs w) (lex_normalize (tlex a))) eqn:Ef; [exfalso|reflexivity].
    assert (Hok : temp_ok w0 a).
    { split; [exact Htx|]. exists w. split; [|left; exact R].
      apply same_dirs_sym. eapply same_dirs_trans; [apply (clean_fold_shr src its0 w0)|apply S]. }
    pose proof (clean_fold_removes its0 w0 d fol a rest (Hsub _ (or_introl eq_refl)) Hty Ha Hok) as Hn.
    apply (shr_file _ _ _ S) in Ef. congruence. }
  rewrite E. apply IH; [|exact S]. intros x Hx. apply Hsub. right. exact Hx.
Qed.

End CleanRemoves.

Lemma sink_new_clean_frame w out k w0 : sink_new Clean w out = inl (k, w0) ->
  forall p, p <> out -> fs_get (w_fs w0) p = fs_get (w_fs w) p.
Proof.
  unfold sink_new. destruct (exists_ (w_fs w) out).
  - destruct (w_remove_file w out) as [w1|] eqn:E; [|discriminate]. intros H. inversion H; subst.
    intros p Hp. destruct (w_remove_frame w out w0 p E) as [_ F]. apply F. exact Hp.
  - intros H. inversion H; subst. reflexivity.
Qed.

(* C07 (2): cleaning what has just been cleaned succeeds and changes nothing, not even the log.
   The only side condition: no temp directive of the source names the source itself (otherwise the first clean may
   delete the source, and the second cannot open it). *)
Theorem clean_pass_idempotent orc orc' base src first first' tn tn' w w1 out :
  remove_txtpp src = Some out ->
  ~ In src (map (fun a => lex_normalize (lex_join (parent src) a)) (temp_args (items_of Clean w src))) ->
  pp_run orc Clean base src first tn w = PpOk w1 ->
  pp_run orc' Clean base src first' tn' w1 = PpOk w1.
Proof.
  intros Hrm Hs H. pose proof (clean_pass_removes_output orc base src first tn w w1 out Hrm H) as Ho.
  destruct (clean_pass_char src orc base first tn w w1 out Hrm H) as (raw & w0 & Er & Eto & En & E1 & Hr).
  unfold items_of in Hs. rewrite Er in Hs. fold (items_of' Clean raw) in Hs.
  assert (Er1 : read_file (w_fs w1) src = Some raw).
  { subst w1. unfold read_file. rewrite (clean_fold_frame src _ src Hs).
    rewrite (sink_new_clean_frame w out SClean w0 En); [exact Er|].
    intros E. apply (output_ne_source src out Hrm). symmetry. exact E. }
  rewrite pp_run_unfold, Er1, Hrm, Eto. unfold sink_new, exists_. rewrite Ho. rewrite Hr. f_equal.
  rewrite E1 at 2. rewrite E1. apply (clean_fold_idem src (items_of' Clean raw) w0).
  - auto.
  - apply shr_refl.
Qed.

(* ---- what a successful final Build pass guarantees about the temp directives it has executed ---- *)
Lemma write_temp_target w lp c w' : write_temp w lp c = inl w' ->
  os_resolve (w_fs w) lp = Some (lex_normalize lp) \/ write_target (w_fs w) lp = Some (lex_normalize lp).
Proof.
  unfold write_temp. destruct (os_resolve (w_fs w) lp) as [q|] eqn:R.
  - intros _. left. apply os_resolve_normalize in R. subst q. reflexivity.
  - destruct (w_write w lp []) as [w1|] eqn:E; [|discriminate]. intros _. right.
    unfold w_write in E. destruct (write_target (w_fs w) lp) as [q|] eqn:T; [|discriminate].
    apply write_target_normalize in T. subst q. reflexivity.
Qed.

Section BuildInv.
Variable orc : oracle.
Variable src base : path.
Variable le : str.

Lemma emit_dirs s o ht s' : emit le s o ht = StOk s' -> same_dirs (wld s) (wld s').
Proof.
  unfold emit. destruct (is_execute (pmode s)); [|intros H; inversion H; apply same_dirs_refl].
  destruct o as [x|]; [|intros H; inversion H; apply same_dirs_refl].
  assert (D1 : match (if flag s then sink_write (snk s) (wld s) le else inl (snk s, wld s)) with
               | inl (k1, w1) => same_dirs (wld s) w1 | inr _ => True end).
  { destruct (flag s); [|apply same_dirs_refl].
    destruct (sink_write (snk s) (wld s) le) as [[k1 w1]|k] eqn:E; [|exact I]. eapply sink_write_dirs; eauto. }
  destruct (if flag s then sink_write (snk s) (wld s) le else inl (snk s, wld s)) as [[k1 w1]|k]; [|discriminate].
  destruct (sink_write k1 w1 x) as [[k2 w2]|k] eqn:E2; [|discriminate].
  intros H. inversion H; subst s'. cbn. eapply same_dirs_trans; [exact D1|]. eapply sink_write_dirs; eauto.
Qed.

Lemma exec_directive_build d s o s' : pmode s = PExec ->
  exec_directive orc Build src base le d s = XOut o s' ->
  same_dirs (wld s) (wld s') /\
  (forall a rest, d_ty d = DTemp -> d_args d = a :: rest -> temp_ok src (wld s) a).
Proof.
  intros Hp. unfold exec_directive, collect_deps. rewrite Hp.
  destruct (d_ty d) eqn:Hty.
  - intros H. inversion H; subst. split; [apply same_dirs_refl|discriminate].
  - destruct (os_resolve (w_fs (wld s)) (lex_join (work_dir src) (hd [] (d_args d)))) as [q|]; [|discriminate].
    destruct (read_file (w_fs (wld s)) q) as [c0|]; [|discriminate].
    destruct (utf8_valid c0); [|discriminate].
    intros H. inversion H; subst. split; [apply same_dirs_refl|discriminate].
  - intros H. inversion H; subst. split; [apply same_dirs_refl|discriminate].
  - destruct (orc (join [SPb] (d_args d)) (work_dir src) (input_display src base)); [|discriminate].
    intros H. inversion H; subst. split; [intros p; reflexivity|discriminate].
  - destruct (create (tg s) (hd [] (d_args d))); [|discriminate].
    intros H. inversion H; subst. split; [apply same_dirs_refl|discriminate].
  - destruct (exec_temp src le (d_args d) false (wld s)) as [w1|k] eqn:E; [|discriminate].
    intros H. inversion H; subst. cbn [wld set_wld].
    unfold exec_temp in E. destruct (d_args d) as [|a rest]; [discriminate|].
    destruct (is_txtpp_file (lex_components a)) eqn:Et; [discriminate|].
    split; [eapply write_temp_dirs; eauto|].
    intros a0 rest0 _ Ea. inversion Ea; subst a0 rest0. split; [exact Et|].
    exists (wld s). split; [apply same_dirs_refl|]. eapply write_temp_target; eauto.
  - intros H. inversion H; subst. split; [apply same_dirs_refl|discriminate].
Qed.

Lemma do_item_build it s s2 : pmode s = PExec -> do_item orc Build src base le it s = StOk s2 ->
  same_dirs (wld s) (wld s2) /\ pmode s2 = PExec /\ it <> IBad /\
  (forall d fol a rest, it = IDir d fol -> d_ty d = DTemp -> d_args d = a :: rest -> temp_ok src (wld s) a).
Proof.
  intros Hp. unfold do_item.
  destruct (item_output orc Build src base le it s) as [o s1|k w1|] eqn:Ei; try discriminate.
  intros He. pose proof (item_output_pexec orc Build src base le it s o s1 Hp Ei) as Hp1.
  pose proof (emit_dirs _ _ _ _ He) as D2. apply emit_pmode in He. destruct He as [Hp2 _].
  destruct it as [l|d fol| |]; cbn [item_output] in Ei; try discriminate.
  - assert (wld s1 = wld s) as Ew.
    { rewrite Hp in Ei. cbn [is_execute] in Ei.
      destruct (inject (tg s) l le) as [[l' t']|]; [|discriminate]. inversion Ei; reflexivity. }
    rewrite <- Ew. split; [exact D2|]. split; [congruence|]. split; [discriminate|]. intros; discriminate.
  - destruct (exec_directive orc Build src base le d s) as [o1 s3|k w1] eqn:Ex; [|discriminate].
    destruct (exec_directive_build d s o1 s3 Hp Ex) as [D1 Ht].
    assert (wld s1 = wld s3) as Ew.
    { destruct o1 as [raw|]; [destruct (try_store (tg s3) raw)|]; inversion Ei; reflexivity. }
    split; [eapply same_dirs_trans; [exact D1|rewrite <- Ew; exact D2]|]. split; [congruence|].
    split; [discriminate|]. intros d0 fol0 a rest E. inversion E; subst. apply Ht.
Qed.

Lemma epilogue_dirs md tn s w' : epilogue md le tn s = PpOk w' -> same_dirs (wld s) w'.
Proof.
  unfold epilogue.
  assert (T : (if has_tags (tg s) && negb (mode_eqb md Clean) then PpErr KDirective (wld s)
               else let r := if flag s && tn then sink_write (snk s) (wld s) le else inl (snk s, wld s) in
                    match r with
                    | inl (k1, w1) => match sink_done k1 w1 with inl w2 => PpOk w2 | inr k => PpErr k w1 end
                    | inr k => PpErr k (wld s)
                    end) = PpOk w' -> same_dirs (wld s) w').
  { destruct (has_tags (tg s) && negb (mode_eqb md Clean)); [discriminate|]. cbv zeta.
    assert (D1 : match (if flag s && tn then sink_write (snk s) (wld s) le else inl (snk s, wld s)) with
                 | inl (k1, w1) => same_dirs (wld s) w1 | inr _ => True end).
    { destruct (flag s && tn); [|apply same_dirs_refl].
      destruct (sink_write (snk s) (wld s) le) as [[k1 w1]|k] eqn:E; [|exact I]. eapply sink_write_dirs; eauto. }
    destruct (if flag s && tn then sink_write (snk s) (wld s) le else inl (snk s, wld s)) as [[k1 w1]|k]; [|discriminate].
    destruct (sink_done k1 w1) as [w2|k] eqn:E2; [|discriminate].
    intros H. inversion H; subst. eapply same_dirs_trans; [exact D1|]. eapply sink_done_dirs; eauto. }
  destruct (pmode s); [exact T|exact T|discriminate].
Qed.

Lemma build_items_inv tn its : forall s w', pmode s = PExec ->
  spec_out orc Build src base le tn its s = PpOk w' ->
  same_dirs (wld s) w' /\ ~ In IBad its /\
  (forall d fol a rest, In (IDir d fol) its -> d_ty d = DTemp -> d_args d = a :: rest -> temp_ok src (wld s) a).
Proof.
  induction its as [|it r IH]; intros s w' Hp.
  - rewrite spec_out_nil. intros H. split; [eapply epilogue_dirs; eauto|]. split; [intros []|intros d fol a rest []].
  - rewrite spec_out_cons. destruct (do_item orc Build src base le it s) as [s2|k w1|] eqn:E; try discriminate.
    destruct (do_item_build it s s2 Hp E) as (D1 & Hp2 & Hnb & Ht). intros H.
    destruct (IH s2 w' Hp2 H) as (D2 & Hb & Ht2).
    split; [eapply same_dirs_trans; eauto|]. split.
    + intros [Hi|Hi]; [apply Hnb; exact Hi|apply Hb; exact Hi].
    + intros d fol a rest [Hi|Hi] Hty Ha.
      * eapply Ht; eauto.
      * eapply temp_ok_dirs; [apply same_dirs_sym; exact D1|]. eapply Ht2; eauto.
Qed.

End BuildInv.

Lemma sink_new_clean_dirs w out k w0 : sink_new Clean w out = inl (k, w0) -> same_dirs w w0.
Proof.
  unfold sink_new. destruct (exists_ (w_fs w) out).
  - destruct (w_remove_file w out) as [w1|] eqn:E; [|discriminate]. intros H. inversion H; subst.
    eapply w_remove_dirs; eauto.
  - intros H. inversion H; subst. apply same_dirs_refl.
Qed.

Lemma temp_args_in its a : In a (temp_args its) ->
  exists d fol rest, In (IDir d fol) its /\ d_ty d = DTemp /\ d_args d = a :: rest.
Proof.
  induction its as [|it r IH]; [intros []|].
  assert (R : In a (temp_args r) -> exists d fol rest, In (IDir d fol) (it :: r) /\ d_ty d = DTemp /\ d_args d = a :: rest).
  { intros H. destruct (IH H) as (d & fol & rest & Hin & H1 & H2). exists d, fol, rest. split; [right; exact Hin|auto]. }
  destruct it as [l|d fol| |]; cbn [temp_args]; try exact R.
  destruct (d_ty d) eqn:Hty; try exact R.
  destruct (d_args d) as [|a0 rest] eqn:Ha; [exact R|].
  intros [<-|H]; [|exact (R H)]. exists d, fol, rest. split; [left; reflexivity|auto].
Qed.

(* C07 (3): a successful final Build pass followed by a successful Clean pass (any oracle, any pass kind, any
   trailing-newline option) restores the tree, provided nothing was lying at the output path and at the temp
   targets beforehand, and the directory of the source is canonical. *)
Theorem build_then_clean_restores_pass orc orc' base src tn first' tn' w w1 w2 out :
  remove_txtpp src = Some out -> all_normal (parent src) ->
  (forall p, In p (allowed_paths src out (items_of Build w src)) -> fs_get (w_fs w) p = None) ->
  pp_run orc Build base src false tn w = PpOk w1 ->
  pp_run orc' Clean base src first' tn' w1 = PpOk w2 ->
  w_eq w2 w.
Proof.
  intros Hrm Hnorm Hnone Hb Hc.
  destruct (remove_txtpp_shape src out Hrm) as (dir & n & m & Es & Eo).
  assert (Hpar : parent src = dir) by (unfold parent; rewrite Es; apply removelast_last).
  assert (Hdir : all_normal dir) by (rewrite <- Hpar; exact Hnorm).
  assert (Hcan : lex_normalize (parent out) = parent out).
  { unfold parent. rewrite Eo, removelast_last. apply lex_normalize_normal. exact Hdir. }
  (* the Build pass touches only the output and the temp targets *)
  assert (FB : forall p, ~ In p (allowed_paths src out (items_of Build w src)) ->
               fs_get (w_fs w1) p = fs_get (w_fs w) p).
  { intros p Hp. apply (pp_run_frame orc Build base src false tn w w1 p (or_introl Hb)).
    destruct (pp_run_events_weaker orc Build src base false tn w out Hcan Hrm w1 (or_introl Hb)) as (evs & Hex & Hall).
    unfold extends in Hex. rewrite Hex, skipn_app_exact. intros e He Hpe.
    rewrite Forall_forall in Hall. specialize (Hall e He). unfold ev_allowed in Hall. rewrite Hpe in Hall.
    apply Hp. exact Hall. }
  (* open the Build pass *)
  pose proof Hb as Hb'. rewrite pp_run_unfold in Hb'. unfold items_of in Hnone, FB.
  destruct (read_file (w_fs w) src) as [raw|] eqn:Er; [|discriminate]. fold (items_of' Build raw) in Hnone, FB.
  rewrite Hrm in Hb'. destruct (is_txtpp_file out); [discriminate|].
  unfold sink_new in Hb'. destruct (w_write w out []) as [wa|] eqn:Ea; [|discriminate].
  apply pp_rest_ok_iff in Hb'. destruct Hb' as [Hbad Hs].
  apply build_items_inv in Hs; [|reflexivity]. cbn [wld] in Hs. destruct Hs as (Da & Hnb & Hok).
  assert (Dw : same_dirs w w1) by (eapply same_dirs_trans; [eapply w_write_dirs; eauto|exact Da]).
  assert (Eits : items_of' Clean raw = items_of' Build raw).
  { unfold items_of'. cbn [mode_eqb]. apply parse_clean_eq_build. exact Hnb. }
  (* the source is not touched *)
  assert (Hsrc : ~ In src (allowed_paths src out (items_of' Build raw))).
  { intros Hin. specialize (Hnone _ Hin). unfold read_file in Er. rewrite Hnone in Er. discriminate. }
  (* open the Clean pass *)
  destruct (clean_pass_char src orc' base first' tn' w1 w2 out Hrm Hc) as (raw' & w0 & Er' & _ & En & E2 & _).
  assert (raw' = raw).
  { unfold read_file in Er', Er. rewrite (FB src Hsrc) in Er'. rewrite Er in Er'. inversion Er'. reflexivity. }
  subst raw'. rewrite Eits in E2.
  pose proof (sink_new_clean_dirs _ _ _ _ En) as D0.
  pose proof (clean_fold_shr src (items_of' Build raw) w0) as [_ D2]. rewrite <- E2 in D2.
  intros p. destruct (in_paths (allowed_paths src out (items_of' Build raw)) p) eqn:Ein.
  - apply in_paths_true in Ein. rewrite (Hnone p Ein).
    destruct Ein as [<-|Ein]; [eapply clean_pass_removes_output; eauto|].
    apply in_map_iff in Ein. destruct Ein as (a & <- & Hin).
    destruct (temp_args_in _ _ Hin) as (d & fol & rest & Hi & Hty & Ha).
    assert (Hok0 : temp_ok src w0 a).
    { eapply temp_ok_dirs; [|exact (Hok d fol a rest Hi Hty Ha)]. eapply same_dirs_trans; eauto. }
    pose proof (clean_fold_removes src _ w0 d fol a rest Hi Hty Ha Hok0) as Hnf. rewrite <- E2 in Hnf.
    assert (Hnd : is_dir (w_fs w2) (lex_normalize (tlex src a)) = false).
    { rewrite <- D2, <- D0, <- Dw. unfold is_dir, tlex.
      rewrite (Hnone (lex_normalize (lex_join (parent src) a))); [reflexivity|].
      right. apply (in_map (fun a => lex_normalize (lex_join (parent src) a))). exact Hin. }
    unfold is_file, is_dir, tlex in Hnf, Hnd.
    destruct (fs_get (w_fs w2) (lex_normalize (lex_join (parent src) a))) as [[c0|]|]; try discriminate; reflexivity.
  - apply in_paths_false in Ein. rewrite E2.
    rewrite (clean_fold_frame src _ p) by (intros H; apply Ein; right; exact H).
    rewrite (sink_new_clean_frame _ _ _ _ En) by (intros ->; apply Ein; left; reflexivity).
    apply FB. exact Ein.
Qed.

(* ---- the hypotheses are satisfiable: the source of the C06 example (one temp directive, one text line) in a tree
   that holds nothing else ---- *)
Definition ex_w0 : world := mkW [(ex_src, File ex_raw)] [].
Definition ex_w1 : world :=      (* after the build: `a` = "h\n" and `t` = "hello" have been created *)
  match pp_run ex_orc Build [] ex_src false true ex_w0 with PpOk w => w | _ => ex_w0 end.
Definition ex_w2 : world :=      (* after the clean *)
  match pp_run ex_orc Clean [] ex_src true false ex_w1 with PpOk w => w | _ => ex_w0 end.

Example build_then_clean_example :
  pp_run ex_orc Build [] ex_src false true ex_w0 = PpOk ex_w1 /\
  read_file (w_fs ex_w1) ex_out = Some [104;10] /\ read_file (w_fs ex_w1) [[116]] = Some [104;101;108;108;111] /\
  pp_run ex_orc Clean [] ex_src true false ex_w1 = PpOk ex_w2 /\
  w_eq ex_w2 ex_w0 /\ fs_get (w_fs ex_w2) ex_out = None /\
  pp_run (fun _ _ _ => Some []) Clean [] ex_src false true ex_w2 = PpOk ex_w2.
Proof.
  assert (Hb : pp_run ex_orc Build [] ex_src false true ex_w0 = PpOk ex_w1) by (vm_compute; reflexivity).
  assert (Hc : pp_run ex_orc Clean [] ex_src true false ex_w1 = PpOk ex_w2) by (vm_compute; reflexivity).
  assert (Hrm : remove_txtpp ex_src = Some ex_out) by (vm_compute; reflexivity).
  split; [exact Hb|]. split; [vm_compute; reflexivity|]. split; [vm_compute; reflexivity|]. split; [exact Hc|].
  split; [|split].
  - (* through the theorem *)
    apply (build_then_clean_restores_pass ex_orc ex_orc [] ex_src true true false ex_w0 ex_w1 ex_w2 ex_out Hrm).
    + constructor.
    + intros p Hp. vm_compute in Hp. destruct Hp as [<-|[<-|[]]]; vm_compute; reflexivity.
    + exact Hb.
    + exact Hc.
  - exact (clean_pass_removes_output ex_orc [] ex_src true false ex_w1 ex_w2 ex_out Hrm Hc).
  - apply (clean_pass_idempotent ex_orc (fun _ _ _ => Some []) [] ex_src true false false true ex_w1 ex_w2 ex_out Hrm).
    + vm_compute. intros [H|[]]. discriminate.
    + exact Hc.
Qed.

