(* GrammarFacts.v — lemmas about detect_from / add_line (C15, C18). *)
Require Import Txtpp.Str Txtpp.Consts Txtpp.Grammar.
From Coq Require Import Lia.

Lemma add_line_single_stop d l : multi (d_ty d) = false -> add_line d l = AddStop.
Proof. intros H. unfold add_line. now rewrite H. Qed.
