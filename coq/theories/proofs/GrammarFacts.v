(* GrammarFacts.v — the documented grammar (README "Syntax") as theorems about
   detect_from / add_line (C15), and absence of panics in add_line (C18).
   Statements fixed before the proofs were written; nothing is admitted. *)
Require Import Txtpp.Str Txtpp.Consts Txtpp.Grammar Txtpp.proofs.StrFacts.
From Coq Require Import Lia.

Lemma add_line_single_stop d l : multi (d_ty d) = false -> add_line d l = AddStop.
Proof. intros H. unfold add_line. now rewrite H. Qed.

(* the names, as documented: (empty), include, after, run, temp, tag, write *)
Definition documented_name (n : str) : option dtype :=
  if str_eqb n [] then Some DEmpty
  else if str_eqb n [105;110;99;108;117;100;101] then Some DInclude   (* include *)
  else if str_eqb n [97;102;116;101;114] then Some DAfter              (* after *)
  else if str_eqb n [114;117;110] then Some DRun                       (* run *)
  else if str_eqb n [116;101;109;112] then Some DTemp                  (* temp *)
  else if str_eqb n [116;97;103] then Some DTag                        (* tag *)
  else if str_eqb n [119;114;105;116;101] then Some DWrite             (* write *)
  else None.
Lemma dtype_of_name_documented n : dtype_of_name n = documented_name n.
Proof.
  unfold dtype_of_name, documented_name, c_name_table. cbn [lookup_name].
  unfold str, byte in *.
  repeat match goal with
  | |- context [str_eqb n ?k] =>
    let E := fresh "E" in
    destruct (str_eqb n k) eqn:E; [apply str_eqb_eq in E; subst n; reflexivity|]
  end.
  reflexivity.
Qed.
Lemma multi_documented t :
  multi t = match t with DInclude | DAfter | DTag => false | _ => true end.
Proof. destruct t; reflexivity. Qed.
Lemma txtpp_hash_documented : TXTPP_HASH = [84; 88; 84; 80; 80; 35].   (* "TXTPP#" *)
Proof. reflexivity. Qed.

Lemma skipn_app_exact2 (A : Type) (a b c : list A) :
  skipn (length a + length b) (a ++ b ++ c) = c.
Proof. rewrite <- app_length, app_assoc. apply skipn_app_exact. Qed.
Lemma trim_nil : trim [] = [].
Proof. reflexivity. Qed.

(* A line starts a directive iff, after its leading white space, the first TXTPP# on the line is
   immediately followed by one of the names and then a space or the end of the line; the text before
   it is the prefix and the trimmed rest is the first argument. *)
Theorem detect_from_iff l d :
  detect_from l = Some d <->
  exists ws p name rest,
    l = ws ++ p ++ TXTPP_HASH ++ name ++ rest /\
    AllWs ws /\ ws_len (p ++ TXTPP_HASH ++ name ++ rest) = 0%nat /\
    (forall j, (j < length p)%nat -> ~ occurs_at TXTPP_HASH (p ++ TXTPP_HASH ++ name ++ rest) j) /\
    ~ In SPb name /\ (rest = [] \/ exists r', rest = SPb :: r') /\
    exists t, documented_name name = Some t /\
    d = mkD ws p t [trim (tl rest)].
Proof.
  split.
  - intros H. unfold detect_from in H.
    destruct (split_ws l) as [ws rest0] eqn:Esw.
    apply split_ws_spec in Esw as (-> & Hws & H0).
    destruct (find_sub TXTPP_HASH rest0) as [i|] eqn:Ef; [|discriminate].
    apply find_sub_spec in Ef as [Hocc Hmin].
    destruct Hocc as (p & tail & -> & Hi). subst i.
    rewrite firstn_app_exact, skipn_app_exact2 in H.
    destruct (split_once_sp tail) as [[n a]|] eqn:Es.
    + apply split_once_sp_spec in Es as [-> Hn].
      cbv beta iota in H.
      destruct (dtype_of_name n) as [t|] eqn:Et; [|discriminate]. injection H as <-.
      exists ws, p, n, (SPb :: a).
      split; [reflexivity|]. split; [assumption|]. split; [assumption|].
      split; [exact Hmin|]. split; [assumption|].
      split; [right; eexists; reflexivity|].
      exists t. split; [now rewrite <- dtype_of_name_documented | reflexivity].
    + apply split_once_sp_none in Es.
      cbv beta iota in H.
      destruct (dtype_of_name tail) as [t|] eqn:Et; [|discriminate]. injection H as <-.
      exists ws, p, tail, []. rewrite app_nil_r.
      split; [reflexivity|]. split; [assumption|]. split; [assumption|].
      split; [exact Hmin|]. split; [assumption|].
      split; [now left|].
      exists t. split; [now rewrite <- dtype_of_name_documented | reflexivity].
  - intros (ws & p & name & rest & -> & Hws & H0 & Hmin & Hn & Hrest & t & Ht & ->).
    unfold detect_from.
    rewrite (split_ws_app ws _ Hws H0). cbv beta iota zeta.
    assert (Ef : find_sub TXTPP_HASH (p ++ TXTPP_HASH ++ name ++ rest) = Some (length p)).
    { apply find_sub_spec. split; [|exact Hmin]. exists p, (name ++ rest). auto. }
    rewrite Ef. rewrite firstn_app_exact, skipn_app_exact2.
    rewrite <- dtype_of_name_documented in Ht.
    destruct Hrest as [-> | [r' ->]].
    + rewrite app_nil_r. rewrite (proj2 (split_once_sp_none name) Hn).
      rewrite Ht. reflexivity.
    + rewrite (proj2 (split_once_sp_spec _ name r') (conj eq_refl Hn)).
      rewrite Ht. reflexivity.
Qed.

Lemma repeat_sp_length n : length (repeat_sp n) = n.
Proof. apply repeat_length. Qed.
Lemma repeat_sp_utf8 n : utf8_valid (repeat_sp n) = true.
Proof. induction n as [|n IH]; [reflexivity|]. exact IH. Qed.
Lemma slice_from_spaces n a :
  utf8_valid (repeat_sp n ++ a) = true -> slice_from n (repeat_sp n ++ a) = Some a.
Proof.
  intros H. pose proof (slice_from_app (repeat_sp n) a H (repeat_sp_utf8 n)) as Hs.
  now rewrite repeat_sp_length in Hs.
Qed.
Lemma slice_prefix_or_spaces pre rem :
  utf8_valid rem = true -> utf8_valid pre = true ->
  starts_with pre rem || starts_with (repeat_sp (length pre)) rem = true ->
  exists a, slice_from (length pre) rem = Some a /\
            (rem = pre ++ a \/ rem = repeat_sp (length pre) ++ a).
Proof.
  intros Hrem Hpre H. apply orb_true_iff in H as [H|H]; apply starts_with_iff in H as [a ->]; exists a.
  - split; [now apply slice_from_app | now left].
  - split; [now apply slice_from_spaces | now right].
Qed.

(* A following line continues a run/temp/write/empty directive iff it starts with the identical leading
   white space followed by the same prefix, or by as many spaces as the prefix is long (in bytes), or consists
   of the prefix without its trailing white space; its remainder, right-trimmed, becomes the next argument. *)
Theorem add_line_iff d l d' :
  utf8_valid l = true -> utf8_valid (d_ws d) = true -> utf8_valid (d_prefix d) = true ->
  (add_line d l = AddOk d' <->
   multi (d_ty d) = true /\ exists rem,
     l = d_ws d ++ rem /\
     ((rem = trim_end (d_prefix d) /\ d' = push_arg d [])
      \/ (rem <> trim_end (d_prefix d) /\
          exists a, (rem = d_prefix d ++ a \/ rem = repeat_sp (length (d_prefix d)) ++ a) /\
                    d' = push_arg d (trim_end a)))).
Proof.
  intros Hl Hws Hpre. unfold add_line. split.
  - intros H. destruct (multi (d_ty d)) eqn:Em; cbn [negb] in H; [|discriminate].
    split; [reflexivity|].
    destruct (starts_with (d_ws d) l) eqn:Es; [|discriminate].
    apply starts_with_iff in Es as [rem ->]. exists rem. split; [reflexivity|].
    rewrite (slice_from_app _ _ Hl Hws) in H.
    pose proof (utf8_valid_app_inv _ _ Hl Hws) as Hrem.
    destruct (str_eqb rem (trim_end (d_prefix d))) eqn:Eq.
    + apply str_eqb_eq in Eq. injection H as <-. left. auto.
    + right. split.
      { intros Hc. apply str_eqb_eq in Hc. congruence. }
      destruct (starts_with (d_prefix d) rem || starts_with (repeat_sp (length (d_prefix d))) rem) eqn:Eo;
        [|discriminate].
      destruct (slice_prefix_or_spaces _ _ Hrem Hpre Eo) as (a & Hs & Ha).
      rewrite Hs in H. injection H as <-. exists a. auto.
  - intros (Em & rem & -> & Hcase). rewrite Em. cbn [negb].
    assert (Es : starts_with (d_ws d) (d_ws d ++ rem) = true).
    { apply starts_with_iff. now exists rem. }
    rewrite Es. rewrite (slice_from_app _ _ Hl Hws).
    pose proof (utf8_valid_app_inv _ _ Hl Hws) as Hrem.
    destruct Hcase as [[-> ->] | (Hne & a & Ha & ->)].
    + now rewrite str_eqb_refl.
    + destruct (str_eqb rem (trim_end (d_prefix d))) eqn:Eq.
      { apply str_eqb_eq in Eq. contradiction. }
      destruct Ha as [-> | ->].
      * assert (E1 : starts_with (d_prefix d) (d_prefix d ++ a) = true).
        { apply starts_with_iff. now exists a. }
        rewrite E1. cbn [orb]. now rewrite (slice_from_app _ _ Hrem Hpre).
      * assert (E1 : starts_with (repeat_sp (length (d_prefix d)))
                       (repeat_sp (length (d_prefix d)) ++ a) = true).
        { apply starts_with_iff. now exists a. }
        rewrite E1, orb_true_r. now rewrite (slice_from_spaces _ _ Hrem).
Qed.

(* the byte-offset slices of add_line never panic on UTF-8 text (directive_add_line.rs:17-30) *)
Theorem add_line_no_panic d l :
  utf8_valid l = true -> utf8_valid (d_ws d) = true -> utf8_valid (d_prefix d) = true ->
  add_line d l <> AddPanic.
Proof.
  intros Hl Hws Hpre. unfold add_line.
  destruct (negb (multi (d_ty d))); [discriminate|].
  destruct (starts_with (d_ws d) l) eqn:Es; [|discriminate].
  apply starts_with_iff in Es as [rem ->].
  rewrite (slice_from_app _ _ Hl Hws).
  pose proof (utf8_valid_app_inv _ _ Hl Hws) as Hrem.
  destruct (str_eqb rem (trim_end (d_prefix d))); [discriminate|].
  destruct (starts_with (d_prefix d) rem || starts_with (repeat_sp (length (d_prefix d))) rem) eqn:Eo;
    [|discriminate].
  destruct (slice_prefix_or_spaces _ _ Hrem Hpre Eo) as (a & Hs & _).
  rewrite Hs. discriminate.
Qed.

(* directives detected on UTF-8 lines have UTF-8 white space, prefix and argument,
   and add_line preserves that: the hypotheses above hold along every run *)
Theorem detect_from_utf8 l d :
  utf8_valid l = true -> detect_from l = Some d ->
  utf8_valid (d_ws d) = true /\ utf8_valid (d_prefix d) = true.
Proof.
  intros Hl H. apply detect_from_iff in H
    as (ws & p & name & rest & -> & Hws & _ & _ & _ & _ & t & _ & ->).
  cbn [d_ws d_prefix]. pose proof (AllWs_utf8 ws Hws) as Hv.
  split; [assumption|].
  pose proof (utf8_valid_app_inv _ _ Hl Hv) as Hr.
  change (TXTPP_HASH ++ name ++ rest) with (84 :: ([88; 84; 80; 80; 35] ++ name ++ rest)) in Hr.
  now apply utf8_valid_prefix_ascii in Hr.
Qed.

Lemma add_line_push d l d' : add_line d l = AddOk d' -> exists a, d' = push_arg d a.
Proof.
  unfold add_line. intros H.
  destruct (negb (multi (d_ty d))); [discriminate|].
  destruct (starts_with (d_ws d) l); [|discriminate].
  destruct (slice_from (length (d_ws d)) l) as [rem|]; [|discriminate].
  destruct (str_eqb rem (trim_end (d_prefix d))).
  { injection H as <-. now eexists. }
  destruct (starts_with (d_prefix d) rem || starts_with (repeat_sp (length (d_prefix d))) rem);
    [|discriminate].
  destruct (slice_from (length (d_prefix d)) rem) as [a|]; [|discriminate].
  injection H as <-. now eexists.
Qed.
Theorem add_line_keeps_ws_prefix d l d' :
  add_line d l = AddOk d' -> d_ws d' = d_ws d /\ d_prefix d' = d_prefix d /\ d_ty d' = d_ty d.
Proof. intros H. apply add_line_push in H as [a ->]. auto. Qed.
(* a detected directive always has exactly one argument, so `temp` always has a path argument
   (the "no export file path" branch of pp/mod.rs:324-330 is dead) *)
Theorem detect_from_one_arg l d : detect_from l = Some d -> exists a, d_args d = [a].
Proof.
  intros H. apply detect_from_iff in H
    as (ws & p & name & rest & _ & _ & _ & _ & _ & _ & t & _ & ->).
  now eexists.
Qed.
Theorem add_line_args_nonempty d l d' : add_line d l = AddOk d' -> d_args d <> [] -> d_args d' <> [].
Proof.
  intros H _. apply add_line_push in H as [a ->]. cbn [push_arg d_args].
  intros Hc. apply app_eq_nil in Hc as [_ Hc]. discriminate.
Qed.
