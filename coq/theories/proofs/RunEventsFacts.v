(* RunEventsFacts.v — whole-run versions of C10 (only own outputs and temp targets are ever touched, in every mode,
   whatever the verdict, including the tasks that still run after a failure) and the crash clause of C08 (a build
   interrupted at any point has only disturbed generated paths).
   TASK: DESIGN-and-prove. State each result precisely, prove it, leave NO Admitted, report the exact final statements. *)
Require Import Txtpp.Str Txtpp.Consts Txtpp.Grammar Txtpp.Tags Txtpp.Path Txtpp.Fs Txtpp.Sink Txtpp.Pp Txtpp.Spec.
Require Import Txtpp.Dep Txtpp.Coord Txtpp.Run.
Require Import Txtpp.proofs.StrFacts Txtpp.proofs.SinkFacts Txtpp.proofs.PathFacts Txtpp.proofs.PpFacts Txtpp.proofs.EventFacts.
Require Import Txtpp.proofs.FrameFacts Txtpp.proofs.ConfluenceFacts Txtpp.proofs.DepFacts Txtpp.proofs.CoordFacts Txtpp.proofs.RunFacts.
Require Import Txtpp.proofs.ScheduleFacts.
From Coq Require Import Lia Permutation.

(* GOAL 1 (C10) — `run_events_allowed`: for `x := txtpp_run orc cfg fuel sched w` (any mode, any verdict, any schedule, any fuel):
   the log of `world_of x` extends the log of w, and every EWrite/ERemove event p of the extension satisfies:
   there is a task `TPp f b` in `trace_of x` (drained tasks included) and `remove_txtpp f = Some out` such that
   p = lex_normalize out, or p ∈ allowed_paths f out (items_of (cfg_mode cfg) w' f) for the world w' in which that pass ran.
   Since sources are never written (prove: no event path is a `.txtpp` path when the temp targets / outputs are refused — use
   what RunFacts' stretch part already proved about this, e.g. its invariant `Jrun`/`K`, or re-derive), `items_of` can be taken in
   the INITIAL world for well-formed trees: state a second version with `items_of md w f` under the hypotheses of
   RunFacts.txtpp_run_terminates (NoDup keys, legal_names) if you can.
   Scans log nothing. Corollary `run_frame`: a path that is not in the footprint of any processed file keeps its node. *)

(* GOAL 2 (C10, clean/verify) — in Clean mode every event of the run is an ERemove; in Verify mode no event is on the output path of
   a processed source unless a temp directive of a processed source names it (lift EventFacts.clean_events_remove_only and
   verify_events_not_output to runs). *)

(* GOAL 3 (C08 crash clause) — "a build interrupted at any point": model an interruption as stopping `run_loop` after k steps
   (fuel k: verdict VFuel) — tasks are atomic in the model, see GOAL 4 for inside-a-task interruptions. Prove: the world reached after
   any number of steps agrees with the initial world on every path that is not in the footprint (writes_of) of a processed file; in
   particular sources, included plain files and unrelated files are intact, and (with ConfluenceFacts.stale_outputs_irrelevant_deps or
   _static) rebuilding from that world gives the same verdict/trace as building from the initial world provided the disturbed paths are
   output paths (state the corollary `interrupted_then_rebuild` in the form the existing theorem allows; say what is missing for temp targets). *)

(* GOAL 4 (stretch) — interruption INSIDE a pass: the events of a pass are applied one after the other; any prefix of a pass's
   operations leaves a world that differs from the world before the pass only on the pass's footprint
   (ConfluenceFacts.pp_run_by_ops / pp_run_ops_footprint give a pass as a list of put/delete operations). State and prove
   `pass_prefix_only_touches_footprint`. *)

(* -------------------------------------------------------------------------------------------------------------------
   WHAT IS PROVED HERE (everything is Qed, no axiom; `Example`s are non-vacuity checks by vm_compute)
   PART 0  exec_chain / run_loop_chain / txtpp_run_chain : the trace, replayed from the initial world, gives the final
           world (any verdict; drained tasks included); run_base.
   PART 1  GOAL 1: run_events_allowed (footprints in the world in which each pass ran), run_frame;
           run_events_allowed_initial / run_frame_initial (footprints in the INITIAL world, hypothesis footprints_plain).
   PART 2  GOAL 2: clean_run_events, clean_run_removes_only, verify_run_events, verify_run_untouched,
           verify_run_events_not_output.
   PART 3  worlds as sequences of primitive operations: txtpp_run_by_ops, disturbed_stale_rel.
   PART 4  GOAL 3: run_loop_resume / interrupted_run_resumes (fuel k = the first k tasks of any longer run),
           interrupted_frame, interrupted_sources_intact, interrupted_stale_rel, interrupted_then_rebuild,
           interrupted_then_rebuild_deps (and _exact at the end of the file).
   PART 5  GOAL 4: pass_prefix_only_touches_footprint, interrupted_inside_pass, interrupted_inside_pass_sources.
   PART 6  examples.
   PART 7  GOAL 1, second version under NoDup + legal_names ONLY: pass_plain_events (no event of a pass is on a `.txtpp`
           path), txtpp_run_trace_good, run_events_allowed_legal, run_frame_legal, and the consequences
           clean_run_events_legal, verify_run_untouched_legal, interrupted_sources_intact_legal,
           pass_prefix_sources_intact, interrupted_inside_pass_legal.
   ------------------------------------------------------------------------------------------------------------------- *)

(* ===================================================================================================================
   PART 0 — a run is a chain of task executions: the trace, replayed from the initial world, gives the final world
   =================================================================================================================== *)
Section Chain.
Variable orc : oracle.
Variable cfg : config.
Variable base : path.

(* `exec_chain w l w'`: executing the tasks of l one after the other from the world w gives the recorded results
   and ends in the world w' *)
Inductive exec_chain : world -> list (task * result) -> world -> Prop :=
| ec_nil w : exec_chain w [] w
| ec_cons w t r w1 rest w' :
    exec_task orc cfg base t w = Some (r, w1) -> exec_chain w1 rest w' -> exec_chain w ((t, r) :: rest) w'.

Lemma exec_chain_app w a w1 b w2 : exec_chain w a w1 -> exec_chain w1 b w2 -> exec_chain w (a ++ b) w2.
Proof.
  intros H. induction H as [w|w t r wa rest w' E H IH]; intros Hb; [exact Hb|].
  cbn [app]. econstructor; [exact E|]. apply IH. exact Hb.
Qed.
Lemma exec_chain_snoc w a w1 t r w2 :
  exec_chain w a w1 -> exec_task orc cfg base t w1 = Some (r, w2) -> exec_chain w (a ++ [(t, r)]) w2.
Proof. intros H E. eapply exec_chain_app; [exact H|]. econstructor; [exact E|constructor]. Qed.
Lemma exec_chain_split w a b w2 :
  exec_chain w (a ++ b) w2 -> exists w1, exec_chain w a w1 /\ exec_chain w1 b w2.
Proof.
  revert w. induction a as [|[t r] a IH]; intros w H; cbn [app] in H.
  - exists w. split; [constructor|exact H].
  - inversion H as [|w0 t0 r0 wa rest w' E H' ]; subst.
    destruct (IH _ H') as (w1 & H1 & H2). exists w1. split; [econstructor; eauto|exact H2].
Qed.
Lemma exec_chain_fun w a w1 w2 : exec_chain w a w1 -> exec_chain w a w2 -> w1 = w2.
Proof.
  intros H. revert w2. induction H as [w|w t r wa rest w' E H IH]; intros w2 H2; inversion H2; subst; [reflexivity|].
  match goal with X : exec_task _ _ _ t w = Some (r, ?wb) |- _ => rewrite E in X; inversion X; subst end.
  apply IH. assumption.
Qed.

Lemma drain_chain fuel : forall sched l w tr w' tr' w0,
  exec_chain w0 tr w -> drain orc cfg base fuel sched l w tr = Some (w', tr') ->
  exec_chain w0 tr' w' /\ exists added, tr' = tr ++ added.
Proof.
  induction fuel as [|fuel IH]; intros sched l w tr w' tr' w0 HC HD; cbn [drain] in HD.
  - inversion HD; subst. split; [exact HC|exists []; rewrite app_nil_r; reflexivity].
  - destruct (sort_tasks l) as [|t0 sl'] eqn:E.
    + inversion HD; subst. split; [exact HC|exists []; rewrite app_nil_r; reflexivity].
    + cbv zeta in HD. set (sl := t0 :: sl') in *. set (k := pick sched sl) in *. set (t := nth k sl t0) in *.
      destruct (exec_task orc cfg base t w) as [[r w1]|] eqn:E1; [|discriminate].
      destruct (IH _ _ _ _ _ _ w0 (exec_chain_snoc _ _ _ _ _ _ HC E1) HD) as (H1 & added & H2).
      split; [exact H1|]. exists ((t, r) :: added). rewrite H2, <- app_assoc. reflexivity.
Qed.

(* the trace of the loop, started with a trace that is a chain from w0 to the current world, is a chain from w0 to
   the final world — whatever the verdict (VOk, VErr with its drained tasks, VFuel, VPanic) *)
Theorem run_loop_chain fuel : forall sched s w tr w0,
  exec_chain w0 tr w ->
  let x := run_loop orc cfg base fuel sched s w tr in
  exec_chain w0 (trace_of x) (world_of x) /\ exists added, trace_of x = tr ++ added.
Proof.
  induction fuel as [|fuel IH]; intros sched s w tr w0 HC.
  - destruct (sort_tasks (inflight s)) as [|t0 sl'] eqn:E.
    + rewrite (run_loop_exit _ _ _ _ _ _ _ _ E). cbn. split; [exact HC|exists []; rewrite app_nil_r; reflexivity].
    + rewrite (run_loop_nofuel _ _ _ _ _ _ _ _ _ E). cbn. split; [exact HC|exists []; rewrite app_nil_r; reflexivity].
  - destruct (sort_tasks (inflight s)) as [|t0 sl'] eqn:E.
    + rewrite (run_loop_exit _ _ _ _ _ _ _ _ E). cbn. split; [exact HC|exists []; rewrite app_nil_r; reflexivity].
    + rewrite (run_loop_step _ _ _ _ _ _ _ _ _ _ E). cbv zeta.
      set (sl := t0 :: sl'). set (k := pick sched sl). set (t := nth k sl t0).
      set (s1 := with_inflight s (remove_nth k sl)).
      destruct (exec_task orc cfg base t w) as [[r w1]|] eqn:E1.
      2:{ cbn. split; [exact HC|exists []; rewrite app_nil_r; reflexivity]. }
      pose proof (exec_chain_snoc _ _ _ _ _ _ HC E1) as HC1.
      destruct (handle s1 r) as [s2| |] eqn:Hh.
      * destruct (IH (tl sched) s2 w1 (tr ++ [(t, r)]) w0 HC1) as (H1 & added & H2).
        split; [exact H1|]. exists ((t, r) :: added). rewrite H2, <- app_assoc. reflexivity.
      * destruct (drain orc cfg base (length (inflight s1)) (tl sched) (inflight s1) w1 (tr ++ [(t, r)]))
          as [[w2 tr2]|] eqn:Hd.
        -- destruct (drain_chain _ _ _ _ _ _ _ w0 HC1 Hd) as (H1 & added & H2). cbn.
           split; [exact H1|]. exists ((t, r) :: added). rewrite H2, <- app_assoc. reflexivity.
        -- cbn. split; [exact HC1|exists [(t, r)]; reflexivity].
      * cbn. split; [exact HC1|exists [(t, r)]; reflexivity].
Qed.
End Chain.

(* the resolved base directory of a run (the root when it does not resolve: the run then stops before any task) *)
Definition run_base (cfg : config) (w : world) : path :=
  match os_resolve (w_fs w) (cfg_base cfg) with Some b => b | None => [] end.

(* C10/C08 backbone: the final world of a run is the initial world after the tasks of its trace, in that order *)
Theorem txtpp_run_chain orc cfg fuel sched w :
  let x := txtpp_run orc cfg fuel sched w in
  exec_chain orc cfg (run_base cfg w) w (trace_of x) (world_of x).
Proof.
  unfold txtpp_run, run_base.
  destruct (cfg_threads cfg =? 0); [cbn; constructor|].
  destruct (os_resolve (w_fs w) (cfg_base cfg)) as [base|]; [|cbn; constructor].
  destruct (resolve_inputs (w_fs w) base (cfg_inputs cfg) [] []) as [[files dirs]|]; [|cbn; constructor].
  apply (run_loop_chain orc cfg base fuel sched _ w [] w (ec_nil _ _ _ w)).
Qed.

(* ===================================================================================================================
   PART 1 — GOAL 1 (C10): every event of a run is on the footprint of a pass of its trace
   =================================================================================================================== *)
(* the paths a task may touch when it is executed in the world w: nothing for a scan, `writes_of` for a pass, i.e.
   lex_normalize out :: out :: the temp targets named in the text that the source has in w *)
Definition task_paths (md : mode) (w : world) (t : task) : list path :=
  match t with TScan _ => [] | TPp f _ => writes_of md w f end.

Lemma in_writes_of md w f p :
  In p (writes_of md w f) <->
  exists out, remove_txtpp f = Some out /\ (p = lex_normalize out \/ In p (allowed_paths f out (items_of md w f))).
Proof.
  unfold writes_of. destruct (remove_txtpp f) as [out|]; split.
  - intros [H|H]; exists out; (split; [reflexivity|]); [left; symmetry; exact H|right; exact H].
  - intros (o & Ho & H). inversion Ho; subst o. destruct H as [H|H]; [left; symmetry; exact H|right; exact H].
  - intros [].
  - intros (o & Ho & _). discriminate.
Qed.

Section Events.
Variable orc : oracle.
Variable cfg : config.
Variable base : path.
Let md := cfg_mode cfg.
Let tn := cfg_trailing cfg.

(* one pass, whatever its outcome: the log grows by events on its footprint, every other path keeps its node *)
Lemma pass_tr f b w :
  tr (ev_allowed (writes_of md w f)) w (out_world (pp_run orc md base f b tn w) w).
Proof.
  destruct (remove_txtpp f) as [out|] eqn:Ho.
  2:{ rewrite (pp_run_no_out _ _ _ _ _ _ w Ho). apply tr_refl. }
  assert (G : forall w', (pp_run orc md base f b tn w = PpOk w' \/
                          (exists d, pp_run orc md base f b tn w = PpHasDeps d w') \/
                          (exists k, pp_run orc md base f b tn w = PpErr k w')) ->
               tr (ev_allowed (writes_of md w f)) w w').
  { intros w' Hres.
    destruct (pp_run_events_general orc md f base b tn w out Ho w' Hres) as (evs & Hext & Hall).
    exists evs. split; [exact Hext|]. split.
    - unfold writes_of. rewrite Ho. exact Hall.
    - intros p Hp. apply (pp_run_frame orc md base f b tn w w' p Hres).
      unfold extends in Hext. rewrite Hext, skipn_app_exact. exact Hp. }
  destruct (pp_run orc md base f b tn w) as [a|d a|k a|] eqn:E; cbn [out_world].
  - apply G. left. reflexivity.
  - apply G. right. left. exists d. reflexivity.
  - apply G. right. right. exists k. reflexivity.
  - apply tr_refl.
Qed.

Lemma exec_task_world t w r w' :
  exec_task orc cfg base t w = Some (r, w') ->
  w' = match t with TScan _ => w | TPp f b => out_world (pp_run orc md base f b tn w) w end.
Proof.
  destruct t as [d|f b].
  - cbn. intros H. inversion H. reflexivity.
  - rewrite exec_task_pp. cbv zeta. fold md tn. destruct (res_of_tag f _); intros H; inversion H. reflexivity.
Qed.

(* one task: scans log nothing and change nothing *)
Lemma exec_task_tr t w r w' :
  exec_task orc cfg base t w = Some (r, w') -> tr (ev_allowed (task_paths md w t)) w w'.
Proof.
  intros H. apply exec_task_world in H. subst w'. destruct t as [d|f b]; [apply tr_refl|apply pass_tr].
Qed.

(* `ran_in w l f b r wt`: the pass (f, b) with result r is an element of the chain l started in w, and wt is the
   world in which it was executed *)
Definition ran_in (w : world) (l : list (task * result)) (t : task) (r : result) (wt : world) : Prop :=
  exists pre post, l = pre ++ (t, r) :: post /\ exec_chain orc cfg base w pre wt.

Lemma ran_in_In w l t r wt : ran_in w l t r wt -> In (t, r) l.
Proof. intros (pre & post & -> & _). apply in_or_app. right. left. reflexivity. Qed.

Lemma ran_in_cons w t0 r0 w1 rest t r wt :
  exec_task orc cfg base t0 w = Some (r0, w1) -> ran_in w1 rest t r wt -> ran_in w ((t0, r0) :: rest) t r wt.
Proof.
  intros E (pre & post & -> & HC). exists ((t0, r0) :: pre), post. split; [reflexivity|]. econstructor; eauto.
Qed.

(* an event path is justified by a task of the chain, executed in the world wt *)
Definition justified (w : world) (l : list (task * result)) (p : path) : Prop :=
  exists t r wt, ran_in w l t r wt /\ In p (task_paths md wt t).

Theorem exec_chain_tr w l w' :
  exec_chain orc cfg base w l w' ->
  tr (fun e => forall p, ev_path e = Some p -> justified w l p) w w'.
Proof.
  intros H. induction H as [w|w t r w1 rest w' E H IH]; [apply tr_refl|].
  eapply tr_trans.
  - eapply tr_mono; [|apply (exec_task_tr _ _ _ _ E)].
    intros e He p Hp. unfold ev_allowed in He. rewrite Hp in He.
    exists t, r, w. split; [|exact He]. exists [], rest. split; [reflexivity|constructor].
  - eapply tr_mono; [|exact IH]. intros e He p Hp. destruct (He p Hp) as (t1 & r1 & wt & Hr & Hin).
    exists t1, r1, wt. split; [|exact Hin]. eapply ran_in_cons; eauto.
Qed.

(* unfolding `justified`: the task is a pass, the path its normalised output, its output or one of its temp targets *)
Lemma justified_pass w l p :
  justified w l p ->
  exists f b r out wt, ran_in w l (TPp f b) r wt /\ remove_txtpp f = Some out /\
    (p = lex_normalize out \/ In p (allowed_paths f out (items_of md wt f))).
Proof.
  intros (t & r & wt & Hr & Hin). destruct t as [d|f b]; [destruct Hin|].
  cbn [task_paths] in Hin. apply in_writes_of in Hin. destruct Hin as (out & Ho & Hp).
  exists f, b, r, out, wt. auto.
Qed.

(* ---- when no footprint contains a `.txtpp` path, the sources are never written, so that the footprints can be
   computed in the initial world ---- *)
Definition footprints_plain (w0 : world) (l : list (task * result)) : Prop :=
  forall f b r, In (TPp f b, r) l -> forall q, In q (writes_of md w0 f) -> is_txtpp_file q = false.

Definition txtpp_same (w0 w : world) : Prop :=
  forall q, is_txtpp_file q = true -> fs_get (w_fs w) q = fs_get (w_fs w0) q.

Lemma txtpp_same_writes w0 w f : txtpp_same w0 w -> writes_of md w f = writes_of md w0 f.
Proof.
  intros H. destruct (remove_txtpp f) as [out|] eqn:Ho.
  - apply writes_of_same. apply H. eapply remove_txtpp_is_txtpp; eauto.
  - unfold writes_of. rewrite Ho. reflexivity.
Qed.
Lemma txtpp_same_items w0 w f : txtpp_same w0 w -> is_txtpp_file f = true -> items_of md w f = items_of md w0 f.
Proof. intros H Hf. apply items_of_same. apply H. exact Hf. Qed.

Theorem exec_chain_tr_initial w0 w l w' :
  exec_chain orc cfg base w l w' -> txtpp_same w0 w -> footprints_plain w0 l ->
  txtpp_same w0 w' /\
  tr (fun e => forall p, ev_path e = Some p ->
        is_txtpp_file p = false /\ exists f b r, In (TPp f b, r) l /\ In p (writes_of md w0 f)) w w'.
Proof.
  intros H. induction H as [w|w t r w1 rest w' E H IH]; intros HS HF; [split; [exact HS|apply tr_refl]|].
  assert (T1 : tr (fun e => forall p, ev_path e = Some p ->
             is_txtpp_file p = false /\ exists f b r0, In (TPp f b, r0) ((t, r) :: rest) /\ In p (writes_of md w0 f)) w w1).
  { eapply tr_mono; [|apply (exec_task_tr _ _ _ _ E)].
    intros e He p Hp. unfold ev_allowed in He. rewrite Hp in He.
    destruct t as [d|f b]; [destruct He|]. cbn [task_paths] in He. rewrite (txtpp_same_writes w0 w f HS) in He.
    split; [apply (HF f b r (or_introl eq_refl) p He)|]. exists f, b, r. split; [left; reflexivity|exact He]. }
  assert (HS1 : txtpp_same w0 w1).
  { intros q Hq. rewrite <- (HS q Hq). destruct T1 as (evs & _ & Hall & Hfr). apply Hfr.
    intros e He Hp. rewrite Forall_forall in Hall. destruct (Hall e He q Hp) as [Hn _]. congruence. }
  destruct (IH HS1) as [HS' T2]. { intros f b r0 Hin. apply (HF f b r0). right. exact Hin. }
  split; [exact HS'|]. eapply tr_trans; [exact T1|]. eapply tr_mono; [|exact T2].
  intros e He p Hp. destruct (He p Hp) as (Hn & f & b & r0 & Hin & Hw). split; [exact Hn|].
  exists f, b, r0. split; [right; exact Hin|exact Hw].
Qed.
End Events.

(* ---- GOAL 1, for whole runs ---- *)
(* (C10, any mode, any verdict, any schedule, any fuel; the tasks drained after a failure are in the trace.)
   The log of the final world extends the initial log; every EWrite/ERemove of the extension is on the normalised
   output, the output or a temp target of a pass (f, b) of the trace, the temp targets being those named by the text
   that f holds in the world wt in which that pass was executed; a path that received no event keeps its node. *)
Theorem run_events_allowed orc cfg fuel sched w :
  let x := txtpp_run orc cfg fuel sched w in
  let base := run_base cfg w in
  exists evs, w_log (world_of x) = w_log w ++ evs /\
    Forall (fun e => forall p, ev_path e = Some p ->
      exists f b r out wt,
        ran_in orc cfg base w (trace_of x) (TPp f b) r wt /\ In (TPp f b, r) (trace_of x) /\
        remove_txtpp f = Some out /\
        (p = lex_normalize out \/ In p (allowed_paths f out (items_of (cfg_mode cfg) wt f)))) evs /\
    (forall p, (forall e, In e evs -> ev_path e <> Some p) ->
       fs_get (w_fs (world_of x)) p = fs_get (w_fs w) p).
Proof.
  cbv zeta. pose proof (txtpp_run_chain orc cfg fuel sched w) as HC. cbv zeta in HC.
  apply exec_chain_tr in HC. destruct HC as (evs & HL & HA & HF). exists evs. split; [exact HL|]. split; [|exact HF].
  eapply Forall_impl; [|exact HA]. intros e He p Hp.
  destruct (justified_pass _ _ _ _ _ _ (He p Hp)) as (f & b & r & out & wt & Hr & Ho & Hin).
  exists f, b, r, out, wt. split; [exact Hr|]. split; [eapply ran_in_In; exact Hr|]. auto.
Qed.

(* `run_frame`: a path that is in the footprint of no pass of the trace (each footprint taken in the world in which
   the pass ran) keeps its node *)
Corollary run_frame orc cfg fuel sched w p :
  let x := txtpp_run orc cfg fuel sched w in
  (forall f b r wt, ran_in orc cfg (run_base cfg w) w (trace_of x) (TPp f b) r wt ->
     ~ In p (writes_of (cfg_mode cfg) wt f)) ->
  fs_get (w_fs (world_of x)) p = fs_get (w_fs w) p.
Proof.
  cbv zeta. intros Hp. pose proof (txtpp_run_chain orc cfg fuel sched w) as HC. cbv zeta in HC.
  apply exec_chain_tr in HC. destruct HC as (evs & HL & HA & HF). apply HF.
  intros e He Hev. rewrite Forall_forall in HA.
  destruct (HA e He p Hev) as (t & r & wt & Hr & Hin). destruct t as [d|f b]; [destruct Hin|].
  apply (Hp f b r wt Hr Hin).
Qed.

(* The version with the footprints of the INITIAL world.  Hypothesis `footprints_plain`: for every pass of the
   trace, no path of its footprint (computed in the initial world) has a `.txtpp` name — i.e. no source strips to a
   `.txtpp` output and no temp directive names a `.txtpp` target (the hypothesis that ConfluenceFacts.pp_run_scan,
   static_ok and ScheduleFacts use as well).  Then: no event is on a `.txtpp` path, every `.txtpp` path (in particular
   every source) keeps its node, and every event is on the footprint `writes_of md w f` of a pass of the trace. *)
Theorem run_events_allowed_initial orc cfg fuel sched w :
  let x := txtpp_run orc cfg fuel sched w in
  footprints_plain cfg w (trace_of x) ->
  (forall q, is_txtpp_file q = true -> fs_get (w_fs (world_of x)) q = fs_get (w_fs w) q) /\
  exists evs, w_log (world_of x) = w_log w ++ evs /\
    Forall (fun e => forall p, ev_path e = Some p ->
      is_txtpp_file p = false /\
      exists f b r out, In (TPp f b, r) (trace_of x) /\ remove_txtpp f = Some out /\
        (p = lex_normalize out \/ In p (allowed_paths f out (items_of (cfg_mode cfg) w f)))) evs /\
    (forall p, (forall e, In e evs -> ev_path e <> Some p) ->
       fs_get (w_fs (world_of x)) p = fs_get (w_fs w) p).
Proof.
  cbv zeta. intros HP. pose proof (txtpp_run_chain orc cfg fuel sched w) as HC. cbv zeta in HC.
  destruct (exec_chain_tr_initial orc cfg _ w w _ _ HC (fun q _ => eq_refl) HP) as [HS (evs & HL & HA & HF)].
  split; [exact HS|]. exists evs. split; [exact HL|]. split; [|exact HF].
  eapply Forall_impl; [|exact HA]. intros e He p Hp. destruct (He p Hp) as (Hn & f & b & r & Hin & Hw).
  split; [exact Hn|]. apply in_writes_of in Hw. destruct Hw as (out & Ho & Hw). exists f, b, r, out. auto.
Qed.

Corollary run_frame_initial orc cfg fuel sched w p :
  let x := txtpp_run orc cfg fuel sched w in
  footprints_plain cfg w (trace_of x) ->
  (forall f b r, In (TPp f b, r) (trace_of x) -> ~ In p (writes_of (cfg_mode cfg) w f)) ->
  fs_get (w_fs (world_of x)) p = fs_get (w_fs w) p.
Proof.
  cbv zeta. intros HP Hp. pose proof (txtpp_run_chain orc cfg fuel sched w) as HC. cbv zeta in HC.
  destruct (exec_chain_tr_initial orc cfg _ w w _ _ HC (fun q _ => eq_refl) HP) as [_ (evs & HL & HA & HF)].
  apply HF. intros e He Hev. rewrite Forall_forall in HA.
  destruct (HA e He p Hev) as (_ & f & b & r & Hin & Hw). apply (Hp f b r Hin Hw).
Qed.

(* ===================================================================================================================
   PART 2 — GOAL 2 (C10 for clean and verify runs)
   =================================================================================================================== *)
Lemma tr_and (P Q : event -> Prop) w w' : tr P w w' -> tr Q w w' -> tr (fun e => P e /\ Q e) w w'.
Proof.
  intros (e1 & L1 & F1 & G1) (e2 & L2 & F2 & _). rewrite L1 in L2. apply app_inv_head in L2. subst e2.
  exists e1. split; [exact L1|]. split; [|exact G1].
  rewrite Forall_forall in *. intros e He. split; [apply F1|apply F2]; exact He.
Qed.

(* the temp targets named by the text that f holds in w *)
Definition temp_targets (md : mode) (w : world) (f : path) : list path :=
  map (fun a => lex_normalize (lex_join (parent f) a)) (temp_args (items_of md w f)).

Lemma temp_targets_writes md w f out p :
  remove_txtpp f = Some out -> In p (temp_targets md w f) -> In p (writes_of md w f).
Proof. intros Ho H. unfold writes_of. rewrite Ho. right. right. exact H. Qed.

Section CleanVerify.
Variable orc : oracle.
Variable cfg : config.
Variable base : path.
Let md := cfg_mode cfg.
Let tn := cfg_trailing cfg.

(* a generic lifting: a property of the events of one task, relative to the world in which it is executed, lifts to
   the chain *)
Lemma exec_chain_tr_gen (P : world -> task -> event -> Prop) :
  (forall t w r w', exec_task orc cfg base t w = Some (r, w') -> tr (P w t) w w') ->
  forall w l w', exec_chain orc cfg base w l w' ->
  tr (fun e => exists t r wt, ran_in orc cfg base w l t r wt /\ P wt t e) w w'.
Proof.
  intros HP w l w' H. induction H as [w|w t r w1 rest w' E H IH]; [apply tr_refl|].
  eapply tr_trans.
  - eapply tr_mono; [|apply (HP _ _ _ _ E)]. intros e He.
    exists t, r, w. split; [|exact He]. exists [], rest. split; [reflexivity|constructor].
  - eapply tr_mono; [|exact IH]. intros e (t1 & r1 & wt & Hr & He).
    exists t1, r1, wt. split; [|exact He]. eapply ran_in_cons; eauto.
Qed.

(* clean: one pass only removes, and only on its footprint *)
Lemma clean_pass_tr f b tn' w :
  tr (fun e => exists p, e = ERemove p /\ In p (writes_of Clean w f)) w (out_world (pp_run orc Clean base f b tn' w) w).
Proof.
  assert (H1 : tr (fun e => exists p, e = ERemove p) w (out_world (pp_run orc Clean base f b tn' w) w)).
  { pose proof (pp_run_tr orc Clean base f b tn' w (fun e => exists p, e = ERemove p)) as X.
    destruct (pp_run orc Clean base f b tn' w) as [a|d a|k a|]; cbn [outcome_world out_world] in *; try apply X;
      try apply tr_refl;
      try (intros out e _ He; simpl in He; exists out; exact He);
      intros raw d0 fol e _ _ He; (destruct e as [p|p|c cw g]; simpl in He;
        [destruct He as [He _]; exfalso; apply He; reflexivity|exists p; reflexivity|exfalso; apply He; reflexivity]). }
  pose proof (pass_tr orc (mkCfg (cfg_base cfg) (cfg_inputs cfg) (cfg_recursive cfg) (cfg_threads cfg) Clean tn') base f b w) as H2.
  cbn [cfg_mode cfg_trailing] in H2.
  eapply tr_mono; [|apply (tr_and _ _ _ _ H1 H2)]. intros e [[p ->] He]. exists p. split; [reflexivity|exact He].
Qed.

(* verify: one pass only writes temp targets *)
Lemma verify_pass_tr f b tn' w :
  tr (fun e => forall p, ev_path e = Some p ->
        e = EWrite p /\ In p (temp_targets Verify w f) /\ exists out, remove_txtpp f = Some out)
     w (out_world (pp_run orc Verify base f b tn' w) w).
Proof.
  assert (H1 : tr (fun e => forall p, ev_path e = Some p -> e = EWrite p /\ In p (temp_targets Verify w f))
                  w (out_world (pp_run orc Verify base f b tn' w) w)).
  { pose proof (pp_run_tr orc Verify base f b tn' w
                  (fun e => forall p, ev_path e = Some p -> e = EWrite p /\ In p (temp_targets Verify w f))) as X.
    destruct (pp_run orc Verify base f b tn' w) as [a|d a|k a|]; cbn [outcome_world out_world] in *; try apply X;
      try apply tr_refl;
      try (intros out e _ He; destruct He);
      intros raw d0 fol e ER Hin He p Hp; simpl mode_eqb in Hin;
      (destruct e as [q|q|c cw g]; simpl in He, Hp; [|destruct He as [He _]; discriminate|discriminate]);
      inversion Hp; subst q; destruct He as [_ He]; (split; [reflexivity|]);
      unfold temp_targets, items_of; rewrite ER; simpl mode_eqb; eapply temp_path_in_temp_args; eauto. }
  pose proof (pass_tr orc (mkCfg (cfg_base cfg) (cfg_inputs cfg) (cfg_recursive cfg) (cfg_threads cfg) Verify tn') base f b w) as H2.
  cbn [cfg_mode cfg_trailing] in H2.
  eapply tr_mono; [|apply (tr_and _ _ _ _ H1 H2)]. intros e [He Ha] p Hp. destruct (He p Hp) as [E1 E2].
  split; [exact E1|]. split; [exact E2|]. unfold ev_allowed in Ha. rewrite Hp in Ha.
  apply in_writes_of in Ha. destruct Ha as (out & Ho & _). exists out. exact Ho.
Qed.

Definition clean_ev (w : world) (t : task) (e : event) : Prop :=
  exists p, e = ERemove p /\ In p (task_paths Clean w t).
Definition verify_ev (w : world) (t : task) (e : event) : Prop :=
  forall p, ev_path e = Some p ->
    e = EWrite p /\ exists f b out, t = TPp f b /\ remove_txtpp f = Some out /\ In p (temp_targets Verify w f).

Lemma clean_task_tr : md = Clean ->
  forall t w r w', exec_task orc cfg base t w = Some (r, w') -> tr (clean_ev w t) w w'.
Proof.
  intros Hmd t w r w' H. apply exec_task_world in H. subst w'. fold md. rewrite Hmd.
  destruct t as [d|f b]; [apply tr_refl|]. apply clean_pass_tr.
Qed.
Lemma verify_task_tr : md = Verify ->
  forall t w r w', exec_task orc cfg base t w = Some (r, w') -> tr (verify_ev w t) w w'.
Proof.
  intros Hmd t w r w' H. apply exec_task_world in H. subst w'. fold md. rewrite Hmd.
  destruct t as [d|f b]; [apply tr_refl|].
  eapply tr_mono; [|apply verify_pass_tr]. intros e He p Hp. destruct (He p Hp) as (E1 & E2 & out & Ho).
  split; [exact E1|]. exists f, b, out. auto.
Qed.
End CleanVerify.

(* GOAL 2, clean: every event of a clean run (whatever its verdict) is the removal of a path of the footprint of a
   pass of the trace; nothing is written, no command is run *)
Theorem clean_run_events orc cfg fuel sched w :
  cfg_mode cfg = Clean ->
  let x := txtpp_run orc cfg fuel sched w in
  exists evs, w_log (world_of x) = w_log w ++ evs /\
    Forall (fun e => exists p, e = ERemove p /\
              exists f b r wt, ran_in orc cfg (run_base cfg w) w (trace_of x) (TPp f b) r wt /\
                               In p (writes_of Clean wt f)) evs /\
    (forall p, (forall e, In e evs -> ev_path e <> Some p) ->
       fs_get (w_fs (world_of x)) p = fs_get (w_fs w) p).
Proof.
  intros Hmd. cbv zeta. pose proof (txtpp_run_chain orc cfg fuel sched w) as HC. cbv zeta in HC.
  apply (exec_chain_tr_gen orc cfg _ (clean_ev) (clean_task_tr orc cfg _ Hmd)) in HC.
  destruct HC as (evs & HL & HA & HF). exists evs. split; [exact HL|]. split; [|exact HF].
  eapply Forall_impl; [|exact HA]. intros e (t & r & wt & Hr & p & -> & Hin). exists p. split; [reflexivity|].
  destruct t as [d|f b]; [destruct Hin|]. exists f, b, r, wt. auto.
Qed.

Corollary clean_run_removes_only orc cfg fuel sched w :
  cfg_mode cfg = Clean ->
  let x := txtpp_run orc cfg fuel sched w in
  exists evs, extends w (world_of x) evs /\ Forall (fun e => exists p, e = ERemove p) evs.
Proof.
  intros Hmd. cbv zeta. destruct (clean_run_events orc cfg fuel sched w Hmd) as (evs & HL & HA & _).
  exists evs. split; [exact HL|]. eapply Forall_impl; [|exact HA]. intros e (p & -> & _). exists p. reflexivity.
Qed.

(* GOAL 2, verify: every EWrite/ERemove of a verify run is the write of a temp target named by the text of a
   processed source (in the world in which its pass ran) *)
Theorem verify_run_events orc cfg fuel sched w :
  cfg_mode cfg = Verify ->
  let x := txtpp_run orc cfg fuel sched w in
  exists evs, w_log (world_of x) = w_log w ++ evs /\
    Forall (fun e => forall p, ev_path e = Some p ->
              e = EWrite p /\
              exists f b r out wt, ran_in orc cfg (run_base cfg w) w (trace_of x) (TPp f b) r wt /\
                                   remove_txtpp f = Some out /\ In p (temp_targets Verify wt f)) evs /\
    (forall p, (forall e, In e evs -> ev_path e <> Some p) ->
       fs_get (w_fs (world_of x)) p = fs_get (w_fs w) p).
Proof.
  intros Hmd. cbv zeta. pose proof (txtpp_run_chain orc cfg fuel sched w) as HC. cbv zeta in HC.
  apply (exec_chain_tr_gen orc cfg _ (verify_ev) (verify_task_tr orc cfg _ Hmd)) in HC.
  destruct HC as (evs & HL & HA & HF). exists evs. split; [exact HL|]. split; [|exact HF].
  eapply Forall_impl; [|exact HA]. intros e (t & r & wt & Hr & He) p Hp.
  destruct (He p Hp) as (E1 & f & b & out & -> & Ho & Hin). split; [exact E1|]. exists f, b, r, out, wt. auto.
Qed.

(* ... hence a path that no temp directive of a processed source names receives no event and keeps its node; in
   particular (p := out) the output of a processed source *)
Corollary verify_run_untouched orc cfg fuel sched w p :
  cfg_mode cfg = Verify ->
  let x := txtpp_run orc cfg fuel sched w in
  (forall f b r wt, ran_in orc cfg (run_base cfg w) w (trace_of x) (TPp f b) r wt ->
     ~ In p (temp_targets Verify wt f)) ->
  (forall e, In e (skipn (length (w_log w)) (w_log (world_of x))) -> ev_path e <> Some p) /\
  fs_get (w_fs (world_of x)) p = fs_get (w_fs w) p.
Proof.
  intros Hmd. cbv zeta. intros Hp. destruct (verify_run_events orc cfg fuel sched w Hmd) as (evs & HL & HA & HF).
  assert (G : forall e, In e evs -> ev_path e <> Some p).
  { intros e He Hev. rewrite Forall_forall in HA. destruct (HA e He p Hev) as (_ & f & b & r & out & wt & Hr & _ & Hin).
    apply (Hp f b r wt Hr Hin). }
  split; [|apply HF; exact G]. rewrite HL, skipn_app_exact. exact G.
Qed.

Corollary verify_run_events_not_output orc cfg fuel sched w f0 b0 r0 out :
  cfg_mode cfg = Verify ->
  let x := txtpp_run orc cfg fuel sched w in
  In (TPp f0 b0, r0) (trace_of x) -> remove_txtpp f0 = Some out ->
  (forall f b r wt, ran_in orc cfg (run_base cfg w) w (trace_of x) (TPp f b) r wt ->
     ~ In out (temp_targets Verify wt f)) ->
  (forall e, In e (skipn (length (w_log w)) (w_log (world_of x))) -> ev_path e <> Some out) /\
  fs_get (w_fs (world_of x)) out = fs_get (w_fs w) out.
Proof. intros Hmd x _ _. apply verify_run_untouched. exact Hmd. Qed.

(* ===================================================================================================================
   PART 3 — worlds as sequences of primitive operations (used by GOAL 3 and GOAL 4)
   =================================================================================================================== *)
Lemma run_ops_app w a b : run_ops w (a ++ b) = run_ops (run_ops w a) b.
Proof. unfold run_ops. apply fold_left_app. Qed.
Lemma run_ops_cons w o r : run_ops w (o :: r) = run_ops (apply_op w o) r.
Proof. reflexivity. Qed.

Lemma apply_op_frame w o p : op_target o <> Some p -> fs_get (w_fs (apply_op w o)) p = fs_get (w_fs w) p.
Proof.
  destruct o as [q c|q|e]; cbn; intros H; [| |reflexivity].
  - apply fs_get_put_other_l. intros ->. apply H. reflexivity.
  - apply fs_get_del_other_l. intros ->. apply H. reflexivity.
Qed.
Lemma run_ops_frame ops : forall w p,
  (forall o, In o ops -> op_target o <> Some p) -> fs_get (w_fs (run_ops w ops)) p = fs_get (w_fs w) p.
Proof.
  induction ops as [|o r IH]; intros w p H; [reflexivity|]. rewrite run_ops_cons, IH.
  - apply apply_op_frame. apply H. left. reflexivity.
  - intros o' Ho'. apply H. right. exact Ho'.
Qed.
Lemma apply_op_same_dirs w o : op_ok w o -> same_dirs w (apply_op w o).
Proof.
  destruct w as [f l]. destruct o as [q c|q|e]; unfold op_ok; cbn [op_target apply_op w_fs w_log].
  - apply same_dirs_put.
  - apply same_dirs_del.
  - intros _ p. reflexivity.
Qed.
Lemma run_ops_same_dirs ops : forall w, ops_ok w ops -> same_dirs w (run_ops w ops).
Proof.
  induction ops as [|o r IH]; intros w H p; [reflexivity|]. destruct H as [H1 H2].
  rewrite run_ops_cons, (IH _ H2 p). apply apply_op_same_dirs. exact H1.
Qed.
Lemma ops_ok_firstn k : forall ops w, ops_ok w ops -> ops_ok w (firstn k ops).
Proof.
  induction k as [|k IH]; intros ops w H; [exact I|]. destruct ops as [|o r]; [exact I|].
  destruct H as [H1 H2]. split; [exact H1|apply IH; exact H2].
Qed.
Lemma ops_ok_split a : forall b w, ops_ok w (a ++ b) -> ops_ok w a /\ ops_ok (run_ops w a) b.
Proof.
  induction a as [|o a IH]; intros b w H; [split; [exact I|exact H]|].
  destruct H as [H1 H2]. destruct (IH _ _ H2) as [H3 H4]. split; [split; assumption|exact H4].
Qed.

Lemma by_ops_refl w : by_ops w w.
Proof. exists []. split; [exact I|reflexivity]. Qed.
Lemma by_ops_trans a b c : by_ops a b -> by_ops b c -> by_ops a c.
Proof.
  intros (o1 & K1 & E1) (o2 & K2 & E2). exists (o1 ++ o2). subst b c. split.
  - apply ops_ok_app; assumption.
  - symmetry. apply run_ops_app.
Qed.

Lemma exec_task_by_ops orc cfg base t w r w' : exec_task orc cfg base t w = Some (r, w') -> by_ops w w'.
Proof.
  intros H. apply exec_task_world in H. subst w'. destruct t as [d|f b]; [apply by_ops_refl|apply pp_run_by_ops].
Qed.
Lemma exec_chain_by_ops orc cfg base w l w' : exec_chain orc cfg base w l w' -> by_ops w w'.
Proof.
  intros H. induction H as [w|w t r w1 rest w' E H IH]; [apply by_ops_refl|].
  eapply by_ops_trans; [eapply exec_task_by_ops; exact E|exact IH].
Qed.

(* the world of a run is the initial world after a sequence of legal puts and deletes of files *)
Theorem txtpp_run_by_ops orc cfg fuel sched w : by_ops w (world_of (txtpp_run orc cfg fuel sched w)).
Proof. eapply exec_chain_by_ops. apply txtpp_run_chain. Qed.

(* a world reached by puts/deletes on the paths of D, none of which has a `.txtpp` name, from a duplicate-free
   tree is `stale_rel D`-related to it: same nodes outside D, same directories, same scan part, no duplicates *)
Lemma disturbed_stale_rel D w wk :
  raw_ok w -> by_ops w wk ->
  (forall p, In p D -> is_txtpp_file p = false) ->
  (forall e q, In e (skipn (length (w_log w)) (w_log wk)) -> ev_path e = Some q -> In q D) ->
  stale_rel D w wk.
Proof.
  intros ND (ops & Hok & ->) HD Hev.
  rewrite run_ops_log, skipn_app_exact in Hev.
  assert (Ht : forall o q, In o ops -> op_target o = Some q -> In q D).
  { intros o q Ho Hq. apply (Hev (op_event o) q); [apply in_map; exact Ho|].
    destruct o as [q' c|q'|e]; cbn in *; congruence. }
  destruct (run_ops_scan ops w ND Hok (fun o q Ho Hq => HD q (Ht o q Ho Hq))) as [ND' HS].
  split; [|exact ND|exact ND'|symmetry; exact HS]. split.
  - intros p Hp. apply in_paths_false in Hp. symmetry. apply run_ops_frame.
    intros o Ho Hq. apply Hp. apply (Ht o p Ho Hq).
  - intros p. symmetry. apply (run_ops_same_dirs ops w Hok p).
Qed.

(* ===================================================================================================================
   PART 4 — GOAL 3 (C08, crash clause): a build interrupted between two tasks
   =================================================================================================================== *)
(* Interruption = running out of fuel.  First: this is faithful — the run with fuel k that stops with VFuel is exactly
   the state (coordinator state, world, trace) of every longer run after its first k completed tasks. *)
Lemma skipn_tl {A} k (l : list A) : skipn (S k) l = skipn k (tl l).
Proof. destruct l; [destruct k; reflexivity|reflexivity]. Qed.

Lemma run_loop_resume orc cfg base k : forall j sched s w tr,
  let x := run_loop orc cfg base k sched s w tr in
  verdict_of x = VFuel ->
  run_loop orc cfg base (k + j) sched s w tr =
  run_loop orc cfg base j (skipn k sched) (state_of x) (world_of x) (trace_of x).
Proof.
  induction k as [|k IH]; intros j sched s w tr; cbv zeta.
  - destruct (sort_tasks (inflight s)) as [|t0 sl'] eqn:E.
    + rewrite (run_loop_exit _ _ _ _ _ _ _ _ E). cbn. destruct (has_remaining (dm s)); discriminate.
    + rewrite (run_loop_nofuel _ _ _ _ _ _ _ _ _ E). reflexivity.
  - destruct (sort_tasks (inflight s)) as [|t0 sl'] eqn:E.
    + rewrite (run_loop_exit _ _ _ _ _ _ _ _ E). cbn. destruct (has_remaining (dm s)); discriminate.
    + change (S k + j)%nat with (S (k + j)). rewrite !(run_loop_step _ _ _ _ _ _ _ _ _ _ E). cbv zeta.
      destruct (exec_task orc cfg base _ w) as [[r w1]|]; [|discriminate].
      destruct (handle _ r) as [s2| |].
      * rewrite skipn_tl. apply IH.
      * destruct (drain _ _ _ _ _ _ _ _) as [[w2 tr2]|]; discriminate.
      * discriminate.
Qed.

Theorem interrupted_run_resumes orc cfg k j sched w :
  let x := txtpp_run orc cfg k sched w in
  verdict_of x = VFuel ->
  txtpp_run orc cfg (k + j) sched w =
  run_loop orc cfg (run_base cfg w) j (skipn k sched) (state_of x) (world_of x) (trace_of x).
Proof.
  unfold txtpp_run, run_base.
  destruct (cfg_threads cfg =? 0); [discriminate|].
  destruct (os_resolve (w_fs w) (cfg_base cfg)) as [base|]; [|discriminate].
  destruct (resolve_inputs (w_fs w) base (cfg_inputs cfg) [] []) as [[files dirs]|]; [|discriminate].
  apply run_loop_resume.
Qed.

(* C08, crash clause, first half.  The world reached after any number k of completed tasks (any schedule, any mode)
   agrees with the initial world on every path that is not in the footprint of a pass that was executed ... *)
Theorem interrupted_frame orc cfg k sched w p :
  let x := txtpp_run orc cfg k sched w in
  (forall f b r wt, ran_in orc cfg (run_base cfg w) w (trace_of x) (TPp f b) r wt ->
     ~ In p (writes_of (cfg_mode cfg) wt f)) ->
  fs_get (w_fs (world_of x)) p = fs_get (w_fs w) p.
Proof. apply run_frame. Qed.

(* ... and, when no footprint contains a `.txtpp` name: every `.txtpp` path — every source — is intact, and so is
   every path outside the footprints computed in the INITIAL world (plain files that are included, unrelated files) *)
Theorem interrupted_sources_intact orc cfg k sched w :
  let x := txtpp_run orc cfg k sched w in
  footprints_plain cfg w (trace_of x) ->
  (forall q, is_txtpp_file q = true -> fs_get (w_fs (world_of x)) q = fs_get (w_fs w) q) /\
  (forall p, (forall f b r, In (TPp f b, r) (trace_of x) -> ~ In p (writes_of (cfg_mode cfg) w f)) ->
     fs_get (w_fs (world_of x)) p = fs_get (w_fs w) p).
Proof.
  cbv zeta. intros HP. split.
  - apply (run_events_allowed_initial orc cfg k sched w HP).
  - intros p Hp. apply (run_frame_initial orc cfg k sched w p HP Hp).
Qed.

(* the interrupted world is `stale_rel D`-related to the initial world, for every set D of non-`.txtpp` paths that
   contains the disturbed paths (the paths of the events logged by the interrupted run) *)
Theorem interrupted_stale_rel orc cfg k sched w D :
  let wk := world_of (txtpp_run orc cfg k sched w) in
  raw_ok w ->
  (forall p, In p D -> is_txtpp_file p = false) ->
  (forall e q, In e (skipn (length (w_log w)) (w_log wk)) -> ev_path e = Some q -> In q D) ->
  stale_rel D w wk.
Proof. cbv zeta. intros ND HD Hev. apply disturbed_stale_rel; try assumption. apply txtpp_run_by_ops. Qed.

(* C08, crash clause, second half: rebuilding from the interrupted world gives the same verdict, trace and final
   coordinator state as building from the initial world, and final worlds that differ at most on the disturbed paths
   that were not rewritten — under the static condition of ConfluenceFacts.stale_outputs_irrelevant_static on the
   initial tree (every pass probes no disturbed path except its own output: the disturbed paths are outputs that nobody
   includes) ... *)
Theorem interrupted_then_rebuild orc0 cfg0 k sched0 orc cfg fuel sched w D :
  let wk := world_of (txtpp_run orc0 cfg0 k sched0 w) in
  cfg_mode cfg = Build ->
  raw_ok w ->
  (forall e q, In e (skipn (length (w_log w)) (w_log wk)) -> ev_path e = Some q -> In q D) ->
  ~ In (lex_normalize (cfg_base cfg)) D ->
  Forall (input_safe D (lex_normalize (cfg_base cfg))) (cfg_inputs cfg) ->
  static_ok D w ->
  let x1 := txtpp_run orc cfg fuel sched w in
  let x2 := txtpp_run orc cfg fuel sched wk in
  verdict_of x1 = verdict_of x2 /\ trace_of x1 = trace_of x2 /\ state_of x1 = state_of x2 /\
  stale_rel (stale_after D (trace_of x1)) (world_of x1) (world_of x2).
Proof.
  cbv zeta. intros Hmd ND Hev Hb Hin HS.
  apply stale_outputs_irrelevant_static; try assumption.
  apply interrupted_stale_rel; try assumption. apply HS.
Qed.

(* ... or under the weaker static condition of ScheduleFacts.stale_outputs_irrelevant_deps, which allows a source to
   include the (disturbed) output of another source *)
Theorem interrupted_then_rebuild_deps orc0 cfg0 k sched0 orc cfg fuel sched w D :
  let wk := world_of (txtpp_run orc0 cfg0 k sched0 w) in
  cfg_mode cfg = Build ->
  raw_ok w ->
  (forall e q, In e (skipn (length (w_log w)) (w_log wk)) -> ev_path e = Some q -> In q D) ->
  ~ In (lex_normalize (cfg_base cfg)) D ->
  Forall (input_safe D (lex_normalize (cfg_base cfg))) (cfg_inputs cfg) ->
  static_ok_deps D w ->
  let x1 := txtpp_run orc cfg fuel sched w in
  let x2 := txtpp_run orc cfg fuel sched wk in
  verdict_of x1 = verdict_of x2 /\ trace_of x1 = trace_of x2 /\ state_of x1 = state_of x2 /\
  stale_rel (stale_after D (trace_of x1)) (world_of x1) (world_of x2).
Proof.
  cbv zeta. intros Hmd ND Hev Hb Hin HS.
  apply stale_outputs_irrelevant_deps; try assumption.
  apply interrupted_stale_rel; try assumption. apply HS.
Qed.

(* ===================================================================================================================
   PART 5 — GOAL 4: interruption INSIDE a pass
   =================================================================================================================== *)
(* A pass is a sequence `ops` of legal primitive operations (put a file / delete a file / log a command) applied one
   after the other.  The world after any prefix of them: its log is the corresponding prefix of the pass's log, it
   has the same directories as the world before the pass and differs from it only on the pass's footprint. *)
Theorem pass_prefix_only_touches_footprint orc md base f b tn w :
  exists ops, ops_ok w ops /\ out_world (pp_run orc md base f b tn w) w = run_ops w ops /\
    forall k, let wk := run_ops w (firstn k ops) in
      ops_ok w (firstn k ops) /\
      w_log wk = w_log w ++ firstn k (map op_event ops) /\
      (forall p, ~ In p (writes_of md w f) -> fs_get (w_fs wk) p = fs_get (w_fs w) p) /\
      (forall p, is_dir (w_fs wk) p = is_dir (w_fs w) p).
Proof.
  destruct (pp_run_ops_footprint orc md base f b tn w) as (ops & Hok & Hrun & Hfp).
  exists ops. split; [exact Hok|]. split; [exact Hrun|]. intros k. cbv zeta.
  pose proof (ops_ok_firstn k ops w Hok) as Hk. split; [exact Hk|]. split; [|split].
  - rewrite run_ops_log, firstn_map. reflexivity.
  - intros p Hp. apply run_ops_frame. intros o Ho Hq. apply Hp. apply (Hfp o p); [|exact Hq].
    rewrite <- (firstn_skipn k ops). apply in_or_app. left. exact Ho.
  - intros p. apply (run_ops_same_dirs _ w Hk p).
Qed.

Section InsidePass.
Variable orc : oracle.
Variable cfg : config.
Variable base : path.
Let md := cfg_mode cfg.
Let tn := cfg_trailing cfg.

Lemma exec_chain_frame w l w' p :
  exec_chain orc cfg base w l w' ->
  (forall f b r wt, ran_in orc cfg base w l (TPp f b) r wt -> ~ In p (writes_of md wt f)) ->
  fs_get (w_fs w') p = fs_get (w_fs w) p.
Proof.
  intros HC Hp. apply exec_chain_tr in HC. destruct HC as (evs & _ & HA & HF). apply HF.
  intros e He Hev. rewrite Forall_forall in HA. destruct (HA e He p Hev) as (t & r & wt & Hr & Hin).
  destruct t as [d|f b]; [destruct Hin|]. apply (Hp f b r wt Hr Hin).
Qed.

(* the tasks `pre` have been completed, the pass (f, b) is interrupted after k of its operations: the world differs
   from the initial world only on the footprints of the completed passes and of the interrupted one *)
Theorem interrupted_inside_pass w pre wt f b :
  exec_chain orc cfg base w pre wt ->
  exists ops, ops_ok wt ops /\ out_world (pp_run orc md base f b tn wt) wt = run_ops wt ops /\
    forall k p,
      (forall f' b' r' wt', ran_in orc cfg base w pre (TPp f' b') r' wt' -> ~ In p (writes_of md wt' f')) ->
      ~ In p (writes_of md wt f) ->
      fs_get (w_fs (run_ops wt (firstn k ops))) p = fs_get (w_fs w) p.
Proof.
  intros HC. destruct (pass_prefix_only_touches_footprint orc md base f b tn wt) as (ops & Hok & Hrun & Hk).
  exists ops. split; [exact Hok|]. split; [exact Hrun|]. intros k p Hpre Hp.
  destruct (Hk k) as (_ & _ & Hfr & _). rewrite (Hfr p Hp). apply (exec_chain_frame _ _ _ _ HC Hpre).
Qed.

(* with footprints free of `.txtpp` names (those of the completed passes and of the interrupted one, in the initial
   world): every `.txtpp` path is intact at every point inside the pass *)
Theorem interrupted_inside_pass_sources w pre wt f b r0 :
  exec_chain orc cfg base w pre wt ->
  footprints_plain cfg w (pre ++ [(TPp f b, r0)]) ->
  exists ops, ops_ok wt ops /\ out_world (pp_run orc md base f b tn wt) wt = run_ops wt ops /\
    forall k q, is_txtpp_file q = true -> fs_get (w_fs (run_ops wt (firstn k ops))) q = fs_get (w_fs w) q.
Proof.
  intros HC HP. destruct (pass_prefix_only_touches_footprint orc md base f b tn wt) as (ops & Hok & Hrun & Hk).
  exists ops. split; [exact Hok|]. split; [exact Hrun|]. intros k q Hq.
  assert (HP1 : footprints_plain cfg w pre).
  { intros f' b' r' Hin. apply (HP f' b' r'). apply in_or_app. left. exact Hin. }
  destruct (exec_chain_tr_initial orc cfg base w w pre wt HC (fun q _ => eq_refl) HP1) as [HS _].
  destruct (Hk k) as (_ & _ & Hfr & _). rewrite Hfr; [apply HS; exact Hq|].
  unfold md. rewrite (txtpp_same_writes cfg w wt f HS). intros Hin.
  assert (Hl : In (TPp f b, r0) (pre ++ [(TPp f b, r0)])) by (apply in_or_app; right; left; reflexivity).
  rewrite (HP f b r0 Hl q Hin) in Hq. discriminate.
Qed.
End InsidePass.

(* ===================================================================================================================
   PART 6 — non-vacuity: concrete runs (vm_compute)
   The tree: d/ , d/a.txtpp = "-- TXTPP#temp t\n-- hello\nh\n" , d/b.txtpp = "TXTPP#include nope\n" (fails in a build)
   =================================================================================================================== *)
Open Scope N_scope.
Definition re_a : str := [97; 46; 116; 120; 116; 112; 112].
Definition re_b : str := [98; 46; 116; 120; 116; 112; 112].
Definition re_raw_a : str :=
  [45;45;32] ++ c_txtpp_hash ++ [116;101;109;112;32;116;10] ++ [45;45;32;104;101;108;108;111;10] ++ [104;10].
Definition re_raw_b : str := c_txtpp_hash ++ [105;110;99;108;117;100;101;32;110;111;112;101;10].
Definition re_fs : fs := [([[100]], Dir); ([[100]; re_a], File re_raw_a); ([[100]; re_b], File re_raw_b)].
Definition re_w : world := mkW re_fs [].
Definition re_orc : oracle := fun _ _ _ => None.
Definition re_cfg (md : mode) : config := mkCfg [] [[100]] true 1 md false.
Definition re_da : path := [[100]; [97]].
Definition re_db : path := [[100]; [98]].
Definition re_dt : path := [[100]; [116]].

(* GOAL 1: a build in which b.txtpp fails first; a.txtpp, still in flight, is drained and is in the trace.  The
   hypothesis of the initial-world version holds, the events are exactly on d/b, d/a, d/t, and the sources are intact *)
Example run_events_example :
  let x := txtpp_run re_orc (re_cfg Build) 10 [0;1;0]%nat re_w in
  verdict_of x = VErr /\
  trace_of x = [(TScan [[100]], RScan (Some ([[[100]; re_a]; [[100]; re_b]], [])));
                (TPp [[100]; re_b] true, RPp [[100]; re_b] None);
                (TPp [[100]; re_a] true, RPp [[100]; re_a] (Some POk))] /\
  footprints_plain (re_cfg Build) re_w (trace_of x) /\
  w_log (world_of x) = [EWrite re_db; EWrite re_da; EWrite re_dt; EWrite re_dt; EWrite re_da] /\
  writes_of Build re_w [[100]; re_a] = [re_da; re_da; re_dt] /\
  writes_of Build re_w [[100]; re_b] = [re_db; re_db] /\
  fs_get (w_fs (world_of x)) [[100]; re_a] = Some (File re_raw_a).
Proof.
  cbv zeta. split; [vm_compute; reflexivity|]. split; [vm_compute; reflexivity|]. split.
  - intros f b r Hin q Hq.
    assert (Hf : f = [[100]; re_a] \/ f = [[100]; re_b]).
    { vm_compute in Hin. destruct Hin as [H|[H|[H|[]]]]; inversion H; auto. }
    destruct Hf as [-> | ->]; vm_compute in Hq.
    + destruct Hq as [<-|[<-|[<-|[]]]]; vm_compute; reflexivity.
    + destruct Hq as [<-|[<-|[]]]; vm_compute; reflexivity.
  - repeat split; vm_compute; reflexivity.
Qed.

(* GOAL 2, clean: cleaning the built tree logs removals only *)
Definition re_built : world := mkW (w_fs (world_of (txtpp_run re_orc (re_cfg Build) 10 [0;1;0]%nat re_w))) [].
Example clean_run_example :
  let x := txtpp_run re_orc (re_cfg Clean) 10 [0;1;0]%nat re_built in
  verdict_of x = VOk /\ w_log (world_of x) = [ERemove re_db; ERemove re_da; ERemove re_dt].
Proof. split; vm_compute; reflexivity. Qed.

(* GOAL 2, verify: the built tree without d/t; verify recreates the temp file d/t and logs nothing else; d/a, the
   output of a processed source, is named by no temp directive and is untouched *)
Definition re_not : world := mkW (fs_del (w_fs re_built) re_dt) [].
Example verify_run_example :
  let x := txtpp_run re_orc (re_cfg Verify) 10 [0;0;0]%nat re_not in
  In (TPp [[100]; re_a] true, RPp [[100]; re_a] (Some POk)) (trace_of x) /\
  w_log (world_of x) = [EWrite re_dt; EWrite re_dt] /\
  temp_targets Verify re_not [[100]; re_a] = [re_dt] /\ temp_targets Verify re_not [[100]; re_b] = [] /\
  fs_get (w_fs (world_of x)) re_da = fs_get (w_fs re_not) re_da.
Proof. cbv zeta. split; [vm_compute; auto|]. repeat split; vm_compute; reflexivity. Qed.

(* GOAL 3: d/a.txtpp = "hi\n", d/b.txtpp = "yo\n"; the build is interrupted after two tasks (the scan and the pass of
   a.txtpp): verdict VFuel, d/a has been written; all the hypotheses of `interrupted_then_rebuild` hold with D = [d/a];
   the rebuild (with another schedule) ends with VOk and the same tree as a build of the initial tree *)
Definition re2_fs : fs := [([[100]], Dir); ([[100]; re_a], File [104;105;10]); ([[100]; re_b], File [121;111;10])].
Definition re2_w : world := mkW re2_fs [].

Lemma re2_static : static_ok [re_da] re2_w.
Proof.
  split.
  - intros p [<-|[]]. vm_compute. reflexivity.
  - intros f out raw Ho Er.
    assert (Ef : f = [[100]; re_a] \/ f = [[100]; re_b]).
    { unfold read_file, re2_w, re2_fs in Er. cbn [w_fs] in Er.
      destruct f as [|x f']; [cbn in Er; discriminate|]. cbn [fs_get] in Er.
      destruct (path_eqb [[100]] (x :: f')) eqn:E1; [discriminate|].
      destruct (path_eqb [[100]; re_a] (x :: f')) eqn:E2; [apply path_eqb_eq in E2; left; symmetry; exact E2|].
      destruct (path_eqb [[100]; re_b] (x :: f')) eqn:E3; [apply path_eqb_eq in E3; right; symmetry; exact E3|].
      discriminate. }
    destruct Ef as [-> | ->]; vm_compute in Ho; inversion Ho; subst out; (split; [|split]).
    + repeat constructor.
    + intros first p Hp. vm_compute in Hp. destruct Hp.
    + intros q Hq. vm_compute in Hq. destruct Hq as [<-|[<-|[]]]; vm_compute; reflexivity.
    + repeat constructor.
    + intros first p Hp. vm_compute in Hp. destruct Hp.
    + intros q Hq. vm_compute in Hq. destruct Hq as [<-|[<-|[]]]; vm_compute; reflexivity.
Qed.

Example interrupted_then_rebuild_example :
  let xk := txtpp_run re_orc (re_cfg Build) 2 [0;0;0]%nat re2_w in
  let x1 := txtpp_run re_orc (re_cfg Build) 10 [0;1;0]%nat re2_w in
  let x2 := txtpp_run re_orc (re_cfg Build) 10 [0;1;0]%nat (world_of xk) in
  verdict_of xk = VFuel /\ w_log (world_of xk) = [EWrite re_da; EWrite re_da] /\
  fs_get (w_fs (world_of xk)) re_da = Some (File [104;105]) /\
  verdict_of x1 = VOk /\ verdict_of x2 = VOk /\ trace_of x1 = trace_of x2 /\
  stale_after [re_da] (trace_of x1) = [] /\ w_eq (world_of x1) (world_of x2).
Proof.
  cbv zeta.
  assert (Hev : forall e q, In e (skipn (length (w_log re2_w))
                                    (w_log (world_of (txtpp_run re_orc (re_cfg Build) 2 [0;0;0]%nat re2_w)))) ->
                            ev_path e = Some q -> In q [re_da]).
  { intros e q He Hq. vm_compute in He. destruct He as [<-|[<-|[]]]; inversion Hq; left; reflexivity. }
  assert (ND : raw_ok re2_w) by (unfold raw_ok; cbn; repeat constructor; cbn; intuition discriminate).
  assert (Hb : ~ In (lex_normalize (cfg_base (re_cfg Build))) [re_da]) by (vm_compute; intuition discriminate).
  assert (Hi : Forall (input_safe [re_da] (lex_normalize (cfg_base (re_cfg Build)))) (cfg_inputs (re_cfg Build))).
  { constructor; [|constructor]. split; [vm_compute; intuition discriminate|].
    intros c Hc. vm_compute in Hc. destruct Hc as [<-|[]]. vm_compute. intuition discriminate. }
  destruct (interrupted_then_rebuild re_orc (re_cfg Build) 2 [0;0;0]%nat re_orc (re_cfg Build) 10 [0;1;0]%nat re2_w [re_da]
              eq_refl ND Hev Hb Hi re2_static) as (Hv & Ht & _ & HR).
  assert (E1 : verdict_of (txtpp_run re_orc (re_cfg Build) 10 [0;1;0]%nat re2_w) = VOk) by (vm_compute; reflexivity).
  assert (Es : stale_after [re_da] (trace_of (txtpp_run re_orc (re_cfg Build) 10 [0;1;0]%nat re2_w)) = [])
    by (vm_compute; reflexivity).
  split; [vm_compute; reflexivity|]. split; [vm_compute; reflexivity|]. split; [vm_compute; reflexivity|].
  split; [exact E1|]. split; [rewrite <- Hv; exact E1|]. split; [exact Ht|]. split; [exact Es|].
  rewrite Es in HR. apply wR_noX. destruct (sr_agree _ _ _ HR) as [A B]. split; [|exact B].
  intros p _. apply A. reflexivity.
Qed.

(* the interrupted run is the beginning of the full run *)
Example interrupted_run_resumes_example :
  let xk := txtpp_run re_orc (re_cfg Build) 2 [0;0;0]%nat re2_w in
  verdict_of xk = VFuel /\
  txtpp_run re_orc (re_cfg Build) (2 + 8) [0;0;0]%nat re2_w =
  run_loop re_orc (re_cfg Build) (run_base (re_cfg Build) re2_w) 8 [0]%nat (state_of xk) (world_of xk) (trace_of xk).
Proof.
  cbv zeta. split; [vm_compute; reflexivity|].
  apply (interrupted_run_resumes re_orc (re_cfg Build) 2 8 [0;0;0]%nat re2_w). vm_compute. reflexivity.
Qed.

(* GOAL 4: the final pass of d/a.txtpp in the tree re_w is the four operations below; after two of them (output
   created empty, temp file created empty) the world differs from re_w on d/a and d/t only *)
Example pass_prefix_example :
  let ops := [OPut re_da []; OPut re_dt []; OPut re_dt [104;101;108;108;111]; OPut re_da [104]] in
  ops_ok re_w ops /\
  out_world (pp_run re_orc Build [] [[100]; re_a] false false re_w) re_w = run_ops re_w ops /\
  w_fs (run_ops re_w (firstn 2 ops)) = (re_dt, File []) :: (re_da, File []) :: re_fs.
Proof. cbv zeta. split; [vm_compute; auto|]. split; vm_compute; reflexivity. Qed.

(* ===================================================================================================================
   PART 7 — GOAL 1, second version WITHOUT the hypothesis `footprints_plain`, on legal trees: the model refuses `.txtpp`
   outputs and `.txtpp` temp targets, hence NO event is on a `.txtpp` path and the sources are never written
   =================================================================================================================== *)
(* an event that is not on a `.txtpp` path *)
Definition plain_ev (e : event) : Prop := forall p, ev_path e = Some p -> is_txtpp_file p = false.

(* ---- 7a: a temp target that passes the check of exec_temp and is actually written or removed is not a `.txtpp`
   path; when the argument has no component at all the target is the directory of the source (or the root), and
   nothing happens ---- *)
Lemma lex_join_plain cwd a :
  lex_components a <> [] -> is_txtpp_file (lex_join cwd a) = is_txtpp_file (lex_components a).
Proof.
  intros H. unfold lex_join. destruct (is_absolute a); [reflexivity|]. apply is_txtpp_app. exact H.
Qed.

Lemma resolved_file_plain F cwd a q :
  lex_components a <> [] -> is_txtpp_file (lex_components a) = false ->
  os_resolve F (lex_join cwd a) = Some q -> (exists c, fs_get F q = Some (File c)) ->
  is_txtpp_file q = false.
Proof.
  intros Hne Ht R [c G].
  assert (Hf : is_file F q = true) by (unfold is_file; rewrite G; reflexivity).
  destruct (resolved_file_shape _ _ _ R Hf) as (x & d & n & Ex & -> & _).
  rewrite (is_txtpp_last d x n), <- Ex, lex_join_plain by exact Hne. exact Ht.
Qed.

Lemma write_target_plain F cwd a q :
  lex_components a <> [] -> is_txtpp_file (lex_components a) = false ->
  write_target F (lex_join cwd a) = Some q -> is_txtpp_file q = false.
Proof.
  intros Hne Ht T. destruct (write_target_last _ _ _ T) as (x & d & n & Ex & -> & _).
  rewrite (is_txtpp_last d x n), <- Ex, lex_join_plain by exact Hne. exact Ht.
Qed.

Lemma plain_ev_on q e : is_txtpp_file q = false -> (e = EWrite q \/ e = ERemove q) -> plain_ev e.
Proof. intros Hq [-> | ->] p Hev; cbn in Hev; inversion Hev; subst p; exact Hq. Qed.

(* the argument has components *)
Lemma exec_temp_comps src le a rest cl w w' :
  lex_components a <> [] ->
  exec_temp src le (a :: rest) cl w = inl w' -> tr plain_ev w w'.
Proof.
  intros Hne. unfold exec_temp.
  destruct (is_txtpp_file (lex_components a)) eqn:Et; [discriminate|].
  destruct cl.
  - unfold remove_temp. destruct (os_resolve (w_fs w) (lex_join (work_dir src) a)) as [q|] eqn:R.
    + destruct (w_remove_file w q) as [w1|] eqn:E; [|discriminate]. intros H. inversion H; subst w1.
      assert (Hq : is_txtpp_file q = false).
      { apply (resolved_file_plain _ _ _ _ Hne Et R). unfold w_remove_file in E.
        destruct (fs_get (w_fs w) q) as [[c|]|]; try discriminate. exists c. reflexivity. }
      eapply tr_mono; [|apply (w_remove_tr _ _ _ E)]. intros e ->. apply (plain_ev_on q _ Hq). right. reflexivity.
    + intros H. inversion H; subst. apply tr_refl.
  - unfold write_temp. destruct (os_resolve (w_fs w) (lex_join (work_dir src) a)) as [q|] eqn:R.
    + destruct (fs_get (w_fs w) q) as [[c|]|] eqn:Gq; try discriminate.
      destruct (str_eqb c _); [intros H; inversion H; subst; apply tr_refl|].
      destruct (w_write w q _) as [w1|] eqn:E; [|discriminate]. intros H. inversion H; subst w1.
      assert (Hq : is_txtpp_file q = false).
      { apply (resolved_file_plain _ _ _ _ Hne Et R). exists c. exact Gq. }
      eapply tr_mono; [|apply (w_write_tr _ _ _ _ E)]. intros e He. apply wr_ev_normalize in He.
      apply os_resolve_normalize in R. rewrite R, lex_normalize_idem, <- R in He.
      apply (plain_ev_on q _ Hq). left. exact He.
    + destruct (w_write w (lex_join (work_dir src) a) []) as [w1|] eqn:E1; [|discriminate].
      assert (Hq : is_txtpp_file (lex_normalize (lex_join (work_dir src) a)) = false).
      { unfold w_write in E1. destruct (write_target (w_fs w) (lex_join (work_dir src) a)) as [q|] eqn:T; [|discriminate].
        rewrite <- (write_target_normalize _ _ _ T). apply (write_target_plain _ _ _ _ Hne Et T). }
      assert (T1 : tr plain_ev w w1).
      { eapply tr_mono; [|apply (w_write_tr _ _ _ _ E1)]. intros e He. apply wr_ev_normalize in He.
        apply (plain_ev_on _ _ Hq). left. exact He. }
      destruct (format_output le [] rest false) as [|b0 c'].
      * intros H. inversion H; subst. exact T1.
      * destruct (w_write w1 (lex_join (work_dir src) a) (b0 :: c')) as [w2|] eqn:E2; [|discriminate].
        intros H. inversion H; subst w2. eapply tr_trans; [exact T1|].
        eapply tr_mono; [|apply (w_write_tr _ _ _ _ E2)]. intros e He. apply wr_ev_normalize in He.
        apply (plain_ev_on _ _ Hq). left. exact He.
Qed.

(* the argument has no component: the target is a directory, nothing is written or removed *)
Lemma exec_temp_nocomp src le a rest cl w w' :
  lex_components a = [] -> is_dir (w_fs w) (lex_normalize (parent src)) = true ->
  exec_temp src le (a :: rest) cl w = inl w' -> w' = w.
Proof.
  intros Ec Hd. unfold exec_temp. rewrite Ec. change (is_txtpp_file []) with false. cbv iota.
  assert (Hp : is_dir (w_fs w) (lex_normalize (lex_join (work_dir src) a)) = true).
  { unfold lex_join. rewrite Ec. destruct (is_absolute a); [apply is_dir_nil|]. rewrite app_nil_r. exact Hd. }
  destruct cl.
  - unfold remove_temp. destruct (os_resolve (w_fs w) (lex_join (work_dir src) a)) as [q|] eqn:R.
    + apply os_resolve_normalize in R. subst q. unfold w_remove_file. rewrite (is_dir_get _ _ Hp). discriminate.
    + intros H. inversion H. reflexivity.
  - unfold write_temp. destruct (os_resolve (w_fs w) (lex_join (work_dir src) a)) as [q|] eqn:R.
    + apply os_resolve_normalize in R. subst q. rewrite (is_dir_get _ _ Hp). discriminate.
    + unfold w_write. destruct (write_target (w_fs w) (lex_join (work_dir src) a)) as [q|] eqn:T; [|discriminate].
      exfalso. pose proof (write_target_not_dir _ _ _ T) as Hn. rewrite (write_target_normalize _ _ _ T) in Hn. congruence.
Qed.

Lemma exec_temp_plain src le args cl w w' :
  is_dir (w_fs w) (lex_normalize (parent src)) = true ->
  exec_temp src le args cl w = inl w' -> tr plain_ev w w'.
Proof.
  intros Hd H. destruct args as [|a rest]; [discriminate|].
  destruct (lex_components a) as [|c0 cs] eqn:Ec.
  - rewrite (exec_temp_nocomp _ _ _ _ _ _ _ Ec Hd H). apply tr_refl.
  - apply (exec_temp_comps _ _ _ _ _ _ _ (fun E => ltac:(rewrite Ec in E; discriminate)) H).
Qed.

(* ---- 7b: the events of one directive, when the directory of the source is a directory of the current world ---- *)
Lemma exec_directive_plain orc md src base le d s :
  is_dir (w_fs (wld s)) (lex_normalize (parent src)) = true ->
  match exec_directive orc md src base le d s with
  | XOut o s' => tr plain_ev (wld s) (wld s')
  | XErr k w => tr plain_ev (wld s) w
  end.
Proof.
  intros Hdir.
  assert (Hclean : md = Clean \/ (md <> Clean /\
            exec_directive orc md src base le d s = exec_directive orc Build src base le d s)).
  { destruct md; auto; right; split; try discriminate; reflexivity. }
  destruct Hclean as [->|[Hnc ->]].
  - unfold exec_directive. destruct (d_ty d) eqn:Ety; try apply tr_refl.
    destruct (exec_temp src le (d_args d) true (wld s)) as [w'|k] eqn:ET; [|apply tr_refl].
    simpl. apply (exec_temp_plain _ _ _ _ _ _ Hdir ET).
  - unfold exec_directive.
    destruct (collect_deps src d s) as [[s1|s1]|k] eqn:EC; [| |apply tr_refl];
      apply collect_deps_inv in EC; simpl in EC; destruct EC as (A & B & C).
    + rewrite A. apply tr_refl.
    + destruct (d_ty d) eqn:Ety.
      * rewrite A. apply tr_refl.
      * destruct (os_resolve (w_fs (wld s1)) (lex_join (work_dir src) (hd [] (d_args d)))) as [q|];
          [|rewrite A; apply tr_refl].
        destruct (read_file (w_fs (wld s1)) q) as [c|]; [|rewrite A; apply tr_refl].
        destruct (utf8_valid c); rewrite A; apply tr_refl.
      * rewrite A. apply tr_refl.
      * assert (T : tr plain_ev (wld s)
                  (w_emit (wld s1) (ERun (join [SPb] (d_args d)) (work_dir src) (input_display src base)))).
        { rewrite A. apply w_emit_tr; [reflexivity|]. intros p Hp. discriminate Hp. }
        destruct (orc (join [SPb] (d_args d)) (work_dir src) (input_display src base)); exact T.
      * destruct (create (tg s1) (hd [] (d_args d))); simpl; rewrite A; apply tr_refl.
      * destruct (exec_temp src le (d_args d) false (wld s1)) as [w'|k] eqn:ET;
          [|rewrite A; apply tr_refl].
        simpl. rewrite <- A. rewrite <- A in Hdir. apply (exec_temp_plain _ _ _ _ _ _ Hdir ET).
      * rewrite A. apply tr_refl.
Qed.

Definition dir_ev2 (md : mode) (src : path) (d : directive) (e : event) : Prop :=
  dir_ev md src d e /\ plain_ev e.

Lemma exec_directive_tr2 orc md src base le (P : event -> Prop) d s :
  is_dir (w_fs (wld s)) (lex_normalize (parent src)) = true ->
  (forall e, dir_ev2 md src d e -> P e) ->
  match exec_directive orc md src base le d s with
  | XOut o s' => tr P (wld s) (wld s') /\ snk s' = snk s /\ cur s' = cur s
  | XErr k w => tr P (wld s) w
  end.
Proof.
  intros Hdir HP.
  pose proof (exec_directive_tr orc md src base le (dir_ev md src d) d s (fun e H => H)) as X.
  pose proof (exec_directive_plain orc md src base le d s Hdir) as Y.
  destruct (exec_directive orc md src base le d s) as [o s'|k w].
  - destruct X as (T & S & C). split; [|auto]. eapply tr_mono; [|apply (tr_and _ _ _ _ T Y)].
    intros e [H1 H2]. apply HP. split; assumption.
  - eapply tr_mono; [|apply (tr_and _ _ _ _ X Y)]. intros e [H1 H2]. apply HP. split; assumption.
Qed.

(* ---- the steps of the machine neither create nor remove a directory (instances of ConfluenceFacts' principle) ---- *)
Lemma sd_refl w : same_dirs w w.
Proof. intros p. reflexivity. Qed.
Lemma sd_trans a b c : same_dirs a b -> same_dirs b c -> same_dirs a c.
Proof. intros H1 H2 p. rewrite H2, H1. reflexivity. Qed.
Lemma sd_write w p c w' : w_write w p c = Some w' -> same_dirs w w'.
Proof.
  intros H. unfold w_write in H. destruct (write_target (w_fs w) p) as [q|] eqn:E; [|discriminate].
  inversion H; subst w'. destruct w as [f l]. apply same_dirs_put. eapply write_target_not_dir; eauto.
Qed.
Lemma sd_append w q c w' : w_append w q c = Some w' -> same_dirs w w'.
Proof.
  intros H. unfold w_append in H. destruct (fs_get (w_fs w) q) as [[old|]|] eqn:E; try discriminate.
  inversion H; subst w'. destruct w as [f l]. apply same_dirs_put. unfold is_dir. simpl in *. rewrite E. reflexivity.
Qed.
Lemma sd_remove w q w' : w_remove_file w q = Some w' -> same_dirs w w'.
Proof.
  intros H. unfold w_remove_file in H. destruct (fs_get (w_fs w) q) as [[old|]|] eqn:E; try discriminate.
  inversion H; subst w'. destruct w as [f l]. apply same_dirs_del. unfold is_dir. simpl in *. rewrite E. reflexivity.
Qed.
Lemma sd_emit w e : same_dirs w (w_emit w e).
Proof. intros p. reflexivity. Qed.

Definition sd_run_directive := run_directive_R same_dirs sd_refl sd_trans sd_write sd_append sd_remove sd_emit.
Definition sd_step_fresh := step_fresh_R same_dirs sd_refl sd_trans sd_append.
Definition sd_run_lines := run_lines_R same_dirs sd_refl sd_trans sd_write sd_append sd_remove sd_emit.
Definition sd_sink_new := sink_new_R same_dirs sd_refl sd_write sd_remove.

(* ---- 7c: EventFacts' chain, with the per-directive event predicate as a parameter and an invariant of the world
   that only depends on its directories ---- *)
Section GenChain.
Variable orc : oracle.
Variable md : mode.
Variable src base : path.
Variable Inv : world -> Prop.
Hypothesis Inv_sd : forall w w', same_dirs w w' -> Inv w -> Inv w'.
Variable DE : directive -> event -> Prop.
Hypothesis HDE : forall le (P : event -> Prop) d s,
  Inv (wld s) -> (forall e, DE d e -> P e) ->
  match exec_directive orc md src base le d s with
  | XOut o s' => tr P (wld s) (wld s') /\ snk s' = snk s /\ cur s' = cur s
  | XErr k w => tr P (wld s) w
  end.

Lemma run_directive_chain_g le (P : event -> Prop) w0 k0 d ht s :
  Inv (wld s) ->
  (forall e, skw_ev k0 e -> P e) -> (forall e, DE d e -> P e) ->
  tr P w0 (wld s) -> sink_le (snk s) k0 ->
  ok_res P w0 k0 (cur s) (run_directive orc md src base le d ht s).
Proof.
  intros HI Hk Hd T0 L0. unfold run_directive.
  pose proof (HDE le P d s HI Hd) as X.
  destruct (exec_directive orc md src base le d s) as [o s1|k w];
    [|simpl; eapply tr_trans; eauto].
  destruct X as (T & S & C).
  assert (T1 : tr P w0 (wld s1)) by (eapply tr_trans; eauto).
  assert (L1 : sink_le (snk s1) k0) by (rewrite S; exact L0).
  rewrite <- C.
  destruct o as [raw|]; [|apply emit_chain; assumption].
  destruct (try_store (tg s1) raw) as [t'|]; [|apply emit_chain; assumption].
  apply (emit_chain le P w0 k0 (set_tg s1 t')); assumption.
Qed.

Lemma run_lines_chain_g le (P : event -> Prop) w0 k0 ls : forall s,
  Inv (wld s) ->
  (forall e, skw_ev k0 e -> P e) ->
  (forall d fol e, In (IDir d fol) (parse (mode_eqb md Clean) (cur s) ls) -> DE d e -> P e) ->
  tr P w0 (wld s) -> sink_le (snk s) k0 ->
  match run_lines orc md src base le ls s with
  | StOk s' => tr P w0 (wld s') /\ sink_le (snk s') k0 /\
               (forall d e, cur s' = Some d -> DE d e -> P e)
  | StErr _ w => tr P w0 w
  | StPanic => True
  end.
Proof.
  induction ls as [|l r IH]; intros s HI Hk Hd T0 L0.
  - simpl. split; [exact T0|]. split; [exact L0|].
    intros d e Hc. apply (Hd d false). rewrite Hc. simpl. left. reflexivity.
  - simpl run_lines. unfold step_line. destruct (cur s) as [d|] eqn:C0.
    + rewrite parse_Some_cons in Hd. destruct (add_line d l) as [d'| |].
      * apply IH; simpl; auto.
      * pose proof (run_directive_chain_g le P w0 k0 d true (set_cur s None) HI Hk
                      (fun e => Hd d true e (or_introl eq_refl)) T0 L0) as X.
        pose proof (sd_run_directive orc md src base le d true (set_cur s None)) as D1.
        destruct (run_directive orc md src base le d true (set_cur s None)) as [s1|k w|];
          simpl in X; [|exact X|exact I].
        destruct X as (T1 & L1 & C1). simpl in D1.
        pose proof (step_fresh_chain md le P w0 k0 l r s1 Hk T1 L1 C1) as Y.
        pose proof (sd_step_fresh md le l s1) as D2.
        destruct (step_fresh md le l s1) as [s2|k w|]; [|exact Y|exact I].
        destruct Y as (T2 & L2 & Sub). simpl in D2. apply IH; auto.
        -- apply (Inv_sd _ _ D2). apply (Inv_sd _ _ D1). exact HI.
        -- intros d2 fol e Hin. apply (Hd d2 fol). right. apply Sub. exact Hin.
      * exact I.
    + pose proof (step_fresh_chain md le P w0 k0 l r s Hk T0 L0 C0) as Y.
      pose proof (sd_step_fresh md le l s) as D2.
      destruct (step_fresh md le l s) as [s2|k w|]; [|exact Y|exact I].
      destruct Y as (T2 & L2 & Sub). simpl in D2. apply IH; auto.
      * apply (Inv_sd _ _ D2). exact HI.
      * intros d2 fol e Hin. apply (Hd d2 fol). apply Sub. exact Hin.
Qed.

Lemma finish_chain_g le (P : event -> Prop) w0 k0 tn s :
  Inv (wld s) ->
  (forall e, skw_ev k0 e -> P e) -> (forall e, skd_ev k0 e -> P e) ->
  (forall d e, cur s = Some d -> DE d e -> P e) ->
  tr P w0 (wld s) -> sink_le (snk s) k0 ->
  match outcome_world (finish orc md src base le tn s) with Some w' => tr P w0 w' | None => True end.
Proof.
  intros HI Hk Hkd Hd T0 L0. unfold finish.
  assert (X : ok_res P w0 k0 None
                (match cur s with
                 | Some d => run_directive orc md src base le d false (set_cur s None)
                 | None => StOk s end)).
  { destruct (cur s) as [d|] eqn:C0.
    - apply (run_directive_chain_g le P w0 k0 d false (set_cur s None)); auto.
      intros e. apply (Hd d e eq_refl).
    - simpl. auto. }
  destruct (match cur s with
            | Some d => run_directive orc md src base le d false (set_cur s None)
            | None => StOk s end) as [s1|k w|]; simpl in X; [|exact X|exact I].
  destruct X as (T1 & L1 & _).
  destruct (pmode s1);
    [apply (epilogue_tail_chain md le P w0 k0 tn s1); assumption
    |apply (epilogue_tail_chain md le P w0 k0 tn s1); assumption
    |exact T1].
Qed.

Lemma pp_run_tr_g first tn w (P : event -> Prop) :
  Inv w ->
  (forall out e, remove_txtpp src = Some out -> is_txtpp_file out = false -> out_ev md out e -> P e) ->
  (forall raw d fol e, read_file (w_fs w) src = Some raw ->
     In (IDir d fol) (parse (mode_eqb md Clean) None (fst (take_valid (lines raw)))) ->
     DE d e -> P e) ->
  match outcome_world (pp_run orc md base src first tn w) with Some w' => tr P w w' | None => True end.
Proof.
  intros HI Hout Hdir. unfold pp_run.
  destruct (read_file (w_fs w) src) as [raw|] eqn:ER; [|apply tr_refl].
  destruct (remove_txtpp src) as [out|] eqn:EO; [|apply tr_refl].
  destruct (is_txtpp_file out) eqn:Et; [apply tr_refl|].
  destruct (sink_new md w out) as [[k0 w0]|k] eqn:EN; [|apply tr_refl].
  pose proof (sd_sink_new _ _ _ _ _ EN) as D0.
  apply sink_new_tr in EN. destruct EN as (T0 & Kw & Kd).
  specialize (Hdir raw). destruct (take_valid (lines raw)) as [ls bad]. simpl fst in Hdir.
  assert (Hk : forall e, skw_ev k0 e -> P e) by (intros e He; apply (Hout out e eq_refl Et); auto).
  assert (Hkd : forall e, skd_ev k0 e -> P e) by (intros e He; apply (Hout out e eq_refl Et); auto).
  assert (T0' : tr P w w0) by (eapply tr_mono; [|exact T0]; intros e He; apply (Hout out e eq_refl Et He)).
  set (s0 := mkP None false (if first then PFirst else PExec) tags_new k0 w0).
  assert (HI0 : Inv (wld s0)) by (apply (Inv_sd _ _ D0 HI)).
  pose proof (run_lines_chain_g (detect_le raw) P w k0 ls s0 HI0 Hk
                (fun d fol e Hin He => Hdir d fol e eq_refl Hin He) T0' (sink_le_refl k0)) as X.
  pose proof (sd_run_lines orc md src base (detect_le raw) ls s0) as D1.
  destruct (run_lines orc md src base (detect_le raw) ls s0) as [s1|k w1|];
    [|exact X|exact I].
  destruct X as (T1 & L1 & Hc). simpl in D1.
  destruct bad; [exact T1|].
  apply (finish_chain_g (detect_le raw) P w k0 tn s1); try assumption.
  apply (Inv_sd _ _ D1 HI0).
Qed.
End GenChain.

(* ---- 7d: one pass in a world in which the directory of the source is a directory ---- *)
Theorem pass_plain_events orc md base f b tn w :
  is_dir (w_fs w) (lex_normalize (parent f)) = true ->
  tr plain_ev w (out_world (pp_run orc md base f b tn w) w).
Proof.
  intros Hd.
  pose proof (pp_run_tr_g orc md f base (fun w => is_dir (w_fs w) (lex_normalize (parent f)) = true)
                (fun w w' H Hw => eq_trans (H _) Hw)
                (dir_ev2 md f) (fun le P d s => exec_directive_tr2 orc md f base le P d s)
                b tn w plain_ev Hd) as X.
  destruct (pp_run orc md base f b tn w) as [a|d a|k a|]; cbn [outcome_world out_world] in *; try apply tr_refl;
    apply X;
    try (intros raw d0 fol e _ _ [_ He]; exact He);
    intros out e Ho Et He;
    (destruct md; simpl in He;
     [destruct He as [(rp & n & Eo & Hn & ->) | ->]
     |destruct He as (rp & n & Eo & Hn & ->)
     |subst e
     |destruct He]);
    intros p Hp; cbn in Hp; inversion Hp; subst p; try exact Et;
    rewrite (is_txtpp_last (lex_normalize rp) rp n), <- Eo; exact Et.
Qed.

(* ... leaves every `.txtpp` path alone *)
Theorem pass_txtpp_same orc md base f b tn w :
  is_dir (w_fs w) (lex_normalize (parent f)) = true ->
  forall q, is_txtpp_file q = true ->
  fs_get (w_fs (out_world (pp_run orc md base f b tn w) w)) q = fs_get (w_fs w) q.
Proof.
  intros Hd q Hq. destruct (pass_plain_events orc md base f b tn w Hd) as (evs & _ & HA & HF).
  apply HF. intros e He Hp. rewrite Forall_forall in HA. rewrite (HA e He q Hp) in Hq. discriminate.
Qed.

(* ---- 7e: on a legal tree every pass of the trace (drained tasks included) is on a source of the initial tree
   whose directory is a directory of the initial tree ---- *)
Section TraceGood.
Variable orc : oracle.
Variable cfg : config.
Variable base : path.
Variables files dirs : list path.
Variable F0 : fs.
Hypothesis nodup0 : NoDup (map fst F0).
Hypothesis wf0 : legal_names F0.

Definition good_task (t : task) : Prop :=
  match t with TScan d => good_dir F0 d | TPp f _ => good_file F0 f end.

Lemma Jrun_inflight g w t :
  greach files dirs g -> Jrun F0 (gs g) w -> In t (inflight (gs g)) -> good_task t.
Proof.
  intros R (_ & Jf & Jd) Hin. destruct (inv_reach _ _ _ R) as [HI _].
  pose proof (i_fl_seen HI t Hin) as Hs. destruct t as [d|f b]; cbn [tseen good_task] in *; auto.
Qed.

Lemma drain_tasks fuel : forall sched l w tr w' tr',
  drain orc cfg base fuel sched l w tr = Some (w', tr') ->
  forall t r, In (t, r) tr' -> In (t, r) tr \/ In t l.
Proof.
  induction fuel as [|fuel IH]; intros sched l w tr w' tr' HD t r Hin; cbn [drain] in HD.
  - inversion HD; subst. left. exact Hin.
  - destruct (sort_tasks l) as [|t0 sl'] eqn:E.
    + inversion HD; subst. left. exact Hin.
    + cbv zeta in HD. set (sl := t0 :: sl') in *. set (k := pick sched sl) in *. set (t1 := nth k sl t0) in *.
      destruct (exec_task orc cfg base t1 w) as [[r1 w1]|] eqn:E1; [|discriminate].
      assert (Hsub : forall x, In x sl -> In x l).
      { intros x Hx. apply (Permutation_in x (Permutation_sym (sort_tasks_perm l))). rewrite E. exact Hx. }
      destruct (IH _ _ _ _ _ _ HD t r Hin) as [H|H].
      * apply in_app_or in H. destruct H as [H|[H|[]]]; [left; exact H|].
        inversion H; subst. right. apply Hsub. apply nth_In. apply pick_lt.
      * right. apply Hsub. eapply remove_nth_sub. exact H.
Qed.

Lemma run_loop_trace_good fuel : forall sched g w tr,
  greach files dirs g -> Jrun F0 (gs g) w ->
  forall t r, In (t, r) (trace_of (run_loop orc cfg base fuel sched (gs g) w tr)) -> In (t, r) tr \/ good_task t.
Proof.
  induction fuel as [|fuel IH]; intros sched g w tr R HJ t r.
  - destruct (sort_tasks (inflight (gs g))) as [|t0 sl'] eqn:E.
    + rewrite (run_loop_exit _ _ _ _ _ _ _ _ E). cbn. auto.
    + rewrite (run_loop_nofuel _ _ _ _ _ _ _ _ _ E). cbn. auto.
  - destruct (sort_tasks (inflight (gs g))) as [|t0 sl'] eqn:E.
    + rewrite (run_loop_exit _ _ _ _ _ _ _ _ E). cbn. auto.
    + rewrite (run_loop_step _ _ _ _ _ _ _ _ _ _ E). cbv zeta.
      set (sl := t0 :: sl'). set (k := pick sched sl). set (t1 := nth k sl t0). set (rest := remove_nth k sl).
      assert (HP : Permutation (inflight (gs g)) (t1 :: rest)).
      { eapply perm_trans; [apply sort_tasks_perm|]. rewrite E. apply pick_split. apply pick_lt. }
      assert (Ht1 : good_task t1).
      { apply (Jrun_inflight g w t1 R HJ). apply (Permutation_in t1 (Permutation_sym HP)). left. reflexivity. }
      assert (Hrest : forall x, In x rest -> good_task x).
      { intros x Hx. apply (Jrun_inflight g w x R HJ). apply (Permutation_in x (Permutation_sym HP)). right. exact Hx. }
      destruct (exec_task orc cfg base t1 w) as [[r1 w1]|] eqn:Hex; [|cbn; auto].
      pose proof (exec_task_answers _ _ _ _ _ _ _ Hex) as Hans.
      assert (Hsnoc : In (t, r) (tr ++ [(t1, r1)]) -> In (t, r) tr \/ good_task t).
      { intros H. apply in_app_or in H. destruct H as [H|[H|[]]]; [left; exact H|]. inversion H; subst. right. exact Ht1. }
      destruct (handle (with_inflight (gs g) rest) r1) as [s2| |] eqn:Hh.
      * set (g2 := mkG s2 (report t1 r1 (reported g)) (history g ++ [t1])).
        assert (R2 : greach files dirs g2).
        { eapply greach_step; [exact R|]. apply (gstep_continue g t1 rest r1 s2); assumption. }
        assert (HJ2 : Jrun F0 (gs g2) w1) by (apply (Jrun_step F0 nodup0 wf0 orc cfg base files dirs g w t1 rest r1 w1 s2); assumption).
        intros Hin. destruct (IH (tl sched) g2 w1 (tr ++ [(t1, r1)]) R2 HJ2 t r Hin) as [H|H]; [apply Hsnoc; exact H|right; exact H].
      * cbn [with_inflight inflight].
        destruct (drain orc cfg base (length rest) (tl sched) rest w1 (tr ++ [(t1, r1)])) as [[w2 tr2]|] eqn:Hd2.
        -- cbn [trace_of fst snd]. intros Hin. destruct (drain_tasks _ _ _ _ _ _ _ Hd2 t r Hin) as [H|H].
           ++ apply Hsnoc. exact H.
           ++ right. apply Hrest. exact H.
        -- cbn [trace_of fst snd]. exact Hsnoc.
      * cbn [trace_of fst snd]. exact Hsnoc.
Qed.
End TraceGood.

Theorem txtpp_run_trace_good orc cfg fuel sched w :
  NoDup (map fst (w_fs w)) -> legal_names (w_fs w) ->
  forall t r, In (t, r) (trace_of (txtpp_run orc cfg fuel sched w)) -> good_task (w_fs w) t.
Proof.
  intros ND WF t r. unfold txtpp_run.
  destruct (cfg_threads cfg =? 0); [intros []|].
  destruct (os_resolve (w_fs w) (cfg_base cfg)) as [base|] eqn:Rb; [|intros []].
  destruct (resolve_inputs (w_fs w) base (cfg_inputs cfg) [] []) as [[files dirs]|] eqn:Ri; [|intros []].
  set (F0 := w_fs w) in *.
  assert (Hb : Forall (fun c => c <> []) base).
  { apply names_nonempty. apply (exists_names F0 WF). apply (os_walk_exists _ _ _ _ Rb). }
  destruct (resolve_inputs_good F0 ND base (cfg_inputs cfg) [] [] files dirs Hb (Forall_nil _) (Forall_nil _) Ri)
    as [Gf Gd].
  rewrite Forall_forall in Gf, Gd.
  change (fold_left exec_dir dirs (fold_left (fun s f => exec_file s f true) files c_init))
    with (gs (ginit files dirs)).
  intros Hin.
  destruct (run_loop_trace_good orc cfg base files dirs F0 ND WF fuel sched (ginit files dirs) w []
              (greach_init files dirs)) with (t := t) (r := r) as [[]|H]; [| exact Hin | exact H].
  split; [|split].
  - destruct w as [F l]. apply (winv_init F0).
  - intros f Hf. apply Gf. cbn [ginit gs] in Hf. rewrite seen_fold_dir_eq in Hf.
    apply seen_fold_file_inv in Hf. destruct Hf as [[]|[_ Hf]]. exact Hf.
  - intros d Hd. apply Gd. cbn [ginit gs] in Hd. apply seen_dirs_fold_dir_inv in Hd.
    destruct Hd as [Hd|Hd]; [|exact Hd]. rewrite seen_dirs_fold_file in Hd. destruct Hd.
Qed.

(* ---- 7f: the run on a legal tree ---- *)
Lemma good_file_dir F0 f :
  legal_names F0 -> good_file F0 f -> is_dir F0 (lex_normalize (parent f)) = true.
Proof.
  intros WF [_ [_ Hd]]. rewrite lex_normalize_normal; [exact Hd|].
  pose proof (dir0_names F0 WF _ Hd) as Hn. unfold all_normal. eapply Forall_impl; [|exact Hn].
  intros c [_ Hc]. exact Hc.
Qed.

Section LegalChain.
Variable orc : oracle.
Variable cfg : config.
Variable base : path.
Let md := cfg_mode cfg.
Let tn := cfg_trailing cfg.

Lemma exec_chain_legal w0 w l w' :
  exec_chain orc cfg base w l w' -> txtpp_same w0 w -> same_dirs w0 w ->
  (forall f b r, In (TPp f b, r) l -> is_dir (w_fs w0) (lex_normalize (parent f)) = true) ->
  txtpp_same w0 w' /\ same_dirs w0 w' /\ tr plain_ev w w'.
Proof.
  intros H. induction H as [w|w t r w1 rest w' E H IH]; intros HS HD HG.
  - split; [exact HS|]. split; [exact HD|apply tr_refl].
  - assert (S1 : txtpp_same w0 w1 /\ same_dirs w0 w1 /\ tr plain_ev w w1).
    { pose proof (exec_task_world _ _ _ _ _ _ _ E) as Ew. destruct t as [d|f b].
      - subst w1. split; [exact HS|]. split; [exact HD|apply tr_refl].
      - fold md tn in Ew.
        assert (Hd : is_dir (w_fs w) (lex_normalize (parent f)) = true).
        { rewrite (HD _). apply (HG f b r). left. reflexivity. }
        subst w1. split; [|split].
        + intros q Hq. rewrite (pass_txtpp_same orc md base f b tn w Hd q Hq). apply HS. exact Hq.
        + apply (sd_trans _ _ _ HD). apply pp_run_same_dirs.
        + apply pass_plain_events. exact Hd. }
    destruct S1 as (HS1 & HD1 & T1).
    destruct (IH HS1 HD1) as (HS2 & HD2 & T2). { intros f b r0 Hin. apply (HG f b r0). right. exact Hin. }
    split; [exact HS2|]. split; [exact HD2|]. eapply tr_trans; eauto.
Qed.
End LegalChain.

(* GOAL 1, second version, under the hypotheses of RunFacts.txtpp_run_terminates (no duplicate keys, legal names) and
   nothing else: every `.txtpp` path — every source — keeps its node (the sources are never written); NO event is on a
   `.txtpp` path; every EWrite/ERemove is on the normalised output, the output or a temp target of a pass (f, b) of
   the trace, where f is a source of the INITIAL tree and the temp targets are those named by the text that f has in
   the INITIAL world; a path that received no event keeps its node *)
Theorem run_events_allowed_legal orc cfg fuel sched w :
  NoDup (map fst (w_fs w)) -> legal_names (w_fs w) ->
  let x := txtpp_run orc cfg fuel sched w in
  (forall q, is_txtpp_file q = true -> fs_get (w_fs (world_of x)) q = fs_get (w_fs w) q) /\
  exists evs, w_log (world_of x) = w_log w ++ evs /\
    Forall (fun e => forall p, ev_path e = Some p ->
      is_txtpp_file p = false /\
      exists f b r out, In (TPp f b, r) (trace_of x) /\ In f (src_files (w_fs w)) /\ remove_txtpp f = Some out /\
        (p = lex_normalize out \/ In p (allowed_paths f out (items_of (cfg_mode cfg) w f)))) evs /\
    (forall p, (forall e, In e evs -> ev_path e <> Some p) ->
       fs_get (w_fs (world_of x)) p = fs_get (w_fs w) p).
Proof.
  intros ND WF. cbv zeta. pose proof (txtpp_run_chain orc cfg fuel sched w) as HC. cbv zeta in HC.
  assert (HG : forall f b r, In (TPp f b, r) (trace_of (txtpp_run orc cfg fuel sched w)) -> good_file (w_fs w) f).
  { intros f b r Hin. apply (txtpp_run_trace_good orc cfg fuel sched w ND WF _ _ Hin). }
  assert (HGd : forall f b r, In (TPp f b, r) (trace_of (txtpp_run orc cfg fuel sched w)) ->
                  is_dir (w_fs w) (lex_normalize (parent f)) = true).
  { intros f b r Hin. apply (good_file_dir _ _ WF (HG f b r Hin)). }
  destruct (exec_chain_legal orc cfg _ w w _ _ HC (fun q _ => eq_refl) (sd_refl w) HGd) as (HS & _ & T1).
  split; [exact HS|].
  pose proof (exec_chain_tr orc cfg _ _ _ _ HC) as T2.
  destruct (tr_and _ _ _ _ T1 T2) as (evs & HL & HA & HF). exists evs. split; [exact HL|]. split; [|exact HF].
  eapply Forall_impl; [|exact HA]. intros e [Hpl He] p Hp. split; [apply (Hpl p Hp)|].
  destruct (justified_pass _ _ _ _ _ _ (He p Hp)) as (f & b & r & out & wt & Hr & Ho & Hin).
  pose proof (ran_in_In _ _ _ _ _ _ _ _ Hr) as Hinl.
  exists f, b, r, out. split; [exact Hinl|]. split; [apply (HG f b r Hinl)|]. split; [exact Ho|].
  destruct Hr as (pre & post & El & Hpre).
  destruct (exec_chain_legal orc cfg _ w w _ _ Hpre (fun q _ => eq_refl) (sd_refl w)) as (HSt & _ & _).
  { intros f' b' r' Hin'. apply (HGd f' b' r'). rewrite El. apply in_or_app. left. exact Hin'. }
  rewrite <- (txtpp_same_items cfg w wt f HSt (remove_txtpp_is_txtpp _ _ Ho)). exact Hin.
Qed.

(* `run_frame` on a legal tree: a path outside the footprints, computed in the initial world, of the sources that were
   given a pass keeps its node *)
Corollary run_frame_legal orc cfg fuel sched w p :
  NoDup (map fst (w_fs w)) -> legal_names (w_fs w) ->
  let x := txtpp_run orc cfg fuel sched w in
  (forall f b r, In (TPp f b, r) (trace_of x) -> ~ In p (writes_of (cfg_mode cfg) w f)) ->
  fs_get (w_fs (world_of x)) p = fs_get (w_fs w) p.
Proof.
  intros ND WF. cbv zeta. intros Hp.
  destruct (run_events_allowed_legal orc cfg fuel sched w ND WF) as (_ & evs & _ & HA & HF).
  apply HF. intros e He Hev. rewrite Forall_forall in HA.
  destruct (HA e He p Hev) as (_ & f & b & r & out & Hin & _ & Ho & Hw).
  apply (Hp f b r Hin). apply in_writes_of. exists out. auto.
Qed.

(* non-vacuity: the tree of PART 6 is legal; its build leaves a.txtpp and b.txtpp alone *)
Example run_events_allowed_legal_example :
  NoDup (map fst (w_fs re_w)) /\ legal_names (w_fs re_w) /\
  let x := txtpp_run re_orc (re_cfg Build) 10 [0;1;0]%nat re_w in
  verdict_of x = VErr /\
  fs_get (w_fs (world_of x)) [[100]; re_a] = fs_get (w_fs re_w) [[100]; re_a] /\
  fs_get (w_fs (world_of x)) [[100]; re_b] = fs_get (w_fs re_w) [[100]; re_b].
Proof.
  assert (ND : NoDup (map fst (w_fs re_w))) by (cbn; repeat constructor; cbn; intuition discriminate).
  assert (WF : legal_names (w_fs re_w)).
  { intros p nd [H|[H|[H|[]]]]; inversion H; subst; repeat constructor; discriminate. }
  split; [exact ND|]. split; [exact WF|]. cbv zeta. split; [vm_compute; reflexivity|].
  destruct (run_events_allowed_legal re_orc (re_cfg Build) 10 [0;1;0]%nat re_w ND WF) as (HS & _).
  split; apply HS; vm_compute; reflexivity.
Qed.

(* ---- 7g: consequences on legal trees for GOAL 2, 3 and 4 ---- *)
(* every world in which a pass of the run was executed holds the sources of the initial world *)
Lemma ran_in_txtpp_same_legal orc cfg fuel sched w t r wt :
  NoDup (map fst (w_fs w)) -> legal_names (w_fs w) ->
  ran_in orc cfg (run_base cfg w) w (trace_of (txtpp_run orc cfg fuel sched w)) t r wt ->
  txtpp_same w wt /\ same_dirs w wt.
Proof.
  intros ND WF (pre & post & El & Hpre).
  destruct (exec_chain_legal orc cfg _ w w _ _ Hpre (fun q _ => eq_refl) (sd_refl w)) as (HS & HD & _); [|auto].
  intros f b r0 Hin. apply (good_file_dir _ _ WF).
  apply (txtpp_run_trace_good orc cfg fuel sched w ND WF (TPp f b) r0). rewrite El. apply in_or_app. left. exact Hin.
Qed.

(* GOAL 2, clean, initial world: every event is the removal of a path of the initial footprint of a processed source *)
Theorem clean_run_events_legal orc cfg fuel sched w :
  NoDup (map fst (w_fs w)) -> legal_names (w_fs w) -> cfg_mode cfg = Clean ->
  let x := txtpp_run orc cfg fuel sched w in
  exists evs, w_log (world_of x) = w_log w ++ evs /\
    Forall (fun e => exists p, e = ERemove p /\ is_txtpp_file p = false /\
              exists f b r, In (TPp f b, r) (trace_of x) /\ In p (writes_of Clean w f)) evs.
Proof.
  intros ND WF Hmd. cbv zeta. destruct (clean_run_events orc cfg fuel sched w Hmd) as (evs & HL & HA & _).
  destruct (run_events_allowed_legal orc cfg fuel sched w ND WF) as (_ & evs' & HL' & HA' & _).
  rewrite HL in HL'. apply app_inv_head in HL'. subst evs'.
  exists evs. split; [exact HL|]. rewrite Forall_forall in *. intros e He.
  destruct (HA e He) as (p & -> & f & b & r & wt & Hr & Hin). exists p. split; [reflexivity|].
  split; [apply (HA' _ He p eq_refl)|]. exists f, b, r. split; [eapply ran_in_In; exact Hr|].
  destruct (ran_in_txtpp_same_legal orc cfg fuel sched w _ _ _ ND WF Hr) as [HS _].
  rewrite <- Hmd in *. rewrite <- (txtpp_same_writes cfg w wt f HS). exact Hin.
Qed.

(* GOAL 2, verify, initial world: a path that no temp directive of a processed source names, in the text that the
   source has in the initial world, receives no event and keeps its node; in particular the output of a source *)
Theorem verify_run_untouched_legal orc cfg fuel sched w p :
  NoDup (map fst (w_fs w)) -> legal_names (w_fs w) -> cfg_mode cfg = Verify ->
  let x := txtpp_run orc cfg fuel sched w in
  (forall f b r, In (TPp f b, r) (trace_of x) -> ~ In p (temp_targets Verify w f)) ->
  (forall e, In e (skipn (length (w_log w)) (w_log (world_of x))) -> ev_path e <> Some p) /\
  fs_get (w_fs (world_of x)) p = fs_get (w_fs w) p.
Proof.
  intros ND WF Hmd. cbv zeta. intros Hp.
  destruct (verify_run_events orc cfg fuel sched w Hmd) as (evs & HL & HA & HF).
  assert (G : forall e, In e evs -> ev_path e <> Some p).
  { intros e He Hev. rewrite Forall_forall in HA.
    destruct (HA e He p Hev) as (_ & f & b & r & out & wt & Hr & Ho & Hin).
    apply (Hp f b r (ran_in_In _ _ _ _ _ _ _ _ Hr)).
    destruct (ran_in_txtpp_same_legal orc cfg fuel sched w _ _ _ ND WF Hr) as [HS _].
    unfold temp_targets in *. rewrite <- (items_of_same Verify w wt f); [exact Hin|].
    apply HS. eapply remove_txtpp_is_txtpp; eauto. }
  split; [|apply HF; exact G]. rewrite HL, skipn_app_exact. exact G.
Qed.

(* GOAL 3 on legal trees: at whatever point the run is interrupted, every `.txtpp` path (every source) is intact and
   so is every path outside the initial footprints of the sources that were given a pass *)
Theorem interrupted_sources_intact_legal orc cfg k sched w :
  NoDup (map fst (w_fs w)) -> legal_names (w_fs w) ->
  let x := txtpp_run orc cfg k sched w in
  (forall q, is_txtpp_file q = true -> fs_get (w_fs (world_of x)) q = fs_get (w_fs w) q) /\
  (forall p, (forall f b r, In (TPp f b, r) (trace_of x) -> ~ In p (writes_of (cfg_mode cfg) w f)) ->
     fs_get (w_fs (world_of x)) p = fs_get (w_fs w) p).
Proof.
  intros ND WF. cbv zeta. split.
  - apply (run_events_allowed_legal orc cfg k sched w ND WF).
  - intros p Hp. apply (run_frame_legal orc cfg k sched w p ND WF Hp).
Qed.

(* GOAL 4 on legal trees: the operations of a pass are not on `.txtpp` paths, so that the sources are intact after
   every prefix of them *)
Theorem pass_prefix_sources_intact orc md base f b tn w :
  is_dir (w_fs w) (lex_normalize (parent f)) = true ->
  exists ops, ops_ok w ops /\ out_world (pp_run orc md base f b tn w) w = run_ops w ops /\
    (forall o q, In o ops -> op_target o = Some q -> is_txtpp_file q = false /\ In q (writes_of md w f)) /\
    forall k q, is_txtpp_file q = true -> fs_get (w_fs (run_ops w (firstn k ops))) q = fs_get (w_fs w) q.
Proof.
  intros Hd. destruct (pp_run_ops_footprint orc md base f b tn w) as (ops & Hok & Hrun & Hfp).
  exists ops. split; [exact Hok|]. split; [exact Hrun|].
  assert (Hpl : forall o q, In o ops -> op_target o = Some q -> is_txtpp_file q = false).
  { intros o q Ho Hq. destruct (pass_plain_events orc md base f b tn w Hd) as (evs & HL & HA & _).
    rewrite Hrun, run_ops_log in HL. apply app_inv_head in HL. subst evs. rewrite Forall_forall in HA.
    apply (HA (op_event o) (in_map op_event ops o Ho) q). destruct o as [q' c|q'|e]; cbn in *; congruence. }
  split; [intros o q Ho Hq; split; [apply (Hpl o q Ho Hq)|apply (Hfp o q Ho Hq)]|].
  intros k q Hq. apply run_ops_frame. intros o Ho Ht.
  assert (Ho' : In o ops) by (rewrite <- (firstn_skipn k ops); apply in_or_app; left; exact Ho).
  rewrite (Hpl o q Ho' Ht) in Hq. discriminate.
Qed.

Theorem interrupted_inside_pass_legal orc cfg fuel sched w pre f b r post wt :
  NoDup (map fst (w_fs w)) -> legal_names (w_fs w) ->
  trace_of (txtpp_run orc cfg fuel sched w) = pre ++ (TPp f b, r) :: post ->
  exec_chain orc cfg (run_base cfg w) w pre wt ->
  exists ops, ops_ok wt ops /\
    out_world (pp_run orc (cfg_mode cfg) (run_base cfg w) f b (cfg_trailing cfg) wt) wt = run_ops wt ops /\
    forall k q, is_txtpp_file q = true -> fs_get (w_fs (run_ops wt (firstn k ops))) q = fs_get (w_fs w) q.
Proof.
  intros ND WF El Hpre.
  assert (Hr : ran_in orc cfg (run_base cfg w) w (trace_of (txtpp_run orc cfg fuel sched w)) (TPp f b) r wt)
    by (exists pre, post; auto).
  destruct (ran_in_txtpp_same_legal orc cfg fuel sched w _ _ _ ND WF Hr) as [HS HD].
  assert (Hd : is_dir (w_fs wt) (lex_normalize (parent f)) = true).
  { rewrite (HD _). apply (good_file_dir _ _ WF).
    apply (txtpp_run_trace_good orc cfg fuel sched w ND WF (TPp f b) r). eapply ran_in_In; exact Hr. }
  destruct (pass_prefix_sources_intact orc (cfg_mode cfg) (run_base cfg w) f b (cfg_trailing cfg) wt Hd)
    as (ops & Hok & Hrun & _ & Hk).
  exists ops. split; [exact Hok|]. split; [exact Hrun|]. intros k q Hq. rewrite (Hk k q Hq). apply HS. exact Hq.
Qed.

(* the set of disturbed paths itself can be taken for D *)
Definition disturbed (w wk : world) : list path :=
  flat_map (fun e => match ev_path e with Some p => [p] | None => [] end) (skipn (length (w_log w)) (w_log wk)).

Lemma disturbed_spec w wk e q :
  In e (skipn (length (w_log w)) (w_log wk)) -> ev_path e = Some q -> In q (disturbed w wk).
Proof. intros He Hq. unfold disturbed. apply in_flat_map. exists e. split; [exact He|]. rewrite Hq. left. reflexivity. Qed.

Corollary interrupted_then_rebuild_exact orc0 cfg0 k sched0 orc cfg fuel sched w :
  let wk := world_of (txtpp_run orc0 cfg0 k sched0 w) in
  let D := disturbed w wk in
  cfg_mode cfg = Build ->
  raw_ok w ->
  ~ In (lex_normalize (cfg_base cfg)) D ->
  Forall (input_safe D (lex_normalize (cfg_base cfg))) (cfg_inputs cfg) ->
  static_ok_deps D w ->
  let x1 := txtpp_run orc cfg fuel sched w in
  let x2 := txtpp_run orc cfg fuel sched wk in
  verdict_of x1 = verdict_of x2 /\ trace_of x1 = trace_of x2 /\ state_of x1 = state_of x2 /\
  stale_rel (stale_after D (trace_of x1)) (world_of x1) (world_of x2).
Proof.
  cbv zeta. intros Hmd ND Hb Hin HS.
  apply (interrupted_then_rebuild_deps orc0 cfg0 k sched0 orc cfg fuel sched w _ Hmd ND); try assumption.
  intros e q. apply disturbed_spec.
Qed.

(* What is missing for temp targets in `interrupted_then_rebuild*`: `static_ok` / `static_ok_deps` ask that a pass probes
   no path of D except its own OUTPUT (ConfluenceFacts.build_pass_stale: a Build pass truncates its output before it
   looks at anything else, so a stale output is harmless).  A pass also probes its own temp targets (write_temp compares
   the existing content with the new one, and skips the write — and the EWrite event — when they are equal), so a
   disturbed temp target t of f violates the condition for f itself.  The missing lemma is the analogue of
   build_pass_stale for an own temp target: the two passes end with the same content at t and the same verdict, but
   their logs may differ by the skipped EWrite; `stale_rel` does not compare logs, so the statement would go through,
   but it needs a version of FrameFacts.pp_rest_same that tolerates a difference on a path that the pass overwrites
   before (or without) reading it for any other purpose. *)
