(* NeededRunFacts.v — C09 for WHOLE runs: `--needed` equals a normal build and rewrites nothing that is unchanged.
   The development is split in three files:
     NeededRunFacts1.v  T1 `needed_run_equals_build_run` (+ `_from`, `_any_schedule`): same verdict, trace, final tree as Build;
     NeededRunFacts2.v  T2 `needed_after_build_writes_nothing` (+ `needed_after_build_same_schedule`,
                        `needed_after_needed_writes_nothing`): after a successful run a `--needed` run writes NOTHING;
     NeededRunFacts.v   (this file) T3 `needed_updates_exactly_stale`: from a world that differs from the built world on a
                        set D of generated paths, a successful `--needed` run logs write events on paths of D only and
                        ends with the built content at every path outside D and on the footprint of every source it processed.
   Everything is proved (nothing assumed); counterexamples to the statements without their static hypotheses are
   machine-checked `Example`s (`needed_run_cex_output_is_directory`, `needed_run_cex_temp_names_own_output` in part 1,
   `needed_cex_temp_twice` in part 2). *)
Require Import Txtpp.Str Txtpp.Consts Txtpp.Grammar Txtpp.Tags Txtpp.Path Txtpp.Fs Txtpp.Sink Txtpp.Pp Txtpp.Spec.
Require Import Txtpp.Dep Txtpp.Coord Txtpp.Run.
Require Import Txtpp.proofs.StrFacts Txtpp.proofs.SinkFacts Txtpp.proofs.PathFacts Txtpp.proofs.PpFacts Txtpp.proofs.EventFacts.
Require Import Txtpp.proofs.FrameFacts Txtpp.proofs.ConfluenceFacts Txtpp.proofs.DepFacts Txtpp.proofs.CoordFacts Txtpp.proofs.RunFacts.
Require Import Txtpp.proofs.ScheduleFacts Txtpp.proofs.RunEventsFacts Txtpp.proofs.ScheduleTempFacts.
Require Import Txtpp.proofs.NeededRunFacts1 Txtpp.proofs.NeededRunFacts2.
From Coq Require Import Lia Permutation.

Local Open Scope bool_scope.

(* ================================================================================================
   PART A — a `--needed` pass when the temp files and the output may be stale: every EWrite is on a stale path.
   ================================================================================================ *)
(* the events a `--needed` run may log when the paths of D are stale: commands, and writes on D *)
Definition ev_in (D : list path) (e : event) : Prop :=
  match e with ERun _ _ _ => True | EWrite p => In p D | ERemove _ => False end.

(* w' is w after events of `ev_in D` (every other path keeps its node), with the same directories *)
Definition trd (D : list path) (w w' : world) : Prop := tr (ev_in D) w w' /\ same_dirs w w'.

Lemma trd_refl D w : trd D w w.
Proof. split; [apply tr_refl|intros p; reflexivity]. Qed.
Lemma trd_trans D a b c : trd D a b -> trd D b c -> trd D a c.
Proof. intros [T1 S1] [T2 S2]. split; [eapply tr_trans; eauto|]. intros p. rewrite S2. apply S1. Qed.
Lemma quiet_trd D w w' : quiet w w' -> trd D w w'.
Proof.
  intros [F (evs & L & A)]. split; [|intros p; rewrite F; reflexivity].
  exists evs. split; [exact L|]. split; [|intros p _; rewrite F; reflexivity].
  eapply Forall_impl; [|exact A]. intros [p|p|c cw fl] H; cbn in *; tauto.
Qed.
Lemma trd_frame D w w' p : trd D w w' -> ~ In p D -> fs_get (w_fs w') p = fs_get (w_fs w) p.
Proof.
  intros [(evs & L & A & G) _] Hp. apply G. intros e He E. rewrite Forall_forall in A. specialize (A e He).
  destruct e as [q|q|c cw fl]; cbn in *; try discriminate; [|exact A]. inversion E; subst. exact (Hp A).
Qed.
Lemma trd_agree D w w' : trd D w w' -> agree (in_paths D) (w_fs w) (w_fs w').
Proof.
  intros H. split; [|intros p; symmetry; apply (proj2 H)].
  intros p Hp. apply in_paths_false in Hp. symmetry. apply (trd_frame D w w' p H Hp).
Qed.

Lemma temp_sat_agree D F F' lp c : agree (in_paths D) F F' -> ~ In (lex_normalize lp) D ->
  temp_sat F lp c -> temp_sat F' lp c.
Proof.
  intros A Hn (q & H1 & H2). pose proof (os_resolve_normalize _ _ _ H1) as Eq. subst q.
  apply in_paths_false in Hn. exists (lex_normalize lp). split.
  - rewrite <- (os_resolve_agree _ F F' lp A Hn). exact H1.
  - rewrite <- (proj1 A _ Hn). exact H2.
Qed.

Lemma write_temp_trd D w lp c w' : In (lex_normalize lp) D -> write_temp w lp c = inl w' -> trd D w w'.
Proof.
  intros Hin H. split.
  - eapply tr_mono; [|apply (write_temp_tr _ _ _ _ H)]. intros e ->. exact Hin.
  - apply (write_temp_R same_dirs sd_refl sd_trans sd_write _ _ _ _ H).
Qed.

Section MemPassD.
Variable orc : oracle.
Variables src base : path.
Variable le : str.
Variable D : list path.
Local Notation rit := (ritems orc Build src base le).

(* every temp directive of the items either finds its content in place in F (and its target is not stale) or has a
   stale target *)
Definition temps_ok_in (F : fs) (its : list item) : Prop :=
  forall d fol a rest, In (IDir d fol) its -> is_temp d a rest ->
    (temp_sat F (tlp src a) (tcontent le rest) /\ ~ In (tpath src a) D) \/ In (tpath src a) D.

Lemma ritems_trd its F0 : forall s p buf, snk s = SMem p buf ->
  agree (in_paths D) F0 (w_fs (wld s)) -> temps_ok_in F0 its ->
  match rit its s with
  | StOk s' => (exists buf', snk s' = SMem p buf') /\ trd D (wld s) (wld s')
  | StErr k w => trd D (wld s) w
  | StPanic => True
  end.
Proof.
  induction its as [|it r IH]; intros s p buf Hk HA Hok.
  - rewrite ritems_nil. split; [eauto|apply trd_refl].
  - rewrite ritems_cons. pose proof (mem_item orc src base le it s p buf Hk) as H.
    destruct (do_item orc Build src base le it s) as [s2|k w|]; [|apply quiet_trd; exact H|exact I].
    destruct H as [[buf2 Hk2] Hw].
    assert (Hq : trd D (wld s) (wld s2)).
    { destruct Hw as [Hq|(d & fol & a & rest & -> & Ht & Hwt)]; [apply quiet_trd; exact Hq|].
      destruct (Hok d fol a rest (or_introl eq_refl) Ht) as [[Hs Hn]|Hin].
      - rewrite (temp_sat_noop _ _ _ (temp_sat_agree D F0 _ (tlp src a) _ HA Hn Hs)) in Hwt. inversion Hwt. apply trd_refl.
      - apply (write_temp_trd D _ _ _ _ Hin Hwt). }
    assert (HA2 : agree (in_paths D) F0 (w_fs (wld s2))).
    { apply (agree_trans _ _ (w_fs (wld s))); [exact HA|apply trd_agree; exact Hq]. }
    assert (Hok2 : temps_ok_in F0 r).
    { intros d fol a rest Hin. apply (Hok d fol a rest). right. exact Hin. }
    specialize (IH s2 p buf2 Hk2 HA2 Hok2).
    destruct (rit r s2) as [s'|k w|]; [|eapply trd_trans; eauto|exact I].
    destruct IH as [Hb Hq2]. split; [exact Hb|eapply trd_trans; eauto].
Qed.
End MemPassD.

(* the output has been replaced, by one write *)
Definition out_replaced (out : path) (w w' : world) : Prop :=
  fs_get (w_fs w') out <> fs_get (w_fs w) out /\
  (forall q, q <> out -> fs_get (w_fs w') q = fs_get (w_fs w) q) /\
  w_log w' = w_log w ++ [EWrite out] /\ same_dirs w w'.

Lemma out_replaced_trd D out w w' : In out D -> out_replaced out w w' -> trd D w w'.
Proof.
  intros Hin (_ & Hfr & HL & Hsd). split; [|exact Hsd].
  apply (tr_one _ w w' (EWrite out) HL Hin). intros p Hp. apply Hfr. intros ->. apply Hp. reflexivity.
Qed.

Lemma mem_sink_done1 out b w : lex_normalize out = out ->
  match sink_done (SMem out b) w with
  | inl w2 => w2 = w \/ out_replaced out w w2
  | inr _ => True
  end.
Proof.
  intros Hno. cbn [sink_done].
  assert (W : match w_write w out b with
              | Some w' => fs_get (w_fs w) out <> Some (File b) -> out_replaced out w w'
              | None => True end).
  { destruct (w_write w out b) as [w'|] eqn:E; [|exact I]. pose proof (sd_write _ _ _ _ E) as Hsd.
    unfold w_write in E. destruct (write_target (w_fs w) out) as [q|] eqn:Ew; [|discriminate].
    pose proof (write_target_normalize _ _ _ Ew) as Eq. rewrite Hno in Eq. subst q.
    pose proof (write_target_nonempty _ _ _ Ew) as Hne. inversion E; subst w'. intros Hd.
    split; [|split; [|split; [reflexivity|exact Hsd]]]; cbn [w_fs].
    - rewrite (fs_get_put_same (w_fs w) out (File b) Hne). intros E'. apply Hd. symmetry. exact E'.
    - intros q Hq. apply fs_get_put_other. congruence. }
  destruct (fs_get (w_fs w) out) as [[c|]|] eqn:G.
  - destruct (str_eqb c b) eqn:Ec; [left; reflexivity|].
    destruct (w_write w out b); [|exact I]. right. apply W. intros E'. inversion E'; subst.
    rewrite (proj2 (str_eqb_eq b b) eq_refl) in Ec. discriminate.
  - exact I.
  - destruct (w_write w out b); [|exact I]. right. apply W. discriminate.
Qed.

Lemma mem_epilogue1 le tn s out buf : snk s = SMem out buf -> lex_normalize out = out ->
  match epilogue Build le tn s with
  | PpOk w' => w' = wld s \/ out_replaced out (wld s) w'
  | PpHasDeps _ w' => w' = wld s
  | PpErr _ w' => w' = wld s
  | PpPanic => True
  end.
Proof.
  intros Hk Hno. unfold epilogue.
  assert (G :
    match (if has_tags (tg s) && negb (mode_eqb Build Clean)
           then PpErr KDirective (wld s)
           else match (if flag s && tn then sink_write (snk s) (wld s) le else inl (snk s, wld s)) with
                | inl (k1, w1) => match sink_done k1 w1 with inl w2 => PpOk w2 | inr k => PpErr k w1 end
                | inr k => PpErr k (wld s)
                end) with
    | PpOk w' => w' = wld s \/ out_replaced out (wld s) w'
    | PpHasDeps _ w' => w' = wld s
    | PpErr _ w' => w' = wld s
    | PpPanic => True
    end).
  { destruct (has_tags (tg s) && negb (mode_eqb Build Clean)); [reflexivity|].
    rewrite Hk. destruct (flag s && tn); cbn [sink_write].
    - pose proof (mem_sink_done1 out (buf ++ le) (wld s) Hno) as H.
      destruct (sink_done (SMem out (buf ++ le)) (wld s)); [exact H|reflexivity].
    - pose proof (mem_sink_done1 out buf (wld s) Hno) as H.
      destruct (sink_done (SMem out buf) (wld s)); [exact H|reflexivity]. }
  destruct (pmode s); [exact G|exact G|reflexivity].
Qed.

(* every temp directive of the source f (as it is in the world v) either finds its content in place in the tree of v,
   at a path that is not stale, or has a stale target *)
Definition src_temps_ok_in (D : list path) (v : world) (f : path) : Prop :=
  match read_file (w_fs v) f with
  | Some raw => temps_ok_in f (detect_le raw) D (w_fs v) (items_of' Build raw)
  | None => True
  end.

(* a `--needed` pass when the paths of D may be stale: every write before the end of the pass is on D; a successful
   pass may moreover replace its output *)
Lemma needed_pass_trd orc base f b tn D v out :
  remove_txtpp f = Some out -> lex_normalize out = out -> src_temps_ok_in D v f ->
  match pp_run orc InMemoryBuild base f b tn v with
  | PpOk v' => exists m, trd D v m /\ (v' = m \/ out_replaced out m v')
  | PpHasDeps _ v' => trd D v v'
  | PpErr _ v' => trd D v v'
  | PpPanic => True
  end.
Proof.
  intros Ho Hno Hok. rewrite needed_run_unfold. unfold src_temps_ok_in in Hok.
  destruct (read_file (w_fs v) f) as [raw|]; [|apply trd_refl].
  rewrite Ho. destruct (is_txtpp_file out); [apply trd_refl|].
  rewrite pp_rest_items. cbv zeta.
  unfold items_of' in Hok. rewrite lsplit_parse in Hok.
  set (sp := lsplit (mode_eqb Build Clean) None (fst (take_valid (lines raw)))) in *.
  set (s0 := mkP None false (if b then PFirst else PExec) tags_new (SMem out []) v).
  set (le := detect_le raw) in *.
  assert (Hok1 : temps_ok_in f le D (w_fs v) (fst sp)).
  { intros d fol a rest Hin. apply (Hok d fol a rest). apply in_or_app. left. exact Hin. }
  pose proof (ritems_trd orc f base le D (fst sp) (w_fs v) s0 out [] eq_refl (agree_refl _ _) Hok1) as H1.
  destruct (ritems orc Build f base le (fst sp) s0) as [a|k w|]; [|exact H1|exact I].
  destruct H1 as [[buf1 Hk1] Hq1]. change (wld s0) with v in Hq1.
  destruct (snd (take_valid (lines raw))); [exact Hq1|].
  assert (Hok2 : temps_ok_in f le D (w_fs v) (pend (snd sp))).
  { intros d fol a0 rest Hin. apply (Hok d fol a0 rest). apply in_or_app. right. exact Hin. }
  pose proof (ritems_trd orc f base le D (pend (snd sp)) (w_fs v) a out buf1 Hk1 (trd_agree _ _ _ Hq1) Hok2) as H2.
  destruct (ritems orc Build f base le (pend (snd sp)) a) as [b'|k w|]; [|eapply trd_trans; eauto|exact I].
  destruct H2 as [[buf2 Hk2] Hq2].
  pose proof (mem_epilogue1 le tn b' out buf2 Hk2 Hno) as H3.
  assert (Hq : trd D v (wld b')) by (eapply trd_trans; eauto).
  destruct (epilogue Build le tn b') as [w'|ds w'|k w'|]; try (subst w'; exact Hq); [|exact I].
  exists (wld b'). split; [exact Hq|exact H3].
Qed.

(* ================================================================================================
   PART B — the lock-step of a Build run from the ORIGINAL tree w0 (first run: it carries the invariants of
   ScheduleTempFacts) and a `--needed` run from a world wS that differs from the BUILT tree w1 on D.
   ================================================================================================ *)
Definition errb (r : result) : bool :=
  match r with RScan None => true | RPp _ None => true | _ => false end.
Lemma errb_is_err r : errb r = true <-> is_err r.
Proof. destruct r as [[x|]|f [x|]]; cbn; split; intros H; try discriminate; try exact I; try reflexivity; destruct H. Qed.

Section Stale.
Variable orc : oracle.
Variable cfg : config.
Variable base : path.
Variable w0 : world.
Hypothesis HS : sched_ok_temps w0.
Hypothesis HN : needed_ok w0.
Hypothesis HD : temps_distinct w0.
Hypothesis HT : static_ok_temps (foots w0) w0.
Variables files dirs : list path.
Local Notation cfgB := (with_mode cfg Build).
Local Notation cfgN := (with_mode cfg InMemoryBuild).
Local Notation tn := (cfg_trailing cfg).
Local Notation is_src := (is_source w0).
Local Notation lastf := (lastflag w0).
Local Notation fpf := (fp w0).

(* what the first, successful, Build run has established: S1 the files it has seen, w1 the world it ended in *)
Variables S1 Dd1 : list path.
Hypothesis Hcl : closed cfgB w0 files dirs S1 Dd1.
Variable w1 : world.
Hypothesis HA1 : agree nt (w_fs w0) (w_fs w1).
Hypothesis HB1 : forall p, ~ In p (foots w0) -> fs_get (w_fs w1) p = fs_get (w_fs w0) p.
Hypothesis HFP : forall f out, In f S1 -> is_src f out -> FPT orc cfgB base w0 f out w1.

(* the stale paths, and the world the `--needed` run starts from (only its log matters here) *)
Variable D : list path.
Hypothesis HDf : forall p, In p D -> In p (foots w0).
Variable wS : world.

Lemma HC1 : forall f q, In f S1 -> In q (sdeps w0 f) -> In q S1.
Proof. intros f q Hf Hq. destruct Hcl as (_ & _ & _ & H). apply (H f Hf q Hq). Qed.

Lemma fp_disjoint f out g outg p : is_src f out -> is_src g outg -> In p (fpf f) -> In p (fpf g) -> f = g.
Proof.
  intros Hf Hg Hpf Hpg. destruct (path_dec g f) as [E|Hne]; [symmetry; exact E|]. exfalso.
  destruct (HS f out Hf) as (_ & _ & _ & _ & _ & Hx). destruct (Hx g outg Hg Hne) as [Hd _]. exact (Hd p Hpg Hpf).
Qed.

(* the `--needed` side: the tree agrees with the built tree outside D, and so far only D has been written *)
Definition Yc (wY : world) : Prop :=
  agree (in_paths D) (w_fs w1) (w_fs wY) /\ exists evs, w_log wY = w_log wS ++ evs /\ Forall (ev_in D) evs.

Lemma Yc_trd wY wY' : Yc wY -> trd D wY wY' -> Yc wY'.
Proof.
  intros [A (evs & L & F)] H. split; [apply (agree_trans _ _ (w_fs wY)); [exact A|apply trd_agree; exact H]|].
  destruct H as [(evs' & L' & F' & _) _]. exists (evs ++ evs'). split; [rewrite L', L, app_assoc; reflexivity|].
  apply Forall_app. split; assumption.
Qed.

Lemma D_not_txtpp p : In p D -> is_txtpp_file p = false.
Proof. intros H. apply (foots_not_txtpp w0 HS). apply HDf. exact H. Qed.

(* one task of the `--needed` run *)
Lemma needed_task_trd t r wY wY' : Yc wY -> Pq w0 S1 t r ->
  exec_task orc cfgN base t wY = Some (r, wY') ->
  trd D wY wY' \/
  exists f b out m, t = TPp f b /\ r = RPp f (Some POk) /\ is_src f out /\ b = lastf f /\
                    trd D wY m /\ out_replaced out m wY'.
Proof.
  intros [A HL] HP Hex. destruct t as [d|f b].
  - cbn [exec_task] in Hex. inversion Hex; subst. left. apply trd_refl.
  - destruct HP as [HinS Hlast].
    rewrite exec_task_pp in Hex. cbn [with_mode cfg_mode cfg_trailing] in Hex. cbv zeta in Hex.
    destruct (read_file (w_fs wY) f) as [raw|] eqn:Er.
    2:{ rewrite (pp_run_unreadable _ _ _ _ _ _ wY Er) in Hex. cbn in Hex. inversion Hex; subst. left. apply trd_refl. }
    destruct (remove_txtpp f) as [out|] eqn:Ho.
    2:{ rewrite (pp_run_no_out _ _ _ _ _ _ wY Ho) in Hex. cbn in Hex. inversion Hex; subst. left. apply trd_refl. }
    assert (HfD : ~ In f D).
    { intros Hin. apply D_not_txtpp in Hin. rewrite (remove_txtpp_is_txtpp f out Ho) in Hin. discriminate. }
    assert (Ef : fs_get (w_fs wY) f = fs_get (w_fs w1) f).
    { symmetry. apply (proj1 A). apply in_paths_false. exact HfD. }
    assert (Er1 : read_file (w_fs w1) f = Some raw) by (unfold read_file in *; rewrite <- Ef; exact Er).
    pose proof (source_in_world w0 w1 f out raw HA1 Ho Er1) as Hsrc.
    destruct (HS f out Hsrc) as (_ & Hno & _).
    destruct (fpt_needed_fix orc cfg base w0 HS HN HD f out w1 w1 Hsrc HA1 (HFP f out HinS Hsrc) (fun p => eq_refl))
      as (_ & _ & _ & Hsat).
    assert (Hok : src_temps_ok_in D wY f).
    { unfold src_temps_ok_in, src_temps_sat in *. rewrite Er. rewrite Er1 in Hsat.
      intros d fol a rest Hin Ht. destruct (in_paths_dec D (tpath f a)) as [HinD|HnD]; [right; exact HinD|left].
      split; [|exact HnD]. apply (temp_sat_agree D (w_fs w1) (w_fs wY) (tlp f a) _ A HnD).
      apply (Hsat d fol a rest Hin Ht). }
    pose proof (needed_pass_trd orc base f b tn D wY out Ho Hno Hok) as H.
    destruct (pp_run orc InMemoryBuild base f b tn wY) as [a|ds a|k a|] eqn:E; cbn in Hex; try discriminate;
      inversion Hex; subst r wY'; cbn [out_world]; try (left; exact H).
    destruct H as (m & Hm & [->|Hrep]); [left; exact Hm|right].
    exists f, b, out, m. split; [reflexivity|]. split; [reflexivity|]. split; [exact Hsrc|].
    split; [apply (Hlast f eq_refl)|]. split; assumption.
Qed.

(* ---- the index of the simulation: the set D' on which the two worlds may differ, and "no task has failed yet" ---- *)
Definition Ix : Type := (list path * bool)%type.
Definition updX (i : Ix) (t : task) (r : result) : Ix := (updN w0 (fst i) t r, snd i && negb (errb r)).
Definition RelX (i : Ix) (wX wY : world) : Prop := stale_rel (fst i) wX wY /\ (snd i = true -> Yc wY).

(* every path of D' is in the footprint of a source that is not finished *)
Definition D_inv (D' : list path) (unfinished : path -> Prop) : Prop :=
  forall p, In p D' -> In p (foots w0) /\ exists f out, is_src f out /\ In p (fpf f) /\ unfinished f.

Definition JX (i : Ix) (g : gstate) (wX : world) : Prop :=
  JLT w0 S1 Dd1 g wX /\ JQT w0 (QBT w0 S1 w1) g wX /\
  D_inv (fst i) (fun f => ~ finished g f) /\ snd i = true.
Definition JXd (i : Ix) (l : list task) (wX : world) : Prop :=
  snd i = false /\ agree nt (w_fs w0) (w_fs wX) /\
  exists F : list path,
    D_inv (fst i) (fun f => ~ In f F) /\
    (forall f q, In (TPp f false) l -> In q (sdeps w0 f) -> In q F /\ exists oq, is_src q oq) /\
    (forall h b, In (TPp h b) l -> ~ In h F).

Lemma safeX D' wX f b :
  agree nt (w_fs w0) (w_fs wX) -> (forall p, In p D' -> In p (foots w0)) -> (b = false -> deps_freshT w0 D' f) ->
  stale_safeT w0 D' (TPp f b) wX /\ needed_safe (TPp f b) wX.
Proof.
  intros A Hsub Hfr. split.
  - apply (WiT_safe (foots w0) w0 HT D' wX f b (conj Hsub A) Hfr).
  - apply (safe_intro w0 HS HN [] wX f b A). intros p [].
Qed.

Lemma fresh_intro D' (unf : path -> Prop) f :
  D_inv D' unf -> (forall q, In q (sdeps w0 f) -> (exists oq, is_src q oq) /\ ~ unf q) -> deps_freshT w0 D' f.
Proof.
  intros HDi Hq q p Hin Hp HpD. destruct (Hq q Hin) as [[oq Hsq] Hnu].
  destruct (HDi p HpD) as (_ & f' & out' & Hs' & Hp' & Hu).
  assert (f' = q) by (apply (fp_disjoint f' out' q oq p Hs' Hsq Hp' Hp)). subst f'. exact (Hnu Hu).
Qed.

Lemma JX_safe i g wX f b : greach files dirs g -> JX i g wX -> In (TPp f b) (inflight (gs g)) ->
  stale_safeT w0 (fst i) (TPp f b) wX /\ needed_safe (TPp f b) wX.
Proof.
  intros R (HJ1 & _ & HDi & _) Hin. pose proof HJ1 as ((HB & _) & _). pose proof HB as (A & _ & _ & G1 & _ & G3).
  apply safeX; [exact A|intros p Hp; apply (HDi p Hp)|]. intros ->.
  apply (fresh_intro (fst i) (fun f => ~ finished g f)); [exact HDi|].
  intros q Hq.
  destruct (final_inflight_reported files dirs g f R Hin) as [ds Hd].
  destruct (G1 f ds Hd) as [-> _].
  assert (Hfq : finished g q).
  { apply (final_pass_deps_finished files dirs g R f q Hin). exists (sdeps w0 f). split; assumption. }
  split; [apply (G3 q Hfq)|]. intros Hn. exact (Hn Hfq).
Qed.

Lemma JXd_safe i l wX f b : JXd i l wX -> In (TPp f b) l ->
  stale_safeT w0 (fst i) (TPp f b) wX /\ needed_safe (TPp f b) wX.
Proof.
  intros (_ & A & F & HDi & Hdeps & Hl) Hin.
  apply safeX; [exact A|intros p Hp; apply (HDi p Hp)|]. intros ->.
  apply (fresh_intro (fst i) (fun f => ~ In f F)); [exact HDi|].
  intros q Hq. destruct (Hdeps f q Hin Hq) as [HqF Hsq]. split; [exact Hsq|]. intros Hn. exact (Hn HqF).
Qed.

(* the invariant on D' after a task *)
Lemma D_inv_upd D' (unf unf' : path -> Prop) t r :
  D_inv D' unf ->
  (forall h b g x, t = TPp h b -> r = RPp g x -> x <> Some POk -> unf' h) ->
  (forall f, unf f -> unf' f \/ (exists b, t = TPp f b) /\ exists g, r = RPp g (Some POk)) ->
  D_inv (updN w0 D' t r) unf'.
Proof.
  intros HDi Ht Hstep p Hp. destruct (in_updN _ _ _ _ _ Hp) as [H1|H1].
  - destruct (in_pending_src _ _ _ _ H1) as (h & b & g' & x & Et & Er & Hx & Hs).
    split; [apply (foots_in w0 h p p Hs (out_in_fp w0 h p (proj1 Hs)))|].
    exists h, p. split; [exact Hs|]. split; [apply (out_in_fp w0 h p (proj1 Hs))|apply (Ht h b g' x Et Er Hx)].
  - destruct (HDi p H1) as (Hf & f & out & Hs & Hpf & Hu). split; [exact Hf|].
    exists f, out. split; [exact Hs|]. split; [exact Hpf|].
    destruct (Hstep f Hu) as [H|[[b ->] [g' ->]]]; [exact H|]. exfalso.
    unfold updN in Hp. apply in_app_or in Hp. destruct Hp as [Hp|Hp].
    + cbn [pending_src pending_out] in Hp. destruct (read_file (w_fs w0) f); destruct Hp.
    + cbn [stale_updT] in Hp. apply in_drop_paths in Hp. apply (proj2 Hp). exact Hpf.
Qed.

Lemma JX_step i g wX t rest r wX' s2 :
  greach files dirs g -> JX i g wX -> Permutation (inflight (gs g)) (t :: rest) ->
  exec_task orc cfgB base t wX = Some (r, wX') -> handle (with_inflight (gs g) rest) r = Continue s2 ->
  JX (updX i t r) (mkG s2 (report t r (reported g)) (history g ++ [t])) wX'.
Proof.
  intros R (HJ1 & HJ2 & HDi & Hok) HP Hex Hh.
  set (g2 := mkG s2 (report t r (reported g)) (history g ++ [t])).
  assert (Hans := exec_task_answers orc cfgB base _ _ _ _ Hex).
  assert (Ht : In t (inflight (gs g))).
  { eapply Permutation_in; [apply Permutation_sym; exact HP|]. left. reflexivity. }
  assert (Hfin2 : forall f, finished g2 f -> finished g f \/ r = RPp f (Some POk)).
  { intros f Hf. unfold finished in *. cbn [g2 gs] in Hf. apply pmem_In in Hf.
    destruct (inv_reach _ _ _ R) as [HPi _].
    destruct (handle_fin (with_inflight (gs g) rest) r s2 f (i_dm HPi) Hh Hf) as [H|H]; [left; apply pmem_In; exact H|right; exact H]. }
  split; [apply (JLT_step orc cfgB base eq_refl w0 HS files dirs S1 Dd1 Hcl g wX t rest r wX' s2 R HJ1 HP Hex Hh)|].
  split; [apply (JQT_step orc cfgB base eq_refl w0 HS files dirs (QBT w0 S1 w1)
                   (QBT_stable orc cfgB base w0 HS files dirs S1 w1)
                   (QBT_intro orc cfgB base w0 HS files dirs S1 w1 HA1 HB1 HFP HC1) g wX t rest r wX' s2 R HJ2 HP Hex Hh)|].
  split.
  - cbn [updX fst]. apply (D_inv_upd (fst i) (fun f => ~ finished g f) (fun f => ~ finished g2 f) t r HDi).
    + intros h b g' x -> -> Hx Hf. destruct (Hfin2 h Hf) as [Hold|Hnew].
      * exact (finished_not_inflight files dirs g R h b Hold Ht).
      * inversion Hnew; subst. apply Hx. reflexivity.
    + intros f Hnf. unfold finished at 1. destruct (pmem f (fin (dm (gs g2)))) eqn:Ef; [|left; discriminate].
      right. destruct (Hfin2 f Ef) as [Hold|Hnew]; [contradiction|]. subst r.
      destruct t as [d|f0 b0]; [destruct Hans|]. destruct Hans as [<- _]. split; eexists; reflexivity.
  - cbn [updX snd]. rewrite Hok. cbn [andb]. destruct (errb r) eqn:Ee; [|reflexivity].
    apply errb_is_err in Ee. exfalso. exact (handle_continue_not_err _ _ _ Hh Ee).
Qed.

Lemma JX_fail i g wX t rest r wX' :
  greach files dirs g -> JX i g wX -> Permutation (inflight (gs g)) (t :: rest) ->
  exec_task orc cfgB base t wX = Some (r, wX') -> handle (with_inflight (gs g) rest) r = Fail ->
  JXd (updX i t r) rest wX'.
Proof.
  intros R (HJ1 & HJ2 & HDi & Hok) HP Hex Hh.
  pose proof HJ1 as ((HB & _) & _). pose proof HB as (A & _ & _ & G1 & _ & G3).
  assert (Ht : In t (inflight (gs g))).
  { eapply Permutation_in; [apply Permutation_sym; exact HP|]. left. reflexivity. }
  assert (Hrest : forall x, In x rest -> In x (inflight (gs g))).
  { intros x Hx. eapply Permutation_in; [apply Permutation_sym; exact HP|]. right. exact Hx. }
  split; [|split; [apply (agree_step orc cfg base w0 HS wX t r wX' A Hex)|]].
  - cbn [updX snd]. apply handle_fail_is_err in Hh. apply errb_is_err in Hh. rewrite Hh. apply andb_false_r.
  - exists (fin (dm (gs g))). split; [|split].
    + cbn [updX fst]. apply (D_inv_upd (fst i) (fun f => ~ finished g f) (fun f => ~ In f (fin (dm (gs g)))) t r HDi).
      * intros h b g' x -> _ _ Hf. apply pmem_In in Hf. exact (finished_not_inflight files dirs g R h b Hf Ht).
      * intros f Hnf. left. intros Hf. apply Hnf. apply pmem_In. exact Hf.
    + intros f q Hin Hq. apply Hrest in Hin.
      destruct (final_inflight_reported files dirs g f R Hin) as [ds Hd].
      destruct (G1 f ds Hd) as [-> _].
      assert (Hfq : finished g q).
      { apply (final_pass_deps_finished files dirs g R f q Hin). exists (sdeps w0 f). split; assumption. }
      split; [apply pmem_In; exact Hfq|apply (G3 q Hfq)].
    + intros h b Hin Hf. apply Hrest in Hin. apply pmem_In in Hf.
      exact (finished_not_inflight files dirs g R h b Hf Hin).
Qed.

Lemma JXd_step i l wX t r wX' l' :
  JXd i l wX -> In t l -> exec_task orc cfgB base t wX = Some (r, wX') -> (forall x, In x l' -> In x l) ->
  JXd (updX i t r) l' wX'.
Proof.
  intros (Hok & A & F & HDi & Hdeps & Hl) Ht Hex Hsub.
  split; [cbn [updX snd]; rewrite Hok; reflexivity|]. split; [apply (agree_step orc cfg base w0 HS wX t r wX' A Hex)|].
  exists F. split; [|split].
  - cbn [updX fst]. apply (D_inv_upd (fst i) (fun f => ~ In f F) (fun f => ~ In f F) t r HDi).
    + intros h b g' x -> _ _. apply (Hl h b Ht).
    + intros f Hf. left. exact Hf.
  - intros f q Hin Hq. apply (Hdeps f q (Hsub _ Hin) Hq).
  - intros h b Hin. apply (Hl h b (Hsub _ Hin)).
Qed.

Lemma JX_sim i g wX wY t r wX' :
  greach files dirs g -> JX i g wX -> RelX i wX wY -> In t (inflight (gs g)) ->
  exec_task orc cfgB base t wX = Some (r, wX') ->
  exists wY', exec_task orc cfgN base t wY = Some (r, wY') /\ RelX (updX i t r) wX' wY'.
Proof.
  intros R HJ [HR HY] Hin Hex. pose proof HJ as (HJ1 & HJ2 & HDi & Hok).
  pose proof HJ1 as ((HB & _) & _ & HsS & _). pose proof HB as (A & _).
  assert (Hsafe : stale_safeT w0 (fst i) t wX /\ needed_safe t wX).
  { destruct t as [d|f b]; [split; exact I|apply (JX_safe i g wX f b R HJ Hin)]. }
  destruct (needed_build_step orc cfg base w0 (fst i) t wX wY r wX' HR (proj1 Hsafe) (proj2 Hsafe) Hex) as (wY' & EN & HR').
  exists wY'. split; [exact EN|]. split; [exact HR'|]. intros _.
  specialize (HY Hok).
  assert (HP : Pq w0 S1 t r).
  { destruct t as [d|f b]; [exact I|].
    apply (pq_intro orc cfg base w0 HS S1 wX f b r wX' A); [|intros ->; eapply Jq_final; eauto|exact Hex].
    apply HsS. apply (inflight_seen files dirs g (TPp f b) R Hin). }
  destruct (needed_task_trd t r wY wY' HY HP EN) as [Htr|(f & b & out & m & -> & -> & Hsrc & Eb & Hm & Hrep)];
    [apply (Yc_trd wY wY' HY Htr)|].
  destruct (in_paths_dec D out) as [HinD|HnD].
  - apply (Yc_trd wY wY' HY). apply (trd_trans D _ m); [exact Hm|apply (out_replaced_trd D out m wY' HinD Hrep)].
  - exfalso. destruct HP as [HinS _].
    (* the Build side: the output now holds the built content *)
    assert (E : pp_run orc Build base f b tn wX = PpOk wX').
    { rewrite exec_task_pp in Hex. cbn [with_mode cfg_mode cfg_trailing] in Hex. cbv zeta in Hex.
      destruct (pp_run orc Build base f b tn wX) as [a|ds a|k a|]; cbn in Hex; try discriminate.
      inversion Hex; subst. reflexivity. }
    subst b.
    pose proof (QBT_intro orc cfgB base w0 HS files dirs S1 w1 HA1 HB1 HFP HC1 g wX f out wX' R (proj1 HJ2) Hsrc Hin
                  (proj2 HJ2) E HinS out (out_in_fp w0 f out (proj1 Hsrc))) as HX.
    assert (HXY : fs_get (w_fs wX') out = fs_get (w_fs wY') out).
    { apply (proj1 (sr_agree _ _ _ HR')). apply in_paths_false. intros Hp.
      unfold updN in Hp. apply in_app_or in Hp. destruct Hp as [Hp|Hp].
      - cbn [pending_src pending_out] in Hp. destruct (read_file (w_fs w0) f); destruct Hp.
      - cbn [stale_updT] in Hp. apply in_drop_paths in Hp. apply (proj2 Hp). apply (out_in_fp w0 f out (proj1 Hsrc)). }
    destruct Hrep as (Hne & _). apply Hne.
    rewrite <- HXY, HX, (trd_frame D wY m out Hm HnD). apply (proj1 (proj1 HY)). apply in_paths_false. exact HnD.
Qed.

Lemma JXd_sim i l wX wY t r wX' :
  JXd i l wX -> RelX i wX wY -> In t l ->
  exec_task orc cfgB base t wX = Some (r, wX') ->
  exists wY', exec_task orc cfgN base t wY = Some (r, wY') /\ RelX (updX i t r) wX' wY'.
Proof.
  intros HJ [HR _] Hin Hex. pose proof HJ as (Hok & _).
  assert (Hsafe : stale_safeT w0 (fst i) t wX /\ needed_safe t wX).
  { destruct t as [d|f b]; [split; exact I|apply (JXd_safe i l wX f b HJ Hin)]. }
  destruct (needed_build_step orc cfg base w0 (fst i) t wX wY r wX' HR (proj1 Hsafe) (proj2 Hsafe) Hex) as (wY' & EN & HR').
  exists wY'. split; [exact EN|]. split; [exact HR'|]. cbn [updX snd]. rewrite Hok. discriminate.
Qed.

(* T3 at the level of the coordinator loop *)
Theorem stale_loop fuel sched wY0 :
  raw_ok w0 -> stale_rel (foots w0) w0 wY0 -> Yc wY0 ->
  let xb := run_loop orc cfgB base fuel sched (gs (ginit files dirs)) w0 [] in
  let x2 := run_loop orc cfgN base fuel sched (gs (ginit files dirs)) wY0 [] in
  verdict_of xb = verdict_of x2 /\ trace_of xb = trace_of x2 /\ state_of xb = state_of x2 /\
  (verdict_of xb = VOk ->
     Yc (world_of x2) /\
     forall f out p, In f (seen (state_of xb)) -> is_src f out -> In p (fpf f) ->
       fs_get (w_fs (world_of x2)) p = fs_get (w_fs w1) p).
Proof.
  intros N HR0 HY0 xb x2.
  destruct (loop_sim2 orc cfgB cfgN base files dirs Ix RelX updX JX JXd (fun _ _ => True)
              (fun _ _ _ _ _ _ _ _ _ _ => I) (fun _ _ _ _ _ _ _ _ _ => I) JX_sim JX_step JX_fail JXd_sim JXd_step)
    with (fuel := fuel) (i := (foots w0, true)) (sched := sched) (g := ginit files dirs) (w1 := w0) (w2 := wY0)
         (tr := @nil (task * result))
    as (Hv & Ht & Hs & added & Ea & HRa & _ & Hok).
  - apply greach_init.
  - assert (Hnf : forall f, ~ finished (ginit files dirs) f).
    { intros f Hf. unfold finished, ginit in Hf. cbn [gs] in Hf. rewrite dm_fold_dir, dm_fold_file in Hf. discriminate. }
    split; [|split; [apply JQT_init|split; [|reflexivity]]].
    + split; [apply JQT_init|]. split; [split; [exact N|reflexivity]|]. destruct Hcl as (Hf & Hd & _).
      unfold ginit. cbn [gs]. split.
      * intros f Hin. rewrite seen_fold_dir_eq in Hin. apply seen_fold_file_inv in Hin.
        destruct Hin as [[]|[_ Hin]]. apply Hf. exact Hin.
      * intros d Hin. apply seen_dirs_fold_dir_inv in Hin. rewrite seen_dirs_fold_file in Hin.
        destruct Hin as [[]|Hin]. apply Hd. exact Hin.
    + intros p Hp. cbn [fst] in Hp. split; [exact Hp|]. destruct (in_foots w0 p Hp) as (f & out & Hsf & Hpf).
      exists f, out. split; [exact Hsf|]. split; [exact Hpf|apply Hnf].
  - split; [exact HR0|intros _; exact HY0].
  - fold xb x2 in Hv, Ht, Hs, Ea, HRa, Hok.
    split; [exact Hv|]. split; [exact Ht|]. split; [exact Hs|]. intros Hvok.
    destruct (Hok Hvok) as (g' & R' & Eg & Hfl & Hfin & (HJ1 & HJ2 & HDi & Hokf)).
    destruct HRa as [HRf HYf]. split; [apply HYf; exact Hokf|].
    intros f out p Hseen Hsrc Hp.
    assert (Hff : finished g' f) by (apply Hfin; unfold is_seen; apply pmem_In; rewrite Eg; exact Hseen).
    pose proof HJ1 as (_ & _ & HsS & _).
    assert (HinS : In f S1) by (apply HsS; rewrite Eg; exact Hseen).
    rewrite <- (proj2 HJ2 f out Hff Hsrc HinS p Hp).
    symmetry. apply (proj1 (sr_agree _ _ _ HRf)). apply in_paths_false. intros HpD.
    destruct (HDi p HpD) as (_ & f' & out' & Hs' & Hp' & Hnf).
    assert (f' = f) by (apply (fp_disjoint f' out' f out p Hs' Hsrc Hp' Hp)). subst f'. exact (Hnf Hff).
Qed.
End Stale.

(* ================================================================================================
   T3.  w is the original tree; a Build run from w (fuel1, sched1) succeeds and ends in the built world w1.  The world wS
   differs from w1 on a set D of generated paths (paths of footprints: outputs and temp files of sources, with any
   content or absent; `stale_rel D w1 wS`).  A `--needed` run from wS (ANY fuel2, sched2):
     - has the verdict and the trace of a Build run from w with that schedule and fuel;
     - if it succeeds: every EWrite of its log is on a path of D, there is no ERemove; every path outside D holds what
       it holds in w1; and so does every path of the footprint (output, temp files) of every source it has processed.
   ================================================================================================ *)
Theorem needed_updates_exactly_stale orc cfg fuel1 sched1 fuel2 sched2 w wS D :
  raw_ok w -> sched_ok_temps w -> static_ok_temps (foots w) w -> needed_ok w -> temps_distinct w ->
  ~ In (lex_normalize (cfg_base cfg)) (foots w) ->
  Forall (input_safe (foots w) (lex_normalize (cfg_base cfg))) (cfg_inputs cfg) ->
  let x1 := txtpp_run orc (with_mode cfg Build) fuel1 sched1 w in
  verdict_of x1 = VOk ->
  (forall p, In p D -> In p (foots w)) -> stale_rel D (world_of x1) wS ->
  let x2 := txtpp_run orc (with_mode cfg InMemoryBuild) fuel2 sched2 wS in
  let xb := txtpp_run orc (with_mode cfg Build) fuel2 sched2 w in
  verdict_of x2 = verdict_of xb /\ trace_of x2 = trace_of xb /\
  (verdict_of x2 = VOk ->
     (exists evs, w_log (world_of x2) = w_log wS ++ evs /\ Forall (ev_in D) evs) /\
     (forall p, ~ In p D -> fs_get (w_fs (world_of x2)) p = fs_get (w_fs (world_of x1)) p) /\
     (forall f out p, In f (seen (state_of x2)) -> is_source w f out -> In p (fp w f) ->
        fs_get (w_fs (world_of x2)) p = fs_get (w_fs (world_of x1)) p)).
Proof.
  intros N HS HT HN HD Hb Hin x1 Hv1 HDf HRD x2 xb.
  assert (Hpre : exists base files dirs,
            (cfg_threads cfg =? 0) = false /\
            os_resolve (w_fs w) (cfg_base cfg) = Some base /\
            resolve_inputs (w_fs w) base (cfg_inputs cfg) [] [] = Some (files, dirs) /\
            x1 = run_loop orc (with_mode cfg Build) base fuel1 sched1 (gs (ginit files dirs)) w [] /\
            xb = run_loop orc (with_mode cfg Build) base fuel2 sched2 (gs (ginit files dirs)) w []).
  { subst x1 xb. unfold txtpp_run in *. cbn [with_mode cfg_threads cfg_base cfg_inputs] in *.
    destruct (cfg_threads cfg =? 0); [cbn in Hv1; discriminate|].
    destruct (os_resolve (w_fs w) (cfg_base cfg)) as [base|]; [|cbn in Hv1; discriminate].
    destruct (resolve_inputs (w_fs w) base (cfg_inputs cfg) [] []) as [[files dirs]|] eqn:Ei; [|cbn in Hv1; discriminate].
    exists base, files, dirs. split; [reflexivity|]. split; [reflexivity|]. split; [exact Ei|]. split; reflexivity. }
  destruct Hpre as (base & files & dirs & Eth & Eb & Ei & E1 & Exb).
  assert (Hv1' : verdict_of (run_loop orc (with_mode cfg Build) base fuel1 sched1 (gs (ginit files dirs)) w []) = VOk)
    by (rewrite <- E1; exact Hv1).
  destruct (build_run_facts orc (with_mode cfg Build) base w files dirs fuel1 sched1 eq_refl HS N Hv1')
    as (Hcl & HFP & A1 & SR1).
  rewrite <- E1 in Hcl, HFP, A1, SR1.
  set (w1 := world_of x1) in *.
  assert (SRS : stale_rel (foots w) w wS).
  { apply (stale_rel_trans _ _ w1); [exact SR1|]. apply (stale_rel_mono D); [exact HDf|exact HRD]. }
  assert (HB1 : forall p, ~ In p (foots w) -> fs_get (w_fs w1) p = fs_get (w_fs w) p).
  { intros p Hp. symmetry. apply (proj1 (sr_agree _ _ _ SR1)). apply in_paths_false. exact Hp. }
  (* the prelude of the `--needed` run from wS *)
  assert (Ex2 : x2 = run_loop orc (with_mode cfg InMemoryBuild) base fuel2 sched2 (gs (ginit files dirs)) wS []).
  { subst x2. unfold txtpp_run. cbn [with_mode cfg_threads cfg_base cfg_inputs]. rewrite Eth.
    rewrite <- (os_resolve_agree _ (w_fs w) (w_fs wS) (cfg_base cfg) (sr_agree _ _ _ SRS) (proj2 (in_paths_false _ _) Hb)), Eb.
    pose proof (os_resolve_normalize _ _ _ Eb) as Ebn. rewrite <- Ebn in Hin.
    rewrite <- (resolve_inputs_agree (foots w) (w_fs w) (w_fs wS) base _ (sr_agree _ _ _ SRS) Hin [] []), Ei. reflexivity. }
  assert (HY0 : Yc w1 D wS wS).
  { split; [exact (sr_agree _ _ _ HRD)|]. exists []. split; [symmetry; apply app_nil_r|constructor]. }
  destruct (stale_loop orc cfg base w HS HN HD HT files dirs _ _ Hcl w1 A1 HB1 HFP D HDf wS fuel2 sched2 wS N SRS HY0)
    as (Hv & Ht & Hs & Hok).
  rewrite <- Exb, <- Ex2 in Hv, Ht, Hs, Hok.
  split; [symmetry; exact Hv|]. split; [symmetry; exact Ht|]. intros Hv2. rewrite <- Hv in Hv2.
  destruct (Hok Hv2) as ([HA HL] & Hfp). split; [exact HL|]. split.
  - intros p Hp. symmetry. apply (proj1 HA). apply in_paths_false. exact Hp.
  - intros f out p Hseen. apply Hfp. rewrite Hs. exact Hseen.
Qed.

(* in particular: when every stale path belongs to the footprint of a source that the run processes, the run ends
   with the built tree *)
Corollary needed_rebuilds_stale orc cfg fuel1 sched1 fuel2 sched2 w wS D :
  raw_ok w -> sched_ok_temps w -> static_ok_temps (foots w) w -> needed_ok w -> temps_distinct w ->
  ~ In (lex_normalize (cfg_base cfg)) (foots w) ->
  Forall (input_safe (foots w) (lex_normalize (cfg_base cfg))) (cfg_inputs cfg) ->
  let x1 := txtpp_run orc (with_mode cfg Build) fuel1 sched1 w in
  verdict_of x1 = VOk ->
  stale_rel D (world_of x1) wS ->
  let x2 := txtpp_run orc (with_mode cfg InMemoryBuild) fuel2 sched2 wS in
  verdict_of x2 = VOk ->
  (forall p, In p D -> exists f out, In f (seen (state_of x2)) /\ is_source w f out /\ In p (fp w f)) ->
  w_eq (world_of x2) (world_of x1) /\
  exists evs, w_log (world_of x2) = w_log wS ++ evs /\ Forall (ev_in D) evs.
Proof.
  intros N HS HT HN HD Hb Hin x1 Hv1 HRD x2 Hv2 Hcov.
  assert (HDf : forall p, In p D -> In p (foots w)).
  { intros p Hp. destruct (Hcov p Hp) as (f & out & _ & Hsrc & Hpf). apply (foots_in w f out p Hsrc Hpf). }
  destruct (needed_updates_exactly_stale orc cfg fuel1 sched1 fuel2 sched2 w wS D N HS HT HN HD Hb Hin Hv1 HDf HRD)
    as (_ & _ & Hok).
  destruct (Hok Hv2) as (HL & Hout & Hfp). split; [|exact HL].
  intros p. destruct (in_paths_dec D p) as [HinD|HnD]; [|apply Hout; exact HnD].
  destruct (Hcov p HinD) as (f & out & Hseen & Hsrc & Hpf). apply (Hfp f out p Hseen Hsrc Hpf).
Qed.

(* ---- non-vacuity of T3: the tree of ScheduleTempFacts PART 6, built, then the temp file d/t and the output d/a are
   replaced by stale contents; d/b (which includes d/a) is left alone.  The `--needed` run (b.txtpp is looked at first)
   rewrites d/t and d/a, and only them — d/b is recomputed, found unchanged and not written ---- *)
Definition t_w1 : world := world_of (txtpp_run cx_orc (with_mode t_cfg Build) 9 [] t_w).
Definition t_wS : world := mkW (fs_put (fs_put (w_fs t_w1) t_t (File t_stale)) t_aout (File t_old)) [].

Lemma t_stale_rel : stale_rel [t_t; t_aout] t_w1 t_wS.
Proof.
  assert (N1 : raw_ok (mkW (w_fs t_w1) (w_log t_w1))).
  { unfold raw_ok. vm_compute. repeat constructor; cbn; intuition discriminate. }
  assert (E1 : t_w1 = mkW (w_fs t_w1) (w_log t_w1)) by (vm_compute; reflexivity).
  rewrite E1 at 1.
  apply (stale_rel_trans _ _ (mkW (fs_put (w_fs t_w1) t_t (File t_stale)) [])).
  - apply (stale_rel_mono [t_t]); [intros p [<-|[]]; left; reflexivity|].
    apply (stale_rel_put (w_fs t_w1) (w_log t_w1) [] t_t (Some t_stale)); [exact N1|vm_compute; reflexivity|vm_compute; reflexivity].
  - apply (stale_rel_mono [t_aout]); [intros p [<-|[]]; right; left; reflexivity|].
    apply (stale_rel_put (fs_put (w_fs t_w1) t_t (File t_stale)) [] [] t_aout (Some t_old));
      [unfold raw_ok; vm_compute; repeat constructor; cbn; intuition discriminate|vm_compute; reflexivity|vm_compute; reflexivity].
Qed.

Example needed_updates_exactly_stale_nonvacuous :
  verdict_of (txtpp_run cx_orc (with_mode t_cfg Build) 9 [] t_w) = VOk /\
  fs_get (w_fs t_wS) t_t = Some (File t_stale) /\ fs_get (w_fs t_wS) t_aout = Some (File t_old) /\
  (* whatever the schedule and the fuel: if the run succeeds, it writes on d/t and d/a only and ends with the built tree *)
  (forall fuel2 sched2,
     let x2 := txtpp_run cx_orc (with_mode t_cfg InMemoryBuild) fuel2 sched2 t_wS in
     verdict_of x2 = VOk ->
     (exists evs, w_log (world_of x2) = w_log t_wS ++ evs /\ Forall (ev_in [t_t; t_aout]) evs) /\
     (forall p, ~ In p [t_t; t_aout] -> fs_get (w_fs (world_of x2)) p = fs_get (w_fs t_w1) p)) /\
  (* a schedule that looks at b.txtpp first: success, exactly two writes, the built tree *)
  (let x2 := txtpp_run cx_orc (with_mode t_cfg InMemoryBuild) 9 [0; 1; 0; 0]%nat t_wS in
   verdict_of x2 = VOk /\ w_log (world_of x2) = [EWrite t_t; EWrite t_aout] /\ w_eq (world_of x2) t_w1).
Proof.
  assert (Hv : verdict_of (txtpp_run cx_orc (with_mode t_cfg Build) 9 [] t_w) = VOk) by (vm_compute; reflexivity).
  assert (HDf : forall p, In p [t_t; t_aout] -> In p (foots t_w)).
  { rewrite t_foots. intros p [<-|[<-|[]]]; cbn; auto. }
  split; [exact Hv|]. split; [vm_compute; reflexivity|]. split; [vm_compute; reflexivity|]. split.
  - intros fuel2 sched2 x2 Hv2.
    destruct (needed_updates_exactly_stale cx_orc t_cfg 9 [] fuel2 sched2 t_w t_wS [t_t; t_aout] t_raw_ok t_sched_ok
                t_static_foots t_needed_ok t_distinct t_base_safe t_inputs_safe Hv HDf t_stale_rel) as (_ & _ & Hok).
    destruct (Hok Hv2) as (HL & Hout & _). split; [exact HL|exact Hout].
  - cbv zeta.
    assert (Hv2 : verdict_of (txtpp_run cx_orc (with_mode t_cfg InMemoryBuild) 9 [0; 1; 0; 0]%nat t_wS) = VOk)
      by (vm_compute; reflexivity).
    split; [exact Hv2|]. split; [vm_compute; reflexivity|].
    apply (needed_rebuilds_stale cx_orc t_cfg 9 [] 9 [0; 1; 0; 0]%nat t_w t_wS [t_t; t_aout] t_raw_ok t_sched_ok
             t_static_foots t_needed_ok t_distinct t_base_safe t_inputs_safe Hv t_stale_rel Hv2).
    intros p [<-|[<-|[]]]; exists t_a, t_aout; (split; [vm_compute; auto|]);
      (split; [split; [vm_compute; reflexivity|exists t_araw; vm_compute; reflexivity]|vm_compute; auto]).
Qed.
