(* LeFacts.v — C12: every line terminator in a generated file is the line ending of the source's first line.
   All lemmas are proved (no admitted statements); helper lemmas were added where needed. *)
Require Import Txtpp.Str Txtpp.Consts Txtpp.Grammar Txtpp.Tags Txtpp.Path Txtpp.Fs Txtpp.Sink Txtpp.Pp Txtpp.Spec.
Require Import Txtpp.proofs.StrFacts Txtpp.proofs.GrammarFacts Txtpp.proofs.TagsFacts Txtpp.proofs.SinkFacts Txtpp.proofs.PpFacts.
From Coq Require Import Lia.

(* a text all of whose line terminators are `le`: a concatenation of bytes other than CR/LF and of copies of `le` *)
Inductive le_text (le : str) : str -> Prop :=
| lt_nil : le_text le []
| lt_byte b r : b <> CRb -> b <> LFb -> le_text le r -> le_text le (b :: r)
| lt_le r : le_text le r -> le_text le (le ++ r).

Definition is_le (le : str) : Prop := le = [LFb] \/ le = [CRb; LFb].

Lemma le_text_app le a b : le_text le a -> le_text le b -> le_text le (a ++ b).
Proof.
  induction 1 as [|c r Hc1 Hc2 Hr IH|r Hr IH]; intros Hb.
  - exact Hb.
  - simpl. apply lt_byte; auto.
  - rewrite <- app_assoc. apply lt_le. auto.
Qed.

Lemma le_text_le le : le_text le le.
Proof. rewrite <- (app_nil_r le) at 2. apply lt_le. apply lt_nil. Qed.

(* LF mode: an le-text contains no CR *)
Lemma le_text_lf_no_cr s : le_text [LFb] s -> ~ In CRb s.
Proof.
  induction 1 as [|c r Hc1 Hc2 Hr IH|r Hr IH].
  - intros [].
  - intros [H|H]; [congruence | contradiction].
  - simpl. intros [H|H]; [revert H; apply LF_ne_CR | contradiction].
Qed.
(* CRLF mode: an le-text is crlf_good *)
Lemma le_text_crlf_good s : le_text [CRb; LFb] s -> crlf_good s.
Proof.
  induction 1 as [|c r Hc1 Hc2 Hr IH|r Hr IH].
  - apply cg_nil.
  - apply cg_char; assumption.
  - simpl. apply cg_crlf. assumption.
Qed.

(* the property as stated: LF mode => no CR at all; CRLF mode => every LF preceded by CR and every CR followed by LF *)
Lemma le_text_uniform le s : is_le le -> le_text le s -> le_uniform le s.
Proof.
  intros [-> | ->] H; unfold le_uniform.
  - assert (E : str_eqb [LFb] [LFb] = true) by reflexivity. rewrite E.
    now apply le_text_lf_no_cr.
  - assert (E : str_eqb [CRb; LFb] [LFb] = false) by reflexivity. rewrite E.
    apply le_text_crlf_good in H. split; [now apply cg_lf | now apply cg_cr].
Qed.
(* the line ending detected from the first line is one of the two *)
Lemma detect_le_is_le raw : is_le (detect_le raw).
Proof.
  unfold detect_le, is_le.
  destruct (split_on LFb raw) as [|first [|x r]]; try (left; reflexivity).
  destruct (rev first) as [|c t]; [left; reflexivity|].
  destruct (c =? CRb); [right | left]; reflexivity.
Qed.

(* inputs in the documented domain (D1): CR occurs only immediately before LF *)
Definition clean_line (l : str) : Prop := ~ In CRb l /\ ~ In LFb l.

Lemma lines_clean s : cr_only_before_lf s -> Forall clean_line (lines s).
Proof.
  intros H. apply Forall_forall. intros l Hl. split.
  - now apply (lines_no_cr s).
  - now apply (lines_no_lf s).
Qed.
Lemma clean_line_le_text le l : clean_line l -> le_text le l.
Proof.
  induction l as [|c l IH]; intros [H1 H2]; [apply lt_nil|].
  apply lt_byte.
  - intros ->. apply H1. now left.
  - intros ->. apply H2. now left.
  - apply IH. split; intros H; [apply H1 | apply H2]; now right.
Qed.

Lemma clean_line_nil : clean_line [].
Proof. split; intros []. Qed.
Lemma clean_line_app a b : clean_line a -> clean_line b -> clean_line (a ++ b).
Proof.
  intros [A1 A2] [B1 B2]. split; intros H; apply in_app_or in H; tauto.
Qed.
Lemma clean_line_incl a b : (forall x, In x a -> In x b) -> clean_line b -> clean_line a.
Proof. intros Hi [B1 B2]. split; intros H; apply Hi in H; contradiction. Qed.

Lemma le_text_join le xs : Forall (le_text le) xs -> le_text le (join le xs).
Proof.
  induction 1 as [|x r Hx Hr IH]; [apply lt_nil|].
  destruct r as [|y r']; [exact Hx|].
  change (join le (x :: y :: r')) with (x ++ le ++ join le (y :: r')).
  apply le_text_app; [exact Hx|]. apply lt_le. exact IH.
Qed.
Lemma le_text_opt_le le (b : bool) : le_text le (if b then le else []).
Proof. destruct b; [apply le_text_le | apply lt_nil]. Qed.

(* re-joining clean lines with le gives an le-text: directive output, temp bodies, tag content *)
Lemma format_output_le_text le ws ls trailing :
  is_le le -> clean_line ws -> Forall clean_line ls -> le_text le (format_output le ws ls trailing).
Proof.
  intros _ Hws Hls. unfold format_output. apply le_text_app; [|apply le_text_opt_le].
  apply le_text_join. apply Forall_forall. intros x Hx. apply in_map_iff in Hx as (l & <- & Hl).
  apply clean_line_le_text. apply clean_line_app; [exact Hws|].
  rewrite Forall_forall in Hls. now apply Hls.
Qed.
Lemma replace_line_ending_le_text le s force :
  is_le le -> cr_only_before_lf s -> le_text le (replace_line_ending s le force).
Proof.
  intros _ Hs. unfold replace_line_ending. apply le_text_app; [|apply le_text_opt_le].
  apply le_text_join. apply lines_clean in Hs. rewrite Forall_forall in *.
  intros x Hx. apply clean_line_le_text. now apply Hs.
Qed.
Lemma no_cr_cr_only s : ~ In CRb s -> cr_only_before_lf s.
Proof. intros H a r ->. exfalso. apply H. apply in_or_app. right. now left. Qed.
(* an le-text is itself in the domain: it can be included / stored / re-read *)
Lemma le_text_cr_only_before_lf le s : is_le le -> le_text le s -> cr_only_before_lf s.
Proof.
  intros [-> | ->] H.
  - apply no_cr_cr_only. now apply le_text_lf_no_cr.
  - apply le_text_crlf_good in H. intros a r. now apply cg_cr.
Qed.

(* ---- substrings of a clean line are clean ---- *)
Lemma in_firstn_in {A} n (l : list A) x : In x (firstn n l) -> In x l.
Proof. intros H. rewrite <- (firstn_skipn n l). apply in_or_app. now left. Qed.
Lemma in_skipn_in {A} n (l : list A) x : In x (skipn n l) -> In x l.
Proof. intros H. rewrite <- (firstn_skipn n l). apply in_or_app. now right. Qed.
Lemma in_trim_end x s : In x (trim_end s) -> In x s.
Proof.
  intros H. destruct (trim_end_spec s) as (b & Hb & _). rewrite Hb. apply in_or_app. now left.
Qed.
Lemma in_trim x s : In x (trim s) -> In x s.
Proof.
  intros H. destruct (trim_spec s) as (a & b & Hs & _). rewrite Hs.
  apply in_or_app. right. apply in_or_app. now left.
Qed.
Lemma slice_from_some n s a : slice_from n s = Some a -> a = skipn n s.
Proof. unfold slice_from. destruct (is_char_boundary s n); [|discriminate]. intros H; inversion H; reflexivity. Qed.

Lemma detect_from_clean l d : clean_line l -> detect_from l = Some d ->
  clean_line (d_ws d) /\ Forall clean_line (d_args d).
Proof.
  intros Hl H. apply detect_from_iff in H
    as (ws & p & name & rest & -> & _ & _ & _ & _ & _ & t & _ & ->).
  cbn [d_ws d_args]. split.
  - eapply clean_line_incl; [|exact Hl]. intros x Hx. apply in_or_app. now left.
  - constructor; [|constructor]. eapply clean_line_incl; [|exact Hl].
    intros x Hx. apply in_trim in Hx.
    assert (Hr : In x rest). { destruct rest; [destruct Hx | right; exact Hx]. }
    rewrite !in_app_iff. tauto.
Qed.

Lemma add_line_clean d l d' : clean_line l -> Forall clean_line (d_args d) ->
  add_line d l = AddOk d' -> d_ws d' = d_ws d /\ Forall clean_line (d_args d').
Proof.
  unfold add_line. intros Hl Ha H.
  destruct (negb (multi (d_ty d))); [discriminate|].
  destruct (starts_with (d_ws d) l); [|discriminate].
  destruct (slice_from (length (d_ws d)) l) as [rem|] eqn:E1; [|discriminate].
  apply slice_from_some in E1.
  destruct (str_eqb rem (trim_end (d_prefix d))).
  { injection H as <-. split; [reflexivity|]. cbn [push_arg d_args]. apply Forall_app. split; [exact Ha|].
    constructor; [apply clean_line_nil | constructor]. }
  destruct (starts_with (d_prefix d) rem || starts_with (repeat_sp (length (d_prefix d))) rem);
    [|discriminate].
  destruct (slice_from (length (d_prefix d)) rem) as [a|] eqn:E2; [|discriminate].
  apply slice_from_some in E2.
  injection H as <-. split; [reflexivity|]. cbn [push_arg d_args]. apply Forall_app. split; [exact Ha|].
  constructor; [|constructor].
  eapply clean_line_incl; [|exact Hl]. intros x Hx. apply in_trim_end in Hx. subst a rem.
  apply in_skipn_in in Hx. apply in_skipn_in in Hx. exact Hx.
Qed.

(* ---- reading after a write / a removal ---- *)
Lemma read_put f p c0 q c :
  read_file (fs_put f p (File c0)) q = Some c -> c = c0 \/ read_file f q = Some c.
Proof.
  unfold read_file. destruct (path_eqb p q) eqn:E.
  - apply path_eqb_eq in E. subst q. destruct p as [|n p].
    + rewrite fs_get_nil_root. discriminate.
    + rewrite fs_get_put_same by discriminate. intros H. inversion H. now left.
  - rewrite fs_get_put_other; [auto|]. intros ->. rewrite path_eqb_refl in E. discriminate.
Qed.
Lemma read_del f p q c : read_file (fs_del f p) q = Some c -> read_file f q = Some c.
Proof.
  unfold read_file. destruct (path_eqb p q) eqn:E.
  - apply path_eqb_eq in E. subst q. destruct p as [|n p].
    + rewrite !fs_get_nil_root. auto.
    + rewrite fs_get_del_same by discriminate. discriminate.
  - rewrite fs_get_del_other; [auto|]. intros ->. rewrite path_eqb_refl in E. discriminate.
Qed.
Lemma cr_only_nil : cr_only_before_lf [].
Proof. intros a r H. destruct a; discriminate. Qed.

Section LE.
Variable orc : oracle.
Variable md : mode.
Variable src base : path.
Variable le : str.
Hypothesis Hle : is_le le.
(* D1 for what the file cannot know: command output, and every file that can be read *)
Hypothesis Horc : forall c d f o, orc c d f = Some o -> cr_only_before_lf o.

Definition world_ok (w : world) : Prop :=
  forall q c, read_file (w_fs w) q = Some c -> cr_only_before_lf c.
Definition tags_ok (t : tags) : Prop :=
  forall k v, In (k, v) (stored t) -> cr_only_before_lf v.
Definition sink_ok (k : sink) : Prop :=
  match k with SMem _ buf => le_text le buf | _ => True end.

(* every chunk an item contributes is an le-text, and the invariants are kept; items are those of a parsed
   source whose lines are clean (so directive white space, prefixes and arguments are clean) *)
Definition item_clean (it : item) : Prop :=
  match it with
  | IText l => clean_line l
  | IDir d _ => clean_line (d_ws d) /\ Forall clean_line (d_args d)
  | _ => True
  end.

Lemma parse_items_clean clean cur ls :
  Forall clean_line ls ->
  match cur with Some d => clean_line (d_ws d) /\ Forall clean_line (d_args d) | None => True end ->
  Forall item_clean (parse clean cur ls).
Proof.
  intros Hls. revert cur. induction Hls as [|l r Hl Hr IH]; intros cur Hc.
  - cbn [parse]. destruct cur as [d|]; constructor; [exact Hc | constructor].
  - assert (Hfresh : Forall item_clean (parse clean None (l :: r))).
    { cbn [parse]. destruct (detect_from l) as [d|] eqn:E.
      - destruct (needs_prefix_err d).
        + destruct clean.
          * constructor; [apply clean_line_nil | apply (IH None I)].
          * constructor; [exact I | constructor].
        + apply IH. eapply detect_from_clean; eauto.
      - constructor; [exact Hl | apply (IH None I)]. }
    destruct cur as [d|]; [|exact Hfresh].
    cbn [parse]. destruct (add_line d l) as [d'| |] eqn:E.
    + apply IH. destruct Hc as [Hc1 Hc2].
      destruct (add_line_clean _ _ _ Hl Hc2 E) as [Hw Ha]. rewrite Hw. split; assumption.
    + constructor; [exact Hc | exact Hfresh].
    + constructor; [exact I | constructor].
Qed.

(* ---- tag substitution ---- *)
Lemma inject_loop_le_text line : clean_line line -> forall L last_end out removed out' le' rem',
  (forall i k v, In (i, (k, v)) L -> cr_only_before_lf v) ->
  le_text le out ->
  inject_loop le line L last_end out removed = Some (out', le', rem') -> le_text le out'.
Proof.
  intros Hline. induction L as [|[i [k v]] L IH]; intros last_end out removed out' le' rem' HL Hout H.
  - cbn [inject_loop] in H. inversion H; subst. exact Hout.
  - cbn [inject_loop] in H.
    assert (HL' : forall i k v, In (i, (k, v)) L -> cr_only_before_lf v).
    { intros i0 k0 v0 Hin. apply (HL i0 k0 v0). now right. }
    destruct (Nat.ltb i last_end).
    + eapply IH; eauto.
    + destruct (Nat.leb i (length line)); [|discriminate].
      eapply IH; [exact HL' | | exact H].
      apply le_text_app; [exact Hout|]. apply le_text_app.
      * apply clean_line_le_text. eapply clean_line_incl; [|exact Hline].
        intros x Hx. apply in_firstn_in in Hx. apply in_skipn_in in Hx. exact Hx.
      * apply replace_line_ending_le_text; [exact Hle|]. apply (HL i k v). now left.
Qed.

Lemma inject_le_text t l l' t' :
  tags_ok t -> clean_line l -> inject t l le = Some (l', t') -> le_text le l' /\ tags_ok t'.
Proof.
  intros Ht Hl H. split.
  - unfold inject in H. destruct (ends_with_lf l); [discriminate|]. cbv zeta in H.
    destruct (inject_loop le l (stable_sort_occ (occurrences (stored t) l)) 0 [] [])
      as [[[out le'] rem]|] eqn:E; [|discriminate].
    destruct (Nat.leb le' (length l)); [|discriminate]. inversion H; subst.
    apply le_text_app.
    + eapply inject_loop_le_text; [exact Hl | | apply lt_nil | exact E].
      intros i k v Hin. unfold stable_sort_occ in Hin. apply (proj1 (In_sort_occ _ _)) in Hin.
      apply (proj1 (In_occurrences _ _ _ _ _)) in Hin as [Hin _]. now apply (Ht k v).
    + apply clean_line_le_text. eapply clean_line_incl; [|exact Hl].
      intros x Hx. now apply in_skipn_in in Hx.
  - apply inject_store_shrinks in H as [_ Hs]. intros k v Hin. apply (Ht k v). now apply Hs.
Qed.

(* ---- the world ---- *)
Lemma world_ok_write w p c w' :
  world_ok w -> cr_only_before_lf c -> w_write w p c = Some w' -> world_ok w'.
Proof.
  intros Hw Hc H. unfold w_write in H. destruct (write_target (w_fs w) p) as [q|]; [|discriminate].
  inversion H; subst. intros q' c' Hr. cbn [w_fs] in Hr.
  apply read_put in Hr as [-> | Hr]; [exact Hc | now apply (Hw q')].
Qed.
Lemma world_ok_remove w q w' : world_ok w -> w_remove_file w q = Some w' -> world_ok w'.
Proof.
  intros Hw H. unfold w_remove_file in H. destruct (fs_get (w_fs w) q) as [[c|]|]; try discriminate.
  inversion H; subst. intros q' c' Hr. cbn [w_fs] in Hr. apply read_del in Hr. now apply (Hw q').
Qed.
Lemma world_ok_write_temp w lp c w' :
  world_ok w -> cr_only_before_lf c -> write_temp w lp c = inl w' -> world_ok w'.
Proof.
  intros Hw Hc H. unfold write_temp in H. destruct (os_resolve (w_fs w) lp) as [q|].
  - destruct (fs_get (w_fs w) q) as [[c0|]|]; try discriminate.
    destruct (str_eqb c0 c); [inversion H; subst; exact Hw|].
    destruct (w_write w q c) as [w1|] eqn:E; [|discriminate]. inversion H; subst.
    exact (world_ok_write w q c w' Hw Hc E).
  - destruct (w_write w lp []) as [w1|] eqn:E; [|discriminate].
    assert (Hw1 : world_ok w1) by (exact (world_ok_write w lp [] w1 Hw cr_only_nil E)).
    destruct c as [|x c]; [inversion H; subst; exact Hw1|].
    destruct (w_write w1 lp (x :: c)) as [w2|] eqn:E2; [|discriminate]. inversion H; subst.
    exact (world_ok_write w1 lp (x :: c) w' Hw1 Hc E2).
Qed.
Lemma world_ok_remove_temp w lp w' : world_ok w -> remove_temp w lp = inl w' -> world_ok w'.
Proof.
  intros Hw H. unfold remove_temp in H. destruct (os_resolve (w_fs w) lp) as [q|].
  - destruct (w_remove_file w q) as [w1|] eqn:E; [|discriminate]. inversion H; subst.
    eapply world_ok_remove; eauto.
  - inversion H; subst; exact Hw.
Qed.

Lemma exec_temp_ok args b w w' :
  world_ok w -> Forall clean_line args -> exec_temp src le args b w = inl w' -> world_ok w'.
Proof.
  intros Hw Ha H. unfold exec_temp in H. destruct args as [|export rest]; [discriminate|].
  destruct (is_txtpp_file (lex_components export)); [discriminate|].
  destruct b.
  - eapply world_ok_remove_temp; eauto.
  - eapply world_ok_write_temp; [exact Hw | | exact H].
    apply (le_text_cr_only_before_lf le); [exact Hle|].
    apply format_output_le_text; [exact Hle | apply clean_line_nil | now inversion Ha].
Qed.

Ltac dmatch H :=
  repeat (match type of H with context [match ?x with _ => _ end] =>
            (lazymatch x with context [match _ with _ => _ end] => fail | _ => idtac end);
            destruct x eqn:? end).

Lemma collect_deps_inr d s s' : collect_deps src d s = inl (inr s') -> s' = s.
Proof.
  intros H. unfold collect_deps in H. cbv zeta in H. dmatch H; try discriminate; inversion H; reflexivity.
Qed.
Lemma collect_deps_inl d s s' : collect_deps src d s = inl (inl s') -> wld s' = wld s /\ tg s' = tg s.
Proof.
  intros H. unfold collect_deps in H. cbv zeta in H.
  dmatch H; try discriminate; inversion H; split; reflexivity.
Qed.

Lemma join_lf_clean args : Forall clean_line args -> cr_only_before_lf (join [LFb] args).
Proof.
  intros Ha. apply no_cr_cr_only. intros Hin. apply In_join in Hin as [Hin | (x & Hx & Hin)].
  - destruct Hin as [Hin|[]]. revert Hin. apply LF_ne_CR.
  - rewrite Forall_forall in Ha. destruct (Ha x Hx) as [Hc _]. contradiction.
Qed.

Lemma exec_directive_ok d s o s' :
  clean_line (d_ws d) /\ Forall clean_line (d_args d) -> world_ok (wld s) -> tags_ok (tg s) ->
  exec_directive orc md src base le d s = XOut o s' ->
  world_ok (wld s') /\ tags_ok (tg s') /\ forall raw, o = Some raw -> cr_only_before_lf raw.
Proof.
  intros [Hws Hargs] Hw Ht H.
  assert (Hnone : forall raw : str, @None str = Some raw -> cr_only_before_lf raw) by discriminate.
  unfold exec_directive in H.
  match type of H with
  | match md with Build => ?B | InMemoryBuild => _ | Clean => ?C | Verify => _ end = _ =>
    assert (HH : C = XOut o s' \/ B = XOut o s') by (destruct md; auto); clear H
  end.
  destruct HH as [H|H].
  - destruct (d_ty d); try (inversion H; subst; auto; fail).
    destruct (exec_temp src le (d_args d) true (wld s)) as [w'|k] eqn:E; inversion H; subst; auto.
    cbn [wld tg set_wld]. split; [|auto]. eapply exec_temp_ok; eauto.
  - destruct (collect_deps src d s) as [[s1|s1]|k] eqn:C; [| |discriminate].
    + inversion H; subst. apply collect_deps_inl in C as [-> ->]. auto.
    + apply collect_deps_inr in C. subst s1.
      destruct (d_ty d).
      * inversion H; subst; auto.
      * destruct (os_resolve (w_fs (wld s)) (lex_join (work_dir src) (hd [] (d_args d)))) as [q|];
          [|discriminate].
        destruct (read_file (w_fs (wld s)) q) as [c|] eqn:R; [|discriminate].
        destruct (utf8_valid c); [|discriminate]. inversion H; subst.
        split; [exact Hw|]. split; [exact Ht|]. intros raw E. inversion E; subst. eapply Hw; eauto.
      * inversion H; subst; auto.
      * cbv zeta in H.
        destruct (orc (join [SPb] (d_args d)) (work_dir src) (input_display src base)) as [out|] eqn:O;
          [|discriminate].
        inversion H; subst. cbn [wld tg set_wld]. split; [|split; [exact Ht|]].
        -- intros q c. cbn [w_emit w_fs]. apply Hw.
        -- intros raw E. inversion E; subst. eapply Horc; eauto.
      * destruct (create (tg s) (hd [] (d_args d))) as [t'|] eqn:Cr; [|discriminate].
        inversion H; subst. cbn [wld tg set_tg]. split; [exact Hw|]. split; [|exact Hnone].
        apply create_ok_effect in Cr as [_ Cr]. intros k v. rewrite Cr. apply Ht.
      * destruct (exec_temp src le (d_args d) false (wld s)) as [w'|k] eqn:E; [|discriminate].
        inversion H; subst. cbn [wld tg set_wld]. split; [|auto]. eapply exec_temp_ok; eauto.
      * inversion H; subst. split; [exact Hw|]. split; [exact Ht|].
        intros raw E. inversion E; subst. now apply join_lf_clean.
Qed.

Lemma item_output_ok it s o s' :
  item_clean it -> world_ok (wld s) -> tags_ok (tg s) ->
  item_output orc md src base le it s = IOut o s' ->
  world_ok (wld s') /\ tags_ok (tg s') /\ forall x, o = Some x -> le_text le x.
Proof.
  intros Hit Hw Ht H. destruct it as [l|d fol| |]; cbn [item_output item_clean] in *; try discriminate.
  - destruct (is_execute (pmode s)).
    + destruct (inject (tg s) l le) as [[l' t']|] eqn:E; [|discriminate]. inversion H; subst.
      destruct (inject_le_text _ _ _ _ Ht Hit E) as [H1 H2]. cbn [wld tg set_tg].
      split; [exact Hw|]. split; [exact H2|]. intros x Ex. inversion Ex; subst. exact H1.
    + inversion H; subst. split; [exact Hw|]. split; [exact Ht|].
      intros x Ex. inversion Ex; subst. now apply clean_line_le_text.
  - destruct (exec_directive orc md src base le d s) as [[raw|] s1|k w] eqn:E; try discriminate.
    + destruct (exec_directive_ok _ _ _ _ Hit Hw Ht E) as (Hw1 & Ht1 & Hraw).
      specialize (Hraw raw eq_refl).
      unfold try_store in H. destruct (listening (tg s1)) as [tag|].
      * inversion H; subst. cbn [wld tg set_tg]. split; [exact Hw1|]. split; [|discriminate].
        intros k v Hin. cbn [stored] in Hin. unfold store_put in Hin. destruct Hin as [Hin|Hin].
        -- inversion Hin; subst. exact Hraw.
        -- apply In_store_remove in Hin as [Hin _]. now apply (Ht1 k v).
      * inversion H; subst. split; [exact Hw1|]. split; [exact Ht1|].
        intros x Ex. inversion Ex; subst.
        apply format_output_le_text; [exact Hle | tauto | now apply lines_clean].
    + destruct (exec_directive_ok _ _ _ _ Hit Hw Ht E) as (Hw1 & Ht1 & _).
      inversion H; subst. split; [exact Hw1|]. split; [exact Ht1|]. discriminate.
Qed.

Lemma sink_write_ok k w c k' w' :
  (forall p, k <> SBuild p) -> sink_write k w c = inl (k', w') ->
  w' = w /\ (forall p, k' <> SBuild p) /\ (sink_ok k -> le_text le c -> sink_ok k').
Proof.
  intros Hn H. destruct k as [p|p buf| |p rest]; cbn [sink_write] in H.
  - exfalso. now apply (Hn p).
  - inversion H; subst. split; [reflexivity|]. split; [discriminate|].
    cbn [sink_ok]. intros. now apply le_text_app.
  - inversion H; subst. split; [reflexivity|]. split; [discriminate|]. auto.
  - destruct (Nat.ltb (length rest) (length c)); [discriminate|].
    destruct (str_eqb (firstn (length c) rest) c); [|discriminate].
    inversion H; subst. split; [reflexivity|]. split; [discriminate|]. cbn [sink_ok]. auto.
Qed.

Lemma emit_ok s o t s' :
  (forall p, snk s <> SBuild p) -> sink_ok (snk s) -> (forall x, o = Some x -> le_text le x) ->
  emit le s o t = StOk s' ->
  wld s' = wld s /\ tg s' = tg s /\ sink_ok (snk s') /\ (forall p, snk s' <> SBuild p).
Proof.
  intros Hn Hk Ho H. unfold emit in H.
  destruct (is_execute (pmode s)); [|inversion H; subst; auto].
  destruct o as [x|]; [|inversion H; subst; auto].
  specialize (Ho x eq_refl).
  assert (H1 : forall k1 w1,
    (if flag s then sink_write (snk s) (wld s) le else inl (snk s, wld s)) = inl (k1, w1) ->
    w1 = wld s /\ (forall p, k1 <> SBuild p) /\ sink_ok k1).
  { intros k1 w1 E. destruct (flag s).
    - apply sink_write_ok in E as (-> & E2 & E3); [|exact Hn]. split; [reflexivity|]. split; [exact E2|].
      apply E3; [exact Hk | apply le_text_le].
    - inversion E; subst. auto. }
  destruct (if flag s then sink_write (snk s) (wld s) le else inl (snk s, wld s)) as [[k1 w1]|k];
    [|discriminate].
  destruct (H1 k1 w1 eq_refl) as (-> & Hn1 & Hk1).
  destruct (sink_write k1 (wld s) x) as [[k2 w2]|k] eqn:E2; [|discriminate].
  apply sink_write_ok in E2 as (-> & Hn2 & Hk2); [|exact Hn1].
  inversion H; subst. cbn [wld tg snk set_flag set_io]. auto.
Qed.

Theorem run_items_le_text its s s' cs :
  Forall item_clean its ->
  world_ok (wld s) -> tags_ok (tg s) -> sink_ok (snk s) ->
  (forall p, snk s <> SBuild p) ->          (* stated for the in-memory sink (the Build sink appends the same chunks to the file) *)
  run_items orc md src base le its s = (StOk s', cs) ->
  Forall (fun c => le_text le (fst c)) cs /\ world_ok (wld s') /\ tags_ok (tg s') /\ sink_ok (snk s').
Proof.
  intros Hits. revert s cs. induction Hits as [|it r Hit Hr IH]; intros s cs Hw Ht Hk Hn H.
  - cbn [run_items] in H. inversion H; subst. auto.
  - apply run_items_cons_inv in H as (o & s1 & s2 & cs' & Hi & He & Hrun & ->).
    destruct (item_output_ok _ _ _ _ Hit Hw Ht Hi) as (Hw1 & Ht1 & Ho).
    apply item_output_frame in Hi as [_ Hs1].
    assert (Hn1 : forall p, snk s1 <> SBuild p) by (intros p; rewrite Hs1; apply Hn).
    assert (Hk1 : sink_ok (snk s1)) by (rewrite Hs1; exact Hk).
    destruct (emit_ok _ _ _ _ Hn1 Hk1 Ho He) as (Ew & Et & Hk2 & Hn2).
    assert (Hw2 : world_ok (wld s2)) by (rewrite Ew; exact Hw1).
    assert (Ht2 : tags_ok (tg s2)) by (rewrite Et; exact Ht1).
    destruct (IH _ _ Hw2 Ht2 Hk2 Hn2 Hrun) as (Hcs & Hw' & Ht' & Hk').
    split; [|auto].
    destruct o as [x|]; [|exact Hcs].
    destruct (is_execute (pmode s1)); [|exact Hcs].
    constructor; [|exact Hcs]. cbn [fst]. now apply Ho.
Qed.

Lemma splice_le_text tn cs :
  Forall (fun c : chunk => le_text le (fst c)) cs -> le_text le (splice le tn cs).
Proof.
  induction 1 as [|[c t] r Hc Hr IH]; [apply lt_nil|]. cbn [fst] in Hc.
  destruct r as [|x r'].
  - cbn [splice]. apply le_text_app; [exact Hc | apply le_text_opt_le].
  - change (splice le tn ((c, t) :: x :: r')) with (c ++ (if t then le else []) ++ splice le tn (x :: r')).
    apply le_text_app; [exact Hc|]. apply le_text_app; [apply le_text_opt_le | exact IH].
Qed.

(* C12 for a whole file through the in-memory sink: the text of the output is an le-text, hence le-uniform;
   and every temp file written on the way is (world_ok is kept; temp bodies are le-texts) *)
Theorem output_le_uniform tn ls s0 s1 cs p :
  Forall clean_line ls ->
  cur s0 = None -> flag s0 = false -> snk s0 = SMem p [] -> tg s0 = tags_new -> world_ok (wld s0) ->
  run_items orc md src base le (parse (mode_eqb md Clean) None ls) s0 = (StOk s1, cs) ->
  le_uniform le (splice le tn cs) /\
  exists buf, snk s1 = SMem p buf /\ le_uniform le (buf ++ (if flag s1 && tn then le else [])).
Proof.
  intros Hls _ Hf Hk Htg Hw Hrun.
  assert (Hits : Forall item_clean (parse (mode_eqb md Clean) None ls)).
  { apply parse_items_clean; [exact Hls | exact I]. }
  assert (Ht0 : tags_ok (tg s0)). { rewrite Htg. intros k v []. }
  assert (Hk0 : sink_ok (snk s0)). { rewrite Hk. apply lt_nil. }
  assert (Hn0 : forall q, snk s0 <> SBuild q). { intros q. rewrite Hk. discriminate. }
  destruct (run_items_le_text _ _ _ _ Hits Hw Ht0 Hk0 Hn0 Hrun) as (Hcs & _ & _ & Hk1).
  split.
  - apply le_text_uniform; [exact Hle|]. now apply splice_le_text.
  - destruct (run_items_mem_splice _ _ _ _ _ _ _ _ _ _ _ Hk Hrun) as [E _].
    rewrite E in Hk1. cbn [sink_ok] in Hk1. eexists. split; [exact E|].
    apply le_text_uniform; [exact Hle|]. apply le_text_app; [exact Hk1 | apply le_text_opt_le].
Qed.

(* temp files: what exec_temp writes is an le-text *)
Theorem temp_content_le_text args :
  Forall clean_line args -> le_text le (format_output le [] (tl args) false).
Proof.
  intros Ha. apply format_output_le_text; [exact Hle | apply clean_line_nil|].
  destruct args as [|a r]; [constructor | now inversion Ha].
Qed.
End LE.
