(* PathFacts.v — which names are sources and how outputs are named (C11, C10).
   All statements proved (Qed) against the corrected Path.v (lex_append_ext), except candidates_are_sources,
   which is FALSE as stated (stem `..`): see candidates_are_sources_weaker / candidates_first_is_source /
   candidates_second_needs.
   Strings: DOT = 46 ('.'), TXTPP_EXT = c_txtpp_ext = "txtpp" = [116;120;116;112;112].
   Since fix F8 `remove_txtpp` refuses (None) the sources whose stem is `.` (`..txtpp`, `..txtpp.md`, ...):
   see dot_stem, remove_txtpp_defined, remove_txtpp_none_iff, dot_stem_spec, dot_stem_sources_are_refused. *)
Require Import Txtpp.Str Txtpp.Consts Txtpp.Path Txtpp.proofs.StrFacts.
From Coq Require Import Lia.

Lemma txtpp_ext_documented : TXTPP_EXT = [116; 120; 116; 112; 112].
Proof. reflexivity. Qed.

(* ------------------------------------------------------------------ *)
(* helpers: last_dot, split_ext                                        *)

Lemma dot_dec (c : byte) : {c = DOT} + {c <> DOT}.
Proof. apply N.eq_dec. Qed.

(* every name either has no dot or splits at its last dot *)
Lemma last_dot_decomp (s : str) :
  ~ In DOT s \/ exists a e, s = a ++ DOT :: e /\ ~ In DOT e.
Proof.
  induction s as [|c r IH].
  - left. intros [].
  - destruct IH as [Hn | (a & e & Hs & He)].
    + destruct (dot_dec c) as [Hc | Hc].
      * right. exists [], r. subst c. split; [reflexivity | exact Hn].
      * left. intros [H | H]; [apply Hc; exact H | apply Hn; exact H].
    + right. exists (c :: a), e. subst r. split; [reflexivity | exact He].
Qed.

Lemma last_dot_nodot s i acc : ~ In DOT s -> last_dot s i acc = acc.
Proof.
  revert i acc. induction s as [|c r IH]; intros i acc H; simpl.
  - reflexivity.
  - destruct (c =? DOT) eqn:E.
    + apply N.eqb_eq in E. exfalso. apply H. left. exact E.
    + apply IH. intros Hr. apply H. right. exact Hr.
Qed.

Lemma last_dot_app a e i acc :
  ~ In DOT e -> last_dot (a ++ DOT :: e) i acc = Some (i + length a)%nat.
Proof.
  intros He. revert i acc. induction a as [|c a IH]; intros i acc.
  - simpl. rewrite ?N.eqb_refl. rewrite last_dot_nodot by exact He.
    f_equal. lia.
  - simpl. rewrite IH. f_equal. lia.
Qed.

Lemma firstn_len_app {A} (a r : list A) : firstn (length a) (a ++ r) = a.
Proof. induction a as [|x a IH]; simpl; [destruct r; reflexivity | rewrite IH; reflexivity]. Qed.

Lemma skipn_len_app {A} (a r : list A) : skipn (length a) (a ++ r) = r.
Proof. induction a as [|x a IH]; simpl; [reflexivity | exact IH]. Qed.

Lemma skipn_S_len_app {A} (a : list A) x r : skipn (S (length a)) (a ++ x :: r) = r.
Proof. induction a as [|y a IH]; simpl; [reflexivity | exact IH]. Qed.

Lemma is_normal_true n : is_normal n = true <-> n <> dotdot.
Proof.
  unfold is_normal. split.
  - intros H E. apply str_eqb_eq in E. rewrite E in H. discriminate.
  - intros H. destruct (str_eqb n dotdot) eqn:E; [|reflexivity].
    apply str_eqb_eq in E. contradiction.
Qed.

Lemma is_normal_false n : is_normal n = false <-> n = dotdot.
Proof.
  unfold is_normal. split.
  - intros H. destruct (str_eqb n dotdot) eqn:E; [|discriminate].
    apply str_eqb_eq in E. exact E.
  - intros ->. rewrite str_eqb_refl. reflexivity.
Qed.

Lemma split_ext_dotdot : split_ext dotdot = (dotdot, None).
Proof. unfold split_ext. rewrite str_eqb_refl. reflexivity. Qed.

Lemma split_ext_nodot n : ~ In DOT n -> split_ext n = (n, None).
Proof.
  intros H. unfold split_ext. destruct (str_eqb n dotdot); [reflexivity|].
  rewrite last_dot_nodot by exact H. reflexivity.
Qed.

Lemma split_ext_leading_dot r : ~ In DOT r -> split_ext (DOT :: r) = (DOT :: r, None).
Proof.
  intros H. unfold split_ext. destruct (str_eqb (DOT :: r) dotdot); [reflexivity|].
  pose proof (last_dot_app [] r 0 None H) as L. cbn [app length Nat.add] in L.
  rewrite L. reflexivity.
Qed.

Lemma split_ext_dot a e :
  a <> [] -> ~ In DOT e -> a ++ DOT :: e <> dotdot ->
  split_ext (a ++ DOT :: e) = (a, Some e).
Proof.
  intros Ha He Hn. unfold split_ext.
  destruct (str_eqb (a ++ DOT :: e) dotdot) eqn:E.
  - apply str_eqb_eq in E. contradiction.
  - rewrite (last_dot_app a e 0 None He).
    destruct a as [|c a']; [contradiction|].
    cbn [length Nat.add].
    change (S (length a')) with (length (c :: a')).
    rewrite firstn_len_app.
    rewrite skipn_S_len_app. reflexivity.
Qed.

(* the complete case analysis of split_ext *)
Lemma split_ext_cases n :
  (split_ext n = (n, None) /\ (n = dotdot \/ ~ In DOT n \/ exists r, n = DOT :: r /\ ~ In DOT r))
  \/ (exists a e, n = a ++ DOT :: e /\ a <> [] /\ ~ In DOT e /\ n <> dotdot /\ split_ext n = (a, Some e)).
Proof.
  destruct (is_normal n) eqn:Hn.
  - apply is_normal_true in Hn.
    destruct (last_dot_decomp n) as [H | (a & e & Hs & He)].
    + left. split; [apply split_ext_nodot; exact H | right; left; exact H].
    + destruct a as [|c a'].
      * left. subst n. split; [apply split_ext_leading_dot; exact He|].
        right. right. exists e. split; [reflexivity | exact He].
      * right. exists (c :: a'), e. subst n.
        split; [reflexivity|]. split; [discriminate|]. split; [exact He|]. split; [exact Hn|].
        apply split_ext_dot; [discriminate | exact He | exact Hn].
  - apply is_normal_false in Hn. left. subst n. split; [apply split_ext_dotdot | left; reflexivity].
Qed.

Lemma split_ext_some_inv n a e :
  split_ext n = (a, Some e) -> n = a ++ DOT :: e /\ a <> [] /\ ~ In DOT e /\ n <> dotdot.
Proof.
  intros H. destruct (split_ext_cases n) as [[E _] | (a' & e' & Hs & Ha & He & Hn & E)].
  - rewrite E in H. discriminate.
  - rewrite E in H. injection H as <- <-. repeat split; assumption.
Qed.

(* std's rsplit_file_at_dot: the extension is what follows the LAST dot, unless the part before it is empty *)
Lemma split_ext_some n stem e :
  n <> dotdot ->
  (split_ext n = (stem, Some e) <-> n = stem ++ DOT :: e /\ stem <> [] /\ ~ In DOT e).
Proof.
  intros Hn. split.
  - intros H. apply split_ext_some_inv in H. destruct H as (H1 & H2 & H3 & _).
    repeat split; assumption.
  - intros (H1 & H2 & H3). subst n. apply split_ext_dot; assumption.
Qed.
Lemma split_ext_none n :
  n <> dotdot ->
  (snd (split_ext n) = None <-> ~ In DOT n \/ exists r, n = DOT :: r /\ ~ In DOT r).
Proof.
  intros Hn. split.
  - intros H. destruct (split_ext_cases n) as [[_ [E | E]] | (a & e & _ & _ & _ & _ & E)].
    + contradiction.
    + exact E.
    + rewrite E in H. discriminate.
  - intros [H | (r & -> & H)].
    + rewrite split_ext_nodot by exact H. reflexivity.
    + rewrite split_ext_leading_dot by exact H. reflexivity.
Qed.
Lemma split_ext_none_stem n : snd (split_ext n) = None -> fst (split_ext n) = n.
Proof.
  intros H. destruct (split_ext_cases n) as [[E _] | (a & e & _ & _ & _ & _ & E)].
  - rewrite E. reflexivity.
  - rewrite E in H. discriminate.
Qed.

(* ------------------------------------------------------------------ *)
(* helpers: everything reduces to the last component                    *)

Definition next (n : name) : option str := if is_normal n then snd (split_ext n) else None.
Definition nset (n : name) (ext : str) : name :=
  if is_normal n then
    match ext with [] => fst (split_ext n) | _ => fst (split_ext n) ++ [DOT] ++ ext end
  else n.

Lemma lex_extension_snoc dir n : lex_extension (dir ++ [n]) = next n.
Proof. unfold lex_extension, next. rewrite rev_unit. reflexivity. Qed.

Lemma lex_set_extension_snoc dir n ext : lex_set_extension (dir ++ [n]) ext = dir ++ [nset n ext].
Proof.
  unfold lex_set_extension, nset. rewrite rev_unit.
  destruct (is_normal n); [|reflexivity].
  rewrite rev_involutive. reflexivity.
Qed.

Lemma next_eq n : next n = snd (split_ext n).
Proof.
  unfold next. destruct (is_normal n) eqn:E; [reflexivity|].
  apply is_normal_false in E. subst n. rewrite split_ext_dotdot. reflexivity.
Qed.

Lemma nset_nil n : nset n [] = fst (split_ext n).
Proof.
  unfold nset. destruct (is_normal n) eqn:E; [reflexivity|].
  apply is_normal_false in E. subst n. rewrite split_ext_dotdot. reflexivity.
Qed.

Lemma nset_cons n c ext : n <> dotdot -> nset n (c :: ext) = fst (split_ext n) ++ DOT :: c :: ext.
Proof.
  intros H. apply is_normal_true in H. unfold nset. rewrite H. reflexivity.
Qed.

Definition is_txtpp_name (n : name) : bool :=
  match snd (split_ext n) with
  | Some ext =>
    if str_eqb ext TXTPP_EXT then true
    else match snd (split_ext (fst (split_ext n))) with
         | Some e2 => str_eqb e2 TXTPP_EXT
         | None => false
         end
  | None => false
  end.

Lemma is_txtpp_file_snoc dir n : is_txtpp_file (dir ++ [n]) = is_txtpp_name n.
Proof.
  unfold is_txtpp_file, is_txtpp_name.
  rewrite lex_set_extension_snoc, !lex_extension_snoc, !next_eq, nset_nil. reflexivity.
Qed.

Definition nappend (s : name) (e : str) : name :=
  if is_normal s then s ++ [DOT] ++ e else s.

Lemma lex_append_ext_snoc dir s e : lex_append_ext (dir ++ [s]) e = dir ++ [nappend s e].
Proof.
  unfold lex_append_ext, nappend. rewrite rev_unit.
  destruct (is_normal s); [|reflexivity].
  rewrite rev_involutive. reflexivity.
Qed.

(* a stem name is acceptable unless it is `.` *)
Definition name_ok (s : name) : bool := negb (str_eqb s [DOT]).

Lemma name_ok_true s : name_ok s = true <-> s <> [DOT].
Proof.
  unfold name_ok. split.
  - intros H E. subst s. rewrite str_eqb_refl in H. discriminate.
  - intros H. destruct (str_eqb s [DOT]) eqn:E; [|reflexivity].
    apply str_eqb_eq in E. contradiction.
Qed.

Lemma name_ok_false s : name_ok s = false <-> s = [DOT].
Proof.
  unfold name_ok. split.
  - intros H. destruct (str_eqb s [DOT]) eqn:E; [|discriminate]. apply str_eqb_eq. exact E.
  - intros ->. rewrite str_eqb_refl. reflexivity.
Qed.

Lemma stem_ok_snoc dir s : stem_ok (dir ++ [s]) = name_ok s.
Proof. unfold stem_ok, name_ok. rewrite rev_unit. reflexivity. Qed.

(* the stem of a source name: what is left after removing the `txtpp` extension and
   (in the `stem.txtpp.ext` shape) the own extension *)
Definition stem_of_name (n : name) : name :=
  let a := fst (split_ext n) in
  match snd (split_ext a) with
  | Some e => if str_eqb e TXTPP_EXT then fst (split_ext a) else a
  | None => a
  end.

(* the stem is `.`: such a source is refused *)
Definition dot_stem_name (n : name) : bool := negb (name_ok (stem_of_name n)).
Definition dot_stem (p : lexpath) : bool :=
  match rev p with
  | n :: _ => dot_stem_name n
  | [] => false
  end.

Lemma dot_stem_snoc dir n : dot_stem (dir ++ [n]) = dot_stem_name n.
Proof. unfold dot_stem. rewrite rev_unit. reflexivity. Qed.

(* the output name of a source name *)
Definition remove_name (n : name) : option name :=
  if negb (is_txtpp_name n) then None else
  let a := fst (split_ext n) in
  match snd (split_ext a) with
  | Some e =>
    if str_eqb e TXTPP_EXT then
      if negb (name_ok (fst (split_ext a))) then None else
      match snd (split_ext n) with
      | Some [] => Some (fst (split_ext a))
      | Some self_ext => Some (nappend (fst (split_ext a)) self_ext)
      | None => None
      end
    else if name_ok a then Some a else None
  | None => if name_ok a then Some a else None
  end.

Lemma remove_txtpp_snoc dir n :
  remove_txtpp (dir ++ [n]) = option_map (fun m => dir ++ [m]) (remove_name n).
Proof.
  unfold remove_txtpp, remove_name.
  rewrite is_txtpp_file_snoc.
  destruct (negb (is_txtpp_name n)); [reflexivity|].
  cbv zeta.
  rewrite !lex_set_extension_snoc, !lex_extension_snoc, !next_eq, !nset_nil, !stem_ok_snoc.
  destruct (snd (split_ext (fst (split_ext n)))) as [e|];
    [|destruct (name_ok (fst (split_ext n))); reflexivity].
  destruct (str_eqb e TXTPP_EXT); [|destruct (name_ok (fst (split_ext n))); reflexivity].
  destruct (negb (name_ok (fst (split_ext (fst (split_ext n)))))); [reflexivity|].
  destruct (snd (split_ext n)) as [[|c se]|]; [reflexivity| |reflexivity].
  rewrite lex_append_ext_snoc. reflexivity.
Qed.

Lemma path_snoc_cases (p : lexpath) : p = [] \/ exists dir n, p = dir ++ [n].
Proof.
  destruct p as [|x p'] using rev_ind; [left; reflexivity|].
  right. exists p', x. reflexivity.
Qed.

Lemma nodot_txtpp : ~ In DOT TXTPP_EXT.
Proof.
  unfold TXTPP_EXT, c_txtpp_ext, DOT. simpl.
  intros H. repeat (destruct H as [H|H]; [discriminate|]). exact H.
Qed.

Lemma nodot_ne_dotdot n : ~ In DOT n -> n <> dotdot.
Proof. intros H ->. apply H. left. reflexivity. Qed.

Lemma nodot_ne_dot n : ~ In DOT n -> n <> [DOT].
Proof. intros H ->. apply H. left. reflexivity. Qed.

Lemma len_ne_dotdot n : length n <> 2%nat -> n <> dotdot.
Proof. intros H ->. apply H. reflexivity. Qed.

Lemma len_txtpp : length TXTPP_EXT = 5%nat.
Proof. reflexivity. Qed.

Lemma stem_txtpp_ne_dotdot stem : stem ++ DOT :: TXTPP_EXT <> dotdot.
Proof. apply len_ne_dotdot. rewrite app_length. simpl length. lia. Qed.

Lemma split_ext_stem_txtpp stem :
  stem <> [] -> split_ext (stem ++ DOT :: TXTPP_EXT) = (stem, Some TXTPP_EXT).
Proof.
  intros H. apply split_ext_dot; [exact H | exact nodot_txtpp | apply stem_txtpp_ne_dotdot].
Qed.

Lemma str_eqb_false a b : str_eqb a b = false <-> a <> b.
Proof.
  split.
  - intros H E. apply str_eqb_eq in E. rewrite E in H. discriminate.
  - intros H. destruct (str_eqb a b) eqn:E; [|reflexivity]. apply str_eqb_eq in E. contradiction.
Qed.

(* the hub: what it means for a name to be a source *)
Lemma is_txtpp_name_true n :
  is_txtpp_name n = true <->
  exists a e, split_ext n = (a, Some e) /\
    (e = TXTPP_EXT \/ (e <> TXTPP_EXT /\ exists s, split_ext a = (s, Some TXTPP_EXT))).
Proof.
  unfold is_txtpp_name. split.
  - intros H. destruct (split_ext n) as [a [e|]] eqn:E; simpl in H; [|discriminate].
    exists a, e. split; [reflexivity|].
    destruct (str_eqb e TXTPP_EXT) eqn:Ee.
    + left. apply str_eqb_eq. exact Ee.
    + right. split; [apply str_eqb_false; exact Ee|].
      destruct (split_ext a) as [s [e2|]] eqn:E2; simpl in H; [|discriminate].
      apply str_eqb_eq in H. subst e2. exists s. reflexivity.
  - intros (a & e & E & [He | (He & s & E2)]).
    + rewrite E. cbn [fst snd]. subst e. rewrite str_eqb_refl. reflexivity.
    + rewrite E. cbn [fst snd]. apply str_eqb_false in He. rewrite He.
      rewrite E2. cbn [fst snd]. apply str_eqb_refl.
Qed.

Lemma last_split_unique a e a' e' :
  a ++ DOT :: e = a' ++ DOT :: e' -> ~ In DOT e -> ~ In DOT e' -> a = a' /\ e = e'.
Proof.
  intros H He He'.
  pose proof (last_dot_app a e 0 None He) as L1.
  pose proof (last_dot_app a' e' 0 None He') as L2.
  rewrite H in L1. rewrite L1 in L2. injection L2 as L.
  assert (Ha : a = a').
  { rewrite <- (firstn_len_app a (DOT :: e)), <- (firstn_len_app a' (DOT :: e')).
    rewrite L, H. reflexivity. }
  subst a'. apply app_inv_head in H. injection H as H. split; [reflexivity | exact H].
Qed.

Lemma stem_len n : (length (fst (split_ext n)) <= length n)%nat.
Proof.
  destruct (split_ext_cases n) as [[E _] | (a & e & Hn & _ & _ & _ & E)]; rewrite E; simpl.
  - lia.
  - subst n. rewrite app_length. lia.
Qed.

Lemma nset_nonempty n ext : n <> dotdot -> ext <> [] -> nset n ext = fst (split_ext n) ++ DOT :: ext.
Proof.
  intros H He. destruct ext as [|c ext]; [contradiction|]. apply nset_cons. exact H.
Qed.

Lemma nset_len s e : (length (nset s e) <= length s + 1 + length e)%nat.
Proof.
  unfold nset. destruct (is_normal s); [|lia].
  pose proof (stem_len s) as L.
  destruct e as [|c e]; [lia|].
  rewrite app_length. simpl. lia.
Qed.

Lemma app_dot_assoc (a b c : str) : a ++ DOT :: b ++ DOT :: c = (a ++ DOT :: b) ++ DOT :: c.
Proof. rewrite <- app_assoc. reflexivity. Qed.

Lemma is_txtpp_name_last stem : stem <> [] -> is_txtpp_name (stem ++ DOT :: TXTPP_EXT) = true.
Proof.
  intros H. apply is_txtpp_name_true. exists stem, TXTPP_EXT.
  split; [apply split_ext_stem_txtpp; exact H | left; reflexivity].
Qed.

Lemma split_ext_mid s e :
  s <> [] -> ~ In DOT e ->
  split_ext (s ++ DOT :: TXTPP_EXT ++ DOT :: e) = (s ++ DOT :: TXTPP_EXT, Some e).
Proof.
  intros Hs He. rewrite app_dot_assoc. apply split_ext_dot.
  - destruct s; discriminate.
  - exact He.
  - apply len_ne_dotdot. rewrite !app_length. simpl length. lia.
Qed.

Lemma is_txtpp_name_mid s e :
  s <> [] -> ~ In DOT e -> is_txtpp_name (s ++ DOT :: TXTPP_EXT ++ DOT :: e) = true.
Proof.
  intros Hs He. apply is_txtpp_name_true.
  exists (s ++ DOT :: TXTPP_EXT), e. split; [apply split_ext_mid; assumption|].
  destruct (str_eqb e TXTPP_EXT) eqn:Ee.
  - left. apply str_eqb_eq. exact Ee.
  - right. split; [apply str_eqb_false; exact Ee|].
    exists s. apply split_ext_stem_txtpp. exact Hs.
Qed.

Lemma remove_name_last stem :
  stem <> [] -> stem <> [DOT] ->
  (forall s', s' <> [] -> stem <> s' ++ DOT :: TXTPP_EXT) ->
  remove_name (stem ++ DOT :: TXTPP_EXT) = Some stem.
Proof.
  intros Hs Hd H. unfold remove_name. apply name_ok_true in Hd.
  rewrite is_txtpp_name_last by exact Hs. cbn [negb]. cbv zeta.
  rewrite split_ext_stem_txtpp by exact Hs. cbn [fst snd]. rewrite Hd.
  destruct (split_ext stem) as [s [e|]] eqn:E; cbn [fst snd]; [|reflexivity].
  destruct (str_eqb e TXTPP_EXT) eqn:Ee; [|reflexivity].
  exfalso. apply str_eqb_eq in Ee. subst e.
  apply split_ext_some_inv in E. destruct E as (E & Hs' & _).
  exact (H s Hs' E).
Qed.

Lemma remove_name_mid s e :
  s <> [] -> s <> [DOT] -> ~ In DOT e ->
  remove_name (s ++ DOT :: TXTPP_EXT ++ DOT :: e) =
  Some (match e with [] => s | _ => nappend s e end).
Proof.
  intros Hs Hd He. unfold remove_name. apply name_ok_true in Hd.
  rewrite is_txtpp_name_mid by assumption. cbn [negb]. cbv zeta.
  rewrite split_ext_mid by assumption. cbn [fst snd].
  rewrite split_ext_stem_txtpp by exact Hs. cbn [fst snd].
  rewrite str_eqb_refl, Hd. cbn [negb]. destruct e; reflexivity.
Qed.

(* ... and with the stem `.` the name is refused *)
Lemma remove_name_mid_dot e :
  ~ In DOT e -> remove_name ([DOT] ++ DOT :: TXTPP_EXT ++ DOT :: e) = None.
Proof.
  intros He. unfold remove_name.
  rewrite is_txtpp_name_mid; [|discriminate|exact He]. cbn [negb]. cbv zeta.
  rewrite split_ext_mid; [|discriminate|exact He]. cbn [fst snd].
  rewrite split_ext_stem_txtpp by discriminate. cbn [fst snd].
  rewrite str_eqb_refl. reflexivity.
Qed.

Lemma remove_name_last_dot : remove_name ([DOT] ++ DOT :: TXTPP_EXT) = None.
Proof. vm_compute. reflexivity. Qed.

(* the stem of the two source shapes *)
Lemma stem_of_name_mid s e :
  s <> [] -> ~ In DOT e -> stem_of_name (s ++ DOT :: TXTPP_EXT ++ DOT :: e) = s.
Proof.
  intros Hs He. unfold stem_of_name. cbv zeta.
  rewrite split_ext_mid by assumption. cbn [fst snd].
  rewrite split_ext_stem_txtpp by exact Hs. cbn [fst snd].
  rewrite str_eqb_refl. reflexivity.
Qed.

Lemma stem_of_name_last stem :
  stem <> [] -> (forall s', s' <> [] -> stem <> s' ++ DOT :: TXTPP_EXT) ->
  stem_of_name (stem ++ DOT :: TXTPP_EXT) = stem.
Proof.
  intros Hs H. unfold stem_of_name. cbv zeta.
  rewrite split_ext_stem_txtpp by exact Hs. cbn [fst snd].
  destruct (split_ext stem) as [s [e|]] eqn:E; cbn [fst snd]; [|reflexivity].
  destruct (str_eqb e TXTPP_EXT) eqn:Ee; [|reflexivity].
  exfalso. apply str_eqb_eq in Ee. subst e.
  apply split_ext_some_inv in E. destruct E as (E & Hs' & _).
  exact (H s Hs' E).
Qed.

(* remove_name answers exactly when the name is a source whose stem is not `.` *)
Lemma remove_name_none_iff n :
  remove_name n = None <-> is_txtpp_name n = false \/ dot_stem_name n = true.
Proof.
  unfold remove_name, dot_stem_name, stem_of_name.
  destruct (is_txtpp_name n) eqn:T; cbn [negb]; cbv zeta.
  2:{ split; [intros _; left; reflexivity | reflexivity]. }
  apply is_txtpp_name_true in T. destruct T as (a & e & E & _). rewrite E. cbn [fst snd].
  destruct (snd (split_ext a)) as [e2|].
  - destruct (str_eqb e2 TXTPP_EXT).
    + destruct (name_ok (fst (split_ext a))); cbn [negb].
      * split; [destruct e; discriminate | intros [H|H]; discriminate].
      * split; [intros _; right; reflexivity | reflexivity].
    + destruct (name_ok a); cbn [negb].
      * split; [discriminate | intros [H|H]; discriminate].
      * split; [intros _; right; reflexivity | reflexivity].
  - destruct (name_ok a); cbn [negb].
    + split; [discriminate | intros [H|H]; discriminate].
    + split; [intros _; right; reflexivity | reflexivity].
Qed.

Lemma remove_name_defined n :
  (exists m, remove_name n = Some m) <-> is_txtpp_name n = true /\ dot_stem_name n = false.
Proof.
  pose proof (remove_name_none_iff n) as N.
  destruct (remove_name n) as [m|]; split.
  - intros _. destruct (is_txtpp_name n); destruct (dot_stem_name n); try (split; reflexivity);
      exfalso; (assert (X : Some m = None) by (apply N; auto)); discriminate.
  - intros _. exists m. reflexivity.
  - intros [m H]. discriminate.
  - intros [H1 H2]. destruct N as [N _]. destruct (N eq_refl) as [X|X]; congruence.
Qed.

Lemma remove_name_shorter n m : remove_name n = Some m -> (length m < length n)%nat.
Proof.
  unfold remove_name. destruct (is_txtpp_name n) eqn:T; cbn [negb]; cbv zeta; [|discriminate].
  apply is_txtpp_name_true in T. destruct T as (a & e & E & _). rewrite E. cbn [fst snd].
  apply split_ext_some_inv in E. destruct E as (En & _).
  assert (Ln : length n = (length a + 1 + length e)%nat).
  { rewrite En, app_length. simpl. lia. }
  destruct (split_ext a) as [s [e2|]] eqn:E2; cbn [fst snd].
  - destruct (str_eqb e2 TXTPP_EXT) eqn:Ee.
    + apply str_eqb_eq in Ee. subst e2.
      apply split_ext_some_inv in E2. destruct E2 as (Ea & _).
      assert (La : length a = (length s + 6)%nat).
      { rewrite Ea, app_length. simpl. lia. }
      destruct (negb (name_ok s)); [discriminate|].
      destruct e as [|c e'].
      * intros H. injection H as <-. lia.
      * unfold nappend. destruct (is_normal s); intros H; injection H as <-; [|lia].
        rewrite app_length. simpl length in *. lia.
    + destruct (name_ok a); [|discriminate]. intros H. injection H as <-. lia.
  - destruct (name_ok a); [|discriminate]. intros H. injection H as <-. lia.
Qed.

(* a non-source name n (non-empty) is the output of n.txtpp *)
Lemma cand1_ok n :
  n <> [] -> n <> [DOT] -> is_txtpp_name n = false ->
  is_txtpp_name (n ++ DOT :: TXTPP_EXT) = true /\ remove_name (n ++ DOT :: TXTPP_EXT) = Some n.
Proof.
  intros Hn Hd T. split; [apply is_txtpp_name_last; exact Hn|].
  apply remove_name_last; [exact Hn|exact Hd|].
  intros s' Hs' E.
  assert (T' : is_txtpp_name n = true).
  { apply is_txtpp_name_true. exists s', TXTPP_EXT. split; [|left; reflexivity].
    rewrite E. apply split_ext_stem_txtpp. exact Hs'. }
  rewrite T in T'. discriminate.
Qed.

Lemma txtpp_candidates_snoc dir n :
  txtpp_candidates (dir ++ [n]) =
  if is_txtpp_name n then [] else
  match snd (split_ext n) with
  | Some ext =>
    let n1 := nset n (ext ++ [DOT] ++ TXTPP_EXT) in
    [dir ++ [n1]; dir ++ [nset (fst (split_ext n1)) (TXTPP_EXT ++ [DOT] ++ ext)]]
  | None => [dir ++ [nset n TXTPP_EXT]]
  end.
Proof.
  unfold txtpp_candidates. rewrite is_txtpp_file_snoc.
  destruct (is_txtpp_name n); [reflexivity|].
  rewrite lex_extension_snoc, next_eq.
  destruct (snd (split_ext n)) as [ext|].
  - cbv zeta. rewrite !lex_set_extension_snoc, nset_nil. reflexivity.
  - rewrite lex_set_extension_snoc. reflexivity.
Qed.

(* for a normal name n = a.e that is not a source, the candidates are a.e.txtpp and a.txtpp.e *)
Lemma txtpp_candidates_ext dir n a e :
  split_ext n = (a, Some e) -> is_txtpp_name n = false ->
  txtpp_candidates (dir ++ [n]) =
  [dir ++ [n ++ DOT :: TXTPP_EXT]; dir ++ [a ++ DOT :: TXTPP_EXT ++ DOT :: e]].
Proof.
  intros E T. rewrite txtpp_candidates_snoc, T, E. cbn [fst snd]. cbv zeta.
  pose proof (split_ext_some_inv _ _ _ E) as (En & Ha & Hd & Hn).
  assert (Hne : n <> []) by (rewrite En; destruct a; discriminate).
  assert (N1 : nset n (e ++ [DOT] ++ TXTPP_EXT) = n ++ DOT :: TXTPP_EXT).
  { rewrite nset_nonempty; [|exact Hn|destruct e; discriminate].
    rewrite E. cbn [fst].
    rewrite En. cbn [app]. rewrite app_dot_assoc. reflexivity. }
  rewrite N1. rewrite split_ext_stem_txtpp by exact Hne. cbn [fst].
  rewrite nset_nonempty; [|exact Hn|destruct TXTPP_EXT; discriminate].
  rewrite E. cbn [fst]. reflexivity.
Qed.

Lemma txtpp_candidates_noext dir n :
  n <> dotdot -> snd (split_ext n) = None -> is_txtpp_name n = false ->
  txtpp_candidates (dir ++ [n]) = [dir ++ [n ++ DOT :: TXTPP_EXT]].
Proof.
  intros Hn E T. rewrite txtpp_candidates_snoc, T, E.
  rewrite nset_nonempty; [|exact Hn|discriminate].
  rewrite (split_ext_none_stem n E). reflexivity.
Qed.

Lemma txtpp_ne_nil : TXTPP_EXT <> [].
Proof. discriminate. Qed.

(* ------------------------------------------------------------------ *)

(* C11: a name is a source iff its last extension, or the one before it, is `txtpp` *)
Theorem is_txtpp_spec dir n :
  is_normal n = true ->
  (is_txtpp_file (dir ++ [n]) = true <->
   (exists stem, stem <> [] /\ n = stem ++ DOT :: TXTPP_EXT)
   \/ (exists stem e, stem <> [] /\ ~ In DOT e /\ n = stem ++ DOT :: TXTPP_EXT ++ DOT :: e)).
Proof.
  intros _. rewrite is_txtpp_file_snoc. split.
  - intros H. apply is_txtpp_name_true in H.
    destruct H as (a & e & E & [He | (He & s & E2)]);
      apply split_ext_some_inv in E; destruct E as (En & Ha & Hd & _).
    + left. exists a. subst e. split; assumption.
    + right. apply split_ext_some_inv in E2. destruct E2 as (Ea & Hs & _).
      exists s, e. split; [exact Hs|]. split; [exact Hd|].
      rewrite app_dot_assoc, <- Ea. exact En.
  - intros [(stem & Hs & ->) | (stem & e & Hs & He & ->)].
    + apply is_txtpp_name_last. exact Hs.
    + apply is_txtpp_name_mid; assumption.
Qed.
Theorem is_txtpp_only_last_component dir1 dir2 n :
  is_txtpp_file (dir1 ++ [n]) = is_txtpp_file (dir2 ++ [n]).
Proof. rewrite !is_txtpp_file_snoc. reflexivity. Qed.

(* general: stem.txtpp -> stem whenever stem's own last extension is not txtpp (stem may contain dots) *)
Lemma remove_txtpp_last_gen dir stem :
  stem <> [] -> stem <> [DOT] ->
  (forall s', s' <> [] -> stem <> s' ++ DOT :: TXTPP_EXT) ->
  remove_txtpp (dir ++ [stem ++ DOT :: TXTPP_EXT]) = Some (dir ++ [stem]).
Proof.
  intros Hs Hd H. rewrite remove_txtpp_snoc, remove_name_last by assumption. reflexivity.
Qed.

(* general: stem.txtpp.ext -> stem.ext; the stem keeps its own dots (my.file.txtpp.md -> my.file.md).
   Minimal hypotheses: ext may even be `txtpp`, and stem may itself end in `.txtpp`;
   the stem must not be `.` (then the source is refused: dot_stem_sources_are_refused). *)
Theorem remove_txtpp_mid_gen dir stem ext :
  stem <> [] -> stem <> [DOT] -> is_normal stem = true -> ext <> [] -> ~ In DOT ext ->
  remove_txtpp (dir ++ [stem ++ DOT :: TXTPP_EXT ++ DOT :: ext]) = Some (dir ++ [stem ++ DOT :: ext]).
Proof.
  intros Hs Hsd Hn He Hd. rewrite remove_txtpp_snoc, remove_name_mid by assumption.
  destruct ext as [|c ext']; [contradiction|].
  unfold nappend. rewrite Hn. reflexivity.
Qed.
(* as requested; `ext <> TXTPP_EXT` and the last hypothesis are superfluous (see remove_txtpp_mid_gen) *)
Theorem remove_txtpp_mid dir stem ext :
  stem <> [] -> stem <> [DOT] -> is_normal stem = true -> ext <> [] -> ~ In DOT ext -> ext <> TXTPP_EXT ->
  (forall s', s' <> [] -> stem <> s' ++ DOT :: TXTPP_EXT) ->
  remove_txtpp (dir ++ [stem ++ DOT :: TXTPP_EXT ++ DOT :: ext]) = Some (dir ++ [stem ++ DOT :: ext]).
Proof. intros Hs Hsd Hn He Hd _ _. apply remove_txtpp_mid_gen; assumption. Qed.
(* stem.txtpp. (empty last extension) -> stem *)
Theorem remove_txtpp_mid_trailing_dot dir stem :
  stem <> [] -> stem <> [DOT] ->
  remove_txtpp (dir ++ [stem ++ DOT :: TXTPP_EXT ++ [DOT]]) = Some (dir ++ [stem]).
Proof.
  intros Hs Hd. rewrite remove_txtpp_snoc.
  rewrite (remove_name_mid stem [] Hs Hd (fun H => H)). reflexivity.
Qed.
(* `...txtpp.e`: the stem `..` has no file name, nothing is appended *)
Theorem remove_txtpp_mid_dotdot dir ext :
  ~ In DOT ext ->
  remove_txtpp (dir ++ [dotdot ++ DOT :: TXTPP_EXT ++ DOT :: ext]) = Some (dir ++ [dotdot]).
Proof.
  intros Hd. rewrite remove_txtpp_snoc, remove_name_mid; [|discriminate|discriminate|exact Hd].
  destruct ext as [|c ext']; [reflexivity|].
  unfold nappend. replace (is_normal dotdot) with false; [reflexivity|].
  symmetry. apply is_normal_false. reflexivity.
Qed.

(* C11: the three documented shapes and their outputs, beside the source *)
Theorem remove_txtpp_shape1 dir foo ext :        (* foo.ext.txtpp -> foo.ext *)
  foo <> [] -> ~ In DOT foo -> ext <> [] -> ~ In DOT ext -> ext <> TXTPP_EXT ->
  remove_txtpp (dir ++ [foo ++ DOT :: ext ++ DOT :: TXTPP_EXT]) = Some (dir ++ [foo ++ DOT :: ext]).
Proof.
  intros Hf Hfd He Hed Hne. rewrite app_dot_assoc. apply remove_txtpp_last_gen.
  - destruct foo; discriminate.
  - destruct foo as [|x foo']; [contradiction|]. destruct foo'; [destruct ext; [contradiction|]|]; discriminate.
  - intros s' Hs' E. apply last_split_unique in E; [|exact Hed|exact nodot_txtpp].
    destruct E as [_ E]. contradiction.
Qed.
Theorem remove_txtpp_shape2 dir foo ext :        (* foo.txtpp.ext -> foo.ext *)
  foo <> [] -> ~ In DOT foo -> ext <> [] -> ~ In DOT ext -> ext <> TXTPP_EXT ->
  remove_txtpp (dir ++ [foo ++ DOT :: TXTPP_EXT ++ DOT :: ext]) = Some (dir ++ [foo ++ DOT :: ext]).
Proof.
  intros Hf Hfd He Hed Hne. apply remove_txtpp_mid_gen; try assumption.
  - apply nodot_ne_dot. exact Hfd.
  - apply is_normal_true. apply nodot_ne_dotdot. exact Hfd.
Qed.
Theorem remove_txtpp_shape3 dir foo :            (* foo.txtpp -> foo *)
  foo <> [] -> ~ In DOT foo ->
  remove_txtpp (dir ++ [foo ++ DOT :: TXTPP_EXT]) = Some (dir ++ [foo]).
Proof.
  intros Hf Hfd. apply remove_txtpp_last_gen; [exact Hf|apply nodot_ne_dot; exact Hfd|].
  intros s' _ E. apply Hfd. rewrite E. apply in_or_app. right. left. reflexivity.
Qed.
(* general: stem.txtpp -> stem whenever stem's own last extension is not txtpp (stem may contain dots) *)
Theorem remove_txtpp_last dir stem :
  stem <> [] -> stem <> [DOT] -> is_normal (stem ++ DOT :: TXTPP_EXT) = true ->
  (forall s', s' <> [] -> stem <> s' ++ DOT :: TXTPP_EXT) ->
  remove_txtpp (dir ++ [stem ++ DOT :: TXTPP_EXT]) = Some (dir ++ [stem]).
Proof. intros Hs Hd _ H. apply remove_txtpp_last_gen; assumption. Qed.

(* C10: the output is beside the source (only the last component changes), differs from the source,
   and remove_txtpp is defined exactly on the sources whose stem is not `.` *)
Theorem remove_txtpp_defined p :
  (exists q, remove_txtpp p = Some q) <-> is_txtpp_file p = true /\ dot_stem p = false.
Proof.
  destruct (path_snoc_cases p) as [-> | (dir & n & ->)].
  - cbn. split; [intros [q H]; discriminate | intros [H _]; discriminate].
  - rewrite remove_txtpp_snoc, is_txtpp_file_snoc, dot_stem_snoc, <- remove_name_defined.
    destruct (remove_name n) as [m|]; cbn [option_map].
    + split; intros _; eexists; reflexivity.
    + split; intros [x H]; discriminate.
Qed.
(* the direction that did not change: only sources have an output *)
Theorem remove_txtpp_some_is_source p q : remove_txtpp p = Some q -> is_txtpp_file p = true.
Proof. intros H. apply (remove_txtpp_defined p). exists q. exact H. Qed.
Theorem remove_txtpp_none_iff p :
  remove_txtpp p = None <-> is_txtpp_file p = false \/ dot_stem p = true.
Proof.
  destruct (path_snoc_cases p) as [-> | (dir & n & ->)].
  - cbn. split; [intros _; left; reflexivity | reflexivity].
  - rewrite remove_txtpp_snoc, is_txtpp_file_snoc, dot_stem_snoc, <- remove_name_none_iff.
    destruct (remove_name n) as [m|]; cbn [option_map]; split; try discriminate; reflexivity.
Qed.

(* which sources have the stem `.`: exactly `..txtpp` and `..txtpp.e` (e without a dot; e may be empty or `txtpp`) *)
Theorem dot_stem_spec dir n :
  is_txtpp_file (dir ++ [n]) = true ->
  (dot_stem (dir ++ [n]) = true <->
   n = [DOT; DOT] ++ TXTPP_EXT \/ exists e, ~ In DOT e /\ n = [DOT; DOT] ++ TXTPP_EXT ++ DOT :: e).
Proof.
  rewrite is_txtpp_file_snoc, dot_stem_snoc. intros T. unfold dot_stem_name. split.
  - intros H. apply (f_equal negb) in H. rewrite Bool.negb_involutive in H. cbn [negb] in H.
    apply name_ok_false in H. revert H. unfold stem_of_name. cbv zeta.
    apply is_txtpp_name_true in T. destruct T as (a & e & E & D). rewrite E. cbn [fst snd].
    apply split_ext_some_inv in E. destruct E as (En & Ha & Hd & Hn).
    destruct (split_ext a) as [s [e2|]] eqn:E2; cbn [fst snd].
    + destruct (str_eqb e2 TXTPP_EXT) eqn:Ee.
      * apply str_eqb_eq in Ee. subst e2. intros ->.
        apply split_ext_some_inv in E2. destruct E2 as (Ea & _).
        right. exists e. split; [exact Hd|]. rewrite En, Ea. rewrite <- app_assoc. reflexivity.
      * intros ->. rewrite (split_ext_leading_dot [] (fun H => H)) in E2. discriminate E2.
    + intros ->. left. destruct D as [-> | (_ & s' & X)]; [exact En | discriminate X].
  - intros [-> | (e & He & ->)].
    + vm_compute. reflexivity.
    + change ([DOT; DOT] ++ TXTPP_EXT ++ DOT :: e) with ([DOT] ++ DOT :: TXTPP_EXT ++ DOT :: e).
      rewrite stem_of_name_mid; [|discriminate|exact He]. reflexivity.
Qed.

(* fix F8: the sources `..txtpp`, `..txtpp.ext` (any extension without a dot, also the empty one) and
   `..txtpp.txtpp`, in any directory, have no output path: the code derives `dir/.` (no file name) resp.
   `<parent>/dir.ext` (not beside the source) and IOCtx::new refuses them *)
Theorem dot_stem_sources_are_refused dir :
  remove_txtpp (dir ++ [[DOT; DOT] ++ TXTPP_EXT]) = None /\
  (forall ext, ~ In DOT ext -> remove_txtpp (dir ++ [[DOT; DOT] ++ TXTPP_EXT ++ DOT :: ext]) = None) /\
  remove_txtpp (dir ++ [[DOT; DOT] ++ TXTPP_EXT ++ DOT :: TXTPP_EXT]) = None.
Proof.
  assert (M : forall ext, ~ In DOT ext ->
              remove_txtpp (dir ++ [[DOT; DOT] ++ TXTPP_EXT ++ DOT :: ext]) = None).
  { intros ext He. rewrite remove_txtpp_snoc.
    change ([DOT; DOT] ++ TXTPP_EXT ++ DOT :: ext) with ([DOT] ++ DOT :: TXTPP_EXT ++ DOT :: ext).
    rewrite remove_name_mid_dot by exact He. reflexivity. }
  split; [|split; [exact M | apply M; exact nodot_txtpp]].
  rewrite remove_txtpp_snoc.
  change ([DOT; DOT] ++ TXTPP_EXT) with ([DOT] ++ DOT :: TXTPP_EXT).
  rewrite remove_name_last_dot. reflexivity.
Qed.
(* ... while the neighbouring names keep their outputs: `..a.txtpp` -> `..a`, `.a.txtpp` -> `.a` *)
Example dot_stem_neighbours_unchanged :
  remove_txtpp [[100]; [DOT; DOT; 97] ++ DOT :: TXTPP_EXT] = Some [[100]; [DOT; DOT; 97]] /\
  remove_txtpp [[100]; [DOT; 97] ++ DOT :: TXTPP_EXT] = Some [[100]; [DOT; 97]] /\
  remove_txtpp [[100]; DOT :: TXTPP_EXT] = None /\
  remove_txtpp [[100]; [DOT; DOT; DOT] ++ TXTPP_EXT] = Some [[100]; dotdot].
Proof. vm_compute. repeat split; reflexivity. Qed.

Lemma candidates_none_for_sources0 p : is_txtpp_file p = true -> txtpp_candidates p = [].
Proof. intros H. unfold txtpp_candidates. rewrite H. reflexivity. Qed.
Theorem output_beside_source dir n q :
  remove_txtpp (dir ++ [n]) = Some q -> exists m, q = dir ++ [m].
Proof.
  rewrite remove_txtpp_snoc. destruct (remove_name n) as [m|]; cbn [option_map]; intros H.
  - injection H as <-. exists m. reflexivity.
  - discriminate.
Qed.
(* the output name is strictly shorter than the source name (so distinct) *)
Lemma output_shorter0 dir n m :
  remove_txtpp (dir ++ [n]) = Some (dir ++ [m]) -> (length m < length n)%nat.
Proof.
  rewrite remove_txtpp_snoc. destruct (remove_name n) as [m'|] eqn:R; cbn [option_map]; intros H.
  - injection H as H. apply app_inv_head in H. injection H as ->.
    apply remove_name_shorter. exact R.
  - discriminate.
Qed.
Theorem output_ne_source p q : remove_txtpp p = Some q -> q <> p.
Proof.
  destruct (path_snoc_cases p) as [-> | (dir & n & ->)].
  - cbn. discriminate.
  - intros H E. subst q. apply output_shorter0 in H. lia.
Qed.
Theorem output_shorter dir n m :
  remove_txtpp (dir ++ [n]) = Some (dir ++ [m]) -> (length m < length n)%nat.
Proof. apply output_shorter0. Qed.

(* C11: every candidate source of an output name maps back to that name: `get_txtpp_file` and `remove_txtpp`
   are inverse (for ordinary names: non-empty, not `..`, not ending in a dot) *)
(* FALSE (still, with the corrected model):
   Theorem candidates_are_sources dir n c :
     is_normal n = true -> n <> [] -> (forall a, n <> a ++ [DOT]) ->
     In c (txtpp_candidates (dir ++ [n])) ->
     is_txtpp_file c = true /\ remove_txtpp c = Some (dir ++ [n]).
   Counterexample: n = "...a" = [46;46;46;97], dir = []: the candidates are ["...a.txtpp"; "...txtpp.a"]
   and remove_txtpp ["...txtpp.a"] = Some [".."] <> Some ["...a"]: the stem of n is `..`, which has
   no file name, so the extension is not appended.  See candidates_counterexample.  With the single extra hypothesis that the stem is not `..`
   the statement holds (candidates_are_sources_weaker); that hypothesis is necessary
   (candidates_second_needs); the first candidate is always right (candidates_first_is_source). *)
Example candidates_counterexample :
  let n := [46;46;46;97] in
  is_normal n = true /\ n <> [] /\ (forall a, n <> a ++ [DOT]) /\
  In [[46;46;46;116;120;116;112;112;46;97]] (txtpp_candidates ([] ++ [n])) /\
  is_txtpp_file [[46;46;46;116;120;116;112;112;46;97]] = true /\
  remove_txtpp [[46;46;46;116;120;116;112;112;46;97]] = Some [[46;46]].
Proof.
  cbv zeta. split; [reflexivity|]. split; [discriminate|]. split.
  - intros a E. apply (f_equal (@rev byte)) in E. rewrite rev_unit in E. discriminate.
  - split; [right; left; reflexivity | split; reflexivity].
Qed.

(* (n <> [DOT]: a lexical path has no `.` component; `..txtpp`, the candidate for `.`, is refused) *)
Theorem candidates_first_is_source dir n c rest :
  is_normal n = true -> n <> [] -> n <> [DOT] ->
  txtpp_candidates (dir ++ [n]) = c :: rest ->
  is_txtpp_file c = true /\ remove_txtpp c = Some (dir ++ [n]).
Proof.
  intros Hn Hne Hnd. apply is_normal_true in Hn.
  destruct (is_txtpp_name n) eqn:T.
  { rewrite candidates_none_for_sources0; [discriminate|]. rewrite is_txtpp_file_snoc. exact T. }
  destruct (cand1_ok n Hne Hnd T) as [C1 C2].
  assert (X : c = dir ++ [n ++ DOT :: TXTPP_EXT] ->
              is_txtpp_file c = true /\ remove_txtpp c = Some (dir ++ [n])).
  { intros ->. rewrite is_txtpp_file_snoc, remove_txtpp_snoc, C2. split; [exact C1 | reflexivity]. }
  destruct (split_ext n) as [a [e|]] eqn:E.
  - rewrite (txtpp_candidates_ext dir n a e E T). intros H. injection H as H _. apply X. symmetry. exact H.
  - rewrite (txtpp_candidates_noext dir n Hn); [|rewrite E; reflexivity|exact T].
    intros H. injection H as H _. apply X. symmetry. exact H.
Qed.

Theorem candidates_are_sources_weaker dir n c :
  is_normal n = true -> n <> [] -> (forall a, n <> a ++ [DOT]) ->
  is_normal (fst (split_ext n)) = true ->            (* extra: the stem is not `..` *)
  fst (split_ext n) <> [DOT] ->                      (* extra (fix F8): nor `.` (n is neither `.` nor `..e`) *)
  In c (txtpp_candidates (dir ++ [n])) ->
  is_txtpp_file c = true /\ remove_txtpp c = Some (dir ++ [n]).
Proof.
  intros Hnorm Hne Hnd Hsn Hsd Hin.
  assert (Hn1 : n <> [DOT]) by (intros ->; apply Hsd; reflexivity).
  destruct (txtpp_candidates (dir ++ [n])) as [|c1 rest] eqn:C; [destruct Hin|].
  pose proof (candidates_first_is_source dir n c1 rest Hnorm Hne Hn1 C) as H1.
  destruct Hin as [<- | Hin]; [exact H1|].
  destruct (is_txtpp_name n) eqn:T.
  { rewrite candidates_none_for_sources0 in C; [discriminate|]. rewrite is_txtpp_file_snoc. exact T. }
  destruct (split_ext n) as [a [e|]] eqn:E.
  - rewrite (txtpp_candidates_ext dir n a e E T) in C.
    assert (C2 : rest = [dir ++ [a ++ DOT :: TXTPP_EXT ++ DOT :: e]]) by congruence.
    subst rest. clear C.
    destruct Hin as [<- | []]. cbn [fst] in Hsn, Hsd.
    apply split_ext_some_inv in E. destruct E as (En & Ha & Hd & _).
    rewrite is_txtpp_file_snoc, remove_txtpp_snoc.
    split; [apply is_txtpp_name_mid; assumption|].
    rewrite remove_name_mid by assumption. cbn [option_map].
    destruct e as [|x e']; [exfalso; exact (Hnd a En)|].
    unfold nappend. rewrite Hsn, En. reflexivity.
  - apply is_normal_true in Hnorm.
    rewrite (txtpp_candidates_noext dir n Hnorm) in C; [|rewrite E; reflexivity|exact T].
    injection C as _ <-. destruct Hin.
Qed.

(* the extra hypothesis is necessary: if n has an extension and the second candidate is right,
   then the stem of n is not `..` *)
Theorem candidates_second_needs dir n c1 c2 :
  snd (split_ext n) <> None ->
  txtpp_candidates (dir ++ [n]) = [c1; c2] ->
  remove_txtpp c2 = Some (dir ++ [n]) ->
  is_normal (fst (split_ext n)) = true.
Proof.
  intros Hx.
  destruct (is_txtpp_name n) eqn:T.
  { rewrite candidates_none_for_sources0; [discriminate|]. rewrite is_txtpp_file_snoc. exact T. }
  destruct (split_ext n) as [a [e|]] eqn:E; cbn [fst snd] in *; [|contradiction].
  rewrite (txtpp_candidates_ext dir n a e E T). intros C.
  assert (C2 : c2 = dir ++ [a ++ DOT :: TXTPP_EXT ++ DOT :: e]) by congruence.
  subst c2. clear C.
  apply split_ext_some_inv in E. destruct E as (En & Ha & Hd & Hn).
  destruct (is_normal a) eqn:Na; [reflexivity|].
  assert (Had : a <> [DOT]) by (intros ->; discriminate Na).
  rewrite remove_txtpp_snoc, remove_name_mid by assumption. cbn [option_map].
  intros R. exfalso.
  injection R as R. apply app_inv_head in R. injection R as R.
  assert (R' : a = n).
  { destruct e as [|x e']; [exact R|]. unfold nappend in R. rewrite Na in R. exact R. }
  apply is_normal_false in Na. apply Hn. rewrite <- R'. exact Na.
Qed.

Theorem candidates_none_for_sources p : is_txtpp_file p = true -> txtpp_candidates p = [].
Proof. apply candidates_none_for_sources0. Qed.
Theorem candidates_shapes dir foo ext :
  foo <> [] -> ~ In DOT foo -> ext <> [] -> ~ In DOT ext -> ext <> TXTPP_EXT -> foo <> TXTPP_EXT \/ True ->
  is_txtpp_file (dir ++ [foo ++ DOT :: ext]) = false ->
  txtpp_candidates (dir ++ [foo ++ DOT :: ext]) =
    [dir ++ [foo ++ DOT :: ext ++ DOT :: TXTPP_EXT]; dir ++ [foo ++ DOT :: TXTPP_EXT ++ DOT :: ext]].
Proof.
  intros Hf Hfd He Hed Hne _ T. rewrite is_txtpp_file_snoc in T.
  assert (Hn : foo ++ DOT :: ext <> dotdot).
  { apply len_ne_dotdot. rewrite app_length. destruct foo; [contradiction|].
    destruct ext; [contradiction|]. simpl. lia. }
  rewrite app_dot_assoc.
  exact (txtpp_candidates_ext dir _ foo ext (split_ext_dot foo ext Hf Hed Hn) T).
Qed.
Theorem candidates_shape_noext dir foo :
  foo <> [] -> ~ In DOT foo ->
  txtpp_candidates (dir ++ [foo]) = [dir ++ [foo ++ DOT :: TXTPP_EXT]].
Proof.
  intros Hf Hfd. apply txtpp_candidates_noext.
  - apply nodot_ne_dotdot. exact Hfd.
  - rewrite split_ext_nodot by exact Hfd. reflexivity.
  - unfold is_txtpp_name. rewrite split_ext_nodot by exact Hfd. reflexivity.
Qed.

(* ------------------------------------------------------------------ *)
(* when is the output itself a source?  only for names carrying `txtpp` twice *)

Ltac norm_app := repeat (first [rewrite <- app_assoc | progress (cbn [app])]).

Lemma is_txtpp_name_shapes n :
  is_txtpp_name n = true ->
  (exists stem, stem <> [] /\ n = stem ++ DOT :: TXTPP_EXT)
  \/ (exists stem e, stem <> [] /\ ~ In DOT e /\ n = stem ++ DOT :: TXTPP_EXT ++ DOT :: e).
Proof.
  intros H. apply is_txtpp_name_true in H.
  destruct H as (a & e & E & [He | (He & s & E2)]);
    apply split_ext_some_inv in E; destruct E as (En & Ha & Hd & _).
  - left. exists a. subst e. split; assumption.
  - right. apply split_ext_some_inv in E2. destruct E2 as (Ea & Hs & _).
    exists s, e. split; [exact Hs|]. split; [exact Hd|].
    rewrite app_dot_assoc, <- Ea. exact En.
Qed.

Lemma is_txtpp_name_leading_dot e : ~ In DOT e -> is_txtpp_name (DOT :: e) = false.
Proof. intros H. unfold is_txtpp_name. rewrite split_ext_leading_dot by exact H. reflexivity. Qed.

Definition double_txtpp_shape (n : name) : Prop :=
  exists stem, stem <> [] /\
   (n = stem ++ DOT :: TXTPP_EXT ++ DOT :: TXTPP_EXT                                 (* s.txtpp.txtpp     -> s.txtpp *)
    \/ exists e, ~ In DOT e /\
       (n = stem ++ DOT :: TXTPP_EXT ++ DOT :: TXTPP_EXT ++ DOT :: e                  (* s.txtpp.txtpp.e   -> s.txtpp.e *)
        \/ n = stem ++ DOT :: TXTPP_EXT ++ DOT :: e ++ DOT :: TXTPP_EXT               (* s.txtpp.e.txtpp   -> s.txtpp.e *)
        \/ n = stem ++ DOT :: TXTPP_EXT ++ DOT :: e ++ DOT :: TXTPP_EXT ++ [DOT])).   (* s.txtpp.e.txtpp.  -> s.txtpp.e *)

Lemma remove_name_single_source n m :
  remove_name n = Some m -> is_txtpp_name m = true -> double_txtpp_shape n.
Proof.
  unfold remove_name. destruct (is_txtpp_name n) eqn:T; cbn [negb]; cbv zeta; [|discriminate].
  apply is_txtpp_name_true in T. destruct T as (a & e & E & D). rewrite E. cbn [fst snd].
  apply split_ext_some_inv in E. destruct E as (En & Ha & Hd & Hn).
  destruct (split_ext a) as [s [e2|]] eqn:E2; cbn [fst snd].
  - pose proof (split_ext_some_inv _ _ _ E2) as (Ea & Hs & Hd2 & _).
    destruct (str_eqb e2 TXTPP_EXT) eqn:Ee.
    + apply str_eqb_eq in Ee. subst e2.
      destruct (negb (name_ok s)); [discriminate|].
      destruct e as [|c e'].
      * intros H. injection H as <-. intros Tm.
        apply is_txtpp_name_shapes in Tm.
        destruct Tm as [(t & Ht & Es) | (t & e1 & Ht & He1 & Es)];
          exists t; (split; [exact Ht|]); right.
        -- exists []. split; [intros []|]. left.
           rewrite En, Ea, Es. norm_app. reflexivity.
        -- exists e1. split; [exact He1|]. right. right.
           rewrite En, Ea, Es. norm_app. reflexivity.
      * unfold nappend. destruct (is_normal s) eqn:Ns; intros H; injection H as <-; intros Tm.
        2:{ apply is_normal_false in Ns. subst s. unfold is_txtpp_name in Tm.
            rewrite split_ext_dotdot in Tm. discriminate. }
        apply is_txtpp_name_true in Tm. destruct Tm as (a' & e'' & E' & D').
        assert (X : split_ext (s ++ [DOT] ++ c :: e') = (s, Some (c :: e'))).
        { apply split_ext_dot; [exact Hs | exact Hd |].
          apply len_ne_dotdot. rewrite app_length. destruct s; [contradiction|]. simpl. lia. }
        pose proof (eq_trans (eq_sym X) E') as Y. injection Y as <- <-.
        destruct D' as [He | (_ & t & Et)].
        -- exists s. split; [exact Hs|]. left.
           rewrite En, Ea, He. norm_app. reflexivity.
        -- apply split_ext_some_inv in Et. destruct Et as (Es & Ht & _).
           exists t. split; [exact Ht|]. right. exists (c :: e'). split; [exact Hd|]. left.
           rewrite En, Ea, Es. norm_app. reflexivity.
    + destruct (name_ok a); [|discriminate]. intros H. injection H as <-. intros Tm.
      assert (He : e = TXTPP_EXT).
      { destruct D as [He | (_ & s' & Es')]; [exact He|].
        injection Es' as _ Es'. subst e2.
        rewrite str_eqb_refl in Ee. discriminate. }
      apply is_txtpp_name_true in Tm. destruct Tm as (a' & e'' & E' & D').
      pose proof (eq_trans (eq_sym E2) E') as Y. injection Y as <- <-.
      destruct D' as [He2 | (_ & t & Et)].
      * subst e2. rewrite str_eqb_refl in Ee. discriminate.
      * apply split_ext_some_inv in Et. destruct Et as (Es & Ht & _).
        exists t. split; [exact Ht|]. right. exists e2. split; [exact Hd2|]. right. left.
        rewrite En, Ea, Es, He. norm_app. reflexivity.
  - destruct (name_ok a); [|discriminate]. intros H. injection H as <-. intros Tm.
    apply is_txtpp_name_true in Tm. destruct Tm as (a' & e'' & E' & _).
    pose proof (eq_trans (eq_sym E2) E') as Y. discriminate.
Qed.

(* the output of a source is itself a source only if the source name carries `txtpp` twice, in one of four shapes *)
Theorem output_is_not_source_unless_double p q :
  remove_txtpp p = Some q -> is_txtpp_file q = true ->
  exists dir n, p = dir ++ [n] /\ double_txtpp_shape n.
Proof.
  destruct (path_snoc_cases p) as [-> | (dir & n & ->)].
  - cbn. discriminate.
  - rewrite remove_txtpp_snoc. destruct (remove_name n) as [m|] eqn:R; cbn [option_map]; [|discriminate].
    intros H. injection H as <-.
    rewrite is_txtpp_file_snoc. intros Tm. exists dir, n. split; [reflexivity|].
    exact (remove_name_single_source n m R Tm).
Qed.
(* conversely each of the four shapes does give an output that is again a source (for a normal stem) *)
Theorem double_shape1_output dir stem :
  stem <> [] -> stem <> [DOT] -> is_normal stem = true ->
  remove_txtpp (dir ++ [stem ++ DOT :: TXTPP_EXT ++ DOT :: TXTPP_EXT]) = Some (dir ++ [stem ++ DOT :: TXTPP_EXT]).
Proof.
  intros Hs Hd Hn. apply remove_txtpp_mid_gen; [exact Hs | exact Hd | exact Hn | exact txtpp_ne_nil | exact nodot_txtpp].
Qed.
(* path strings *)
Lemma strip_prefix_app0 b r : strip_prefix b (b ++ r) = Some r.
Proof.
  induction b as [|x b IH]; simpl; [reflexivity|].
  rewrite str_eqb_refl. exact IH.
Qed.
Lemma path_eqb_app_false base rel : rel <> [] -> path_eqb base (base ++ rel) = false.
Proof.
  intros H. induction base as [|x b IH]; simpl.
  - destruct rel; [contradiction | reflexivity].
  - rewrite IH. apply andb_false_r.
Qed.
Theorem display_under_base base rel :
  rel <> [] -> display_from_base base (base ++ rel) = rel_string rel.
Proof.
  intros H. unfold display_from_base.
  rewrite path_eqb_app_false by exact H. rewrite strip_prefix_app0. reflexivity.
Qed.
Lemma strip_prefix_app b r : strip_prefix b (b ++ r) = Some r.
Proof. apply strip_prefix_app0. Qed.
Lemma strip_prefix_some b p r : strip_prefix b p = Some r -> p = b ++ r.
Proof.
  revert p. induction b as [|x b IH]; intros p H; simpl in H.
  - injection H as ->. reflexivity.
  - destruct p as [|y p']; [discriminate|].
    destruct (str_eqb x y) eqn:E; [|discriminate].
    apply str_eqb_eq in E. subst y. simpl. f_equal. apply IH. exact H.
Qed.
