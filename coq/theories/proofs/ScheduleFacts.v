(* ScheduleFacts.v — C02 for projects WITH dependencies: what a first pass probes, which dependencies it reports,
   and stale outputs / schedules for whole runs.  Builds on FrameFacts (you MAY edit FrameFacts.v in your workspace to
   refine `probes`, see below), EventFacts, ConfluenceFacts, CoordFacts, RunFacts.
   TASK: DESIGN-and-prove. State each result as precisely as you can, prove it, leave NO Admitted, and report the
   exact final statements. *)
Require Import Txtpp.Str Txtpp.Consts Txtpp.Grammar Txtpp.Tags Txtpp.Path Txtpp.Fs Txtpp.Sink Txtpp.Pp Txtpp.Spec.
Require Import Txtpp.Dep Txtpp.Coord Txtpp.Run.
Require Import Txtpp.proofs.StrFacts Txtpp.proofs.SinkFacts Txtpp.proofs.PathFacts Txtpp.proofs.PpFacts Txtpp.proofs.EventFacts.
Require Import Txtpp.proofs.FrameFacts Txtpp.proofs.ConfluenceFacts Txtpp.proofs.DepFacts Txtpp.proofs.CoordFacts Txtpp.proofs.RunFacts.
From Coq Require Import Lia Permutation.

(* GOAL 1 — what a first pass reports.  For a first pass (first = true) in a non-clean mode that returns
   `PpHasDeps deps w'`: `deps` is exactly the list, in order, of `os_resolve` of `get_txtpp_file` of the include/after
   arguments of the items of the source that have a `.txtpp` candidate that is a file (evaluated in the world at that point;
   since a first pass stops executing at the first such directive the world no longer changes after it, so it can be
   evaluated in w'). Define `dep_targets` accordingly and prove `first_pass_reports_exactly`. Also prove
   `first_pass_no_read_of_dependency_outputs`: a first pass never reads (read_file / os_resolve of the include target itself)
   the output of a file it reports as a dependency — so its outcome does not depend on what is lying there.
   This is the refinement of FrameFacts.probes that ConfluenceFacts' author found missing: you may add to YOUR copy of
   FrameFacts.v a finer `probes1` for first passes and re-prove `pp_run_frame_agree` with it (keep the old theorem too),
   or prove the finer frame theorem here as a separate theorem. *)

(* GOAL 2 — stale outputs are irrelevant for projects with dependencies.  Using GOAL 1 and
   CoordFacts.final_pass_deps_finished (a final pass runs only when the reported dependencies are finished, i.e. after their
   outputs were rewritten in both worlds), derive ConfluenceFacts.run_stale_safe (or whatever the monitor needs) from a STATIC
   condition on the initial tree that allows a source to include the outputs of other sources. State and prove
   `stale_outputs_irrelevant_deps` with the same conclusion as ConfluenceFacts.stale_outputs_irrelevant_static. *)

(* GOAL 3 (stretch) — schedule independence.  For two schedules s1 s2 (same oracle, config in Build mode, same initial world,
   enough fuel) with both verdicts VOk: the final worlds are w_eq.  Suggested route: (i) in a successful run every seen
   file is finished (RunFacts.ok_means_all_finished) and the set of seen files is the same for both schedules (closure of
   the inputs under reported dependencies, which by GOAL 1 are a function of the initial tree: sources are never written);
   (ii) for a finished file f, the world in which its LAST pass ran agrees with the final world on everything that pass
   probes (later passes of other files write only their own footprints — EventFacts.pp_run_events_general — which by a static
   disjointness hypothesis do not meet f's probes, except the outputs of f's dependencies, which were already final
   (CoordFacts.finished_monotone / finished_not_inflight: no pass of a finished file ever runs again));
   (iii) hence, by the frame theorem, re-running f's last pass in the FINAL world changes nothing on f's footprint: the final world
   is a fixpoint of every finished file's last pass; (iv) two fixpoints that agree outside all footprints are w_eq, by
   well-founded induction on the dependency order (which is acyclic among finished files).
   State the static disjointness hypothesis explicitly (pairwise: writes_of f ∩ (writes_of g ∪ reads_of g ∪ {g}) ⊆ the outputs that g includes). *)

(* ================================================================================================
   RESULTS (everything below is proved, no Admitted, no axiom).
   GOAL 1  `dep_target` / `dep_targets`: the dependency a directive / the items make a first pass record.
           `first_pass_reports_exactly`: a first pass in a non-clean mode that returns PpHasDeps deps w' has
              deps = dep_targets (w_fs w') src items = dep_targets (w_fs w) src items, and deps <> [].
           `first_pass_ok_no_targets`: conversely PpOk means there is no dependency target.
           `probes1` / `first_probes`: the fine probes of a first pass; `probes1_first_spec` says they are the `.txtpp`
              candidates plus what the directives BEFORE the first recorded dependency look at (`early_xprobes`);
              `first_probes_sub`: they are among FrameFacts.probes.
           `first_pass_frame` (the frame theorem with the fine probes) and its list form
              `first_pass_no_read_of_dependency_outputs`.
           Hypothesis `cands_apart`: no probed candidate is among the paths the pass may write (`cands_apart_intro`,
              `cprobes_txtpp`: true as soon as the arguments end with ordinary names and no `.txtpp` name is written).
   GOAL 2  `build_pass_stale1/2`, `stale_step1`, `stale_outputs_irrelevant_loop1`, `stale_outputs_irrelevant1`
              (the dynamic condition `run_stale_safe1` uses the fine probes), `final_inflight_reported`,
           `static_ok_deps` and `stale_outputs_irrelevant_deps` (same conclusion as
              ConfluenceFacts.stale_outputs_irrelevant_static, sources may include the stale outputs of their dependencies).
   GOAL 3  `sched_ok` (the static disjointness hypothesis; it excludes temp directives), `FP` (the final world is a
              fixpoint of the last pass of every finished file), `run_closed` / `run_least` (the files a successful run
              sees are the least set closed under scans and dependencies), `schedule_independence_loop`,
           `schedule_independence`: two successful Build runs from the same world end in w_eq worlds, whatever the schedules.
   Non-vacuity: `first_pass_reports_exactly_ex`, `first_pass_no_read_ex`, `stale_outputs_irrelevant_deps_nonvacuous`
              (with `g2_not_static_ok`: the condition of ConfluenceFacts fails there), `schedule_independence_nonvacuous`.
   ================================================================================================ *)

Local Open Scope bool_scope.

(* ================================================================================================
   PART A — a bridge between the line machine and the item semantics that also covers the state reached by
   `run_lines` (PpFacts.fusion only describes `finish` of that state): the lines are split into the items that are
   complete and the directive that is still open.
   ================================================================================================ *)
Section Bridge.
Variable clean : bool.

Definition pend (c : option directive) : list item :=
  match c with Some d => [IDir d false] | None => [] end.

Fixpoint lsplit (c : option directive) (ls : list str) : list item * option directive :=
  match ls with
  | [] => ([], c)
  | l :: r =>
    let fresh :=
      match detect_from l with
      | Some d => if needs_prefix_err d
                  then (if clean then (IText [] :: fst (lsplit None r), snd (lsplit None r)) else ([IBad], None))
                  else lsplit (Some d) r
      | None => (IText l :: fst (lsplit None r), snd (lsplit None r))
      end in
    match c with
    | None => fresh
    | Some d =>
      match add_line d l with
      | AddOk d' => lsplit (Some d') r
      | AddStop => (IDir d true :: fst fresh, snd fresh)
      | AddPanic => ([ISlicePanic], None)
      end
    end
  end.

Lemma lsplit_parse ls : forall c, parse clean c ls = fst (lsplit c ls) ++ pend (snd (lsplit c ls)).
Proof.
  induction ls as [|l r IH]; intros c.
  - destruct c; reflexivity.
  - cbn [parse lsplit].
    assert (F : match detect_from l with
                | Some d => if needs_prefix_err d then if clean then IText [] :: parse clean None r else [IBad]
                            else parse clean (Some d) r
                | None => IText l :: parse clean None r
                end =
                fst (match detect_from l with
                     | Some d => if needs_prefix_err d
                                 then (if clean then (IText [] :: fst (lsplit None r), snd (lsplit None r)) else ([IBad], None))
                                 else lsplit (Some d) r
                     | None => (IText l :: fst (lsplit None r), snd (lsplit None r))
                     end) ++
                pend (snd (match detect_from l with
                     | Some d => if needs_prefix_err d
                                 then (if clean then (IText [] :: fst (lsplit None r), snd (lsplit None r)) else ([IBad], None))
                                 else lsplit (Some d) r
                     | None => (IText l :: fst (lsplit None r), snd (lsplit None r))
                     end))).
    { destruct (detect_from l) as [d|].
      - destruct (needs_prefix_err d); [destruct clean|]; cbn [fst snd pend app]; try reflexivity.
        + rewrite IH. reflexivity.
        + apply IH.
      - cbn [fst snd]. rewrite IH. reflexivity. }
    destruct c as [d|]; [|exact F].
    destruct (add_line d l); [apply IH| |reflexivity].
    cbn [fst snd]. rewrite F. reflexivity.
Qed.
End Bridge.

Section BridgeRun.
Variable orc : oracle.
Variable md : mode.
Variable src base : path.
Variable le : str.
Local Notation clean := (mode_eqb md Clean).

(* the items executed one after the other (the first component of Spec.run_items) *)
Definition ritems (its : list item) (s : pst) : step_res := fst (run_items orc md src base le its s).

Lemma ritems_nil s : ritems [] s = StOk s.
Proof. reflexivity. Qed.
Lemma ritems_cons it r s :
  ritems (it :: r) s = match do_item orc md src base le it s with StOk s2 => ritems r s2 | e => e end.
Proof. unfold ritems. rewrite fst_run_items_cons. destruct (do_item orc md src base le it s); reflexivity. Qed.
Lemma ritems_app a : forall b s,
  ritems (a ++ b) s = match ritems a s with StOk s' => ritems b s' | e => e end.
Proof.
  induction a as [|it a IH]; intros b s; [reflexivity|].
  cbn [app]. rewrite !ritems_cons. destruct (do_item orc md src base le it s); try reflexivity. apply IH.
Qed.
Lemma ritems_cur its : forall s s', ritems its s = StOk s' -> cur s' = cur s.
Proof.
  induction its as [|it r IH]; intros s s' H.
  - rewrite ritems_nil in H. inversion H; reflexivity.
  - rewrite ritems_cons in H. destruct (do_item orc md src base le it s) as [s2|k w|] eqn:E; try discriminate.
    apply do_item_cur in E. rewrite (IH _ _ H). exact E.
Qed.

Lemma set_cur_cur s : set_cur (set_cur s None) (cur s) = s.
Proof. destruct s; reflexivity. Qed.

(* the state reached by the line loop: the complete items executed from the state without open directive,
   and the open directive put back *)
Lemma fusion_lines ls : forall s,
  run_lines orc md src base le ls s =
  match ritems (fst (lsplit clean (cur s) ls)) (set_cur s None) with
  | StOk s' => StOk (set_cur s' (snd (lsplit clean (cur s) ls)))
  | e => e
  end.
Proof.
  induction ls as [|l r IH]; intros s.
  - cbn [run_lines lsplit fst snd]. unfold ritems. cbn [run_items fst]. rewrite set_cur_cur. reflexivity.
  - assert (T : forall l0 s, cur s = None ->
      match as_text le l0 s with StOk s' => run_lines orc md src base le r s' | e => e end =
      match ritems (IText l0 :: fst (lsplit clean None r)) s with
      | StOk s' => StOk (set_cur s' (snd (lsplit clean None r)))
      | e => e
      end).
    { intros l0 s1 Hc. rewrite (as_text_do_item orc md src base le), ritems_cons.
      destruct (do_item orc md src base le (IText l0) s1) as [s2|k w|] eqn:E; try reflexivity.
      apply do_item_cur in E. rewrite Hc in E. rewrite IH, E, (set_cur_None_id s2 E). reflexivity. }
    set (fresh := match detect_from l with
                  | Some d => if needs_prefix_err d
                              then (if clean then (IText [] :: fst (lsplit clean None r), snd (lsplit clean None r))
                                    else ([IBad], None))
                              else lsplit clean (Some d) r
                  | None => (IText l :: fst (lsplit clean None r), snd (lsplit clean None r))
                  end).
    assert (F : forall s, cur s = None ->
      match step_fresh md le l s with StOk s' => run_lines orc md src base le r s' | e => e end =
      match ritems (fst fresh) s with StOk s' => StOk (set_cur s' (snd fresh)) | e => e end).
    { intros s1 Hc. rewrite step_fresh_unfold. unfold fresh.
      destruct (detect_from l) as [d|]; [|apply T; exact Hc].
      destruct (needs_prefix_err d).
      - destruct clean; [apply T; exact Hc|]. cbn [fst snd]. rewrite ritems_cons. reflexivity.
      - rewrite IH.
        change (set_cur (set_cur s1 (Some d)) None) with (set_cur s1 None).
        change (cur (set_cur s1 (Some d))) with (Some d).
        rewrite (set_cur_None_id s1 Hc). reflexivity. }
    cbn [run_lines]. rewrite step_line_unfold. cbn [lsplit]. fold fresh.
    destruct (cur s) as [d|] eqn:Hc.
    + destruct (add_line d l) as [d'| |] eqn:A.
      * rewrite IH. reflexivity.
      * cbn [fst snd]. rewrite ritems_cons.
        destruct (do_item orc md src base le (IDir d true) (set_cur s None)) as [s2|k w|] eqn:E; try reflexivity.
        apply do_item_cur in E. apply F. exact E.
      * cbn [fst snd]. rewrite ritems_cons. reflexivity.
    + rewrite (set_cur_None_id s Hc). apply F. exact Hc.
Qed.
End BridgeRun.

(* the rest of a pass (FrameFacts.pp_rest) in terms of items *)
Lemma pp_rest_items orc md base src first tn raw k0 w0 :
  pp_rest orc md base src first tn raw k0 w0 =
  let ls := fst (take_valid (lines raw)) in
  let bad := snd (take_valid (lines raw)) in
  let sp := lsplit (mode_eqb md Clean) None ls in
  let s0 := mkP None false (if first then PFirst else PExec) tags_new k0 w0 in
  match ritems orc md src base (detect_le raw) (fst sp) s0 with
  | StPanic => PpPanic
  | StErr k w => PpErr k w
  | StOk a =>
    if bad then PpErr KRead (wld a)
    else match ritems orc md src base (detect_le raw) (pend (snd sp)) a with
         | StPanic => PpPanic
         | StErr k w => PpErr k w
         | StOk b => epilogue md (detect_le raw) tn b
         end
  end.
Proof.
  unfold pp_rest. destruct (take_valid (lines raw)) as [ls bad]. cbn [fst snd]. cbv zeta.
  set (s0 := mkP None false (if first then PFirst else PExec) tags_new k0 w0).
  rewrite fusion_lines. change (cur s0) with (@None directive). change (set_cur s0 None) with s0.
  destruct (ritems orc md src base (detect_le raw) (fst (lsplit (mode_eqb md Clean) None ls)) s0) as [a|k w|] eqn:E;
    try reflexivity.
  apply ritems_cur in E. change (cur s0) with (@None directive) in E.
  destruct bad; [reflexivity|].
  rewrite finish_unfold.
  destruct (snd (lsplit (mode_eqb md Clean) None ls)) as [d|]; cbn [pend].
  - change (cur (set_cur a (Some d))) with (Some d). cbv beta iota.
    rewrite run_directive_do_item, ritems_cons.
    change (set_cur (set_cur a (Some d)) None) with (set_cur a None). rewrite (set_cur_None_id a E).
    destruct (do_item orc md src base (detect_le raw) (IDir d false) a); reflexivity.
  - change (cur (set_cur a None)) with (@None directive). cbv beta iota. rewrite (set_cur_None_id a E). reflexivity.
Qed.

(* ================================================================================================
   PART B — a congruence for first passes whose side condition depends on the state: a directive that is
   diverted by `collect_deps` (a dependency is recorded, or the pass is already collecting) only looks at the
   `.txtpp` candidates of its argument.
   ================================================================================================ *)
(* the `.txtpp` candidates a directive makes `collect_deps` probe, and what its normal execution looks at *)
Definition cprobes (src : path) (d : directive) : list path :=
  match d_ty d with
  | DInclude | DAfter => map lex_normalize (txtpp_candidates (lex_join (parent src) (hd [] (d_args d))))
  | _ => []
  end.
Definition xprobes (src : path) (d : directive) : list path :=
  match d_ty d with
  | DInclude => [tpath src (hd [] (d_args d))]
  | DTemp => match d_args d with a :: _ => [tpath src a] | [] => [] end
  | _ => []
  end.
Lemma dprobes_first md src d : md <> Clean -> dprobes true md src d = cprobes src d ++ xprobes src d.
Proof. intros H. destruct md; try reflexivity. congruence. Qed.

Section Fine.
Variable X : path -> bool.
Variable orc : oracle.
Variable md : mode.
Variable src base : path.
Variable le : str.

Local Notation PS1 := (PS X (SKsame X) true).
Local Notation SR1 := (SR X (SKsame X) true).
Local Notation XR1 := (XR X (SKsame X) true).

Definition dcond1 (s : pst) (d : directive) : Prop :=
  (md = Clean -> dcond X true md src d) /\
  (md <> Clean ->
   (forall p, In p (cprobes src d) -> X p = false) /\
   (forall s', collect_deps src d s = inl (inr s') -> forall p, In p (xprobes src d) -> X p = false)).

Lemma exec_directive_cong1 d s1 s2 : PS1 s1 s2 -> dcond1 s1 d ->
  XR1 (exec_directive orc md src base le d s1) (exec_directive orc md src base le d s2).
Proof.
  intros P [Hc Hn].
  assert (Hclean : md = Clean \/ (md <> Clean /\ forall s,
            exec_directive orc md src base le d s =
            match collect_deps src d s with
            | inr k => XErr k (wld s)
            | inl (inl s') => XOut None s'
            | inl (inr s') => exec_directive orc md src base le d s
            end)).
  { destruct md; auto; right; (split; [discriminate|]); intros s; unfold exec_directive;
      destruct (collect_deps src d s) as [[a|a]|e]; reflexivity. }
  destruct Hclean as [Ec|[Hnc Eb]].
  - apply (exec_directive_cong X (SKsame X) true orc md src base le (SKsame_stable X)); auto.
  - destruct (Hn Hnc) as [Hcp Hxp].
    assert (HC : CR X (SKsame X) true (collect_deps src d s1) (collect_deps src d s2)).
    { apply collect_deps_cong; [exact P|]. intros _ Hty c Hin. apply Hcp. unfold cprobes.
      destruct Hty as [-> | ->]; apply in_map; exact Hin. }
    destruct (collect_deps src d s1) as [[a|a]|e1] eqn:E1.
    + rewrite (Eb s1), (Eb s2), E1.
      destruct (collect_deps src d s2) as [[b|b]|e2]; simpl in HC; try contradiction.
      split; [reflexivity|exact HC].
    + apply (exec_directive_cong X (SKsame X) true orc md src base le (SKsame_stable X)); [exact P|].
      intros p Hp. rewrite (dprobes_first md src d Hnc) in Hp. apply in_app_or in Hp.
      destruct Hp as [Hp|Hp]; [apply Hcp; exact Hp|apply (Hxp a eq_refl); exact Hp].
    + rewrite (Eb s1), (Eb s2), E1.
      destruct (collect_deps src d s2) as [[b|b]|e2]; simpl in HC; try contradiction.
      split; [exact HC|]. apply (PS_wR _ _ _ _ _ P).
Qed.

Lemma do_item_cong1 it s1 s2 : PS1 s1 s2 ->
  (forall d fol, it = IDir d fol -> dcond1 s1 d) ->
  SR1 (do_item orc md src base le it s1) (do_item orc md src base le it s2).
Proof.
  intros P Hd. destruct it as [l|d fol| |].
  - rewrite <- !(as_text_do_item orc md src base le).
    change (as_text le l s1) with (as_text_def le s1 l). change (as_text le l s2) with (as_text_def le s2 l).
    apply as_text_cong; [apply SKsame_write|exact P].
  - unfold do_item, item_output.
    pose proof (exec_directive_cong1 d s1 s2 P (Hd d fol eq_refl)) as H.
    destruct (exec_directive orc md src base le d s1) as [o1 a|k1 a],
             (exec_directive orc md src base le d s2) as [o2 b|k2 b]; simpl in H; try contradiction.
    + destruct H as [<- P']. destruct o1 as [raw|]; [|apply emit_cong; [apply SKsame_write|exact P']].
      pose proof P' as (_ & _ & _ & T & _). rewrite <- T.
      destruct (try_store (tg a) raw) as [t'|]; apply emit_cong; try apply SKsame_write;
        [apply PS_set_tg|]; exact P'.
    + exact H.
  - unfold do_item, item_output. simpl. split; [reflexivity|]. apply (PS_wR _ _ _ _ _ P).
  - exact I.
Qed.

(* the condition, along the execution of the items in the first world *)
Fixpoint items_cond (its : list item) (s : pst) : Prop :=
  match its with
  | [] => True
  | it :: r =>
    (forall d fol, it = IDir d fol -> dcond1 s d) /\
    (forall s', do_item orc md src base le it s = StOk s' -> items_cond r s')
  end.

Lemma items_cond_app a : forall b s,
  items_cond (a ++ b) s <->
  items_cond a s /\ (forall s', ritems orc md src base le a s = StOk s' -> items_cond b s').
Proof.
  induction a as [|it a IH]; intros b s.
  - cbn [app items_cond]. split.
    + intros H. split; [exact I|]. intros s' E. rewrite ritems_nil in E. inversion E; subst. exact H.
    + intros [_ H]. apply H. apply ritems_nil.
  - cbn [app items_cond]. split.
    + intros [H1 H2]. split; [split; [exact H1|]|].
      * intros s' E. apply (IH b s'). apply H2. exact E.
      * intros s' E. rewrite ritems_cons in E.
        destruct (do_item orc md src base le it s) as [s2|k w|] eqn:E2; try discriminate.
        apply (proj1 (IH b s2) (H2 s2 eq_refl)). exact E.
    + intros [[H1 H2] H3]. split; [exact H1|]. intros s' E. apply (IH b s'). split; [apply H2; exact E|].
      intros s'' E'. apply H3. rewrite ritems_cons, E. exact E'.
Qed.

Lemma ritems_cong1 its : forall s1 s2, PS1 s1 s2 -> items_cond its s1 ->
  SR1 (ritems orc md src base le its s1) (ritems orc md src base le its s2).
Proof.
  induction its as [|it r IH]; intros s1 s2 P Hc.
  - rewrite !ritems_nil. exact P.
  - rewrite !ritems_cons. destruct Hc as [Hd Hr].
    pose proof (do_item_cong1 it s1 s2 P Hd) as H.
    destruct (do_item orc md src base le it s1) as [a|k1 a|] eqn:E1,
             (do_item orc md src base le it s2) as [b|k2 b|]; simpl in H; try contradiction.
    + apply IH; [exact H|]. apply Hr. reflexivity.
    + exact H.
    + exact I.
Qed.
End Fine.

(* the rest of a first pass from related worlds with the same sink *)
Lemma pp_rest_same1 X orc md base src tn raw k w1 w2 :
  wR X w1 w2 -> FrameFacts.sink_ok X k ->
  items_cond X orc md src base (detect_le raw) (items_of' md raw) (mkP None false PFirst tags_new k w1) ->
  OR X (wR X) (pp_rest orc md base src true tn raw k w1) (pp_rest orc md base src true tn raw k w2).
Proof.
  intros W Hk Hc. rewrite !pp_rest_items. cbv zeta.
  unfold items_of' in Hc. rewrite lsplit_parse in Hc.
  set (sp := lsplit (mode_eqb md Clean) None (fst (take_valid (lines raw)))) in *.
  set (s1 := mkP None false PFirst tags_new k w1) in *.
  set (s2 := mkP None false PFirst tags_new k w2).
  apply items_cond_app in Hc. destruct Hc as [Hc1 Hc2].
  assert (P : PS X (SKsame X) true s1 s2).
  { unfold PS; simpl. repeat split; auto; try apply W. intros H; discriminate. }
  pose proof (ritems_cong1 X orc md src base (detect_le raw) (fst sp) s1 s2 P Hc1) as H.
  destruct (ritems orc md src base (detect_le raw) (fst sp) s1) as [a|k1 a|] eqn:E1,
           (ritems orc md src base (detect_le raw) (fst sp) s2) as [b|k2 b|]; simpl in H; try contradiction.
  - destruct (snd (take_valid (lines raw))).
    + split; [reflexivity|]. apply (PS_wR _ _ _ _ _ H).
    + pose proof (ritems_cong1 X orc md src base (detect_le raw) (pend (snd sp)) a b H (Hc2 a eq_refl)) as H2.
      destruct (ritems orc md src base (detect_le raw) (pend (snd sp)) a) as [a'|k1 a'|],
               (ritems orc md src base (detect_le raw) (pend (snd sp)) b) as [b'|k2 b'|]; simpl in H2; try contradiction.
      * apply (epilogue_cong X (SKsame X) (wR X) true md (detect_le raw) (SKsame_write X) (SKsame_done X)). exact H2.
      * exact H2.
      * exact I.
  - exact H.
  - exact I.
Qed.

(* ================================================================================================
   PART C — one first pass, in one world: which directives are diverted, the pass mode along the items, and
   the dependencies that are reported.
   ================================================================================================ *)
(* the dependency a directive makes a first pass record, in the file system f *)
Definition dep_target (f : fs) (src : path) (d : directive) : option path :=
  match d_ty d with
  | DInclude | DAfter =>
    match get_txtpp_file f (lex_join (parent src) (hd [] (d_args d))) with
    | Some x => os_resolve f x
    | None => None
    end
  | _ => None
  end.
Fixpoint dep_targets (f : fs) (src : path) (its : list item) : list path :=
  match its with
  | [] => []
  | IDir d _ :: r => match dep_target f src d with Some q => q :: dep_targets f src r | None => dep_targets f src r end
  | _ :: r => dep_targets f src r
  end.

(* the pass mode after an item, computed in f *)
Definition next_mode_d (f : fs) (src : path) (m : ppmode) (d : directive) : ppmode :=
  match m with
  | PExec => PExec
  | PFirst => match dep_target f src d with Some q => PCollect [q] | None => PFirst end
  | PCollect ds => match dep_target f src d with Some q => PCollect (ds ++ [q]) | None => PCollect ds end
  end.
Definition next_mode (f : fs) (src : path) (m : ppmode) (it : item) : ppmode :=
  match it with IDir d _ => next_mode_d f src m d | _ => m end.
Definition mode_after (f : fs) (src : path) (m : ppmode) (its : list item) : ppmode :=
  fold_left (next_mode f src) its m.

Lemma mode_after_collect f src its : forall ds,
  mode_after f src (PCollect ds) its = PCollect (ds ++ dep_targets f src its).
Proof.
  unfold mode_after. induction its as [|it r IH]; intros ds; cbn [fold_left dep_targets].
  - rewrite app_nil_r. reflexivity.
  - destruct it as [l|d fol| |]; cbn [next_mode]; try apply IH.
    unfold next_mode_d. destruct (dep_target f src d) as [q|]; [|apply IH].
    rewrite IH, <- app_assoc. reflexivity.
Qed.
Lemma mode_after_first f src its :
  mode_after f src PFirst its =
  match dep_targets f src its with [] => PFirst | ds => PCollect ds end.
Proof.
  unfold mode_after. induction its as [|it r IH]; cbn [fold_left dep_targets]; [reflexivity|].
  destruct it as [l|d fol| |]; cbn [next_mode]; try exact IH.
  unfold next_mode_d. destruct (dep_target f src d) as [q|]; [|exact IH].
  apply (mode_after_collect f src r [q]).
Qed.

(* what a first pass looks at, in terms of the items and of the file system f in which the `.txtpp` candidates are
   evaluated: always the candidates of include/after arguments; the include target and the temp target only while
   no dependency has been recorded and the directive itself does not record one *)
Fixpoint probes1 (f : fs) (src : path) (m : ppmode) (its : list item) : list path :=
  match its with
  | [] => []
  | it :: r =>
    match it with
    | IDir d _ => cprobes src d ++
                  match m, dep_target f src d with PFirst, None => xprobes src d | _, _ => [] end
    | _ => []
    end ++ probes1 f src (next_mode f src m it) r
  end.
Definition first_probes (md : mode) (f : fs) (src : path) (its : list item) : list path :=
  match md with Clean => probes true Clean src its | _ => probes1 f src PFirst its end.

Lemma get_txtpp_file_resolves f p x : get_txtpp_file f p = Some x ->
  In x (txtpp_candidates p) /\ exists q, os_resolve f x = Some q.
Proof.
  unfold get_txtpp_file. intros H. apply find_some in H. destruct H as [Hin H]. split; [exact Hin|].
  unfold lex_is_file in H. destruct (os_resolve f x) as [q|]; [exists q; reflexivity|discriminate].
Qed.

Ltac xdg H :=
  repeat (match type of H with context [match ?x with _ => _ end] =>
            (lazymatch x with context [match _ with _ => _ end] => fail | _ => idtac end);
            destruct x eqn:? end);
  try discriminate.

Lemma collect_deps_normal src d s s' : collect_deps src d s = inl (inr s') ->
  pmode s = PExec \/ (pmode s = PFirst /\ dep_target (w_fs (wld s)) src d = None).
Proof.
  unfold collect_deps, dep_target, work_dir. intros H.
  destruct (pmode s) eqn:Em; [left; reflexivity|right; split; [reflexivity|]|exfalso].
  - destruct (d_ty d); try reflexivity;
      (destruct (get_txtpp_file (w_fs (wld s)) (lex_join (parent src) (hd [] (d_args d)))) as [x|] eqn:G;
       [|reflexivity]);
      destruct (os_resolve (w_fs (wld s)) x); discriminate.
  - destruct (d_ty d); try discriminate;
      (destruct (get_txtpp_file (w_fs (wld s)) (lex_join (parent src) (hd [] (d_args d)))) as [x|] eqn:G;
       [|discriminate]);
      destruct (os_resolve (w_fs (wld s)) x); discriminate.
Qed.

Lemma exec_directive_mode orc md src base le d s o s' : md <> Clean ->
  exec_directive orc md src base le d s = XOut o s' ->
  pmode s' = next_mode_d (w_fs (wld s)) src (pmode s) d.
Proof.
  intros Hmd H.
  assert (Hb : exec_directive orc md src base le d s = exec_directive orc Build src base le d s).
  { destruct md; try reflexivity. congruence. }
  rewrite Hb in H. clear Hb.
  unfold exec_directive, collect_deps, next_mode_d, dep_target, work_dir in *.
  destruct (pmode s) eqn:Em.
  - xdg H; inversion H; subst; cbn; exact Em.
  - destruct (d_ty d) eqn:Ety;
      try (xdg H; inversion H; subst; cbn; exact Em);
      (destruct (get_txtpp_file (w_fs (wld s)) (lex_join (parent src) (hd [] (d_args d)))) as [x|] eqn:G;
       [destruct (os_resolve (w_fs (wld s)) x) as [q|] eqn:Eq; [inversion H; subst; reflexivity|discriminate]|]);
      xdg H; inversion H; subst; cbn; exact Em.
  - destruct (d_ty d) eqn:Ety;
      try (xdg H; inversion H; subst; cbn; exact Em);
      (destruct (get_txtpp_file (w_fs (wld s)) (lex_join (parent src) (hd [] (d_args d)))) as [x|] eqn:G;
       [destruct (os_resolve (w_fs (wld s)) x) as [q|] eqn:Eq; [inversion H; subst; reflexivity|discriminate]|]);
      xdg H; inversion H; subst; cbn; exact Em.
Qed.

Lemma do_item_mode orc md src base le it s s' : md <> Clean ->
  do_item orc md src base le it s = StOk s' ->
  pmode s' = next_mode (w_fs (wld s)) src (pmode s) it.
Proof.
  intros Hmd H. unfold do_item in H.
  destruct (item_output orc md src base le it s) as [o s1|k w|] eqn:E; try discriminate.
  apply emit_pmode in H. destruct H as [H _]. rewrite H. clear H.
  destruct it as [l|d fol| |]; cbn [item_output next_mode] in *; try discriminate.
  - destruct (is_execute (pmode s)); [|inversion E; reflexivity].
    destruct (inject (tg s) l le) as [[l' t']|]; [|discriminate]. inversion E; reflexivity.
  - destruct (exec_directive orc md src base le d s) as [[raw|] s2|k w] eqn:E2; try discriminate.
    + apply (exec_directive_mode _ _ _ _ _ _ _ _ _ Hmd) in E2. rewrite <- E2.
      destruct (try_store (tg s2) raw); inversion E; reflexivity.
    + apply (exec_directive_mode _ _ _ _ _ _ _ _ _ Hmd) in E2. rewrite <- E2. inversion E; reflexivity.
Qed.

(* no pass creates or removes a directory: the six facts ConfluenceFacts.Pres asks for *)
Lemma sd_refl w : same_dirs w w.
Proof. intros p. reflexivity. Qed.
Lemma sd_trans a b c : same_dirs a b -> same_dirs b c -> same_dirs a c.
Proof. intros H1 H2 p. rewrite H2, H1. reflexivity. Qed.
Lemma sd_write w p c w' : w_write w p c = Some w' -> same_dirs w w'.
Proof.
  intros H. unfold w_write in H. destruct (write_target (w_fs w) p) as [q|] eqn:E; [|discriminate].
  inversion H; subst w'. destruct w as [f l]. apply same_dirs_put. eapply write_target_not_dir; eauto.
Qed.
Lemma sd_append w q c w' : w_append w q c = Some w' -> same_dirs w w'.
Proof.
  intros H. unfold w_append in H. destruct (fs_get (w_fs w) q) as [[old|]|] eqn:E; try discriminate.
  inversion H; subst w'. destruct w as [f l]. apply same_dirs_put. unfold is_dir. simpl in *. rewrite E. reflexivity.
Qed.
Lemma sd_remove w q w' : w_remove_file w q = Some w' -> same_dirs w w'.
Proof.
  intros H. unfold w_remove_file in H. destruct (fs_get (w_fs w) q) as [[old|]|] eqn:E; try discriminate.
  inversion H; subst w'. destruct w as [f l]. apply same_dirs_del. unfold is_dir. simpl in *. rewrite E. reflexivity.
Qed.
Lemma sd_emit w e : same_dirs w (w_emit w e).
Proof. intros p. reflexivity. Qed.

(* events on the paths W only, and the same directories: the two trees agree outside W *)
Lemma tr_agree W w w' : tr (ev_allowed W) w w' -> same_dirs w w' -> agree (in_paths W) (w_fs w) (w_fs w').
Proof.
  intros (evs & _ & Hall & Hfr) Hd. split.
  - intros p Hp. symmetry. apply Hfr. intros e He Hev. rewrite Forall_forall in Hall.
    specialize (Hall e He). unfold ev_allowed in Hall. rewrite Hev in Hall.
    apply in_paths_false in Hp. contradiction.
  - intros p. symmetry. apply Hd.
Qed.

Lemma dep_target_agree X f1 f2 src d : agree X f1 f2 ->
  (forall c, In c (cprobes src d) -> X c = false) ->
  dep_target f1 src d = dep_target f2 src d.
Proof.
  intros A Hc. unfold dep_target. unfold cprobes in Hc.
  assert (G : (d_ty d = DInclude \/ d_ty d = DAfter) ->
              match get_txtpp_file f1 (lex_join (parent src) (hd [] (d_args d))) with
              | Some x => os_resolve f1 x | None => None end =
              match get_txtpp_file f2 (lex_join (parent src) (hd [] (d_args d))) with
              | Some x => os_resolve f2 x | None => None end).
  { intros Hty.
    assert (Hc' : forall c, In c (txtpp_candidates (lex_join (parent src) (hd [] (d_args d)))) ->
                            X (lex_normalize c) = false).
    { intros c Hin. apply Hc. destruct Hty as [-> | ->]; apply in_map; exact Hin. }
    rewrite (get_txtpp_file_agree X f1 f2 _ A Hc').
    destruct (get_txtpp_file f2 (lex_join (parent src) (hd [] (d_args d)))) as [x|] eqn:G; [|reflexivity].
    apply get_txtpp_file_resolves in G. destruct G as [Hin _].
    apply (os_resolve_agree X); [exact A|apply Hc'; exact Hin]. }
  destruct (d_ty d); try reflexivity; apply G; auto.
Qed.

Section Single.
Variable orc : oracle.
Variable md : mode.
Variable src base : path.
Variable le : str.
Hypothesis Hmd : md <> Clean.
Variable W : list path.      (* the paths the pass may write *)
Variable w00 : world.        (* the world in which the candidates are evaluated *)
Variable k0 : sink.
Hypothesis Hk0 : forall e, skw_ev k0 e -> ev_allowed W e.

(* the world moved from w00 by events on W, without touching a directory *)
Definition Ch (s : pst) : Prop :=
  tr (ev_allowed W) w00 (wld s) /\ sink_le (snk s) k0 /\ same_dirs w00 (wld s).
(* the items write inside W and probe no `.txtpp` candidate inside W *)
Definition its_ok (its : list item) : Prop :=
  (forall d fol e, In (IDir d fol) its -> dir_ev md src d e -> ev_allowed W e) /\
  (forall d fol c, In (IDir d fol) its -> In c (cprobes src d) -> ~ In c W).

Lemma its_ok_tail it r : its_ok (it :: r) -> its_ok r.
Proof.
  intros [H1 H2]. split.
  - intros d fol e Hin. apply (H1 d fol e). right. exact Hin.
  - intros d fol c Hin. apply (H2 d fol c). right. exact Hin.
Qed.

Lemma Ch_step it s s' : Ch s ->
  (forall d fol e, it = IDir d fol -> dir_ev md src d e -> ev_allowed W e) ->
  do_item orc md src base le it s = StOk s' -> Ch s'.
Proof.
  intros (T & L & D) Hd E.
  pose proof (run_items_chain orc md src base le (ev_allowed W) w00 k0 [it] s Hk0) as X.
  change (fst (run_items orc md src base le [it] s)) with (ritems orc md src base le [it] s) in X.
  rewrite ritems_cons, E, ritems_nil in X. destruct X as (T' & L' & _); try assumption.
  { intros d fol e [Hin|[]] He. apply (Hd d fol e); [exact Hin|exact He]. }
  split; [exact T'|]. split; [exact L'|].
  apply (sd_trans _ _ _ D).
  destruct it as [l|d fol| |].
  - rewrite <- (as_text_do_item orc md src base le) in E.
    change (as_text le l s) with (as_text_def le s l) in E.
    pose proof (as_text_R same_dirs sd_refl sd_trans sd_append le s l) as H. rewrite E in H. exact H.
  - rewrite <- run_directive_do_item in E.
    pose proof (run_directive_R same_dirs sd_refl sd_trans sd_write sd_append sd_remove sd_emit
                  orc md src base le d fol s) as H.
    rewrite E in H. exact H.
  - discriminate.
  - discriminate.
Qed.

Lemma Ch_agree s : Ch s -> agree (in_paths W) (w_fs w00) (w_fs (wld s)).
Proof. intros (T & _ & D). apply tr_agree; assumption. Qed.

Lemma Ch_dep_target s d : Ch s -> (forall c, In c (cprobes src d) -> ~ In c W) ->
  dep_target (w_fs (wld s)) src d = dep_target (w_fs w00) src d.
Proof.
  intros C Hc. symmetry. apply (dep_target_agree (in_paths W)); [apply Ch_agree; exact C|].
  intros c Hin. apply in_paths_false. apply Hc. exact Hin.
Qed.

Lemma Ch_next_mode it s : Ch s -> (forall d fol c, it = IDir d fol -> In c (cprobes src d) -> ~ In c W) ->
  next_mode (w_fs (wld s)) src (pmode s) it = next_mode (w_fs w00) src (pmode s) it.
Proof.
  intros C Hc. destruct it as [l|d fol| |]; try reflexivity. cbn [next_mode]. unfold next_mode_d.
  rewrite (Ch_dep_target s d C (fun c => Hc d fol c eq_refl)). reflexivity.
Qed.

(* the pass mode after the items is the one computed in w00 *)
Lemma ritems_mode its : forall s s', Ch s -> its_ok its ->
  ritems orc md src base le its s = StOk s' ->
  Ch s' /\ pmode s' = mode_after (w_fs w00) src (pmode s) its.
Proof.
  induction its as [|it r IH]; intros s s' C Hok E.
  - rewrite ritems_nil in E. inversion E; subst. split; [exact C|reflexivity].
  - rewrite ritems_cons in E.
    destruct (do_item orc md src base le it s) as [s2|k w|] eqn:E2; try discriminate.
    assert (C2 : Ch s2).
    { apply (Ch_step it s s2 C); [|exact E2]. intros d fol e -> He. apply (proj1 Hok d fol e); [left; reflexivity|exact He]. }
    destruct (IH s2 s' C2 (its_ok_tail _ _ Hok) E) as [C' M]. split; [exact C'|].
    rewrite M. unfold mode_after. cbn [fold_left]. f_equal.
    rewrite (do_item_mode _ _ _ _ _ _ _ _ Hmd E2). apply Ch_next_mode; [exact C|].
    intros d fol c -> Hc. apply (proj2 Hok d fol c); [left; reflexivity|exact Hc].
Qed.

Definition first_or_collect (m : ppmode) : Prop := m = PFirst \/ exists ds, m = PCollect ds.
Lemma first_or_collect_next f m it : first_or_collect m -> first_or_collect (next_mode f src m it).
Proof.
  intros H. destruct it as [l|d fol| |]; try exact H. cbn [next_mode]. unfold next_mode_d.
  destruct H as [->|[ds ->]]; destruct (dep_target f src d); unfold first_or_collect; eauto.
Qed.

(* the static condition (probes1 outside X) gives the condition along the execution *)
Lemma static_items_cond X its : forall s, Ch s -> its_ok its -> first_or_collect (pmode s) ->
  (forall p, In p (probes1 (w_fs w00) src (pmode s) its) -> X p = false) ->
  items_cond X orc md src base le its s.
Proof.
  induction its as [|it r IH]; intros s C Hok Hm Hp; [exact I|].
  cbn [items_cond]. cbn [probes1] in Hp. split.
  - intros d fol ->. split; [intros Ec; contradiction|]. intros _. split.
    + intros p Hin. apply Hp. apply in_or_app. left. apply in_or_app. left. exact Hin.
    + intros s' Ecd p Hin. apply Hp. apply in_or_app. left. apply in_or_app. right.
      destruct (collect_deps_normal _ _ _ _ Ecd) as [Hx|[Hf Hn]].
      * destruct Hm as [Hm|[ds Hm]]; congruence.
      * rewrite (Ch_dep_target s d C) in Hn.
        2:{ intros c Hc. apply (proj2 Hok d fol c); [left; reflexivity|exact Hc]. }
        rewrite Hf, Hn. exact Hin.
  - intros s' E.
    assert (C2 : Ch s').
    { apply (Ch_step it s s' C); [|exact E]. intros d fol e -> He. apply (proj1 Hok d fol e); [left; reflexivity|exact He]. }
    assert (M : pmode s' = next_mode (w_fs w00) src (pmode s) it).
    { rewrite (do_item_mode _ _ _ _ _ _ _ _ Hmd E). apply Ch_next_mode; [exact C|].
      intros d fol c -> Hc. apply (proj2 Hok d fol c); [left; reflexivity|exact Hc]. }
    apply IH; [exact C2|apply (its_ok_tail _ _ Hok)|rewrite M; apply first_or_collect_next; exact Hm|].
    intros p Hin. apply Hp. apply in_or_app. right. rewrite <- M. exact Hin.
Qed.
End Single.

(* ================================================================================================
   PART D — GOAL 1: what a first pass reports, and what it looks at.
   ================================================================================================ *)
(* the `.txtpp` candidates probed by the items *)
Fixpoint cand_probes (src : path) (its : list item) : list path :=
  match its with
  | [] => []
  | IDir d _ :: r => cprobes src d ++ cand_probes src r
  | _ :: r => cand_probes src r
  end.
(* what is looked at by the directives executed before the first one that records a dependency *)
Fixpoint early_xprobes (f : fs) (src : path) (its : list item) : list path :=
  match its with
  | [] => []
  | IDir d _ :: r => match dep_target f src d with
                     | Some _ => []
                     | None => xprobes src d ++ early_xprobes f src r
                     end
  | _ :: r => early_xprobes f src r
  end.

Lemma cand_probes_in src d fol its c : In (IDir d fol) its -> In c (cprobes src d) -> In c (cand_probes src its).
Proof.
  induction its as [|it r IH]; intros Hin Hc; [destruct Hin|].
  destruct Hin as [->|Hin].
  - cbn. apply in_or_app. left. exact Hc.
  - specialize (IH Hin Hc). destruct it; cbn; try exact IH. apply in_or_app. right. exact IH.
Qed.

Lemma probes1_collect_spec f src its p : forall ds,
  In p (probes1 f src (PCollect ds) its) <-> In p (cand_probes src its).
Proof.
  induction its as [|it r IH]; intros ds; [reflexivity|].
  cbn [probes1 cand_probes]. destruct it as [l|d fol| |]; cbn [next_mode app]; try apply IH.
  rewrite !in_app_iff. unfold next_mode_d.
  destruct (dep_target f src d); cbn [In]; rewrite IH; tauto.
Qed.
(* the fine probes of a first pass: the candidates, and what is executed before the first recorded dependency *)
Lemma probes1_first_spec f src its p :
  In p (probes1 f src PFirst its) <-> In p (cand_probes src its) \/ In p (early_xprobes f src its).
Proof.
  induction its as [|it r IH]; [cbn; tauto|].
  cbn [probes1 cand_probes early_xprobes]. destruct it as [l|d fol| |]; cbn [next_mode app]; try apply IH.
  rewrite !in_app_iff. unfold next_mode_d.
  destruct (dep_target f src d) as [q|].
  - rewrite probes1_collect_spec. cbn [In]. tauto.
  - rewrite IH, in_app_iff. tauto.
Qed.

(* FrameFacts.probes counts more: every include target and temp target *)
Lemma probes_first_spec md src its p : md <> Clean ->
  In p (probes true md src its) <->
  In p (cand_probes src its) \/ exists d fol, In (IDir d fol) its /\ In p (xprobes src d).
Proof.
  intros Hmd. induction its as [|it r IH]; [cbn; split; [tauto|intros [[]|(d & fol & [] & _)]]|].
  cbn [probes cand_probes].
  assert (Hr : (exists d fol, In (IDir d fol) r /\ In p (xprobes src d)) ->
               exists d fol, In (IDir d fol) (it :: r) /\ In p (xprobes src d)).
  { intros (d & fol & Hi & Hx). exists d, fol. split; [right; exact Hi|exact Hx]. }
  destruct it as [l|d fol| |].
  - rewrite IH. split; (intros [H|H]; [left; exact H|right]).
    + apply Hr; exact H.
    + destruct H as (d & fol & [Hi|Hi] & Hx); [discriminate|]. exists d, fol. auto.
  - rewrite in_app_iff, IH, (dprobes_first md src d Hmd), !in_app_iff. split.
    + intros [[H|H]|[H|H]]; auto.
      * right. exists d, fol. split; [left; reflexivity|exact H].
    + intros [[H|H]|(d' & fol' & [Hi|Hi] & Hx)]; auto.
      * inversion Hi; subst. auto.
      * right. right. exists d', fol'. auto.
  - rewrite IH. split; (intros [H|H]; [left; exact H|right]).
    + apply Hr; exact H.
    + destruct H as (d & fol & [Hi|Hi] & Hx); [discriminate|]. exists d, fol. auto.
  - rewrite IH. split; (intros [H|H]; [left; exact H|right]).
    + apply Hr; exact H.
    + destruct H as (d & fol & [Hi|Hi] & Hx); [discriminate|]. exists d, fol. auto.
Qed.
Lemma early_xprobes_in f src its p : In p (early_xprobes f src its) ->
  exists d fol, In (IDir d fol) its /\ In p (xprobes src d).
Proof.
  induction its as [|it r IH]; [intros []|]. cbn [early_xprobes].
  assert (Hr : In p (early_xprobes f src r) -> exists d fol, In (IDir d fol) (it :: r) /\ In p (xprobes src d)).
  { intros H. destruct (IH H) as (d & fol & Hi & Hx). exists d, fol. split; [right; exact Hi|exact Hx]. }
  destruct it as [l|d fol| |]; try exact Hr.
  destruct (dep_target f src d); [intros []|]. intros H. apply in_app_or in H. destruct H as [H|H]; [|apply Hr; exact H].
  exists d, fol. split; [left; reflexivity|exact H].
Qed.
(* the fine probes are among the coarse ones *)
Lemma first_probes_sub md f src its p : In p (first_probes md f src its) -> In p (probes true md src its).
Proof.
  destruct md eqn:E; try (intros H; exact H);
    intros H; apply probes1_first_spec in H; apply probes_first_spec; try discriminate;
    (destruct H as [H|H]; [left; exact H|right; eapply early_xprobes_in; eauto]).
Qed.

(* the candidates probed by the pass are not among the paths it may write *)
Definition cands_apart (md : mode) (w : world) (src : path) : Prop :=
  forall c, In c (cand_probes src (items_of md w src)) -> ~ In c (writes_of md w src).

Lemma out_ev_allowed md src out its e :
  out_ev md out e -> ev_allowed (lex_normalize out :: allowed_paths src out its) e.
Proof.
  intros He.
  assert (Hw : wr_ev out e -> ev_allowed (lex_normalize out :: allowed_paths src out its) e).
  { intros Hwr. apply wr_ev_normalize in Hwr. subst e. unfold ev_allowed. simpl. left. reflexivity. }
  assert (Ha : forall p, ev_path e = Some p -> p = out ->
                         ev_allowed (lex_normalize out :: allowed_paths src out its) e).
  { intros p Hp ->. unfold ev_allowed. rewrite Hp. right. left. reflexivity. }
  destruct md; simpl in He.
  - destruct He as [He|He]; [apply Hw; exact He|]. subst e. eapply Ha; reflexivity.
  - apply Hw. exact He.
  - subst e. eapply Ha; reflexivity.
  - destruct He.
Qed.

Lemma dep_targets_agree X f1 f2 src its : agree X f1 f2 ->
  (forall c, In c (cand_probes src its) -> X c = false) ->
  dep_targets f1 src its = dep_targets f2 src its.
Proof.
  intros A. induction its as [|it r IH]; intros Hc; [reflexivity|].
  destruct it as [l|d fol| |]; cbn [dep_targets cand_probes] in *; try (apply IH; exact Hc).
  rewrite (dep_target_agree X f1 f2 src d A) by (intros c Hin; apply Hc; apply in_or_app; left; exact Hin).
  rewrite IH by (intros c Hin; apply Hc; apply in_or_app; right; exact Hin). reflexivity.
Qed.

(* the start of a first pass: the sink has been created *)
Section Start.
Variable orc : oracle.
Variable md : mode.
Variable base src : path.
Hypothesis Hmd : md <> Clean.
Variables (w w0 : world) (out : path) (raw : str) (k0 : sink).
Hypothesis Hout : remove_txtpp src = Some out.
Hypothesis Hraw : read_file (w_fs w) src = Some raw.
Hypothesis Hnew : sink_new md w out = inl (k0, w0).
Hypothesis Hca : cands_apart md w src.

Let W := writes_of md w src.
Let s0 := mkP None false PFirst tags_new k0 w0.

Lemma start_items : items_of md w src = items_of' md raw.
Proof. unfold items_of, items_of'. rewrite Hraw. reflexivity. Qed.
Lemma start_W : W = lex_normalize out :: allowed_paths src out (items_of' md raw).
Proof. unfold W, writes_of. rewrite Hout, start_items. reflexivity. Qed.

Lemma start_k0 e : skw_ev k0 e -> ev_allowed W e.
Proof.
  intros He. rewrite start_W. apply (out_ev_allowed md).
  destruct (sink_new_tr md w out k0 w0 Hnew) as (_ & Hk & _). apply Hk. exact He.
Qed.
Lemma start_Ch : Ch W w k0 s0.
Proof.
  destruct (sink_new_tr md w out k0 w0 Hnew) as (T & _ & _).
  split; [|split].
  - eapply tr_mono; [|exact T]. intros e He. rewrite start_W. apply (out_ev_allowed md). exact He.
  - apply sink_le_refl.
  - apply (sink_new_R same_dirs sd_refl sd_write sd_remove md w out k0 w0 Hnew).
Qed.
Lemma start_its_ok : its_ok md src W (items_of' md raw).
Proof.
  split.
  - intros d fol e Hin He. rewrite start_W.
    pose proof (dir_ev_allowed md src out d fol _ e Hin He) as Y.
    unfold ev_allowed in *. destruct (ev_path e); [right; exact Y|exact I].
  - intros d fol c Hin Hc. apply Hca. rewrite start_items. eapply cand_probes_in; eauto.
Qed.

(* the pass mode at the end of the items, and where the world then stands *)
Lemma start_mode its' le s' : its' = items_of' md raw ->
  ritems orc md src base le its' s0 = StOk s' ->
  agree (in_paths W) (w_fs w) (w_fs (wld s')) /\
  pmode s' = match dep_targets (w_fs w) src its' with [] => PFirst | ds => PCollect ds end.
Proof.
  intros -> E.
  destruct (ritems_mode orc md src base le Hmd W w k0 start_k0 _ s0 s' start_Ch start_its_ok E) as [C M].
  split; [apply (Ch_agree W w k0); exact C|]. rewrite M. apply mode_after_first.
Qed.

Lemma start_items_cond X le :
  (forall p, In p (probes1 (w_fs w) src PFirst (items_of' md raw)) -> X p = false) ->
  items_cond X orc md src base le (items_of' md raw) s0.
Proof.
  intros Hp. apply (static_items_cond orc md src base le Hmd W w k0 start_k0 X);
    [apply start_Ch|apply start_its_ok|left; reflexivity|exact Hp].
Qed.
End Start.

Lemma epilogue_deps md le tn s deps w' : epilogue md le tn s = PpHasDeps deps w' ->
  pmode s = PCollect deps /\ wld s = w'.
Proof.
  unfold epilogue. intros H.
  assert (G : forall A (x : A), (if has_tags (tg s) && negb (mode_eqb md Clean) then PpErr KDirective (wld s)
                 else let r := if flag s && tn then sink_write (snk s) (wld s) le else inl (snk s, wld s) in
                      match r with
                      | inr k => PpErr k (wld s)
                      | inl (k1, w1) => match sink_done k1 w1 with inl w2 => PpOk w2 | inr k => PpErr k w1 end
                      end) <> PpHasDeps deps w').
  { intros _ _. destruct (has_tags (tg s) && negb (mode_eqb md Clean)); [discriminate|]. cbv zeta.
    destruct (if flag s && tn then sink_write (snk s) (wld s) le else inl (snk s, wld s)) as [[k1 w1]|k]; [|discriminate].
    destruct (sink_done k1 w1); discriminate. }
  destruct (pmode s) as [| |ds]; [exfalso; exact (G _ tt H)|exfalso; exact (G _ tt H)|].
  inversion H; subst. split; reflexivity.
Qed.

(* GOAL 1a: the dependencies a first pass reports are exactly the dependency targets of its items, in order; they can be
   evaluated in the resulting world, or in the initial one *)
Theorem first_pass_reports_exactly orc md base src tn w deps w' :
  md <> Clean ->
  cands_apart md w src ->
  pp_run orc md base src true tn w = PpHasDeps deps w' ->
  deps = dep_targets (w_fs w') src (items_of md w src) /\
  deps = dep_targets (w_fs w) src (items_of md w src) /\
  deps <> [].
Proof.
  intros Hmd Hca H. rewrite pp_run_unfold in H.
  destruct (read_file (w_fs w) src) as [raw|] eqn:Er; [|discriminate].
  destruct (remove_txtpp src) as [out|] eqn:Ho; [|discriminate].
  destruct (is_txtpp_file out); [discriminate|].
  destruct (sink_new md w out) as [[k0 w0]|k] eqn:En; [|discriminate].
  rewrite pp_rest_items in H. cbv zeta in H.
  set (le := detect_le raw) in *.
  set (sp := lsplit (mode_eqb md Clean) None (fst (take_valid (lines raw)))) in *.
  set (s0 := mkP None false PFirst tags_new k0 w0) in *.
  destruct (ritems orc md src base le (fst sp) s0) as [a|k a|] eqn:E1; try discriminate.
  destruct (snd (take_valid (lines raw))); [discriminate|].
  destruct (ritems orc md src base le (pend (snd sp)) a) as [b|k b|] eqn:E2; try discriminate.
  apply epilogue_deps in H. destruct H as [Hm <-].
  assert (E : ritems orc md src base le (items_of' md raw) s0 = StOk b).
  { unfold items_of'. rewrite lsplit_parse. fold sp. rewrite ritems_app, E1. exact E2. }
  destruct (start_mode orc md base src Hmd w w0 out raw k0 Ho Er En Hca _ le b eq_refl E) as [A M].
  rewrite (start_items md src w raw Er).
  assert (Hd : deps = dep_targets (w_fs w) src (items_of' md raw)).
  { rewrite Hm in M. destruct (dep_targets (w_fs w) src (items_of' md raw)); [discriminate|]. inversion M. reflexivity. }
  split; [|split; [exact Hd|]].
  - rewrite Hd. apply (dep_targets_agree (in_paths (writes_of md w src))); [exact A|].
    intros c Hc. apply in_paths_false. apply Hca. rewrite (start_items md src w raw Er). exact Hc.
  - rewrite Hm in M. destruct (dep_targets (w_fs w) src (items_of' md raw)); [discriminate|].
    inversion M. discriminate.
Qed.

(* the converse: a first pass that does not report dependencies has no dependency target *)
Theorem first_pass_ok_no_targets orc md base src tn w w' :
  md <> Clean ->
  cands_apart md w src ->
  pp_run orc md base src true tn w = PpOk w' ->
  dep_targets (w_fs w) src (items_of md w src) = [].
Proof.
  intros Hmd Hca H. rewrite pp_run_unfold in H.
  destruct (read_file (w_fs w) src) as [raw|] eqn:Er; [|discriminate].
  destruct (remove_txtpp src) as [out|] eqn:Ho; [|discriminate].
  destruct (is_txtpp_file out); [discriminate|].
  destruct (sink_new md w out) as [[k0 w0]|k] eqn:En; [|discriminate].
  rewrite pp_rest_items in H. cbv zeta in H.
  set (le := detect_le raw) in *.
  set (sp := lsplit (mode_eqb md Clean) None (fst (take_valid (lines raw)))) in *.
  set (s0 := mkP None false PFirst tags_new k0 w0) in *.
  destruct (ritems orc md src base le (fst sp) s0) as [a|k a|] eqn:E1; try discriminate.
  destruct (snd (take_valid (lines raw))); [discriminate|].
  destruct (ritems orc md src base le (pend (snd sp)) a) as [b|k b|] eqn:E2; try discriminate.
  assert (E : ritems orc md src base le (items_of' md raw) s0 = StOk b).
  { unfold items_of'. rewrite lsplit_parse. fold sp. rewrite ritems_app, E1. exact E2. }
  destruct (start_mode orc md base src Hmd w w0 out raw k0 Ho Er En Hca _ le b eq_refl E) as [A M].
  rewrite (start_items md src w raw Er).
  destruct (dep_targets (w_fs w) src (items_of' md raw)) as [|q ds]; [reflexivity|].
  unfold epilogue in H. rewrite M in H. discriminate.
Qed.

(* the rest of a first pass in two worlds that agree outside X, under the fine static condition *)
Lemma pp_rest_first_static X orc md base src tn raw out k0 w w0 w0' :
  md <> Clean -> remove_txtpp src = Some out -> read_file (w_fs w) src = Some raw ->
  sink_new md w out = inl (k0, w0) -> cands_apart md w src ->
  wR X w0 w0' -> FrameFacts.sink_ok X k0 ->
  (forall p, In p (probes1 (w_fs w) src PFirst (items_of' md raw)) -> X p = false) ->
  OR X (wR X) (pp_rest orc md base src true tn raw k0 w0) (pp_rest orc md base src true tn raw k0 w0').
Proof.
  intros Hmd Ho Er En Hca HW Hk Hp. apply pp_rest_same1; [exact HW|exact Hk|].
  apply (start_items_cond orc md base src Hmd w w0 out raw k0 Ho Er En Hca). exact Hp.
Qed.

Lemma first_probes_not_clean md f src its : md <> Clean -> first_probes md f src its = probes1 f src PFirst its.
Proof. destruct md; try reflexivity. congruence. Qed.

(* GOAL 1b, the frame theorem for first passes with the fine probes: two worlds that agree outside a set X of paths
   that the pass does not write, and that contains neither the source, nor a `.txtpp` candidate it probes, nor an
   include/temp target of a directive executed BEFORE the first dependency is recorded, give the same outcome *)
Theorem first_pass_frame orc md base src tn (X : path -> bool) w1 w2 :
  (forall p, X p = false -> fs_get (w_fs w1) p = fs_get (w_fs w2) p) ->
  (forall p, X p = true -> is_dir (w_fs w1) p = is_dir (w_fs w2) p) ->
  X src = false ->
  (forall p, In p (writes_of md w1 src) -> X p = false) ->
  cands_apart md w1 src ->
  (forall p, In p (first_probes md (w_fs w1) src (items_of md w1 src)) -> X p = false) ->
  outcome_agree X w1 w2 (pp_run orc md base src true tn w1) (pp_run orc md base src true tn w2).
Proof.
  intros HA HD Hs Hw Hca Hp.
  assert (Hout : forall out, remove_txtpp src = Some out -> out_ok X md out).
  { intros out Ho. unfold writes_of in Hw. rewrite Ho in Hw. split.
    - apply Hw. right. left. reflexivity.
    - destruct md; try exact I; apply Hw; left; reflexivity. }
  destruct (mode_eqb md Clean) eqn:Emd.
  { assert (md = Clean) by (destruct md; try discriminate; reflexivity). subst md.
    apply pp_run_frame_agree; assumption. }
  assert (Hmd : md <> Clean) by (intros ->; discriminate).
  rewrite (first_probes_not_clean md _ _ _ Hmd) in Hp.
  assert (W : wR X w1 w2).
  { split; [exact HA|]. intros p. destruct (X p) eqn:E; [apply HD; exact E|].
    unfold is_dir. rewrite (HA p E). reflexivity. }
  assert (Esrc : fs_get (w_fs w2) src = fs_get (w_fs w1) src) by (symmetry; apply HA; exact Hs).
  assert (H : OR X (wR X) (pp_run orc md base src true tn w1) (pp_run orc md base src true tn w2)).
  { rewrite !pp_run_unfold. unfold read_file. rewrite Esrc.
    destruct (fs_get (w_fs w1) src) as [[raw|]|] eqn:Er; try (split; [reflexivity|exact W]).
    assert (Er' : read_file (w_fs w1) src = Some raw) by (unfold read_file; rewrite Er; reflexivity).
    destruct (remove_txtpp src) as [out|] eqn:Ho; [|split; [reflexivity|exact W]].
    destruct (is_txtpp_file out); [split; [reflexivity|exact W]|].
    pose proof (sink_new_cong X md w1 w2 out W (Hout out eq_refl)) as HS.
    destruct (sink_new md w1 out) as [[k1 a]|e1] eqn:En, (sink_new md w2 out) as [[k2 b]|e2];
      simpl in HS; try contradiction.
    - destruct HS as [W' [E K]]. simpl in *. subst k2.
      apply (pp_rest_first_static X orc md base src tn raw out k1 w1 a b Hmd Ho Er' En Hca W' K).
      rewrite <- (start_items md src w1 raw Er'). exact Hp.
    - split; assumption. }
  assert (U1 : forall p, X p = true ->
            fs_get (w_fs (out_world (pp_run orc md base src true tn w1) w1)) p = fs_get (w_fs w1) p).
  { intros p Hx. apply pass_footprint. intros Hin. rewrite (Hw p Hin) in Hx. discriminate. }
  assert (U2 : forall p, X p = true ->
            fs_get (w_fs (out_world (pp_run orc md base src true tn w2) w2)) p = fs_get (w_fs w2) p).
  { intros p Hx. apply pass_footprint. rewrite (writes_of_same md w1 w2 src Esrc).
    intros Hin. rewrite (Hw p Hin) in Hx. discriminate. }
  destruct (pp_run orc md base src true tn w1) as [a|d1 a|k1 a|],
           (pp_run orc md base src true tn w2) as [b|d2 b|k2 b|]; simpl in *; try contradiction; auto.
  - split; [apply H|]. intros p Hx. split; [apply (U1 p Hx)|apply (U2 p Hx)].
  - destruct H as [E H]. split; [exact E|]. split; [apply H|].
    intros p Hx. split; [apply (U1 p Hx)|apply (U2 p Hx)].
  - destruct H as [E H]. split; [exact E|]. split; [apply H|].
    intros p Hx. split; [apply (U1 p Hx)|apply (U2 p Hx)].
Qed.

(* GOAL 1b in the wording of the task: what is lying at a set xs of paths does not influence a first pass in a non-clean
   mode, as soon as xs is disjoint from the source, from what the pass may write, from the `.txtpp` candidates it probes,
   and from the include/temp targets of the directives that come BEFORE the first one that records a dependency
   (`early_xprobes`).  In particular the include target of a directive that records a dependency (and of every directive
   after it) may be in xs: a first pass never resolves or reads it. *)
Theorem first_pass_no_read_of_dependency_outputs orc md base src tn (xs : list path) w1 w2 :
  md <> Clean ->
  (forall p, ~ In p xs -> fs_get (w_fs w1) p = fs_get (w_fs w2) p) ->
  (forall p, In p xs -> fs_get (w_fs w1) p <> Some Dir /\ fs_get (w_fs w2) p <> Some Dir) ->
  ~ In src xs ->
  (forall p, In p xs -> ~ In p (writes_of md w1 src)) ->
  cands_apart md w1 src ->
  (forall p, In p xs -> ~ In p (cand_probes src (items_of md w1 src)) /\
                        ~ In p (early_xprobes (w_fs w1) src (items_of md w1 src))) ->
  outcome_agree (in_paths xs) w1 w2 (pp_run orc md base src true tn w1) (pp_run orc md base src true tn w2).
Proof.
  intros Hmd HA HD Hs Hw Hca Hp. apply first_pass_frame.
  - intros p H. apply HA. apply in_paths_false. exact H.
  - intros p H. apply in_paths_true in H. destruct (HD p H) as [D1 D2]. unfold is_dir.
    destruct (fs_get (w_fs w1) p) as [[|]|], (fs_get (w_fs w2) p) as [[|]|]; congruence.
  - apply in_paths_false. exact Hs.
  - intros p Hin. apply in_paths_false. intros Hx. exact (Hw p Hx Hin).
  - exact Hca.
  - intros p Hin. apply in_paths_false. intros Hx.
    rewrite (first_probes_not_clean md _ _ _ Hmd) in Hin. apply probes1_first_spec in Hin.
    destruct (Hp p Hx) as [H1 H2]. destruct Hin as [Hin|Hin]; [exact (H1 Hin)|exact (H2 Hin)].
Qed.

(* ---- GOAL 1, non-vacuity: the tree  d/ , d/a.txtpp = "x\nTXTPP#include b\ny\n" , d/b.txtpp = "hi\n" ---- *)
Definition g1_a : path := [[100]; [97; 46; 116; 120; 116; 112; 112]].     (* d/a.txtpp *)
Definition g1_b : path := [[100]; [98; 46; 116; 120; 116; 112; 112]].     (* d/b.txtpp *)
Definition g1_bout : path := [[100]; [98]].                               (* d/b *)
Definition g1_aout : path := [[100]; [97]].                               (* d/a *)
Definition g1_fs : fs :=
  [([[100]], Dir);
   (g1_a, File [120; 10; 84; 88; 84; 80; 80; 35; 105; 110; 99; 108; 117; 100; 101; 32; 98; 10; 121; 10]);
   (g1_b, File [104; 105; 10])].
Definition g1_w : world := mkW g1_fs [].
(* the same with a stale d/b lying around *)
Definition g1_w' : world := mkW (fs_put g1_fs g1_bout (File [115; 116; 97; 108; 101])) [].

Lemma g1_cands_apart : cands_apart Build g1_w g1_a.
Proof. intros c Hc Hw. vm_compute in Hc, Hw. destruct Hc as [<-|[]]. intuition discriminate. Qed.

Example first_pass_reports_exactly_ex :
  exists w', pp_run cx_orc Build [] g1_a true true g1_w = PpHasDeps [g1_b] w' /\
             dep_targets (w_fs w') g1_a (items_of Build g1_w g1_a) = [g1_b] /\
             dep_targets (w_fs g1_w) g1_a (items_of Build g1_w g1_a) = [g1_b].
Proof.
  destruct (pp_run cx_orc Build [] g1_a true true g1_w) as [w'|deps w'|k w'|] eqn:E; try (vm_compute in E; discriminate).
  assert (Hd : deps = [g1_b]) by (vm_compute in E; inversion E; reflexivity). subst deps.
  exists w'. split; [reflexivity|].
  destruct (first_pass_reports_exactly cx_orc Build [] g1_a true g1_w [g1_b] w') as (H1 & H2 & _);
    [discriminate|exact g1_cands_apart|exact E|]. split; symmetry; assumption.
Qed.

(* d/b is the include target of a.txtpp: the coarse probes contain it, the fine ones do not, and indeed the first pass
   of d/a.txtpp cannot tell the two worlds apart *)
Example first_pass_no_read_ex :
  In g1_bout (probes true Build g1_a (items_of Build g1_w g1_a)) /\
  ~ In g1_bout (first_probes Build (w_fs g1_w) g1_a (items_of Build g1_w g1_a)) /\
  outcome_agree (in_paths [g1_bout]) g1_w g1_w'
    (pp_run cx_orc Build [] g1_a true true g1_w) (pp_run cx_orc Build [] g1_a true true g1_w').
Proof.
  split; [vm_compute; tauto|]. split; [vm_compute; intuition discriminate|].
  apply first_pass_no_read_of_dependency_outputs.
  - discriminate.
  - intros p Hp. unfold g1_w'. cbn [w_fs]. rewrite fs_get_put_other; [reflexivity|].
    intros <-. apply Hp. left. reflexivity.
  - intros p [<-|[]]. split; vm_compute; discriminate.
  - vm_compute. intuition discriminate.
  - intros p [<-|[]]. vm_compute. intuition discriminate.
  - exact g1_cands_apart.
  - intros p [<-|[]]. split; vm_compute; intuition discriminate.
Qed.

(* ================================================================================================
   PART E — GOAL 2: stale outputs are irrelevant for projects WITH dependencies.
   ================================================================================================ *)
(* ---- E1: one Build pass in two worlds that differ on a set D of stale paths, with the fine probes for first passes ---- *)
Theorem build_pass_stale1 orc base f tn (D : list path) w1 w2 out :
  wR (in_paths D) w1 w2 ->
  remove_txtpp f = Some out ->
  all_normal (parent f) ->
  ~ In f D ->
  cands_apart Build w1 f ->
  (forall p, In p (probes1 (w_fs w1) f PFirst (items_of Build w1 f)) -> In p D -> p = out) ->
  let o1 := pp_run orc Build base f true tn w1 in
  let o2 := pp_run orc Build base f true tn w2 in
  tag_of o1 = tag_of o2 /\
  ((o1 = PpErr KOpen w1 /\ o2 = PpErr KOpen w2) \/
   wR (in_paths (drop_path out D)) (out_world o1 w1) (out_world o2 w2)).
Proof.
  intros W Hrm Hnorm Hf Hca Hpr o1 o2. subst o1 o2.
  destruct (remove_txtpp_shape f out Hrm) as (dir & n & m & Es & Eo).
  assert (Hdir : all_normal dir).
  { unfold parent in Hnorm. rewrite Es, removelast_last in Hnorm. exact Hnorm. }
  destruct W as [WA WD].
  pose proof (pp_run_no_panic orc Build base f true tn w1) as NP. revert NP.
  rewrite !pp_run_unfold. unfold read_file in *.
  rewrite <- (WA f) by (apply in_paths_false; exact Hf).
  destruct (fs_get (w_fs w1) f) as [[raw|]|] eqn:Er; try (intros _; split; [reflexivity|left; split; reflexivity]).
  assert (Er' : read_file (w_fs w1) f = Some raw) by (unfold read_file; rewrite Er; reflexivity).
  rewrite Hrm. destruct (is_txtpp_file out); [intros _; split; [reflexivity|left; split; reflexivity]|].
  assert (En : forall w, sink_new Build w out =
                 match write_target (w_fs w) out with
                 | Some q => inl (SBuild out, mkW (fs_put (w_fs w) q (File [])) (w_log w ++ [EWrite q]))
                 | None => inr KOpen
                 end).
  { intros w. unfold sink_new, w_write. destruct (write_target (w_fs w) out); reflexivity. }
  rewrite !En.
  rewrite (write_target_dirs (w_fs w1) (w_fs w2) out WD).
  destruct (write_target (w_fs w2) out) as [q|] eqn:Ew; [|intros _; split; [reflexivity|left; split; reflexivity]].
  assert (q = out).
  { destruct (write_target_shape _ _ _ Ew) as (rp & n' & Ep & _ & Eq).
    rewrite Eo in Ep. apply app_inj_tail in Ep. destruct Ep as [<- <-].
    rewrite Eq, Eo. rewrite (lex_normalize_normal dir Hdir). reflexivity. }
  subst q. intros NP.
  assert (Hnd : is_dir (w_fs w2) out = false) by (eapply write_target_not_dir; eauto).
  assert (out_ne : out <> []) by (intros ->; rewrite is_dir_nil in Hnd; discriminate).
  set (D' := drop_path out D).
  set (a1 := mkW (fs_put (w_fs w1) out (File [])) (w_log w1 ++ [EWrite out])) in *.
  set (a2 := mkW (fs_put (w_fs w2) out (File [])) (w_log w2 ++ [EWrite out])).
  assert (W' : wR (in_paths D') a1 a2).
  { split; cbn [a1 a2 w_fs].
    - intros p Hp. destruct (path_dec out p) as [<-|Hne].
      + rewrite !fs_get_put_same by exact out_ne. reflexivity.
      + rewrite !fs_get_put_other by exact Hne. apply WA. apply in_paths_false. intros Hin.
        apply in_paths_false in Hp. apply Hp. apply in_drop_path. split; [exact Hin|congruence].
    - intros p. rewrite !is_dir_put_file by exact out_ne. rewrite WD. reflexivity. }
  assert (Hk : FrameFacts.sink_ok (in_paths D') (SBuild out)).
  { cbn. apply in_paths_false. intros Hin. apply in_drop_path in Hin. destruct Hin as [_ Hin]. apply Hin. reflexivity. }
  assert (En1 : sink_new Build w1 out = inl (SBuild out, a1)).
  { rewrite En, (write_target_dirs (w_fs w1) (w_fs w2) out WD), Ew. reflexivity. }
  assert (Hp' : forall p, In p (probes1 (w_fs w1) f PFirst (items_of' Build raw)) -> in_paths D' p = false).
  { intros p Hp. apply in_paths_false. intros Hin. apply in_drop_path in Hin. destruct Hin as [Hin Hne].
    apply Hne. apply Hpr; [|exact Hin]. rewrite (start_items Build f w1 raw Er'). exact Hp. }
  pose proof (pp_rest_first_static (in_paths D') orc Build base f tn raw out (SBuild out) w1 a1 a2
                ltac:(discriminate) Hrm Er' En1 Hca W' Hk Hp') as H.
  destruct (pp_rest orc Build base f true tn raw (SBuild out) a1) as [b1|d1 b1|k1 b1|],
           (pp_rest orc Build base f true tn raw (SBuild out) a2) as [b2|d2 b2|k2 b2|]; simpl in H; try contradiction; simpl.
  - split; [reflexivity|right; exact H].
  - destruct H as [-> H]. split; [reflexivity|right; exact H].
  - destruct H as [-> H]. split; [reflexivity|right; exact H].
Qed.

(* what a Build pass of f looks at in the world w, finely for a first pass *)
Definition pass_probes (first : bool) (w : world) (f : path) : list path :=
  if first then probes1 (w_fs w) f PFirst (items_of Build w f) else probes false Build f (items_of Build w f).

Theorem build_pass_stale2 orc base f first tn (D : list path) w1 w2 out :
  wR (in_paths D) w1 w2 ->
  remove_txtpp f = Some out ->
  all_normal (parent f) ->
  ~ In f D ->
  (first = true -> cands_apart Build w1 f) ->
  (forall p, In p (pass_probes first w1 f) -> In p D -> p = out) ->
  let o1 := pp_run orc Build base f first tn w1 in
  let o2 := pp_run orc Build base f first tn w2 in
  tag_of o1 = tag_of o2 /\
  ((o1 = PpErr KOpen w1 /\ o2 = PpErr KOpen w2) \/
   wR (in_paths (drop_path out D)) (out_world o1 w1) (out_world o2 w2)).
Proof.
  intros W Hrm Hn Hf Hca Hp. destruct first.
  - apply build_pass_stale1; auto.
  - apply build_pass_stale; auto.
Qed.

(* ---- E2: the simulation step with the fine condition ---- *)
(* what is asked of a pass of the first run, executed in the world w while D is still stale *)
Definition stale_safe1 (D : list path) (t : task) (w : world) : Prop :=
  match t with
  | TScan _ => True
  | TPp f first =>
    match remove_txtpp f with
    | None => True
    | Some out =>
      ~ In f D /\
      (forall raw, read_file (w_fs w) f = Some raw ->
         all_normal (parent f) /\
         (first = true -> cands_apart Build w f) /\
         (forall p, In p (pass_probes first w f) -> In p D -> p = out) /\
         (forall q, In q (writes_of Build w f) -> is_txtpp_file q = false))
    end
  end.

Lemma stale_step1 orc cfg base D t w1 w2 r w1' :
  cfg_mode cfg = Build ->
  stale_rel D w1 w2 -> stale_safe1 D t w1 ->
  exec_task orc cfg base t w1 = Some (r, w1') ->
  exists w2', exec_task orc cfg base t w2 = Some (r, w2') /\ stale_rel (stale_upd D t r) w1' w2'.
Proof.
  intros Hmd [HA HN1 HN2 HS] Hsafe Hex. destruct t as [d|f first].
  - cbn [exec_task] in *. inversion Hex; subst. exists w2. split.
    + rewrite (scan_dir_ext (w_fs w1') (w_fs w2) d (cfg_recursive cfg) HS (proj2 HA d)). reflexivity.
    + cbn. split; assumption.
  - rewrite exec_task_pp in *. rewrite Hmd in *. cbv zeta in *. cbn [stale_safe1] in Hsafe.
    destruct (remove_txtpp f) as [out|] eqn:Ho.
    + destruct Hsafe as (Hf & Hsafe).
      assert (Esrc : fs_get (w_fs w2) f = fs_get (w_fs w1) f).
      { symmetry. apply (proj1 HA). apply in_paths_false. exact Hf. }
      destruct (read_file (w_fs w1) f) as [raw|] eqn:Er.
      2:{ assert (Er2 : read_file (w_fs w2) f = None) by (unfold read_file in *; rewrite Esrc; exact Er).
          rewrite (pp_run_unreadable _ _ _ _ _ _ w1 Er) in Hex. rewrite (pp_run_unreadable _ _ _ _ _ _ w2 Er2).
          cbn in *. inversion Hex; subst. exists w2. split; [reflexivity|]. split; assumption. }
      destruct (Hsafe raw eq_refl) as (Hn & Hca & Hpr & Htx).
      destruct (build_pass_stale2 orc base f first (cfg_trailing cfg) D w1 w2 out HA Ho Hn Hf Hca Hpr) as [Ht Hw].
      set (o1 := pp_run orc Build base f first (cfg_trailing cfg) w1) in *.
      set (o2 := pp_run orc Build base f first (cfg_trailing cfg) w2) in *.
      rewrite <- Ht.
      destruct (res_of_tag f (tag_of o1)) as [r'|] eqn:Er'; [|discriminate]. inversion Hex; subst r' w1'. clear Hex.
      exists (out_world o2 w2). split; [reflexivity|].
      destruct (pp_run_scan orc Build base f first (cfg_trailing cfg) w1 HN1 Htx) as [N1' S1'].
      destruct (pp_run_scan orc Build base f first (cfg_trailing cfg) w2 HN2) as [N2' S2'].
      { rewrite (writes_of_same Build w1 w2 f Esrc). exact Htx. }
      fold o1 in N1', S1'. fold o2 in N2', S2'.
      split; try assumption; [|rewrite S1', S2'; exact HS].
      assert (HD : wR (in_paths D) (out_world o1 w1) (out_world o2 w2)).
      { destruct Hw as [[E1 E2]|Hw]; [rewrite E1, E2; exact HA|].
        apply (wR_mono D (drop_path out D)); [|exact Hw]. intros p Hp. apply in_drop_path in Hp. apply Hp. }
      destruct (tag_of o1) as [|ds|k|] eqn:Etag; cbn in Er'; inversion Er'; subst r; cbn [stale_upd]; rewrite ?Ho;
        try exact HD;
        (destruct Hw as [[E1 _]|Hw]; [rewrite E1 in Etag; discriminate|exact Hw]).
    + rewrite (pp_run_no_out _ _ _ _ _ _ w1 Ho) in Hex. rewrite (pp_run_no_out _ _ _ _ _ _ w2 Ho).
      cbn in *. inversion Hex; subst. exists w2. split; [reflexivity|]. split; assumption.
Qed.

(* every pass executed by the loop / by the run (of the FIRST world) is `stale_safe1` when it is executed *)
Definition loop_stale_safe1 (orc : oracle) (cfg : config) (base : path) :=
  loop_safe orc cfg base (list path) stale_upd stale_safe1.
Definition run_stale_safe1 (orc : oracle) (cfg : config) (D : list path) (fuel : nat) (sched : list nat) (w : world) : Prop :=
  match os_resolve (w_fs w) (cfg_base cfg) with
  | None => True
  | Some base =>
    match resolve_inputs (w_fs w) base (cfg_inputs cfg) [] [] with
    | None => True
    | Some (files, dirs) =>
      loop_stale_safe1 orc cfg base D fuel sched
        (fold_left exec_dir dirs (fold_left (fun s f => exec_file s f true) files c_init)) w
    end
  end.

Theorem stale_outputs_irrelevant_loop1 orc cfg base fuel sched s D w1 w2 :
  cfg_mode cfg = Build ->
  stale_rel D w1 w2 ->
  loop_stale_safe1 orc cfg base D fuel sched s w1 ->
  let x1 := run_loop orc cfg base fuel sched s w1 [] in
  let x2 := run_loop orc cfg base fuel sched s w2 [] in
  verdict_of x1 = verdict_of x2 /\ trace_of x1 = trace_of x2 /\ state_of x1 = state_of x2 /\
  stale_rel (stale_after D (trace_of x1)) (world_of x1) (world_of x2).
Proof.
  intros Hmd HR HS.
  destruct (loop_sim orc cfg base (list path) stale_rel stale_upd stale_safe1
              (fun i t w1 w2 r w1' => stale_step1 orc cfg base i t w1 w2 r w1' Hmd)
              fuel D sched s w1 w2 [] HR HS) as (Hv & Ht & Hs & added & Ea & HRa).
  cbv zeta. split; [exact Hv|]. split; [exact Ht|]. split; [exact Hs|].
  rewrite Ea. exact HRa.
Qed.

Theorem stale_outputs_irrelevant1 orc cfg fuel sched D w1 w2 :
  cfg_mode cfg = Build ->
  stale_rel D w1 w2 ->
  ~ In (lex_normalize (cfg_base cfg)) D ->
  Forall (input_safe D (lex_normalize (cfg_base cfg))) (cfg_inputs cfg) ->
  run_stale_safe1 orc cfg D fuel sched w1 ->
  let x1 := txtpp_run orc cfg fuel sched w1 in
  let x2 := txtpp_run orc cfg fuel sched w2 in
  verdict_of x1 = verdict_of x2 /\ trace_of x1 = trace_of x2 /\ state_of x1 = state_of x2 /\
  stale_rel (stale_after D (trace_of x1)) (world_of x1) (world_of x2).
Proof.
  intros Hmd HR Hb Hin HS. unfold txtpp_run, run_stale_safe1 in *.
  destruct (cfg_threads cfg =? 0); [cbn; split; [reflexivity|split; [reflexivity|split; [reflexivity|exact HR]]]|].
  pose proof (sr_agree _ _ _ HR) as HA.
  rewrite <- (os_resolve_agree _ (w_fs w1) (w_fs w2) (cfg_base cfg) HA (proj2 (in_paths_false D _) Hb)).
  destruct (os_resolve (w_fs w1) (cfg_base cfg)) as [base|] eqn:Eb; [|cbn; split; [reflexivity|split; [reflexivity|split; [reflexivity|exact HR]]]].
  apply os_resolve_normalize in Eb. subst base.
  rewrite <- (resolve_inputs_agree D (w_fs w1) (w_fs w2) _ _ HA Hin [] []).
  destruct (resolve_inputs (w_fs w1) (lex_normalize (cfg_base cfg)) (cfg_inputs cfg) [] []) as [[files dirs]|];
    [|cbn; split; [reflexivity|split; [reflexivity|split; [reflexivity|exact HR]]]].
  apply stale_outputs_irrelevant_loop1; assumption.
Qed.

(* ---- E3: `loop_safe` from an invariant of ONE run that may look at the (ghost) coordinator state ---- *)
Section SafeIntroG.
Variable orc : oracle.
Variable cfg : config.
Variable base : path.
Variables files dirs : list path.
Variable I : Type.
Variable upd : I -> task -> result -> I.
Variable safe : I -> task -> world -> Prop.
Variable J : I -> gstate -> world -> Prop.          (* while the coordinator is running *)
Variable Jd : I -> list task -> world -> Prop.      (* while the pool is drained after an error *)
Hypothesis J_safe : forall i g w t, greach files dirs g -> J i g w -> In t (inflight (gs g)) -> safe i t w.
Hypothesis J_step : forall i g w t rest r w' s2,
  greach files dirs g -> J i g w -> Permutation (inflight (gs g)) (t :: rest) ->
  exec_task orc cfg base t w = Some (r, w') -> handle (with_inflight (gs g) rest) r = Continue s2 ->
  J (upd i t r) (mkG s2 (report t r (reported g)) (history g ++ [t])) w'.
Hypothesis J_fail : forall i g w t rest r w',
  greach files dirs g -> J i g w -> Permutation (inflight (gs g)) (t :: rest) ->
  exec_task orc cfg base t w = Some (r, w') -> Jd (upd i t r) rest w'.
Hypothesis Jd_safe : forall i l w t, Jd i l w -> In t l -> safe i t w.
Hypothesis Jd_step : forall i l w t r w' l',
  Jd i l w -> In t l -> exec_task orc cfg base t w = Some (r, w') -> (forall x, In x l' -> In x l) ->
  Jd (upd i t r) l' w'.

Lemma remove_nth_sub {A} (l : list A) : forall k x, In x (remove_nth k l) -> In x l.
Proof.
  induction l as [|a l IH]; intros k x H; destruct k; cbn in H; try contradiction.
  - right. exact H.
  - destruct H as [H|H]; [left; exact H|right; eapply IH; eauto].
Qed.

Lemma drain_safe_intro_l fuel : forall i sched l w, Jd i l w -> drain_safe orc cfg base I upd safe i fuel sched l w.
Proof.
  induction fuel as [|fuel IH]; intros i sched l w HJ; cbn [drain_safe]; [exact Logic.I|].
  destruct (sort_tasks l) as [|t0 sl'] eqn:E; [exact Logic.I|]. cbv zeta.
  set (sl := t0 :: sl'). set (k := pick sched sl). set (t := nth k sl t0).
  assert (Hsub : forall x, In x sl -> In x l).
  { intros x Hx. eapply Permutation_in; [apply Permutation_sym; apply sort_tasks_perm|]. rewrite E. exact Hx. }
  assert (Ht : In t l). { apply Hsub. apply nth_In. apply pick_lt. }
  split; [apply (Jd_safe i l w t HJ Ht)|].
  destruct (exec_task orc cfg base t w) as [[r w']|] eqn:Ex; [|exact Logic.I].
  apply IH. apply (Jd_step i l w t r w' _ HJ Ht Ex).
  intros x Hx. apply Hsub. eapply remove_nth_sub; eauto.
Qed.

Lemma loop_safe_intro_g fuel : forall i sched g w, greach files dirs g -> J i g w ->
  loop_safe orc cfg base I upd safe i fuel sched (gs g) w.
Proof.
  induction fuel as [|fuel IH]; intros i sched g w R HJ; cbn [loop_safe];
    destruct (sort_tasks (inflight (gs g))) as [|t0 sl'] eqn:E; try exact Logic.I.
  cbv zeta. set (sl := t0 :: sl'). set (k := pick sched sl). set (t := nth k sl t0). set (rest := remove_nth k sl).
  assert (HP : Permutation (inflight (gs g)) (t :: rest)).
  { eapply perm_trans; [apply sort_tasks_perm|]. rewrite E. apply pick_split. apply pick_lt. }
  assert (Ht : In t (inflight (gs g))).
  { eapply Permutation_in; [apply Permutation_sym; exact HP|]. left. reflexivity. }
  split; [apply (J_safe i g w t R HJ Ht)|].
  destruct (exec_task orc cfg base t w) as [[r w']|] eqn:Ex; [|exact Logic.I].
  pose proof (exec_task_answers orc cfg base _ _ _ _ Ex) as Hans.
  destruct (handle (with_inflight (gs g) rest) r) as [s2| |] eqn:Hh; [| |exact Logic.I].
  - set (g2 := mkG s2 (report t r (reported g)) (history g ++ [t])).
    assert (R2 : greach files dirs g2).
    { eapply greach_step; [exact R|]. apply (gstep_continue g t rest r s2); assumption. }
    apply (IH _ (tl sched) g2 w' R2). apply (J_step i g w t rest r w' s2); assumption.
  - apply drain_safe_intro_l. apply (J_fail i g w t rest r w'); assumption.
Qed.
End SafeIntroG.

(* ---- E4: two facts about the coordinator ---- *)
Lemma inflight_exec_file s f b x : In x (inflight (exec_file s f b)) -> In x (inflight s) \/ x = TPp f b.
Proof.
  unfold exec_file. destruct (b && pmem f (seen s)); [left; assumption|]. cbn [inflight].
  intros H. apply in_app_or in H. destruct H as [H|[H|[]]]; [left; exact H|right; symmetry; exact H].
Qed.
Lemma inflight_exec_dir s d x : In x (inflight (exec_dir s d)) -> In x (inflight s) \/ x = TScan d.
Proof.
  unfold exec_dir. destruct (pmem d (seen_dirs s)); [left; assumption|]. cbn [inflight].
  intros H. apply in_app_or in H. destruct H as [H|[H|[]]]; [left; exact H|right; symmetry; exact H].
Qed.
Lemma inflight_fold_file b fs x : forall s,
  In x (inflight (fold_left (fun s f => exec_file s f b) fs s)) -> In x (inflight s) \/ exists f, In f fs /\ x = TPp f b.
Proof.
  induction fs as [|f r IH]; intros s H; [left; exact H|]. cbn [fold_left] in H.
  destruct (IH _ H) as [H1|(f' & Hf & ->)].
  - destruct (inflight_exec_file _ _ _ _ H1) as [H2| ->]; [left; exact H2|]. right. exists f. split; [left; reflexivity|reflexivity].
  - right. exists f'. split; [right; exact Hf|reflexivity].
Qed.
Lemma inflight_fold_dir ds x : forall s,
  In x (inflight (fold_left exec_dir ds s)) -> In x (inflight s) \/ exists d, x = TScan d.
Proof.
  induction ds as [|d r IH]; intros s H; [left; exact H|]. cbn [fold_left] in H.
  destruct (IH _ H) as [H1|H1]; [|right; exact H1].
  destruct (inflight_exec_dir _ _ _ H1) as [H2| ->]; [left; exact H2|right; eexists; reflexivity].
Qed.

Lemma report_mono t r rep x : In x rep -> In x (report t r rep).
Proof.
  intros H. unfold report. destruct t as [d|f [|]]; try exact H.
  destruct r as [y|g [[|ds]|]]; try exact H. right. exact H.
Qed.

(* a final pass is only ever spawned for a file whose first pass reported dependencies *)
Theorem final_inflight_reported files dirs g f :
  greach files dirs g -> In (TPp f false) (inflight (gs g)) -> exists ds, In (f, ds) (reported g).
Proof.
  intros R. revert f. induction R as [|g g' R IH Hs]; intros f Hin.
  - exfalso. unfold ginit in Hin. cbn [gs] in Hin.
    destruct (inflight_fold_dir _ _ _ Hin) as [H|[d H]]; [|discriminate].
    destruct (inflight_fold_file _ _ _ _ H) as [H1|(f' & _ & H1)]; [destruct H1|discriminate].
  - inversion Hs as [g0 t rest r s2 Hperm Hans Hh]; subst. cbn [gs reported] in *.
    assert (Hrest : In (TPp f false) rest -> exists ds, In (f, ds) (report t r (reported g))).
    { intros H. destruct (IH f) as [ds Hd].
      - eapply Permutation_in; [apply Permutation_sym; exact Hperm|]. right. exact H.
      - exists ds. apply report_mono. exact Hd. }
    destruct (handle_cases _ _ _ Hh) as
      [[fs [ds [-> ->]]]|[[f' [m [rel [-> [Hnf ->]]]]]|[[f' [ds [m [-> [Had ->]]]]]|[f' [ds [m [-> [Had ->]]]]]]]].
    + destruct (inflight_fold_dir _ _ _ Hin) as [H|[d H]]; [|discriminate].
      destruct (inflight_fold_file _ _ _ _ H) as [H1|(f' & _ & H1)]; [|discriminate]. apply Hrest. exact H1.
    + destruct (inflight_fold_file _ _ _ _ Hin) as [H1|(f'' & Hrel & H1)]; [apply Hrest; exact H1|].
      inversion H1; subst f''. clear H1.
      change (dm (with_inflight (gs g) rest)) with (dm (gs g)) in Hnf.
      destruct (inv_reach _ _ _ R) as [HP _].
      destruct (notify_finish_spec (dm (gs g)) f' (i_dm HP)) as (m' & out & Hnf' & _ & _ & _ & _ & Hout).
      rewrite Hnf in Hnf'. inversion Hnf'; subst m' out.
      apply Hout in Hrel. destruct Hrel as [Hw _].
      destruct (waits_for_is_dep files dirs g R f f' Hw) as [[ds [Hd _]] _].
      exists ds. apply report_mono. exact Hd.
    + destruct (inflight_fold_file _ _ _ _ Hin) as [H1|(f'' & _ & H1)]; [apply Hrest; exact H1|discriminate].
    + destruct (inflight_exec_file _ _ _ _ Hin) as [H1|H1]; [apply Hrest; exact H1|].
      inversion H1; subst f'. clear H1.
      destruct t as [d|f0 b0]; [destruct Hans|]. destruct Hans as [-> Hb].
      destruct b0; [|exfalso; apply (Hb eq_refl ds); reflexivity].
      exists ds. cbn [report]. left. reflexivity.
Qed.

(* the only way to become finished is a pass that reports success *)
Lemma handle_fin s r s2 x : dm_ok (dm s) -> handle s r = Continue s2 ->
  In x (fin (dm s2)) -> In x (fin (dm s)) \/ r = RPp x (Some POk).
Proof.
  intros Hok Hh Hx.
  destruct (handle_cases _ _ _ Hh) as
    [[fs [ds [-> ->]]]|[[f' [m [rel [-> [Hnf ->]]]]]|[[f' [ds [m [-> [Had ->]]]]]|[f' [ds [m [-> [Had ->]]]]]]]].
  - rewrite dm_fold_dir, dm_fold_file in Hx. left. exact Hx.
  - rewrite dm_fold_file in Hx. cbn [set_dm dm] in Hx.
    destruct (notify_finish_spec (dm s) f' Hok) as (m' & out & Hnf' & _ & Hfin & _).
    rewrite Hnf in Hnf'. inversion Hnf'; subst m' out.
    apply Hfin in Hx. destruct Hx as [->|Hx]; [right; reflexivity|left; exact Hx].
  - rewrite dm_fold_file in Hx. cbn [set_dm dm] in Hx.
    destruct (add_dependency_spec _ _ _ _ _ Hok Had) as [_ [Hfin _]]. rewrite Hfin in Hx. left. exact Hx.
  - rewrite dm_exec_file in Hx. cbn [set_dm dm] in Hx.
    destruct (add_dependency_spec _ _ _ _ _ Hok Had) as [_ [Hfin _]]. rewrite Hfin in Hx. left. exact Hx.
Qed.

(* ---- E5: the static condition, the invariant of the first run, and the theorem ---- *)
(* the dependencies of a source, computed in the tree w *)
Definition sdeps (w : world) (f : path) : list path := dep_targets (w_fs w) f (items_of Build w f).

(* No stale path has a `.txtpp` name.  Every readable source f of the tree is canonical, writes no `.txtpp` name, probes
   only `.txtpp` names as candidates; its FIRST pass looks (finely) at no stale path except its own output; its FINAL pass
   looks at no stale path except its own output and the outputs of its dependencies. *)
Definition static_ok_deps (D : list path) (w : world) : Prop :=
  (forall p, In p D -> is_txtpp_file p = false) /\
  forall f out raw, remove_txtpp f = Some out -> read_file (w_fs w) f = Some raw ->
    all_normal (parent f) /\
    (forall q, In q (writes_of Build w f) -> is_txtpp_file q = false) /\
    (forall c, In c (cand_probes f (items_of Build w f)) -> is_txtpp_file c = true) /\
    (forall p, In p (pass_probes true w f) -> In p D -> p = out) /\
    (forall p, In p (pass_probes false w f) -> In p D ->
       p = out \/ exists q, In q (sdeps w f) /\ remove_txtpp q = Some p).

Lemma probes1_agree X f1 f2 src its : agree X f1 f2 ->
  forall m, (forall c, In c (cand_probes src its) -> X c = false) ->
  probes1 f1 src m its = probes1 f2 src m its.
Proof.
  intros A. induction its as [|it r IH]; intros m Hc; [reflexivity|].
  cbn [probes1]. destruct it as [l|d fol| |]; cbn [next_mode cand_probes] in *; try (rewrite IH by exact Hc; reflexivity).
  unfold next_mode_d.
  rewrite (dep_target_agree X f1 f2 src d A) by (intros c Hin; apply Hc; apply in_or_app; left; exact Hin).
  rewrite IH by (intros c Hin; apply Hc; apply in_or_app; right; exact Hin). reflexivity.
Qed.

Lemma agree_trans X f1 f2 f3 : agree X f1 f2 -> agree X f2 f3 -> agree X f1 f3.
Proof.
  intros [A1 B1] [A2 B2]. split; intros p.
  - intros Hp. rewrite (A1 p Hp). apply A2. exact Hp.
  - rewrite B1. apply B2.
Qed.

Lemma pp_run_deps_readable orc md base f first tn w ds w' :
  pp_run orc md base f first tn w = PpHasDeps ds w' ->
  exists raw out, read_file (w_fs w) f = Some raw /\ remove_txtpp f = Some out.
Proof.
  rewrite pp_run_unfold. destruct (read_file (w_fs w) f) as [raw|]; [|discriminate].
  destruct (remove_txtpp f) as [out|]; [|discriminate]. intros _. exists raw, out. split; reflexivity.
Qed.

Section StaticDeps.
Variable orc : oracle.
Variable cfg : config.
Variable base : path.
Hypothesis Hmd : cfg_mode cfg = Build.
Variable D : list path.
Variable w0 : world.
Hypothesis HS : static_ok_deps D w0.

(* the paths that do not have a `.txtpp` name *)
Definition nt (p : path) : bool := negb (is_txtpp_file p).
Lemma nt_false p : nt p = false <-> is_txtpp_file p = true.
Proof. unfold nt. destruct (is_txtpp_file p); cbn; split; congruence. Qed.

(* the world: still stale is a part of D; the `.txtpp` files and the directories are those of w0 *)
Definition Wi (D' : list path) (w : world) : Prop :=
  (forall p, In p D' -> In p D) /\ agree nt (w_fs w0) (w_fs w).
(* the outputs of the dependencies of f are not stale any more *)
Definition deps_fresh (D' : list path) (f : path) : Prop :=
  forall q o, In q (sdeps w0 f) -> remove_txtpp q = Some o -> ~ In o D'.

Lemma Wi_source D' w f out raw : Wi D' w -> remove_txtpp f = Some out -> read_file (w_fs w) f = Some raw ->
  read_file (w_fs w0) f = Some raw /\
  items_of Build w f = items_of Build w0 f /\
  writes_of Build w f = writes_of Build w0 f /\
  cands_apart Build w f /\
  sdeps w f = sdeps w0 f /\
  pass_probes true w f = pass_probes true w0 f /\
  pass_probes false w f = pass_probes false w0 f.
Proof.
  intros [_ A] Ho Er.
  assert (Ht : is_txtpp_file f = true) by (eapply remove_txtpp_is_txtpp; eauto).
  assert (E0 : fs_get (w_fs w) f = fs_get (w_fs w0) f) by (symmetry; apply (proj1 A); apply nt_false; exact Ht).
  assert (Er0 : read_file (w_fs w0) f = Some raw) by (unfold read_file in *; rewrite <- E0; exact Er).
  destruct (proj2 HS f out raw Ho Er0) as (_ & Hw & Hc & _ & _).
  pose proof (items_of_same Build w0 w f E0) as Ei. pose proof (writes_of_same Build w0 w f E0) as Ew.
  assert (Hc' : forall c, In c (cand_probes f (items_of Build w0 f)) -> nt c = false).
  { intros c Hin. apply nt_false. apply Hc. exact Hin. }
  split; [exact Er0|]. split; [exact Ei|]. split; [exact Ew|]. split; [|split; [|split]].
  - intros c Hin Hwr. rewrite Ei in Hin. rewrite Ew in Hwr. specialize (Hc c Hin).
    rewrite (Hw c Hwr) in Hc. discriminate.
  - unfold sdeps. rewrite Ei. symmetry. apply (dep_targets_agree nt); assumption.
  - unfold pass_probes. rewrite Ei. symmetry. apply (probes1_agree nt); assumption.
  - unfold pass_probes. rewrite Ei. reflexivity.
Qed.

Lemma Wi_safe D' w f first : Wi D' w -> (first = false -> deps_fresh D' f) -> stale_safe1 D' (TPp f first) w.
Proof.
  intros HW Hfr. cbn [stale_safe1]. destruct (remove_txtpp f) as [out|] eqn:Ho; [|exact I].
  pose proof (remove_txtpp_is_txtpp f out Ho) as Ht. split.
  - intros Hin. rewrite (proj1 HS f (proj1 HW f Hin)) in Ht. discriminate.
  - intros raw Er. destruct (Wi_source D' w f out raw HW Ho Er) as (Er0 & Ei & Ew & Hca & Esd & Ep1 & Ep2).
    destruct (proj2 HS f out raw Ho Er0) as (Hn & Hw & Hc & Hp1 & Hp2).
    split; [exact Hn|]. split; [intros _; exact Hca|]. split; [|rewrite Ew; exact Hw].
    intros p Hp HpD. destruct first.
    + rewrite Ep1 in Hp. apply (Hp1 p Hp). apply (proj1 HW). exact HpD.
    + rewrite Ep2 in Hp. destruct (Hp2 p Hp (proj1 HW p HpD)) as [->|(q & Hq & Hoq)]; [reflexivity|].
      exfalso. apply (Hfr eq_refl q p Hq Hoq). exact HpD.
Qed.

Lemma Wi_step D' w t r w' : Wi D' w -> exec_task orc cfg base t w = Some (r, w') -> Wi (stale_upd D' t r) w'.
Proof.
  intros [Hsub A] Hex. split.
  - intros p Hp. apply Hsub. eapply stale_upd_sub; eauto.
  - apply (agree_trans nt _ (w_fs w)); [exact A|].
    destruct t as [d|f first].
    + cbn in Hex. inversion Hex; subst. apply agree_refl.
    + rewrite exec_task_pp in Hex. rewrite Hmd in Hex. cbv zeta in Hex.
      destruct (res_of_tag f _) as [r'|]; [|discriminate]. inversion Hex; subst r' w'. clear Hex.
      split.
      * intros g Hg. apply nt_false in Hg.
        destruct (read_file (w_fs w) f) as [raw|] eqn:Er.
        2:{ rewrite (pp_run_unreadable _ _ _ _ _ _ w Er). reflexivity. }
        symmetry. apply pass_footprint. intros Hin.
        destruct (remove_txtpp f) as [out|] eqn:Ho; [|unfold writes_of in Hin; rewrite Ho in Hin; destruct Hin].
        destruct (Wi_source D' w f out raw (conj Hsub A) Ho Er) as (Er0 & _ & Ew & _).
        destruct (proj2 HS f out raw Ho Er0) as (_ & Hw & _).
        rewrite Ew in Hin. rewrite (Hw g Hin) in Hg. discriminate.
      * intros p. symmetry. apply (pp_run_same_dirs orc Build base f first (cfg_trailing cfg) w p).
Qed.

(* the invariant while the coordinator runs, and while the pool is drained *)
Definition Jg (D' : list path) (g : gstate) (w : world) : Prop :=
  Wi D' w /\
  (forall a ds, In (a, ds) (reported g) -> ds = sdeps w0 a) /\
  (forall f out, finished g f -> remove_txtpp f = Some out -> ~ In out D').
Definition Jd (D' : list path) (l : list task) (w : world) : Prop :=
  Wi D' w /\ forall f, In (TPp f false) l -> deps_fresh D' f.

Variables files dirs : list path.

Lemma Jg_fresh D' g w f : greach files dirs g -> Jg D' g w ->
  In (TPp f false) (inflight (gs g)) -> deps_fresh D' f.
Proof.
  intros R (_ & Hrep & Hfin) Hin q o Hq Ho.
  destruct (final_inflight_reported files dirs g f R Hin) as [ds Hd].
  pose proof (Hrep f ds Hd) as ->.
  apply (Hfin q o); [|exact Ho].
  apply (final_pass_deps_finished files dirs g R f q Hin). exists (sdeps w0 f). split; assumption.
Qed.

Lemma deps_fresh_upd D' t r f : deps_fresh D' f -> deps_fresh (stale_upd D' t r) f.
Proof. intros H q o Hq Ho Hin. apply (H q o Hq Ho). eapply stale_upd_sub; eauto. Qed.

Lemma Jg_safe D' g w t : greach files dirs g -> Jg D' g w -> In t (inflight (gs g)) -> stale_safe1 D' t w.
Proof.
  intros R HJ Hin. destruct t as [d|f first]; [exact I|].
  apply Wi_safe; [apply HJ|]. intros ->. eapply Jg_fresh; eauto.
Qed.

Lemma Jg_step D' g w t rest r w' s2 :
  greach files dirs g -> Jg D' g w -> Permutation (inflight (gs g)) (t :: rest) ->
  exec_task orc cfg base t w = Some (r, w') -> handle (with_inflight (gs g) rest) r = Continue s2 ->
  Jg (stale_upd D' t r) (mkG s2 (report t r (reported g)) (history g ++ [t])) w'.
Proof.
  intros R (HW & Hrep & Hfin) HP Hex Hh. split; [eapply Wi_step; eauto|]. split.
  - cbn [reported]. intros a ds Hin.
    destruct t as [d|f [|]]; cbn [report] in Hin; try (apply (Hrep a ds Hin)).
    destruct r as [y|g' [[|ds']|]]; try (apply (Hrep a ds Hin)).
    destruct Hin as [Hin|Hin]; [|apply (Hrep a ds Hin)]. inversion Hin; subst a ds'. clear Hin.
    rewrite exec_task_pp in Hex. rewrite Hmd in Hex. cbv zeta in Hex.
    destruct (pp_run orc Build base f true (cfg_trailing cfg) w) as [a|ds' a|k a|] eqn:E; cbn in Hex; try discriminate.
    inversion Hex; subst g' ds' w'. clear Hex.
    destruct (pp_run_deps_readable _ _ _ _ _ _ _ _ _ E) as (raw & out & Er & Ho).
    destruct (Wi_source D' w f out raw HW Ho Er) as (_ & _ & _ & Hca & Esd & _).
    destruct (first_pass_reports_exactly orc Build base f (cfg_trailing cfg) w ds a ltac:(discriminate) Hca E) as (_ & H2 & _).
    rewrite H2. exact Esd.
  - cbn [gs]. intros f out Hf Ho Hin. unfold finished in Hf. cbn [gs] in Hf. apply pmem_In in Hf.
    destruct (inv_reach _ _ _ R) as [HPi _].
    destruct (handle_fin (with_inflight (gs g) rest) r s2 f (i_dm HPi) Hh Hf) as [Hold|Hnew].
    + apply (Hfin f out); [unfold finished; apply pmem_In; exact Hold|exact Ho|]. eapply stale_upd_sub; eauto.
    + subst r. pose proof (exec_task_answers orc cfg base _ _ _ _ Hex) as Hans.
      destruct t as [d|f0 b0]; [destruct Hans|]. destruct Hans as [-> _].
      cbn [stale_upd] in Hin. rewrite Ho in Hin. apply in_drop_path in Hin. apply (proj2 Hin). reflexivity.
Qed.

Lemma Jg_fail D' g w t rest r w' :
  greach files dirs g -> Jg D' g w -> Permutation (inflight (gs g)) (t :: rest) ->
  exec_task orc cfg base t w = Some (r, w') -> Jd (stale_upd D' t r) rest w'.
Proof.
  intros R HJ HP Hex. split; [eapply Wi_step; [apply HJ|exact Hex]|].
  intros f Hin. apply deps_fresh_upd. apply (Jg_fresh D' g w f R HJ).
  eapply Permutation_in; [apply Permutation_sym; exact HP|]. right. exact Hin.
Qed.

Lemma Jd_safe D' l w t : Jd D' l w -> In t l -> stale_safe1 D' t w.
Proof.
  intros [HW Hfr] Hin. destruct t as [d|f first]; [exact I|].
  apply Wi_safe; [exact HW|]. intros ->. apply Hfr. exact Hin.
Qed.
Lemma Jd_step D' l w t r w' l' :
  Jd D' l w -> In t l -> exec_task orc cfg base t w = Some (r, w') -> (forall x, In x l' -> In x l) ->
  Jd (stale_upd D' t r) l' w'.
Proof.
  intros [HW Hfr] _ Hex Hsub. split; [eapply Wi_step; eauto|].
  intros f Hin. apply deps_fresh_upd. apply Hfr. apply Hsub. exact Hin.
Qed.

Lemma static_deps_loop_safe fuel sched w :
  Wi D w -> loop_stale_safe1 orc cfg base D fuel sched (gs (ginit files dirs)) w.
Proof.
  intros HW.
  apply (loop_safe_intro_g orc cfg base files dirs (list path) stale_upd stale_safe1 Jg Jd
           Jg_safe Jg_step Jg_fail Jd_safe Jd_step fuel D sched (ginit files dirs) w (greach_init files dirs)).
  split; [exact HW|]. split.
  - intros a ds [].
  - intros f out Hf. exfalso. unfold finished, ginit in Hf. cbn [gs] in Hf.
    rewrite dm_fold_dir, dm_fold_file in Hf. discriminate.
Qed.
End StaticDeps.

(* GOAL 2: stale outputs are irrelevant, from a static condition on the first initial tree that allows a source to
   include the (stale) outputs of other sources *)
Theorem stale_outputs_irrelevant_deps orc cfg fuel sched D w1 w2 :
  cfg_mode cfg = Build ->
  stale_rel D w1 w2 ->
  ~ In (lex_normalize (cfg_base cfg)) D ->
  Forall (input_safe D (lex_normalize (cfg_base cfg))) (cfg_inputs cfg) ->
  static_ok_deps D w1 ->
  let x1 := txtpp_run orc cfg fuel sched w1 in
  let x2 := txtpp_run orc cfg fuel sched w2 in
  verdict_of x1 = verdict_of x2 /\ trace_of x1 = trace_of x2 /\ state_of x1 = state_of x2 /\
  stale_rel (stale_after D (trace_of x1)) (world_of x1) (world_of x2).
Proof.
  intros Hmd HR Hb Hin HS. apply stale_outputs_irrelevant1; try assumption.
  unfold run_stale_safe1. destruct (os_resolve (w_fs w1) (cfg_base cfg)) as [base|]; [|exact I].
  destruct (resolve_inputs (w_fs w1) base (cfg_inputs cfg) [] []) as [[files dirs]|]; [|exact I].
  apply (static_deps_loop_safe orc cfg base Hmd D w1 HS files dirs fuel sched w1).
  split; [intros p Hp; exact Hp|apply agree_refl].
Qed.

(* ---- GOAL 2, non-vacuity: the tree of GOAL 1 (d/a.txtpp includes the output of d/b.txtpp), once clean and once with
   a stale d/b.  ConfluenceFacts.static_ok does not hold (the final pass of a.txtpp reads the stale path), static_ok_deps does. ---- *)
Definition g2_cfg : config := mkCfg [] [[100]] true 1 Build false.

Lemma g2_rel : stale_rel [g1_bout] g1_w g1_w'.
Proof.
  apply (stale_rel_put g1_fs [] [] g1_bout (Some [115; 116; 97; 108; 101])).
  - unfold raw_ok. cbn. repeat constructor; cbn; intuition discriminate.
  - vm_compute. reflexivity.
  - vm_compute. reflexivity.
Qed.

Lemma g2_sources f raw : read_file (w_fs g1_w) f = Some raw -> f = g1_a \/ f = g1_b.
Proof.
  unfold read_file, g1_w, g1_fs. cbn [w_fs]. intros Er.
  destruct f as [|x f']; [cbn in Er; discriminate|]. cbn [fs_get] in Er.
  destruct (path_eqb [[100]] (x :: f')) eqn:E1; [discriminate|].
  destruct (path_eqb g1_a (x :: f')) eqn:E2; [left; apply path_eqb_eq in E2; symmetry; exact E2|].
  destruct (path_eqb g1_b (x :: f')) eqn:E3; [right; apply path_eqb_eq in E3; symmetry; exact E3|discriminate].
Qed.

Lemma g2_static : static_ok_deps [g1_bout] g1_w.
Proof.
  split.
  - intros p [<-|[]]. vm_compute. reflexivity.
  - intros f out raw Ho Er. destruct (g2_sources f raw Er) as [-> | ->].
    + vm_compute in Ho. inversion Ho; subst out. split; [repeat constructor|]. split; [|split; [|split]].
      * intros q Hq. vm_compute in Hq. destruct Hq as [<-|[<-|[]]]; vm_compute; reflexivity.
      * intros c Hc. vm_compute in Hc. destruct Hc as [<-|[]]. vm_compute. reflexivity.
      * intros p Hp HD. vm_compute in Hp. destruct Hp as [<-|[]]. destruct HD as [HD|[]]. discriminate.
      * intros p Hp HD. vm_compute in Hp. destruct Hp as [<-|[]]. right. exists g1_b.
        split; [vm_compute; left; reflexivity|vm_compute; reflexivity].
    + vm_compute in Ho. inversion Ho; subst out. split; [repeat constructor|]. split; [|split; [|split]].
      * intros q Hq. vm_compute in Hq. destruct Hq as [<-|[<-|[]]]; vm_compute; reflexivity.
      * intros c Hc. vm_compute in Hc. destruct Hc.
      * intros p Hp. vm_compute in Hp. destruct Hp.
      * intros p Hp. vm_compute in Hp. destruct Hp.
Qed.

(* the condition of ConfluenceFacts.stale_outputs_irrelevant_static fails on this tree *)
Lemma g2_not_static_ok : ~ static_ok [g1_bout] g1_w.
Proof.
  intros [_ H].
  destruct (H g1_a g1_aout [120; 10; 84; 88; 84; 80; 80; 35; 105; 110; 99; 108; 117; 100; 101; 32; 98; 10; 121; 10])
    as (_ & Hp & _); [vm_compute; reflexivity|vm_compute; reflexivity|].
  specialize (Hp false g1_bout). assert (E : g1_bout = g1_aout); [|discriminate].
  apply Hp; [vm_compute; left; reflexivity|left; reflexivity].
Qed.

Example stale_outputs_irrelevant_deps_nonvacuous :
  (* for every schedule: same verdict, same trace, same final coordinator state *)
  (forall fuel sched,
     let x1 := txtpp_run cx_orc g2_cfg fuel sched g1_w in
     let x2 := txtpp_run cx_orc g2_cfg fuel sched g1_w' in
     verdict_of x1 = verdict_of x2 /\ trace_of x1 = trace_of x2 /\ state_of x1 = state_of x2) /\
  (* for two schedules (a.txtpp looked at before / after b.txtpp is finished): success, nothing is stale at the end,
     the final trees are the same *)
  (forall sched, sched = [] \/ sched = [0; 1; 0; 0]%nat ->
     let x1 := txtpp_run cx_orc g2_cfg 9 sched g1_w in
     let x2 := txtpp_run cx_orc g2_cfg 9 sched g1_w' in
     verdict_of x1 = VOk /\ verdict_of x2 = VOk /\ w_eq (world_of x1) (world_of x2)).
Proof.
  assert (Hb : ~ In (lex_normalize (cfg_base g2_cfg)) [g1_bout]) by (vm_compute; intuition discriminate).
  assert (Hi : Forall (input_safe [g1_bout] (lex_normalize (cfg_base g2_cfg))) (cfg_inputs g2_cfg)).
  { constructor; [|constructor]. split; [vm_compute; intuition discriminate|].
    intros c Hc. vm_compute in Hc. destruct Hc as [<-|[]]. vm_compute. intuition discriminate. }
  split.
  - intros fuel sched.
    destruct (stale_outputs_irrelevant_deps cx_orc g2_cfg fuel sched [g1_bout] g1_w g1_w' eq_refl g2_rel Hb Hi g2_static)
      as (Hv & Ht & Hs & _). cbv zeta. auto.
  - intros sched Hsched.
    destruct (stale_outputs_irrelevant_deps cx_orc g2_cfg 9 sched [g1_bout] g1_w g1_w' eq_refl g2_rel Hb Hi g2_static)
      as (Hv & Ht & _ & HR). cbv zeta.
    assert (E1 : verdict_of (txtpp_run cx_orc g2_cfg 9 sched g1_w) = VOk)
      by (destruct Hsched as [-> | ->]; vm_compute; reflexivity).
    assert (Es : stale_after [g1_bout] (trace_of (txtpp_run cx_orc g2_cfg 9 sched g1_w)) = [])
      by (destruct Hsched as [-> | ->]; vm_compute; reflexivity).
    split; [exact E1|]. split; [rewrite <- Hv; exact E1|].
    rewrite Es in HR. apply wR_noX. destruct (sr_agree _ _ _ HR) as [A B]. split; [|exact B].
    intros p _. apply A. reflexivity.
Qed.

(* ================================================================================================
   PART F — GOAL 3: schedule independence.
   ================================================================================================ *)
(* ---- F1: an invariant of one run that may look at the ghost coordinator state, carried to a successful exit ---- *)
Section RunInvG.
Variable orc : oracle.
Variable cfg : config.
Variable base : path.
Variables files dirs : list path.
Variable J : gstate -> world -> Prop.
Hypothesis J_step : forall g w t rest r w' s2,
  greach files dirs g -> J g w -> Permutation (inflight (gs g)) (t :: rest) ->
  exec_task orc cfg base t w = Some (r, w') -> handle (with_inflight (gs g) rest) r = Continue s2 ->
  J (mkG s2 (report t r (reported g)) (history g ++ [t])) w'.

Lemma run_loop_inv_g fuel : forall sched g w tr,
  greach files dirs g -> J g w ->
  let x := run_loop orc cfg base fuel sched (gs g) w tr in
  verdict_of x = VOk ->
  exists g', greach files dirs g' /\ gs g' = state_of x /\ inflight (gs g') = [] /\
             (forall f, is_seen g' f -> finished g' f) /\ J g' (world_of x).
Proof.
  assert (Hexit : forall g w, greach files dirs g -> J g w -> sort_tasks (inflight (gs g)) = [] ->
            (if has_remaining (dm (gs g)) then VErr else VOk) = VOk ->
            exists g', greach files dirs g' /\ gs g' = gs g /\ inflight (gs g') = [] /\
                       (forall f, is_seen g' f -> finished g' f) /\ J g' w).
  { intros g w R HJ E Hv. exists g. split; [exact R|]. split; [reflexivity|].
    pose proof (sort_tasks_nil _ E) as Hfl. split; [exact Hfl|]. split; [|exact HJ].
    intros f Hseen. unfold finished. destruct (pmem f (fin (dm (gs g)))) eqn:Ef; [reflexivity|].
    assert (Ht' : has_remaining (dm (gs g)) = true).
    { apply (cycle_verdict_iff files dirs g R Hfl). exists f. split; [exact Hseen|].
      unfold finished. rewrite Ef. discriminate. }
    rewrite Ht' in Hv. discriminate. }
  induction fuel as [|fuel IH]; intros sched g w tr R HJ x Hv; subst x.
  - destruct (sort_tasks (inflight (gs g))) as [|t0 sl'] eqn:E.
    + rewrite (run_loop_exit _ _ _ _ _ _ _ _ E) in *. cbn in Hv. cbn. apply (Hexit g w R HJ E Hv).
    + rewrite (run_loop_nofuel _ _ _ _ _ _ _ _ _ E) in Hv. cbn in Hv. discriminate.
  - destruct (sort_tasks (inflight (gs g))) as [|t0 sl'] eqn:E.
    + rewrite (run_loop_exit _ _ _ _ _ _ _ _ E) in *. cbn in Hv. cbn. apply (Hexit g w R HJ E Hv).
    + rewrite (run_loop_step _ _ _ _ _ _ _ _ _ _ E) in *. cbv zeta in *.
      set (sl := t0 :: sl') in *. set (k := pick sched sl) in *. set (t := nth k sl t0) in *.
      set (rest := remove_nth k sl) in *.
      assert (HP : Permutation (inflight (gs g)) (t :: rest)).
      { eapply perm_trans; [apply sort_tasks_perm|]. rewrite E. apply pick_split. apply pick_lt. }
      destruct (exec_task orc cfg base t w) as [[r w']|] eqn:Hex; [|cbn in Hv; discriminate].
      pose proof (exec_task_answers orc cfg base _ _ _ _ Hex) as Hans.
      destruct (handle (with_inflight (gs g) rest) r) as [s2| |] eqn:Hh.
      * set (g2 := mkG s2 (report t r (reported g)) (history g ++ [t])).
        assert (R2 : greach files dirs g2).
        { eapply greach_step; [exact R|]. apply (gstep_continue g t rest r s2); assumption. }
        assert (HJ2 : J g2 w') by (apply (J_step g w t rest r w' s2); assumption).
        apply (IH (tl sched) g2 w' (tr ++ [(t, r)]) R2 HJ2). exact Hv.
      * destruct (drain orc cfg base _ _ _ _ _) as [[w'' tr2]|]; cbn in Hv; discriminate.
      * cbn in Hv. discriminate.
Qed.
End RunInvG.

(* ---- F2: the static hypothesis and what one pass does to the world ---- *)
Section Sched.
Variable orc : oracle.
Variable cfg : config.
Variable base : path.
Hypothesis Hmd : cfg_mode cfg = Build.
Variable w0 : world.          (* the initial world *)

(* a readable `.txtpp` source of the initial tree and its output *)
Definition is_source (f out : path) : Prop :=
  remove_txtpp f = Some out /\ exists raw, read_file (w_fs w0) f = Some raw.
(* the outputs of all the sources of the initial tree *)
Definition outs : list path :=
  flat_map (fun e => match read_file (w_fs w0) (fst e), remove_txtpp (fst e) with
                     | Some _, Some o => [o]
                     | _, _ => []
                     end) (w_fs w0).
Lemma outs_in f out : is_source f out -> In out outs.
Proof.
  intros [Ho [raw Er]]. unfold outs. apply in_flat_map.
  assert (Hne : f <> []) by (intros ->; unfold read_file in Er; rewrite fs_get_nil in Er; discriminate).
  unfold read_file in Er. destruct (fs_get (w_fs w0) f) as [[c|]|] eqn:G; try discriminate.
  exists (f, File c). split; [apply fs_get_in; assumption|].
  cbn [fst]. unfold read_file. rewrite G, Ho. left. reflexivity.
Qed.
Lemma in_outs p : In p outs -> exists f, is_source f p.
Proof.
  unfold outs. intros H. apply in_flat_map in H. destruct H as ([f nd] & _ & H). cbn [fst] in H.
  destruct (read_file (w_fs w0) f) as [raw|] eqn:Er; [|destruct H].
  destruct (remove_txtpp f) as [o|] eqn:Ho; [|destruct H]. destruct H as [<-|[]].
  exists f. split; [exact Ho|exists raw; exact Er].
Qed.

(* the pass after which a file is finished: its first pass when it has no dependency, else its final pass *)
Definition lastflag (f : path) : bool := match sdeps w0 f with [] => true | _ => false end.

(* The static disjointness hypothesis.  Every source f is canonical, has a canonical output that is not a `.txtpp` name,
   has no temp directive, probes only `.txtpp` names as candidates; and for every OTHER source g: the outputs are
   different, the first pass of f does not look (finely) at the output of g, and the final pass of f looks at the output
   of g only if g is one of its dependencies. *)
Definition sched_ok : Prop :=
  forall f out, is_source f out ->
    all_normal (parent f) /\ lex_normalize out = out /\ is_txtpp_file out = false /\
    temp_args (items_of Build w0 f) = [] /\
    (forall c, In c (cand_probes f (items_of Build w0 f)) -> is_txtpp_file c = true) /\
    (forall g outg, is_source g outg -> g <> f ->
       outg <> out /\ ~ In outg (pass_probes true w0 f) /\
       (In outg (pass_probes false w0 f) -> In g (sdeps w0 f))).
Hypothesis HS : sched_ok.

(* a source in a world that has the `.txtpp` files and the directories of w0 *)
Lemma src_same w f out : agree nt (w_fs w0) (w_fs w) -> is_source f out ->
  fs_get (w_fs w) f = fs_get (w_fs w0) f /\
  items_of Build w f = items_of Build w0 f /\
  writes_of Build w f = [out; out] /\
  cands_apart Build w f /\
  sdeps w f = sdeps w0 f /\
  (forall b, pass_probes b w f = pass_probes b w0 f).
Proof.
  intros A Hsrc. pose proof Hsrc as [Ho [raw Er]].
  assert (Ht : is_txtpp_file f = true) by (eapply remove_txtpp_is_txtpp; eauto).
  assert (E0 : fs_get (w_fs w) f = fs_get (w_fs w0) f) by (symmetry; apply (proj1 A); apply nt_false; exact Ht).
  destruct (HS f out Hsrc) as (_ & Hno & Hto & Htmp & Hc & _).
  pose proof (items_of_same Build w0 w f E0) as Ei.
  assert (Ew : writes_of Build w f = [out; out]).
  { unfold writes_of, allowed_paths. rewrite Ho, Ei, Htmp, Hno. reflexivity. }
  assert (Hc' : forall c, In c (cand_probes f (items_of Build w0 f)) -> nt c = false).
  { intros c Hin. apply nt_false. apply Hc. exact Hin. }
  split; [exact E0|]. split; [exact Ei|]. split; [exact Ew|]. split; [|split].
  - intros c Hin Hwr. rewrite Ei in Hin. rewrite Ew in Hwr. specialize (Hc c Hin).
    destruct Hwr as [<-|[<-|[]]]; congruence.
  - unfold sdeps. rewrite Ei. symmetry. apply (dep_targets_agree nt); assumption.
  - intros b. unfold pass_probes. rewrite Ei. destruct b; [|reflexivity]. symmetry. apply (probes1_agree nt); assumption.
Qed.

Lemma source_in_world w f out raw : agree nt (w_fs w0) (w_fs w) ->
  remove_txtpp f = Some out -> read_file (w_fs w) f = Some raw -> is_source f out.
Proof.
  intros A Ho Er. split; [exact Ho|]. exists raw.
  assert (Ht : is_txtpp_file f = true) by (eapply remove_txtpp_is_txtpp; eauto).
  unfold read_file in *. rewrite (proj1 A f) by (apply nt_false; exact Ht). exact Er.
Qed.

(* what a pass of h does to the world: nothing outside the output of h *)
Lemma pass_effect w h b : agree nt (w_fs w0) (w_fs w) ->
  let w' := out_world (pp_run orc Build base h b (cfg_trailing cfg) w) w in
  (forall p, (forall outh, is_source h outh -> p <> outh) -> fs_get (w_fs w') p = fs_get (w_fs w) p) /\
  agree nt (w_fs w) (w_fs w').
Proof.
  intros A w'. subst w'.
  assert (G : forall p, (forall outh, is_source h outh -> p <> outh) ->
              fs_get (w_fs (out_world (pp_run orc Build base h b (cfg_trailing cfg) w) w)) p = fs_get (w_fs w) p).
  { intros p Hp.
    destruct (read_file (w_fs w) h) as [raw|] eqn:Er.
    2:{ rewrite (pp_run_unreadable _ _ _ _ _ _ w Er). reflexivity. }
    destruct (remove_txtpp h) as [outh|] eqn:Ho.
    2:{ rewrite (pp_run_no_out _ _ _ _ _ _ w Ho). reflexivity. }
    pose proof (source_in_world w h outh raw A Ho Er) as Hsrc.
    destruct (src_same w h outh A Hsrc) as (_ & _ & Ew & _).
    apply pass_footprint. rewrite Ew. intros [E|[E|[]]]; apply (Hp outh Hsrc); symmetry; exact E. }
  split; [exact G|]. split.
  - intros p Hp. symmetry. apply G. intros outh Hsrc ->.
    destruct (HS h outh Hsrc) as (_ & _ & Hto & _). apply nt_false in Hp. congruence.
  - intros p. symmetry. apply (pp_run_same_dirs orc Build base h b (cfg_trailing cfg) w p).
Qed.

Lemma outs_not_txtpp p : In p outs -> is_txtpp_file p = false.
Proof. intros H. destruct (in_outs p H) as [f Hsrc]. destruct (HS f p Hsrc) as (_ & _ & Hto & _). exact Hto. Qed.

(* ---- F3: the invariant of a run, parameterised by what is known about the finished files ---- *)
Variables files dirs : list path.

(* the world and the ghost state *)
Definition Bs (g : gstate) (w : world) : Prop :=
  agree nt (w_fs w0) (w_fs w) /\
  (forall p, ~ In p outs -> fs_get (w_fs w) p = fs_get (w_fs w0) p) /\
  (forall f out, is_source f out -> ~ In f (seen (gs g)) -> fs_get (w_fs w) out = fs_get (w_fs w0) out) /\
  (forall a ds, In (a, ds) (reported g) -> ds = sdeps w0 a /\ ds <> []) /\
  (forall f, finished g f -> sdeps w0 f <> [] -> exists ds, In (f, ds) (reported g)) /\
  (forall f, finished g f -> exists out, is_source f out).

(* when a file is finished, so are its dependencies *)
Lemma fin_deps_fin g w f q : greach files dirs g -> Bs g w ->
  finished g f -> In q (sdeps w0 f) -> finished g q.
Proof.
  intros R (_ & _ & _ & G1 & G2 & _) Hf Hq.
  assert (Hne : sdeps w0 f <> []) by (intros E; rewrite E in Hq; destruct Hq).
  destruct (G2 f Hf Hne) as [ds Hd]. destruct (G1 f ds Hd) as [-> _].
  destruct (inv_reach _ _ _ R) as [HP _]. unfold finished in *. apply pmem_In in Hf. apply pmem_In.
  destruct (i_dep_status HP f q) as [H|H]; [exists (sdeps w0 f); split; assumption|exact H|].
  exfalso. apply (i_w_nfin HP f q H Hf).
Qed.

Lemma inflight_seen g t : greach files dirs g -> In t (inflight (gs g)) ->
  match t with TPp f _ => In f (seen (gs g)) | TScan _ => True end.
Proof.
  intros R Hin. destruct (inv_reach _ _ _ R) as [HP _]. pose proof (i_fl_seen HP t Hin) as H.
  destruct t; [exact I|exact H].
Qed.

Lemma lastflag_true f : lastflag f = true <-> sdeps w0 f = [].
Proof. unfold lastflag. destruct (sdeps w0 f); split; congruence. Qed.

Section WithQ.
Variable Q : path -> path -> world -> Prop.       (* Q f out w: what is known about the finished source f in the world w *)
(* another pass does not disturb it *)
Hypothesis Q_stable : forall g w f out h b,
  greach files dirs g -> Bs g w -> finished g f -> is_source f out ->
  In (TPp h b) (inflight (gs g)) -> Q f out w ->
  Q f out (out_world (pp_run orc Build base h b (cfg_trailing cfg) w) w).
(* the pass that finishes f establishes it *)
Hypothesis Q_intro : forall g w f out w'',
  greach files dirs g -> Bs g w -> is_source f out ->
  In (TPp f (lastflag f)) (inflight (gs g)) ->
  (forall q outq, finished g q -> is_source q outq -> Q q outq w) ->
  pp_run orc Build base f (lastflag f) (cfg_trailing cfg) w = PpOk w'' ->
  Q f out w''.

Definition JQ (g : gstate) (w : world) : Prop :=
  Bs g w /\ forall f out, finished g f -> is_source f out -> Q f out w.

Lemma JQ_step g w t rest r w' s2 :
  greach files dirs g -> JQ g w -> Permutation (inflight (gs g)) (t :: rest) ->
  exec_task orc cfg base t w = Some (r, w') -> handle (with_inflight (gs g) rest) r = Continue s2 ->
  JQ (mkG s2 (report t r (reported g)) (history g ++ [t])) w'.
Proof.
  intros R [HB HQ] HP Hex Hh.
  pose proof HB as (A & B2 & B3 & G1 & G2 & G3).
  set (g2 := mkG s2 (report t r (reported g)) (history g ++ [t])).
  assert (Hans := exec_task_answers orc cfg base _ _ _ _ Hex).
  assert (R2 : greach files dirs g2).
  { eapply greach_step; [exact R|]. apply (gstep_continue g t rest r s2); assumption. }
  assert (Hstep : gstep g g2) by (apply (gstep_continue g t rest r s2); assumption).
  assert (Ht : In t (inflight (gs g))).
  { eapply Permutation_in; [apply Permutation_sym; exact HP|]. left. reflexivity. }
  assert (Hfin2 : forall f, finished g2 f -> finished g f \/ r = RPp f (Some POk)).
  { intros f Hf. unfold finished in *. cbn [g2 gs] in Hf. apply pmem_In in Hf.
    destruct (inv_reach _ _ _ R) as [HPi _].
    destruct (handle_fin (with_inflight (gs g) rest) r s2 f (i_dm HPi) Hh Hf) as [H|H]; [left; apply pmem_In; exact H|right; exact H]. }
  assert (Hseen2 : forall f, ~ In f (seen (gs g2)) -> ~ In f (seen (gs g))).
  { intros f Hn Hs. apply Hn. apply (gstep_seen g g2 f Hstep Hs). }
  destruct t as [d|h b].
  - (* a scan: the world does not change *)
    cbn [exec_task] in Hex. inversion Hex; subst r w'. clear Hex.
    assert (Hfin : forall f, finished g2 f -> finished g f).
    { intros f Hf. destruct (Hfin2 f Hf) as [H|H]; [exact H|discriminate]. }
    split; [split; [exact A|split; [exact B2|split; [|split; [|split]]]]|].
    + intros f out Hsrc Hn. apply (B3 f out Hsrc). apply Hseen2. exact Hn.
    + exact G1.
    + intros f Hf Hne. apply (G2 f (Hfin f Hf) Hne).
    + intros f Hf. apply (G3 f (Hfin f Hf)).
    + intros f out Hf Hsrc. apply (HQ f out (Hfin f Hf) Hsrc).
  - (* a pass of h *)
    rewrite exec_task_pp in Hex. rewrite Hmd in Hex. cbv zeta in Hex.
    set (o := pp_run orc Build base h b (cfg_trailing cfg) w) in *.
    destruct (res_of_tag h (tag_of o)) as [r'|] eqn:Er'; [|discriminate]. inversion Hex; subst r' w'. clear Hex.
    destruct (pass_effect w h b A) as [Eff A']. fold o in Eff, A'.
    assert (Hh_seen : In h (seen (gs g))) by (apply (inflight_seen g (TPp h b) R Ht)).
    (* the reports *)
    assert (G1' : forall a ds, In (a, ds) (reported g2) -> ds = sdeps w0 a /\ ds <> []).
    { cbn [g2 reported]. intros a ds Hin.
      destruct b; cbn [report] in Hin; try (apply (G1 a ds Hin)).
      destruct r as [y|g' [[|ds']|]]; try (apply (G1 a ds Hin)).
      destruct Hin as [Hin|Hin]; [|apply (G1 a ds Hin)]. inversion Hin; subst a ds'. clear Hin.
      destruct o as [a|ds' a|k a|] eqn:E; cbn in Er'; try discriminate. inversion Er'; subst ds'.
      destruct (pp_run_deps_readable _ _ _ _ _ _ _ _ _ E) as (raw & out & Erd & Ho).
      pose proof (source_in_world w h out raw A Ho Erd) as Hsrc.
      destruct (src_same w h out A Hsrc) as (_ & _ & _ & Hca & Esd & _).
      destruct (first_pass_reports_exactly orc Build base h (cfg_trailing cfg) w ds a ltac:(discriminate) Hca E) as (_ & H2 & H3).
      subst g'. split; [rewrite H2; exact Esd|exact H3]. }
    (* h has just finished: it is a source, the pass was its last one, the outcome is PpOk *)
    assert (Hnew : r = RPp h (Some POk) ->
              exists out w'', is_source h out /\ b = lastflag h /\ o = PpOk w'').
    { intros ->. destruct o as [a|ds' a|k a|] eqn:E; cbn in Er'; try discriminate.
      destruct (read_file (w_fs w) h) as [raw|] eqn:Erd.
      2:{ unfold o in E. rewrite (pp_run_unreadable _ _ _ _ _ _ w Erd) in E. discriminate. }
      destruct (remove_txtpp h) as [out|] eqn:Ho.
      2:{ unfold o in E. rewrite (pp_run_no_out _ _ _ _ _ _ w Ho) in E. discriminate. }
      pose proof (source_in_world w h out raw A Ho Erd) as Hsrc.
      exists out, a. split; [exact Hsrc|]. split; [|reflexivity].
      destruct (src_same w h out A Hsrc) as (_ & _ & _ & Hca & Esd & _).
      destruct b.
      - symmetry. apply lastflag_true. rewrite <- Esd.
        apply (first_pass_ok_no_targets orc Build base h (cfg_trailing cfg) w a ltac:(discriminate) Hca E).
      - destruct (final_inflight_reported files dirs g h R Ht) as [ds Hd].
        destruct (G1 h ds Hd) as [Hds Hne]. unfold lastflag. rewrite <- Hds.
        destruct ds; [congruence|reflexivity]. }
    split; [split; [apply (agree_trans nt _ (w_fs w)); assumption|split; [|split; [|split; [|split]]]]|].
    + intros p Hp. rewrite <- (B2 p Hp). apply Eff. intros outh Hsrc ->. apply Hp. eapply outs_in; eauto.
    + intros f out Hsrc Hn. pose proof (Hseen2 f Hn) as Hn0. rewrite <- (B3 f out Hsrc Hn0). apply Eff.
      intros outh Hsrch ->. assert (Hne : h <> f) by (intros ->; exact (Hn0 Hh_seen)).
      destruct (HS f outh Hsrc) as (_ & _ & _ & _ & _ & Hx). destruct (Hx h outh Hsrch Hne) as [Hd _]. apply Hd. reflexivity.
    + exact G1'.
    + intros f Hf Hne. cbn [g2 reported]. destruct (Hfin2 f Hf) as [Hold|Hnw].
      * destruct (G2 f Hold Hne) as [ds Hd]. exists ds. apply report_mono. exact Hd.
      * assert (f = h) by (rewrite Hnw in Hans; destruct Hans as [E _]; exact E). subst f.
        destruct (Hnew Hnw) as (out & w'' & Hsrc & Hb & _).
        destruct b.
        -- symmetry in Hb. apply lastflag_true in Hb. contradiction.
        -- destruct (final_inflight_reported files dirs g h R Ht) as [ds Hd]. exists ds. apply report_mono. exact Hd.
    + intros f Hf. destruct (Hfin2 f Hf) as [Hold|Hnw]; [apply (G3 f Hold)|].
      assert (f = h) by (rewrite Hnw in Hans; destruct Hans as [E _]; exact E). subst f.
      destruct (Hnew Hnw) as (out & w'' & Hsrc & _). exists out. exact Hsrc.
    + intros f out Hf Hsrc. destruct (Hfin2 f Hf) as [Hold|Hnw].
      * apply (Q_stable g w f out h b R HB Hold Hsrc Ht). apply (HQ f out Hold Hsrc).
      * assert (f = h) by (rewrite Hnw in Hans; destruct Hans as [E _]; exact E). subst f.
        destruct (Hnew Hnw) as (out' & w'' & Hsrc' & Hb & Eo).
        assert (out' = out) by (destruct Hsrc as [H1 _], Hsrc' as [H2 _]; congruence). subst out'.
        rewrite Eo. cbn [out_world]. subst b.
        apply (Q_intro g w h out w'' R HB Hsrc Ht HQ). exact Eo.
Qed.
End WithQ.

(* ---- F4: one pass of a source in two worlds that differ on a part D of the outputs ---- *)
Lemma pass_two_worlds f out b D wa wb :
  is_source f out -> agree nt (w_fs w0) (w_fs wa) -> agree nt (w_fs w0) (w_fs wb) ->
  (forall p, In p D -> In p outs) ->
  (forall p, ~ In p D -> fs_get (w_fs wa) p = fs_get (w_fs wb) p) ->
  (forall p, In p (pass_probes b w0 f) -> In p D -> p = out) ->
  forall wa'', pp_run orc Build base f b (cfg_trailing cfg) wa = PpOk wa'' ->
  exists wb'', pp_run orc Build base f b (cfg_trailing cfg) wb = PpOk wb'' /\
               fs_get (w_fs wb'') out = fs_get (w_fs wa'') out.
Proof.
  intros Hsrc Aa Ab HD Hag Hpr wa'' Ea.
  pose proof Hsrc as [Ho _].
  destruct (HS f out Hsrc) as (Hn & _ & _ & _ & _ & _).
  destruct (src_same wa f out Aa Hsrc) as (_ & _ & _ & Hca & _ & Ep).
  assert (W : wR (in_paths D) wa wb).
  { split; [intros p Hp; apply Hag; apply in_paths_false; exact Hp|].
    intros p. rewrite <- (proj2 Aa p). apply (proj2 Ab p). }
  assert (Hf : ~ In f D).
  { intros Hin. apply HD in Hin. apply outs_not_txtpp in Hin.
    rewrite (remove_txtpp_is_txtpp f out Ho) in Hin. discriminate. }
  destruct (build_pass_stale2 orc base f b (cfg_trailing cfg) D wa wb out W Ho Hn Hf (fun _ => Hca)) as [Ht Hw].
  { intros p Hp. rewrite Ep in Hp. apply Hpr. exact Hp. }
  rewrite Ea in Ht, Hw. cbn [tag_of out_world] in *.
  destruct (pp_run orc Build base f b (cfg_trailing cfg) wb) as [wb''|d2 b2|k2 b2|] eqn:Eb; try discriminate.
  exists wb''. split; [reflexivity|]. destruct Hw as [[Hx _]|Hw]; [discriminate|]. cbn [out_world] in Hw.
  symmetry. apply (proj1 Hw). apply in_paths_false. intros Hin. apply in_drop_path in Hin. apply (proj2 Hin). reflexivity.
Qed.

(* ---- F5: the final world of a successful run is a fixpoint of the last pass of every finished file ---- *)
Definition FP (f out : path) (w : world) : Prop :=
  exists w'', pp_run orc Build base f (lastflag f) (cfg_trailing cfg) w = PpOk w'' /\
              fs_get (w_fs w'') out = fs_get (w_fs w) out.

Lemma FP_stable g w f out h b :
  greach files dirs g -> Bs g w -> finished g f -> is_source f out ->
  In (TPp h b) (inflight (gs g)) -> FP f out w ->
  FP f out (out_world (pp_run orc Build base h b (cfg_trailing cfg) w) w).
Proof.
  intros R HB Hf Hsrc Hin (w'' & E & Eq).
  pose proof HB as (A & _).
  destruct (pass_effect w h b A) as [Eff A'].
  set (w' := out_world (pp_run orc Build base h b (cfg_trailing cfg) w) w) in *.
  assert (Hne : h <> f) by (intros ->; exact (finished_not_inflight files dirs g R f b Hf Hin)).
  assert (Aw' : agree nt (w_fs w0) (w_fs w')) by (apply (agree_trans nt _ (w_fs w)); assumption).
  destruct (HS f out Hsrc) as (_ & _ & _ & _ & _ & Hx).
  assert (Eout : fs_get (w_fs w') out = fs_get (w_fs w) out).
  { apply Eff. intros outh Hsrch ->. destruct (Hx h outh Hsrch Hne) as [Hd _]. apply Hd. reflexivity. }
  set (Dh := match remove_txtpp h, read_file (w_fs w0) h with Some o, Some _ => [o] | _, _ => [] end).
  assert (HDh : forall p, In p Dh -> is_source h p).
  { intros p Hp. unfold Dh in Hp. destruct (remove_txtpp h) as [o|] eqn:Ho; [|destruct Hp].
    destruct (read_file (w_fs w0) h) as [raw|] eqn:Er; [|destruct Hp]. destruct Hp as [<-|[]].
    split; [exact Ho|exists raw; exact Er]. }
  destruct (pass_two_worlds f out (lastflag f) Dh w w' Hsrc A Aw') with (wa'' := w'') as (wb'' & Eb & Eqb).
  - intros p Hp. eapply outs_in. apply HDh. exact Hp.
  - intros p Hp. symmetry. apply Eff. intros outh Hsrch ->. apply Hp. unfold Dh.
    destruct Hsrch as [Ho [raw Er]]. rewrite Ho, Er. left. reflexivity.
  - intros p Hp HpD. exfalso. apply HDh in HpD. destruct (Hx h p HpD Hne) as (_ & H1 & H2).
    destruct (lastflag f) eqn:El; [exact (H1 Hp)|].
    apply (finished_not_inflight files dirs g R h b); [|exact Hin].
    apply (fin_deps_fin g w f h R HB Hf). apply H2. exact Hp.
  - exact E.
  - exists wb''. split; [exact Eb|]. rewrite Eqb, Eq, Eout. reflexivity.
Qed.

Lemma FP_intro g w f out w'' :
  greach files dirs g -> Bs g w -> is_source f out ->
  In (TPp f (lastflag f)) (inflight (gs g)) ->
  (forall q outq, finished g q -> is_source q outq -> FP q outq w) ->
  pp_run orc Build base f (lastflag f) (cfg_trailing cfg) w = PpOk w'' ->
  FP f out w''.
Proof.
  intros R HB Hsrc _ _ E. pose proof HB as (A & _).
  destruct (pass_effect w f (lastflag f) A) as [Eff A']. rewrite E in Eff, A'. cbn [out_world] in Eff, A'.
  destruct (pass_two_worlds f out (lastflag f) [out] w w'' Hsrc A) with (wa'' := w'') as (wb'' & Eb & Eqb).
  - apply (agree_trans nt _ (w_fs w)); assumption.
  - intros p [<-|[]]. eapply outs_in; eauto.
  - intros p Hp. symmetry. apply Eff. intros outf Hsrcf ->. apply Hp. left.
    destruct Hsrc as [H1 _], Hsrcf as [H2 _]. congruence.
  - intros p _ [<-|[]]. reflexivity.
  - exact E.
  - exists wb''. split; [exact Eb|exact Eqb].
Qed.

(* ---- F6: a second run ends, on the outputs of the files it finished, where the first run ended ---- *)
Section Second.
Variable SA : list path.         (* the files seen by the first run *)
Variable WA : world.             (* its final world *)
Hypothesis HA_agree : agree nt (w_fs w0) (w_fs WA).
Hypothesis HA_outs : forall p, ~ In p outs -> fs_get (w_fs WA) p = fs_get (w_fs w0) p.
Hypothesis HA_FP : forall f out, In f SA -> is_source f out -> FP f out WA.
Hypothesis HA_closed : forall f q, In f SA -> In q (sdeps w0 f) -> In q SA.

Definition QB (f out : path) (w : world) : Prop := In f SA -> fs_get (w_fs w) out = fs_get (w_fs WA) out.

Lemma QB_stable g w f out h b :
  greach files dirs g -> Bs g w -> finished g f -> is_source f out ->
  In (TPp h b) (inflight (gs g)) -> QB f out w ->
  QB f out (out_world (pp_run orc Build base h b (cfg_trailing cfg) w) w).
Proof.
  intros R HB Hf Hsrc Hin HQ HSA. rewrite <- (HQ HSA). pose proof HB as (A & _).
  destruct (pass_effect w h b A) as [Eff _]. apply Eff.
  assert (Hne : h <> f) by (intros ->; exact (finished_not_inflight files dirs g R f b Hf Hin)).
  intros outh Hsrch ->. destruct (HS f outh Hsrc) as (_ & _ & _ & _ & _ & Hx).
  destruct (Hx h outh Hsrch Hne) as [Hd _]. apply Hd. reflexivity.
Qed.

Definition dep_outs (f : path) : list path :=
  flat_map (fun q => match remove_txtpp q with Some o => [o] | None => [] end) (sdeps w0 f).
Lemma in_dep_outs f p : In p (dep_outs f) <-> exists q, In q (sdeps w0 f) /\ remove_txtpp q = Some p.
Proof.
  unfold dep_outs. rewrite in_flat_map. split.
  - intros (q & Hq & H). exists q. split; [exact Hq|]. destruct (remove_txtpp q) as [o|]; [|destruct H].
    destruct H as [<-|[]]. reflexivity.
  - intros (q & Hq & H). exists q. split; [exact Hq|]. rewrite H. left. reflexivity.
Qed.

Lemma QB_intro g w f out w'' :
  greach files dirs g -> Bs g w -> is_source f out ->
  In (TPp f (lastflag f)) (inflight (gs g)) ->
  (forall q outq, finished g q -> is_source q outq -> QB q outq w) ->
  pp_run orc Build base f (lastflag f) (cfg_trailing cfg) w = PpOk w'' ->
  QB f out w''.
Proof.
  intros R HB Hsrc Hin HQ E HSA. pose proof HB as (A & B2 & _ & G1 & _ & G3).
  set (Df := filter (fun p => negb (in_paths (dep_outs f) p)) outs).
  destruct (HS f out Hsrc) as (_ & _ & _ & _ & _ & Hx).
  destruct (pass_two_worlds f out (lastflag f) Df w WA Hsrc A HA_agree) with (wa'' := w'') as (wb'' & Eb & Eqb).
  - intros p Hp. apply filter_In in Hp. apply Hp.
  - intros p Hp. destruct (in_paths outs p) eqn:Eo.
    + apply in_paths_true in Eo. destruct (in_paths (dep_outs f) p) eqn:Ed.
      * apply in_paths_true in Ed. apply in_dep_outs in Ed. destruct Ed as (q & Hq & Hoq).
        assert (El : lastflag f = false).
        { unfold lastflag. destruct (sdeps w0 f); [destruct Hq|reflexivity]. }
        rewrite El in Hin.
        destruct (final_inflight_reported files dirs g f R Hin) as [ds Hd].
        destruct (G1 f ds Hd) as [-> _].
        assert (Hfq : finished g q).
        { apply (final_pass_deps_finished files dirs g R f q Hin). exists (sdeps w0 f). split; assumption. }
        destruct (G3 q Hfq) as [oq Hsq].
        assert (oq = p) by (destruct Hsq as [H1 _]; congruence). subst oq.
        apply (HQ q p Hfq Hsq). apply (HA_closed f q HSA Hq).
      * exfalso. apply Hp. apply filter_In. split; [exact Eo|]. rewrite Ed. reflexivity.
    + apply in_paths_false in Eo. rewrite (B2 p Eo), (HA_outs p Eo). reflexivity.
  - intros p Hp HpD. apply filter_In in HpD. destruct HpD as [Ho Hnd].
    destruct (in_outs p Ho) as [g' Hsg].
    destruct (path_dec g' f) as [->|Hne].
    + destruct Hsrc as [H1 _], Hsg as [H2 _]. congruence.
    + exfalso. destruct (Hx g' p Hsg Hne) as (_ & H1 & H2).
      destruct (lastflag f) eqn:El; [exact (H1 Hp)|].
      assert (Hd : In p (dep_outs f)).
      { apply in_dep_outs. exists g'. split; [apply H2; exact Hp|apply Hsg]. }
      apply in_paths_true in Hd. rewrite Hd in Hnd. discriminate.
  - exact E.
  - destruct (HA_FP f out HSA Hsrc) as (w3 & E3 & Eq3). rewrite E3 in Eb. inversion Eb; subst w3.
    rewrite <- Eqb. exact Eq3.
Qed.
End Second.

(* ---- F7: two successful runs from the same world that saw the same files end in the same tree ---- *)
Lemma JQ_init Q : JQ Q (ginit files dirs) w0.
Proof.
  assert (Hnf : forall f, ~ finished (ginit files dirs) f).
  { intros f Hf. unfold finished, ginit in Hf. cbn [gs] in Hf. rewrite dm_fold_dir, dm_fold_file in Hf. discriminate. }
  split; [split; [apply agree_refl|split; [reflexivity|split; [reflexivity|split; [|split]]]]|].
  - intros a ds [].
  - intros f Hf. destruct (Hnf f Hf).
  - intros f Hf. destruct (Hnf f Hf).
  - intros f out Hf. destruct (Hnf f Hf).
Qed.

Theorem schedule_independence_loop_same_seen fuel1 fuel2 sched1 sched2 :
  let x1 := run_loop orc cfg base fuel1 sched1 (gs (ginit files dirs)) w0 [] in
  let x2 := run_loop orc cfg base fuel2 sched2 (gs (ginit files dirs)) w0 [] in
  verdict_of x1 = VOk -> verdict_of x2 = VOk ->
  (forall f, In f (seen (state_of x1)) <-> In f (seen (state_of x2))) ->
  w_eq (world_of x1) (world_of x2).
Proof.
  intros x1 x2 Hv1 Hv2 Hseen.
  destruct (run_loop_inv_g orc cfg base files dirs (JQ FP) (JQ_step FP FP_stable FP_intro)
              fuel1 sched1 (ginit files dirs) w0 [] (greach_init files dirs) (JQ_init FP) Hv1)
    as (gA & RA & EsA & _ & HfinA & [HBA HQA]).
  fold x1 in EsA, HBA, HQA.
  set (SA := seen (gs gA)). set (WA := world_of x1) in *.
  pose proof HBA as (AA & B2A & B3A & _).
  assert (HsA : forall f, In f SA -> finished gA f).
  { intros f Hf. apply HfinA. unfold is_seen. apply pmem_In. exact Hf. }
  assert (HA_FP : forall f out, In f SA -> is_source f out -> FP f out WA).
  { intros f out Hf Hsrc. apply HQA; [apply HsA; exact Hf|exact Hsrc]. }
  assert (HA_closed : forall f q, In f SA -> In q (sdeps w0 f) -> In q SA).
  { intros f q Hf Hq. pose proof (fin_deps_fin gA WA f q RA HBA (HsA f Hf) Hq) as Hfq.
    destruct (inv_reach _ _ _ RA) as [HP _]. apply (i_fin_seen HP). apply pmem_In. exact Hfq. }
  destruct (run_loop_inv_g orc cfg base files dirs (JQ (QB SA WA))
              (JQ_step (QB SA WA) (QB_stable SA WA) (QB_intro SA WA AA B2A HA_FP HA_closed))
              fuel2 sched2 (ginit files dirs) w0 [] (greach_init files dirs) (JQ_init (QB SA WA)) Hv2)
    as (gB & RB & EsB & _ & HfinB & [HBB HQB]).
  fold x2 in EsB, HBB, HQB. set (WB := world_of x2) in *.
  pose proof HBB as (AB & B2B & B3B & _).
  intros p. destruct (in_paths outs p) eqn:Eo.
  - apply in_paths_true in Eo. destruct (in_outs p Eo) as [f Hsrc].
    destruct (pmem f (seen (gs gB))) eqn:Es.
    + assert (HfB : finished gB f) by (apply HfinB; exact Es).
      apply pmem_In in Es. rewrite EsB in Es. apply Hseen in Es. rewrite <- EsA in Es.
      symmetry. apply (HQB f p HfB Hsrc). exact Es.
    + apply pmem_nIn in Es. rewrite (B3B f p Hsrc Es).
      assert (EsA' : ~ In f (seen (gs gA))).
      { intros H. apply Es. rewrite EsB. apply Hseen. rewrite <- EsA. exact H. }
      apply (B3A f p Hsrc EsA').
  - apply in_paths_false in Eo. rewrite (B2A p Eo), (B2B p Eo). reflexivity.
Qed.

(* ---- F8: the set of files a successful run sees does not depend on the schedule ---- *)
(* small facts about the coordinator's folds *)
Lemma inflight_exec_file_mono s f b x : In x (inflight s) -> In x (inflight (exec_file s f b)).
Proof.
  intros H. unfold exec_file. destruct (b && pmem f (seen s)); [exact H|]. cbn [inflight]. apply in_or_app. left. exact H.
Qed.
Lemma inflight_exec_dir_mono s d x : In x (inflight s) -> In x (inflight (exec_dir s d)).
Proof.
  intros H. unfold exec_dir. destruct (pmem d (seen_dirs s)); [exact H|]. cbn [inflight]. apply in_or_app. left. exact H.
Qed.
Lemma inflight_fold_file_mono b fs x : forall s, In x (inflight s) ->
  In x (inflight (fold_left (fun s f => exec_file s f b) fs s)).
Proof. induction fs as [|f r IH]; intros s H; cbn [fold_left]; [exact H|]. apply IH. apply inflight_exec_file_mono. exact H. Qed.
Lemma inflight_fold_dir_mono ds x : forall s, In x (inflight s) -> In x (inflight (fold_left exec_dir ds s)).
Proof. induction ds as [|d r IH]; intros s H; cbn [fold_left]; [exact H|]. apply IH. apply inflight_exec_dir_mono. exact H. Qed.
Lemma handle_inflight_mono s r s2 x : handle s r = Continue s2 -> In x (inflight s) -> In x (inflight s2).
Proof.
  intros Hh Hx.
  destruct (handle_cases _ _ _ Hh) as
    [[fs [ds [-> ->]]]|[[f' [m [rel [-> [Hnf ->]]]]]|[[f' [ds [m [-> [Had ->]]]]]|[f' [ds [m [-> [Had ->]]]]]]]].
  - apply inflight_fold_dir_mono. apply inflight_fold_file_mono. exact Hx.
  - apply inflight_fold_file_mono. exact Hx.
  - apply inflight_fold_file_mono. exact Hx.
  - apply inflight_exec_file_mono. exact Hx.
Qed.
Lemma seen_dirs_exec_dir_mono s d x : In x (seen_dirs s) -> In x (seen_dirs (exec_dir s d)).
Proof. intros H. unfold exec_dir. destruct (pmem d (seen_dirs s)); [exact H|]. cbn [seen_dirs]. right. exact H. Qed.
Lemma seen_dirs_fold_dir_mono ds x : forall s, In x (seen_dirs s) -> In x (seen_dirs (fold_left exec_dir ds s)).
Proof. induction ds as [|d r IH]; intros s H; cbn [fold_left]; [exact H|]. apply IH. apply seen_dirs_exec_dir_mono. exact H. Qed.
Lemma seen_dirs_after s d : In d (seen_dirs (exec_dir s d)).
Proof.
  unfold exec_dir. destruct (pmem d (seen_dirs s)) eqn:E; [apply pmem_In; exact E|]. cbn [seen_dirs]. left. reflexivity.
Qed.
Lemma fold_dir_all_seen ds d : forall s, In d ds -> In d (seen_dirs (fold_left exec_dir ds s)).
Proof.
  induction ds as [|a r IH]; intros s H; [destruct H|]. cbn [fold_left]. destruct H as [->|H].
  - apply seen_dirs_fold_dir_mono. apply seen_dirs_after.
  - apply IH. exact H.
Qed.
Lemma handle_seen_dirs_mono s r s2 x : handle s r = Continue s2 -> In x (seen_dirs s) -> In x (seen_dirs s2).
Proof.
  intros Hh Hx.
  destruct (handle_cases _ _ _ Hh) as
    [[fs [ds [-> ->]]]|[[f' [m [rel [-> [Hnf ->]]]]]|[[f' [ds [m [-> [Had ->]]]]]|[f' [ds [m [-> [Had ->]]]]]]]].
  - apply seen_dirs_fold_dir_mono. rewrite seen_dirs_fold_file. exact Hx.
  - rewrite seen_dirs_fold_file. exact Hx.
  - rewrite seen_dirs_fold_file. exact Hx.
  - rewrite seen_dirs_exec_file. exact Hx.
Qed.
(* a directory that becomes seen has its scan in flight *)
Lemma fold_dir_new ds d : forall s, In d ds -> ~ In d (seen_dirs s) ->
  In (TScan d) (inflight (fold_left exec_dir ds s)).
Proof.
  induction ds as [|a r IH]; intros s H Hn; [destruct H|]. cbn [fold_left].
  destruct (path_dec a d) as [->|Hne].
  - apply inflight_fold_dir_mono. unfold exec_dir.
    destruct (pmem d (seen_dirs s)) eqn:E; [apply pmem_In in E; contradiction|].
    cbn [inflight]. apply in_or_app. right. left. reflexivity.
  - destruct H as [H|H]; [contradiction|]. apply IH; [exact H|].
    intros Hin. apply seen_dirs_exec_dir_inv in Hin. destruct Hin as [Hin|Hin]; [exact (Hn Hin)|congruence].
Qed.

(* what directory scans see does not change *)
Definition Scan (w : world) : Prop := raw_ok w /\ scanpart (w_fs w) = scanpart (w_fs w0).

Lemma Scan_step w t r w' : agree nt (w_fs w0) (w_fs w) -> Scan w ->
  exec_task orc cfg base t w = Some (r, w') -> Scan w'.
Proof.
  intros A [N S] Hex. destruct t as [d|h b].
  - cbn in Hex. inversion Hex; subst. split; assumption.
  - rewrite exec_task_pp in Hex. rewrite Hmd in Hex. cbv zeta in Hex.
    destruct (res_of_tag h _) as [r'|]; [|discriminate]. inversion Hex; subst r' w'. clear Hex.
    destruct (read_file (w_fs w) h) as [raw|] eqn:Er.
    2:{ rewrite (pp_run_unreadable _ _ _ _ _ _ w Er). split; assumption. }
    destruct (remove_txtpp h) as [outh|] eqn:Ho.
    2:{ rewrite (pp_run_no_out _ _ _ _ _ _ w Ho). split; assumption. }
    pose proof (source_in_world w h outh raw A Ho Er) as Hsrc.
    destruct (src_same w h outh A Hsrc) as (_ & _ & Ew & _).
    destruct (HS h outh Hsrc) as (_ & _ & Hto & _).
    destruct (pp_run_scan orc Build base h b (cfg_trailing cfg) w N) as [N' S'].
    { rewrite Ew. intros q [<-|[<-|[]]]; exact Hto. }
    split; [exact N'|]. rewrite S'. exact S.
Qed.

Lemma Scan_scan w d : agree nt (w_fs w0) (w_fs w) -> Scan w ->
  scan_dir (w_fs w) d (cfg_recursive cfg) = scan_dir (w_fs w0) d (cfg_recursive cfg).
Proof. intros A [_ S]. apply scan_dir_ext; [exact S|]. symmetry. apply (proj2 A). Qed.

(* a pair (files, directories) that contains the inputs and is closed under scans and dependencies *)
Definition closed (S Dd : list path) : Prop :=
  incl files S /\ incl dirs Dd /\
  (forall d fs ds, In d Dd -> scan_dir (w_fs w0) d (cfg_recursive cfg) = Some (fs, ds) -> incl fs S /\ incl ds Dd) /\
  (forall f, In f S -> incl (sdeps w0 f) S).

Definition QT (f out : path) (w : world) : Prop := True.

(* the invariant behind closedness: every seen directory is being scanned or has had its entries added *)
Definition C1 (g : gstate) : Prop :=
  forall d, In d (seen_dirs (gs g)) ->
    In (TScan d) (inflight (gs g)) \/
    forall fs ds, scan_dir (w_fs w0) d (cfg_recursive cfg) = Some (fs, ds) ->
                  incl fs (seen (gs g)) /\ incl ds (seen_dirs (gs g)).
Definition JC (g : gstate) (w : world) : Prop := JQ QT g w /\ Scan w /\ C1 g.

Lemma JC_step g w t rest r w' s2 :
  greach files dirs g -> JC g w -> Permutation (inflight (gs g)) (t :: rest) ->
  exec_task orc cfg base t w = Some (r, w') -> handle (with_inflight (gs g) rest) r = Continue s2 ->
  JC (mkG s2 (report t r (reported g)) (history g ++ [t])) w'.
Proof.
  intros R (HJ & HSc & HC) HP Hex Hh.
  split; [apply (JQ_step QT (fun _ _ _ _ _ _ _ _ _ _ _ _ => I) (fun _ _ _ _ _ _ _ _ _ _ _ => I) g w t rest r w' s2); assumption|].
  pose proof (proj1 (proj1 HJ)) as A.
  split; [eapply Scan_step; eauto|].
  set (g2 := mkG s2 (report t r (reported g)) (history g ++ [t])).
  assert (Hstep : gstep g g2).
  { apply (gstep_continue g t rest r s2); try assumption. eapply exec_task_answers; eauto. }
  assert (Hrest : forall x, In x rest -> In x (inflight s2)).
  { intros x Hx. apply (handle_inflight_mono _ _ _ x Hh). exact Hx. }
  assert (Hsd : forall x, In x (seen_dirs (gs g)) -> In x (seen_dirs s2)).
  { intros x Hx. apply (handle_seen_dirs_mono _ _ _ x Hh). exact Hx. }
  intros d Hd. cbn [g2 gs] in *.
  destruct (pmem d (seen_dirs (gs g))) eqn:Eold.
  - apply pmem_In in Eold. destruct (HC d Eold) as [Hfl|Hcl].
    + assert (Hin : In (TScan d) (t :: rest)) by (eapply Permutation_in; [exact HP|exact Hfl]).
      destruct Hin as [Ht|Hin]; [|left; apply Hrest; exact Hin].
      subst t. right. intros fs ds Es. cbn [exec_task] in Hex. inversion Hex; subst r w'. clear Hex.
      rewrite (Scan_scan w d A HSc), Es in Hh. cbn [handle] in Hh. inversion Hh; subst s2. split.
      * intros x Hx. apply seen_fold_dir. apply fold_first_all_seen. exact Hx.
      * intros x Hx. apply fold_dir_all_seen. exact Hx.
    + right. intros fs ds Es. destruct (Hcl fs ds Es) as [H1 H2]. split.
      * intros x Hx. apply (gstep_seen g g2 x Hstep). apply H1. exact Hx.
      * intros x Hx. apply Hsd. apply H2. exact Hx.
  - apply pmem_nIn in Eold. left.
    destruct (handle_cases _ _ _ Hh) as
      [[fs [ds [-> ->]]]|[[f' [m [rel [-> [Hnf ->]]]]]|[[f' [ds [m [-> [Had ->]]]]]|[f' [ds [m [-> [Had ->]]]]]]]].
    + apply seen_dirs_fold_dir_inv in Hd. rewrite seen_dirs_fold_file in Hd.
      destruct Hd as [Hd|Hd]; [contradiction|].
      apply fold_dir_new; [exact Hd|]. rewrite seen_dirs_fold_file. exact Eold.
    + rewrite seen_dirs_fold_file in Hd. contradiction.
    + rewrite seen_dirs_fold_file in Hd. contradiction.
    + rewrite seen_dirs_exec_file in Hd. contradiction.
Qed.

Lemma greach_dirs_seen g : greach files dirs g -> forall d, In d dirs -> In d (seen_dirs (gs g)).
Proof.
  induction 1 as [|g g' _ IH Hs]; intros d Hd.
  - unfold ginit. cbn [gs]. apply fold_dir_all_seen. exact Hd.
  - inversion Hs as [g0 t rest r s2 Hperm Hans Hh]; subst. cbn [gs].
    apply (handle_seen_dirs_mono _ _ _ d Hh). apply IH. exact Hd.
Qed.

Lemma JC_init : raw_ok w0 -> JC (ginit files dirs) w0.
Proof.
  intros N. split; [apply JQ_init|]. split; [split; [exact N|reflexivity]|].
  intros d Hd. left. unfold ginit in *. cbn [gs] in *.
  apply seen_dirs_fold_dir_inv in Hd. rewrite seen_dirs_fold_file in Hd. destruct Hd as [[]|Hd].
  apply fold_dir_new; [exact Hd|]. rewrite seen_dirs_fold_file. intros [].
Qed.

Theorem run_closed fuel sched :
  raw_ok w0 ->
  let x := run_loop orc cfg base fuel sched (gs (ginit files dirs)) w0 [] in
  verdict_of x = VOk -> closed (seen (state_of x)) (seen_dirs (state_of x)).
Proof.
  intros N x Hv.
  destruct (run_loop_inv_g orc cfg base files dirs JC JC_step fuel sched (ginit files dirs) w0 []
              (greach_init files dirs) (JC_init N) Hv) as (g & R & Es & Hfl & Hfin & ([HB _] & _ & HC)).
  fold x in Es. rewrite <- Es. split; [|split; [|split]].
  - intros f Hf. apply (greach_inputs_seen files dirs g R f Hf).
  - intros d Hd. apply (greach_dirs_seen g R d Hd).
  - intros d fs ds Hd Hscan. destruct (HC d Hd) as [H|H]; [rewrite Hfl in H; destruct H|]. apply (H fs ds Hscan).
  - intros f Hf q Hq.
    assert (Hff : finished g f) by (apply Hfin; unfold is_seen; apply pmem_In; exact Hf).
    pose proof (fin_deps_fin g (world_of x) f q R HB Hff Hq) as Hfq.
    destruct (inv_reach _ _ _ R) as [HP _]. apply (i_fin_seen HP). apply pmem_In. exact Hfq.
Qed.

(* ... and every closed pair contains what a run sees *)
Section Least.
Variables S Dd : list path.
Hypothesis Hcl : closed S Dd.

Definition JL (g : gstate) (w : world) : Prop :=
  JQ QT g w /\ Scan w /\ incl (seen (gs g)) S /\ incl (seen_dirs (gs g)) Dd.

Lemma JL_step g w t rest r w' s2 :
  greach files dirs g -> JL g w -> Permutation (inflight (gs g)) (t :: rest) ->
  exec_task orc cfg base t w = Some (r, w') -> handle (with_inflight (gs g) rest) r = Continue s2 ->
  JL (mkG s2 (report t r (reported g)) (history g ++ [t])) w'.
Proof.
  intros R (HJ & HSc & H1 & H2) HP Hex Hh.
  split; [apply (JQ_step QT (fun _ _ _ _ _ _ _ _ _ _ _ _ => I) (fun _ _ _ _ _ _ _ _ _ _ _ => I) g w t rest r w' s2); assumption|].
  pose proof (proj1 (proj1 HJ)) as A.
  split; [eapply Scan_step; eauto|].
  destruct Hcl as (_ & _ & Hscan & Hdeps).
  assert (Ht : In t (inflight (gs g))).
  { eapply Permutation_in; [apply Permutation_sym; exact HP|]. left. reflexivity. }
  destruct (handle_seen _ _ _ Hh) as [Hs1 Hs2]. cbn [with_inflight seen seen_dirs] in Hs1, Hs2.
  assert (Hres : incl (res_files r) S /\ incl (res_dirs r) Dd).
  { destruct t as [d|h b].
    - cbn [exec_task] in Hex. inversion Hex; subst r w'. clear Hex.
      rewrite (Scan_scan w d A HSc).
      destruct (scan_dir (w_fs w0) d (cfg_recursive cfg)) as [[fs ds]|] eqn:Es; cbn [res_files res_dirs].
      + apply (Hscan d fs ds); [|exact Es]. apply H2.
        destruct (inv_reach _ _ _ R) as [HPi _]. apply (i_fl_seen HPi (TScan d) Ht).
      + split; intros x [].
    - rewrite exec_task_pp in Hex. rewrite Hmd in Hex. cbv zeta in Hex.
      destruct (pp_run orc Build base h b (cfg_trailing cfg) w) as [a|ds a|k a|] eqn:E; cbn in Hex; try discriminate;
        inversion Hex; subst r w'; cbn [res_files res_dirs]; try (split; intros x []).
      split; [|intros x []].
      assert (Hb : b = true).
      { destruct b; [reflexivity|]. exfalso. revert E. apply pp_run_final_no_deps. }
      subst b.
      destruct (pp_run_deps_readable _ _ _ _ _ _ _ _ _ E) as (raw & out & Erd & Ho).
      pose proof (source_in_world w h out raw A Ho Erd) as Hsrc.
      destruct (src_same w h out A Hsrc) as (_ & _ & _ & Hca & Esd & _).
      destruct (first_pass_reports_exactly orc Build base h (cfg_trailing cfg) w ds a ltac:(discriminate) Hca E) as (_ & E2 & _).
      rewrite E2. fold (sdeps w h). rewrite Esd. apply Hdeps. apply H1.
      apply (inflight_seen g (TPp h true) R Ht). }
  destruct Hres as [Hr1 Hr2]. split.
  - intros x Hx. destruct (Hs1 x Hx) as [H|H]; [apply H1; exact H|apply Hr1; exact H].
  - intros x Hx. destruct (Hs2 x Hx) as [H|H]; [apply H2; exact H|apply Hr2; exact H].
Qed.

Theorem run_least fuel sched :
  raw_ok w0 ->
  let x := run_loop orc cfg base fuel sched (gs (ginit files dirs)) w0 [] in
  verdict_of x = VOk -> incl (seen (state_of x)) S /\ incl (seen_dirs (state_of x)) Dd.
Proof.
  intros N x Hv.
  assert (J0 : JL (ginit files dirs) w0).
  { split; [apply JQ_init|]. split; [split; [exact N|reflexivity]|]. destruct Hcl as (Hf & Hd & _).
    unfold ginit. cbn [gs]. split.
    - intros f Hin. rewrite seen_fold_dir_eq in Hin. apply seen_fold_file_inv in Hin.
      destruct Hin as [[]|[_ Hin]]. apply Hf. exact Hin.
    - intros d Hin. apply seen_dirs_fold_dir_inv in Hin. rewrite seen_dirs_fold_file in Hin.
      destruct Hin as [[]|Hin]. apply Hd. exact Hin. }
  destruct (run_loop_inv_g orc cfg base files dirs JL JL_step fuel sched (ginit files dirs) w0 []
              (greach_init files dirs) J0 Hv) as (g & R & Es & _ & _ & (_ & _ & H1 & H2)).
  fold x in Es. rewrite <- Es. split; assumption.
Qed.
End Least.

(* GOAL 3 at the level of the coordinator loop *)
Theorem schedule_independence_loop fuel1 fuel2 sched1 sched2 :
  raw_ok w0 ->
  let x1 := run_loop orc cfg base fuel1 sched1 (gs (ginit files dirs)) w0 [] in
  let x2 := run_loop orc cfg base fuel2 sched2 (gs (ginit files dirs)) w0 [] in
  verdict_of x1 = VOk -> verdict_of x2 = VOk ->
  w_eq (world_of x1) (world_of x2).
Proof.
  intros N x1 x2 Hv1 Hv2. apply schedule_independence_loop_same_seen; try assumption.
  pose proof (run_closed fuel1 sched1 N Hv1) as C1'. pose proof (run_closed fuel2 sched2 N Hv2) as C2'.
  destruct (run_least _ _ C2' fuel1 sched1 N Hv1) as [L1 _].
  destruct (run_least _ _ C1' fuel2 sched2 N Hv2) as [L2 _].
  intros f. split; [apply L1|apply L2].
Qed.

End Sched.

(* GOAL 3: two successful Build runs from the same world, with any two schedules (and any fuel), end in the same tree *)
Theorem schedule_independence orc cfg fuel1 fuel2 sched1 sched2 w :
  cfg_mode cfg = Build ->
  raw_ok w ->
  sched_ok w ->
  let x1 := txtpp_run orc cfg fuel1 sched1 w in
  let x2 := txtpp_run orc cfg fuel2 sched2 w in
  verdict_of x1 = VOk -> verdict_of x2 = VOk ->
  w_eq (world_of x1) (world_of x2).
Proof.
  intros Hmd N HS. unfold txtpp_run.
  destruct (cfg_threads cfg =? 0); [cbn; intros _ _ p; reflexivity|].
  destruct (os_resolve (w_fs w) (cfg_base cfg)) as [base|]; [|cbn; intros _ _ p; reflexivity].
  destruct (resolve_inputs (w_fs w) base (cfg_inputs cfg) [] []) as [[files dirs]|]; [|cbn; intros _ _ p; reflexivity].
  apply (schedule_independence_loop orc cfg base Hmd w HS files dirs fuel1 fuel2 sched1 sched2 N).
Qed.

(* ---- GOAL 3, non-vacuity: the tree of GOAL 1/2 (d/a.txtpp includes the output of d/b.txtpp) ---- *)
Lemma g3_sched_ok : sched_ok g1_w.
Proof.
  assert (Hsrc : forall f out, is_source g1_w f out -> (f = g1_a /\ out = g1_aout) \/ (f = g1_b /\ out = g1_bout)).
  { intros f out [Ho [raw Er]]. destruct (g2_sources f raw Er) as [-> | ->]; vm_compute in Ho; inversion Ho; auto. }
  intros f out Hs. destruct (Hsrc f out Hs) as [[-> ->]|[-> ->]].
  - split; [repeat constructor|]. split; [vm_compute; reflexivity|]. split; [vm_compute; reflexivity|].
    split; [vm_compute; reflexivity|]. split.
    + intros c Hc. vm_compute in Hc. destruct Hc as [<-|[]]. vm_compute. reflexivity.
    + intros g outg Hg Hne. destruct (Hsrc g outg Hg) as [[-> ->]|[-> ->]]; [congruence|].
      split; [discriminate|]. split.
      * vm_compute. intuition discriminate.
      * intros _. vm_compute. left. reflexivity.
  - split; [repeat constructor|]. split; [vm_compute; reflexivity|]. split; [vm_compute; reflexivity|].
    split; [vm_compute; reflexivity|]. split.
    + intros c Hc. vm_compute in Hc. destruct Hc.
    + intros g outg Hg Hne. destruct (Hsrc g outg Hg) as [[-> ->]|[-> ->]]; [|congruence].
      split; [discriminate|]. split.
      * vm_compute. intuition discriminate.
      * intros Hin. vm_compute in Hin. destruct Hin.
Qed.

Lemma g3_raw_ok : raw_ok g1_w.
Proof. unfold raw_ok. cbn. repeat constructor; cbn; intuition discriminate. Qed.

Example schedule_independence_nonvacuous :
  let x1 := txtpp_run cx_orc g2_cfg 9 [] g1_w in                 (* a.txtpp is looked at first *)
  let x2 := txtpp_run cx_orc g2_cfg 9 [0; 1; 0; 0]%nat g1_w in   (* b.txtpp is finished first *)
  verdict_of x1 = VOk /\ verdict_of x2 = VOk /\ map fst (trace_of x1) <> map fst (trace_of x2) /\
  w_eq (world_of x1) (world_of x2).
Proof.
  cbv zeta.
  assert (E1 : verdict_of (txtpp_run cx_orc g2_cfg 9 [] g1_w) = VOk) by (vm_compute; reflexivity).
  assert (E2 : verdict_of (txtpp_run cx_orc g2_cfg 9 [0; 1; 0; 0]%nat g1_w) = VOk) by (vm_compute; reflexivity).
  split; [exact E1|]. split; [exact E2|]. split; [vm_compute; discriminate|].
  apply schedule_independence; [reflexivity|exact g3_raw_ok|exact g3_sched_ok|exact E1|exact E2].
Qed.

(* ================================================================================================
   APPENDIX — the hypothesis "the probed candidates have `.txtpp` names" (static_ok_deps, sched_ok) holds as soon as
   the include/after argument, joined to the directory of the source, ends with an ordinary non-empty name.
   ================================================================================================ *)
Lemma set_ext_normal dir n e : is_normal n = true -> (2 <= length e)%nat ->
  exists c, lex_set_extension (dir ++ [n]) e = dir ++ [c] /\ is_normal c = true.
Proof.
  intros Hn He. rewrite lex_set_extension_snoc, Hn.
  destruct e as [|e0 e']; [cbn in He; lia|].
  exists (fst (split_ext n) ++ [DOT] ++ e0 :: e'). split; [reflexivity|].
  unfold is_normal. rewrite SinkFacts.str_eqb_neq; [reflexivity|].
  intros H. apply (f_equal (@length _)) in H. rewrite !app_length in H. cbn in H, He. lia.
Qed.

Lemma candidate_shape dir n x : is_normal n = true -> n <> [] ->
  In x (txtpp_candidates (dir ++ [n])) -> exists a k, x = a ++ [k] /\ is_normal k = true.
Proof.
  intros Hn Hne Hin. unfold txtpp_candidates in Hin.
  destruct (is_txtpp_file (dir ++ [n])); [destruct Hin|].
  rewrite lex_extension_snoc, Hn in Hin.
  destruct (split_ext n) as [stem [ext|]] eqn:S; cbn [snd] in Hin.
  - destruct (split_ext_inv _ _ _ S) as [En [Hst Hex]].
    assert (Hc1 : lex_set_extension (dir ++ [n]) (ext ++ [DOT] ++ TXTPP_EXT) = dir ++ [n ++ DOT :: TXTPP_EXT]).
    { rewrite lex_set_extension_snoc, Hn, S. cbn [fst].
      destruct (ext ++ [DOT] ++ TXTPP_EXT) eqn:Ee; [destruct ext; discriminate Ee|]. rewrite <- Ee.
      rewrite En. f_equal. f_equal. rewrite <- !app_assoc. reflexivity. }
    assert (Hk1 : is_normal (n ++ DOT :: TXTPP_EXT) = true).
    { unfold is_normal. rewrite (SinkFacts.str_eqb_neq _ _ (snoc_txtpp_not_dotdot n)). reflexivity. }
    rewrite Hc1 in Hin. destruct Hin as [<-|[<-|[]]].
    + exists dir, (n ++ DOT :: TXTPP_EXT). split; [reflexivity|exact Hk1].
    + rewrite lex_set_extension_snoc, Hk1.
      rewrite (split_ext_build n TXTPP_EXT Hne txtpp_ext_nodot (snoc_txtpp_not_dotdot n)). cbn [fst].
      destruct (set_ext_normal dir n (TXTPP_EXT ++ [DOT] ++ ext) Hn) as (c & Ec & Hc).
      { rewrite app_length. cbn. lia. }
      exists dir, c. split; assumption.
  - destruct Hin as [<-|[]].
    destruct (set_ext_normal dir n TXTPP_EXT Hn) as (c & Ec & Hc); [cbn; lia|].
    exists dir, c. split; assumption.
Qed.

Lemma cprobes_txtpp src d dir n :
  lex_join (parent src) (hd [] (d_args d)) = dir ++ [n] -> is_normal n = true -> n <> [] ->
  forall c, In c (cprobes src d) -> is_txtpp_file c = true.
Proof.
  intros Hlp Hn Hne c Hc. unfold cprobes in Hc.
  assert (G : In c (map lex_normalize (txtpp_candidates (dir ++ [n]))) -> is_txtpp_file c = true).
  { intros H. apply in_map_iff in H. destruct H as (x & <- & Hx).
    destruct (candidate_shape dir n x Hn Hne Hx) as (a & k & -> & Hk).
    unfold lex_normalize. rewrite (lex_normalize_from_last [] a k Hk).
    rewrite (is_txtpp_last _ a k).
    apply (candidates_txtpp (dir ++ [n]) (a ++ [k]) a k Hx eq_refl Hk).
    intros dir' n' E. apply app_inj_tail in E. destruct E as [_ <-]. exact Hne. }
  rewrite Hlp in Hc. destruct (d_ty d); try destruct Hc; apply G; exact Hc.
Qed.

(* the usual way to obtain `cands_apart`: the pass writes no `.txtpp` name and probes only `.txtpp` names *)
Lemma cands_apart_intro md w src :
  (forall q, In q (writes_of md w src) -> is_txtpp_file q = false) ->
  (forall c, In c (cand_probes src (items_of md w src)) -> is_txtpp_file c = true) ->
  cands_apart md w src.
Proof. intros Hw Hc c Hin Hwr. specialize (Hc c Hin). rewrite (Hw c Hwr) in Hc. discriminate. Qed.
