(* EventFacts.v — what a pass over one file may touch (C10, C07, C06, C09 at the level of the world).
   All proofs are complete (Qed); the only deviation from the original statements is pp_run_events,
   which is false as stated (see the FALSE comment) and is replaced by pp_run_events_weaker. *)
Require Import Txtpp.Str Txtpp.Consts Txtpp.Grammar Txtpp.Tags Txtpp.Path Txtpp.Fs Txtpp.Sink Txtpp.Pp Txtpp.Spec.
Require Import Txtpp.proofs.StrFacts.
From Coq Require Import Lia.

(* lexical normalisation: `..` pops (the OS does the same when there are no symlinks) *)
Fixpoint lex_normalize_from (cur : path) (comps : lexpath) : path :=
  match comps with
  | [] => cur
  | c :: r => if str_eqb c dotdot then lex_normalize_from (removelast cur) r
              else lex_normalize_from (cur ++ [c]) r
  end.
Definition lex_normalize (p : lexpath) : path := lex_normalize_from [] p.

Lemma os_walk_normalize f cur comps q : os_walk f cur comps = Some q -> q = lex_normalize_from cur comps.
Proof.
  revert cur. induction comps as [|c r IH]; intros cur0 H; simpl in *.
  - destruct (exists_ f cur0); congruence.
  - destruct (negb (is_dir f cur0)); [discriminate|].
    destruct (str_eqb c dotdot); apply IH; exact H.
Qed.
Lemma os_resolve_normalize f p q : os_resolve f p = Some q -> q = lex_normalize p.
Proof. unfold os_resolve, lex_normalize. apply os_walk_normalize. Qed.

(* ---- helper facts on lexical normalisation ---- *)
Definition all_normal (p : list name) : Prop := Forall (fun n => is_normal n = true) p.

Lemma lex_normalize_from_app cur a b :
  lex_normalize_from cur (a ++ b) = lex_normalize_from (lex_normalize_from cur a) b.
Proof.
  revert cur. induction a as [|c r IH]; intros cur0; simpl; [reflexivity|].
  destruct (str_eqb c dotdot); apply IH.
Qed.

Lemma lex_normalize_from_last cur rp n :
  is_normal n = true -> lex_normalize_from cur (rp ++ [n]) = lex_normalize_from cur rp ++ [n].
Proof.
  intros Hn. rewrite lex_normalize_from_app. simpl.
  unfold is_normal in Hn. destruct (str_eqb n dotdot); [discriminate|reflexivity].
Qed.

Lemma all_normal_removelast p : all_normal p -> all_normal (removelast p).
Proof.
  unfold all_normal. induction p as [|a r IH]; intros H; simpl; [constructor|].
  inversion H as [|x l Ha Hr]; subst. destruct r as [|b r']; [constructor|].
  constructor; [exact Ha|]. apply IH. exact Hr.
Qed.

Lemma lex_normalize_from_all_normal cur p : all_normal cur -> all_normal (lex_normalize_from cur p).
Proof.
  revert cur. induction p as [|c r IH]; intros cur0 H; simpl; [exact H|].
  destruct (str_eqb c dotdot) eqn:E.
  - apply IH. apply all_normal_removelast. exact H.
  - apply IH. unfold all_normal. apply Forall_app. split; [exact H|].
    constructor; [|constructor]. unfold is_normal. rewrite E. reflexivity.
Qed.

Lemma lex_normalize_all_normal p : all_normal (lex_normalize p).
Proof. apply lex_normalize_from_all_normal. constructor. Qed.

Lemma lex_normalize_from_normal cur p : all_normal p -> lex_normalize_from cur p = cur ++ p.
Proof.
  revert cur. induction p as [|c r IH]; intros cur0 H; simpl.
  - rewrite app_nil_r. reflexivity.
  - inversion H as [|x l Hc Hr]; subst. unfold is_normal in Hc.
    destruct (str_eqb c dotdot); [discriminate|].
    rewrite IH by exact Hr. rewrite <- app_assoc. reflexivity.
Qed.

Lemma lex_normalize_normal p : all_normal p -> lex_normalize p = p.
Proof. intros H. unfold lex_normalize. rewrite lex_normalize_from_normal by exact H. reflexivity. Qed.

Lemma lex_normalize_idem p : lex_normalize (lex_normalize p) = lex_normalize p.
Proof. apply lex_normalize_normal. apply lex_normalize_all_normal. Qed.

Lemma rev_cons_eq {A} (p : list A) n rp : rev p = n :: rp -> p = rev rp ++ [n].
Proof. intros H. rewrite <- (rev_involutive p). rewrite H. reflexivity. Qed.

(* the shape of the target of a create/write: the last component is kept, the rest is normalised *)
Lemma write_target_shape f p q :
  write_target f p = Some q ->
  exists rp n, p = rp ++ [n] /\ is_normal n = true /\ q = lex_normalize rp ++ [n].
Proof.
  unfold write_target. destruct (rev p) as [|n rp] eqn:E; [discriminate|].
  destruct (is_normal n) eqn:Hn; [|discriminate].
  destruct (os_resolve f (rev rp)) as [d|] eqn:Hr; [|discriminate].
  destruct (is_dir f d); [|discriminate].
  destruct (is_dir f (d ++ [n])); [discriminate|].
  intros H. inversion H; subst q.
  exists (rev rp), n. split; [apply rev_cons_eq; exact E|]. split; [exact Hn|].
  apply os_resolve_normalize in Hr. subst d. reflexivity.
Qed.

Lemma write_target_normalize f p q : write_target f p = Some q -> q = lex_normalize p.
Proof.
  intros H. apply write_target_shape in H. destruct H as (rp & n & Hp & Hn & Hq). subst p q.
  unfold lex_normalize. rewrite lex_normalize_from_last by exact Hn. reflexivity.
Qed.

(* the world's log only grows, and what a primitive appends is an event on the path it was given *)
Definition extends (w w' : world) (evs : list event) : Prop := w_log w' = w_log w ++ evs.

Definition ev_path (e : event) : option path :=
  match e with EWrite p => Some p | ERemove p => Some p | ERun _ _ _ => None end.

(* the paths a pass over `src` may create, modify or delete: its output, and the targets named by
   the temp directives in its text (resolved lexically against the source's directory) *)
Fixpoint temp_args (its : list item) : list str :=
  match its with
  | [] => []
  | IDir d _ :: r => match d_ty d, d_args d with
                     | DTemp, a :: _ => a :: temp_args r
                     | _, _ => temp_args r
                     end
  | _ :: r => temp_args r
  end.
Definition allowed_paths (src out : path) (its : list item) : list path :=
  out :: map (fun a => lex_normalize (lex_join (parent src) a)) (temp_args its).
Definition ev_allowed (allowed : list path) (e : event) : Prop :=
  match ev_path e with Some p => In p allowed | None => True end.

(* ---- local copies of two file-system facts (so that this file does not depend on lemmas still
   admitted elsewhere) ---- *)
Lemma str_eqb_true a b : str_eqb a b = true -> a = b.
Proof.
  revert b. induction a as [|x a IH]; intros [|y b] H; simpl in H; try discriminate; [reflexivity|].
  apply andb_prop in H. destruct H as [H1 H2]. apply N.eqb_eq in H1. apply IH in H2. subst. reflexivity.
Qed.
Lemma path_eqb_true a b : path_eqb a b = true -> a = b.
Proof.
  revert b. induction a as [|x a IH]; intros [|y b] H; simpl in H; try discriminate; [reflexivity|].
  apply andb_prop in H. destruct H as [H1 H2]. apply str_eqb_true in H1. apply IH in H2. subst. reflexivity.
Qed.
Lemma fs_get_nil f : fs_get f [] = Some Dir.
Proof. destruct f; reflexivity. Qed.
Lemma fs_get_cons a n r q :
  q <> [] -> fs_get ((a, n) :: r) q = if path_eqb a q then Some n else fs_get r q.
Proof. destruct q; [intros H; exfalso; apply H; reflexivity|reflexivity]. Qed.
Lemma fs_get_del_other_l f p q : p <> q -> fs_get (fs_del f p) q = fs_get f q.
Proof.
  intros H. destruct q as [|x q']; [rewrite !fs_get_nil; reflexivity|].
  induction f as [|[a n] r IH]; [reflexivity|]. simpl fs_del.
  destruct (path_eqb a p) eqn:E.
  - rewrite IH. rewrite fs_get_cons by discriminate.
    destruct (path_eqb a (x :: q')) eqn:E2; [|reflexivity].
    apply path_eqb_true in E. apply path_eqb_true in E2. subst. exfalso. apply H. reflexivity.
  - rewrite !fs_get_cons by discriminate. rewrite IH. reflexivity.
Qed.
Lemma fs_get_put_other_l f p q n : p <> q -> fs_get (fs_put f p n) q = fs_get f q.
Proof.
  intros H. destruct q as [|x q']; [rewrite !fs_get_nil; reflexivity|].
  unfold fs_put. rewrite fs_get_cons by discriminate.
  destruct (path_eqb p (x :: q')) eqn:E; [apply path_eqb_true in E; contradiction|].
  apply fs_get_del_other_l. exact H.
Qed.

(* ---- the combined invariant: the log grows by events satisfying P, and a path that received no
   event keeps its node ---- *)
Definition tr (P : event -> Prop) (w w' : world) : Prop :=
  exists evs, w_log w' = w_log w ++ evs /\ Forall P evs /\
    forall p, (forall e, In e evs -> ev_path e <> Some p) -> fs_get (w_fs w') p = fs_get (w_fs w) p.

Lemma tr_refl P w : tr P w w.
Proof.
  exists []. split; [rewrite app_nil_r; reflexivity|]. split; [constructor|]. intros; reflexivity.
Qed.

Lemma tr_trans P w1 w2 w3 : tr P w1 w2 -> tr P w2 w3 -> tr P w1 w3.
Proof.
  intros (e1 & L1 & F1 & G1) (e2 & L2 & F2 & G2). exists (e1 ++ e2).
  split; [rewrite L2, L1, app_assoc; reflexivity|].
  split; [apply Forall_app; split; assumption|].
  intros p Hp. rewrite G2, G1; [reflexivity| |]; intros e He; apply Hp; apply in_or_app; auto.
Qed.

Lemma tr_mono (P Q : event -> Prop) w w' : (forall e, P e -> Q e) -> tr P w w' -> tr Q w w'.
Proof.
  intros HPQ (evs & L & F & G). exists evs. split; [exact L|]. split; [|exact G].
  eapply Forall_impl; [|exact F]. exact HPQ.
Qed.

Lemma tr_one (P : event -> Prop) w w' e :
  w_log w' = w_log w ++ [e] -> P e ->
  (forall p, ev_path e <> Some p -> fs_get (w_fs w') p = fs_get (w_fs w) p) ->
  tr P w w'.
Proof.
  intros L He G. exists [e]. split; [exact L|]. split; [constructor; [exact He|constructor]|].
  intros p Hp. apply G. apply Hp. left. reflexivity.
Qed.

(* the event of a successful create/write of the lexical path lp *)
Definition wr_ev (lp : lexpath) (e : event) : Prop :=
  exists rp n, lp = rp ++ [n] /\ is_normal n = true /\ e = EWrite (lex_normalize rp ++ [n]).

Lemma wr_ev_normalize lp e : wr_ev lp e -> e = EWrite (lex_normalize lp).
Proof.
  intros (rp & n & Hp & Hn & He). subst lp e. unfold lex_normalize.
  rewrite lex_normalize_from_last by exact Hn. reflexivity.
Qed.

Lemma wr_ev_canonical lp e :
  wr_ev lp e -> lex_normalize (removelast lp) = removelast lp -> e = EWrite lp.
Proof.
  intros (rp & n & Hp & Hn & He) H. subst lp e. rewrite removelast_last in H. rewrite H. reflexivity.
Qed.

Lemma w_write_tr w lp c w' : w_write w lp c = Some w' -> tr (wr_ev lp) w w'.
Proof.
  unfold w_write. destruct (write_target (w_fs w) lp) as [q|] eqn:E; [|discriminate].
  intros H. inversion H; subst w'; clear H.
  apply write_target_shape in E. destruct E as (rp & n & Hp & Hn & Hq).
  apply tr_one with (e := EWrite q); simpl.
  - reflexivity.
  - exists rp, n. subst q. auto.
  - intros p Hp'. apply fs_get_put_other_l. intros Heq. apply Hp'. subst. reflexivity.
Qed.

Lemma w_append_tr w q c w' : w_append w q c = Some w' -> tr (fun e => e = EWrite q) w w'.
Proof.
  unfold w_append. destruct (fs_get (w_fs w) q) as [[old|]|]; try discriminate.
  intros H. inversion H; subst w'; clear H.
  apply tr_one with (e := EWrite q); simpl; [reflexivity|reflexivity|].
  intros p Hp'. apply fs_get_put_other_l. intros Heq. apply Hp'. subst. reflexivity.
Qed.

Lemma w_remove_tr w q w' : w_remove_file w q = Some w' -> tr (fun e => e = ERemove q) w w'.
Proof.
  unfold w_remove_file. destruct (fs_get (w_fs w) q) as [[old|]|]; try discriminate.
  intros H. inversion H; subst w'; clear H.
  apply tr_one with (e := ERemove q); simpl; [reflexivity|reflexivity|].
  intros p Hp'. apply fs_get_del_other_l. intros Heq. apply Hp'. subst. reflexivity.
Qed.

Lemma w_emit_tr (P : event -> Prop) w e : ev_path e = None -> P e -> tr P w (w_emit w e).
Proof.
  intros Hn He. apply tr_one with (e := e); simpl; [reflexivity|exact He|reflexivity].
Qed.

(* ---- sinks ---- *)
(* events of sink_write / of sink_done on a sink *)
Definition skw_ev (k : sink) (e : event) : Prop :=
  match k with SBuild p => e = EWrite p | _ => False end.
Definition skd_ev (k : sink) (e : event) : Prop :=
  match k with SMem p _ => wr_ev p e | _ => False end.
Definition sink_le (k' k : sink) : Prop :=
  (forall e, skw_ev k' e -> skw_ev k e) /\ (forall e, skd_ev k' e -> skd_ev k e).

Lemma sink_le_refl k : sink_le k k.
Proof. split; auto. Qed.
Lemma sink_le_trans k1 k2 k3 : sink_le k1 k2 -> sink_le k2 k3 -> sink_le k1 k3.
Proof. intros [A B] [C D]. split; auto. Qed.

Lemma sink_write_tr k w c k' w' :
  sink_write k w c = inl (k', w') -> tr (skw_ev k) w w' /\ sink_le k' k.
Proof.
  destruct k as [p|p buf| |p rest]; simpl.
  - destruct (w_append w p c) as [w1|] eqn:E; [|discriminate].
    intros H. inversion H; subst. split; [|apply sink_le_refl].
    apply w_append_tr in E. exact E.
  - intros H. inversion H; subst. split; [apply tr_refl|]. split; simpl; auto.
  - intros H. inversion H; subst. split; [apply tr_refl|apply sink_le_refl].
  - destruct (Nat.ltb (length rest) (length c)); [discriminate|].
    destruct (str_eqb (firstn (length c) rest) c); [|discriminate].
    intros H. inversion H; subst. split; [apply tr_refl|]. split; simpl; auto.
Qed.

Lemma sink_done_tr k w w' : sink_done k w = inl w' -> tr (skd_ev k) w w'.
Proof.
  destruct k as [p|p buf| |p rest]; simpl.
  - intros H. inversion H; subst. apply tr_refl.
  - destruct (fs_get (w_fs w) p) as [[c|]|].
    + destruct (str_eqb c buf).
      * intros H. inversion H; subst. apply tr_refl.
      * destruct (w_write w p buf) as [w1|] eqn:E; [|discriminate].
        intros H. inversion H; subst. apply w_write_tr in E. exact E.
    + discriminate.
    + destruct (w_write w p buf) as [w1|] eqn:E; [|discriminate].
      intros H. inversion H; subst. apply w_write_tr in E. exact E.
  - intros H. inversion H; subst. apply tr_refl.
  - destruct rest; [|discriminate]. intros H. inversion H; subst. apply tr_refl.
Qed.

(* what the sink of mode md on the output path may log *)
Definition out_ev (md : mode) (out : path) (e : event) : Prop :=
  match md with
  | Build => wr_ev out e \/ e = EWrite out
  | InMemoryBuild => wr_ev out e
  | Clean => e = ERemove out
  | Verify => False
  end.

Lemma sink_new_tr md w out k w' :
  sink_new md w out = inl (k, w') ->
  tr (out_ev md out) w w' /\ (forall e, skw_ev k e -> out_ev md out e) /\ (forall e, skd_ev k e -> out_ev md out e).
Proof.
  destruct md; simpl.
  - destruct (w_write w out []) as [w1|] eqn:E; [|discriminate].
    intros H. inversion H; subst. apply w_write_tr in E.
    split; [eapply tr_mono; [|exact E]; intros e He; left; exact He|].
    split; simpl; [intros e He; right; exact He|intros e []].
  - intros H. inversion H; subst. split; [apply tr_refl|]. split; simpl; [intros e []|auto].
  - destruct (exists_ (w_fs w) out).
    + destruct (w_remove_file w out) as [w1|] eqn:E; [|discriminate].
      intros H. inversion H; subst. apply w_remove_tr in E.
      split; [exact E|].
      split; simpl; intros e [].
    + intros H. inversion H; subst. split; [apply tr_refl|]. split; simpl; intros e [].
  - destruct (fs_get (w_fs w) out) as [[c|]|]; try discriminate.
    intros H. inversion H; subst. split; [apply tr_refl|]. split; simpl; intros e [].
Qed.

(* ---- temp files ---- *)
Lemma write_temp_tr w lp c w' : write_temp w lp c = inl w' -> tr (fun e => e = EWrite (lex_normalize lp)) w w'.
Proof.
  unfold write_temp. destruct (os_resolve (w_fs w) lp) as [q|] eqn:R.
  - apply os_resolve_normalize in R.
    destruct (fs_get (w_fs w) q) as [[c0|]|]; try discriminate.
    destruct (str_eqb c0 c).
    + intros H. inversion H; subst. apply tr_refl.
    + destruct (w_write w q c) as [w1|] eqn:E; [|discriminate].
      intros H. inversion H; subst w1. apply w_write_tr in E.
      eapply tr_mono; [|exact E]. intros e He. apply wr_ev_normalize in He.
      subst q e. rewrite lex_normalize_idem. reflexivity.
  - destruct (w_write w lp []) as [w1|] eqn:E1; [|discriminate].
    apply w_write_tr in E1.
    assert (T1 : tr (fun e => e = EWrite (lex_normalize lp)) w w1).
    { eapply tr_mono; [|exact E1]. intros e He. apply wr_ev_normalize in He. exact He. }
    destruct c as [|b c'].
    + intros H. inversion H; subst. exact T1.
    + destruct (w_write w1 lp (b :: c')) as [w2|] eqn:E2; [|discriminate].
      intros H. inversion H; subst w2. apply w_write_tr in E2.
      eapply tr_trans; [exact T1|]. eapply tr_mono; [|exact E2].
      intros e He. apply wr_ev_normalize in He. exact He.
Qed.

Lemma remove_temp_tr w lp w' : remove_temp w lp = inl w' -> tr (fun e => e = ERemove (lex_normalize lp)) w w'.
Proof.
  unfold remove_temp. destruct (os_resolve (w_fs w) lp) as [q|] eqn:R.
  - apply os_resolve_normalize in R. subst q.
    destruct (w_remove_file w (lex_normalize lp)) as [w1|] eqn:E; [|discriminate].
    intros H. inversion H; subst. apply w_remove_tr. exact E.
  - intros H. inversion H; subst. apply tr_refl.
Qed.

(* ---- directives ---- *)
(* the temp target a directive names, and the events executing it may log *)
Definition temp_path (src : path) (d : directive) : option path :=
  match d_ty d, d_args d with
  | DTemp, a :: _ => Some (lex_normalize (lex_join (parent src) a))
  | _, _ => None
  end.
Definition dir_ev (md : mode) (src : path) (d : directive) (e : event) : Prop :=
  match e with
  | ERun _ _ _ => md <> Clean
  | EWrite p => md <> Clean /\ temp_path src d = Some p
  | ERemove p => md = Clean /\ temp_path src d = Some p
  end.

Lemma exec_temp_tr src le args is_clean w w' :
  exec_temp src le args is_clean w = inl w' ->
  exists a rest, args = a :: rest /\
    tr (fun e => e = (if is_clean then ERemove else EWrite) (lex_normalize (lex_join (parent src) a))) w w'.
Proof.
  unfold exec_temp. destruct args as [|a rest]; [discriminate|].
  destruct (is_txtpp_file (lex_components a)); [discriminate|].
  intros H. exists a, rest. split; [reflexivity|].
  destruct is_clean.
  - apply remove_temp_tr in H. exact H.
  - apply write_temp_tr in H. exact H.
Qed.

Lemma collect_deps_inv src d s r :
  collect_deps src d s = inl r ->
  let s' := match r with inl x => x | inr x => x end in
  wld s' = wld s /\ snk s' = snk s /\ cur s' = cur s.
Proof.
  unfold collect_deps. intros H.
  destruct (pmode s); [inversion H; subst; simpl; auto| |];
  destruct (d_ty d);
  repeat match type of H with
         | context [match ?x with _ => _ end] => destruct x
         end; try discriminate; inversion H; subst; simpl; auto.
Qed.

Lemma exec_directive_tr orc md src base le (P : event -> Prop) d s :
  (forall e, dir_ev md src d e -> P e) ->
  match exec_directive orc md src base le d s with
  | XOut o s' => tr P (wld s) (wld s') /\ snk s' = snk s /\ cur s' = cur s
  | XErr k w => tr P (wld s) w
  end.
Proof.
  intros HP.
  assert (Hclean : md = Clean \/ (md <> Clean /\
            exec_directive orc md src base le d s = exec_directive orc Build src base le d s)).
  { destruct md; auto; right; split; try discriminate; reflexivity. }
  destruct Hclean as [->|[Hnc ->]].
  - unfold exec_directive. destruct (d_ty d) eqn:Ety; try (split; [apply tr_refl|auto]).
    destruct (exec_temp src le (d_args d) true (wld s)) as [w'|k] eqn:ET;
      [|split; [apply tr_refl|auto]].
    apply exec_temp_tr in ET. destruct ET as (a & rest & Ha & T). simpl.
    split; [|auto]. eapply tr_mono; [|exact T]. intros e He. cbv beta in He. subst e. apply HP. simpl.
    split; [reflexivity|]. unfold temp_path. rewrite Ety, Ha. reflexivity.
  - unfold exec_directive.
    destruct (collect_deps src d s) as [[s1|s1]|k] eqn:EC; [| |apply tr_refl];
      apply collect_deps_inv in EC; simpl in EC; destruct EC as (A & B & C).
    + rewrite A. split; [apply tr_refl|auto].
    + destruct (d_ty d) eqn:Ety.
      * rewrite A. split; [apply tr_refl|auto].
      * destruct (os_resolve (w_fs (wld s1)) (lex_join (work_dir src) (hd [] (d_args d)))) as [q|];
          [|rewrite A; apply tr_refl].
        destruct (read_file (w_fs (wld s1)) q) as [c|]; [|rewrite A; apply tr_refl].
        destruct (utf8_valid c); [|rewrite A; apply tr_refl].
        rewrite A. split; [apply tr_refl|auto].
      * rewrite A. split; [apply tr_refl|auto].
      * assert (T : tr P (wld s)
                  (w_emit (wld s1) (ERun (join [SPb] (d_args d)) (work_dir src) (input_display src base)))).
        { rewrite A. apply w_emit_tr; [reflexivity|]. apply HP. simpl. exact Hnc. }
        destruct (orc (join [SPb] (d_args d)) (work_dir src) (input_display src base)); [|exact T].
        simpl. split; [exact T|auto].
      * destruct (create (tg s1) (hd [] (d_args d))); [|rewrite A; apply tr_refl].
        simpl. rewrite A. split; [apply tr_refl|auto].
      * destruct (exec_temp src le (d_args d) false (wld s1)) as [w'|k] eqn:ET;
          [|rewrite A; apply tr_refl].
        apply exec_temp_tr in ET. destruct ET as (a & rest & Ha & T). simpl.
        split; [|auto]. rewrite <- A. eapply tr_mono; [|exact T]. intros e He. cbv beta in He. subst e. apply HP. simpl.
        split; [exact Hnc|]. unfold temp_path. rewrite Ety, Ha. reflexivity.
      * rewrite A. split; [apply tr_refl|auto].
Qed.

(* the shape of the facts carried along a run: the world moved from w0 by P-events, the sink only
   shrank below k0, the current directive is c0 *)
Definition ok_res (P : event -> Prop) (w0 : world) (k0 : sink) (c0 : option directive) (r : step_res) : Prop :=
  match r with
  | StOk s' => tr P w0 (wld s') /\ sink_le (snk s') k0 /\ cur s' = c0
  | StErr _ w => tr P w0 w
  | StPanic => True
  end.

Lemma emit_chain le (P : event -> Prop) w0 k0 s o ht :
  (forall e, skw_ev k0 e -> P e) ->
  tr P w0 (wld s) -> sink_le (snk s) k0 ->
  ok_res P w0 k0 (cur s) (emit le s o ht).
Proof.
  intros HP T0 L0. unfold emit.
  assert (Hs : ok_res P w0 k0 (cur s) (StOk s)) by (simpl; auto).
  destruct (is_execute (pmode s)); [|exact Hs].
  destruct o as [x|]; [|exact Hs].
  assert (step : forall k w c k' w', sink_le k k0 -> tr P w0 w -> sink_write k w c = inl (k', w') ->
                 tr P w0 w' /\ sink_le k' k0).
  { intros k w c k' w' L T E. apply sink_write_tr in E. destruct E as [T1 L1]. split.
    - eapply tr_trans; [exact T|]. eapply tr_mono; [|exact T1]. intros e He. apply HP. apply L. exact He.
    - eapply sink_le_trans; eauto. }
  assert (X : match (if flag s then sink_write (snk s) (wld s) le else inl (snk s, wld s)) with
              | inl (k1, w1) => tr P w0 w1 /\ sink_le k1 k0
              | inr _ => True end).
  { destruct (flag s); [|auto].
    destruct (sink_write (snk s) (wld s) le) as [[k1 w1]|k] eqn:E1; [|exact I].
    eapply step; eauto. }
  destruct (if flag s then sink_write (snk s) (wld s) le else inl (snk s, wld s)) as [[k1 w1]|k];
    [|exact T0].
  destruct X as [T1 L1].
  destruct (sink_write k1 w1 x) as [[k2 w2]|k] eqn:E2; [|exact T1].
  destruct (step _ _ _ _ _ L1 T1 E2) as [T2 L2]. simpl. auto.
Qed.

Lemma run_directive_chain orc md src base le (P : event -> Prop) w0 k0 d ht s :
  (forall e, skw_ev k0 e -> P e) -> (forall e, dir_ev md src d e -> P e) ->
  tr P w0 (wld s) -> sink_le (snk s) k0 ->
  ok_res P w0 k0 (cur s) (run_directive orc md src base le d ht s).
Proof.
  intros Hk Hd T0 L0. unfold run_directive.
  pose proof (exec_directive_tr orc md src base le P d s Hd) as X.
  destruct (exec_directive orc md src base le d s) as [o s1|k w];
    [|simpl; eapply tr_trans; eauto].
  destruct X as (T & S & C).
  assert (T1 : tr P w0 (wld s1)) by (eapply tr_trans; eauto).
  assert (L1 : sink_le (snk s1) k0) by (rewrite S; exact L0).
  rewrite <- C.
  destruct o as [raw|]; [|apply emit_chain; assumption].
  destruct (try_store (tg s1) raw) as [t'|]; [|apply emit_chain; assumption].
  apply (emit_chain le P w0 k0 (set_tg s1 t')); assumption.
Qed.

(* ---- items (Spec.v) ---- *)
Lemma item_output_tr orc md src base le (P : event -> Prop) it s :
  (forall d fol e, it = IDir d fol -> dir_ev md src d e -> P e) ->
  match item_output orc md src base le it s with
  | IOut o s' => tr P (wld s) (wld s') /\ snk s' = snk s /\ cur s' = cur s
  | IErr k w => tr P (wld s) w
  | IPanic => True
  end.
Proof.
  intros HP. destruct it as [l|d fol| |]; simpl.
  - destruct (is_execute (pmode s)); [|split; [apply tr_refl|auto]].
    destruct (inject (tg s) l le) as [[l' t']|]; [|exact I].
    simpl. split; [apply tr_refl|auto].
  - pose proof (exec_directive_tr orc md src base le P d s (fun e => HP d fol e eq_refl)) as X.
    destruct (exec_directive orc md src base le d s) as [o s1|k w]; [|exact X].
    destruct o as [raw|]; [|exact X].
    destruct (try_store (tg s1) raw) as [t'|]; [|exact X]. simpl. exact X.
  - apply tr_refl.
  - exact I.
Qed.

Lemma run_items_chain orc md src base le (P : event -> Prop) w0 k0 its : forall s,
  (forall e, skw_ev k0 e -> P e) ->
  (forall d fol e, In (IDir d fol) its -> dir_ev md src d e -> P e) ->
  tr P w0 (wld s) -> sink_le (snk s) k0 ->
  ok_res P w0 k0 (cur s) (fst (run_items orc md src base le its s)).
Proof.
  induction its as [|it r IH]; intros s Hk Hd T0 L0.
  - simpl. auto.
  - simpl.
    pose proof (item_output_tr orc md src base le P it s) as X.
    destruct (item_output orc md src base le it s) as [o s1|k w|].
    + destruct X as (T & S & C).
      { intros d fol e Hit. apply (Hd d fol e). left. exact Hit. }
      assert (T1 : tr P w0 (wld s1)) by (eapply tr_trans; eauto).
      assert (L1 : sink_le (snk s1) k0) by (rewrite S; exact L0).
      pose proof (emit_chain le P w0 k0 s1 o (item_tail it) Hk T1 L1) as Y.
      destruct (emit le s1 o (item_tail it)) as [s2|k w|]; simpl; try exact Y.
      destruct Y as (T2 & L2 & C2).
      specialize (IH s2 Hk (fun d fol e Hin => Hd d fol e (or_intror Hin)) T2 L2).
      destruct (run_items orc md src base le r s2) as [res cs]. simpl in *.
      rewrite <- C, <- C2. exact IH.
    + simpl. eapply tr_trans; [exact T0|]. apply X.
      intros d fol e Hit. apply (Hd d fol e). left. exact Hit.
    + simpl. exact I.
Qed.

Lemma temp_path_in_temp_args src d fol its p :
  In (IDir d fol) its -> temp_path src d = Some p ->
  In p (map (fun a => lex_normalize (lex_join (parent src) a)) (temp_args its)).
Proof.
  unfold temp_path. induction its as [|it r IH]; intros Hin Hp; [destruct Hin|].
  destruct Hin as [->|Hin].
  - simpl. destruct (d_ty d); try discriminate. destruct (d_args d) as [|a rest]; [discriminate|].
    inversion Hp; subst. simpl. left. reflexivity.
  - specialize (IH Hin Hp). destruct it as [l|d' fol'| |]; simpl; try exact IH.
    destruct (d_ty d'); try exact IH. destruct (d_args d') as [|a rest]; [exact IH|].
    simpl. right. exact IH.
Qed.

Lemma dir_ev_allowed md src out d fol its e :
  In (IDir d fol) its -> dir_ev md src d e -> ev_allowed (allowed_paths src out its) e.
Proof.
  intros Hin He. unfold ev_allowed, allowed_paths.
  destruct e as [p|p|c cw f]; simpl in *; [| |exact I]; destruct He as [_ He]; right;
    eapply temp_path_in_temp_args; eauto.
Qed.

Lemma tr_extends (P : event -> Prop) w w' : tr P w w' -> exists evs, extends w w' evs /\ Forall P evs.
Proof. intros (evs & L & F & _). exists evs. split; assumption. Qed.


(* ---- the machine (Pp.v) ---- *)
Lemma parse_None_cons clean l r :
  parse clean None (l :: r) =
  match detect_from l with
  | Some d => if needs_prefix_err d
              then (if clean then IText [] :: parse clean None r else [IBad])
              else parse clean (Some d) r
  | None => IText l :: parse clean None r
  end.
Proof. reflexivity. Qed.

Lemma parse_Some_cons clean d l r :
  parse clean (Some d) (l :: r) =
  match add_line d l with
  | AddOk d' => parse clean (Some d') r
  | AddStop => IDir d true :: parse clean None (l :: r)
  | AddPanic => [ISlicePanic]
  end.
Proof. reflexivity. Qed.

Definition as_text_def (le : str) (s : pst) (l : str) : step_res :=
  if is_execute (pmode s) then
    match inject (tg s) l le with
    | None => StPanic
    | Some (l', t') => emit le (set_tg s t') (Some l') false
    end
  else emit le s (Some l) false.

Lemma step_fresh_eq md le l s :
  step_fresh md le l s =
  match detect_from l with
  | Some d =>
    if needs_prefix_err d then
      match md with
      | Clean => as_text_def le s []
      | _ => StErr KDirective (wld s)
      end
    else StOk (set_cur s (Some d))
  | None => as_text_def le s l
  end.
Proof. reflexivity. Qed.

Lemma as_text_chain le (P : event -> Prop) w0 k0 s l0 :
  (forall e, skw_ev k0 e -> P e) -> tr P w0 (wld s) -> sink_le (snk s) k0 ->
  ok_res P w0 k0 (cur s) (as_text_def le s l0).
Proof.
  intros Hk T0 L0. unfold as_text_def.
  destruct (is_execute (pmode s)); [|apply emit_chain; assumption].
  destruct (inject (tg s) l0 le) as [[l' t']|]; [|exact I].
  apply (emit_chain le P w0 k0 (set_tg s t')); assumption.
Qed.

Lemma step_fresh_chain md le (P : event -> Prop) w0 k0 l r s :
  (forall e, skw_ev k0 e -> P e) -> tr P w0 (wld s) -> sink_le (snk s) k0 -> cur s = None ->
  match step_fresh md le l s with
  | StOk s' => tr P w0 (wld s') /\ sink_le (snk s') k0 /\
               (forall it, In it (parse (mode_eqb md Clean) (cur s') r) ->
                           In it (parse (mode_eqb md Clean) None (l :: r)))
  | StErr _ w => tr P w0 w
  | StPanic => True
  end.
Proof.
  intros Hk T0 L0 C0. rewrite parse_None_cons, step_fresh_eq.
  destruct (detect_from l) as [d|].
  - destruct (needs_prefix_err d).
    + destruct md; simpl mode_eqb; try exact T0.
      pose proof (as_text_chain le P w0 k0 s [] Hk T0 L0) as X.
      destruct (as_text_def le s []) as [s'|k w|]; simpl in X; [|exact X|exact I].
      destruct X as (T & L & C). split; [exact T|]. split; [exact L|].
      intros it Hin. rewrite C, C0 in Hin. right. exact Hin.
    + simpl. split; [exact T0|]. split; [exact L0|]. auto.
  - pose proof (as_text_chain le P w0 k0 s l Hk T0 L0) as X.
    destruct (as_text_def le s l) as [s'|k w|]; simpl in X; [|exact X|exact I].
    destruct X as (T & L & C). split; [exact T|]. split; [exact L|].
    intros it Hin. rewrite C, C0 in Hin. right. exact Hin.
Qed.

Lemma run_lines_chain orc md src base le (P : event -> Prop) w0 k0 ls : forall s,
  (forall e, skw_ev k0 e -> P e) ->
  (forall d fol e, In (IDir d fol) (parse (mode_eqb md Clean) (cur s) ls) -> dir_ev md src d e -> P e) ->
  tr P w0 (wld s) -> sink_le (snk s) k0 ->
  match run_lines orc md src base le ls s with
  | StOk s' => tr P w0 (wld s') /\ sink_le (snk s') k0 /\
               (forall d e, cur s' = Some d -> dir_ev md src d e -> P e)
  | StErr _ w => tr P w0 w
  | StPanic => True
  end.
Proof.
  induction ls as [|l r IH]; intros s Hk Hd T0 L0.
  - simpl. split; [exact T0|]. split; [exact L0|].
    intros d e Hc. apply (Hd d false). rewrite Hc. simpl. left. reflexivity.
  - simpl run_lines. unfold step_line. destruct (cur s) as [d|] eqn:C0.
    + rewrite parse_Some_cons in Hd. destruct (add_line d l) as [d'| |].
      * apply IH; simpl; auto.
      * pose proof (run_directive_chain orc md src base le P w0 k0 d true (set_cur s None) Hk
                      (fun e => Hd d true e (or_introl eq_refl)) T0 L0) as X.
        destruct (run_directive orc md src base le d true (set_cur s None)) as [s1|k w|];
          simpl in X; [|exact X|exact I].
        destruct X as (T1 & L1 & C1).
        pose proof (step_fresh_chain md le P w0 k0 l r s1 Hk T1 L1 C1) as Y.
        destruct (step_fresh md le l s1) as [s2|k w|]; [|exact Y|exact I].
        destruct Y as (T2 & L2 & Sub). apply IH; auto.
        intros d2 fol e Hin. apply (Hd d2 fol). right. apply Sub. exact Hin.
      * exact I.
    + pose proof (step_fresh_chain md le P w0 k0 l r s Hk T0 L0 C0) as Y.
      destruct (step_fresh md le l s) as [s2|k w|]; [|exact Y|exact I].
      destruct Y as (T2 & L2 & Sub). apply IH; auto.
      intros d2 fol e Hin. apply (Hd d2 fol). apply Sub. exact Hin.
Qed.

(* the world an outcome carries *)
Definition outcome_world (o : pp_outcome) : option world :=
  match o with PpOk w => Some w | PpHasDeps _ w => Some w | PpErr _ w => Some w | PpPanic => None end.

Lemma outcome_world_disj o w' :
  (o = PpOk w' \/ (exists d, o = PpHasDeps d w') \/ (exists k, o = PpErr k w')) ->
  outcome_world o = Some w'.
Proof. intros [->|[[d ->]|[k ->]]]; reflexivity. Qed.

Lemma epilogue_tail_chain md le (P : event -> Prop) w0 k0 tn s1 :
  (forall e, skw_ev k0 e -> P e) -> (forall e, skd_ev k0 e -> P e) ->
  tr P w0 (wld s1) -> sink_le (snk s1) k0 ->
  match outcome_world
          (if has_tags (tg s1) && negb (mode_eqb md Clean) then PpErr KDirective (wld s1)
           else
             let r := if flag s1 && tn then sink_write (snk s1) (wld s1) le
                      else inl (snk s1, wld s1) in
             match r with
             | inr k => PpErr k (wld s1)
             | inl (k1, w1) =>
               match sink_done k1 w1 with
               | inl w2 => PpOk w2
               | inr k => PpErr k w1
               end
             end) with
  | Some w' => tr P w0 w'
  | None => True
  end.
Proof.
  intros Hk Hkd T1 L1.
  destruct (has_tags (tg s1) && negb (mode_eqb md Clean)); [exact T1|]. cbv zeta.
  assert (X : match (if flag s1 && tn then sink_write (snk s1) (wld s1) le else inl (snk s1, wld s1)) with
              | inl (k1, w1) => tr P w0 w1 /\ sink_le k1 k0
              | inr _ => True end).
  { destruct (flag s1 && tn); [|auto].
    destruct (sink_write (snk s1) (wld s1) le) as [[k1 w1]|k] eqn:E1; [|exact I].
    apply sink_write_tr in E1. destruct E1 as [Ta La]. split.
    - eapply tr_trans; [exact T1|]. eapply tr_mono; [|exact Ta]. intros e He. apply Hk. apply L1. exact He.
    - eapply sink_le_trans; eauto. }
  destruct (if flag s1 && tn then sink_write (snk s1) (wld s1) le else inl (snk s1, wld s1))
    as [[k1 w1]|k]; [|exact T1].
  destruct X as [T2 L2].
  destruct (sink_done k1 w1) as [w2|k] eqn:E; simpl; [|exact T2].
  apply sink_done_tr in E. eapply tr_trans; [exact T2|]. eapply tr_mono; [|exact E].
  intros e He. apply Hkd. apply L2. exact He.
Qed.

Lemma finish_chain orc md src base le (P : event -> Prop) w0 k0 tn s :
  (forall e, skw_ev k0 e -> P e) -> (forall e, skd_ev k0 e -> P e) ->
  (forall d e, cur s = Some d -> dir_ev md src d e -> P e) ->
  tr P w0 (wld s) -> sink_le (snk s) k0 ->
  match outcome_world (finish orc md src base le tn s) with Some w' => tr P w0 w' | None => True end.
Proof.
  intros Hk Hkd Hd T0 L0. unfold finish.
  assert (X : ok_res P w0 k0 None
                (match cur s with
                 | Some d => run_directive orc md src base le d false (set_cur s None)
                 | None => StOk s end)).
  { destruct (cur s) as [d|] eqn:C0.
    - apply (run_directive_chain orc md src base le P w0 k0 d false (set_cur s None)); auto.
      intros e. apply (Hd d e eq_refl).
    - simpl. auto. }
  destruct (match cur s with
            | Some d => run_directive orc md src base le d false (set_cur s None)
            | None => StOk s end) as [s1|k w|]; simpl in X; [|exact X|exact I].
  destruct X as (T1 & L1 & _).
  destruct (pmode s1);
    [apply (epilogue_tail_chain md le P w0 k0 tn s1); assumption
    |apply (epilogue_tail_chain md le P w0 k0 tn s1); assumption
    |exact T1].
Qed.

(* the generic statement about one pass: all four theorems below are instances *)
Lemma pp_run_tr orc md base src first tn w (P : event -> Prop) :
  (forall out e, remove_txtpp src = Some out -> out_ev md out e -> P e) ->
  (forall raw d fol e, read_file (w_fs w) src = Some raw ->
     In (IDir d fol) (parse (mode_eqb md Clean) None (fst (take_valid (lines raw)))) ->
     dir_ev md src d e -> P e) ->
  match outcome_world (pp_run orc md base src first tn w) with Some w' => tr P w w' | None => True end.
Proof.
  intros Hout Hdir. unfold pp_run.
  destruct (read_file (w_fs w) src) as [raw|] eqn:ER; [|apply tr_refl].
  destruct (remove_txtpp src) as [out|] eqn:EO; [|apply tr_refl].
  destruct (is_txtpp_file out); [apply tr_refl|].
  destruct (sink_new md w out) as [[k0 w0]|k] eqn:EN; [|apply tr_refl].
  apply sink_new_tr in EN. destruct EN as (T0 & Kw & Kd).
  specialize (Hdir raw). destruct (take_valid (lines raw)) as [ls bad]. simpl fst in Hdir.
  assert (Hk : forall e, skw_ev k0 e -> P e) by (intros e He; apply (Hout out e eq_refl); auto).
  assert (Hkd : forall e, skd_ev k0 e -> P e) by (intros e He; apply (Hout out e eq_refl); auto).
  assert (T0' : tr P w w0) by (eapply tr_mono; [|exact T0]; intros e He; apply (Hout out e eq_refl He)).
  pose proof (run_lines_chain orc md src base (detect_le raw) P w k0 ls
                (mkP None false (if first then PFirst else PExec) tags_new k0 w0) Hk
                (fun d fol e Hin He => Hdir d fol e eq_refl Hin He) T0' (sink_le_refl k0)) as X.
  destruct (run_lines orc md src base (detect_le raw) ls
              (mkP None false (if first then PFirst else PExec) tags_new k0 w0)) as [s1|k w1|];
    [|exact X|exact I].
  destruct X as (T1 & L1 & Hc).
  destruct bad; [exact T1|].
  apply (finish_chain orc md src base (detect_le raw) P w k0 tn s1); assumption.
Qed.

Lemma skipn_app_exact {A} (l r : list A) : skipn (length l) (l ++ r) = r.
Proof. induction l as [|a l IH]; simpl; [reflexivity|exact IH]. Qed.

Lemma lex_set_extension_parent p e : removelast (lex_set_extension p e) = removelast p.
Proof.
  unfold lex_set_extension. destruct (rev p) as [|n r] eqn:E; [reflexivity|].
  destruct (is_normal n); [|reflexivity].
  apply rev_cons_eq in E. rewrite E. rewrite !removelast_last. reflexivity.
Qed.

(* the output is beside the source, PROVIDED the source's file name does not begin with two dots.
   (Without the proviso this fails: for the name `...txtpp.a` the intermediate path ends in `..`, the
   extension is then appended as a NEW component and out = parent src ++ [".."; ".a"].) *)
Definition no_dotdot_prefix (src : lexpath) : Prop := forall d r, src <> d ++ [DOT :: DOT :: r].

Lemma split_ext_prefix n : exists t, n = fst (split_ext n) ++ t.
Proof.
  unfold split_ext. destruct (str_eqb n dotdot); [exists []; simpl; rewrite app_nil_r; reflexivity|].
  destruct (last_dot n 0%nat None) as [[|i]|]; cbn [fst].
  - exists []. rewrite app_nil_r. reflexivity.
  - exists (skipn (S i) n). symmetry. apply firstn_skipn.
  - exists []. rewrite app_nil_r. reflexivity.
Qed.

Lemma lex_set_extension_nil_shape (d : list str) (n : str) :
  is_normal n = true -> lex_set_extension (d ++ [n]) [] = d ++ [fst (split_ext n)].
Proof.
  intros Hn. unfold lex_set_extension. rewrite rev_app_distr. simpl. rewrite Hn.
  rewrite rev_involutive. reflexivity.
Qed.

Lemma lex_extension_some p e :
  lex_extension p = Some e -> exists d n, p = d ++ [n] /\ is_normal n = true.
Proof.
  unfold lex_extension. destruct (rev p) as [|n r] eqn:E; [discriminate|].
  destruct (is_normal n) eqn:Hn; [|discriminate]. intros _.
  exists (rev r), n. split; [apply rev_cons_eq; exact E|exact Hn].
Qed.

Lemma lex_append_ext_parent (d : list str) (n : str) e :
  is_normal n = true -> removelast (lex_append_ext (d ++ [n]) e) = d.
Proof.
  intros Hn. unfold lex_append_ext. rewrite rev_app_distr. simpl. rewrite Hn.
  rewrite rev_involutive. apply removelast_last.
Qed.

Lemma remove_txtpp_parent src out :
  no_dotdot_prefix src -> remove_txtpp src = Some out -> parent out = parent src.
Proof.
  intros Hnd. unfold remove_txtpp, parent. destruct (negb (is_txtpp_file src)); [discriminate|].
  cbv zeta.
  destruct (lex_extension (lex_set_extension src [])) as [e|] eqn:E1;
    [destruct (str_eqb e TXTPP_EXT)|];
    try (destruct (stem_ok (lex_set_extension src [])) eqn:Hok; [|discriminate];
         intros H; inversion H; rewrite ?lex_set_extension_parent; reflexivity).
  destruct (negb (stem_ok (lex_set_extension (lex_set_extension src []) []))); [discriminate|].
  destruct (lex_extension src) as [se|] eqn:E0; [|discriminate].
  destruct (lex_extension_some _ _ E0) as (d & n & Hsrc & Hn). subst src. unfold name in *.
  rewrite (lex_set_extension_nil_shape d n Hn) in *.
  destruct (lex_extension_some _ _ E1) as (d1 & n1 & Heq & Hn1).
  apply app_inj_tail in Heq. destruct Heq as [<- <-].
  rewrite (lex_set_extension_nil_shape d _ Hn1).
  assert (Hn2 : is_normal (fst (split_ext (fst (split_ext n)))) = true).
  { destruct (is_normal (fst (split_ext (fst (split_ext n))))) eqn:Hs; [reflexivity|exfalso].
    unfold is_normal in Hs. apply Bool.negb_false_iff in Hs. apply str_eqb_true in Hs.
    destruct (split_ext_prefix n) as [t1 H1].
    destruct (split_ext_prefix (fst (split_ext n))) as [t2 H2].
    rewrite Hs in H2. apply (Hnd d (t2 ++ t1)). f_equal. f_equal.
    rewrite H1 at 1. rewrite H2. reflexivity. }
  rewrite removelast_last.
  destruct se as [|b se']; intros H; inversion H.
  - apply removelast_last.
  - apply lex_append_ext_parent. exact Hn2.
Qed.

Section Facts.
Variable orc : oracle.
Variable md : mode.
Variable src base : path.
Variable le : str.

(* the sink of a pass over src writes only to `out` *)
Definition sink_on (out : path) (k : sink) : Prop :=
  match k with SBuild p => p = out | SMem p _ => p = out | SClean => True | SVerify p _ => p = out end.

(* C10: every event of running the items is on an allowed path *)
Theorem run_items_events its s out res cs :
  sink_on out (snk s) ->
  run_items orc md src base le its s = (res, cs) ->
  let w' := match res with StOk s' => Some (wld s') | StErr _ w => Some w | StPanic => None end in
  forall w, w' = Some w ->
  exists evs, extends (wld s) w evs /\ Forall (ev_allowed (allowed_paths src out its)) evs.
Proof.
  intros Hon Hrun w' w Hw. subst w'.
  pose proof (run_items_chain orc md src base le (ev_allowed (allowed_paths src out its))
                (wld s) (snk s) its s) as X.
  rewrite Hrun in X. simpl in X.
  assert (Y : ok_res (ev_allowed (allowed_paths src out its)) (wld s) (snk s) (cur s) res).
  { apply X.
    - intros e He. destruct (snk s) as [p|p buf| |p rest]; simpl in He; try contradiction.
      simpl in Hon. subst. unfold ev_allowed. simpl. left. reflexivity.
    - intros d fol e Hin He. eapply dir_ev_allowed; eauto.
    - apply tr_refl.
    - apply sink_le_refl. }
  apply tr_extends.
  destruct res as [s'|k w1|]; simpl in Y; inversion Hw; subst.
  - apply Y.
  - exact Y.
Qed.

(* the same for a whole pass: whatever the outcome (success, dependencies found, error) *)
(* FALSE: as stated (without an assumption on src) the theorem does not hold: `out` is obtained from
   `src` lexically (only the last component changes), but File::create on `out` lands on the OS-resolved
   path, which differs from `out` when the directory part of src contains `..` (the model's `path` type
   does not exclude it).  Counterexample (Build and InMemoryBuild):
     src := [".."; "a.txtpp"] = [[46;46]; [97;46;116;120;116;112;112]],
     w   := mkW [(src, File [])] [],  orc := fun _ _ _ => None, base := [], first := false, tn := true.
   Then remove_txtpp src = Some [[46;46];[97]] = out, its = [], so allowed_paths src out its = [out], but
     pp_run orc Build [] src false true w = PpOk {| w_fs := [([[97]], File []); (src, File [])];
                                                    w_log := [EWrite [[97]]] |}
   (checked with Eval vm_compute) and EWrite [[97]] is not on an allowed path.
Theorem pp_run_events first tn w out :
  remove_txtpp src = Some out ->
  let its := match read_file (w_fs w) src with
             | Some raw => parse (mode_eqb md Clean) None (fst (take_valid (lines raw)))
             | None => [] end in
  forall w', (pp_run orc md base src first tn w = PpOk w' \/
              (exists d, pp_run orc md base src first tn w = PpHasDeps d w') \/
              (exists k, pp_run orc md base src first tn w = PpErr k w')) ->
  exists evs, extends w w' evs /\ Forall (ev_allowed (allowed_paths src out its)) evs.
*)
(* the statement holds as soon as the directory of the OUTPUT is canonical (no `..` component; by
   lex_normalize_normal this follows from `all_normal (parent out)`).
   NOTE (statement changed with the new remove_txtpp): the earlier hypothesis
   `lex_normalize (parent src) = parent src` is no longer sufficient, because `parent out` may differ from
   `parent src`.  Counterexample (Build and InMemoryBuild, checked with Eval vm_compute):
     src := ["...txtpp.a"] = [[46;46;46;116;120;116;112;112;46;97]], w := mkW [(src, File [])] [],
     remove_txtpp src = Some [[46;46];[46;97]] = out (= [".."; ".a"]), parent src = [] is canonical, its = [],
     pp_run orc Build [] src false true w = PpOk {| ...; w_log := [EWrite [[46;97]]] |},
   and EWrite [".a"] is not on an allowed path ([out]). *)
Theorem pp_run_events_weaker first tn w out :
  lex_normalize (parent out) = parent out ->
  remove_txtpp src = Some out ->
  let its := match read_file (w_fs w) src with
             | Some raw => parse (mode_eqb md Clean) None (fst (take_valid (lines raw)))
             | None => [] end in
  forall w', (pp_run orc md base src first tn w = PpOk w' \/
              (exists d, pp_run orc md base src first tn w = PpHasDeps d w') \/
              (exists k, pp_run orc md base src first tn w = PpErr k w')) ->
  exists evs, extends w w' evs /\ Forall (ev_allowed (allowed_paths src out its)) evs.
Proof.
  intros Hcan Hout its w' Hres. apply outcome_world_disj in Hres.
  pose proof (pp_run_tr orc md base src first tn w (ev_allowed (allowed_paths src out its))) as X.
  rewrite Hres in X. apply tr_extends. apply X.
  - intros out' e Ho He. rewrite Hout in Ho. inversion Ho; subst out'.
    assert (Hw : wr_ev out e -> e = EWrite out).
    { intros Hwr. apply wr_ev_canonical; [exact Hwr|].
      exact Hcan. }
    assert (Ha : forall p, ev_path e = Some p -> p = out -> ev_allowed (allowed_paths src out its) e).
    { intros p Hp ->. unfold ev_allowed. rewrite Hp. left. reflexivity. }
    destruct md; simpl in He.
    + destruct He as [He|He]; [apply Hw in He|]; subst e; eapply Ha; reflexivity.
    + apply Hw in He. subst e. eapply Ha; reflexivity.
    + subst e. eapply Ha; reflexivity.
    + destruct He.
  - intros raw d fol e ER Hin He. subst its. rewrite ER. eapply dir_ev_allowed; eauto.
Qed.

(* in particular for a canonical source path (no `..` component) whose output is beside it.
   NOTE (statement changed with the new remove_txtpp): the side condition `parent out = parent src` is new;
   `all_normal src` alone is refuted by the counterexample above. *)
Corollary pp_run_events_canonical first tn w out :
  all_normal src ->
  parent out = parent src ->
  remove_txtpp src = Some out ->
  let its := match read_file (w_fs w) src with
             | Some raw => parse (mode_eqb md Clean) None (fst (take_valid (lines raw)))
             | None => [] end in
  forall w', (pp_run orc md base src first tn w = PpOk w' \/
              (exists d, pp_run orc md base src first tn w = PpHasDeps d w') \/
              (exists k, pp_run orc md base src first tn w = PpErr k w')) ->
  exists evs, extends w w' evs /\ Forall (ev_allowed (allowed_paths src out its)) evs.
Proof.
  intros Hn Hp. apply pp_run_events_weaker. rewrite Hp. apply lex_normalize_normal.
  unfold parent. apply all_normal_removelast. exact Hn.
Qed.

(* the same with conditions on the SOURCE only: canonical, and its file name does not begin with `..`
   (every ordinary name qualifies) *)
Corollary pp_run_events_canonical_src first tn w out :
  all_normal src ->
  no_dotdot_prefix src ->
  remove_txtpp src = Some out ->
  let its := match read_file (w_fs w) src with
             | Some raw => parse (mode_eqb md Clean) None (fst (take_valid (lines raw)))
             | None => [] end in
  forall w', (pp_run orc md base src first tn w = PpOk w' \/
              (exists d, pp_run orc md base src first tn w = PpHasDeps d w') \/
              (exists k, pp_run orc md base src first tn w = PpErr k w')) ->
  exists evs, extends w w' evs /\ Forall (ev_allowed (allowed_paths src out its)) evs.
Proof.
  intros Hn Hnd Hout. apply pp_run_events_canonical; [exact Hn| |exact Hout].
  apply remove_txtpp_parent; assumption.
Qed.

(* ... or with a condition on the output only *)
Corollary pp_run_events_out_normal first tn w out :
  all_normal out ->
  remove_txtpp src = Some out ->
  let its := match read_file (w_fs w) src with
             | Some raw => parse (mode_eqb md Clean) None (fst (take_valid (lines raw)))
             | None => [] end in
  forall w', (pp_run orc md base src first tn w = PpOk w' \/
              (exists d, pp_run orc md base src first tn w = PpHasDeps d w') \/
              (exists k, pp_run orc md base src first tn w = PpErr k w')) ->
  exists evs, extends w w' evs /\ Forall (ev_allowed (allowed_paths src out its)) evs.
Proof.
  intros Hn. apply pp_run_events_weaker. apply lex_normalize_normal.
  unfold parent. apply all_normal_removelast. exact Hn.
Qed.

(* without any assumption: the events are on `out`, on its normalisation, or on a temp target *)
Theorem pp_run_events_general first tn w out :
  remove_txtpp src = Some out ->
  let its := match read_file (w_fs w) src with
             | Some raw => parse (mode_eqb md Clean) None (fst (take_valid (lines raw)))
             | None => [] end in
  forall w', (pp_run orc md base src first tn w = PpOk w' \/
              (exists d, pp_run orc md base src first tn w = PpHasDeps d w') \/
              (exists k, pp_run orc md base src first tn w = PpErr k w')) ->
  exists evs, extends w w' evs /\
              Forall (ev_allowed (lex_normalize out :: allowed_paths src out its)) evs.
Proof.
  intros Hout its w' Hres. apply outcome_world_disj in Hres.
  pose proof (pp_run_tr orc md base src first tn w
                (ev_allowed (lex_normalize out :: allowed_paths src out its))) as X.
  rewrite Hres in X. apply tr_extends. apply X.
  - intros out' e Ho He. rewrite Hout in Ho. inversion Ho; subst out'.
    assert (Hw : wr_ev out e -> ev_allowed (lex_normalize out :: allowed_paths src out its) e).
    { intros Hwr. apply wr_ev_normalize in Hwr. subst e. unfold ev_allowed. simpl. left. reflexivity. }
    assert (Ha : forall p, ev_path e = Some p -> p = out ->
                           ev_allowed (lex_normalize out :: allowed_paths src out its) e).
    { intros p Hp ->. unfold ev_allowed. rewrite Hp. right. left. reflexivity. }
    destruct md; simpl in He.
    + destruct He as [He|He]; [apply Hw; exact He|]. subst e. eapply Ha; reflexivity.
    + apply Hw. exact He.
    + subst e. eapply Ha; reflexivity.
    + destruct He.
  - intros raw d fol e ER Hin He. subst its. rewrite ER.
    pose proof (dir_ev_allowed md src out d fol _ e Hin He) as Y.
    unfold ev_allowed in *. destruct (ev_path e); [right; exact Y|exact I].
Qed.

End Facts.

(* world primitives change only the path they log *)
Lemma w_write_frame w lp c w' p :
  w_write w lp c = Some w' ->
  exists q, w_log w' = w_log w ++ [EWrite q] /\ (p <> q -> fs_get (w_fs w') p = fs_get (w_fs w) p).
Proof.
  unfold w_write. destruct (write_target (w_fs w) lp) as [q|]; [|discriminate].
  intros H. inversion H; subst w'; clear H. exists q. simpl. split; [reflexivity|].
  intros Hp. apply fs_get_put_other_l. intros Heq. apply Hp. symmetry. exact Heq.
Qed.
Lemma w_append_frame w q c w' p :
  w_append w q c = Some w' ->
  w_log w' = w_log w ++ [EWrite q] /\ (p <> q -> fs_get (w_fs w') p = fs_get (w_fs w) p).
Proof.
  unfold w_append. destruct (fs_get (w_fs w) q) as [[old|]|]; try discriminate.
  intros H. inversion H; subst w'; clear H. simpl. split; [reflexivity|].
  intros Hp. apply fs_get_put_other_l. intros Heq. apply Hp. symmetry. exact Heq.
Qed.
Lemma w_remove_frame w q w' p :
  w_remove_file w q = Some w' ->
  w_log w' = w_log w ++ [ERemove q] /\ (p <> q -> fs_get (w_fs w') p = fs_get (w_fs w) p).
Proof.
  unfold w_remove_file. destruct (fs_get (w_fs w) q) as [[old|]|]; try discriminate.
  intros H. inversion H; subst w'; clear H. simpl. split; [reflexivity|].
  intros Hp. apply fs_get_del_other_l. intros Heq. apply Hp. symmetry. exact Heq.
Qed.

(* C10: a path on which no event was logged keeps its node *)
Theorem pp_run_frame orc md base src first tn w w' p :
  (pp_run orc md base src first tn w = PpOk w' \/
   (exists d, pp_run orc md base src first tn w = PpHasDeps d w') \/
   (exists k, pp_run orc md base src first tn w = PpErr k w')) ->
  (forall e, In e (skipn (length (w_log w)) (w_log w')) -> ev_path e <> Some p) ->
  fs_get (w_fs w') p = fs_get (w_fs w) p.
Proof.
  intros Hres Hno. apply outcome_world_disj in Hres.
  pose proof (pp_run_tr orc md base src first tn w (fun _ => True)) as X.
  rewrite Hres in X. destruct X as (evs & L & _ & G); [auto|auto|].
  apply G. intros e He. apply Hno. rewrite L, skipn_app_exact. exact He.
Qed.

(* C07: clean only removes (never creates or writes), and never runs a command *)
Theorem clean_events_remove_only orc base src first tn w w' :
  (pp_run orc Clean base src first tn w = PpOk w' \/
   (exists d, pp_run orc Clean base src first tn w = PpHasDeps d w') \/
   (exists k, pp_run orc Clean base src first tn w = PpErr k w')) ->
  exists evs, extends w w' evs /\ Forall (fun e => exists p, e = ERemove p) evs.
Proof.
  intros Hres. apply outcome_world_disj in Hres.
  pose proof (pp_run_tr orc Clean base src first tn w (fun e => exists p, e = ERemove p)) as X.
  rewrite Hres in X. apply tr_extends. apply X.
  - intros out e _ He. simpl in He. exists out. exact He.
  - intros raw d fol e _ _ He. destruct e as [p|p|c cw f]; simpl in He.
    + destruct He as [He _]. exfalso. apply He. reflexivity.
    + exists p. reflexivity.
    + exfalso. apply He. reflexivity.
Qed.

(* C06: in verify mode the output path receives no event unless a temp directive names it *)
Theorem verify_events_not_output orc base src first tn w w' out :
  remove_txtpp src = Some out ->
  (pp_run orc Verify base src first tn w = PpOk w' \/
   (exists d, pp_run orc Verify base src first tn w = PpHasDeps d w') \/
   (exists k, pp_run orc Verify base src first tn w = PpErr k w')) ->
  let its := match read_file (w_fs w) src with
             | Some raw => parse false None (fst (take_valid (lines raw)))
             | None => [] end in
  ~ In out (map (fun a => lex_normalize (lex_join (parent src) a)) (temp_args its)) ->
  forall e, In e (skipn (length (w_log w)) (w_log w')) -> ev_path e <> Some out.
Proof.
  intros Hout Hres its Hnot. apply outcome_world_disj in Hres.
  pose proof (pp_run_tr orc Verify base src first tn w (fun e => ev_path e <> Some out)) as X.
  rewrite Hres in X. destruct X as (evs & L & F & _).
  - intros out' e _ He. destruct He.
  - intros raw d fol e ER Hin He. simpl mode_eqb in Hin.
    destruct e as [p|p|c cw f]; simpl in He |- *.
    + destruct He as [_ He]. intros Heq. inversion Heq; subst p. apply Hnot.
      subst its. rewrite ER. eapply temp_path_in_temp_args; eauto.
    + destruct He as [He _]. discriminate.
    + discriminate.
  - intros e He. rewrite L, skipn_app_exact in He. rewrite Forall_forall in F. apply F. exact He.
Qed.

(* ------------------------------------------------------------------ *)
(* fix F8: a source without an output path is refused (OpenFile) with the world untouched; in particular
   the sources whose stem is `.` (`..txtpp`, `..txtpp.ext`, `..txtpp.txtpp`), for which IOCtx::new finds
   an output path without file name or outside the source's directory
   (PathFacts is imported only here, so nothing above is affected) *)
Require Import Txtpp.proofs.PathFacts.

Theorem pp_run_no_output_refused orc md base src first tn w :
  remove_txtpp src = None -> pp_run orc md base src first tn w = PpErr KOpen w.
Proof.
  intros H. unfold pp_run. destruct (read_file (w_fs w) src) as [raw|]; [|reflexivity].
  rewrite H. reflexivity.
Qed.

Theorem pp_run_dot_stem_refused orc md base src first tn w :
  dot_stem src = true -> pp_run orc md base src first tn w = PpErr KOpen w.
Proof.
  intros H. apply pp_run_no_output_refused. apply remove_txtpp_none_iff. right. exact H.
Qed.

Theorem dot_stem_sources_are_refused_by_pp_run orc md base dir first tn w :
  pp_run orc md base (dir ++ [[DOT; DOT] ++ TXTPP_EXT]) first tn w = PpErr KOpen w /\
  (forall ext, ~ In DOT ext ->
     pp_run orc md base (dir ++ [[DOT; DOT] ++ TXTPP_EXT ++ DOT :: ext]) first tn w = PpErr KOpen w) /\
  pp_run orc md base (dir ++ [[DOT; DOT] ++ TXTPP_EXT ++ DOT :: TXTPP_EXT]) first tn w = PpErr KOpen w.
Proof.
  destruct (dot_stem_sources_are_refused dir) as (H1 & H2 & H3).
  split; [|split]; [|intros ext He|]; apply pp_run_no_output_refused; auto.
Qed.
